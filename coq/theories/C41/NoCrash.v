(* The model decoder returns a value or an error for every JSON tree that does not contain
   the string "Restriction"; with it, the model (like the Go code) panics with a non-error
   value that escapes Decode. *)
From CV Require Import C41.Json C41.StrProofs C41.TypeProofs.
Local Open Scope Z_scope.

Definition NC {A} (r : res A) : Prop := r <> Err Crash.

Lemma NC_ok {A} (a : A) : NC (Ok a). Proof. discriminate. Qed.
Lemma NC_user {A} : NC (@Err A UserOther). Proof. discriminate. Qed.
Lemma NC_internal {A} : NC (@Err A Internal). Proof. discriminate. Qed.
Lemma NC_bind {A B} (x : res A) (f : A -> res B) : NC x -> (forall a, NC (f a)) -> NC (bind x f).
Proof.
  intros Hx Hf. destruct x as [a|e]; cbn; [apply Hf|].
  intro H. apply Hx. inversion H; reflexivity.
Qed.

Lemma NC_bind_eq {A B} (x : res A) (f : A -> res B) :
  NC x -> (forall a, x = Ok a -> NC (f a)) -> NC (bind x f).
Proof.
  intros Hx Hf. destruct x as [a|e]; cbn; [apply Hf; reflexivity|].
  intro H. apply Hx. inversion H; reflexivity.
Qed.

Lemma getk_gen_cons {A} (f : json -> res A) d k k' v r :
  getk_gen f d k ((k', v) :: r) = if str_eqb k k' && negb (has_key k r) then f v else getk_gen f d k r.
Proof. reflexivity. Qed.

Lemma NC_getk_gen {A} (f : json -> res A) d k m :
  NC d -> Forall (fun kv => NC (f (snd kv))) m -> NC (getk_gen f d k m).
Proof.
  intros Hd HF. induction HF as [|[k' v] r Hv _ IH]; cbn; [exact Hd|].
  destruct (str_eqb k k' && negb (has_key k r)); [exact Hv|exact IH].
Qed.
Lemma NC_getk {A} (f : json -> res A) k m :
  Forall (fun kv => NC (f (snd kv))) m -> NC (getk f k m).
Proof. apply NC_getk_gen. apply NC_user. Qed.

Lemma NC_mapM {A B} (f : A -> res B) l : Forall (fun x => NC (f x)) l -> NC (mapM f l).
Proof.
  induction 1 as [|x r Hx _ IH]; cbn; [apply NC_ok|].
  apply NC_bind; [exact Hx|]. intro. apply NC_bind; [exact IH|]. intro. apply NC_ok.
Qed.
Lemma NC_mapM_st {A B S} (f : S -> A -> res (B * S)) l :
  Forall (fun x => forall s, NC (f s x)) l -> forall s, NC (mapM_st f s l).
Proof.
  induction 1 as [|x r Hx _ IH]; intro s; cbn; [apply NC_ok|].
  apply NC_bind; [apply Hx|]. intro. apply NC_bind; [apply IH|]. intro. apply NC_ok.
Qed.

Lemma NC_to_str j : NC (to_str j). Proof. destruct j; cbn; discriminate. Qed.
Lemma NC_to_obj j : NC (to_obj j). Proof. destruct j; cbn; discriminate. Qed.
Lemma NC_to_arr j : NC (to_arr j). Proof. destruct j; cbn; discriminate. Qed.
Lemma NC_to_bool j : NC (to_bool j). Proof. destruct j; cbn; discriminate. Qed.
Lemma NC_to_uint j : NC (to_uint j). Proof. destruct j; cbn; discriminate. Qed.

Lemma NC_leaf {A} (f : json -> res A) (m : list (str * json)) :
  (forall j, NC (f j)) -> Forall (fun kv => NC (f (snd kv))) m.
Proof. intro H. apply Forall_forall. intros kv _. apply H. Qed.

Lemma NC_parse_num k s : NC (parse_num k s).
Proof.
  unfold parse_num, parse_fixed.
  repeat match goal with
         | |- NC (Ok _) => apply NC_ok
         | |- NC (Err UserOther) => apply NC_user
         | |- NC (if ?c then _ else _) => destruct c
         | |- NC (match ?x with _ => _ end) => destruct x
         end.
Qed.

Lemma NC_dec_address j : NC (dec_address j).
Proof.
  unfold dec_address. apply NC_bind; [apply NC_to_str|]. intro s.
  repeat match goal with
         | |- NC (Ok _) => apply NC_ok
         | |- NC (Err UserOther) => apply NC_user
         | |- NC (Err Internal) => apply NC_internal
         | |- NC (if ?c then _ else _) => destruct c
         | |- NC (match ?x with _ => _ end) => destruct x
         end.
Qed.

Lemma NC_dec_entitlement_ids j : NC (dec_entitlement_ids j).
Proof.
  unfold dec_entitlement_ids. apply NC_bind; [apply NC_to_arr|]. intro l.
  apply NC_mapM. apply Forall_forall. intros e _.
  apply NC_bind; [apply NC_to_obj|]. intro m. apply NC_getk. apply NC_leaf. apply NC_to_str.
Qed.

Lemma NC_dec_auth j : NC (dec_auth j).
Proof.
  unfold dec_auth. apply NC_bind; [apply NC_to_obj|]. intro m.
  apply NC_bind; [apply NC_getk, NC_leaf, NC_to_str|]. intro kind.
  repeat match goal with
         | |- NC (Ok _) => apply NC_ok
         | |- NC (Err UserOther) => apply NC_user
         | |- NC (if ?c then _ else _) => destruct c
         | |- NC (bind _ _) => apply NC_bind; [apply NC_getk, NC_leaf, NC_dec_entitlement_ids|intro]
         | |- NC (match ?x with _ => _ end) => destruct x
         end.
Qed.

(* ------------------------------------------------------------------ induction on JSON trees *)
Section JsonInd.
  Variable P : json -> Prop.
  Hypothesis HNull : P JNull.
  Hypothesis HBool : forall b, P (JBool b).
  Hypothesis HStr : forall s, P (JStr s).
  Hypothesis HNum : forall z, P (JNum z).
  Hypothesis HArr : forall l, Forall P l -> P (JArr l).
  Hypothesis HObj : forall m, Forall (fun kv => P (snd kv)) m -> P (JObj m).
  Fixpoint json_ind2 (j : json) : P j :=
    match j with
    | JNull => HNull
    | JBool b => HBool b
    | JStr s => HStr s
    | JNum z => HNum z
    | JArr l => HArr l ((fix go (l : list json) : Forall P l :=
                           match l with
                           | [] => Forall_nil _
                           | x :: r => Forall_cons x (json_ind2 x) (go r)
                           end) l)
    | JObj m => HObj m ((fix go (m : list (str * json)) : Forall (fun kv => P (snd kv)) m :=
                           match m with
                           | [] => Forall_nil _
                           | x :: r => Forall_cons x (json_ind2 (snd x)) (go r)
                           end) m)
    end.
End JsonInd.

(* no string "Restriction" anywhere in the document *)
Fixpoint no_restriction (j : json) : bool :=
  match j with
  | JStr s => negb (str_eqb s sRestriction)
  | JArr l => forallb no_restriction l
  | JObj m => forallb (fun kv => no_restriction (snd kv)) m
  | _ => true
  end.

(* P holds at every node of the tree *)
Inductive Deep (P : json -> Prop) : json -> Prop :=
| DLeaf j : (match j with JArr _ | JObj _ => False | _ => True end) -> P j -> Deep P j
| DArr l : P (JArr l) -> Forall (Deep P) l -> Deep P (JArr l)
| DObj m : P (JObj m) -> Forall (fun kv => Deep P (snd kv)) m -> Deep P (JObj m).

Lemma Deep_here P j : Deep P j -> P j.
Proof. destruct 1; assumption. Qed.

Section NoCrash.
  Variable valid_char : str -> bool.
  Variable tid_canon : str -> option str.
  Variable is_simple : str -> bool.

  Notation dec_ty := (dec_ty tid_canon is_simple).
  Notation dec_val := (dec_val valid_char tid_canon is_simple).

  Definition PNC (j : json) : Prop := (forall s, NC (dec_ty s j)) /\ NC (dec_val j).
  Definition D := Deep PNC.

  Lemma D_ty j : D j -> forall s, NC (dec_ty s j).
  Proof. intro H. apply (Deep_here _ _ H). Qed.
  Lemma D_val j : D j -> NC (dec_val j).
  Proof. intro H. apply (Deep_here _ _ H). Qed.

  Lemma members_ty (m : list (str * json)) s : Forall (fun kv => D (snd kv)) m -> Forall (fun kv => NC (dec_ty s (snd kv))) m.
  Proof. intro H. eapply Forall_impl; [|exact H]. intros kv Hd. apply D_ty; assumption. Qed.
  Lemma members_val (m : list (str * json)) : Forall (fun kv => D (snd kv)) m -> Forall (fun kv => NC (dec_val (snd kv))) m.
  Proof. intro H. eapply Forall_impl; [|exact H]. intros kv Hd. apply D_val; assumption. Qed.

  Lemma NC_dec_tid j : NC (dec_tid tid_canon j).
  Proof.
    unfold dec_tid. apply NC_bind; [apply NC_to_str|]. intro s.
    destruct (tid_canon s); [apply NC_ok|apply NC_user].
  Qed.

  Lemma NC_param j : D j -> forall s, NC (dec_param_with dec_ty s j).
  Proof.
    intros Hd s. unfold dec_param_with. destruct j; try apply NC_user.
    inversion Hd as [? Hf|?|? _ Hm]; subst; [contradiction|].
    apply NC_bind; [apply NC_getk, NC_leaf, NC_to_str|]. intro.
    apply NC_bind; [apply NC_getk, NC_leaf, NC_to_str|]. intro.
    apply NC_bind; [apply NC_getk, members_ty; assumption|]. intro. apply NC_ok.
  Qed.

  Lemma NC_params j : D j -> forall s, NC (dec_params_with dec_ty s j).
  Proof.
    intros Hd s. unfold dec_params_with. destruct j; try apply NC_user.
    inversion Hd as [? Hf|? _ Hl|]; subst; [contradiction|].
    apply NC_mapM_st. eapply Forall_impl; [|exact Hl]. intros e He. apply NC_param; assumption.
  Qed.

  Lemma NC_inits j : D j -> forall s, NC (dec_inits_with dec_ty s j).
  Proof.
    intros Hd s. unfold dec_inits_with. destruct j; try apply NC_user.
    inversion Hd as [? Hf|? _ Hl|]; subst; [contradiction|].
    apply NC_mapM_st. eapply Forall_impl; [|exact Hl]. intros e He. apply NC_params; assumption.
  Qed.

  Lemma NC_tparams j : D j -> forall s, NC (dec_tparams_with dec_ty s j).
  Proof.
    intros Hd s. unfold dec_tparams_with. destruct j; try apply NC_user; try apply NC_ok.
    inversion Hd as [? Hf|? _ Hl|]; subst; [contradiction|].
    apply NC_mapM_st. eapply Forall_impl; [|exact Hl]. intros e He s0.
    unfold dec_tparam_with. destruct e; try apply NC_user.
    inversion He as [? Hf|?|? _ Hm]; subst; [contradiction|].
    apply NC_bind; [apply NC_getk, NC_leaf, NC_to_str|]. intro.
    apply NC_bind; [apply NC_getk_gen; [apply NC_ok|apply members_ty; assumption]|]. intro. apply NC_ok.
  Qed.

  Lemma NC_fields j : D j -> forall s, NC (dec_fields_with dec_ty s j).
  Proof.
    intros Hd s. unfold dec_fields_with. destruct j; try apply NC_user.
    inversion Hd as [? Hf|? _ Hl|]; subst; [contradiction|].
    apply NC_mapM_st. eapply Forall_impl; [|exact Hl]. intros e He s0.
    unfold dec_field_with. destruct e; try apply NC_user.
    inversion He as [? Hf|?|? _ Hm]; subst; [contradiction|].
    apply NC_bind; [apply NC_getk, NC_leaf, NC_to_str|]. intro.
    apply NC_bind; [apply NC_getk, members_ty; assumption|]. intro. apply NC_ok.
  Qed.

  Lemma NC_types j : D j -> forall s, NC (dec_types_with dec_ty s j).
  Proof.
    intros Hd s. unfold dec_types_with. destruct j; try apply NC_user.
    inversion Hd as [? Hf|? _ Hl|]; subst; [contradiction|].
    apply NC_mapM_st. eapply Forall_impl; [|exact Hl]. intros e He. apply D_ty; assumption.
  Qed.

  Lemma members_with {A} (f : json -> res A) (m : list (str * json)) :
    (forall j, D j -> NC (f j)) -> Forall (fun kv => D (snd kv)) m -> Forall (fun kv => NC (f (snd kv))) m.
  Proof. intros Hf H. eapply Forall_impl; [|exact H]. intros kv Hd. apply Hf; assumption. Qed.

  (* kind "Restriction" cannot be the value of the "kind" member *)
  Lemma kind_not_restriction m kind :
    forallb (fun kv => no_restriction (snd kv)) m = true ->
    getk to_str kKind m = Ok kind -> tkind_of_str kind <> TKRestriction.
  Proof.
    intros Hm Hk. unfold getk in Hk.
    assert (Hmem : exists v, In (kKind, v) m /\ to_str v = Ok kind).
    { clear Hm. induction m as [|[k' v] r IH]; [discriminate|]. rewrite getk_gen_cons in Hk.
      destruct (str_eqb kKind k' && negb (has_key kKind r)) eqn:E.
      - apply andb_true_iff in E as [E _]. apply str_eqb_eq in E. subst. exists v. split; [left; reflexivity|assumption].
      - destruct (IH Hk) as (v' & Hin & Hv). exists v'. split; [right; assumption|assumption]. }
    destruct Hmem as (v & Hin & Hv). rewrite forallb_forall in Hm. specialize (Hm _ Hin). cbn [snd] in Hm.
    destruct v; cbn in Hv; try discriminate. inversion Hv; subst. cbn [no_restriction] in Hm.
    unfold tkind_of_str.
    destruct (str_eqb kind sFunction); [discriminate|].
    destruct (str_eqb kind sIntersection); [discriminate|].
    destruct (str_eqb kind sOptional); [discriminate|].
    destruct (str_eqb kind sRestriction); [discriminate|].
    repeat match goal with |- (if ?c then _ else _) <> _ => destruct c; [discriminate|] end.
    discriminate.
  Qed.

  Lemma PNC_obj m :
    forallb (fun kv => no_restriction (snd kv)) m = true ->
    Forall (fun kv => D (snd kv)) m -> PNC (JObj m).
  Proof.
    intros Hnr Hm. split.
    - (* decodeType *)
      intro s. rewrite dec_ty_obj.
      apply NC_bind_eq; [apply NC_getk, NC_leaf, NC_to_str|]. intros kind Hk.
      pose proof (kind_not_restriction _ _ Hnr Hk) as Hnot.
      destruct (tkind_of_str kind); try contradiction.
      + (* Function *)
        apply NC_bind.
        { apply NC_getk_gen; [apply NC_ok|]. apply Forall_forall. intros kv _.
          apply NC_bind; [apply NC_to_str|]. intro. apply NC_ok. }
        intro. apply NC_bind.
        { apply NC_getk_gen; [apply NC_ok|]. apply members_with; [|assumption]. intros j Hj. apply NC_tparams; assumption. }
        intro. apply NC_bind.
        { apply NC_getk. apply members_with; [|assumption]. intros j Hj. apply NC_params; assumption. }
        intro. apply NC_bind; [apply NC_getk, members_ty; assumption|]. intro. apply NC_ok.
      + apply NC_bind; [|intro; apply NC_ok].
        apply NC_getk. apply members_with; [|assumption]. intros j Hj. apply NC_types; assumption.
      + apply NC_bind; [apply NC_getk, members_ty; assumption|intro; apply NC_ok].
      + apply NC_bind; [apply NC_getk, members_ty; assumption|intro; apply NC_ok].
      + apply NC_bind; [apply NC_getk, members_ty; assumption|intro; apply NC_ok].
      + apply NC_bind; [apply NC_getk, members_ty; assumption|]. intro.
        apply NC_bind; [apply NC_getk, members_ty; assumption|intro; apply NC_ok].
      + apply NC_bind; [apply NC_getk, members_ty; assumption|intro; apply NC_ok].
      + apply NC_bind; [apply NC_getk, NC_leaf, NC_to_uint|]. intro.
        apply NC_bind; [apply NC_getk, members_ty; assumption|intro; apply NC_ok].
      + apply NC_bind; [apply NC_getk, members_ty; assumption|]. intro.
        apply NC_bind; [apply NC_getk, NC_leaf, NC_dec_auth|intro; apply NC_ok].
      + (* simple / nominal *)
        destruct (is_simple kind); [apply NC_ok|].
        apply NC_bind.
        { apply NC_getk. apply members_with; [|assumption]. intros j Hj. apply NC_inits; assumption. }
        intro. apply NC_bind; [apply NC_getk, NC_leaf, NC_dec_tid|]. intro.
        destruct (ckind_of_str kind); [|apply NC_user].
        apply NC_bind.
        { destruct (ckind_has_extra c); [apply NC_getk, members_ty; assumption|apply NC_ok]. }
        intro. destruct (_ && _); [apply NC_user|].
        apply NC_bind; [|intro; apply NC_ok].
        apply NC_getk. apply members_with; [|assumption]. intros j Hj. apply NC_fields; assumption.
    - (* decodeValue *)
      change (NC (let* ts := getk to_str kType m in
                  if str_eqb ts sVoid then (if nkeys m =? 1 then Ok VVoid else Err UserOther)
                  else if negb (nkeys m =? 2) then Err UserOther
                  else getk (dec_value_with valid_char tid_canon is_simple dec_val ts) kValue m)).
      apply NC_bind; [apply NC_getk, NC_leaf, NC_to_str|]. intro ts.
      destruct (str_eqb ts sVoid); [destruct (nkeys m =? 1); [apply NC_ok|apply NC_user]|].
      destruct (negb (nkeys m =? 2)); [apply NC_user|].
      apply NC_getk. apply members_with; [|assumption]. intros vj Hvj.
      unfold dec_value_with.
      destruct (vkind_of_str ts) as [vk|]; [|apply NC_user].
      destruct vk.
      + (* Optional *) destruct vj; try apply NC_ok;
          (apply NC_bind; [apply D_val; assumption|intro; apply NC_ok]).
      + apply NC_bind; [apply NC_to_bool|intro; apply NC_ok].
      + apply NC_bind; [apply NC_to_str|]. intro. destruct (valid_char a); [apply NC_ok|apply NC_user].
      + apply NC_bind; [apply NC_to_str|intro; apply NC_ok].
      + apply NC_bind; [apply NC_dec_address|intro; apply NC_ok].
      + apply NC_bind; [apply NC_to_str|]. intro. apply NC_bind; [apply NC_parse_num|intro; apply NC_ok].
      + (* Array *) destruct vj; try apply NC_user.
        inversion Hvj as [? Hf|? _ Hl|]; subst; [contradiction|].
        apply NC_bind; [|intro; apply NC_ok]. apply NC_mapM.
        eapply Forall_impl; [|exact Hl]. intros e He. apply D_val; assumption.
      + (* Dictionary *) destruct vj; try apply NC_user.
        inversion Hvj as [? Hf|? _ Hl|]; subst; [contradiction|].
        apply NC_bind; [|intro; apply NC_ok]. apply NC_mapM.
        eapply Forall_impl; [|exact Hl]. intros e He. unfold dec_pair_with. destruct e; try apply NC_user.
        inversion He as [? Hf|?|? _ Hpm]; subst; [contradiction|].
        apply NC_bind; [apply NC_getk, members_val; assumption|]. intro.
        apply NC_bind; [apply NC_getk, members_val; assumption|intro; apply NC_ok].
      + (* Composite *) destruct vj; try apply NC_user.
        inversion Hvj as [? Hf|?|? _ Hcm]; subst; [contradiction|].
        apply NC_bind; [apply NC_getk, NC_leaf, NC_dec_tid|]. intro.
        apply NC_bind; [|intro; apply NC_ok].
        apply NC_getk. apply members_with; [|assumption]. intros fj Hfj.
        unfold dec_cfields_with. destruct fj; try apply NC_user.
        inversion Hfj as [? Hf|? _ Hl|]; subst; [contradiction|].
        apply NC_mapM. eapply Forall_impl; [|exact Hl]. intros e He.
        unfold dec_cfield_with. destruct e; try apply NC_user.
        inversion He as [? Hf|?|? _ Hfm]; subst; [contradiction|].
        apply NC_bind; [apply NC_getk, NC_leaf, NC_to_str|]. intro.
        apply NC_bind; [apply NC_getk, members_val; assumption|intro; apply NC_ok].
      + (* InclusiveRange *) destruct vj; try apply NC_user.
        inversion Hvj as [? Hf|?|? _ Hrm]; subst; [contradiction|].
        apply NC_bind; [apply NC_getk, members_val; assumption|]. intro.
        apply NC_bind; [apply NC_getk, members_val; assumption|]. intro.
        apply NC_bind; [apply NC_getk, members_val; assumption|intro; apply NC_ok].
      + (* Path *)
        apply NC_bind; [apply NC_to_obj|]. intro.
        apply NC_bind.
        { apply NC_getk. apply Forall_forall. intros kv _. apply NC_bind; [apply NC_to_str|intro; apply NC_ok]. }
        intro. apply NC_bind; [apply NC_getk, NC_leaf, NC_to_str|]. intro.
        destruct (_ =? _); [apply NC_user|apply NC_ok].
      + (* Type *)
        destruct vj; cbn [to_obj bind]; try apply NC_user.
        inversion Hvj as [? Hf|?|? _ Htm]; subst; [contradiction|].
        apply NC_bind; [|intro; apply NC_ok].
        apply NC_getk. apply members_with; [|assumption]. intros tj Htj.
        unfold Json.dec_ty_top. apply NC_bind; [apply D_ty; assumption|intro; apply NC_ok].
      + (* Capability *)
        destruct vj; cbn [to_obj bind]; try apply NC_user.
        inversion Hvj as [? Hf|?|? _ Hcm]; subst; [contradiction|].
        apply NC_bind; [apply NC_getk, NC_leaf, NC_dec_address|]. intro.
        apply NC_bind.
        { apply NC_getk. apply members_with; [|assumption]. intros tj Htj.
          unfold Json.dec_ty_top. apply NC_bind; [apply D_ty; assumption|intro; apply NC_ok]. }
        intro. destruct (has_key kPath m0); [apply NC_user|].
        apply NC_bind; [|intro; apply NC_ok].
        apply NC_getk. apply Forall_forall. intros kv _. apply NC_bind; [apply NC_to_str|intro; apply NC_parse_num].
      + (* Function *)
        destruct vj; cbn [to_obj bind]; try apply NC_user.
        inversion Hvj as [? Hf|?|? _ Hfm]; subst; [contradiction|].
        apply NC_bind.
        { apply NC_getk. apply members_with; [|assumption]. intros tj Htj.
          unfold Json.dec_ty_top. apply NC_bind; [apply D_ty; assumption|intro; apply NC_ok]. }
        intro t. destruct t; try apply NC_user. apply NC_ok.
  Qed.

  Theorem no_restriction_deep : forall j, no_restriction j = true -> D j.
  Proof.
    induction j using json_ind2; intro Hnr.
    - apply DLeaf; [exact I|]. split; [intro; cbn; apply NC_user|cbn; apply NC_user].
    - apply DLeaf; [exact I|]. split; [intro; cbn; apply NC_user|cbn; apply NC_user].
    - apply DLeaf; [exact I|]. split; [|cbn; apply NC_user].
      intro s0. cbn [Json.dec_ty]. destruct s; [apply NC_ok|].
      destruct (str_mem _ _); [apply NC_ok|apply NC_user].
    - apply DLeaf; [exact I|]. split; [intro; cbn; apply NC_user|cbn; apply NC_user].
    - cbn [no_restriction] in Hnr. apply DArr.
      + split; [intro; cbn; apply NC_user|cbn; apply NC_user].
      + rewrite forallb_forall in Hnr. rewrite Forall_forall in *. intros x Hx. apply H; auto.
    - cbn [no_restriction] in Hnr.
      assert (Hm : Forall (fun kv => D (snd kv)) m).
      { rewrite forallb_forall in Hnr. rewrite Forall_forall in *. intros x Hx. apply H; auto. }
      apply DObj; [|assumption]. apply PNC_obj; assumption.
  Qed.

  (* decoding never panics (escaping Decode) on documents without the string "Restriction" *)
  Theorem decode_no_crash_partial j :
    no_restriction j = true -> json_decode valid_char tid_canon is_simple j <> Err Crash.
  Proof. intro H. apply (D_val _ (no_restriction_deep _ H)). Qed.
End NoCrash.
