(* Round trip of the textual number formats of JSON-Cadence:
   parse_num k (num_str k z) = Ok z for every numeric kind k and every z in the range of k. *)
From CV Require Import C41.Json C41.StrProofs.
From Coq Require Import ZifyBool.
Local Open Scope Z_scope.
Local Arguments Z.add : simpl never.
Local Arguments Z.sub : simpl never.
Local Arguments Z.mul : simpl never.
Local Arguments Z.opp : simpl never.
Local Arguments Z.pow : simpl never.
Local Arguments Z.div : simpl never.
Local Arguments Z.modulo : simpl never.
Local Arguments Z.quot : simpl never.
Local Arguments Z.rem : simpl never.
Local Arguments Z.abs : simpl never.
Local Arguments Z.ltb : simpl never.
Local Arguments Z.leb : simpl never.
Local Arguments Z.eqb : simpl never.
Local Arguments Z.of_nat : simpl never.

Lemma forallb_nodot_app a b :
  forallb (fun c => negb (c =? cDot)) (a ++ b) =
  forallb (fun c => negb (c =? cDot)) a && forallb (fun c => negb (c =? cDot)) b.
Proof. apply forallb_app. Qed.

(* the generic part of the fixed-point round trip; the arithmetic side conditions (range check,
   no wrap-around) are discharged per kind below *)
Lemma parse_fixed_fix_str k s mn mx z :
  nk_scale k = Some s -> (0 < s)%nat ->
  nk_min k = Some mn -> nk_max k = Some mx ->
  let f := 10 ^ Z.of_nat s in
  ((z <? 0) && negb (nk_signed k) = false) ->
  check_range (z <? 0) (Z.abs (Z.quot z f)) (Z.abs (Z.rem z f))
    (Z.quot mn f) (Z.abs (Z.rem mn f)) (Z.quot mx f) (Z.abs (Z.rem mx f)) = true ->
  (if nk_signed k then wrap_signed (nk_bits k) z else z mod 2 ^ nk_bits k) = z ->
  parse_fixed k (fix_str s z) = Ok z.
Proof.
  intros Hs Hpos Hmn Hmx f Hneg Hrange Hwrap.
  assert (Hf : 0 < f) by (apply Z.pow_pos_nonneg; lia).
  pose proof (Z.quot_rem' z f) as Hqr.
  pose proof (Z.rem_bound_abs z f ltac:(lia)) as Hrb.
  assert (Hsgn : (0 <= z -> 0 <= Z.quot z f /\ 0 <= Z.rem z f) /\
                 (z < 0 -> Z.quot z f <= 0 /\ Z.rem z f <= 0)).
  { split; intro Hz.
    - split; [apply Z.quot_pos; lia | apply Z.rem_nonneg; lia].
    - split.
      + replace z with (- (- z)) by lia. rewrite Z.quot_opp_l by lia.
        pose proof (Z.quot_pos (- z) f ltac:(lia) ltac:(lia)). lia.
      + replace z with (- (- z)) by lia. rewrite Z.rem_opp_l by lia.
        pose proof (Z.rem_nonneg (- z) f ltac:(lia) ltac:(lia)). lia. }
  set (I := Z.quot z f) in *. set (F := Z.rem z f) in *.
  unfold parse_fixed. rewrite Hs, Hmn, Hmx.
  unfold fix_str. fold f. fold I. fold F.
  destruct (print_fixed_spec s (Z.abs F) ltac:(lia)) as (FV & FD & FL).
  set (fstr := print_fixed s (Z.abs F)) in *.
  set (pre := if (F <? 0) && (I =? 0) then [cMinus] else []).
  (* split at the dot *)
  assert (Hsplit : split_on cDot (pre ++ print_int I ++ [cDot] ++ fstr) = [pre ++ print_int I; fstr]).
  { rewrite app_assoc. apply split_on_one.
    - rewrite forallb_nodot_app, print_int_no_dot. unfold pre.
      destruct ((F <? 0) && (I =? 0)); reflexivity.
    - apply digits_no_dot; assumption. }
  rewrite Hsplit.
  (* first character: '-' exactly when z < 0 *)
  assert (Hfirst : match pre ++ print_int I ++ [cDot] ++ fstr with
                   | c :: _ => c =? cMinus | [] => false end = (z <? 0)).
  { unfold pre. destruct ((F <? 0) && (I =? 0)) eqn:E.
    - cbn [app]. rewrite Z.eqb_refl. lia.
    - cbn [app]. destruct (print_int_head I) as (c & r & Hp & Hc & _). rewrite Hp. cbn [app].
      rewrite Hc. lia. }
  rewrite Hfirst.
  (* integer part *)
  assert (Hint : parse_int (pre ++ print_int I) = Some I).
  { unfold pre. destruct ((F <? 0) && (I =? 0)) eqn:E.
    - assert (I = 0) by lia. subst I. rewrite H. cbn [app]. unfold parse_int. rewrite Z.eqb_refl.
      unfold print_int. replace (0 <? 0) with false by lia.
      rewrite parse_digits_print_nat by lia. reflexivity.
    - cbn [app]. apply parse_int_print_int. }
  rewrite Hint.
  (* fractional part *)
  assert (Hfne : exists c r, fstr = c :: r /\ is_digit c = true).
  { destruct fstr as [|c r]; [simpl in FL; lia|]. exists c, r. split; [reflexivity|].
    cbn [forallb] in FD. apply andb_true_iff in FD. tauto. }
  destruct Hfne as (c & r & Hfs & Hc).
  rewrite Hfs. rewrite <- Hfs.
  replace ((c =? cPlus) || (c =? cMinus)) with false
    by (unfold is_digit, cPlus, cMinus in *; lia).
  assert (Hfd : parse_digits fstr = Some (Z.abs F)).
  { unfold parse_digits. rewrite Hfs. rewrite <- Hfs. rewrite FD, FV.
    f_equal. apply Z.mod_small. lia. }
  rewrite Hfd.
  rewrite Hneg. cbn [negb].
  rewrite FL. rewrite Nat.ltb_irrefl.
  fold f. rewrite Hrange. cbn [negb].
  rewrite Nat.sub_diag. change (10 ^ Z.of_nat 0) with 1.
  f_equal.
  assert (Hv : (if z <? 0 then - (Z.abs I * f + Z.abs F * 1) else Z.abs I * f + Z.abs F * 1) = z).
  { destruct (z <? 0) eqn:E.
    - assert (HI : Z.abs I = - I) by lia. assert (HF : Z.abs F = - F) by lia.
      rewrite HI, HF. lia.
    - assert (HI : Z.abs I = I) by lia. assert (HF : Z.abs F = F) by lia.
      rewrite HI, HF. lia. }
  rewrite Hv. exact Hwrap.
Qed.

Lemma check_range_intro neg u fr minI minF maxI maxF :
  (neg = true -> minI <> 0) ->
  minI <= (if neg then - u else u) <= maxI ->
  ((if neg then - u else u) = minI -> if minI <? 0 then fr <= minF else minF <= fr) ->
  ((if neg then - u else u) = maxI -> if 0 <=? maxI then fr <= maxF else maxF <= fr) ->
  check_range neg u fr minI minF maxI maxF = true.
Proof.
  intros H0 H1 H2 H3. unfold check_range.
  destruct neg; cbn [andb].
  - destruct (minI =? 0) eqn:E0; [specialize (H0 eq_refl); lia|].
    destruct (- u <? minI) eqn:E1; [lia|].
    destruct (maxI <? - u) eqn:E2; [lia|].
    destruct (- u =? minI) eqn:E3; destruct (- u =? maxI) eqn:E4;
      try (specialize (H2 ltac:(lia))); try (specialize (H3 ltac:(lia)));
      destruct (minI <? 0); destruct (0 <=? maxI); lia.
  - destruct (u <? minI) eqn:E1; [lia|].
    destruct (maxI <? u) eqn:E2; [lia|].
    destruct (u =? minI) eqn:E3; destruct (u =? maxI) eqn:E4;
      try (specialize (H2 ltac:(lia))); try (specialize (H3 ltac:(lia)));
      destruct (minI <? 0); destruct (0 <=? maxI); lia.
Qed.

Ltac Zify.zify_post_hook ::= Z.to_euclidean_division_equations.

Lemma fix_roundtrip k s z :
  nk_scale k = Some s -> nk_in_range k z = true -> parse_fixed k (fix_str s z) = Ok z.
Proof.
  intros Hs Hr.
  destruct k; try discriminate; injection Hs as <-;
    unfold nk_in_range in Hr; cbn [nk_min nk_max] in Hr.
  - (* Fix64 *)
    apply (parse_fixed_fix_str NFix64 8%nat (- 2 ^ 63) (2 ^ 63 - 1)); try reflexivity; try lia.
    + replace (nk_signed NFix64) with true by reflexivity. apply andb_false_r.
    +       change (10 ^ Z.of_nat 8) with 100000000 in *.
      change (Z.quot (- 2 ^ 63) 100000000) with (-92233720368).
      change (Z.abs (Z.rem (- 2 ^ 63) 100000000)) with 54775808.
      change (Z.quot (2 ^ 63 - 1) 100000000) with 92233720368.
      change (Z.abs (Z.rem (2 ^ 63 - 1) 100000000)) with 54775807.
      change (2 ^ 63) with 9223372036854775808 in Hr.
      apply check_range_intro; destruct (z <? 0) eqn:Ez; intros;
        repeat match goal with |- context [if ?c then _ else _] => destruct c eqn:? end; lia.
    + replace (nk_signed NFix64) with true by reflexivity. replace (nk_bits NFix64) with 64 by reflexivity.
      unfold wrap_signed. change (2 ^ 63) with 9223372036854775808 in Hr.
      change (2 ^ 64) with 18446744073709551616. change (2 ^ (64 - 1)) with 9223372036854775808.
      destruct (_ <? _) eqn:E; lia.
  - (* Fix128 *)
    apply (parse_fixed_fix_str NFix128 24%nat (- 2 ^ 127) (2 ^ 127 - 1)); try reflexivity; try lia.
    + replace (nk_signed NFix128) with true by reflexivity. apply andb_false_r.
    +       change (10 ^ Z.of_nat 24) with 1000000000000000000000000 in *.
      change (Z.quot (- 2 ^ 127) 1000000000000000000000000) with (-170141183460469).
      change (Z.abs (Z.rem (- 2 ^ 127) 1000000000000000000000000)) with 231731687303715884105728.
      change (Z.quot (2 ^ 127 - 1) 1000000000000000000000000) with 170141183460469.
      change (Z.abs (Z.rem (2 ^ 127 - 1) 1000000000000000000000000)) with 231731687303715884105727.
      change (2 ^ 127) with 170141183460469231731687303715884105728 in Hr.
      apply check_range_intro; destruct (z <? 0) eqn:Ez; intros;
        repeat match goal with |- context [if ?c then _ else _] => destruct c eqn:? end; lia.
    + replace (nk_signed NFix128) with true by reflexivity. replace (nk_bits NFix128) with 128 by reflexivity.
      unfold wrap_signed. change (2 ^ 127) with 170141183460469231731687303715884105728 in Hr.
      change (2 ^ 128) with 340282366920938463463374607431768211456.
      change (2 ^ (128 - 1)) with 170141183460469231731687303715884105728.
      destruct (_ <? _) eqn:E; lia.
  - (* UFix64 *)
    apply (parse_fixed_fix_str NUFix64 8%nat 0 (2 ^ 64 - 1)); try reflexivity; try lia.
    +       change (10 ^ Z.of_nat 8) with 100000000 in *.
      change (Z.quot 0 100000000) with 0.
      change (Z.abs (Z.rem 0 100000000)) with 0.
      change (Z.quot (2 ^ 64 - 1) 100000000) with 184467440737.
      change (Z.abs (Z.rem (2 ^ 64 - 1) 100000000)) with 9551615.
      change (2 ^ 64) with 18446744073709551616 in Hr.
      apply check_range_intro; destruct (z <? 0) eqn:Ez; intros;
        repeat match goal with |- context [if ?c then _ else _] => destruct c eqn:? end; lia.
    + replace (nk_signed NUFix64) with false by reflexivity. replace (nk_bits NUFix64) with 64 by reflexivity.
      change (2 ^ 64) with 18446744073709551616 in *. lia.
  - (* UFix128 *)
    apply (parse_fixed_fix_str NUFix128 24%nat 0 (2 ^ 128 - 1)); try reflexivity; try lia.
    +       change (10 ^ Z.of_nat 24) with 1000000000000000000000000 in *.
      change (Z.quot 0 1000000000000000000000000) with 0.
      change (Z.abs (Z.rem 0 1000000000000000000000000)) with 0.
      change (Z.quot (2 ^ 128 - 1) 1000000000000000000000000) with 340282366920938.
      change (Z.abs (Z.rem (2 ^ 128 - 1) 1000000000000000000000000)) with 463463374607431768211455.
      change (2 ^ 128) with 340282366920938463463374607431768211456 in Hr.
      apply check_range_intro; destruct (z <? 0) eqn:Ez; intros;
        repeat match goal with |- context [if ?c then _ else _] => destruct c eqn:? end; lia.
    + replace (nk_signed NUFix128) with false by reflexivity. replace (nk_bits NUFix128) with 128 by reflexivity.
      change (2 ^ 128) with 340282366920938463463374607431768211456 in *. lia.
Qed.

Theorem parse_num_roundtrip k z :
  nk_in_range k z = true -> parse_num k (num_str k z) = Ok z.
Proof.
  intro Hr. unfold parse_num, num_str.
  destruct (nk_scale k) as [s|] eqn:Hs.
  - assert (nk_pmode k = PFix) as -> by (destruct k; try discriminate; reflexivity).
    apply fix_roundtrip; assumption.
  - destruct (nk_pmode k) eqn:Hm.
    + rewrite parse_int_print_int, Hr. reflexivity.
    + assert (0 <= z).
      { unfold nk_in_range in Hr. destruct k; try discriminate; cbn [nk_min] in Hr; lia. }
      rewrite parse_uint_print_int by assumption. rewrite Hr. reflexivity.
    + rewrite parse_int_print_int, Hr. reflexivity.
    + destruct k; discriminate.
Qed.
