(* Concrete instances: non-vacuity of the round-trip theorems and witnesses for the input
   classes on which the round trip / crash freedom fails (model = Go code, see the corpus of
   harness/c41/json_prop.go, which runs the same values through the real codec on every run). *)
From CV Require Import C41.Json C41.Cases C41.StrProofs C41.TypeProofs C41.ValueProofs C41.NoCrash.
From Coq Require Import String.
Local Open Scope string_scope.
Local Open Scope Z_scope.
Local Open Scope list_scope.

(* concrete oracles: every string is a valid character, every type ID is accepted and canonical *)
Definition any_char (s : str) : bool := true.
Definition id_tid (s : str) : option str := Some s.

Lemma simple_tbl_not_ckind : forall k, is_simple_tbl (ckind_name k) = false.
Proof. destruct k; vm_compute; reflexivity. Qed.

Definition roundtrips (v : xval) : Prop :=
  exists j v', json_encode v = Ok j /\
               json_decode any_char id_tid is_simple_tbl j = Ok v' /\
               erase v' = erase v /\ json_encode v' = Ok j.

Definition tInt := TSimple (sc "Int").
Definition tBar := TComposite KStruct (sc "S.test.Bar") TNil [(sc "x", tInt)] [].

(* a recursive resource type: Node { next: Node?, all: {String: Capability<&Node>} } *)
Definition tNode :=
  TComposite KResource (sc "S.test.Node") TNil
    [(sc "next", TOptional (TRef (sc "S.test.Node")));
     (sc "all", TDict (TSimple (sc "String")) (TCapability (TReference AUnauth (TRef (sc "S.test.Node")))))]
    [].

Definition ex_value : xval :=
  VComposite KStruct (sc "S.test.Foo") TNil
    [(sc "a", TVarArray tInt); (sc "t", TSimple (sc "Type")); (sc "c", TCapability tNode); (sc "f", TNil)] []
    [VArray (TVarArray tInt) [VNum NInt (-5); VNum NInt (2 ^ 70)];
     VType (TFunction true [(sc "T", TReference (ASet false [sc "S.test.F"; sc "S.test.E"]) tNode)]
              [(sc "a", sc "b", TRef (sc "S.test.Node")); ([], sc "c", TConstArray 3 tBar)] tBar);
     VCap 7 1 (TReference (AMap (sc "S.test.M")) tNode);
     VDict TNil [(VNum NFix64 (-50000000), VOptional (Some (VChar (sc "x")))); (VNum NFix64 (2 ^ 63 - 1), VOptional None)]].

Lemma ex_value_wf : wf_val any_char id_tid is_simple_tbl ex_value = true.
Proof. vm_compute. reflexivity. Qed.

Lemma ex_value_decodes :
  json_decode any_char id_tid is_simple_tbl (enc_val ex_value) = Ok (jnorm ex_value)
  /\ jnorm ex_value <> ex_value /\ erase (jnorm ex_value) = erase ex_value.
Proof. vm_compute. repeat split; try reflexivity. discriminate. Qed.

Lemma ex_type_wf : wf_top_ty id_tid is_simple_tbl tNode = true.
Proof. vm_compute. reflexivity. Qed.

(* ---- crash: the deprecated kind "Restriction" *)
Definition restriction_doc : json :=
  JObj [(kType, JStr sTypeV); (kValue, JObj [(kStaticType, JObj [(kKind, JStr sRestriction)])])].

Lemma restriction_crashes :
  exists j, json_decode any_char id_tid is_simple_tbl j = Err Crash.
Proof. exists restriction_doc. vm_compute. reflexivity. Qed.

(* ---- round trip failures *)
(* a composite type used by a field and by an initializer parameter of the same type:
   the encoder (fields first) writes the full type in "fields" and the type ID in
   "initializers"; the decoder reads "initializers" first *)
Definition v_shared : xval :=
  VType (TComposite KStruct (sc "S.test.Foo") TNil [(sc "bar", tBar)] [[([], sc "bar", TRef (sc "S.test.Bar"))]]).

(* a type parameter without bound is written as "typeBound": null *)
Definition v_nobound : xval :=
  VType (TFunction false [(sc "T", TNil)] [([], sc "x", tInt)] (TSimple (sc "Void"))).

(* attachments are encoded ("Attachment") but there is no decoder for them *)
Definition v_attachment : xval :=
  VComposite KStruct (sc "S.test.Bar") TNil [(sc "x", tInt)] []
    [VNum NInt 1; VComposite KAttachment (sc "S.test.Att") tBar [(sc "a", tInt)] [] [VNum NInt 1]].

(* array sizes go through float64 *)
Definition v_bigsize : xval := VType (TConstArray (2 ^ 53 + 1) tInt).

Lemma roundtrip_fails_decode :
  Forall (fun v => enc_ok v = true /\
                   json_decode any_char id_tid is_simple_tbl (enc_val v) = Err UserOther)
         [v_shared; v_nobound; v_attachment].
Proof. repeat constructor; vm_compute; reflexivity. Qed.

Lemma roundtrip_fails_size :
  enc_ok v_bigsize = true /\
  json_decode any_char id_tid is_simple_tbl (enc_val v_bigsize) = Ok (VType (TConstArray (2 ^ 53) tInt)).
Proof. split; vm_compute; reflexivity. Qed.

Lemma not_roundtrips :
  Forall (fun v => ~ roundtrips v) [v_shared; v_nobound; v_attachment; v_bigsize].
Proof.
  repeat constructor; intros (j & v' & He & Hd & Her & _); vm_compute in He; inversion He; subst j;
    vm_compute in Hd; try discriminate.
  inversion Hd; subst v'. vm_compute in Her. discriminate.
Qed.
