(* External ("cadence.Value" / "cadence.Type") values and types shared by the codec models
   of C41 (JSON-Cadence), C42 (CCF) and C43.

   A Go type graph (pointers, possibly cyclic through composite/interface types) is
   represented as a finite tree: the first occurrence (in a fixed traversal order) of a
   composite/interface type pointer is a [TComposite] node, every later occurrence of the
   same pointer is [TRef id].  This is exactly the information the codecs put on the wire. *)
From CV Require Export C41.Str.
From Coq Require Import String.
Local Open Scope string_scope.
Local Open Scope Z_scope.
Local Open Scope list_scope.

(* ------------------------------------------------------------------ numeric kinds *)
Inductive nkind : Type :=
| NInt | NInt8 | NInt16 | NInt32 | NInt64 | NInt128 | NInt256
| NUInt | NUInt8 | NUInt16 | NUInt32 | NUInt64 | NUInt128 | NUInt256
| NWord8 | NWord16 | NWord32 | NWord64 | NWord128 | NWord256
| NFix64 | NFix128 | NUFix64 | NUFix128.

Definition all_nkinds : list nkind :=
  [NInt; NInt8; NInt16; NInt32; NInt64; NInt128; NInt256;
   NUInt; NUInt8; NUInt16; NUInt32; NUInt64; NUInt128; NUInt256;
   NWord8; NWord16; NWord32; NWord64; NWord128; NWord256;
   NFix64; NFix128; NUFix64; NUFix128].

Definition nkind_eqb (a b : nkind) : bool :=
  match a, b with
  | NInt, NInt | NInt8, NInt8 | NInt16, NInt16 | NInt32, NInt32 | NInt64, NInt64
  | NInt128, NInt128 | NInt256, NInt256
  | NUInt, NUInt | NUInt8, NUInt8 | NUInt16, NUInt16 | NUInt32, NUInt32 | NUInt64, NUInt64
  | NUInt128, NUInt128 | NUInt256, NUInt256
  | NWord8, NWord8 | NWord16, NWord16 | NWord32, NWord32 | NWord64, NWord64
  | NWord128, NWord128 | NWord256, NWord256
  | NFix64, NFix64 | NFix128, NFix128 | NUFix64, NUFix64 | NUFix128, NUFix128 => true
  | _, _ => false
  end.

Definition nk_name_s (k : nkind) : string :=
  match k with
  | NInt => "Int" | NInt8 => "Int8" | NInt16 => "Int16" | NInt32 => "Int32" | NInt64 => "Int64"
  | NInt128 => "Int128" | NInt256 => "Int256"
  | NUInt => "UInt" | NUInt8 => "UInt8" | NUInt16 => "UInt16" | NUInt32 => "UInt32"
  | NUInt64 => "UInt64" | NUInt128 => "UInt128" | NUInt256 => "UInt256"
  | NWord8 => "Word8" | NWord16 => "Word16" | NWord32 => "Word32" | NWord64 => "Word64"
  | NWord128 => "Word128" | NWord256 => "Word256"
  | NFix64 => "Fix64" | NFix128 => "Fix128" | NUFix64 => "UFix64" | NUFix128 => "UFix128"
  end.
Definition nk_name (k : nkind) : str := s2z (nk_name_s k).

(* range of the raw value: integers: the value; fixed point: the scaled integer *)
Definition nk_min (k : nkind) : option Z :=
  match k with
  | NInt => None
  | NInt8 => Some (- 2 ^ 7) | NInt16 => Some (- 2 ^ 15) | NInt32 => Some (- 2 ^ 31)
  | NInt64 | NFix64 => Some (- 2 ^ 63) | NInt128 | NFix128 => Some (- 2 ^ 127)
  | NInt256 => Some (- 2 ^ 255)
  | _ => Some 0
  end.
Definition nk_max (k : nkind) : option Z :=
  match k with
  | NInt | NUInt => None
  | NInt8 => Some (2 ^ 7 - 1) | NInt16 => Some (2 ^ 15 - 1) | NInt32 => Some (2 ^ 31 - 1)
  | NInt64 | NFix64 => Some (2 ^ 63 - 1) | NInt128 | NFix128 => Some (2 ^ 127 - 1)
  | NInt256 => Some (2 ^ 255 - 1)
  | NUInt8 | NWord8 => Some (2 ^ 8 - 1) | NUInt16 | NWord16 => Some (2 ^ 16 - 1)
  | NUInt32 | NWord32 => Some (2 ^ 32 - 1) | NUInt64 | NWord64 | NUFix64 => Some (2 ^ 64 - 1)
  | NUInt128 | NWord128 | NUFix128 => Some (2 ^ 128 - 1)
  | NUInt256 | NWord256 => Some (2 ^ 256 - 1)
  end.
Definition nk_in_range (k : nkind) (z : Z) : bool :=
  (match nk_min k with Some m => m <=? z | None => true end) &&
  (match nk_max k with Some m => z <=? m | None => true end).

(* fixed-point scale (number of decimal places), None for integer kinds *)
Definition nk_scale (k : nkind) : option nat :=
  match k with
  | NFix64 | NUFix64 => Some 8%nat
  | NFix128 | NUFix128 => Some 24%nat
  | _ => None
  end.

(* ------------------------------------------------------------------ composite kinds *)
Inductive ckind : Type :=
| KStruct | KResource | KEvent | KContract | KEnum | KAttachment
| KStructInterface | KResourceInterface | KContractInterface.

Definition ckind_eqb (a b : ckind) : bool :=
  match a, b with
  | KStruct, KStruct | KResource, KResource | KEvent, KEvent | KContract, KContract
  | KEnum, KEnum | KAttachment, KAttachment | KStructInterface, KStructInterface
  | KResourceInterface, KResourceInterface | KContractInterface, KContractInterface => true
  | _, _ => false
  end.

Definition ckind_name_s (k : ckind) : string :=
  match k with
  | KStruct => "Struct" | KResource => "Resource" | KEvent => "Event" | KContract => "Contract"
  | KEnum => "Enum" | KAttachment => "Attachment" | KStructInterface => "StructInterface"
  | KResourceInterface => "ResourceInterface" | KContractInterface => "ContractInterface"
  end.
Definition ckind_name (k : ckind) : str := s2z (ckind_name_s k).
Definition all_ckinds : list ckind :=
  [KStruct; KResource; KEvent; KContract; KEnum; KAttachment;
   KStructInterface; KResourceInterface; KContractInterface].

Definition ckind_is_interface (k : ckind) : bool :=
  match k with KStructInterface | KResourceInterface | KContractInterface => true | _ => false end.
(* kinds that carry a second type: enum raw type, attachment base type *)
Definition ckind_has_extra (k : ckind) : bool :=
  match k with KEnum | KAttachment => true | _ => false end.

(* ------------------------------------------------------------------ types *)
Inductive xauth : Type :=
| AUnauth
| AMap (tid : str)
| ASet (cj : bool) (ents : list str).   (* cj = true: Conjunction, false: Disjunction *)

Inductive xty : Type :=
| TNil                                      (* Go nil cadence.Type *)
| TSimple (name : str)                      (* PrimitiveType / BytesType, by its ID *)
| TOptional (t : xty)
| TVarArray (t : xty)
| TConstArray (n : Z) (t : xty)             (* Size is a Go uint: 0 <= n < 2^64 *)
| TDict (k v : xty)
| TRange (t : xty)
| TCapability (t : xty)                     (* borrow type may be TNil *)
| TReference (a : xauth) (t : xty)
| TIntersection (ts : list xty)
| TFunction (view : bool) (tps : list (str * xty))      (* type parameters: name, bound (TNil = none) *)
            (ps : list (str * str * xty))               (* parameters: label, identifier, type *)
            (ret : xty)
| TComposite (k : ckind) (tid : str) (extra : xty)      (* extra: enum raw type / attachment base type *)
             (fields : list (str * xty))
             (inits : list (list (str * str * xty)))    (* event: exactly one initializer *)
| TRef (tid : str).                         (* repeated occurrence of a composite/interface type pointer *)

Definition xparam : Type := (str * str * xty)%type.

Definition is_tnil (t : xty) : bool := match t with TNil => true | _ => false end.

(* ------------------------------------------------------------------ values *)
Inductive xval : Type :=
| VVoid
| VBool (b : bool)
| VString (s : str)
| VChar (s : str)
| VAddress (a : Z)                          (* 8 bytes, big endian: 0 <= a < 2^64 *)
| VNum (k : nkind) (z : Z)                  (* integers: the value; fixed point: raw scaled integer *)
| VOptional (o : option xval)
| VArray (t : xty) (l : list xval)          (* t: ArrayType or TNil *)
| VDict (t : xty) (l : list (xval * xval))  (* t: DictionaryType or TNil *)
| VRange (t : xty) (a b c : xval)           (* t: InclusiveRangeType or TNil *)
| VComposite (k : ckind) (tid : str) (extra : xty) (ftys : list (str * xty))
             (inits : list (list xparam)) (fvals : list xval)
| VPath (d : Z) (id : str)                  (* domain: 1 storage, 2 private, 3 public *)
| VType (t : xty)
| VCap (id : Z) (addr : Z) (borrow : xty)
| VFunc (t : xty).

(* ------------------------------------------------------------------ type IDs (cadence.Type.ID) *)
Definition sc (s : string) : str := s2z s.

Definition auth_id (a : xauth) : str :=
  match a with
  | AUnauth => []
  | AMap tid => tid
  | ASet cj ents => concat_sep (sc (if cj then "," else "|")) (sort_by str_leb ents)
  end.

(* int64(uint) as formatted by FormatConstantSizedTypeID *)
Definition as_int64 (n : Z) : Z := if n <? 2 ^ 63 then n else n - 2 ^ 64.

Fixpoint ty_id (t : xty) : str :=
  match t with
  | TNil => []              (* Go: nil pointer dereference; excluded by well-formedness *)
  | TSimple n => n
  | TOptional t => sc "(" ++ ty_id t ++ sc ")?"
  | TVarArray t => sc "[" ++ ty_id t ++ sc "]"
  | TConstArray n t => sc "[" ++ ty_id t ++ sc ";" ++ print_int (as_int64 n) ++ sc "]"
  | TDict k v => sc "{" ++ ty_id k ++ sc ":" ++ ty_id v ++ sc "}"
  | TRange t => sc "InclusiveRange<" ++ ty_id t ++ sc ">"
  | TCapability t =>
      match ty_id t with
      | [] => sc "Capability"
      | i => sc "Capability<" ++ i ++ sc ">"
      end
  | TReference a t =>
      match auth_id a with
      | [] => sc "&" ++ ty_id t
      | i => sc "auth(" ++ i ++ sc ")&" ++ ty_id t
      end
  | TIntersection ts => sc "{" ++ concat_sep (sc ",") (sort_by str_leb (map ty_id ts)) ++ sc "}"
  | TFunction view tps ps ret =>
      (if view then sc "view " else []) ++ sc "fun" ++
      (match tps with
       | [] => []
       | _ => sc "<" ++ concat_sep (sc ",")
                (map (fun tp => fst tp ++ (if is_tnil (snd tp) then [] else sc ":" ++ ty_id (snd tp))) tps)
              ++ sc ">"
       end) ++
      sc "(" ++ concat_sep (sc ",") (map (fun p => ty_id (snd p)) ps) ++ sc "):" ++ ty_id ret
  | TComposite _ tid _ _ _ => tid
  | TRef tid => tid
  end.

(* ------------------------------------------------------------------ cadence.Value.Type() *)
Definition path_type_name (d : Z) : str :=
  if d =? 1 then sc "StoragePath" else if d =? 2 then sc "PrivatePath" else sc "PublicPath".

Fixpoint type_of (v : xval) : xty :=
  match v with
  | VVoid => TSimple (sc "Void")
  | VBool _ => TSimple (sc "Bool")
  | VString _ => TSimple (sc "String")
  | VChar _ => TSimple (sc "Character")
  | VAddress _ => TSimple (sc "Address")
  | VNum k _ => TSimple (nk_name k)
  | VOptional None => TOptional (TSimple (sc "Never"))
  | VOptional (Some v) => TOptional (type_of v)
  | VArray t _ => t
  | VDict t _ => t
  | VRange t _ _ _ => t
  | VComposite k tid extra ftys inits _ => TComposite k tid extra ftys inits
  | VPath d _ => TSimple (path_type_name d)
  | VType _ => TSimple (sc "Type")
  | VCap _ _ b => TCapability b
  | VFunc t => t
  end.

(* ------------------------------------------------------------------ erasure
   Removal of the static type information JSON-Cadence does not carry: element/key types of
   containers, the element type of ranges, declared field types, initializers and the enum
   raw type of composite values.  Field names are carried (missing names are empty). *)
Fixpoint pad_names (names : list str) (n : nat) : list str :=
  match n with
  | O => []
  | S n' => match names with
            | [] => [] :: pad_names [] n'
            | x :: r => x :: pad_names r n'
            end
  end.

Fixpoint erase (v : xval) : xval :=
  match v with
  | VOptional (Some v) => VOptional (Some (erase v))
  | VArray _ l => VArray TNil (map erase l)
  | VDict _ l => VDict TNil (map (fun kv => (erase (fst kv), erase (snd kv))) l)
  | VRange _ a b c => VRange TNil (erase a) (erase b) (erase c)
  | VComposite k tid _ ftys _ fvals =>
      VComposite k tid TNil
        (map (fun n => (n, TNil)) (pad_names (map fst ftys) (List.length fvals)))
        [] (map erase fvals)
  | _ => v
  end.
