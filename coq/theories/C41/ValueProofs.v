(* Round trip of values through the JSON-Cadence model. *)
From CV Require Import C41.Json C41.StrProofs C41.NumProofs C41.TypeProofs.
From Coq Require Import ZifyBool.
Local Open Scope Z_scope.

(* ------------------------------------------------------------------ induction on values *)
Section XvalInd.
  Variable P : xval -> Prop.
  Hypothesis HVoid : P VVoid.
  Hypothesis HBool : forall b, P (VBool b).
  Hypothesis HString : forall s, P (VString s).
  Hypothesis HChar : forall s, P (VChar s).
  Hypothesis HAddress : forall a, P (VAddress a).
  Hypothesis HNum : forall k z, P (VNum k z).
  Hypothesis HNone : P (VOptional None).
  Hypothesis HSome : forall v, P v -> P (VOptional (Some v)).
  Hypothesis HArray : forall t l, Forall P l -> P (VArray t l).
  Hypothesis HDict : forall t l, Forall (fun kv => P (fst kv) /\ P (snd kv)) l -> P (VDict t l).
  Hypothesis HRange : forall t a b c, P a -> P b -> P c -> P (VRange t a b c).
  Hypothesis HComposite : forall k tid e ft ins fv, Forall P fv -> P (VComposite k tid e ft ins fv).
  Hypothesis HPath : forall d i, P (VPath d i).
  Hypothesis HType : forall t, P (VType t).
  Hypothesis HCap : forall i a b, P (VCap i a b).
  Hypothesis HFunc : forall t, P (VFunc t).

  Fixpoint xval_ind2 (v : xval) : P v :=
    match v with
    | VVoid => HVoid
    | VBool b => HBool b
    | VString s => HString s
    | VChar s => HChar s
    | VAddress a => HAddress a
    | VNum k z => HNum k z
    | VOptional None => HNone
    | VOptional (Some v1) => HSome v1 (xval_ind2 v1)
    | VArray t l =>
        HArray t l ((fix go (l : list xval) : Forall P l :=
                       match l with
                       | [] => Forall_nil _
                       | x :: r => Forall_cons x (xval_ind2 x) (go r)
                       end) l)
    | VDict t l =>
        HDict t l ((fix go (l : list (xval * xval)) : Forall (fun kv => P (fst kv) /\ P (snd kv)) l :=
                      match l with
                      | [] => Forall_nil _
                      | x :: r => Forall_cons x (conj (xval_ind2 (fst x)) (xval_ind2 (snd x))) (go r)
                      end) l)
    | VRange t a b c => HRange t a b c (xval_ind2 a) (xval_ind2 b) (xval_ind2 c)
    | VComposite k tid e ft ins fv =>
        HComposite k tid e ft ins fv
          ((fix go (l : list xval) : Forall P l :=
              match l with
              | [] => Forall_nil _
              | x :: r => Forall_cons x (xval_ind2 x) (go r)
              end) fv)
    | VPath d i => HPath d i
    | VType t => HType t
    | VCap i a b => HCap i a b
    | VFunc t => HFunc t
    end.
End XvalInd.

(* ------------------------------------------------------------------ the decoded form *)
(* what the decoder returns for the encoding of v: static types are gone or re-derived *)
Fixpoint jnorm (v : xval) : xval :=
  match v with
  | VOptional (Some v1) => VOptional (Some (jnorm v1))
  | VArray _ l => VArray TNil (map jnorm l)
  | VDict _ l => VDict TNil (map (fun kv => (jnorm (fst kv), jnorm (snd kv))) l)
  | VRange _ a b c => VRange (TRange (type_of (jnorm a))) (jnorm a) (jnorm b) (jnorm c)
  | VComposite k tid _ ftys _ fvals =>
      let fs := combine (pad_names (map fst ftys) (List.length fvals)) (map jnorm fvals) in
      VComposite k tid TNil (map (fun nv => (fst nv, type_of (snd nv))) fs)
        (if ckind_eqb k KEvent then [[]] else []) (map snd fs)
  | _ => v
  end.

Definition value_ckind (k : ckind) : bool :=
  match k with KStruct | KResource | KEvent | KContract | KEnum => true | _ => false end.

Definition is_some {A} (o : option A) : bool := match o with Some _ => true | None => false end.

Section VWF.
  Variable valid_char : str -> bool.
  Variable tid_canon : str -> option str.
  Variable is_simple : str -> bool.
  Hypothesis simple_not_ckind : forall k, is_simple (ckind_name k) = false.

  Definition wf_top_ty (t : xty) : bool :=
    is_tnil t || is_some (wf_ty tid_canon is_simple [] t).

  (* values inside the domain of the round-trip theorem: characters accepted by
     sema.IsValidCharacter, numbers in the range of their kind, type IDs accepted by the decoder,
     no attachments, embedded types well-formed (see wf_ty) *)
  Fixpoint wf_val (v : xval) : bool :=
    match v with
    | VVoid | VBool _ | VString _ => true
    | VChar s => valid_char s
    | VAddress a => (0 <=? a) && (a <? 2 ^ 64)
    | VNum k z => nk_in_range k z
    | VOptional None => true
    | VOptional (Some v1) => wf_val v1
    | VArray _ l => forallb wf_val l
    | VDict _ l => forallb (fun kv => wf_val (fst kv) && wf_val (snd kv)) l
    | VRange _ a b c => wf_val a && wf_val b && wf_val c
    | VComposite k tid _ ftys _ fvals =>
        value_ckind k && tid_ok tid_canon tid &&
        Nat.leb (List.length ftys) (List.length fvals) && forallb wf_val fvals
    | VPath d _ => (1 <=? d) && (d <=? 3)
    | VType t => wf_top_ty t
    | VCap id addr b => (0 <=? id) && (id <? 2 ^ 64) && (0 <=? addr) && (addr <? 2 ^ 64) && wf_top_ty b
    | VFunc t => (match t with TFunction _ _ _ _ => true | _ => false end) &&
                 is_some (wf_ty tid_canon is_simple [] t)
    end.

  Notation dec_val := (dec_val valid_char tid_canon is_simple).
  Notation dec_ty_top := (dec_ty_top tid_canon is_simple).

  Lemma dec_val_obj m :
    dec_val (JObj m) =
    (let* ts := getk to_str kType m in
     if str_eqb ts sVoid then (if nkeys m =? 1 then Ok VVoid else Err UserOther)
     else if negb (nkeys m =? 2) then Err UserOther
     else getk (dec_value_with valid_char tid_canon is_simple dec_val ts) kValue m).
  Proof. reflexivity. Qed.

  Lemma dec_val_val_obj ty v :
    str_eqb ty sVoid = false ->
    dec_val (val_obj ty v) = dec_value_with valid_char tid_canon is_simple dec_val ty v.
  Proof.
    intro H. unfold val_obj. rewrite dec_val_obj. getk_go. cbn [to_str bind]. rewrite H.
    change (nkeys [(kValue, v); (kType, JStr ty)]) with 2. cbn [Z.eqb Pos.eqb negb]. getk_go. reflexivity.
  Qed.

  Lemma enc_val_is_obj v : exists m, enc_val v = JObj m.
  Proof. destruct v as [| | | | | |[?|]| | | | | | | |]; cbn; eexists; reflexivity. Qed.

  Lemma nk_name_not_void k : str_eqb (nk_name k) sVoid = false.
  Proof. destruct k; reflexivity. Qed.
  Lemma ckind_name_not_void k : str_eqb (ckind_name k) sVoid = false.
  Proof. destruct k; reflexivity. Qed.
  Lemma vkind_of_nk_name k : vkind_of_str (nk_name k) = Some (VKNum k).
  Proof. destruct k; reflexivity. Qed.
  Lemma vkind_of_ckind_name k : value_ckind k = true -> vkind_of_str (ckind_name k) = Some (VKComposite k).
  Proof. destruct k; try discriminate; reflexivity. Qed.

  Lemma dec_address_enc a : 0 <= a < 2 ^ 64 -> dec_address (JStr (addr_str a)) = Ok a.
  Proof.
    intro H. unfold dec_address, addr_str. cbn [to_str bind]. cbn [s0x app].
    change ((48 =? 48) && (120 =? 120)) with true. cbn [negb].
    destruct (print_hex_fixed_spec 16 a 0 ltac:(lia)) as (V & L).
    unfold parse_hex. rewrite V, L.
    change (Nat.odd 16) with false. change (Nat.ltb 16 16) with false. cbn iota.
    f_equal. change (16 ^ Z.of_nat 16) with (2 ^ 64). rewrite Z.mod_small by lia. lia.
  Qed.

  Lemma dec_ty_top_enc t : wf_top_ty t = true -> dec_ty_top (enc_ty t) = Ok t.
  Proof.
    unfold wf_top_ty, Json.dec_ty_top. intro H. destruct (is_tnil t) eqn:Hn.
    - destruct t; try discriminate. reflexivity.
    - cbn [orb] in H. destruct (wf_ty tid_canon is_simple [] t) as [s'|] eqn:E; [|discriminate].
      rewrite (dec_enc_ty tid_canon is_simple simple_not_ckind t _ _ E). reflexivity.
  Qed.

  Definition VRT (v : xval) : Prop := wf_val v = true -> dec_val (enc_val v) = Ok (jnorm v).

  Lemma dec_cfields_enc names vals :
    Forall VRT vals -> forallb wf_val vals = true ->
    mapM (dec_cfield_with dec_val) (zip_fields names (map enc_val vals)) =
    Ok (combine (pad_names names (List.length vals)) (map jnorm vals)).
  Proof.
    intro HF. revert names. induction HF as [|v r Hv _ IH]; intros names Hwf; [reflexivity|].
    cbn [forallb] in Hwf. apply andb_true_iff in Hwf as [Hw1 Hw2].
    cbn [map zip_fields List.length pad_names].
    destruct names as [|n ns]; cbn [mapM combine map]; unfold dec_cfield_with at 1; getk_go;
      cbn [to_str bind]; rewrite (Hv Hw1); cbn [bind]; rewrite (IH _ Hw2); reflexivity.
  Qed.

  Lemma forallb_Forall_VRT l : Forall VRT l -> forallb wf_val l = true ->
    Forall (fun x => dec_val (enc_val x) = Ok (jnorm x)) l.
  Proof.
    induction 1 as [|x r Hx _ IH]; intro Hf; constructor; cbn [forallb] in Hf;
      apply andb_true_iff in Hf as [A B]; auto.
  Qed.

  Opaque enc_ty.

  Theorem dec_enc_val : forall v, VRT v.
  Proof.
    induction v using xval_ind2; unfold VRT; intro Hwf; cbn [wf_val] in Hwf.
    - (* Void *) reflexivity.
    - (* Bool *) cbn [enc_val]. rewrite dec_val_val_obj by reflexivity. reflexivity.
    - (* String *) cbn [enc_val]. rewrite dec_val_val_obj by reflexivity. reflexivity.
    - (* Char *) cbn [enc_val]. rewrite dec_val_val_obj by reflexivity.
      unfold dec_value_with. change (vkind_of_str sCharacter) with (Some VKCharacter). cbn iota.
      cbn [to_str bind]. rewrite Hwf. reflexivity.
    - (* Address *) cbn [enc_val]. rewrite dec_val_val_obj by reflexivity.
      unfold dec_value_with. change (vkind_of_str sAddress) with (Some VKAddress). cbn iota.
      rewrite dec_address_enc by lia. reflexivity.
    - (* Num *) cbn [enc_val]. rewrite dec_val_val_obj by apply nk_name_not_void.
      unfold dec_value_with. rewrite vkind_of_nk_name. cbn [to_str bind].
      rewrite parse_num_roundtrip by assumption. reflexivity.
    - (* None *) cbn [enc_val]. rewrite dec_val_val_obj by reflexivity. reflexivity.
    - (* Some *) cbn [enc_val]. rewrite dec_val_val_obj by reflexivity.
      unfold dec_value_with. change (vkind_of_str sOptional) with (Some VKOptional). cbn iota.
      destruct (enc_val_is_obj v) as [m Hm]. rewrite Hm. rewrite <- Hm.
      rewrite (IHv Hwf). reflexivity.
    - (* Array *) cbn [enc_val]. rewrite dec_val_val_obj by reflexivity.
      unfold dec_value_with. change (vkind_of_str sArray) with (Some VKArray). cbn iota.
      rewrite (mapM_map _ enc_val jnorm) by (apply forallb_Forall_VRT; assumption). reflexivity.
    - (* Dict *) cbn [enc_val]. rewrite dec_val_val_obj by reflexivity.
      unfold dec_value_with. change (vkind_of_str sDictionary) with (Some VKDictionary). cbn iota.
      rewrite (mapM_map _ _ (fun kv => (jnorm (fst kv), jnorm (snd kv)))); [reflexivity|].
      clear -H Hwf. induction H as [|x r [Hk Hv] _ IH]; constructor; cbn [forallb] in Hwf;
        apply andb_true_iff in Hwf as [A B]; [|auto].
      apply andb_true_iff in A as [A1 A2].
      unfold dec_pair_with. getk_go. rewrite (Hk A1). cbn [bind]. getk_go. rewrite (Hv A2). reflexivity.
    - (* Range *) cbn [enc_val]. rewrite dec_val_val_obj by reflexivity.
      unfold dec_value_with. change (vkind_of_str sInclusiveRange) with (Some VKInclusiveRange). cbn iota.
      apply andb_true_iff in Hwf as [Hab Hc]. apply andb_true_iff in Hab as [Ha Hb].
      getk_go. rewrite (IHv1 Ha). cbn [bind]. getk_go. rewrite (IHv2 Hb). cbn [bind]. getk_go.
      rewrite (IHv3 Hc). reflexivity.
    - (* Composite *) cbn [enc_val]. rewrite dec_val_val_obj by apply ckind_name_not_void.
      apply andb_true_iff in Hwf as [Hw Hvals]. apply andb_true_iff in Hw as [Hw Hlen].
      apply andb_true_iff in Hw as [Hk Htid].
      unfold dec_value_with. rewrite (vkind_of_ckind_name _ Hk).
      getk_go. unfold dec_tid. cbn [to_str bind]. rewrite (tid_ok_canon _ _ Htid). cbn [bind fst snd].
      getk_go. unfold dec_cfields_with. rewrite (dec_cfields_enc _ _ H Hvals). reflexivity.
    - (* Path *) cbn [enc_val]. rewrite dec_val_val_obj by reflexivity.
      unfold dec_value_with. change (vkind_of_str sPath) with (Some VKPath). cbn iota.
      cbn [to_obj bind]. getk_go. cbn [to_str bind].
      assert (Hd : domain_of_name (domain_name d) = d).
      { unfold domain_name. destruct (d =? 1) eqn:E1; [replace d with 1 by lia; reflexivity|].
        destruct (d =? 2) eqn:E2; [replace d with 2 by lia; reflexivity|].
        replace d with 3 by lia. reflexivity. }
      rewrite Hd. replace (d =? 0) with false by lia. reflexivity.
    - (* Type *) cbn [enc_val]. rewrite dec_val_val_obj by reflexivity.
      unfold dec_value_with. change (vkind_of_str sTypeV) with (Some VKType). cbn iota.
      cbn [to_obj bind]. getk_go. rewrite (dec_ty_top_enc _ Hwf). reflexivity.
    - (* Cap *) cbn [enc_val]. rewrite dec_val_val_obj by reflexivity.
      unfold dec_value_with. change (vkind_of_str sCapability) with (Some VKCapability). cbn iota.
      apply andb_true_iff in Hwf as [Hw Hb]. 
      cbn [to_obj bind]. getk_go. rewrite dec_address_enc by lia. cbn [bind]. getk_go.
      rewrite (dec_ty_top_enc _ Hb). cbn [bind].
      change (has_key kPath [(kBorrowType, enc_ty b); (kAddress, JStr (addr_str a)); (kId, JStr (print_int i))]) with false.
      cbn iota. getk_go. cbn [to_str bind].
      change (print_int i) with (num_str NUInt64 i).
      rewrite parse_num_roundtrip; [reflexivity|]. unfold nk_in_range. cbn [nk_min nk_max]. lia.
    - (* Func *) cbn [enc_val]. rewrite dec_val_val_obj by reflexivity.
      unfold dec_value_with. change (vkind_of_str sFunction) with (Some VKFunction). cbn iota.
      apply andb_true_iff in Hwf as [Hf Hw].
      cbn [to_obj bind]. getk_go.
      assert (Ht : wf_top_ty t = true) by (unfold wf_top_ty; rewrite Hw; apply orb_true_r).
      rewrite (dec_ty_top_enc _ Ht). cbn [bind]. destruct t; try discriminate. reflexivity.
  Qed.

  (* ---------------------------------------------------------------- consequences *)
  Lemma pad_names_length names n : List.length (pad_names names n) = n.
  Proof. revert names; induction n; intros [|x r]; cbn; auto. Qed.

  Lemma map_snd_combine {A B} (a : list A) (b : list B) :
    List.length a = List.length b -> map snd (combine a b) = b.
  Proof.
    revert b; induction a; intros [|y b] H; cbn in *; try discriminate; try reflexivity.
    f_equal. apply IHa. lia.
  Qed.
  Lemma map_fst_combine {A B} (a : list A) (b : list B) :
    List.length a = List.length b -> map fst (combine a b) = a.
  Proof.
    revert b; induction a; intros [|y b] H; cbn in *; try discriminate; try reflexivity.
    f_equal. apply IHa. lia.
  Qed.

  Lemma pad_names_idem names n : pad_names (pad_names names n) n = pad_names names n.
  Proof. revert names; induction n; intros [|x r]; cbn; f_equal; auto. Qed.

  Lemma map_ext_Forall {A B} (f g : A -> B) l : Forall (fun x => f x = g x) l -> map f l = map g l.
  Proof. induction 1; cbn; congruence. Qed.

  (* the decoded value equals the original after erasure *)
  Theorem erase_jnorm : forall v, erase (jnorm v) = erase v.
  Proof.
    induction v using xval_ind2; cbn [jnorm erase]; try reflexivity.
    - rewrite IHv. reflexivity.
    - f_equal. rewrite map_map. apply map_ext_Forall. assumption.
    - f_equal. rewrite map_map. apply map_ext_Forall.
      eapply Forall_impl; [|exact H]. intros [k v] [A B]. cbn [fst snd] in *. congruence.
    - rewrite IHv1, IHv2, IHv3. reflexivity.
    - assert (L : List.length (pad_names (map fst ft) (List.length fv)) = List.length (map jnorm fv))
        by (rewrite pad_names_length, map_length; reflexivity).
      rewrite map_snd_combine by assumption.
      rewrite !map_map. cbn [fst].
      f_equal.
      + rewrite map_length.
        replace (map (fun x : str * xval => fst x) (combine (pad_names (map fst ft) (List.length fv)) (map jnorm fv)))
          with (pad_names (map fst ft) (List.length fv)) by (symmetry; apply map_fst_combine; assumption).
        rewrite pad_names_idem. reflexivity.
      + apply map_ext_Forall. assumption.
  Qed.

  Lemma zip_fields_pad names vals :
    zip_fields (pad_names names (List.length vals)) vals = zip_fields names vals.
  Proof.
    revert names; induction vals as [|v r IH]; intros [|n ns]; cbn; try reflexivity; rewrite IH; reflexivity.
  Qed.

  (* the decoded value re-encodes to the same JSON *)
  Theorem enc_jnorm : forall v, enc_val (jnorm v) = enc_val v.
  Proof.
    induction v using xval_ind2; cbn [jnorm enc_val]; try reflexivity.
    - rewrite IHv. reflexivity.
    - rewrite map_map. rewrite (map_ext_Forall _ _ _ H). reflexivity.
    - rewrite map_map.
      rewrite (map_ext_Forall _ (fun kv => JObj [(kKey, enc_val (fst kv)); (kValue, enc_val (snd kv))]) l);
        [reflexivity|].
      eapply Forall_impl; [|exact H]. intros [k v] [A B]. cbn [fst snd] in *. congruence.
    - rewrite IHv1, IHv2, IHv3. reflexivity.
    - assert (L : List.length (pad_names (map fst ft) (List.length fv)) = List.length (map jnorm fv))
        by (rewrite pad_names_length, map_length; reflexivity).
      rewrite map_snd_combine by assumption.
      rewrite !map_map. cbn [fst].
      replace (map (fun x : str * xval => fst x) (combine (pad_names (map fst ft) (List.length fv)) (map jnorm fv)))
        with (pad_names (map fst ft) (List.length fv)) by (symmetry; apply map_fst_combine; assumption).
      replace (map (fun x => enc_val (jnorm x)) fv) with (map enc_val fv)
        by (symmetry; apply map_ext_Forall; assumption).
      replace (List.length fv) with (List.length (map enc_val fv)) by apply map_length.
      rewrite zip_fields_pad. reflexivity.
  Qed.

  (* encoding a value of the domain succeeds *)
  Lemma wf_val_enc_ok : forall v, wf_val v = true -> enc_ok v = true.
  Proof.
    induction v using xval_ind2; cbn [wf_val enc_ok]; intro Hwf; try reflexivity.
    - auto.
    - clear -H Hwf. induction H; cbn [forallb] in *; [reflexivity|].
      apply andb_true_iff in Hwf as [A B]. rewrite H, IHForall by assumption. reflexivity.
    - clear -H Hwf. induction H as [|x r [Hk Hv] _ IH]; cbn [forallb] in *; [reflexivity|].
      apply andb_true_iff in Hwf as [A B]. apply andb_true_iff in A as [A1 A2].
      rewrite Hk, Hv, IH by assumption. reflexivity.
    - apply andb_true_iff in Hwf as [Hab Hc]. apply andb_true_iff in Hab as [Ha Hb].
      rewrite IHv1, IHv2, IHv3 by assumption. reflexivity.
    - apply andb_true_iff in Hwf as [Hw Hvals]. apply andb_true_iff in Hw as [Hw Hlen].
      apply andb_true_iff in Hw as [Hk Htid].
      rewrite Hlen. replace (negb (ckind_is_interface k)) with true by (destruct k; try discriminate; reflexivity).
      cbn [andb]. clear -H Hvals. induction H; cbn [forallb] in *; [reflexivity|].
      apply andb_true_iff in Hvals as [A B]. rewrite H, IHForall by assumption. reflexivity.
  Qed.

  Lemma combine_length' {A B} (a : list A) (b : list B) :
    List.length a = List.length b -> List.length (combine a b) = List.length b.
  Proof. intro H. rewrite combine_length. lia. Qed.

  (* ... and so does re-encoding the decoded value *)
  Lemma wf_val_enc_ok_jnorm : forall v, wf_val v = true -> enc_ok (jnorm v) = true.
  Proof.
    induction v using xval_ind2; cbn [wf_val jnorm enc_ok]; intro Hwf; try reflexivity.
    - auto.
    - rewrite forallb_forall. intros x Hx. apply in_map_iff in Hx as (y & <- & Hy).
      rewrite Forall_forall in H. rewrite forallb_forall in Hwf. auto.
    - rewrite forallb_forall. intros x Hx. apply in_map_iff in Hx as (y & <- & Hy).
      rewrite Forall_forall in H. rewrite forallb_forall in Hwf.
      specialize (H _ Hy) as [Hk Hv]. specialize (Hwf _ Hy). apply andb_true_iff in Hwf as [A B].
      cbn [fst snd]. rewrite Hk, Hv by assumption. reflexivity.
    - apply andb_true_iff in Hwf as [Hab Hc]. apply andb_true_iff in Hab as [Ha Hb].
      rewrite IHv1, IHv2, IHv3 by assumption. reflexivity.
    - apply andb_true_iff in Hwf as [Hw Hvals]. apply andb_true_iff in Hw as [Hw Hlen].
      apply andb_true_iff in Hw as [Hk Htid].
      assert (L : List.length (pad_names (map fst ft) (List.length fv)) = List.length (map jnorm fv))
        by (rewrite pad_names_length, map_length; reflexivity).
      replace (negb (ckind_is_interface k)) with true by (destruct k; try discriminate; reflexivity).
      rewrite !map_length. rewrite Nat.leb_refl. cbn [andb].
      rewrite map_snd_combine by assumption.
      rewrite forallb_forall. intros x Hx. apply in_map_iff in Hx as (y & <- & Hy).
      rewrite Forall_forall in H. rewrite forallb_forall in Hvals. auto.
  Qed.

  Theorem json_roundtrip v :
    wf_val v = true ->
    exists j v', json_encode v = Ok j /\
                 json_decode valid_char tid_canon is_simple j = Ok v' /\
                 erase v' = erase v /\
                 json_encode v' = Ok j.
  Proof.
    intro Hwf. exists (enc_val v), (jnorm v). unfold json_encode, json_decode.
    rewrite (wf_val_enc_ok _ Hwf). split; [reflexivity|]. split; [apply dec_enc_val; assumption|].
    split; [apply erase_jnorm|].
    rewrite (wf_val_enc_ok_jnorm _ Hwf), enc_jnorm. reflexivity.
  Qed.

  (* every type embedded in a value (type values, capability borrow types, function types)
     decodes to the same type *)
  Theorem json_embedded_type_roundtrip t :
    wf_top_ty t = true -> dec_ty_top (enc_ty t) = Ok t.
  Proof. apply dec_ty_top_enc. Qed.
End VWF.
