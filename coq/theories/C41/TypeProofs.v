(* Round trip of types through the JSON-Cadence model: dec_ty s (enc_ty t) = Ok (t, s'). *)
From CV Require Import C41.Json C41.StrProofs.
From Coq Require Import ZifyBool.
Local Open Scope Z_scope.

(* ------------------------------------------------------------------ object access *)
Lemma getk_gen_here {A} (f : json -> res A) d k v r :
  has_key k r = false -> getk_gen f d k ((k, v) :: r) = f v.
Proof. intro H. cbn. rewrite str_eqb_refl, H. reflexivity. Qed.

Lemma getk_gen_skip {A} (f : json -> res A) d k k' v r :
  str_eqb k k' = false -> getk_gen f d k ((k', v) :: r) = getk_gen f d k r.
Proof. intro H. cbn. rewrite H. reflexivity. Qed.

Lemma getk_gen_nil {A} (f : json -> res A) d k : getk_gen f d k [] = d.
Proof. reflexivity. Qed.

Ltac getk_step :=
  first [ rewrite getk_gen_here by reflexivity
        | rewrite getk_gen_skip by reflexivity
        | rewrite getk_gen_nil ].
Ltac getk_go := unfold getk; repeat getk_step.

(* evaluate comparisons of closed strings *)
Ltac str_eval :=
  repeat match goal with
         | |- context [str_eqb ?a ?b] =>
             let v := eval vm_compute in (str_eqb a b) in
             match v with
             | true => change (str_eqb a b) with true
             | false => change (str_eqb a b) with false
             end
         end; cbn iota.

(* ------------------------------------------------------------------ lists *)
Definition wf_list {A} (wf : list str -> A -> option (list str)) : list str -> list A -> option (list str) :=
  fix go (s : list str) (l : list A) : option (list str) :=
    match l with
    | [] => Some s
    | x :: r => match wf s x with Some s1 => go s1 r | None => None end
    end.

Lemma mapM_st_map {A B} (f : list str -> B -> res (A * list str)) (g : A -> B)
      (wf : list str -> A -> option (list str)) (l : list A) :
  Forall (fun x => forall s s', wf s x = Some s' -> f s (g x) = Ok (x, s')) l ->
  forall s s', wf_list wf s l = Some s' -> mapM_st f s (map g l) = Ok (l, s').
Proof.
  induction 1 as [|x r Hx _ IH]; intros s s' Hwf; cbn in *.
  - inversion Hwf. reflexivity.
  - destruct (wf s x) as [s1|] eqn:E; [|discriminate].
    rewrite (Hx _ _ E). cbn. rewrite (IH _ _ Hwf). reflexivity.
Qed.

Lemma mapM_map {A B C} (f : B -> res C) (g : A -> B) (h : A -> C) (l : list A) :
  Forall (fun x => f (g x) = Ok (h x)) l -> mapM f (map g l) = Ok (map h l).
Proof.
  induction 1 as [|x r Hx _ IH]; cbn; [reflexivity|]. rewrite Hx. cbn. rewrite IH. reflexivity.
Qed.

(* ------------------------------------------------------------------ induction on types *)
Section XtyInd.
  Variable P : xty -> Prop.
  Hypothesis HNil : P TNil.
  Hypothesis HSimple : forall n, P (TSimple n).
  Hypothesis HOptional : forall t, P t -> P (TOptional t).
  Hypothesis HVarArray : forall t, P t -> P (TVarArray t).
  Hypothesis HConstArray : forall n t, P t -> P (TConstArray n t).
  Hypothesis HDict : forall k v, P k -> P v -> P (TDict k v).
  Hypothesis HRange : forall t, P t -> P (TRange t).
  Hypothesis HCapability : forall t, P t -> P (TCapability t).
  Hypothesis HReference : forall a t, P t -> P (TReference a t).
  Hypothesis HIntersection : forall ts, Forall P ts -> P (TIntersection ts).
  Hypothesis HFunction : forall v tps ps r,
    Forall (fun tp => P (snd tp)) tps -> Forall (fun p => P (snd p)) ps -> P r ->
    P (TFunction v tps ps r).
  Hypothesis HComposite : forall k tid e fs ins,
    P e -> Forall (fun f => P (snd f)) fs -> Forall (Forall (fun p => P (snd p))) ins ->
    P (TComposite k tid e fs ins).
  Hypothesis HRef : forall tid, P (TRef tid).

  Fixpoint xty_ind2 (t : xty) : P t :=
    match t with
    | TNil => HNil
    | TSimple n => HSimple n
    | TOptional t => HOptional t (xty_ind2 t)
    | TVarArray t => HVarArray t (xty_ind2 t)
    | TConstArray n t => HConstArray n t (xty_ind2 t)
    | TDict k v => HDict k v (xty_ind2 k) (xty_ind2 v)
    | TRange t => HRange t (xty_ind2 t)
    | TCapability t => HCapability t (xty_ind2 t)
    | TReference a t => HReference a t (xty_ind2 t)
    | TIntersection ts =>
        HIntersection ts
          ((fix go (l : list xty) : Forall P l :=
              match l with
              | [] => Forall_nil _
              | x :: r => Forall_cons x (xty_ind2 x) (go r)
              end) ts)
    | TFunction v tps ps r =>
        HFunction v tps ps r
          ((fix go (l : list (str * xty)) : Forall (fun tp => P (snd tp)) l :=
              match l with
              | [] => Forall_nil _
              | x :: r => Forall_cons x (xty_ind2 (snd x)) (go r)
              end) tps)
          ((fix go (l : list xparam) : Forall (fun p => P (snd p)) l :=
              match l with
              | [] => Forall_nil _
              | x :: r => Forall_cons x (xty_ind2 (snd x)) (go r)
              end) ps)
          (xty_ind2 r)
    | TComposite k tid e fs ins =>
        HComposite k tid e fs ins (xty_ind2 e)
          ((fix go (l : list (str * xty)) : Forall (fun f => P (snd f)) l :=
              match l with
              | [] => Forall_nil _
              | x :: r => Forall_cons x (xty_ind2 (snd x)) (go r)
              end) fs)
          ((fix go2 (ll : list (list xparam)) : Forall (Forall (fun p => P (snd p))) ll :=
              match ll with
              | [] => Forall_nil _
              | l :: rr =>
                  Forall_cons l
                    ((fix go (l : list xparam) : Forall (fun p => P (snd p)) l :=
                        match l with
                        | [] => Forall_nil _
                        | x :: r => Forall_cons x (xty_ind2 (snd x)) (go r)
                        end) l)
                    (go2 rr)
              end) ins)
    | TRef tid => HRef tid
    end.
End XtyInd.

(* ------------------------------------------------------------------ well-formed types *)
Definition opt_bind {A B} (o : option A) (f : A -> option B) : option B :=
  match o with Some a => f a | None => None end.

Definition wf_auth (a : xauth) : bool :=
  match a with
  | ASet _ [] => false       (* a nil entitlement slice is encoded as null, which is not decodable *)
  | _ => true
  end.

Section WF.
  Variable tid_canon : str -> option str.
  Variable is_simple : str -> bool.

  (* the type ID is accepted by decodeCompositeTypeID and is the ID of the type built from it *)
  Definition tid_ok (tid : str) : bool :=
    match tid_canon tid with Some c => str_eqb c tid | None => false end.

  Definition nonempty (s : str) : bool := match s with [] => false | _ => true end.

  (* [wf_ty s t = Some s']: t can be decoded from its encoding when the results map has the keys
     s, and the map then has the keys s'.  Follows the traversal order of the decoder
     (initializers, raw/base type, [register], fields).  Excluded: nil types in positions where the
     Go encoder dereferences them, type parameters without bound, empty entitlement sets, array
     sizes of 2^53 and more, type IDs the decoder rejects, names that are not simple types. *)
  Fixpoint wf_ty (s : list str) (t : xty) {struct t} : option (list str) :=
    match t with
    | TNil => None
    | TSimple n =>
        if is_simple n && (match tkind_of_str n with TKOther => true | _ => false end)
        then Some s else None
    | TOptional t1 => wf_ty s t1
    | TVarArray t1 => wf_ty s t1
    | TRange t1 => wf_ty s t1
    | TConstArray n t1 => if (0 <=? n) && (n <? 2 ^ 53) then wf_ty s t1 else None
    | TDict k v => opt_bind (wf_ty s k) (fun s1 => wf_ty s1 v)
    | TCapability t1 => if is_tnil t1 then Some s else wf_ty s t1
    | TReference a t1 => if wf_auth a then wf_ty s t1 else None
    | TIntersection ts => wf_list wf_ty s ts
    | TFunction _ tps ps ret =>
        opt_bind (wf_list (fun s tp => wf_ty s (snd tp)) s tps) (fun s1 =>
        opt_bind (wf_list (fun s p => wf_ty s (snd p)) s1 ps) (fun s2 =>
        wf_ty s2 ret))
    | TComposite k tid extra fields inits =>
        if negb (tid_ok tid) then None
        else if ckind_eqb k KEvent && negb (Nat.eqb (List.length inits) 1) then None
        else
          opt_bind (wf_list (wf_list (fun s p => wf_ty s (snd p))) s inits) (fun s1 =>
          opt_bind (if is_tnil extra then Some s1
                    else if ckind_has_extra k then wf_ty s1 extra else None) (fun s2 =>
          wf_list (fun s f => wf_ty s (snd f)) (tid :: s2) fields))
    | TRef tid => if tid_ok tid && nonempty tid && str_mem tid s then Some s else None
    end.

  (* hypotheses on the table of simple types: the kinds of nominal types are not simple types *)
  Hypothesis simple_not_ckind : forall k, is_simple (ckind_name k) = false.

  Lemma ckind_of_str_name k : ckind_of_str (ckind_name k) = Some k.
  Proof. destruct k; reflexivity. Qed.
  Lemma tkind_of_ckind_name k : tkind_of_str (ckind_name k) = TKOther.
  Proof. destruct k; reflexivity. Qed.

  Lemma round53_small n : 0 <= n < 2 ^ 53 -> round53 n = n.
  Proof. intro H. unfold round53. replace (n <? 2 ^ 53) with true by lia. reflexivity. Qed.

  Lemma dec_entitlements_enc kind ents :
    dec_entitlement_ids (JArr (map (enc_entitlement kind) ents)) = Ok ents.
  Proof.
    unfold dec_entitlement_ids. cbn [to_arr bind].
    rewrite (mapM_map _ (enc_entitlement kind) (fun x => x)).
    - rewrite map_id. reflexivity.
    - apply Forall_forall. intros x _. unfold enc_entitlement. cbn [to_obj bind]. getk_go. reflexivity.
  Qed.

  Lemma dec_auth_enc a : wf_auth a = true -> dec_auth (enc_auth a) = Ok a.
  Proof.
    intro H. destruct a as [|tid|cj ents]; unfold enc_auth, dec_auth; cbn [to_obj bind].
    - getk_go. reflexivity.
    - getk_go. cbn [to_str bind]. str_eval. getk_go.
      change (JArr [enc_entitlement sEntitlementMap tid]) with (JArr (map (enc_entitlement sEntitlementMap) [tid])).
      rewrite dec_entitlements_enc. reflexivity.
    - destruct ents as [|e r]; [discriminate|].
      destruct cj; getk_go; cbn [to_str bind]; str_eval; getk_go;
        rewrite dec_entitlements_enc; reflexivity.
  Qed.

  Definition RT (t : xty) : Prop :=
    forall s s', wf_ty s t = Some s' -> dec_ty tid_canon is_simple s (enc_ty t) = Ok (t, s').

  Lemma tid_ok_canon tid : tid_ok tid = true -> tid_canon tid = Some tid.
  Proof.
    unfold tid_ok. destruct (tid_canon tid) as [c|]; [|discriminate].
    intro H. apply str_eqb_eq in H. subst. reflexivity.
  Qed.

  (* parameters, fields, type parameters *)
  Lemma dec_params_enc ps :
    Forall (fun p : str * str * xty => RT (snd p)) ps ->
    forall s s', wf_list (fun s (p : str * str * xty) => wf_ty s (snd p)) s ps = Some s' ->
    dec_params_with (dec_ty tid_canon is_simple) s
      (JArr (map (fun p : str * str * xty => JObj [(kType, enc_ty (snd p)); (kLabel, JStr (fst (fst p))); (kId, JStr (snd (fst p)))]) ps))
    = Ok (ps, s').
  Proof.
    intros HF s s' Hwf. unfold dec_params_with.
    apply (mapM_st_map _ _ (fun s (p : str * str * xty) => wf_ty s (snd p))); [|assumption].
    eapply Forall_impl; [|exact HF]. intros [[label id] t] Hrt s0 s0' Hw. cbn [fst snd] in *.
    unfold dec_param_with. getk_go. cbn [to_str bind]. rewrite (Hrt _ _ Hw). reflexivity.
  Qed.

  Lemma dec_inits_enc ins :
    Forall (Forall (fun p : str * str * xty => RT (snd p))) ins ->
    forall s s', wf_list (wf_list (fun s (p : str * str * xty) => wf_ty s (snd p))) s ins = Some s' ->
    dec_inits_with (dec_ty tid_canon is_simple) s
      (JArr (map (fun ps : list (str * str * xty) =>
         JArr (map (fun p : str * str * xty => JObj [(kType, enc_ty (snd p)); (kLabel, JStr (fst (fst p))); (kId, JStr (snd (fst p)))]) ps)) ins))
    = Ok (ins, s').
  Proof.
    intros HF s s' Hwf. unfold dec_inits_with.
    apply (mapM_st_map _ _ (wf_list (fun s (p : str * str * xty) => wf_ty s (snd p)))); [|assumption].
    eapply Forall_impl; [|exact HF]. intros ps Hps s0 s0' Hw.
    apply dec_params_enc; assumption.
  Qed.

  Lemma dec_fields_enc fs :
    Forall (fun f : str * xty => RT (snd f)) fs ->
    forall s s', wf_list (fun s (f : str * xty) => wf_ty s (snd f)) s fs = Some s' ->
    dec_fields_with (dec_ty tid_canon is_simple) s
      (JArr (map (fun f : str * xty => JObj [(kType, enc_ty (snd f)); (kId, JStr (fst f))]) fs))
    = Ok (fs, s').
  Proof.
    intros HF s s' Hwf. unfold dec_fields_with.
    apply (mapM_st_map _ _ (fun s (f : str * xty) => wf_ty s (snd f))); [|assumption].
    eapply Forall_impl; [|exact HF]. intros [id t] Hrt s0 s0' Hw. cbn [fst snd] in *.
    unfold dec_field_with. getk_go. cbn [to_str bind]. rewrite (Hrt _ _ Hw). reflexivity.
  Qed.

  Lemma wf_ty_not_nil s t s' : wf_ty s t = Some s' -> is_tnil t = false.
  Proof. destruct t; cbn; try reflexivity. discriminate. Qed.

  Lemma dec_tparams_enc tps :
    Forall (fun tp : str * xty => RT (snd tp)) tps ->
    forall s s', wf_list (fun s (tp : str * xty) => wf_ty s (snd tp)) s tps = Some s' ->
    dec_tparams_with (dec_ty tid_canon is_simple) s
      (JArr (map (fun tp : str * xty =>
         JObj [(kName, JStr (fst tp)); (kTypeBound, if is_tnil (snd tp) then JNull else enc_ty (snd tp))]) tps))
    = Ok (tps, s').
  Proof.
    intros HF s s' Hwf. unfold dec_tparams_with.
    apply (mapM_st_map _ _ (fun s (tp : str * xty) => wf_ty s (snd tp))); [|assumption].
    eapply Forall_impl; [|exact HF]. intros [name t] Hrt s0 s0' Hw. cbn [fst snd] in *.
    unfold dec_tparam_with. rewrite (wf_ty_not_nil _ _ _ Hw). getk_go. cbn [to_str bind].
    rewrite (Hrt _ _ Hw). reflexivity.
  Qed.

  Lemma dec_types_enc ts :
    Forall RT ts ->
    forall s s', wf_list wf_ty s ts = Some s' ->
    dec_types_with (dec_ty tid_canon is_simple) s (JArr (map enc_ty ts)) = Ok (ts, s').
  Proof.
    intros HF s s' Hwf. unfold dec_types_with.
    apply (mapM_st_map _ _ wf_ty); [|assumption].
    eapply Forall_impl; [|exact HF]. intros t Hrt. exact Hrt.
  Qed.

  Lemma dec_ty_obj s m :
    dec_ty tid_canon is_simple s (JObj m) =
    (let* kind := getk to_str kKind m in
        match tkind_of_str kind with
        | TKFunction =>
            let* view := getk_gen (fun pj => let* p := to_str pj in Ok (str_eqb p sView)) (Ok false) kPurity m in
            let* tps := getk_gen (dec_tparams_with (dec_ty tid_canon is_simple) s) (Ok ([], s)) kTypeParameters m in
            let* ps := getk (dec_params_with (dec_ty tid_canon is_simple) (snd tps)) kParameters m in
            let* rs := getk (dec_ty tid_canon is_simple (snd ps)) kReturn m in
            Ok (TFunction view (fst tps) (fst ps) (fst rs), snd rs)
        | TKIntersection =>
            let* ts := getk (dec_types_with (dec_ty tid_canon is_simple) s) kTypes m in
            Ok (TIntersection (fst ts), snd ts)
        | TKOptional =>
            let* ts := getk (dec_ty tid_canon is_simple s) kType m in Ok (TOptional (fst ts), snd ts)
        | TKRestriction => Err Crash
        | TKVarArray =>
            let* ts := getk (dec_ty tid_canon is_simple s) kType m in Ok (TVarArray (fst ts), snd ts)
        | TKCapability =>
            let* ts := getk (dec_ty tid_canon is_simple s) kType m in Ok (TCapability (fst ts), snd ts)
        | TKDictionary =>
            let* ks := getk (dec_ty tid_canon is_simple s) kKey m in
            let* vs := getk (dec_ty tid_canon is_simple (snd ks)) kValue m in
            Ok (TDict (fst ks) (fst vs), snd vs)
        | TKInclusiveRange =>
            let* ts := getk (dec_ty tid_canon is_simple s) kElement m in Ok (TRange (fst ts), snd ts)
        | TKConstArray =>
            let* n := getk to_uint kSize m in
            let* ts := getk (dec_ty tid_canon is_simple s) kType m in
            Ok (TConstArray n (fst ts), snd ts)
        | TKReference =>
            let* ts := getk (dec_ty tid_canon is_simple s) kType m in
            let* a := getk dec_auth kAuthorization m in
            Ok (TReference a (fst ts), snd ts)
        | TKOther =>
            if is_simple kind then Ok (TSimple kind, s) else
            let* inits := getk (dec_inits_with (dec_ty tid_canon is_simple) s) kInitializers m in
            let* tid := getk (dec_tid tid_canon) kTypeID m in
            match ckind_of_str kind with
            | None => Err UserOther
            | Some k =>
                let* es :=
                  (if ckind_has_extra k then getk (dec_ty tid_canon is_simple (snd inits)) kType m
                   else Ok (TNil, snd inits)) in
                if ckind_eqb k KEvent && negb (Nat.eqb (List.length (fst inits)) 1)
                then Err UserOther else
                let* fs := getk (dec_fields_with (dec_ty tid_canon is_simple) (fst tid :: snd es)) kFields m in
                Ok (TComposite k (snd tid) (fst es) (fst fs) (fst inits), snd fs)
            end
        end).
  Proof. reflexivity. Qed.

  Opaque enc_ty.

  Ltac use_hev Hev :=
    match goal with |- context [if ?c then Err UserOther else _] => replace c with false by (symmetry; exact Hev) end.

  Theorem dec_enc_ty : forall t, RT t.
  Proof.
    induction t using xty_ind2; unfold RT in *; intros s s' Hwf.
    - (* TNil *) discriminate.
    - (* TSimple *)
      cbn [wf_ty opt_bind negb] in Hwf. destruct (is_simple n) eqn:Hs; [|discriminate].
      destruct (tkind_of_str n) eqn:Hk; try discriminate. inversion Hwf; subst.
      Transparent enc_ty. cbn [enc_ty]. Opaque enc_ty.
      rewrite dec_ty_obj. getk_go. cbn [to_str bind]. rewrite Hk, Hs. reflexivity.
    - (* TOptional *)
      cbn [wf_ty opt_bind negb] in Hwf. Transparent enc_ty. cbn [enc_ty]. Opaque enc_ty.
      rewrite dec_ty_obj. getk_go. cbn [to_str bind].
      change (tkind_of_str sOptional) with TKOptional. cbn iota. getk_go.
      rewrite (IHt _ _ Hwf). reflexivity.
    - (* TVarArray *)
      cbn [wf_ty opt_bind negb] in Hwf. Transparent enc_ty. cbn [enc_ty]. Opaque enc_ty.
      rewrite dec_ty_obj. getk_go. cbn [to_str bind].
      change (tkind_of_str sVariableSizedArray) with TKVarArray. cbn iota. getk_go.
      rewrite (IHt _ _ Hwf). reflexivity.
    - (* TConstArray *)
      cbn [wf_ty opt_bind negb] in Hwf. destruct ((0 <=? n) && (n <? 2 ^ 53)) eqn:Hn; [|discriminate].
      Transparent enc_ty. cbn [enc_ty]. Opaque enc_ty.
      rewrite dec_ty_obj. getk_go. cbn [to_str bind].
      change (tkind_of_str sConstantSizedArray) with TKConstArray. cbn iota. getk_go.
      cbn [to_uint bind]. rewrite round53_small by lia.
      rewrite (IHt _ _ Hwf). reflexivity.
    - (* TDict *)
      cbn [wf_ty opt_bind negb] in Hwf. destruct (wf_ty s t1) as [s1|] eqn:E1; [|discriminate]. cbn [wf_ty opt_bind negb] in Hwf.
      Transparent enc_ty. cbn [enc_ty]. Opaque enc_ty.
      rewrite dec_ty_obj. getk_go. cbn [to_str bind].
      change (tkind_of_str sDictionary) with TKDictionary. cbn iota. getk_go.
      rewrite (IHt1 _ _ E1). cbn [bind fst snd]. getk_go. rewrite (IHt2 _ _ Hwf). reflexivity.
    - (* TRange *)
      cbn [wf_ty opt_bind negb] in Hwf. Transparent enc_ty. cbn [enc_ty]. Opaque enc_ty.
      rewrite dec_ty_obj. getk_go. cbn [to_str bind].
      change (tkind_of_str sInclusiveRange) with TKInclusiveRange. cbn iota. getk_go.
      rewrite (IHt _ _ Hwf). reflexivity.
    - (* TCapability *)
      cbn [wf_ty opt_bind negb] in Hwf. Transparent enc_ty. cbn [enc_ty]. Opaque enc_ty.
      rewrite dec_ty_obj. getk_go. cbn [to_str bind].
      change (tkind_of_str sCapability) with TKCapability. cbn iota. getk_go.
      destruct (is_tnil t) eqn:Hn.
      + destruct t; try discriminate. inversion Hwf; subst.
        Transparent enc_ty. cbn [enc_ty]. Opaque enc_ty. reflexivity.
      + rewrite (IHt _ _ Hwf). reflexivity.
    - (* TReference *)
      cbn [wf_ty opt_bind negb] in Hwf. destruct (wf_auth a) eqn:Ha; [|discriminate].
      Transparent enc_ty. cbn [enc_ty]. Opaque enc_ty.
      rewrite dec_ty_obj. getk_go. cbn [to_str bind].
      change (tkind_of_str sReference) with TKReference. cbn iota. getk_go.
      rewrite (IHt _ _ Hwf). cbn [bind fst snd]. getk_go. rewrite (dec_auth_enc _ Ha). reflexivity.
    - (* TIntersection *)
      cbn [wf_ty opt_bind negb] in Hwf. Transparent enc_ty. cbn [enc_ty]. Opaque enc_ty.
      rewrite dec_ty_obj. getk_go. cbn [to_str bind].
      change (tkind_of_str sIntersection) with TKIntersection. cbn iota. getk_go.
      rewrite (dec_types_enc _ H _ _ Hwf). reflexivity.
    - (* TFunction *)
      cbn [wf_ty opt_bind negb] in Hwf.
      destruct (wf_list (fun s tp => wf_ty s (snd tp)) s tps) as [s1|] eqn:E1; [|discriminate]. cbn [wf_ty opt_bind negb] in Hwf.
      destruct (wf_list (fun s p => wf_ty s (snd p)) s1 ps) as [s2|] eqn:E2; [|discriminate]. cbn [wf_ty opt_bind negb] in Hwf.
      Transparent enc_ty. cbn [enc_ty]. Opaque enc_ty.
      rewrite dec_ty_obj. getk_go. cbn [to_str bind].
      change (tkind_of_str sFunction) with TKFunction. cbn iota. getk_go.
      cbn beta. cbn [to_str bind]. getk_go.
      rewrite (dec_tparams_enc _ H _ _ E1). cbn [bind fst snd]. getk_go.
      rewrite (dec_params_enc _ H0 _ _ E2). cbn [bind fst snd]. getk_go.
      rewrite (IHt _ _ Hwf). cbn [bind fst snd].
      destruct v; reflexivity.
    - (* TComposite *)
      cbn [wf_ty opt_bind negb] in Hwf.
      destruct (tid_ok tid) eqn:Htid; [|discriminate]. cbn [negb] in Hwf.
      destruct (ckind_eqb k KEvent && negb (Nat.eqb (List.length ins) 1)) eqn:Hev; [discriminate|].
      destruct (wf_list (wf_list (fun s p => wf_ty s (snd p))) s ins) as [s1|] eqn:E1; [|discriminate].
      cbn [wf_ty opt_bind negb] in Hwf.
      Transparent enc_ty. cbn [enc_ty]. Opaque enc_ty.
      rewrite dec_ty_obj. getk_go. cbn [to_str bind].
      rewrite tkind_of_ckind_name. cbn iota. rewrite simple_not_ckind.
      getk_go.
      rewrite (dec_inits_enc _ H0 _ _ E1). cbn [bind fst snd]. getk_go.
      unfold dec_tid. cbn [to_str bind]. rewrite (tid_ok_canon _ Htid). cbn [bind fst snd].
      rewrite ckind_of_str_name.
      destruct (is_tnil t) eqn:Hn.
      + destruct t; try discriminate. cbn [is_tnil wf_ty opt_bind negb] in Hwf.
        destruct (ckind_has_extra k) eqn:Hx.
        * getk_go. Transparent enc_ty. cbn [enc_ty]. Opaque enc_ty. cbn [dec_ty].
          cbn [bind fst snd]. use_hev Hev.
          getk_go. rewrite (dec_fields_enc _ H _ _ Hwf). reflexivity.
        * cbn [bind fst snd]. use_hev Hev.
          getk_go. rewrite (dec_fields_enc _ H _ _ Hwf). reflexivity.
      + destruct (ckind_has_extra k) eqn:Hx; [|discriminate].
        destruct (wf_ty s1 t) as [s2|] eqn:E2; [|discriminate]. cbn [opt_bind] in Hwf.
        getk_go. rewrite (IHt _ _ E2). cbn [bind fst snd]. use_hev Hev.
        getk_go. rewrite (dec_fields_enc _ H _ _ Hwf). reflexivity.
    - (* TRef *)
      cbn [wf_ty opt_bind negb] in Hwf. destruct (tid_ok tid) eqn:Htid; [|discriminate].
      destruct (nonempty tid) eqn:Hne; [|discriminate].
      destruct (str_mem tid s) eqn:Hm; [|discriminate]. inversion Hwf; subst.
      Transparent enc_ty. cbn [enc_ty]. Opaque enc_ty.
      destruct tid as [|c r]; [discriminate|].
      cbn [dec_ty]. rewrite Hm, (tid_ok_canon _ Htid). reflexivity.
  Qed.
End WF.
