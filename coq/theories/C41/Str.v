(* Strings as lists of Unicode code points, decimal / hexadecimal printing and parsing
   (models of strconv.FormatInt/ParseInt/ParseUint, big.Int.String/SetString(s,10),
   fmt "%08d", fmt "%x" on byte slices, encoding/hex.DecodeString), sorting of strings. *)
From CV Require Export Base.Prelude.
From Coq Require Import String Ascii.

Definition str := list Z.

Fixpoint str_eqb (a b : str) : bool :=
  match a, b with
  | [], [] => true
  | x :: a', y :: b' => (x =? y) && str_eqb a' b'
  | _, _ => false
  end.

(* lexicographic order on code points (= bytewise order of the UTF-8 encodings) *)
Fixpoint str_leb (a b : str) : bool :=
  match a, b with
  | [], _ => true
  | _ :: _, [] => false
  | x :: a', y :: b' => if x <? y then true else if y <? x then false else str_leb a' b'
  end.

Fixpoint str_mem (s : str) (l : list str) : bool :=
  match l with
  | [] => false
  | x :: r => str_eqb s x || str_mem s r
  end.

Fixpoint list_ascii (s : string) : list ascii :=
  match s with EmptyString => [] | String c r => c :: list_ascii r end.
Definition s2z (s : string) : str := map (fun c => Z.of_N (N_of_ascii c)) (list_ascii s).

Fixpoint concat_sep (sep : str) (l : list str) : str :=
  match l with
  | [] => []
  | [x] => x
  | x :: r => x ++ sep ++ concat_sep sep r
  end.

(* insertion sort (stable); models slices.Sort / sort.Strings on the observable result *)
Fixpoint insert_by {A} (le : A -> A -> bool) (x : A) (l : list A) : list A :=
  match l with
  | [] => [x]
  | y :: r => if le x y then x :: l else y :: insert_by le x r
  end.
Fixpoint sort_by {A} (le : A -> A -> bool) (l : list A) : list A :=
  match l with
  | [] => []
  | x :: r => insert_by le x (sort_by le r)
  end.

(* ------------------------------------------------------------------ digits *)
Definition digit_char (d : Z) : Z := 48 + d.
Definition is_digit (c : Z) : bool := (48 <=? c) && (c <=? 57).

(* value of a digit string, most significant first *)
Definition digits_value (s : str) : Z := fold_left (fun acc c => acc * 10 + (c - 48)) s 0.

(* decimal digits of a non-negative integer; [fuel] bounds the number of digits *)
Fixpoint print_nat_fuel (fuel : nat) (z : Z) : str :=
  if z <? 10 then [digit_char z]
  else match fuel with
       | O => [digit_char (z mod 10)]
       | S f => print_nat_fuel f (z / 10) ++ [digit_char (z mod 10)]
       end.
Definition print_nat (z : Z) : str := print_nat_fuel (Z.to_nat (Z.log2_up (z + 1))) z.

(* exactly [w] digits, zero padded: fmt "%0wd" for 0 <= z < 10^w *)
Fixpoint print_fixed (w : nat) (z : Z) : str :=
  match w with
  | O => []
  | S w' => print_fixed w' (z / 10) ++ [digit_char (z mod 10)]
  end.

Definition cMinus : Z := 45.
Definition cPlus : Z := 43.
Definition cDot : Z := 46.

(* strconv.FormatInt(z,10) / big.Int.String() *)
Definition print_int (z : Z) : str :=
  if z <? 0 then cMinus :: print_nat (- z) else print_nat z.

(* one or more ASCII digits *)
Definition parse_digits (s : str) : option Z :=
  match s with
  | [] => None
  | _ => if forallb is_digit s then Some (digits_value s) else None
  end.

(* optional sign then one or more digits: syntax accepted by strconv.ParseInt(s,10,_) and
   big.Int.SetString(s,10) (base 10 given explicitly: no underscores, no prefixes) *)
Definition parse_int (s : str) : option Z :=
  match s with
  | c :: r =>
      if c =? cMinus then option_map Z.opp (parse_digits r)
      else if c =? cPlus then parse_digits r
      else parse_digits s
  | [] => None
  end.

(* strconv.ParseUint(s,10,_): no sign *)
Definition parse_uint (s : str) : option Z := parse_digits s.

(* ------------------------------------------------------------------ hex *)
Definition hex_char (d : Z) : Z := if d <? 10 then 48 + d else 87 + d. (* lower case *)
Definition hex_val (c : Z) : option Z :=
  if (48 <=? c) && (c <=? 57) then Some (c - 48)
  else if (97 <=? c) && (c <=? 102) then Some (c - 87)
  else if (65 <=? c) && (c <=? 70) then Some (c - 55)
  else None.
Fixpoint print_hex_fixed (w : nat) (z : Z) : str :=
  match w with
  | O => []
  | S w' => print_hex_fixed w' (z / 16) ++ [hex_char (z mod 16)]
  end.
Fixpoint hex_value_acc (acc : Z) (s : str) : option Z :=
  match s with
  | [] => Some acc
  | c :: r => match hex_val c with Some d => hex_value_acc (acc * 16 + d) r | None => None end
  end.
Definition parse_hex (s : str) : option Z := hex_value_acc 0 s.

(* split at every occurrence of [sep] (strings.Split with a one-character separator) *)
Fixpoint split_on (sep : Z) (s : str) : list str :=
  match s with
  | [] => [[]]
  | c :: r =>
      match split_on sep r with
      | [] => [[]] (* unreachable *)
      | h :: t => if c =? sep then [] :: h :: t else (c :: h) :: t
      end
  end.
