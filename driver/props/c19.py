import os

from lib import std_flow, VERIF


def run(ctx):
    ctx.assumptions += [
        "Unicode normalisation (golang.org/x/text/unicode/norm) and grapheme segmentation (rivo/uniseg) are external: "
        "they enter the theorems as universally quantified functions nfc, B constrained by the hypotheses wf/stable, and the "
        "correspondence run as per-case tables computed with the real libraries; the harness validates wf/stable on every generated string",
        "strings.Index, strings.ToLower, strings.Builder, encoding/hex and unicode/utf8 of the Go standard library are modelled "
        "(first occurrence search; oracle table; byte append; table-driven hex and UTF-8 validity) and tied by the correspondence run",
        "Coq model C19/Model.v is hand-written in the shape of interpreter/value_string.go; tied by this run's correspondence",
    ]
    std_flow(ctx, "c19", args=["-corpus", os.path.join(VERIF, "corpus", "C19")],
             coq_targets=["C19/Cases"],
             mismatch_key=lambda d: "string-model:%s" % d.get("op"))
