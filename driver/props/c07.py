import json
import os

from lib import std_flow, COQ


def run(ctx):
    ctx.assumptions += [
        "corpus/C07/mutates_receiver.json (which built-ins mutate their receiver or account state) is a hand-written ground truth",
        "the Coq model (C07/Syntax, Check, Sem) is hand-written in the shape of sema's purity analysis and of the interpreter's "
        "value/reference semantics; it is tied to /repo by this run's correspondence (checker verdicts, results, 34 observables, events)",
        "dynamic transfer checks of the model stand for the interpreter's checkValueTransferTargetType / checkContainerMutation "
        "(type soundness of the implementation is C01's subject, not proved here)",
    ]
    # 1. translator step: purity of every built-in function, extracted from the linked sema package
    binpath, out = ctx.go_build("c07")
    if binpath is None:
        ctx.log("harness build failed:\n" + out[-3000:])
        ctx.failure("harness-build", "harness no longer builds against /repo: " + out[-1500:],
                    {"broken": "go build ./c07", "log": out[-3000:]}, no_input=True)
        ctx.settle_l1()
        return
    gen = os.path.join(COQ, "theories", "Gen", "GenC07Purity.v")
    rc, out = ctx.go_run(binpath, ["-mode", "table", "-gen", gen, "-dir", ctx.work], timeout=600)
    tpath = os.path.join(ctx.work, "table.json")
    if rc != 0 or not os.path.exists(tpath):
        ctx.failure("table-extraction", "extraction of the built-in purity table failed: " + out[-1500:],
                    {"broken": "c07 -mode table", "log": out[-3000:]}, no_input=True)
    else:
        probs = json.load(open(tpath)).get("problems") or []
        for key, what, name in probs:
            ctx.failure(key, what, {"builtin": name, "table": "coq/theories/Gen/GenC07Purity.v",
                                    "ground_truth": "corpus/C07/mutates_receiver.json"})
        ctx.cov["builtin_table_problems"] = len(probs)
    # 2. proof leg over the regenerated table
    ctx.require_proofs(extra_targets=["theories/C07/Cases.vo"])
    # 3. correspondence + direct monitors
    std_flow(ctx, "c07", proof=False,
             mismatch_key=lambda d: "model-mismatch:kind-%s" % d.get("kind"))
    # a broken proof leg must not hide behind the known findings (which are concrete failing inputs of their own)
    r = ctx.l1
    if r is not None and not r["ok"]:
        kf = os.path.join(os.path.dirname(COQ), "known_findings", "C07.json")
        known = {k["key"] for k in json.load(open(kf)).get("findings", [])} if os.path.exists(kf) else set()
        if not any((not f["no_input"]) and f["key"] not in known for f in ctx.failures) \
                and not any(f["key"] == "proof-leg" for f in ctx.failures):
            ctx.failure("proof-leg", "Coq proof leg no longer checks: %s\n%s" % (r.get("broken_at", ""), r["log"][-1200:]),
                        {"broken": r.get("broken_at", "theories/Properties/C07.v"), "theorems": r.get("theorems")}, no_input=True)
