import json
import os

from lib import COQ, REPO, Lock, sh


def robust_flow(ctx, pkg, mismatch_key, coq_targets=(), proof=True, run_timeout=3000, coq_timeout=2400):
    """lib.std_flow, except that a case file whose coqc run died (no `mism` output, e.g. killed under memory
    pressure on a loaded machine) is evaluated once more, alone, before it is reported."""
    if proof:
        ctx.require_proofs(extra_targets=["theories/" + t + ".vo" for t in coq_targets])
    binpath, out = ctx.go_build(pkg)
    if binpath is None:
        ctx.log("harness build failed:\n" + out[-3000:])
        ctx.failure("harness-build", "harness no longer builds against /repo: " + out[-1500:],
                    {"broken": "go build ./%s" % pkg, "log": out[-3000:]}, no_input=True)
        ctx.settle_l1()
        return None
    rc, out = ctx.go_run(binpath, ["-prop", ctx.pid, "-seed", ctx.seed, "-tier", ctx.tier, "-dir", ctx.work],
                         timeout=run_timeout)
    spath = os.path.join(ctx.work, "summary.json")
    if rc != 0 or not os.path.exists(spath):
        ctx.log("harness run failed rc=%s:\n%s" % (rc, out[-3000:]))
        ctx.failure("harness-run", "harness run failed (rc=%s): %s" % (rc, out[-1500:]),
                    {"broken": "harness run", "log": out[-3000:]}, no_input=True)
        ctx.settle_l1()
        return None
    s = json.load(open(spath))
    for f in s.get("failures") or []:
        ctx.failure(f["key"], f["what"], f["replay"])
    files = s.get("case_files") or []
    nm = 0
    if files:
        res, errs = ctx.coq_cases(files, timeout=coq_timeout)
        if errs:
            res2, errs2 = ctx.coq_cases(sorted(errs), timeout=coq_timeout, jobs=1)
            res.update(res2)
            errs = errs2
        for path, log in errs.items():
            ctx.failure("model-eval", "Coq evaluation of %s failed: %s" % (os.path.basename(path), log[-800:]),
                        {"broken": "correspondence evaluation " + path, "log": log[-2000:]}, no_input=True)
        for path, idxs in res.items():
            if not idxs:
                continue
            descs = [json.loads(l) for l in open(path[:-2] + ".jsonl")]
            for i in idxs:
                nm += 1
                d = descs[i] if i < len(descs) else {"index": i}
                ctx.failure(mismatch_key(d), "implementation and Coq model disagree on %s" % json.dumps(d)[:500],
                            {"case": d, "case_file": os.path.basename(path), "index": i,
                             "note": "observed = implementation; the Coq model (proved to meet the property) computes a different result"})
    ctx.cov.update({
        "evaluations": s.get("evaluations", 0),
        "distinct_nontrivial": s.get("distinct_nontrivial", 0),
        "rule": s.get("rule", ""),
        "samples": s.get("samples") or [],
        "distribution": s.get("distribution") or {},
        "coq_case_files": len(files),
        "model_mismatches": nm,
        "direct_failures": len(s.get("failures") or []),
    })
    if s.get("extra"):
        ctx.cov["extra"] = s["extra"]
    ctx.settle_l1()
    return s


def run(ctx):
    ctx.assumptions += [
        "corpus/C07/mutates_receiver.json (which built-ins mutate their receiver or account state) is a hand-written ground truth",
        "the Coq model (C07/Syntax, Check, Sem) is hand-written in the shape of sema's purity analysis and of the interpreter's "
        "value/reference semantics; it is tied to /repo by this run's correspondence (checker verdicts, results, 34 observables, events)",
        "dynamic transfer checks of the model stand for the interpreter's checkValueTransferTargetType / checkContainerMutation "
        "(type soundness of the implementation is C01's subject, not proved here)",
    ]
    # 1. translator step: purity of every built-in function, extracted from the linked sema package
    binpath, out = ctx.go_build("c07")
    if binpath is None:
        ctx.log("harness build failed:\n" + out[-3000:])
        ctx.failure("harness-build", "harness no longer builds against /repo: " + out[-1500:],
                    {"broken": "go build ./c07", "log": out[-3000:]}, no_input=True)
        ctx.settle_l1()
        return
    gen = os.path.join(COQ, "theories", "Gen", "GenC07Purity.v")
    rc, out = ctx.go_run(binpath, ["-mode", "table", "-gen", gen, "-dir", ctx.work, "-repo", REPO], timeout=600)
    tpath = os.path.join(ctx.work, "table.json")
    if rc != 0 or not os.path.exists(tpath):
        ctx.failure("table-extraction", "extraction of the built-in purity table failed: " + out[-1500:],
                    {"broken": "c07 -mode table", "log": out[-3000:]}, no_input=True)
    else:
        probs = json.load(open(tpath)).get("problems") or []
        for key, what, name in probs:
            ctx.failure(key, what, {"builtin": name, "table": "coq/theories/Gen/GenC07Purity.v",
                                    "ground_truth": "corpus/C07/mutates_receiver.json"})
        ctx.cov["builtin_table_problems"] = len(probs)
    # 2. proof leg over the regenerated table
    r0 = ctx.require_proofs(extra_targets=["theories/C07/Cases.vo"])
    if not r0["ok"]:
        # a broken obligation (e.g. the table or the wiring) must not prevent the model from being evaluated on the
        # cases: the case checker does not depend on the obligations
        with Lock("coq"):
            sh(["make", "-j4", "theories/C07/Cases.vo"], cwd=COQ, timeout=1800)
    # 3. correspondence + direct monitors
    robust_flow(ctx, "c07", lambda d: "model-mismatch:kind-%s" % d.get("kind"), proof=False)
    # a broken proof leg must not hide behind the known findings (which are concrete failing inputs of their own)
    r = ctx.l1
    if r is not None and not r["ok"]:
        kf = os.path.join(os.path.dirname(COQ), "known_findings", "C07.json")
        known = {k["key"] for k in json.load(open(kf)).get("findings", [])} if os.path.exists(kf) else set()
        if not any((not f["no_input"]) and f["key"] not in known for f in ctx.failures) \
                and not any(f["key"] == "proof-leg" for f in ctx.failures):
            ctx.failure("proof-leg", "Coq proof leg no longer checks: %s\n%s" % (r.get("broken_at", ""), r["log"][-1200:]),
                        {"broken": r.get("broken_at", "theories/Properties/C07.v"), "theorems": r.get("theorems")}, no_input=True)
