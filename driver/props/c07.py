import json
import os

from lib import ALT, COQ, REPO, Lock, sh


def robust_flow(ctx, pkg, mismatch_key, coq_targets=(), proof=True, run_timeout=3000, coq_timeout=2400):
    """lib.std_flow, except that a case file whose coqc run died (no `mism` output, e.g. killed under memory
    pressure on a loaded machine) is evaluated once more, alone, before it is reported."""
    if proof:
        ctx.require_proofs(extra_targets=["theories/" + t + ".vo" for t in coq_targets])
    binpath, out = ctx.go_build(pkg)
    if binpath is None:
        ctx.log("harness build failed:\n" + out[-3000:])
        ctx.failure("harness-build", "harness no longer builds against /repo: " + out[-1500:],
                    {"broken": "go build ./%s" % pkg, "log": out[-3000:]}, no_input=True)
        ctx.settle_l1()
        return None
    rc, out = ctx.go_run(binpath, ["-prop", ctx.pid, "-seed", ctx.seed, "-tier", ctx.tier, "-dir", ctx.work],
                         timeout=run_timeout)
    spath = os.path.join(ctx.work, "summary.json")
    if rc != 0 or not os.path.exists(spath):
        ctx.log("harness run failed rc=%s:\n%s" % (rc, out[-3000:]))
        ctx.failure("harness-run", "harness run failed (rc=%s): %s" % (rc, out[-1500:]),
                    {"broken": "harness run", "log": out[-3000:]}, no_input=True)
        ctx.settle_l1()
        return None
    s = json.load(open(spath))
    for f in s.get("failures") or []:
        ctx.failure(f["key"], f["what"], f["replay"])
    files = s.get("case_files") or []
    nm = 0
    if files:
        res, errs = ctx.coq_cases(files, timeout=coq_timeout)
        if errs:
            res2, errs2 = ctx.coq_cases(sorted(errs), timeout=coq_timeout, jobs=1)
            res.update(res2)
            errs = errs2
        for path, log in errs.items():
            ctx.failure("model-eval", "Coq evaluation of %s failed: %s" % (os.path.basename(path), log[-800:]),
                        {"broken": "correspondence evaluation " + path, "log": log[-2000:]}, no_input=True)
        for path, idxs in res.items():
            if not idxs:
                continue
            descs = [json.loads(l) for l in open(path[:-2] + ".jsonl")]
            for i in idxs:
                nm += 1
                d = descs[i] if i < len(descs) else {"index": i}
                ctx.failure(mismatch_key(d), "implementation and Coq model disagree on %s" % json.dumps(d)[:500],
                            {"case": d, "case_file": os.path.basename(path), "index": i,
                             "note": "observed = implementation; the Coq model (proved to meet the property) computes a different result"})
    ctx.cov.update({
        "evaluations": s.get("evaluations", 0),
        "distinct_nontrivial": s.get("distinct_nontrivial", 0),
        "rule": s.get("rule", ""),
        "samples": s.get("samples") or [],
        "distribution": s.get("distribution") or {},
        "coq_case_files": len(files),
        "model_mismatches": nm,
        "direct_failures": len(s.get("failures") or []),
    })
    if s.get("extra"):
        ctx.cov["extra"] = s["extra"]
    ctx.settle_l1()
    return s


ALT_OBLIGATIONS = """
From Coq Require Import String List Bool.
From ALT Require GenC07Purity.
From CV Require Import C07.Sem C07.Soundness C07.Sites.
Module A := ALT.GenC07Purity.
Definition find_b (n : string) := find (fun e => String.eqb (A.bn e) n) A.builtins.
Definition view_b (b : builtin) := match find_b (bname b) with Some e => A.bview e | None => false end.
Lemma alt_table_ok :
  forallb (fun e => implb (A.bmut e) (negb (A.bview e)) && implb (A.bview e) (A.bfpview e)) A.builtins = true.
Proof. vm_compute. reflexivity. Qed.
Lemma alt_table_consistent :
  forallb (fun b => match find_b (bname b) with Some e => Bool.eqb (A.bmut e) (mutating b) | None => false end) all_builtins = true.
Proof. vm_compute. reflexivity. Qed.
Lemma alt_view_builtin_pure : forall b, view_b b = true -> mutating b = false.
Proof. intros b H. destruct b; vm_compute in H; try discriminate; reflexivity. Qed.
Lemma alt_purity_wiring : sites_eqb A.purity_sites expected_sites = true.
Proof. vm_compute. reflexivity. Qed.
"""


def alt_obligations(ctx, gen):
    """The table / wiring obligations of Properties/C07.v, re-stated over the table generated from the scratch tree."""
    d = os.path.dirname(gen)
    rc, out = sh(["coqc", "-Q", d, "ALT", gen], cwd=d, timeout=600)
    if rc == 0:
        path = os.path.join(d, "alt_obligations.v")
        with open(path, "w") as f:
            f.write(ALT_OBLIGATIONS)
        rc, out = sh(["coqc", "-Q", os.path.join(COQ, "theories"), "CV", "-Q", d, "ALT", path], cwd=d, timeout=900)
    if rc != 0:
        m = None
        import re
        m = re.search(r'File "([^"]+)", line (\d+)', out)
        l1 = dict(ctx.l1 or {"obligations": 0, "discharged": 0, "axioms": {}, "theorems": []})
        l1["ok"] = False
        l1["broken_at"] = "table/wiring obligations over the table generated from %s (%s)" % (REPO, (m.group(1) + ":" + m.group(2)) if m else "?")
        l1["log"] = out[-3000:]
        ctx.l1 = l1
        ctx.log("proof leg BROKEN: " + l1["broken_at"])


def run(ctx):
    ctx.assumptions += [
        "corpus/C07/mutates_receiver.json (which built-ins mutate their receiver or account state) is a hand-written ground truth",
        "the Coq model (C07/Syntax, Check, Sem) is hand-written in the shape of sema's purity analysis and of the interpreter's "
        "value/reference semantics; it is tied to /repo by this run's correspondence (checker verdicts, results, 34 observables, events)",
        "dynamic transfer checks of the model stand for the interpreter's checkValueTransferTargetType / checkContainerMutation "
        "(type soundness of the implementation is C01's subject, not proved here)",
    ]
    # 1. translator step: purity of every built-in function, extracted from the linked sema package
    binpath, out = ctx.go_build("c07")
    if binpath is None:
        ctx.log("harness build failed:\n" + out[-3000:])
        ctx.failure("harness-build", "harness no longer builds against /repo: " + out[-1500:],
                    {"broken": "go build ./c07", "log": out[-3000:]}, no_input=True)
        ctx.settle_l1()
        return
    main_gen = os.path.join(COQ, "theories", "Gen", "GenC07Purity.v")
    gen = main_gen
    if ALT:
        # a run against a scratch copy of onflow/cadence never rewrites the generated table of the real tree (that
        # would force every later run to re-check the whole development): its table is checked separately below
        os.makedirs(os.path.join(ctx.work, "altgen"), exist_ok=True)
        gen = os.path.join(ctx.work, "altgen", "GenC07Purity.v")
    rc, out = ctx.go_run(binpath, ["-mode", "table", "-gen", gen, "-dir", ctx.work, "-repo", REPO], timeout=600)
    tpath = os.path.join(ctx.work, "table.json")
    if rc != 0 or not os.path.exists(tpath):
        ctx.failure("table-extraction", "extraction of the built-in purity table failed: " + out[-1500:],
                    {"broken": "c07 -mode table", "log": out[-3000:]}, no_input=True)
    else:
        probs = json.load(open(tpath)).get("problems") or []
        for key, what, name in probs:
            ctx.failure(key, what, {"builtin": name, "table": "coq/theories/Gen/GenC07Purity.v",
                                    "ground_truth": "corpus/C07/mutates_receiver.json"})
        ctx.cov["builtin_table_problems"] = len(probs)
    # 2. proof leg over the regenerated table
    r0 = ctx.require_proofs(extra_targets=["theories/C07/Cases.vo"])
    if not r0["ok"]:
        # a broken obligation (e.g. the table or the wiring) must not prevent the model from being evaluated on the
        # cases: the case checker does not depend on the obligations
        with Lock("coq"):
            sh(["make", "-j4", "theories/C07/Cases.vo"], cwd=COQ, timeout=1800)
    if ALT and os.path.exists(gen) and (not os.path.exists(main_gen) or open(gen).read() != open(main_gen).read()):
        alt_obligations(ctx, gen)
    # 3. correspondence + direct monitors
    robust_flow(ctx, "c07", lambda d: "model-mismatch:kind-%s" % d.get("kind"), proof=False)
    # a broken proof leg must not hide behind the known findings (which are concrete failing inputs of their own)
    r = ctx.l1
    if r is not None and not r["ok"]:
        kf = os.path.join(os.path.dirname(COQ), "known_findings", "C07.json")
        known = {k["key"] for k in json.load(open(kf)).get("findings", [])} if os.path.exists(kf) else set()
        if not any((not f["no_input"]) and f["key"] not in known for f in ctx.failures) \
                and not any(f["key"] == "proof-leg" for f in ctx.failures):
            ctx.failure("proof-leg", "Coq proof leg no longer checks: %s\n%s" % (r.get("broken_at", ""), r["log"][-1200:]),
                        {"broken": r.get("broken_at", "theories/Properties/C07.v"), "theorems": r.get("theorems")}, no_input=True)
