import os

from lib import VERIF, std_flow


def run(ctx):
    ctx.assumptions += [
        "the Coq model C02/Model.v is hand-written in the shape of the interpreter's Transfer/Destroy/"
        "InvalidateReferencedResources code (shared by the VM); it is tied to /repo by this run's correspondence",
        "the host (lib.Host: in-memory ledger, uuid counter, event and log collection) and the generated contract C "
        "(harness/c02gen/contract.go) are part of the test bench",
        "destruction of a resource whose type declares no destruction event is only observable through the model",
    ]
    ctx.trusted += ["program generator emitting Cadence source and model commands side by side (harness/c02gen/gen.go)"]
    std_flow(ctx, "c02", args=["-corpus", os.path.join(VERIF, "corpus", "C02")],
             coq_targets=["C02/Cases"], mismatch_key=lambda d: d.get("key", "model-mismatch"))
