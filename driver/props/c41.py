from lib import std_flow


def run(ctx):
    ctx.assumptions += [
        "Go encoding/json (JSON text <-> tree) is outside the model: the harness parses real encoder output with its token API and feeds the decoder serialised trees",
        "sema.IsValidCharacter, common.DecodeTypeID/Location.TypeID and the table of primitive types enter the Coq model as parameters; per case the harness supplies their real values (and the table is compared with the real one on every run)",
        "Go pointer graphs of cadence.Type are converted to trees with back references by an independent traversal in the harness (harness/c41/term.go)",
        "Coq model C41/Json.v is hand-written in the shape of encode.go/decode.go; tied by this run's correspondence",
    ]
    std_flow(ctx, "c41", coq_targets=["C41/Cases"],
             mismatch_key=lambda d: d.get("key", "json-model-mismatch"))
