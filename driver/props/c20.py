from lib import std_flow
from props.c05 import retry_stale_libraries

COQ_TARGETS = ["C20/Cases"]


def _key(d):
    # one key per container family; the Go oracle gives the finer "array:<op>" / "dict:<op>" keys
    return "model-mismatch:%s" % d.get("container", "?")


def run(ctx):
    ctx.assumptions += [
        "atree (slab B+-trees, digests, inlining) is outside /repo: its Array/OrderedMap API is the modelled layer 0 of C20/ArrayModel.v and C20/DictModel.v",
        "the dictionary iteration order is unspecified: theorems hold for every placement function; observations are compared sorted, "
        "and keys/values/forEachKey/for-in are checked to use one common order per state",
        "elements are identified by integer ids; the Cadence value of an id is a fixed function (harness/c20/values.go) and every observed "
        "value is parsed and checked against that function in full",
    ]
    std_flow(ctx, "c20", coq_targets=COQ_TARGETS, mismatch_key=_key, run_timeout=3000, coq_timeout=2400)
    retry_stale_libraries(ctx, COQ_TARGETS, _key)
