import os

from lib import std_flow, VERIF


def mismatch_key(d):
    return "model-mismatch:%s" % (d.get("fn") or "program")


def run(ctx):
    ctx.assumptions += [
        "the Coq model C06/Model.v is hand-transcribed from sema/access.go, sema/type_tags.go and sema/check_member_expression.go; "
        "model = code is established by this run's exhaustive correspondence over a 4-entitlement universe",
        "entitlement identity is by *EntitlementType pointer in the code (one object per entitlement in the harness)",
    ]
    std_flow(ctx, "c06", args=["-corpus", os.path.join(VERIF, "corpus", "C06")],
             coq_targets=["C06/Cases"], mismatch_key=mismatch_key)
