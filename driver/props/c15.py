from lib import std_flow


def key(d):
    return "fix-model:%s:%s" % (d.get("type"), d.get("op"))


def run(ctx):
    ctx.assumptions += [
        "github.com/onflow/fixed-point v0.1.1 (outside /repo) is NOT verified: in the theorems about Fix128/UFix128 arithmetic and about multiplyDivide of all four "
        "types its functions (FMD, Add, Sub, Mod, Neg) are universally quantified and constrained by the hypothesis lib_as_assumed (rounded exact result; positive / "
        "negative overflow, underflow and division by zero flagged); this run's correspondence (real value methods vs big.Rat oracle, dense and boundary-biased) is the "
        "only tie for those operations",
        "Fix64/UFix64 + - * / % negate and saturating variants are transcribed from interpreter/value_fix64.go, values/value_ufix64.go (hand-written model, tied by "
        "correspondence); math/big Mul/Quo/Cmp/IsUint64/Int64/Uint64 and Go int64/uint64 arithmetic are modelled by their documented semantics",
    ]
    std_flow(ctx, "c16", coq_targets=["C15/Cases"], mismatch_key=key)
