from lib import std_flow


def run(ctx):
    ctx.assumptions += [
        "the Coq model C45/Model.v (three type-ID printers, the conversions, the type-ID encoders and DecodeTypeID) is hand-transcribed and tied by this run's correspondence",
        "primitive types are identified by their name in all three representations: the tables between sema simple types, PrimitiveStaticType and cadence.PrimitiveType are "
        "covered only by the exhaustive correspondence over all defined primitive static types",
        "environments (which composites / interfaces / entitlements exist) enter the round-trip theorem as the hypothesis env_ok",
    ]

    def key(d):
        k = d.get("kind", "")
        if k:
            return "model-mismatch:decode"
        return "model-mismatch:type-id"

    std_flow(ctx, "c45", coq_targets=["C45/Cases"], mismatch_key=key)
