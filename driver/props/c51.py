import json
import os
import re

from lib import std_flow


def locate_first_disagreement(ctx):
    """For histories on which the Coq model and the implementation disagree, ask Coq for the first
    disagreeing step and add it (with the operation) to the replay."""
    done = 0
    for f in ctx.failures:
        rep = f.get("replay")
        if not f["key"].endswith(":model-mismatch") or not isinstance(rep, dict) or "case_file" not in rep:
            continue
        if done >= 3:
            break
        done += 1
        case = rep.get("case") or {}
        st = case.get("struct")
        path = os.path.join(ctx.work, rep["case_file"][:-2])
        default = "(true, ON)" if st == "omap" else {"bimap": "BN", "pset": "SN", "itree": "IN"}.get(st, "IN")
        script = ('Load "%s".\nDefinition fb := Eval vm_compute in (first_bad_%s (nth %d cases %s)).\nPrint fb.\n'
                  % (path, st, rep["index"], default))
        rc, out = ctx.coq_script("first_bad_%d" % done, script, timeout=600)
        m = re.search(r"fb\s*=\s*\(?(-?\d+)\)?", out)
        if rc != 0 or not m:
            continue
        k = int(m.group(1))
        rep["first_disagreeing_step"] = k
        hist = case.get("history") or []
        if st == "itree":
            steps = case.get("steps") or []
            what = steps[k] if 0 <= k < len(steps) else "?"
        else:
            what = json.dumps(hist[k]) if 0 <= k < len(hist) else "?"
        rep["first_disagreeing_operation"] = what
        f["what"] = ("%s: implementation and Coq model (proved to meet the list specification) disagree at step %d: %s; "
                     "history of %s operations in the replay" % (st, k, what, case.get("n_ops")))


def run(ctx):
    ctx.assumptions += [
        "Coq models C51/{OMap,BiMap,PSet,ITree}Model.v are hand-written in the shape of the Go sources; tied to /repo by this run's correspondence",
        "math/rand's choices in IntervalST.Put are read off the real tree (depth of the new node) and replayed in the model; the theorems hold for every choice list",
        "the real IntervalST is read back through reflect (unexported fields root/left/right/interval/value/max/n, read-only)",
        "common/list is checked against a slice model in Go only (no Coq model of its own; the ordered-map model abstracts it as a key list)",
    ]
    ctx.trusted += ["Go reflect (reading unexported fields of intervalst.node)", "Go map semantics (modelled as association lists)"]
    std_flow(ctx, "c51", coq_targets=["C51/Cases"],
             mismatch_key=lambda d: "%s:model-mismatch" % d.get("struct"))
    try:
        locate_first_disagreement(ctx)
    except Exception as e:  # diagnostics only
        ctx.notes.append("first-disagreement lookup failed: %r" % (e,))
