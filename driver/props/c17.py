from lib import std_flow


def key(d):
    return "model:%s:%s" % (d.get("op"), d.get("type"))


def run(ctx):
    ctx.assumptions += [
        "Go standard library primitives called by the code (strconv.ParseInt/ParseUint base 10, big.Int.SetString/Bytes/FillBytes/Text, "
        "encoding/hex, encoding/binary) are modelled by their documented behaviour and trusted",
        "Coq model C17/Model.v is hand-written in the shape of interpreter.go StringValueParsers / NativeFromBigEndianBytesFunction, "
        "values/big.go, fixedpoint/{parse,check,convert}.go, format/{int,fix}.go, common/address.go; tied by this run's correspondence",
        "fixed-point fromString: the number of fractional digits a type accepts (its scale) is treated as part of the type's "
        "representability check, like the range",
    ]
    std_flow(ctx, "c17", coq_targets=["C17/Cases"], mismatch_key=key)
