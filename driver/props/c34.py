from lib import std_flow


def run(ctx):
    ctx.assumptions += [
        "Coq models MC/Interp.v (interpreter), MC/Compile.v (compiler), MC/VM.v (VM), MC/Peephole.v (peephole pass) are hand-written in the "
        "shape of /repo/interpreter, /repo/bbq/compiler/compiler.go, /repo/bbq/vm/vm.go, /repo/bbq/compiler/peephole_*.go and tied to /repo by "
        "this run: model outcomes vs both real engines, model-compiled code vs the real compiler's instruction listing",
        "the value library (Int8 arithmetic, Transfer = deep copy, BoxOptional, container get/set) is modelled once (MC/Prim.v) and shared by both "
        "engine models, as interpreter.Value is shared by both real engines",
        "the runtime does not expose the compiler's PeepholeOptimizationsEnabled switch: peephole on/off is compared on a directly "
        "constructed compiler+VM for scripts of the fragment; transactions/storage are compared interpreter vs VM (peephole off) only",
    ]
    ctx.trusted += ["Go program generators (fragment generator with Cadence + Coq printers, template generator for programs beyond the fragment), "
                    "listing converter real instructions -> model instructions (harness/c52/listing.go)"]
    std_flow(ctx, "c52", coq_targets=["MC/CasesVM"], mismatch_key=lambda d: d.get("key", "model-mismatch"), coq_timeout=2400)
