import json
import os

import lib
from lib import std_flow

COQ_TARGETS = ["C05/Cases"]


def retry_stale_libraries(ctx, coq_targets, mismatch_key):
    """Case files are evaluated without holding the Coq build lock.  If another check recompiled a
    shared library meanwhile, coqc reports 'inconsistent assumptions' for our .vo files: rebuild
    our targets and evaluate the affected case files once more (a genuine failure stays)."""
    stale = [f for f in ctx.failures
             if f["key"] == "model-eval" and "inconsistent assumptions" in f["what"]]
    if not stale:
        return
    files = [f["replay"]["broken"].split()[-1] for f in stale]
    with lib.Lock("coq"):
        lib.sh(["make", "-j4"] + ["theories/" + t + ".vo" for t in coq_targets]
               + ["theories/Properties/%s.vo" % ctx.pid], cwd=lib.COQ, timeout=3000)
    res, errs = ctx.coq_cases(files)
    ctx.failures = [f for f in ctx.failures if f not in stale]
    for path, log in errs.items():
        ctx.failure("model-eval", "Coq evaluation of %s failed: %s" % (os.path.basename(path), log[-800:]),
                    {"broken": "correspondence evaluation " + path, "log": log[-2000:]}, no_input=True)
    for path, idxs in res.items():
        if not idxs:
            continue
        descs = [json.loads(l) for l in open(path[:-2] + ".jsonl")]
        for i in idxs:
            d = descs[i] if i < len(descs) else {"index": i}
            ctx.failure(mismatch_key(d), "implementation and Coq model disagree on %s" % json.dumps(d)[:500],
                        {"case": d, "case_file": os.path.basename(path), "index": i,
                         "note": "observed = implementation; the Coq model (proved to meet the property) computes a different result"})
    ctx.notes.append("re-evaluated %d case file(s) after a concurrent rebuild of shared Coq libraries" % len(files))


def _key(d):
    return "model-mismatch"


def run(ctx):
    ctx.assumptions += [
        "containers are modelled as tree nodes carrying an identity; a mutation acts on every occurrence of the identity in the store "
        "(so aliasing is expressible) and every transfer relabels (C05/Model.v copy); tied to /repo by this run's correspondence",
        "atree, slab inlining and the storage encoding are outside the model; they are exercised by the correspondence run "
        "(arrays of 40-200 elements, nested containers, save/load/copy across transactions)",
    ]
    std_flow(ctx, "c05", coq_targets=COQ_TARGETS, mismatch_key=_key, run_timeout=3000, coq_timeout=2400)
    retry_stale_libraries(ctx, COQ_TARGETS, _key)
