import os

from lib import VERIF, std_flow


def run(ctx):
    ctx.assumptions += [
        "the Coq model C02/Model.v (reference table, invalidation on every transfer/destroy, storage references resolved at use) "
        "is hand-written in the shape of InvalidateReferencedResources / EphemeralReferenceValue / StorageReferenceValue and the "
        "VM's reference tracking; it is tied to /repo by this run's correspondence in both engines",
        "references taken from variables are passed through an identity function of the test contract so that the checker's static "
        "(variable-rooted) invalidation analysis does not reject the programs before the run-time check is reached",
    ]
    ctx.trusted += ["program generator emitting Cadence source and model commands side by side (harness/c02gen/gen.go)"]
    std_flow(ctx, "c04", args=["-corpus", os.path.join(VERIF, "corpus", "C04")],
             coq_targets=["C02/Cases"], mismatch_key=lambda d: d.get("key", "model-mismatch"))
