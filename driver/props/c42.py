from lib import std_flow


def run(ctx):
    ctx.assumptions += [
        "fxamacker/cbor (CBOR bytes <-> items) is outside the model; the harness checks with an independent parser that encoder output is canonical CBOR and the Coq model serialises items itself (byte-exact comparison with the real encoder)",
        "only the value part of the CCF decoder is modelled in Coq (concretely typed fragment); whole-message decoding, strict/lenient acceptance and freedom from panics are checked on the real decoder by the Go oracle of this run",
        "the set of types that get a type definition (traverse_value.go) is read from the real output and given to the model in scrambled order; the simple type id table is a constant compared with the real one on every run",
    ]
    std_flow(ctx, "c41", coq_targets=["C42/Cases"],
             mismatch_key=lambda d: d.get("key", "ccf-model-mismatch"))
