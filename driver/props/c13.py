import json
import os

from lib import std_flow


def run(ctx):
    ctx.assumptions += [
        "math/big and the Go compiler's sized integer arithmetic are trusted (the Go-side oracle uses math/big)",
        "Coq model Num/IntModel.v is hand-written in the shape of interpreter/value_{int,uint}*.go and values/value_int.go; tied by this run's correspondence",
        "fixed-point kinds: model and proofs are shared with C15 (coq/theories/C15); github.com/onflow/fixed-point v0.1.1 (outside /repo, used by the "
        "Fix128/UFix128 saturating functions) is NOT verified - it enters C13_fixed_saturating_clamps_partial as the hypothesis lib_as_assumed and is tied "
        "only by this run's correspondence; Fix64/UFix64 saturating functions are transcribed and proved without assumption",
    ]
    # phase 1: integer kinds (harness/num)
    s1 = std_flow(ctx, "num", coq_targets=["Num/NumCases", "C15/Cases"],
                  mismatch_key=lambda d: "%s:%s:%s" % ({"C11": "checked-arith", "C13": "sat-arith"}[ctx.pid], d.get("type"), d.get("op")))
    if s1 is None:
        return
    cov1 = dict(ctx.cov)
    # phase 2: fixed-point kinds - the C15 harness restricted to the saturating functions
    binpath, out = ctx.go_build("c16")
    if binpath is None:
        ctx.failure("harness-build", "harness c16 no longer builds against /repo: " + out[-1500:],
                    {"broken": "go build ./c16", "log": out[-3000:]}, no_input=True)
        return
    work2 = os.path.join(ctx.work, "fixed")
    os.makedirs(work2, exist_ok=True)
    for f in os.listdir(work2):
        os.remove(os.path.join(work2, f))
    rc, out = ctx.go_run(binpath, ["-prop", "C15", "-only", "sat", "-seed", ctx.seed, "-tier", ctx.tier, "-dir", work2], timeout=1500)
    spath = os.path.join(work2, "summary.json")
    if rc != 0 or not os.path.exists(spath):
        ctx.failure("harness-run", "fixed-point harness run failed (rc=%s): %s" % (rc, out[-1500:]),
                    {"broken": "harness run c16 -only sat", "log": out[-3000:]}, no_input=True)
        return
    s2 = json.load(open(spath))
    for f in s2.get("failures") or []:
        ctx.failure(f["key"], f["what"], f["replay"])
    files = s2.get("case_files") or []
    nm = 0
    if files:
        res, errs = ctx.coq_cases(files, timeout=1500)
        for path, log in errs.items():
            ctx.failure("model-eval", "Coq evaluation of %s failed: %s" % (os.path.basename(path), log[-800:]),
                        {"broken": "correspondence evaluation " + path, "log": log[-2000:]}, no_input=True)
        for path, idxs in res.items():
            if not idxs:
                continue
            descs = [json.loads(l) for l in open(path[:-2] + ".jsonl")]
            for i in idxs:
                nm += 1
                d = descs[i] if i < len(descs) else {"index": i}
                ctx.failure("fix-model:%s:%s" % (d.get("type"), d.get("op")),
                            "implementation and Coq model disagree on %s" % json.dumps(d)[:500],
                            {"case": d, "case_file": os.path.basename(path), "index": i})
    ctx.cov.update(cov1)
    ctx.cov["evaluations"] = cov1.get("evaluations", 0) + s2.get("evaluations", 0)
    ctx.cov["distinct_nontrivial"] = cov1.get("distinct_nontrivial", 0) + s2.get("distinct_nontrivial", 0)
    ctx.cov["rule"] = "INTEGER KINDS: " + cov1.get("rule", "") + " || FIXED-POINT KINDS (saturating functions only): " + s2.get("rule", "")
    ctx.cov["samples"] = (cov1.get("samples") or [])[:6] + (s2.get("samples") or [])[:6]
    ctx.cov["fixed_point"] = {"evaluations": s2.get("evaluations", 0), "distinct_nontrivial": s2.get("distinct_nontrivial", 0),
                              "distribution": s2.get("distribution") or {}, "coq_case_files": len(files), "model_mismatches": nm,
                              "direct_failures": len(s2.get("failures") or [])}
    ctx.settle_l1()
