"""C30  Every execution is bounded by the metering and depth limits."""
from lib import std_flow


def run(ctx):
    ctx.assumptions += [
        "the real costs of Statement / Loop / FunctionInvocation are 1 (common/metering.go constants); the model is compared on exactly these three kinds",
        "wall-clock cap per real run (30 s, child process) is the observable for 'terminates'",
        "the VM's effective call-depth limit is the constant 2000 of runtime/vm_environment.go (see known finding)",
    ]
    std_flow(ctx, "c30", coq_targets=["C30/Cases"],
             mismatch_key=lambda d: "model-mismatch:%s:%s" % (d.get("category"), d.get("engine")),
             run_timeout=3000)
