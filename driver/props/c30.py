"""C30  Every execution is bounded by the metering and depth limits."""
from lib import std_flow


def run(ctx):
    ctx.assumptions += [
        "the real costs of Statement / Loop / FunctionInvocation are 1 (common/metering.go constants); the model is compared on exactly these three kinds",
        "cap per real run (120 s CPU time of the child process, 1200 s wall clock) is the observable for 'terminates'",
        "both engines use the configured call-depth limit (default 2000); boundary per engine profile",
    ]
    std_flow(ctx, "c30", coq_targets=["C30/Cases"],
             mismatch_key=lambda d: "model-mismatch:%s:%s" % (d.get("category"), d.get("engine")),
             run_timeout=3000)
