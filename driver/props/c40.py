from lib import std_flow


def key(d):
    return "model:%s:%s" % (d.get("op"), d.get("type"))


def run(ctx):
    ctx.assumptions += [
        "Go standard library primitives called by the code (big.Int.SetString, strings.Builder.WriteRune, utf8.DecodeRune, "
        "strconv.FormatInt) are modelled by their documented behaviour and trusted",
        "Coq model C40/Model.v is hand-written in the shape of parser/expression.go (parseIntegerLiteral, parseFixedPointPart, "
        "prefix-minus folding, parseStringLiteralContent), sema CheckIntegerLiteral/CheckFixedPointLiteral, fixedpoint.CheckRange/"
        "ConvertToFixedPointBigInt and ast.QuoteString; tied by this run's correspondence",
        "a literal is the token the lexer produces, optionally preceded by one minus sign; the run-time String value is the NFC "
        "normalisation of the decoded literal (compared modulo NFC end to end, exactly at the parser)",
    ]
    std_flow(ctx, "c40", coq_targets=["C40/Cases"], mismatch_key=key)
