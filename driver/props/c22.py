import os

from lib import std_flow, VERIF


def run(ctx):
    ctx.assumptions += [
        "atree (slab storage, ordered maps) is outside /repo: its map semantics enter the model as the association-list operations; tied by the correspondence run",
        "Coq model C22/Model.v is hand-written in the shape of interpreter.go AccountStorage*/runtime/storage.go/account_storage.go; tied to /repo by this run's histories in both engines",
        "iteration order of storagePaths/forEachStored is not modelled: enumerations are compared as sets (and early exit by count/distinctness/membership)",
    ]
    std_flow(ctx, "c22", args=["-corpus", os.path.join(VERIF, "corpus", "C22")], coq_targets=["C22/Cases"],
             mismatch_key=lambda d: "history-mismatch:%s" % d.get("mode", "?"))
