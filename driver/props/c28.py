"""C28  Host failures are never swallowed.

1. translator leg: harness/c28 -mode table reads <repo>/runtime/interface.go + external.go (go/ast) and writes the
   wrapper table coq/theories/Gen/GenC28Table.v, plus the list of recover() sites of the non-test code, which is
   diffed against corpus/C28/expected_sites.json;
2. proof leg: Properties/C28.v (incl. `forallb wrapped Interface_methods = true` on the regenerated table);
3. correspondence: fault injection on the real runtime (every (callback, call index) x error/panic variants, pairs,
   host-down runs, both engines) judged directly, and compared with the Coq model run (vm_compute).
"""
import json
import os

import lib
from lib import std_flow


def _write_if_changed(path, text):
    old = open(path).read() if os.path.exists(path) else None
    if old != text:
        os.makedirs(os.path.dirname(path), exist_ok=True)
        tmp = path + ".tmp%d" % os.getpid()
        with open(tmp, "w") as f:
            f.write(text)
        os.replace(tmp, path)
        return True
    return False


def run(ctx):
    ctx.assumptions += [
        "the Go call stack of a host call identifies the handlers it runs under (site list in harness/c28/sites.go)",
        "the host obeys the GetOrLoadProgram contract of runtime/interface.go (returns the same program AND error again)",
        "atree (dependency) is out of scope: AtreeValidationEnabled=false (atree.CheckStorageHealth drops a ledger error)",
    ]
    binpath, out = ctx.go_build("c28")
    if binpath is None:
        ctx.log("harness build failed:\n" + out[-3000:])
        ctx.failure("harness-build", "harness no longer builds against /repo: " + out[-1500:],
                    {"broken": "go build ./c28", "log": out[-3000:]}, no_input=True)
        ctx.require_proofs(extra_targets=["theories/C28/Cases.vo"])
        ctx.settle_l1()
        return
    # ---- translator leg -------------------------------------------------------------------
    tdir = os.path.join(ctx.work, "table")
    os.makedirs(tdir, exist_ok=True)
    rc, out = ctx.go_run(binpath, ["-mode", "table", "-repo", lib.REPO, "-dir", tdir], timeout=300)
    tjson = os.path.join(tdir, "c28_table.json")
    if rc != 0 or not os.path.exists(tjson):
        ctx.failure("table-extraction", "cannot extract the ExternalInterface wrapper table from runtime/external.go: " + out[-1500:],
                    {"broken": "harness/c28 -mode table", "log": out[-3000:]}, no_input=True)
    else:
        table = json.load(open(tjson))
        gen = open(os.path.join(tdir, "GenC28Table.v")).read()
        for m in table["methods"]:
            ok = m["defined"] and m["in_wrappanic"] and not m["calls_outside"] and (not m["has_err"] or m["err_wrapped"])
            if not ok:
                ctx.failure("unwrapped-callback:" + m["name"],
                            "runtime/external.go: ExternalInterface.%s does not forward the call inside errors.WrapPanic "
                            "and/or does not pass a non-nil err through interpreter.WrappedExternalError: %s" % (m["name"], json.dumps(m)),
                            {"method": m, "failing_input": "any run in which the host callback %s returns an error or panics" % m["name"],
                             "theorem": "C28_all_wrapped / C28_table_ok no longer hold for the regenerated table"})
        if not lib.ALT:
            if _write_if_changed(os.path.join(lib.COQ, "theories", "Gen", "GenC28Table.v"), gen):
                ctx.log("regenerated Gen/GenC28Table.v (content changed)")
        else:
            gpath = os.path.join(lib.COQ, "theories", "Gen", "GenC28Table.v")
            if not os.path.exists(gpath):
                # never generated in this checkout: the shared development needs the table of the real tree
                t2 = os.path.join(ctx.work, "table_main")
                os.makedirs(t2, exist_ok=True)
                ctx.go_run(binpath, ["-mode", "table", "-repo", "/repo", "-dir", t2], timeout=300)
                _write_if_changed(gpath, open(os.path.join(t2, "GenC28Table.v")).read())
            script = gen.replace("From CV Require Import C28.Model.", "From CV Require Import C28.Model.\nOpen Scope Z_scope.") + \
                "\nGoal forallb wrapped Interface_methods = true /\\ table_ok Interface_methods = true.\n" \
                "Proof. vm_compute. split; reflexivity. Qed.\n"
            rc2, out2 = ctx.coq_script("alt_table", script)
            if rc2 != 0:
                ctx.notes.append("alt tree: forallb wrapped Interface_methods = true no longer provable: " + out2[-400:])
        # recover() sites against the committed expectation
        exp = json.load(open(os.path.join(lib.VERIF, "corpus", "C28", "expected_sites.json")))

        def ident(s):
            return "%s:%s#%d" % (s["file"], s["func"], s.get("ordinal", 0))
        want = {ident(s): s for s in exp["recover_sites"]}
        have = {ident(s): s for s in table["recover_sites"]}
        ctx.cov["recover_sites"] = len(have)
        for k in sorted(set(have) - set(want)):
            ctx.failure("recover-site-new:" + k,
                        "new recover() site %s (re-panics: %s) is not in corpus/C28/expected_sites.json: a recover that does not "
                        "re-panic unknown values can swallow a host failure" % (k, have[k]["repanics"]),
                        {"site": have[k], "broken": "recover-site list"}, no_input=True)
        for k in sorted(set(want) & set(have)):
            if want[k]["hash"] != have[k]["hash"]:
                ctx.failure("recover-site-changed:" + k,
                            "the function containing recover() at %s was edited (hash %s, expected %s): review what it swallows"
                            % (k, have[k]["hash"], want[k]["hash"]),
                            {"site": have[k], "expected": want[k], "broken": "recover-site list"}, no_input=True)
        for k in sorted(set(want) - set(have)):
            ctx.notes.append("recover() site no longer present: " + k)
        wt = {ident(s): s["hash"] for s in exp.get("tracked_functions", [])}
        for s in table.get("tracked_functions", []):
            if wt.get(ident(s)) != s["hash"]:
                ctx.notes.append("function on the failure path edited since the expectation was recorded: %s (%s)" % (ident(s), s["hash"]))
    # ---- proof leg + fault injection + model comparison -------------------------------------
    ctx.require_proofs(extra_targets=["theories/C28/Cases.vo"])
    std_flow(ctx, "c28", proof=False,
                 mismatch_key=lambda d: "model-mismatch:%s:%s" % (d.get("scenario"), d.get("engine")))
