from props.c07 import robust_flow


def run(ctx):
    ctx.assumptions += [
        "Coq model C49/Model.v is hand-written in the shape of VisitAttachExpression / VisitRemoveStatement / "
        "CompositeValue.{getTypeKey,SetTypeKey,RemoveTypeKey,forEachAttachment,Destroy,Transfer}; it is tied to /repo by this "
        "run's correspondence (observations, error classes and destroy events of every operation of every history, both engines)",
        "the order in which a composite's hidden attachment fields are iterated (atree map order of this world's four type ids) is "
        "taken from the implementation; the theorems only use that it is a permutation",
        "uuids consumed by reverted transactions are handed out again (the harness resets its host's counter), as on a chain",
    ]
    robust_flow(ctx, "c49", lambda d: "model-mismatch:history", coq_targets=["C49/Cases"])
