from lib import std_flow


def run(ctx):
    ctx.assumptions += [
        "math/big (And/Or/Xor/Lsh/Rsh two's-complement semantics) and Go's sized shifts are trusted; the Go-side oracle uses math/big",
        "Coq model Num/BitsModel.v is hand-written in the shape of the Bitwise* methods; byte-level helpers (toTwosComplement, fromTwosComplement, truncate) are modelled arithmetically (mod 2^n, sign reinterpretation)",
    ]
    std_flow(ctx, "num", coq_targets=["Num/NumCases"],
             mismatch_key=lambda d: "bits:%s:%s" % (d.get("type"), {"|": "BOr", "^": "BXor", "&": "BAnd", "<<": "BShl", ">>": "BShr"}.get(d.get("op"), d.get("op"))))
