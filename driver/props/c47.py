from lib import std_flow


def run(ctx):
    ctx.assumptions += [
        "Coq model C47/Model.v is a hand transcription of stdlib/random.go (mask/bitSize/byteSize loop, rejection loop, big path); tied to /repo by this run's correspondence",
        "the random generator is modelled as a list of byte blocks, one per ReadRandom call; uniformity is a counting statement over all blocks of byteSize bytes (uniformly random source bytes assumed)",
        "math/big, encoding/binary and the Go compiler's uint64 arithmetic are trusted (oracle uses math/big)",
    ]
    std_flow(ctx, "c47", coq_targets=["C47/Cases"],
             mismatch_key=lambda d: "random:model-mismatch:%s" % d.get("type"))
