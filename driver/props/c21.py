from lib import std_flow


def run(ctx):
    ctx.assumptions += [
        "the element type's own arithmetic is the checked/wrapping model of Num/IntModel.v (proved against the spec in C11/C12 and tied there)",
        "sequences longer than 300 elements are not iterated (contains is still exercised)",
    ]
    std_flow(ctx, "num", coq_targets=["Num/RangeCases"],
             mismatch_key=lambda d: "range-model-mismatch:%s:%s" % (d.get("what"), d.get("type")))
