from lib import std_flow


def run(ctx):
    ctx.assumptions += [
        "math/big and the Go compiler's uintN arithmetic are trusted (oracle uses math/big)",
        "Coq model Num/WordModel.v is hand-written in the shape of value_word*.go; tied by this run's correspondence",
    ]
    std_flow(ctx, "num", coq_targets=["Num/NumCases"], mismatch_key=lambda d: "word-arith:%s:%s" % (d.get("type"), d.get("op")))
