import os

from lib import std_flow, VERIF


def key(d):
    if d.get("rounding"):
        return "conv-model-round:%s->%s:%s" % (d.get("source"), d.get("target"), d.get("rounding"))
    return "conv-model:%s->%s" % (d.get("source"), d.get("target"))


def run(ctx):
    ctx.assumptions += [
        "math/big (Cmp, Sign, IsInt64, IsUint64, Int64, Uint64, Div = Euclidean, Mul, Mod) and Go's sized integer conversions are modelled by their "
        "documented semantics and trusted; the Go-side oracle uses big.Rat",
        "Coq model C16/Model.v is hand-written in the shape of the Convert* functions, ToInt/ToBigInt and the BigNumberValue method-set classification "
        "(confirmed on every run by a Go type assertion per kind); tied by this run's correspondence",
        "github.com/onflow/fixed-point v0.1.1 (outside /repo): UFix128.ToUFix64, Fix128.ToFix64, Abs, ApplySign, ushouldRound64 are transcribed into the "
        "model (not assumed) and exercised through ConvertFix64WithRounding / ConvertUFix64WithRounding; two's-complement negation of the raw 128-bit "
        "value is modelled arithmetically",
    ]
    std_flow(ctx, "c16", args=["-corpus", os.path.join(VERIF, "corpus", "C16")],
             coq_targets=["C16/Cases"], mismatch_key=key)
