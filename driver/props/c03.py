import os

from lib import std_flow, VERIF


def key_of(d):
    return "model-mismatch:" + d.get("origin", "?").split(":")[0]


def run(ctx):
    ctx.assumptions += [
        "Coq model C03/Model.v is a hand-written, code-shaped rendering of sema's resource analysis; it is tied to /repo by this "
        "run's correspondence (exact projected error sets on generated programs)",
        "paths/linear_trace (C03/Paths.v) is the independent specification; the Go path oracle re-implements it for the direct check",
        "parser and rendering of the fragment programs are trusted (positions are byte offsets of the rendered source)",
    ]
    std_flow(ctx, "c03", args=["-corpus", os.path.join(VERIF, "corpus", "C03")],
             coq_targets=["C03/Cases"], mismatch_key=key_of)
