from lib import std_flow


def key(d):
    if d.get("table") == "compat":
        return "compat-table"
    if d.get("table") == "remove":
        return "remove-verdict"
    return "history-mismatch"


def run(ctx):
    ctx.assumptions += [
        "the host discards code updates and ledger writes of a failed transaction and keeps no checked programs across executions "
        "(the harness snapshots/restores lib.Host.Codes and the ledger, resets Iface.Programs)",
        "update compatibility and removability are functions of the source's field variant and nested declaration list, compared with the real validator / removeContract on a pool of sources on every run",
        "Coq model C26/Model.v is hand-written in the shape of stdlib/account.go + runtime/storage.go; tied by this run's correspondence",
    ]
    std_flow(ctx, "c26", coq_targets=["C26/Cases"], mismatch_key=key)
