from lib import std_flow


def run(ctx):
    ctx.assumptions += [
        "math/big and the Go compiler's sized integer arithmetic are trusted (the Go-side oracle uses math/big)",
        "Coq model Num/IntModel.v is hand-written in the shape of interpreter/value_{int,uint}*.go and values/value_int.go; tied by this run's correspondence",
    ]
    std_flow(ctx, "num", coq_targets=["Num/NumCases"],
             mismatch_key=lambda d: "%s:%s:%s" % ({"C11": "checked-arith", "C13": "sat-arith"}[ctx.pid], d.get("type"), d.get("op")))
