"""instr2coq: regenerate coq/theories/Gen/GenC35Opcodes.v from the current source of bbq/opcode.

Inputs (all under <repo>/bbq/opcode):
  instructions.yml  - instruction names and operand types (the source the Go code is generated from)
  opcode.go         - the Opcode constants (numbers = positions in the const block, `_` placeholders count)
  instructions.go   - the code that actually runs: struct types, Opcode(), Encode, Decode<Name>, DecodeInstruction

Anything outside the supported shapes is a hard error (TranslateError): the tie to the source must never be
silently partial.
"""
import os
import re

YAML_TYPE_TO_CODEC = {
    "bool": "CBool",
    "localIndex": "CUint16", "globalIndex": "CUint16", "typeIndex": "CUint16", "constantIndex": "CUint16",
    "functionIndex": "CUint16", "upvalueIndex": "CUint16", "offset": "CUint16", "size": "CUint16",
    "typeIndices": "CUint16Array",
    "pathDomain": "CPathDomain",
    "compositeKind": "CCompositeKind",
    "upvalues": "CUpvalueArray",
}
GO_TYPE_TO_FTYPE = {
    "bool": "FBool", "uint16": "FUint16", "[]uint16": "FUint16Array", "[]Upvalue": "FUpvalues",
    "common.CompositeKind": "FCompositeKind", "common.PathDomain": "FPathDomain",
}
HELPER_TO_CODEC = {
    "Bool": "CBool", "Uint16": "CUint16", "Uint16Array": "CUint16Array", "UpvalueArray": "CUpvalueArray",
    "CompositeKind": "CCompositeKind", "PathDomain": "CPathDomain",
}


class TranslateError(Exception):
    pass


def strip_comments(src):
    src = re.sub(r"/\*.*?\*/", "", src, flags=re.S)
    return re.sub(r"//[^\n]*", "", src)


def parse_opcode_go(path):
    src = strip_comments(open(path).read())
    m = re.search(r"type\s+Opcode\s+byte\s*const\s*\((.*?)\n\)", src, re.S)
    if not m:
        raise TranslateError("opcode.go: cannot find `type Opcode byte` followed by a const block")
    nums = {}
    n = 0
    first = True
    for line in m.group(1).split("\n"):
        line = line.strip()
        if not line:
            continue
        if first:
            mm = re.fullmatch(r"(\w+)\s+Opcode\s*=\s*iota", line)
            if not mm:
                raise TranslateError("opcode.go: first constant is not `<Name> Opcode = iota`: %r" % line)
            name = mm.group(1)
            first = False
        else:
            if not re.fullmatch(r"\w+", line):
                raise TranslateError("opcode.go: unsupported line in Opcode const block: %r" % line)
            name = line
        if name != "_":
            if name in nums:
                raise TranslateError("opcode.go: duplicate constant %s" % name)
            nums[name] = n
        n += 1
    if n > 256:
        raise TranslateError("opcode.go: more than 256 opcodes")
    return nums


def parse_yaml(path):
    try:
        import yaml
    except ImportError as e:  # pragma: no cover
        raise TranslateError("python yaml module missing: %s" % e)
    data = yaml.safe_load(open(path))
    if not isinstance(data, list):
        raise TranslateError("instructions.yml: top level is not a list")
    out = []
    for ins in data:
        if not isinstance(ins, dict) or "name" not in ins:
            raise TranslateError("instructions.yml: entry without name: %r" % (ins,))
        unknown = set(ins) - {"name", "description", "operands", "valueEffects", "controlEffects"}
        if unknown:
            raise TranslateError("instructions.yml: %s: unsupported keys %s" % (ins["name"], sorted(unknown)))
        ops = []
        for o in ins.get("operands") or []:
            if set(o) - {"name", "type", "description"} or "name" not in o or "type" not in o:
                raise TranslateError("instructions.yml: %s: unsupported operand %r" % (ins["name"], o))
            if o["type"] not in YAML_TYPE_TO_CODEC:
                raise TranslateError("instructions.yml: %s: unsupported operand type %r" % (ins["name"], o["type"]))
            ops.append((o["name"], o["type"]))
        name = ins["name"]
        out.append((name[0].upper() + name[1:], ops))
    return out


def parse_instructions_go(path):
    src = strip_comments(open(path).read())
    structs, opcodes, encs, decs = {}, {}, {}, {}
    for m in re.finditer(r"^type Instruction(\w+) struct \{(.*?)^\}", src, re.S | re.M):
        fields = []
        for line in m.group(2).split("\n"):
            line = line.strip()
            if not line:
                continue
            mm = re.fullmatch(r"(\w+)\s+(\S+)", line)
            if not mm or mm.group(2) not in GO_TYPE_TO_FTYPE:
                raise TranslateError("instructions.go: Instruction%s: unsupported field %r" % (m.group(1), line))
            fields.append((mm.group(1), GO_TYPE_TO_FTYPE[mm.group(2)]))
        structs[m.group(1)] = fields
    for m in re.finditer(r"^func \(Instruction(\w+)\) Opcode\(\) Opcode \{\s*return (\w+)\s*\}", src, re.M):
        opcodes[m.group(1)] = m.group(2)
    for m in re.finditer(r"^func \(i Instruction(\w+)\) Encode\(code \*\[\]byte\) \{(.*?)^\}", src, re.S | re.M):
        lines = [l.strip() for l in m.group(2).split("\n") if l.strip()]
        if not lines or lines[0] != "emitOpcode(code, i.Opcode())":
            raise TranslateError("instructions.go: Instruction%s.Encode does not start with emitOpcode(code, i.Opcode())" % m.group(1))
        plan = []
        for l in lines[1:]:
            mm = re.fullmatch(r"emit(\w+)\(code, i\.(\w+)\)", l)
            if not mm or mm.group(1) not in HELPER_TO_CODEC:
                raise TranslateError("instructions.go: Instruction%s.Encode: unsupported statement %r" % (m.group(1), l))
            plan.append((mm.group(2), HELPER_TO_CODEC[mm.group(1)]))
        encs[m.group(1)] = plan
    for m in re.finditer(r"^func Decode(\w+)\(ip \*uint16, code \[\]byte\) \(i Instruction(\w+)\) \{(.*?)^\}", src, re.S | re.M):
        if m.group(1) in ("Instruction", "Instructions"):
            continue
        if m.group(1) != m.group(2):
            raise TranslateError("instructions.go: Decode%s returns Instruction%s" % (m.group(1), m.group(2)))
        lines = [l.strip() for l in m.group(3).split("\n") if l.strip()]
        if not lines or lines[-1] != "return i":
            raise TranslateError("instructions.go: Decode%s does not end with `return i`" % m.group(1))
        plan = []
        for l in lines[:-1]:
            mm = re.fullmatch(r"i\.(\w+) = decode(\w+)\(ip, code\)", l)
            if not mm or mm.group(2) not in HELPER_TO_CODEC:
                raise TranslateError("instructions.go: Decode%s: unsupported statement %r" % (m.group(1), l))
            plan.append((mm.group(1), HELPER_TO_CODEC[mm.group(2)]))
        decs[m.group(1)] = plan
    m = re.search(r"^func DecodeInstruction\(ip \*uint16, code \[\]byte\) Instruction \{\s*switch Opcode\(decodeByte\(ip, code\)\) \{(.*?)^\t\}\s*panic\(errors\.NewUnreachableError\(\)\)\s*\}", src, re.S | re.M)
    if not m:
        raise TranslateError("instructions.go: DecodeInstruction does not have the expected shape "
                             "(switch Opcode(decodeByte(ip, code)) {...} panic(errors.NewUnreachableError()))")
    cases = []  # (constant, instruction name)
    body = [l.strip() for l in m.group(1).split("\n") if l.strip()]
    i = 0
    while i < len(body):
        mc = re.fullmatch(r"case ([\w, ]+):", body[i])
        if not mc or i + 1 >= len(body):
            raise TranslateError("instructions.go: DecodeInstruction: unsupported line %r" % body[i])
        mr = re.fullmatch(r"return Decode(\w+)\(ip, code\)", body[i + 1]) or re.fullmatch(r"return Instruction(\w+)\{\}", body[i + 1])
        if not mr:
            raise TranslateError("instructions.go: DecodeInstruction: unsupported case body %r" % body[i + 1])
        is_decode = body[i + 1].startswith("return Decode")
        for const in [c.strip() for c in mc.group(1).split(",")]:
            cases.append((const, mr.group(1), is_decode))
        i += 2
    return structs, opcodes, encs, decs, cases


def generate(repo):
    d = os.path.join(repo, "bbq", "opcode")
    nums = parse_opcode_go(os.path.join(d, "opcode.go"))
    yml = parse_yaml(os.path.join(d, "instructions.yml"))
    structs, opcodes, encs, decs, cases = parse_instructions_go(os.path.join(d, "instructions.go"))
    ynames = [n for n, _ in yml]
    if len(set(ynames)) != len(ynames):
        raise TranslateError("instructions.yml: duplicate instruction names")
    for n in ynames:
        for what, table in (("struct type", structs), ("Opcode method", opcodes), ("Encode method", encs)):
            if n not in table:
                raise TranslateError("instructions.go: no %s for instruction %s of instructions.yml" % (what, n))
    for n in structs:
        if n not in ynames:
            raise TranslateError("instructions.go: Instruction%s is not in instructions.yml" % n)
    for n in decs:
        if n not in ynames:
            raise TranslateError("instructions.go: Decode%s has no instruction in instructions.yml" % n)
    lines = []
    for name, yops in yml:
        const = opcodes[name]
        if const not in nums:
            raise TranslateError("Instruction%s.Opcode() returns %s which is not an Opcode constant" % (name, const))
        fields = structs[name]
        fidx = {f: i for i, (f, _) in enumerate(fields)}

        def plan(p, where):
            out = []
            for f, c in p:
                if f not in fidx:
                    raise TranslateError("%s of %s uses unknown field %s" % (where, name, f))
                out.append("(%d%%nat, %s)" % (fidx[f], c))
            return "[" + "; ".join(out) + "]"
        mycases = []
        for const_c, target, is_decode in cases:
            if target != name:
                continue
            if const_c not in nums:
                raise TranslateError("DecodeInstruction: case %s is not an Opcode constant" % const_c)
            # `return InstructionX{}` assigns no field: equivalent to an empty decode plan; if the instruction has a
            # Decode function that is not called, the dispatch is wrong for the purposes of the table
            if not is_decode and name in decs:
                raise TranslateError("DecodeInstruction: case %s returns Instruction%s{} although Decode%s exists" % (const_c, name, name))
            if is_decode and name not in decs:
                raise TranslateError("DecodeInstruction: case %s calls Decode%s which does not exist" % (const_c, name))
            mycases.append(nums[const_c])
        lines.append('  mk_entry %d "%s" [%s] %s %s [%s] [%s]' % (
            nums[const], name, "; ".join(t for _, t in fields), plan(encs[name], "Encode"),
            plan(decs.get(name, []), "Decode"), "; ".join(str(c) for c in mycases),
            "; ".join(YAML_TYPE_TO_CODEC[t] for _, t in yops)))
    # every Opcode constant must be the opcode of an instruction, except the documented end marker OpcodeMax,
    # which must be the last constant
    used_consts = {opcodes[n] for n, _ in yml}
    for cname, cnum in nums.items():
        if cname in used_consts:
            continue
        if cname == "OpcodeMax" and cnum == max(nums.values()):
            continue
        raise TranslateError("opcode.go: constant %s (= %d) is not the opcode of any instruction" % (cname, cnum))
    nums_real = {k: v for k, v in nums.items() if k in used_consts}
    for const_c, target, _ in cases:
        if target not in ynames:
            raise TranslateError("DecodeInstruction: case %s dispatches to unknown instruction %s" % (const_c, target))
    text = ("(* GENERATED by driver/props/c35_instr2coq.py from bbq/opcode/{instructions.yml,opcode.go,instructions.go}.\n"
            "   Regenerated on every run of ./check C35; do not edit. *)\n"
            "From CV Require Import C35.InstrModel.\nOpen Scope string_scope.\nOpen Scope Z_scope.\n\n"
            "Definition gen_opcodes : list entry := [\n" + ";\n".join(lines) + "\n].\n\n"
            "Definition gen_opcode_constants : list (string * Z) := [\n" +
            ";\n".join('  ("%s", %d)' % (k, v) for k, v in sorted(nums_real.items(), key=lambda kv: kv[1])) + "\n].\n")
    return text, {"instructions": len(yml), "with_operands": sum(1 for _, o in yml if o), "opcode_constants": len(nums),
                  "switch_cases": len(cases)}


def write(repo, coq_dir):
    text, stats = generate(repo)
    path = os.path.join(coq_dir, "theories", "Gen", "GenC35Opcodes.v")
    os.makedirs(os.path.dirname(path), exist_ok=True)
    cur = open(path).read() if os.path.exists(path) else None
    if cur != text:
        with open(path, "w") as f:
            f.write(text)
    return path, stats


if __name__ == "__main__":
    import sys
    p, s = write(sys.argv[1] if len(sys.argv) > 1 else "/repo", os.path.join(os.path.dirname(os.path.dirname(os.path.dirname(os.path.abspath(__file__)))), "coq"))
    print(p, s)
