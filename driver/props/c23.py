import os

from lib import std_flow, VERIF


def run(ctx):
    ctx.assumptions += [
        "atree's own slab bookkeeping (inlining, slab splitting/merging, encoding) is an oracle: the Coq model is the Cadence-level "
        "ownership forest (which value nodes are allocated, who references them, what every operation must allocate / free)",
        "the health check applied to the real ledger uses atree's decoder and atree.CheckStorageHealth / runtime Storage.CheckHealth "
        "plus an independent reference count over the decoded slab graph (harness/c23/health.go)",
        "Coq model C23/Model.v is hand-written; tied by this run's correspondence (per-transaction digest of all stored values and commit status)",
    ]
    std_flow(ctx, "c23", args=["-corpus", os.path.join(VERIF, "corpus", "C23")],
             coq_targets=["C23/Cases"],
             mismatch_key=lambda d: "model-mismatch")
