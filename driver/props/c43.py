from lib import std_flow


def run(ctx):
    ctx.assumptions += [
        "the CCF round trip is a hypothesis of the Coq corollary (the CCF decoder is not modelled, see C42); it is observed on the real decoder by this run",
        "same trusted parts as C41 and C42: Go encoding/json and fxamacker/cbor are outside the models; the harness converts pointer graphs to trees",
    ]
    std_flow(ctx, "c41", coq_targets=["C41/Cases", "C42/Cases"],
             mismatch_key=lambda d: d.get("key", "c43-model-mismatch"))
