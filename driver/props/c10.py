from lib import std_flow


def run(ctx):
    ctx.assumptions += [
        "Coq model C10/Model.v is hand-written in the shape of interpreter.go (visitFunctionBody, condition wrappers), "
        "sema (distinctConformances, before extraction) and bbq/compiler/desugar.go; tied to /repo by this run's correspondence",
        "fragment: functions (Int, Int) -> Int over Int fields of self; view conditions make before-evaluation order unobservable",
    ]
    std_flow(ctx, "c10", coq_targets=["C10/Cases"],
             mismatch_key=lambda d: "c10:model-mismatch:%s" % ("contracts" if d.get("contract") else "script"))
