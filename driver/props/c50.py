import os

from lib import std_flow, VERIF


def mismatch_key(d):
    return "model-mismatch:%s" % (d.get("fn") or "case")


def run(ctx):
    ctx.assumptions += [
        "the Coq model C50/Model.v is hand-transcribed from sema/check_member_expression.go, check_assignment.go, "
        "check_conditional.go and the containerTypes bookkeeping of the declaration visitors; model = code is established "
        "by this run's correspondence on the generated worlds and initializers",
        "AccessCheckModeStrict and no MemberAccountAccessHandler, as configured by the runtime",
    ]
    std_flow(ctx, "c50", args=["-corpus", os.path.join(VERIF, "corpus", "C50")],
             coq_targets=["C50/Cases"], mismatch_key=mismatch_key)
