import os

from lib import std_flow, VERIF, BUILD, REPO


def run(ctx):
    ctx.level = "proof"
    ctx.assumptions += [
        "PARTIAL: the theorems cover the commit logic (sort before write, apply encoded results in key order) and a small executor with an "
        "explicit nondeterminism oracle; that Go map iteration and the scheduler are the only sources of nondeterminism of the real runtime is "
        "only observed (repeated runs in this process and in fresh OS processes under GOMAXPROCS in {1,2,4,16,...} and taskset CPU sets)",
        "prefix experiment: outcome of a program on a fixed ledger in a fresh runtime/Environment vs. in Environment objects reused after varied "
        "(mostly failing-at-depth) prefixes must be identical, incl. metering; both engines, script and base environments",
        "atree FastCommit (parallel encode, apply in sorted slab-id order) and atree.EncodeSlab are oracles of the model (deterministic function enc)",
        "the source-level tie (no new range-over-map statements in interpreter/, runtime/, sema/, bbq/, stdlib/, common/, encoding/ ...) re-implements "
        "the criterion of the repo's tools/maprange analyzer with go/packages and diffs against corpus/C33/maprange_expected.txt",
    ]
    s = std_flow(ctx, "c33",
                 args=["-repo", REPO, "-corpus", os.path.join(VERIF, "corpus", "C33"),
                       "-cache", os.path.join(BUILD, "c33_scan_cache.json")],
                 coq_targets=["C33/Cases"],
                 mismatch_key=lambda d: "commit-order")
    if s is None:
        return
    extra = s.get("extra") or {}
    new = (extra.get("maprange_new_unannotated") or []) + (extra.get("maprange_new_annotated") or [])
    if new and not any(not f["no_input"] for f in ctx.failures):
        # a new range-over-map statement: the source-level tie is broken; the repeated runs above are the search for an
        # observable divergence and found none
        ctx.failure("maprange-new", "new range statement(s) over a Go map in execution code, not in corpus/C33/maprange_expected.txt: %s"
                    % "; ".join(new[:10]),
                    {"broken": "source-level tie: map ranges", "new_unannotated": extra.get("maprange_new_unannotated"),
                     "new_annotated": extra.get("maprange_new_annotated")}, no_input=True)
    elif new:
        ctx.notes.append("new map ranges: %s" % "; ".join(new[:10]))
