"""C08 — subtyping is a consistent preorder across all implementations.

Flow: (0) rules2coq regenerates coq/theories/Gen/GenC08Subtype.v from <repo>/tools/subtype-gen/rules.yaml
(parsed and expanded by the repository's own generator code, linked from the tree under check);
(1) proof leg over the regenerated relation; (2) harness: the six real relations on all pairs of the
type universe, compared with each other, and reflexivity / bottom / top / transitivity (all triples)
checked on the real functions; (3) the regenerated Coq relation evaluated on all pairs against the
observed answers; (4) if the proof leg is broken: search for a concrete counterexample in the
regenerated model (reflexivity, bottom, top, transitivity inside the guard of the partial theorem).
"""
import json
import os
import re

from lib import COQ, REPO, Lock, sh


def decode(univ, n, code):
    rel = ["sema.CheckSubTypeWithoutEquality_gen", "sema.IsSubType", "interpreter.IsSubTypeOfSemaType"][min(code // (n * n), 2)]
    code %= n * n
    i, j = divmod(code, n)
    return rel, i, j


def model_search(ctx, work):
    """Evaluate the regenerated model alone over the universe: laws that the theorems assert."""
    src = open(os.path.join(work, "cases_C08_000.v")).read()
    head = src[:src.index("Definition rows")]
    script = head + """
From CV Require Import C08.Search.
Definition found := Eval vm_compute in (law_search env0 univ).
Print found.
"""
    rc, out = ctx.coq_script("c08_search", script, timeout=1500)
    if rc != 0:
        return None, out
    m = re.search(r"found\s*=\s*(.*?)\n\s*:\s", out, re.S)
    if not m:
        return None, out
    # found = (list of (kind, i, j, k))
    items = re.findall(r"\((\d+),\s*(\d+),\s*(\d+),\s*(\d+)\)", m.group(1))
    return [tuple(int(x) for x in it) for it in items], out


def run(ctx):
    ctx.assumptions += [
        "rules.yaml is given the meaning the repository gives it: parsed by tools/subtype-gen's parser and expanded by its generator "
        "(the code that writes sema/subtype_check.gen.go), then transliterated statement by statement to Gallina by rules2coq (harness/c08/rules2coq.go); "
        "the transliteration is trusted and cross-checked on every pair of the universe against the compiled generated function",
        "helper predicates (Type.Equal, IsResourceType, isAttachmentType, IsHashableStructType, PermitsAccess, IsIntersectionSubset, "
        "EffectiveIntersectionSet, AreReturnsCovariant, DeepEquals) are hand-transcribed in coq/theories/C08/Model.v and tied by the same correspondence run",
        "declaration environments enter the theorems as the record denv with the decidable well-formedness check wf_env_b, which is evaluated on the "
        "environment observed on the real checker objects in every run",
    ]
    with Lock("c08" ):
        _run(ctx)


def _run(ctx):
    binpath, out = ctx.go_build("c08")
    if binpath is None:
        ctx.log("harness build failed:\n" + out[-3000:])
        ctx.failure("harness-build", "harness (incl. rules2coq, which links tools/subtype-gen) no longer builds against the tree: " + out[-1500:],
                    {"broken": "go build ./c08", "log": out[-3000:]}, no_input=True)
        ctx.require_proofs()
        ctx.settle_l1()
        return
    # (0) translator
    gen_path = os.path.join(COQ, "theories", "Gen", "GenC08Subtype.v")
    rc, out = ctx.go_run(binpath, ["-mode", "gen", "-repo", REPO, "-out", gen_path], timeout=300)
    ctx.log(out.strip()[-300:])
    translator_ok = rc == 0
    if not translator_ok:
        ctx.failure("rules2coq", "rules2coq cannot translate rules.yaml (the tie between rules.yaml and the Coq relation is broken): " + out[-1200:],
                    {"broken": "rules2coq", "log": out[-3000:]}, no_input=True)
    # (1) proof leg; the model files used by the correspondence and the search do not depend on any proof file
    #     and are built separately so that a broken proof cannot block them
    r = ctx.require_proofs()
    with Lock("coq"):
        rcm, outm = sh(["make", "-j4", "theories/C08/Cases.vo", "theories/C08/Search.vo"], cwd=COQ, timeout=1500)
    if rcm != 0:
        ctx.log("model build failed:\n" + outm[-1500:])
    # (2) harness
    rc, out = ctx.go_run(binpath, ["-prop", ctx.pid, "-seed", ctx.seed, "-tier", ctx.tier, "-dir", ctx.work, "-mode", "run"], timeout=1500)
    spath = os.path.join(ctx.work, "summary.json")
    if rc != 0 or not os.path.exists(spath):
        ctx.log("harness run failed rc=%s:\n%s" % (rc, out[-3000:]))
        ctx.failure("harness-run", "harness run failed (rc=%s): %s" % (rc, out[-1500:]), {"broken": "harness run", "log": out[-3000:]}, no_input=True)
        ctx.settle_l1()
        return
    s = json.load(open(spath))
    for f in s.get("failures") or []:
        ctx.failure(f["key"], f["what"], f["replay"])
    univ = json.load(open(os.path.join(ctx.work, "universe.json")))["types"]
    n = len(univ)
    # (3) correspondence: regenerated Coq relation vs the compiled functions
    files = s.get("case_files") or []
    nm = 0
    model_usable = rcm == 0
    if files and model_usable:
        res, errs = ctx.coq_cases(files, var="mism", timeout=1500)
        for path, log in errs.items():
            ctx.failure("model-eval", "Coq evaluation of %s failed: %s" % (os.path.basename(path), log[-800:]),
                        {"broken": "correspondence evaluation " + path, "log": log[-2000:]}, no_input=True)
        for path, codes in sorted(res.items()):
            for code in codes:
                nm += 1
                rel, i, j = decode(univ, n, code)
                ctx.failure("model-mismatch:" + rel,
                            "the relation generated from rules.yaml and %s disagree on %s <: %s" % (rel, univ[i], univ[j]),
                            {"sub": univ[i], "super": univ[j], "relation": rel, "case_file": os.path.basename(path),
                             "note": "observed = compiled implementation in the tree; model = Coq relation regenerated from rules.yaml in this run"})
        # well-formedness of the observed environment (hypothesis of the partial theorems)
        if files:
            txt = ""
            try:
                rc2, txt = ctx.coq_script("c08_envok", open(files[0]).read().split("Definition rows")[0] +
                                          "Definition envok := Eval vm_compute in (wf_env_b env0).\nPrint envok.\n", timeout=300)
            except Exception as e:  # noqa
                txt = str(e)
            if "envok = true" not in txt:
                ctx.failure("env-wellformed", "the declaration environment observed on the real checker does not satisfy wf_env_b (hypothesis of C08_transitive_partial)",
                            {"broken": "wf_env_b env0", "log": txt[-1500:]}, no_input=True)
    elif files:
        ctx.failure("model-eval", "the Coq model (C08/Cases.vo) did not build; correspondence not evaluated",
                    {"broken": "theories/C08/Cases.vo"}, no_input=True)
    # (4) proof leg broken: look for a concrete counterexample in the regenerated model
    if not r["ok"] and files and rcm == 0:
        kinds = {0: "reflexivity", 1: "Never-is-bottom", 2: "Any-is-top", 3: "transitivity (inside the guard of C08_transitive_partial)"}
        found, log = model_search(ctx, ctx.work)
        if found is None:
            ctx.log("model search failed: " + log[-800:])
        else:
            ctx.log("model search: %d law violations in the regenerated relation" % len(found))
            for (k, i, j, l) in found[:10]:
                tys = [univ[i], univ[j], univ[l]]
                ctx.failure("model-law:" + kinds.get(k, str(k)),
                            "the relation regenerated from rules.yaml violates %s on %s" % (kinds.get(k, k), " , ".join(tys[: 3 if k == 3 else 2 if k else 1])),
                            {"law": kinds.get(k), "types": tys, "note": "evaluated in the Coq relation regenerated from rules.yaml; the real implementations' answers on the same universe are in the other failures of this run"})
    ctx.cov.update({
        "evaluations": s.get("evaluations", 0) + 3 * n * n,
        "distinct_nontrivial": s.get("distinct_nontrivial", 0),
        "rule": s.get("rule", ""),
        "samples": s.get("samples") or [],
        "distribution": s.get("distribution") or {},
        "coq_case_files": len(files),
        "model_mismatches": nm,
        "direct_failures": len(s.get("failures") or []),
        "extra": s.get("extra"),
        "checker_cmd": "rules2coq (harness/c08 -mode gen) then make -C /verif/coq theories/Properties/C08.vo theories/C08/Cases.vo (coqc 8.16.1) + Print Assumptions per theorem",
    })
    ctx.settle_l1()
