import json
import os
import sys

import lib
from lib import std_flow

sys.path.insert(0, os.path.dirname(os.path.abspath(__file__)))
import c35_instr2coq  # noqa: E402
from c46 import _retry_racy_evals  # noqa: E402  (same author: re-evaluate case files hit by a concurrent rebuild)


def _key(d):
    fn = d.get("function", "?")
    if "opcode" in d:
        return "model-mismatch:instruction:%s" % d.get("opcode")
    return "model-mismatch:%s" % fn


def run(ctx):
    ctx.assumptions += [
        "instruction pointer stays below 2^16: |prefix| + |encoding| <= 65535 (explicit hypothesis of the instruction theorems)",
        "operands are values of their Go field types (uint16 < 2^16, CompositeKind < 2^16, PathDomain < 2^8, arrays of at most 65535 elements)",
        "C35/Leb128Model.v and the helper functions of C35/InstrModel.v are hand transcriptions of bbq/leb128/leb128.go and "
        "bbq/opcode/instruction.go, tied by this run's correspondence; the per-opcode table is generated from source",
        "compile determinism is observed by repeated real compilation (in-process and fresh processes), not proved",
    ]
    ctx.trusted += [
        "translator driver/props/c35_instr2coq.py (regex-level reading of opcode.go / instructions.go, PyYAML for instructions.yml); "
        "every translated instruction is also exercised against the real Encode/DecodeInstruction in this run",
        "Go math/big oracle for LEB128 (harness/c35/leb.go)",
    ]
    # 1. translator: regenerate the opcode table from the current source BEFORE the proof leg
    try:
        path, stats = c35_instr2coq.write(lib.REPO, lib.COQ)
        ctx.log("instr2coq: %s %s" % (os.path.relpath(path, lib.VERIF), json.dumps(stats)))
        ctx.cov["translator"] = stats
        translated = True
    except c35_instr2coq.TranslateError as e:
        translated = False
        ctx.log("instr2coq FAILED: %s" % e)
        ctx.failure("translator", "bbq/opcode no longer has the shape the instruction-table translator supports "
                    "(the generated Coq table cannot be trusted): %s" % e,
                    {"broken": "driver/props/c35_instr2coq.py on %s/bbq/opcode" % lib.REPO, "error": str(e)}, no_input=True)
    # 2. proof leg + harness + correspondence (the harness still runs when the translator failed: it may find the
    #    concrete instruction that no longer round-trips)
    std_flow(ctx, "c35", coq_targets=["C35/Cases"], mismatch_key=_key, proof=translated)
    _retry_racy_evals(ctx, ["C35/Cases"], _key)
    if not translated and any(not f["no_input"] for f in ctx.failures):
        # a concrete failing input was found: the translator failure is explained by it
        ctx.failures[:] = [f for f in ctx.failures if f["key"] != "translator"]
    ctx.settle_l1()
