import re

from lib import std_flow


def _key(d):
    fn = d.get("function", "?")
    return "model-mismatch:%s%s" % (fn, ":block" if d.get("kind") == "block" else "")


def _refine_blocks(ctx):
    """A block case covers the 256 one-byte extensions of a prefix; name the exact disagreeing inputs."""
    for f in ctx.failures:
        d = (f.get("replay") or {}).get("case") if isinstance(f.get("replay"), dict) else None
        if not d or d.get("kind") != "block":
            continue
        is_s = d.get("function") == "RLP.decodeString"
        pre = [int(d["block_prefix_hex"][i:i + 2], 16) for i in range(0, len(d["block_prefix_hex"]), 2)]
        prel = "[" + ";".join(str(b) for b in pre) + "]"
        script = ("From CV Require Import C46.Cases.\nOpen Scope Z_scope.\n"
                  "Definition m := Eval vm_compute in (%s (%s, %s)).\nPrint m.\n"
                  % ("block_misses_s" if is_s else "block_misses_l", prel, d.get("exceptions", "[]")))
        rc, out = ctx.coq_script("block_%s_%s" % ("s" if is_s else "l", d["block_prefix_hex"] or "empty"), script, timeout=300)
        m = re.search(r"m\s*=\s*(.*?)\n\s*:\s", out, re.S)
        if rc != 0 or not m:
            continue
        last = [int(x) for x in re.findall(r"\d+", m.group(1))]
        inputs = ["".join("%02x" % b for b in pre + [x]) for x in last]
        f["replay"]["failing_inputs_hex"] = inputs[:16]
        f["what"] = "implementation and Coq model disagree on %s(0x%s)%s" % (
            d.get("function"), inputs[0] if inputs else d["block_prefix_hex"] + "??",
            " and %d more inputs of the same block" % (len(inputs) - 1) if len(inputs) > 1 else "")


def _retry_racy_evals(ctx, coq_targets, key_fn):
    """Other builders may rebuild shared .vo files while our case files are being evaluated; coqc then reports
    'Compiled library ... makes inconsistent assumptions'. That says nothing about the property: rebuild our
    targets (under the shared lock) and evaluate those case files again."""
    import json as _json
    racy = [f for f in ctx.failures if f["key"] == "model-eval" and re.search(
        r"inconsistent assumptions|Compiled library|bad version number|Cannot find a physical path|End_of_file|is corrupted",
        f["what"])]
    for attempt in range(3):
        if not racy:
            return
        ctx.log("re-evaluating %d case file(s) hit by a concurrent rebuild of the Coq libraries" % len(racy))
        ctx.require_proofs(extra_targets=["theories/" + t + ".vo" for t in coq_targets])
        paths = [f["replay"]["broken"].split("correspondence evaluation ", 1)[1] for f in racy]
        res, errs = ctx.coq_cases(paths)
        still = []
        for f, path in zip(racy, paths):
            if path in errs:
                f["what"] = "Coq evaluation of %s failed: %s" % (path, errs[path][-800:])
                still.append(f)
                continue
            ctx.failures.remove(f)
            descs = [_json.loads(l) for l in open(path[:-2] + ".jsonl")]
            for i in res.get(path, []):
                d = descs[i] if i < len(descs) else {"index": i}
                ctx.failure(key_fn(d), "implementation and Coq model disagree on %s" % _json.dumps(d)[:500],
                            {"case": d, "case_file": path, "index": i})
        racy = [f for f in still if re.search(r"inconsistent assumptions|Compiled library", f["what"])]


def run(ctx):
    ctx.assumptions += [
        "input slices are shorter than 2^62 bytes (hypothesis of every theorem; true of any Go slice)",
        "Go runtime semantics of index/slice expressions and 64-bit int wrap-around are modelled by idx/slice/wrap_int in C46/Model.v",
        "C46/Model.v is a hand transcription of stdlib/rlp/rlp.go and of the two wrappers in stdlib/rlp.go; tied by this run's correspondence",
        "all seven rlp error values are user errors at the Cadence level (RLPDecodeStringError / RLPDecodeListError); observed, not proved",
    ]
    ctx.trusted += [
        "Go oracle harness/c46/oracle.go (reference RLP encoder; acceptance defined as equality with the re-encoding)",
    ]
    std_flow(ctx, "c46", coq_targets=["C46/Cases"], mismatch_key=_key, env={"VERIF_ROOT": __import__("lib").VERIF})
    _retry_racy_evals(ctx, ["C46/Cases"], _key)
    _refine_blocks(ctx)
    ctx.settle_l1()
