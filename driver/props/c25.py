import os

from lib import std_flow, VERIF


def key(d):
    # type-lattice tables and histories are separate case streams
    if "table" in d:
        return "type-table:%s" % d.get("table")
    return "history-mismatch"


def run(ctx):
    ctx.assumptions += [
        "host GenerateAccountID is a per-account counter that is never rolled back (TestRuntimeInterface); "
        "ValidateAccountCapabilitiesGet/Publish host callbacks accept everything",
        "atree write-back of in-memory controller objects enters the model as the per-transaction oracle tx_stale, "
        "measured by the harness after every commit (empty on a correct tree)",
        "Coq model C25/Model.v is hand-written in the shape of stdlib/account.go; tied by this run's correspondence",
    ]
    std_flow(ctx, "c25", args=["-corpus", os.path.join(VERIF, "corpus", "C25")],
             coq_targets=["C25/Cases"], mismatch_key=key)
