from lib import std_flow


def run(ctx):
    ctx.assumptions += [
        "the Coq model coq/theories/C29 is a hand transcription of importValidatedArguments / valueImporter.importValue / "
        "IsImportable / ConformsToStaticType (types and both subtype tests: coq/theories/C09/Types.v); tied to /repo by this run",
        "sema.LeastCommonSuperType (element-type inference for untyped arrays/dictionaries) is an oracle of the model; the "
        "correspondence run uses a concrete version covering the generated shapes",
        "the JSON / CCF decoders are modelled only by the numeric range check; their own robustness is C41/C42",
    ]
    std_flow(ctx, "c29", coq_targets=["C29/Cases"], mismatch_key=lambda d: "model-mismatch:%s" % d.get("argument_kind"))
