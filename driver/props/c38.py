"""C38  Printing a parsed program and re-parsing it yields the same AST.

1. proof leg (Properties/C38.v), 2. harness: real round trip on corpus + grammar-generated programs (direct
failures), model correspondence cases (expressions, string literals), 3. Coq evaluation of the cases,
4. table tie: the precedence order of ast/precedence.go, BinaryExpression.precedence, the binding powers and
the binary operator definitions of parser/expression.go are re-extracted from source and compared with the
constants of the Coq model (coq/theories/C38/{Syntax,Parser}.v) by a Coq script.
"""
import os
import re

import lib
from lib import std_flow

OPS = {"Or": "OOr", "And": "OAnd", "Less": "OLt", "LessEqual": "OLe", "Greater": "OGt", "GreaterEqual": "OGe",
       "Equal": "OEq", "NotEqual": "ONe", "NilCoalesce": "ONilC", "BitwiseOr": "OBitOr", "BitwiseXor": "OBitXor",
       "BitwiseAnd": "OBitAnd", "BitwiseLeftShift": "OShl", "BitwiseRightShift": "OShr", "Plus": "OAdd",
       "Minus": "OSub", "Mul": "OMul", "Div": "ODiv", "Mod": "OMod"}


def extract(repo):
    prec = open(os.path.join(repo, "ast/precedence.go")).read()
    expr = open(os.path.join(repo, "ast/expression.go")).read()
    par = open(os.path.join(repo, "parser/expression.go")).read()
    strip = lambda s: re.sub(r"//[^\n]*", "", s)
    m = re.search(r"const\s*\(\s*expressionPrecedenceUnknown\s+expressionPrecedence\s*=\s*iota(.*?)\)", strip(prec), re.S)
    if not m:
        raise ValueError("expressionPrecedence const block not found")
    levels = [w for w in m.group(1).split() if w.startswith("expressionPrecedence")]
    m = re.search(r"func \(e \*BinaryExpression\) precedence\(\) expressionPrecedence \{(.*?)\n\}", expr, re.S)
    if not m:
        raise ValueError("BinaryExpression.precedence not found")
    opprec = {}
    for cases, lvl in re.findall(r"case\s+([^:]+):\s*return\s+(expressionPrecedence\w+)", strip(m.group(1)), re.S):
        for op in re.findall(r"Operation(\w+)", cases):
            opprec[op] = lvl
    m = re.search(r"const\s*\(\s*exprLeftBindingPowerTernary\s*=\s*exprBindingPowerGap\s*\*\s*\(iota\s*\+\s*2\)(.*?)\)", strip(par), re.S)
    gap = re.search(r"const\s+exprBindingPowerGap\s*=\s*(\d+)", par)
    if not m or not gap:
        raise ValueError("binding power const block not found")
    powers = ["exprLeftBindingPowerTernary"] + [w for w in m.group(1).split() if w.startswith("exprLeftBindingPower")]
    powerval = {n: int(gap.group(1)) * (i + 2) for i, n in enumerate(powers)}
    binops = {}
    for body in re.findall(r"defineExpr\(binaryExpr\{(.*?)\}\)", strip(par), re.S):
        op = re.search(r"operation:\s*ast\.Operation(\w+)", body)
        bp = re.search(r"leftBindingPower:\s*(exprLeftBindingPower\w+)", body)
        if op and bp:
            binops[op.group(1)] = (powerval[bp.group(1)], bool(re.search(r"rightAssociative:\s*true", body)))
    # `<`, `>` and `>>` are defined by dedicated functions
    for op, name in (("Less", "binaryExpressionLeftBindingPower = exprLeftBindingPowerComparison"),):
        if name in par:
            binops[op] = (powerval["exprLeftBindingPowerComparison"], False)
    if "exprLeftBindingPowerBitwiseShift" in par and "exprLeftBindingPowerComparison" in par:
        binops.setdefault("Greater", (powerval["exprLeftBindingPowerComparison"], False))
        binops.setdefault("BitwiseRightShift", (powerval["exprLeftBindingPowerBitwiseShift"], False))
    unary = {}
    for tok, bp in re.findall(r"tokenType:\s*lexer\.(Token\w+),\s*bindingPower:\s*(exprLeftBindingPower\w+)", strip(par)):
        unary[tok] = powerval[bp]
    return levels, opprec, powerval, binops, unary


def table_script(levels, opprec, powerval, binops, unary):
    eqs = []
    short = lambda n: n.replace("expressionPrecedence", "p")
    for i, n in enumerate(levels, 1):
        eqs.append("%s = %d" % (short(n), i))
    for n, v in powerval.items():
        if n == "exprLeftBindingPowerMove" or True:
            eqs.append("%s = %d" % (n.replace("exprLeftBindingPower", "bp"), v))
    for op, coq in OPS.items():
        if op not in opprec or op not in binops:
            raise ValueError("operator %s not found in source tables" % op)
        eqs.append("bprec %s = %s" % (coq, short(opprec[op])))
        eqs.append("bpower %s = %d" % (coq, binops[op][0]))
        eqs.append("right_assoc %s = %s" % (coq, "true" if binops[op][1] else "false"))
        eqs.append("left_assoc %s = %s" % (coq, "false" if binops[op][1] else "true"))
    return ("Require Import CV.Base.Prelude CV.C38.Syntax CV.C38.Parser.\n"
            "Goal " + "\n /\\ ".join(eqs) + ".\nProof. repeat split; reflexivity. Qed.\n")


def run(ctx):
    ctx.assumptions += [
        "Coq model (C38/Syntax.v printer, C38/Parser.v Pratt parser, C38/Str.v escapes) is hand-written in the shape of ast/expression.go, "
        "parser/expression.go, ast/string.go; tied by the precedence / binding-power tables re-extracted from source and by this run's correspondence",
        "layout (whitespace, line breaks) of the pretty printer is not modelled: texts are compared as token sequences of the real lexer",
        "declarations, statements, types and expression forms outside the model are covered by the real parse(print(parse p)) = parse p only",
    ]
    corpus = os.path.join(lib.VERIF, "corpus", "C38")
    s = std_flow(ctx, "c38", args=["-corpus", corpus], coq_targets=["C38/Cases"],
                 mismatch_key=lambda d: "model-mismatch:%s" % d.get("kind", "?"))
    try:
        tabs = extract(lib.REPO)
        script = table_script(*tabs)
        rc, out = ctx.coq_script("tables", script, timeout=600)
        ctx.cov["precedence_levels"] = tabs[0]
        if rc != 0:
            ctx.failure("tables", "the precedence / binding power tables of ast/precedence.go, ast/expression.go and parser/expression.go "
                        "no longer agree with the Coq model: " + out[-1200:],
                        {"broken": "driver/props/c38.py:table_script", "log": out[-2500:], "script": script},
                        no_input=not any(not f["no_input"] for f in ctx.failures))
    except Exception as e:
        ctx.failure("tables", "cannot extract the precedence tables from source: %s" % e,
                    {"broken": "driver/props/c38.py:extract", "error": str(e)}, no_input=True)
