from lib import std_flow


def run(ctx):
    ctx.assumptions += [
        "Coq model MC/Interp.v is hand-written in the shape of interpreter_expression.go / interpreter_statement.go / "
        "interpreter_invocation.go and tied to /repo by this run's correspondence (generated programs, both engines)",
        "the value library (Int8 arithmetic, Transfer = deep copy, BoxOptional, array/dictionary/struct get/set) is modelled in MC/Prim.v "
        "and shared by both engine models, as interpreter.Value is shared by both real engines",
        "probe(k, v) is realised in Cadence as a function that calls log(k) and returns v; ProgramLog order is the observable",
    ]
    ctx.trusted += ["Go program generator emitting each program as Cadence source and as a Coq term (harness/c52/ast.go, progen.go)"]
    std_flow(ctx, "c52", coq_targets=["MC/Cases"], mismatch_key=lambda d: d.get("key", "model-mismatch"))
