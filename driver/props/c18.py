from lib import std_flow


def run(ctx):
    ctx.assumptions += [
        "Unicode normalisation (x/text/unicode/norm) is external: a universally quantified function in the theorems, a per-case table "
        "computed with the real library in the correspondence run",
        "the hash function of atree (circlehash) is external and arbitrary in the dictionary theorem; collisions between unequal keys "
        "are resolved by Equal in the model as in atree",
        "Coq model C18/Model.v is hand-written per value kind in the shape of interpreter/value_*.go Equal / Less / HashInput and "
        "statictype.go Equal / ID; tied by this run's correspondence",
    ]
    std_flow(ctx, "c19", coq_targets=["C18/Cases"],
             mismatch_key=lambda d: "equality-model:%s" % d.get("op"))
