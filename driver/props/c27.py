from lib import std_flow


def run(ctx):
    ctx.assumptions += [
        "Coq model C27/Model.v is hand-transcribed from stdlib/contract_update_validation.go + type-comparator.go; tied by this run: "
        "the real ContractUpdateValidator's ordered error list on generated (old,new) pairs must equal the model's",
        "wf_scope (hypothesis of the theorem) = necessary conditions of checker acceptance; every end-to-end pair that reaches the real "
        "validator must satisfy it in the model",
        "usable/wf_value (Spec.v) are evaluated on the stored value trees and compared with the inspection of real storage after accepted updates",
    ]
    ctx.trusted += ["cadence parser + ast accessors (model input is converted from the parsed AST)", "lib.Host in-memory runtime embedding"]
    std_flow(ctx, "c27", coq_targets=["C27/Cases"],
             mismatch_key=lambda d: "model-mismatch:%s" % d.get("leg", "?"))
