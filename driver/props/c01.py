from lib import std_flow


def run(ctx):
    ctx.assumptions += [
        "Coq model coq/theories/C01 (typed mini-Cadence: Syntax/Check/Interp) is hand-written in the shape of "
        "sema (check_*.go, type_tags.go LeastCommonSuperType, resources.go) and of the tree-walking interpreter "
        "(interpreter_expression.go, interpreter_statement.go, interpreter.go ConvertAndBoxWithValidation/BoxOptional); "
        "it is tied to /repo by this run's correspondence: real checker verdict and the outcomes of both engines on "
        "generated and mutated fragment programs",
        "the interpreter as written does not box the value of a conditional expression: it corresponds to the model "
        "with boxcond=false (refuted: C01_interp_as_written_refuted); the VM corresponds to boxcond=true",
        "programs outside the modelled fragment (interfaces, attachments, entitlements, closures, references, "
        "nested resources, contracts, storage, capabilities) are covered only by the direct no-internal-error monitor",
    ]
    ctx.trusted += [
        "Go generators: harness/c01/frag (fragment programs emitted as Cadence source and as Coq terms from one AST) "
        "and harness/c01/direct*.go (direct monitor, error classification by Go error type)",
    ]
    std_flow(ctx, "c01", coq_targets=["C01/Cases"], mismatch_key=lambda d: d.get("key", "frag:model-mismatch"),
             run_timeout=3000, coq_timeout=2400)
