from lib import std_flow


def run(ctx):
    ctx.assumptions += [
        "Coq model C48/Model.v is hand-written in the shape of BoxOptional / ConvertAndBox / VisitEmitStatement / "
        "EmitEventFields / CompositeValue.Destroy; tied to /repo by this run's correspondence (both engines)",
        "the oracle over cadence.Type / cadence.Value (harness/c48/observe.go) reads a reference-typed parameter &T as T "
        "(references are exported by value)",
    ]
    std_flow(ctx, "c48", coq_targets=["C48/Cases"], mismatch_key=lambda d: "c48:model-mismatch")
