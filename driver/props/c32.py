from lib import std_flow


def run(ctx):
    ctx.assumptions += [
        "len(x.Bits()) of a normalised big.Int is modelled as words(x) = ceil(bitlen(|x|)/64); math/big trusted",
        "word lengths below 2^24 (128 MiB per operand) - beyond that the Go int / uint64 conversions of the estimators could wrap",
    ]
    std_flow(ctx, "num", coq_targets=["Num/MeterCases"],
             mismatch_key=lambda d: "estimator-differs-from-model:%s:%s" % (d.get("op"), d.get("branch")))
