"""C39  The formatter preserves meaning and comments and is idempotent.

proof leg: Properties/C39.v (skeleton model of scan/group/attach/sort-imports/render/collapse);
harness/c39: corpus of minimal reproducers, CLEAN stream (full-grammar programs with comments at conventional
positions: every failure is a violation), WILD stream (comments at arbitrary token boundaries: failures bucketed into
the known defect classes of the pinned formatter), SKELETON stream (output text compared line by line with the Coq
model by coqc case files)."""
import os

import lib
from lib import std_flow


def run(ctx):
    ctx.level = "partial"
    ctx.assumptions += [
        "PARTIAL: the Coq model covers the skeleton fragment (single-line top-level declarations and imports, comment-only "
        "lines, end-of-line comments, blank lines, semicolons, options KeepBlankLines / SortImports / StripSemicolons); "
        "everything else of the real formatter is reached only by the direct monitors on generated programs",
        "comment texts are compared modulo trailing blanks of each line; DocString fields (derived from comments) and the "
        "difference between `transaction()` and `transaction` are not part of the AST comparison; imports are compared as a multiset",
        "the parser and the lexer of /repo are the observers (AST JSON, comment extraction): trusted here, checked by C37/C38",
    ]
    corpus = os.path.join(lib.VERIF, "corpus", "C39")
    std_flow(ctx, "c39", args=["-corpus", corpus], coq_targets=["C39/Cases"],
             mismatch_key=lambda d: "skeleton-model-mismatch")
