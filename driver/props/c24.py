from lib import std_flow


def run(ctx):
    ctx.assumptions += [
        "atree slab bookkeeping is outside /repo: which slabs are dirty is abstracted to model cells; compared per write burst as the set of owner accounts",
        "AllocateSlabIndex and UpdateAccountContractCode host callbacks are not SetValue calls and are not judged",
        "Coq model C24/Model.v is hand-written in the shape of transaction_executor.go / script_executor.go / contract_function_executor.go / storage.go commit; tied to /repo by this run's histories in both engines",
        "an injected metering failure is mapped to the model's failure point from what the gauge saw (logs so far, metered kind)",
    ]
    std_flow(ctx, "c24", coq_targets=["C24/Cases"], mismatch_key=lambda d: "trace-mismatch")
