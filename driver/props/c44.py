"""C44: stored-value encodings round-trip and stay stable across versions.

Custom flow: (T) extract the CBOR tag numbers and the primitive static type codes from /repo's
source into coq/theories/Gen/GenC44Tags.v and compare them with the pinned expectation
corpus/C44/tags_pinned.json (a changed number of an existing name = the encoding is not stable);
then the standard proof / harness / correspondence legs."""
import json
import os
import re

from lib import COQ, REPO, VERIF, std_flow


class ExtractError(Exception):
    pass


def parse_iota_block(path, first_name, type_name):
    """Parse a Go `const ( Name Type = [Base +] iota ... )` block. Returns (ordered list of
    (name, value)) for named entries; `_` placeholders consume a value. Anything else is an error."""
    src = open(path).read()
    m = re.search(r"const \(\s*\n\s*" + re.escape(first_name) + r"\s+" + re.escape(type_name) + r"\s*=\s*([A-Za-z0-9_]+\s*\+\s*)?iota\b[^\n]*\n", src)
    if not m:
        raise ExtractError("cannot find const block starting with %s in %s" % (first_name, path))
    base = 0
    if m.group(1):
        base_name = m.group(1).replace("+", "").strip()
        mb = re.search(r"^const\s+" + re.escape(base_name) + r"\s*=\s*(\d+)\s*$", src, re.M)
        if not mb:
            raise ExtractError("cannot find constant %s in %s" % (base_name, path))
        base = int(mb.group(1))
    out = [(first_name, base)]
    i = 1
    rest = src[m.end():]
    for line in rest.split("\n"):
        code = line.split("//")[0].strip()
        if code == ")":
            return out
        if code == "":
            continue
        if code == "_":
            i += 1
            continue
        if re.fullmatch(r"[A-Za-z][A-Za-z0-9_]*", code):
            out.append((code, base + i))
            i += 1
            continue
        raise ExtractError("unsupported syntax in const block of %s: %r" % (path, line))
    raise ExtractError("unterminated const block in %s" % path)


def extract(ctx):
    tags = parse_iota_block(os.path.join(REPO, "values", "encode.go"), "CBORTagVoidValue", "CBORTag")
    prims = parse_iota_block(os.path.join(REPO, "interpreter", "primitivestatictype.go"),
                             "PrimitiveStaticTypeUnknown", "PrimitiveStaticType")
    tags = [(n, v) for n, v in tags if n != "CBORTag_Count"]
    prims = [(n, v) for n, v in prims if n != "PrimitiveStaticType_Count"]
    lines = ["(* GENERATED on every run by driver/props/c44.py from values/encode.go and",
             "   interpreter/primitivestatictype.go of the tree under check. Do not edit. *)",
             "From Coq Require Import ZArith List.", "Import ListNotations.", "Open Scope Z_scope.", ""]
    for n, v in tags:
        lines.append("Definition tag_%s : Z := %d." % (n[len("CBORTag"):], v))
    lines.append("Definition cbor_tag_table : list Z := [%s]." % "; ".join(str(v) for _, v in tags))
    for n, v in prims:
        lines.append("Definition prim_%s : Z := %d." % (n[len("PrimitiveStaticType"):], v))
    lines.append("Definition prim_table : list Z := [%s]." % "; ".join(str(v) for _, v in prims))
    text = "\n".join(lines) + "\n"
    path = os.path.join(COQ, "theories", "Gen", "GenC44Tags.v")
    os.makedirs(os.path.dirname(path), exist_ok=True)
    cur = open(path).read() if os.path.exists(path) else None
    if cur != text:
        with open(path, "w") as f:
            f.write(text)
    return dict(tags), dict(prims)


def run(ctx):
    ctx.assumptions += [
        "fxamacker/cbor stream encoder/decoder and atree.Encoder are trusted for the byte layout of CBOR items; "
        "the model's serializer (shortest-form heads) is compared byte-for-byte with the real encoder on every generated value",
        "Unicode NFC normalisation, UTF-8 validity and grapheme segmentation (Character validity) enter the theorems as hypotheses",
    ]
    try:
        tags, prims = extract(ctx)
    except ExtractError as e:
        ctx.failure("tag-extraction", "cannot extract the CBOR tag table from source: %s" % e,
                    {"broken": "translator (const block parser)", "error": str(e)}, no_input=True)
        ctx.settle_l1()
        return
    pinned_path = os.path.join(VERIF, "corpus", "C44", "tags_pinned.json")
    pinned = json.load(open(pinned_path))
    for kind, cur in (("cbor_tags", tags), ("primitive_static_types", prims)):
        for name, num in sorted(pinned[kind].items()):
            if name not in cur:
                ctx.failure("tag-removed:%s" % name,
                            "encoding not stable across versions: %s (pinned number %d) no longer exists in the source" % (name, num),
                            {"name": name, "pinned": num, "current": None, "table": kind})
            elif cur[name] != num:
                ctx.failure("tag-renumbered:%s" % name,
                            "encoding not stable across versions: %s was %d in the pinned version and is %d now" % (name, num, cur[name]),
                            {"name": name, "pinned": num, "current": cur[name], "table": kind})
        taken = {}
        for name, num in cur.items():
            if name not in pinned[kind] and num in pinned[kind].values():
                ctx.failure("tag-reused:%s" % name,
                            "encoding not stable across versions: new name %s reuses the pinned number %d" % (name, num),
                            {"name": name, "current": num, "table": kind})
            taken.setdefault(num, []).append(name)
    ctx.cov["extracted_tags"] = len(tags)
    ctx.cov["extracted_primitive_static_types"] = len(prims)
    std_flow(ctx, "c44", coq_targets=["C44/Cases"],
             mismatch_key=lambda d: "model-mismatch:%s" % d.get("leg", "?"),
             env={"C44_CORPUS": os.path.join(VERIF, "corpus", "C44")})
