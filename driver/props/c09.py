from lib import std_flow

# keys of the known findings are produced by harness/c09/run.go for exactly these input classes
def _key(d):
    return "model-mismatch:%s" % ("resource" if d.get("resource") else "value")


def run(ctx):
    ctx.assumptions += [
        "the Coq model coq/theories/C09 is a hand transcription of VisitCastingExpression / castValueAndValueType / "
        "convert / BoxOptional / IsInstance / ValueGetType / MetaTypeIsSubType / opFailableCast / opForceCast / opSimpleCast "
        "and of sema.CheckSubTypeWithoutEquality / interpreter.IsSubType; it is tied to /repo by this run's correspondence",
        "storage references, functions, attachments, enums, inclusive ranges and legacy intersection types are outside the model",
        "theorems about the cast result cover values whose containers hold no reference types (Spec.ok_value); containers of "
        "references are covered by the correspondence run only",
    ]
    std_flow(ctx, "c09", coq_targets=["C09/Cases"], mismatch_key=_key)
