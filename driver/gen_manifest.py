#!/usr/bin/env python3
"""Regenerate /verif/MANIFEST.json from props_meta/Cnn.json (one file per claimed property)."""
import glob, json, os
V = os.path.dirname(os.path.dirname(os.path.abspath(__file__)))
props = [json.loads(l) for l in open(os.path.join(V, "properties.jsonl"))]
checks, na = [], []
ready = set(json.load(open(os.path.join(V, "props_meta", "_ready.json"))))
for p in props:
    pid = p["id"]
    mp = os.path.join(V, "props_meta", pid + ".json")
    if not os.path.exists(mp) or pid not in ready:
        na.append({"property_id": pid, "reason": "check not built yet in this round (planned: DESIGN.md section 6 %s); not claimed until its proof and correspondence legs run" % pid})
        continue
    m = json.load(open(mp))
    if m.get("not_applicable"):
        na.append({"property_id": pid, "reason": m["not_applicable"]})
        continue
    checks.append({
        "property_id": pid,
        "quick_cmd": "./check %s --tier quick" % pid,
        "thorough_cmd": "./check %s --tier thorough" % pid,
        "evidence_file": "evidence/%s.json" % pid,
        "replay_cmd_template": "./check %s --replay {path}" % pid,
        "engine": m.get("engine", "coq+cvh"),
        "level_claimed": {"category": m.get("category", "proof"), "text": m["text"], "design_ref": m.get("design_ref", "DESIGN.md section 6 " + pid)},
        "level_note": m["level_note"],
        "technique": m.get("technique", "Coq 8.16 theorems about an executable model + differential correspondence run against /repo"),
    })
man = {
    "version": 1,
    "setup_cmd": "./setup.sh",
    "hooks": {"guard": "verif", "enable": "go build -tags verif (harness module with replace github.com/onflow/cadence => /repo)",
              "baseline_off_cmd": "cd /repo && go test -mod=mod -vet=off -count=1 -timeout 25m ./...",
              "source_commits": [], "add_only": True},
    "engines": [
        {"name": "coq", "path": "coq/", "serves_properties": [c["property_id"] for c in checks],
         "kind_free_text": "Coq 8.16.1 development: executable models, theorems (Properties/Cnn.v), per-run case files evaluated with vm_compute"},
        {"name": "cvh", "path": "harness/", "serves_properties": [c["property_id"] for c in checks],
         "kind_free_text": "Go correspondence harness linked against /repo (replace directive), generators + independent oracles"},
    ],
    "checks": checks,
    "not_applicable": na,
    "notes": "Every check = proof leg (coqc re-check + Print Assumptions) + correspondence leg (model vs implementation on generated cases) + failing-input search. See DESIGN.md.",
}
hooks = os.path.join(V, "props_meta", "_hooks.json")
if os.path.exists(hooks):
    man["hooks"]["source_commits"] = json.load(open(hooks))
json.dump(man, open(os.path.join(V, "MANIFEST.json"), "w"), indent=1)
print("claimed", len(checks), "not_applicable", len(na))
