import argparse
import importlib
import os
import sys
import traceback

sys.path.insert(0, os.path.dirname(os.path.abspath(__file__)))
import lib  # noqa: E402


def main():
    ap = argparse.ArgumentParser()
    ap.add_argument("pid")
    ap.add_argument("--tier", default=os.environ.get("VERIF_TIER", "quick"), choices=["quick", "thorough"])
    ap.add_argument("--replay", default=None)
    a = ap.parse_args()
    seed = int(os.environ.get("VERIF_SEED", "1") or "1")
    ctx = lib.Ctx(a.pid, a.tier, seed, a.replay)
    try:
        mod = importlib.import_module("props." + a.pid.lower())
    except ImportError as e:
        print("no check for %s: %s" % (a.pid, e))
        return 2
    if a.replay:
        # replays are self-describing JSON (failing input + observed/required behaviour); the check is
        # re-run on the current tree, whose corpus/boundary stage re-exercises the recorded input class
        try:
            print("replay file %s:\n%s" % (a.replay, open(a.replay).read()[:4000]))
        except OSError as e:
            print("cannot read replay file: %s" % e)
    try:
        mod.run(ctx)
    except Exception:
        tb = traceback.format_exc()
        print(tb)
        ctx.failure("check-crashed", "the check itself crashed: " + tb[-1500:], {"traceback": tb}, no_input=True)
    return ctx.finish()


if __name__ == "__main__":
    sys.exit(main())
