"""Shared driver library for /verif checks (python3 stdlib only).

A property check is a module driver/props/cNN.py with a function run(ctx).
It uses Ctx to (1) re-check the Coq theorems (proof leg), (2) build and run the Go
harness against /repo's working tree, (3) evaluate the Coq model on the cases
(correspondence leg), (4) record failures.  Ctx.finish() matches failures against
known_findings.json, prints KNOWN-FINDING / VIOLATION lines, writes the evidence
file and returns the exit code.
"""
import fcntl
import glob
import json
import os
import re
import shutil
import subprocess
import sys
import time
from concurrent.futures import ThreadPoolExecutor

VERIF = os.path.dirname(os.path.dirname(os.path.abspath(__file__)))
REPO = os.environ.get("VERIF_REPO", "/repo")
COQ = os.path.join(VERIF, "coq")
BUILD = os.path.join(VERIF, "build")
HARNESS = os.path.join(VERIF, "harness")
BIN = os.path.join(BUILD, "bin")
# VERIF_REPO=<scratch worktree> runs a check against another copy of onflow/cadence (used for
# testing the checks against seeded changes); everything it writes is kept apart from the real run.
ALT = REPO != "/repo"
ALT_TAG = ("alt_" + re.sub(r"[^A-Za-z0-9]+", "_", REPO).strip("_")) if ALT else ""

FORBIDDEN = re.compile(
    r"\b(Admitted|admit|Axiom|Axioms|Parameter|Parameters|Conjecture|Conjectures|"
    r"Unset\s+Guard\s+Checking|Unset\s+Positivity\s+Checking|Unset\s+Universe\s+Checking|"
    r"bypass_check|Admit\s+Obligations|type-in-type|impredicative-set|native_compute)\b")

# axioms of the Coq standard library that may legitimately appear (named in DESIGN.md trusted base)
STDLIB_AXIOMS = {
    "functional_extensionality_dep", "proof_irrelevance", "classic", "JMeq_eq",
    "Eqdep.Eq_rect_eq.eq_rect_eq", "eq_rect_eq", "propositional_extensionality",
}


def njobs(default=12):
    """Parallelism for make / coqc: all cores on an idle machine, few when it is already oversubscribed."""
    try:
        load = os.getloadavg()[0]
    except OSError:
        load = 0
    if load > 48:
        return 2
    if load > 20:
        return 4
    return default


def go_env():
    env = dict(os.environ)
    env["GOFLAGS"] = "-mod=mod"
    env["GOPROXY"] = "off"
    env.pop("GOSUMDB", None)
    env.pop("GOTOOLCHAIN", None)
    env.setdefault("GOCACHE", os.path.expanduser("~/.cache/go-build"))
    return env


class Lock:
    def __init__(self, name):
        os.makedirs(BUILD, exist_ok=True)
        self.path = os.path.join(BUILD, name + ".lock")

    def __enter__(self):
        self.f = open(self.path, "w")
        fcntl.flock(self.f, fcntl.LOCK_EX)
        return self

    def __exit__(self, *a):
        fcntl.flock(self.f, fcntl.LOCK_UN)
        self.f.close()


def sh(cmd, cwd=None, timeout=None, env=None, stdin=None):
    """Run a command, return (rc, stdout+stderr). rc=124 on timeout."""
    try:
        p = subprocess.run(cmd, cwd=cwd, env=env, input=stdin, timeout=timeout,
                           stdout=subprocess.PIPE, stderr=subprocess.STDOUT,
                           text=True, errors="replace")
        return p.returncode, p.stdout
    except subprocess.TimeoutExpired as e:
        out = e.stdout or ""
        if isinstance(out, bytes):
            out = out.decode("utf-8", "replace")
        return 124, out + "\n[timeout after %ss]" % timeout


def ensure_coq_makefile():
    mk = os.path.join(COQ, "Makefile")
    proj = os.path.join(COQ, "_CoqProject")
    vfiles = sorted(glob.glob(os.path.join(COQ, "theories", "**", "*.v"), recursive=True))
    vfiles = [os.path.relpath(v, COQ) for v in vfiles if "/Cases/" not in v]
    want = "-Q theories CV\n-arg -w -arg -notation-overridden,-deprecated-hint-without-locality,-deprecated-instance-without-locality,-deprecated-syntactic-definition\n" + "\n".join(vfiles) + "\n"
    cur = open(proj).read() if os.path.exists(proj) else ""
    if cur != want or not os.path.exists(mk):
        with open(proj, "w") as f:
            f.write(want)
        rc, out = sh(["coq_makefile", "-f", "_CoqProject", "-o", "Makefile"], cwd=COQ, timeout=120)
        if rc != 0:
            raise RuntimeError("coq_makefile failed: " + out)


def dep_closure(roots):
    """Transitive closure of `Require`d CV.* files starting from the given theories/...v paths."""
    seen, todo = set(), list(roots)
    while todo:
        rel = todo.pop()
        if rel in seen:
            continue
        path = os.path.join(COQ, rel)
        if not os.path.exists(path):
            continue
        seen.add(rel)
        src = open(path, errors="replace").read()
        for sent in re.split(r"\.(?:\s|$)", src):
            sent = sent.strip()
            m = re.search(r"(?:^|\n|\*\))\s*(?:From\s+(\S+)\s+)?Require\s+(?:Import\s+|Export\s+)?(.*)$", sent, re.S)
            if not m:
                continue
            prefix = m.group(1)
            for name in m.group(2).split():
                if prefix == "CV":
                    todo.append("theories/" + name.replace(".", "/") + ".v")
                elif prefix is None and name.startswith("CV."):
                    todo.append("theories/" + name[3:].replace(".", "/") + ".v")
    return seen


def strip_coq_comments(src):
    out, depth, i = [], 0, 0
    while i < len(src):
        if src.startswith("(*", i):
            depth += 1
            i += 2
        elif src.startswith("*)", i) and depth > 0:
            depth -= 1
            i += 2
        else:
            if depth == 0:
                out.append(src[i])
            elif src[i] == "\n":
                out.append("\n")
            i += 1
    return "".join(out)


def scan_forbidden(only=None):
    """Return list of (file, line, text) of forbidden tokens in the Coq development
    (restricted to the files in `only`, relative to coq/, when given)."""
    hits = []
    for v in glob.glob(os.path.join(COQ, "theories", "**", "*.v"), recursive=True):
        if "/Cases/" in v:
            continue
        if only is not None and os.path.relpath(v, COQ) not in only:
            continue
        src = open(v, errors="replace").read()
        # strip comments (non-nested approximation is unsafe; do nested)
        out, depth, i = [], 0, 0
        while i < len(src):
            if src.startswith("(*", i):
                depth += 1
                i += 2
            elif src.startswith("*)", i) and depth > 0:
                depth -= 1
                i += 2
            else:
                if depth == 0:
                    out.append(src[i])
                elif src[i] == "\n":
                    out.append("\n")
                i += 1
        for n, line in enumerate("".join(out).split("\n"), 1):
            if FORBIDDEN.search(line):
                hits.append((os.path.relpath(v, VERIF), n, line.strip()))
    return hits


class Ctx:
    def __init__(self, pid, tier, seed, replay=None):
        self.pid = pid
        self.tier = tier
        self.seed = seed
        self.replay = replay
        self.t0 = time.time()
        self.failures = []       # dicts: key, what, replay(obj), no_input(bool)
        self.known_seen = []
        self.cov = {}
        self.assumptions = []
        self.trusted = []
        self.level = "proof"
        self.l1 = None           # result of proof leg
        self.work = os.path.join(BUILD, "work" + ("_" + ALT_TAG if ALT else ""), pid)
        shutil.rmtree(self.work, ignore_errors=True)
        os.makedirs(self.work, exist_ok=True)
        self.notes = []
        self.nreplay = 0
        self.replay_dir = os.path.join(VERIF, "replays", pid) if not ALT else os.path.join(BUILD, "replays_" + ALT_TAG, pid)
        self.evidence_dir = os.path.join(VERIF, "evidence") if not ALT else os.path.join(BUILD, "evidence_" + ALT_TAG)
        shutil.rmtree(self.replay_dir, ignore_errors=True)

    # ---------------------------------------------------------------- logging
    def log(self, *a):
        print("[%s %6.1fs]" % (self.pid, time.time() - self.t0), *a, flush=True)

    # ---------------------------------------------------------------- proof leg
    def proof_leg(self, props_file=None, extra_targets=(), timeout=3000):
        """Re-check theories/Properties/<pid>.v (and its dependencies) with coqc and
        confirm with Print Assumptions that every Theorem in it is axiom-free (or uses only
        named stdlib axioms). Returns dict(ok, obligations, discharged, axioms, log)."""
        props_file = props_file or ("theories/Properties/%s.v" % self.pid)
        res = {"ok": False, "obligations": 0, "discharged": 0, "axioms": {}, "log": "", "theorems": []}
        roots = [props_file] + [t[:-1] for t in extra_targets if t.endswith(".vo")]
        closure = dep_closure(roots)
        hits = scan_forbidden(only=closure)
        if hits:
            res["log"] = "forbidden tokens in the Coq files this property depends on: %r" % (hits[:5],)
            self.l1 = res
            return res
        other = scan_forbidden()
        if other:
            self.notes.append("forbidden tokens in files this property does not depend on: %r" % (other[:5],))
        res["files"] = sorted(closure)
        targets = [props_file + "o"] + [t for t in extra_targets]
        # fast path without the lock: everything this property needs is already up to date
        rc, out = 1, ""
        if os.path.exists(os.path.join(COQ, "Makefile")):
            rc, out = sh(["make", "-q"] + targets, cwd=COQ, timeout=300)
            if rc == 0:
                out = "up to date (make -q)"
        if rc != 0:
            with Lock("coq"):
                ensure_coq_makefile()
                rc, out = sh(["make", "-j%d" % njobs()] + targets, cwd=COQ, timeout=timeout)
        res["log"] = out[-6000:]
        src = strip_coq_comments(open(os.path.join(COQ, props_file)).read())
        thms = re.findall(r"^\s*(?:Theorem|Lemma|Corollary)\s+([A-Za-z0-9_']+)", src, re.M)
        res["theorems"] = thms
        res["obligations"] = len(thms)
        if rc != 0:
            m = re.search(r'File "([^"]+)", line (\d+)', out)
            res["broken_at"] = (m.group(1) + ":" + m.group(2)) if m else "unknown"
            self.l1 = res
            return res
        # Print Assumptions for every theorem
        mod = "CV." + props_file[len("theories/"):-2].replace("/", ".")
        q = "Require Import %s.\n" % mod + "".join(
            'Print Assumptions %s.\n' % t for t in thms)
        # separate markers
        q = "Require Import %s.\n" % mod
        for t in thms:
            q += 'Goal True. idtac "@@THM %s". exact I. Qed.\nPrint Assumptions %s.\n' % (t, t)
        self.last_targets = targets
        rc2, out2 = self.coq_script("assumptions", q, timeout=600)
        if rc2 != 0 and "nconsistent assumptions" in out2:
            # stale .vo after a regenerated/shared file changed: full make under the lock, then retry once
            self.rebuild_targets()
            rc2, out2 = self.coq_script("assumptions", q, timeout=600)
        if rc2 != 0:
            res["log"] += "\nPrint Assumptions failed:\n" + out2[-3000:]
            self.l1 = res
            return res
        parts = re.split(r"@@THM (\S+)", out2)
        ok = True
        for i in range(1, len(parts), 2):
            name, body = parts[i], parts[i + 1]
            if "Closed under the global context" in body:
                res["discharged"] += 1
                res["axioms"][name] = []
            else:
                ax = re.findall(r"^([A-Za-z0-9_.']+)\s*:", body, re.M)
                res["axioms"][name] = ax
                if all(a.split(".")[-1] in STDLIB_AXIOMS or a in STDLIB_AXIOMS for a in ax) and ax:
                    res["discharged"] += 1
                else:
                    ok = False
        res["ok"] = ok and res["discharged"] == res["obligations"] and res["obligations"] > 0
        self.l1 = res
        return res

    def rebuild_targets(self):
        targets = getattr(self, "last_targets", None)
        if not targets:
            return
        with Lock("coq"):
            ensure_coq_makefile()
            sh(["make", "-j%d" % njobs()] + list(targets), cwd=COQ, timeout=3000)

    def coq_script(self, name, text, timeout=900):
        """Run a Coq script (Require Import CV....) with coqc; return (rc, output)."""
        d = os.path.join(self.work, "coq")
        os.makedirs(d, exist_ok=True)
        path = os.path.join(d, name + ".v")
        with open(path, "w") as f:
            f.write(text)
        return sh(["coqc", "-Q", os.path.join(COQ, "theories"), "CV", "-w", "-all", path],
                  cwd=d, timeout=timeout)

    def coq_cases(self, files, var="mism", timeout=1200, jobs=12):
        """Compile case files (each ends with `Print <var>.` of a list of Z/N/nat indices).
        Returns (mismatching_indices_per_file: dict file -> list[int], errors: dict file -> log)."""
        res, errs = {}, {}

        def one(path):
            rc, out = sh(["coqc", "-Q", os.path.join(COQ, "theories"), "CV", "-w", "-all", path],
                         cwd=os.path.dirname(path), timeout=timeout)
            return path, rc, out

        with ThreadPoolExecutor(max_workers=min(jobs, njobs())) as ex:
            results = list(ex.map(one, files))
        if any(rc != 0 and "nconsistent assumptions" in out for _, rc, out in results):
            # a library was rebuilt underneath us (shared file changed / Gen file regenerated): rebuild and retry once
            self.rebuild_targets()
            with ThreadPoolExecutor(max_workers=min(jobs, njobs())) as ex:
                results = list(ex.map(one, files))
        if True:
            for path, rc, out in results:
                if rc != 0:
                    errs[path] = out[-3000:]
                    continue
                m = re.search(re.escape(var) + r"\s*=\s*(.*?)\n\s*:\s", out, re.S)
                if not m:
                    errs[path] = "cannot parse output: " + out[-2000:]
                    continue
                res[path] = [int(x) for x in re.findall(r"-?\d+", m.group(1))]
        return res, errs

    # ---------------------------------------------------------------- harness
    def go_build(self, pkg, race=False, timeout=1500):
        os.makedirs(BIN, exist_ok=True)
        out_bin = os.path.join(BIN + ("_" + ALT_TAG if ALT else ""), pkg + ("_race" if race else ""))
        os.makedirs(os.path.dirname(out_bin), exist_ok=True)
        with Lock("go_" + pkg + ALT_TAG):
            modargs = []
            if ALT:
                modfile = os.path.join(BUILD, "go_%s.mod" % ALT_TAG)
                src = open(os.path.join(HARNESS, "go.mod")).read().replace("=> /repo", "=> " + REPO)
                with open(modfile, "w") as fh:
                    fh.write(src)
                shutil.copyfile(os.path.join(REPO, "go.sum"), modfile[:-4] + ".sum")
                modargs = ["-modfile=" + modfile]
            else:
                try:
                    want = open(os.path.join(REPO, "go.sum"), "rb").read()
                    dst = os.path.join(HARNESS, "go.sum")
                    if not os.path.exists(dst) or open(dst, "rb").read() != want:
                        tmp = dst + ".%d.tmp" % os.getpid()
                        with open(tmp, "wb") as fh:
                            fh.write(want)
                        os.replace(tmp, dst)
                except OSError:
                    pass
            cmd = ["go", "build", "-tags", "verif"] + modargs + (["-race"] if race else []) + ["-o", out_bin, "./" + pkg]
            rc, out = sh(cmd, cwd=HARNESS, timeout=timeout, env=go_env())
        if rc != 0:
            return None, out
        return out_bin, out

    def go_run(self, binpath, args, timeout=1200, stdin=None, env=None):
        e = go_env()
        if env:
            e.update(env)
        return sh([binpath] + [str(a) for a in args], cwd=self.work, timeout=timeout, env=e, stdin=stdin)

    # ---------------------------------------------------------------- results
    def failure(self, key, what, replay, no_input=False):
        """Record a property failure. key: canonical identification of the failing input class,
        matched against known_findings.json; replay: JSON-able object written to the replay file."""
        self.failures.append({"key": key, "what": what, "replay": replay, "no_input": no_input})

    def known_keys(self):
        kf_path = os.path.join(VERIF, "known_findings", self.pid + ".json")
        known = []
        if os.path.exists(kf_path):
            known = [k for k in json.load(open(kf_path)).get("findings", [])
                     if k.get("status") == "known"]
        return {k["key"]: k for k in known}

    def finish(self, level=None):
        level = level or self.level
        if level == "partial":
            # the evidence schema has no "partial" level: the claim is a proof whose theorem covers part of the
            # property; what is missing is spelled out in the assumptions and in MANIFEST level_note
            level = "proof"
            self.cov["partial"] = True
        known_keys = self.known_keys()
        viol = 0
        printed = set()
        rdir = self.replay_dir
        seen_keys = set()
        for f in self.failures:
            if f["key"] in seen_keys and f["key"] not in known_keys:
                continue   # one report per distinct failure key
            seen_keys.add(f["key"])
            if f["key"] in known_keys and not f["no_input"]:
                if f["key"] not in printed:
                    printed.add(f["key"])
                    print("KNOWN-FINDING: property=%s %s" % (self.pid, known_keys[f["key"]]["what"]), flush=True)
                continue
            viol += 1
            if viol > 20:
                continue
            os.makedirs(rdir, exist_ok=True)
            path = os.path.join(rdir, "replay_%d_%d.json" % (self.seed, viol))
            with open(path, "w") as fh:
                json.dump({"property": self.pid, "key": f["key"], "what": f["what"],
                           "tier": self.tier, "seed": self.seed, "replay": f["replay"]}, fh, indent=1, default=str)
            print("VIOLATION property=%s replay=%s%s" % (
                self.pid, path, " no-failing-input-found" if f["no_input"] else ""), flush=True)
            print("  what: %s" % f["what"][:600], flush=True)
        cov = dict(self.cov)
        l1 = self.l1 or {}
        cov.setdefault("obligations", l1.get("obligations", 0))
        cov.setdefault("discharged", l1.get("discharged", 0))
        cov.setdefault("checker_cmd", "make -C /verif/coq theories/Properties/%s.vo (coqc 8.16.1, full .vo) + Print Assumptions per theorem" % self.pid)
        cov.setdefault("trusted_base", [
            "Coq 8.16.1 kernel incl. vm_compute (no native_compute)",
            "axioms per theorem: " + json.dumps(l1.get("axioms", {})),
            "hand-written Coq model tied to /repo by the correspondence run of this check",
            "Go harness + python driver (generation, canonicalisation, diff)",
        ] + self.trusted)
        cov["theorems"] = l1.get("theorems", [])
        cov["known_findings_seen"] = sorted(printed)
        cov.setdefault("evaluations", 0)
        cov.setdefault("distinct_nontrivial", 0)
        cov.setdefault("rule", "")
        cov.setdefault("samples", [])
        ev = {
            "property_id": self.pid, "tier": self.tier, "seed": self.seed, "level": level,
            "coverage": cov, "assumptions": self.assumptions, "wall_s": round(time.time() - self.t0, 2),
            "violations": viol, "notes": self.notes,
        }
        os.makedirs(self.evidence_dir, exist_ok=True)
        with open(os.path.join(self.evidence_dir, self.pid + ".json"), "w") as fh:
            json.dump(ev, fh, indent=1, default=str)
        self.log("done: violations=%d known=%d obligations=%s/%s evaluations=%s" % (
            viol, len(printed), cov.get("discharged"), cov.get("obligations"), cov.get("evaluations")))
        return 1 if viol else 0

    # ---------------------------------------------------------------- common flow helpers
    def require_proofs(self, **kw):
        """Run the proof leg; if it does not check, record it (as no-input failure unless the
        caller later finds a concrete failing input)."""
        r = self.proof_leg(**kw)
        if r["ok"]:
            self.log("proof leg ok: %d/%d theorems, axioms=%s" % (
                r["discharged"], r["obligations"],
                sorted({a for v in r["axioms"].values() for a in v}) or "none"))
        else:
            self.log("proof leg BROKEN at %s" % r.get("broken_at", "?"))
            self.log(r["log"][-1500:])
        return r

    def settle_l1(self):
        """Call after the correspondence/search leg: if the proof leg was broken and no concrete
        failure has been recorded, record a no-failing-input-found failure."""
        r = self.l1
        if r is not None and not r["ok"]:
            known = self.known_keys()
            # a failure excused as a known finding is not a failing input for the broken proof leg
            if not any((not f["no_input"]) and f["key"] not in known for f in self.failures):
                self.failure("proof-leg", "Coq proof leg no longer checks: %s\n%s" % (
                    r.get("broken_at", ""), r["log"][-1200:]),
                    {"broken": r.get("broken_at", "theories/Properties/%s.v" % self.pid),
                     "theorems": r.get("theorems"), "axioms": r.get("axioms")}, no_input=True)


def lit_z(n):
    return "(%d)" % n if n < 0 else "%d" % n


def std_flow(ctx, pkg, args=(), mismatch_key=None, var="mism", run_timeout=1500, coq_timeout=1500,
             race=False, proof=True, env=None, coq_targets=()):
    """The standard three-leg flow used by most properties.
    1. proof leg (Properties/<pid>.v re-checked, Print Assumptions);
    2. build harness package `pkg` against /repo's working tree, run it: it writes summary.json
       (direct failures observed on the implementation against an independent oracle) and Coq
       case files (inputs + observed outputs) into the work directory;
    3. evaluate the case files with the Coq model (vm_compute); every index printed is a
       model/implementation disagreement.
    mismatch_key: function(desc_dict) -> key for known-findings matching."""
    if proof:
        ctx.require_proofs(extra_targets=["theories/" + t + ".vo" for t in coq_targets])
    binpath, out = ctx.go_build(pkg, race=race)
    if binpath is None:
        ctx.log("harness build failed:\n" + out[-3000:])
        ctx.failure("harness-build", "harness no longer builds against /repo: " + out[-1500:],
                    {"broken": "go build ./%s" % pkg, "log": out[-3000:]}, no_input=True)
        ctx.settle_l1()
        return None
    rc, out = ctx.go_run(binpath, ["-prop", ctx.pid, "-seed", ctx.seed, "-tier", ctx.tier, "-dir", ctx.work] + list(args),
                         timeout=run_timeout, env=env)
    spath = os.path.join(ctx.work, "summary.json")
    if rc != 0 or not os.path.exists(spath):
        ctx.log("harness run failed rc=%s:\n%s" % (rc, out[-3000:]))
        ctx.failure("harness-run", "harness run failed (rc=%s): %s" % (rc, out[-1500:]),
                    {"broken": "harness run", "log": out[-3000:]}, no_input=True)
        ctx.settle_l1()
        return None
    s = json.load(open(spath))
    for f in s.get("failures") or []:
        ctx.failure(f["key"], f["what"], f["replay"])
    files = s.get("case_files") or []
    nm = 0
    if files:
        res, errs = ctx.coq_cases(files, var=var, timeout=coq_timeout)
        for path, log in errs.items():
            ctx.failure("model-eval", "Coq evaluation of %s failed: %s" % (os.path.basename(path), log[-800:]),
                        {"broken": "correspondence evaluation " + path, "log": log[-2000:]}, no_input=True)
        for path, idxs in res.items():
            if not idxs:
                continue
            descs = [json.loads(l) for l in open(path[:-2] + ".jsonl")]
            for i in idxs:
                nm += 1
                d = descs[i] if i < len(descs) else {"index": i}
                key = mismatch_key(d) if mismatch_key else "model-mismatch"
                ctx.failure(key, "implementation and Coq model disagree on %s" % json.dumps(d)[:500],
                            {"case": d, "case_file": os.path.basename(path), "index": i,
                             "note": "observed = implementation; the Coq model (proved to meet the property) computes a different result"})
    ctx.cov.update({
        "evaluations": s.get("evaluations", 0),
        "distinct_nontrivial": s.get("distinct_nontrivial", 0),
        "rule": s.get("rule", ""),
        "samples": s.get("samples") or [],
        "distribution": s.get("distribution") or {},
        "coq_case_files": len(files),
        "model_mismatches": nm,
        "direct_failures": len(s.get("failures") or []),
    })
    if s.get("extra"):
        ctx.cov["extra"] = s["extra"]
    ctx.settle_l1()
    return s
