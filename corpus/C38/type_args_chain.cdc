let x = (a < b) > (c ? d : e)
