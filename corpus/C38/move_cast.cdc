let a = (<-x) as T
