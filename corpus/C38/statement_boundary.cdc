fun f() {
    a();
    -b()
}
