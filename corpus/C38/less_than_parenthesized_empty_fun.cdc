let x = a < (fun (): Int {
} < b)
