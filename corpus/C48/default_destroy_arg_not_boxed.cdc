// Finding (interpreter only): the default argument of a default destruction event is stored in the
// event unconverted; for a parameter of optional type the host receives an unboxed value
// (cadence.Int for declared type Int?), the VM delivers cadence.Optional.
// Run as a script in both engines and inspect the Go type of field `c`.
access(all) resource R {
    access(all) var x: Int
    access(all) event ResourceDestroyed(c: Int? = 5, d: Int? = self.x)
    init() { self.x = 1 }
}
access(all) fun main() { let r <- create R(); destroy r }
