resource interface R { event ResourceDestroyed(a: Int = 1)
 event Other(x: Int) }