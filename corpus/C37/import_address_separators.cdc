import 0x0_1
import Foo from 0xf8d6_e058_6b0a_20c7
import A, B from 0x0000_0001
