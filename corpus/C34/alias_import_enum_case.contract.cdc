access(all) contract K {
    access(all) enum En: UInt8 { access(all) case a; access(all) case b }
    access(all) struct St { access(all) let v: Int; init(_ v: Int) { self.v = v } }
    access(all) fun which(): Address { return self.account.address }
}
