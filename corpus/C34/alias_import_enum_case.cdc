import K from 0x1
import K as K2 from 0x2
access(all) fun main(): UInt8 {
    let s: K2.St = K2.St(3)
    log(s.v)
    log(K2.which())
    let x: K2.En = K2.En.a
    let y: K.En = K.En.b
    return x.rawValue + y.rawValue
}
