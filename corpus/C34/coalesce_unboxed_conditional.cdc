access(all) fun pB(_ k: Int, _ v: Bool): Bool { log(k); return v }
access(all) fun pI(_ k: Int, _ v: Int8): Int8 { log(k); return v }
access(all) fun main(): Int8 {
    let five: Int8 = 5
    let x: Int8 = (pB(1, true) ? five : nil) ?? pI(2, 3)
    return x
}
