// Optional-chained call of a function-typed FIELD: `getS(true)?.fn(arg())`.
access(all) struct S {
    access(all) let fn: fun(Int): Int
    init() {
        self.fn = fun (x: Int): Int {
            log("fn")
            return x + 1
        }
    }
}

access(all) fun getS(_ some: Bool): S? {
    log("getS")
    if some {
        return S()
    }
    return nil
}

access(all) fun arg(): Int {
    log("arg")
    return 41
}

access(all) fun main(): [Int?] {
    let a = getS(true)?.fn(arg())
    let b = getS(false)?.fn(arg())
    return [a, b]
}
