access(all) resource R { access(all) var n: Int; init(_ n: Int) { self.n = n } }
access(all) resource Holder {
    access(all) var rs: @[R]
    init() { self.rs <- [<- create R(1), <- create R(2)] }
}
access(all) fun main(): Int {
    let h <- create Holder()
    h.rs[0] <-> h.rs[1]
    let n = h.rs[0].n
    destroy h
    return n
}
