access(all) struct S0 {
    access(all) var a: Int8
    access(all) var b: [Int8]
    access(all) var c: Int8?
    init(a: Int8, b: [Int8], c: Int8?) { self.a = a; self.b = b; self.c = c; }
}
access(all) fun pB(_ k: Int, _ v: Bool): Bool { log(k); return v }
access(all) fun main(): Int8? {
    let s: S0 = S0(a: 4, b: [1], c: nil)
    let x: Int8? = (pB(1, true) ? s : nil)?.a
    return x
}
