fun main() {
    let a = [
        1,

        // note
        2
    ]
}
