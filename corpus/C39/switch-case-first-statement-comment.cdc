fun f(x: Int) {
    switch x {
    case 1:
        // note
        let a = 1
    default:
        let b = 2
    }
}
