fun f() {
    let r = -(aaaaaaaaaaaaaaaaaaaaaaaaaaaaaaaaaaaaaaaaaaaaaaaaaaaaaaaaaaaa + bbbbbbbbbbbbbbbbbbbbbbbbbbbbbbbbbbbbbbbbbbbbbbbbbbbbbbbbbbbbbbbbbbbbbbbbbb)
    // trailing

    let x = 1
}
