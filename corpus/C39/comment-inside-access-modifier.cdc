access/** doc */ (all) // eol
/* lead */ entitlement G /* trail */
