fun f() {
    if a {
        b()
    } else // note
    {
        c()
    }
}
