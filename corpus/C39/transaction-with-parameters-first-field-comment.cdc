transaction(a: Int) {
    
    /* note */
    let x: Int
    execute {
        let y = a
    }
}
