fun p(
    a: Int,
    b: String

    // note
) {
}
