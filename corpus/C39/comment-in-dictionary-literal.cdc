fun main() {
    let d = {
        "a": 1,

        // note
        "b": 2
    }
}
