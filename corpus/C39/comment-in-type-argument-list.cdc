fun main() {
    let t = g<
        Int,
        String

        // note
    >(1)
}
