attachment A for S {
    // note
    var x: Int
}
