let y = -self // note
.y
