/* first paragraph



   second paragraph */
access(all) let a = 1
