fun f(x: Int) {
    switch x {
    case 1:
        a()

        /* note */

    case 2:
        b()
    default:
        c()
    }
}
