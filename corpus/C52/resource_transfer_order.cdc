// Engine-only case (no model term): evaluation order of resource-moving statements whose
// sub-expressions are all traced calls: second-value transfer, force-assignment, swap of resource
// slots, and compound targets through references.
access(all) resource R {
    access(all) let id: Int
    init(id: Int) { self.id = id }
}

access(all) resource Box {
    access(all) var slots: @[R?]
    access(all) var one: @R?
    init() {
        self.slots <- [<- create R(id: 1), <- create R(id: 2), nil]
        self.one <- nil
    }
    access(all) fun run(_ boxes: &[Box]): [Int] {
        let out: [Int] = []
        // second-value transfer: target, key, then the new value
        let old <- self.slots[k("key-a", 0)] <- mk("val-a", 10)
        out.append(old?.id ?? -1)
        destroy old
        // force-assignment into an empty slot: target key before value
        self.slots[k("key-b", 2)] <-! mk("val-b", 11)
        // force-assignment into a field
        self.one <-! mk("val-c", 12)
        // swap of slots of two local arrays and of a local array with a field (two slots of one
        // resource-array FIELD fail in both engines: corpus/C34/swap_resource_field_slots)
        var xs: @[R?] <- [<- mk("x0", 20), nil]
        var ys: @[R?] <- [nil, <- mk("y1", 21)]
        xs[k("key-d", 0)] <-> ys[k("key-e", 0)]
        xs[k("key-f", 1)] <-> self.one
        self.one <-> ys[k("key-g", 1)]
        out.append(xs[0]?.id ?? -1)
        out.append(xs[1]?.id ?? -1)
        out.append(ys[0]?.id ?? -1)
        out.append(ys[1]?.id ?? -1)
        destroy xs
        destroy ys
        var i = 0
        while i < 3 {
            out.append(self.slots[i]?.id ?? -1)
            i = i + 1
        }
        out.append(self.one?.id ?? -1)
        return out
    }
}

access(all) struct S {
    access(all) var g: [Int]
    init() { self.g = [1, 2, 3] }
    access(all) fun setAt(_ i: Int, _ v: Int) { self.g[i] = v }
}

access(all) fun k(_ tag: String, _ i: Int): Int {
    log(tag)
    return i
}

access(all) fun mk(_ tag: String, _ id: Int): @R {
    log(tag)
    return <- create R(id: id)
}

access(all) fun main(): [Int] {
    let b <- create Box()
    let boxes: @[Box] <- []
    let res = b.run(&boxes as &[Box])
    destroy b
    destroy boxes
    let xs: [Int] = [1, 2, 3]
    let ys: [Int] = [4, 5, 6]
    let rx = &xs as auth(Mutate) &[Int]
    let ry = &ys as auth(Mutate) &[Int]
    // call-rooted targets `f().g[h()] = v` are rejected by the checker (only variables, elements and
    // fields are assignable); the nearest accepted form goes through an array of references
    let refs = [rx, ry]
    refs[k("tgt-h", 0)][k("key-h", 1)] = k("val-h", 20)
    refs[k("tgt-i", 0)][k("key-i", 0)] <-> refs[k("tgt-j", 1)][k("key-j", 2)]
    res.appendAll(xs)
    res.appendAll(ys)
    return res
}
