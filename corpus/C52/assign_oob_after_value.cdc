access(all) fun pI(_ k: Int, _ v: Int8): Int8 { log(k); return v }
access(all) fun main(): Int8 {
    var a: [Int8] = [1, 2, 3]
    a[pI(1, 5)] = pI(2, 9)
    return pI(3, 0)
}
