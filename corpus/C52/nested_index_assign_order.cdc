access(all) fun pI(_ k: Int, _ v: Int8): Int8 { log(k); return v }
access(all) fun pAI(_ k: Int, _ v: [Int8]): [Int8] { log(k); return v }
access(all) fun main(): [[Int8]] {
    var aa: [[Int8]] = [[1, 2], [3, 4]]
    aa[pI(1, 1)][pI(2, 0)] = pI(3, 9)
    aa[pI(4, 0)] = pAI(5, [7])
    aa[pI(6, 0)][pI(7, 0)] <-> aa[pI(8, 1)][pI(9, 1)]
    return aa
}
