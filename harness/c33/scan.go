package main

import (
	"bytes"
	"fmt"
	"go/ast"
	"go/printer"
	"go/token"
	"go/types"
	"path/filepath"
	"sort"
	"strings"

	"golang.org/x/tools/go/packages"
)

// scanMapRanges lists every `for ... range m` over a map-typed expression in the non-test code of the
// packages that take part in execution (same criterion as the repo's own tools/maprange analyzer:
// the type of the range expression is a map), with the enclosing function and whether the statement
// carries the repo's `//nolint:maprange` annotation. Positions are reported without line numbers so that
// unrelated edits do not change the list.
func scanMapRanges(repo string) (annotated, unannotated []string, err error) {
	cfg := &packages.Config{
		Mode:  packages.NeedName | packages.NeedFiles | packages.NeedSyntax | packages.NeedTypes | packages.NeedTypesInfo | packages.NeedCompiledGoFiles,
		Dir:   repo,
		Tests: false,
	}
	pkgs, err := packages.Load(cfg, "./interpreter/...", "./runtime/...", "./sema/...", "./bbq/...", "./stdlib/...",
		"./common/...", "./encoding/...", "./values/...", "./activations/...", "./errors/...")
	if err != nil {
		return nil, nil, err
	}
	for _, p := range pkgs {
		if len(p.Errors) > 0 {
			return nil, nil, fmt.Errorf("package %s: %v", p.PkgPath, p.Errors[0])
		}
		if strings.Contains(p.PkgPath, "/test") || strings.HasSuffix(p.PkgPath, "_utils") || strings.Contains(p.PkgPath, "/cmd") {
			continue
		}
		for _, f := range p.Syntax {
			fname := p.Fset.Position(f.Pos()).Filename
			rel, _ := filepath.Rel(repo, fname)
			// comment lines holding the annotation
			nolint := map[int]bool{}
			for _, cg := range f.Comments {
				for _, c := range cg.List {
					if strings.Contains(c.Text, "nolint:maprange") {
						nolint[p.Fset.Position(c.Pos()).Line] = true
					}
				}
			}
			for _, d := range f.Decls {
				fd, ok := d.(*ast.FuncDecl)
				name := "<init>"
				if ok {
					name = fd.Name.Name
					if fd.Recv != nil && len(fd.Recv.List) > 0 {
						name = exprString(p.Fset, fd.Recv.List[0].Type) + "." + name
					}
				}
				ast.Inspect(d, func(n ast.Node) bool {
					rs, ok := n.(*ast.RangeStmt)
					if !ok {
						return true
					}
					t := p.TypesInfo.TypeOf(rs.X)
					if t == nil {
						return true
					}
					if _, isMap := t.Underlying().(*types.Map); !isMap {
						return true
					}
					line := p.Fset.Position(rs.For).Line
					entry := fmt.Sprintf("%s %s range %s", filepath.ToSlash(rel), name, exprString(p.Fset, rs.X))
					if nolint[line] || nolint[line-1] {
						annotated = append(annotated, entry)
					} else {
						unannotated = append(unannotated, entry)
					}
					return true
				})
			}
		}
	}
	sort.Strings(annotated)
	sort.Strings(unannotated)
	return
}

func exprString(fset *token.FileSet, e ast.Expr) string {
	var b bytes.Buffer
	_ = printer.Fprint(&b, fset, e)
	return strings.Join(strings.Fields(b.String()), " ")
}
