// Command c33: observation + correspondence harness for C33 "Execution outcomes are deterministic".
//
// Every generated history (storage-heavy transactions and scripts: many accounts and paths, dictionary
// mutation and iteration, resources, events, logs, capabilities, several contract deployments in one
// transaction, failing programs) is executed repeatedly: several times in this process on fresh hosts, and in
// fresh OS processes (this binary re-invoking itself with -child) under different GOMAXPROCS values and CPU
// affinities (taskset). The complete observable trace of a run - every ledger SetValue (owner, key, value
// bytes) and slab-index allocation in order, every event payload (JSON-CDC and CCF bytes), every log line,
// script results and error messages - must be byte-identical across all runs. The register-write sequence of
// each committed transaction is also written as a Coq case and compared with the model's commit order.
// A source-level scan lists the range statements over maps (the repo's own maprange criterion).
package main

import (
	"bytes"
	"crypto/sha256"
	"encoding/binary"
	"encoding/hex"
	"encoding/json"
	"flag"
	"fmt"
	"os"
	"os/exec"
	"path/filepath"
	"sort"
	"strings"

	"cvh/lib"

	"github.com/onflow/atree"

	"github.com/onflow/cadence"
	"github.com/onflow/cadence/common"
	"github.com/onflow/cadence/encoding/ccf"
	jsoncdc "github.com/onflow/cadence/encoding/json"
	"github.com/onflow/cadence/interpreter"
	"github.com/onflow/cadence/runtime"
	ru "github.com/onflow/cadence/test_utils/runtime_utils"
)

var (
	prop     = flag.String("prop", "C33", "property id")
	seed     = flag.Uint64("seed", 1, "seed")
	tier     = flag.String("tier", "quick", "quick|thorough")
	dir      = flag.String("dir", ".", "output directory")
	child    = flag.String("child", "", "child mode: run all histories once and write the traces to this file")
	repoPath = flag.String("repo", "/repo", "source tree for the map-range scan")
	corpus   = flag.String("corpus", "", "corpus directory (maprange_expected.txt, histories)")
	cache    = flag.String("cache", "", "cache file for the source scan (keyed by a hash of the sources)")
	noscan   = flag.Bool("noscan", false, "skip the source scan")
)

func addrOf(i int) common.Address { return common.MustBytesToAddress([]byte{byte(i)}) }

// runHistory executes a history on a fresh host and returns the full observable trace, plus the register
// writes per committed transaction (for the Coq cases).
var txSteps = map[string][]int{} // history name -> step index of every committed transaction (last run)

func runHistory(h History) (trace []string, txWrites [][]string) {
	var committedSteps []int
	defer func() { txSteps[h.Name] = committedSteps }()
	host := lib.NewHost()
	var cur []string
	add := func(f string, a ...any) { trace = append(trace, fmt.Sprintf(f, a...)) }
	ledger := ru.NewTestLedger(nil, func(owner, key, value []byte) {
		add("W %x %x %x", owner, key, value)
		cur = append(cur, fmt.Sprintf("%x|%x", owner, key))
	})
	alloc := ledger.OnAllocateSlabIndex
	ledger.OnAllocateSlabIndex = func(owner []byte) (atree.SlabIndex, error) {
		i, err := alloc(owner)
		add("A %x %x", owner, i[:])
		return i, err
	}
	host.Ledger = ledger
	host.Iface.Storage = ledger
	host.Iface.OnProgramLog = func(s string) { add("L %s", s) }
	host.Iface.OnEmitEvent = func(e cadence.Event) error {
		j, err := jsoncdc.Encode(e)
		if err != nil {
			add("E json-error %v", err)
		} else {
			add("E json %s", j)
		}
		c, err := ccf.Encode(e)
		if err != nil {
			add("E ccf-error %v", err)
		} else {
			add("E ccf %x", c)
		}
		return nil
	}
	host.Iface.OnGetStorageUsed = func(a runtime.Address) (uint64, error) {
		var n uint64
		prefix := string(a[:]) + "|"
		for k, v := range ledger.StoredValues { // a sum: independent of the iteration order
			if strings.HasPrefix(k, prefix) {
				n += uint64(len(v))
			}
		}
		return n, nil
	}
	host.RT = runtime.NewRuntime(runtime.Config{})
	signers := []common.Address{addrOf(1), addrOf(2), addrOf(3), addrOf(4)}

	add("STEP deploy E")
	o := host.Deploy(addrOf(1), "E", contractE, h.VM)
	add("X %s", errText(o))
	cur = nil
	for i, s := range h.Steps {
		add("STEP %d %s", i, s.Kind)
		cur = nil
		codes := map[common.AddressLocation][]byte{}
		for k, v := range host.Codes {
			codes[k] = v
		}
		var out lib.Outcome
		if s.Kind == "script" {
			out = host.RunScript(s.Src, nil, h.VM)
			if out.Err == nil && out.Panic == nil {
				add("R %s", lib.ValueString(out.Value))
				if j, err := jsoncdc.Encode(out.Value); err == nil {
					add("R json %s", j)
				}
				if c, err := ccf.Encode(out.Value); err == nil {
					add("R ccf %x", c)
				}
			}
		} else {
			out = host.RunTx(s.Src, nil, signers, h.VM)
			host.Iface.Programs = nil
		}
		add("X %s", errText(out))
		if out.Err != nil || out.Panic != nil {
			for k := range host.Codes {
				delete(host.Codes, k)
			}
			for k, v := range codes {
				host.Codes[k] = v
			}
		} else if s.Kind == "tx" {
			txWrites = append(txWrites, cur)
			committedSteps = append(committedSteps, i)
		}
	}
	return
}

func errText(o lib.Outcome) string {
	if o.Panic != nil {
		return fmt.Sprintf("PANIC %v", o.Panic)
	}
	if o.Err != nil {
		s := o.Err.Error()
		// internal errors carry a Go stack trace (goroutine ids, addresses): not part of the program's outcome
		if i := strings.Index(s, "\ngoroutine "); i >= 0 {
			s = s[:i] + " <go stack omitted>"
		}
		return "ERR " + s
	}
	return "ok"
}

func traceHash(t []string) string {
	h := sha256.New()
	for _, l := range t {
		h.Write([]byte(l))
		h.Write([]byte{'\n'})
	}
	return hex.EncodeToString(h.Sum(nil))
}

// firstDiff describes the first position where two traces differ.
func firstDiff(a, b []string) (int, string, string) {
	for i := 0; i < len(a) || i < len(b); i++ {
		var x, y string
		if i < len(a) {
			x = a[i]
		} else {
			x = "<end of trace>"
		}
		if i < len(b) {
			y = b[i]
		} else {
			y = "<end of trace>"
		}
		if x != y {
			return i, x, y
		}
	}
	return -1, "", ""
}

func clip(s string) string {
	if len(s) > 400 {
		return s[:400] + "..."
	}
	return s
}

// stepOf returns the last "STEP" line at or before position i.
func stepOf(t []string, i int) string {
	for j := i; j >= 0; j-- {
		if j < len(t) && strings.HasPrefix(t[j], "STEP") {
			return t[j]
		}
	}
	return ""
}

type childCfg struct {
	Procs int    // GOMAXPROCS
	CPUs  string // taskset -c list ("" = no affinity change)
}

func runChild(cfg childCfg, outFile string) (map[string][]string, error) {
	self, err := os.Executable()
	if err != nil {
		return nil, err
	}
	args := []string{"-child", outFile, "-seed", fmt.Sprint(*seed), "-tier", *tier, "-noscan"}
	var cmd *exec.Cmd
	if cfg.CPUs != "" {
		if ts, err := exec.LookPath("taskset"); err == nil {
			cmd = exec.Command(ts, append([]string{"-c", cfg.CPUs, self}, args...)...)
		}
	}
	if cmd == nil {
		cmd = exec.Command(self, args...)
	}
	cmd.Env = append(os.Environ(), fmt.Sprintf("GOMAXPROCS=%d", cfg.Procs))
	var stderr bytes.Buffer
	cmd.Stderr = &stderr
	if err := cmd.Run(); err != nil {
		return nil, fmt.Errorf("child %+v: %v: %s", cfg, err, stderr.String())
	}
	b, err := os.ReadFile(outFile)
	if err != nil {
		return nil, err
	}
	var m map[string][]string
	if err := json.Unmarshal(b, &m); err != nil {
		return nil, err
	}
	os.Remove(outFile)
	return m, nil
}

// writeCase renders the register writes of one committed transaction as (kind, address, index) triples.
func writeCase(ws []string) string {
	var parts []string
	for _, w := range ws {
		i := strings.Index(w, "|")
		owner, _ := hex.DecodeString(w[:i])
		key, _ := hex.DecodeString(w[i+1:])
		var ob [8]byte
		copy(ob[8-len(owner):], owner)
		addr := binary.BigEndian.Uint64(ob[:])
		kind, idx := 2, uint64(0)
		switch {
		case string(key) == runtime.AccountStorageKey:
			kind = 0
		case len(key) == 9 && key[0] == '$':
			kind = 1
			idx = binary.BigEndian.Uint64(key[1:])
		}
		parts = append(parts, fmt.Sprintf("(%d,%d,%d)", kind, addr, idx))
	}
	return "[" + strings.Join(parts, ";") + "]"
}

func main() {
	flag.Parse()
	if *prop != "C33" {
		fmt.Fprintln(os.Stderr, "unknown prop", *prop)
		os.Exit(2)
	}
	hs := genHistories(*seed, *tier)
	if *child != "" {
		out := map[string][]string{}
		for _, h := range hs {
			t, _ := runHistory(h)
			out[h.Name] = t
		}
		b, _ := json.Marshal(out)
		if err := os.WriteFile(*child, b, 0o644); err != nil {
			fmt.Fprintln(os.Stderr, err)
			os.Exit(1)
		}
		return
	}

	sum := &lib.Summary{Extra: map[string]any{}}
	sum.Rule = "one evaluation = one complete execution of a history (deploy + 4..12 transactions/scripts; 4 signer accounts; dictionary " +
		"mutation and iteration, resources, events, logs, capabilities, multi-contract deployments, failing programs) producing a full " +
		"observable trace (ledger writes with value bytes and slab-index allocations in order, event payloads in JSON-CDC and CCF, logs, " +
		"script results, error messages). Each history is executed 3 times in this process and once in each fresh OS process " +
		"(GOMAXPROCS / taskset configurations listed in `extra`); all traces must be byte-identical. A history is non-trivial when at " +
		"least one committed transaction wrote 4 or more registers (so an unsorted commit is visible); distinct = distinct histories."

	// source scan in the background
	type scanRes struct {
		ann, unann []string
		err        error
		cached     bool
	}
	scanCh := make(chan scanRes, 1)
	if !*noscan {
		go func() {
			a, u, c, err := cachedScan(*repoPath, *cache)
			scanCh <- scanRes{a, u, err, c}
		}()
	}

	// the prefix experiment (prefix.go) runs concurrently: its shards share nothing with each other or with the
	// history runs below (own worlds, runtimes, environments, summaries)
	type shard struct {
		vm bool
		n  int
	}
	prefixShards := []shard{{false, 0}, {false, 1}, {true, 0}, {true, 1}}
	prefixCh := make(chan *lib.Summary, len(prefixShards))
	for _, sh := range prefixShards {
		go func(sh shard) {
			ps := &lib.Summary{}
			defer func() {
				if r := recover(); r != nil {
					ps.Fail("go-panic", fmt.Sprintf("Go panic in the prefix experiment (vm=%v): %v", sh.vm, r), map[string]any{"vm": sh.vm})
				}
				prefixCh <- ps
			}()
			prefixExperiment(ps, *seed*4+uint64(sh.n), *tier, sh.vm)
		}(sh)
	}

	cw := &lib.CaseWriter{
		Dir: *dir, Prefix: "cases_C33",
		Header:   "From CV Require Import C33.Cases.",
		ElemType: "Z * list (Z * Z * Z)",
		CheckFn:  "check_tx_writes",
		PerFile:  400,
	}

	// in-process repetition
	base := map[string][]string{}
	for _, h := range hs {
		t0, w0 := runHistory(h)
		sum.Evaluations++
		base[h.Name] = t0
		// reading storage.used commits temporarily (CommitStorageTemporarily): number of such reads per committed transaction
		var tempCommits []int
		for _, si := range txSteps[h.Name] {
			tempCommits = append(tempCommits, strings.Count(h.Steps[si].Src, "storage.used"))
		}
		nontrivial := false
		for k, ws := range w0 {
			if len(ws) >= 4 {
				nontrivial = true
			}
			if len(ws) > 0 {
				cw.Add(fmt.Sprintf("(%d, %s)", tempCommits[k], writeCase(ws)), map[string]any{"temporary_commits": tempCommits[k], "history": h.Name, "vm": h.VM, "committed_tx_number": k, "writes": ws,
					"steps": h.Steps})
			}
			sum.Count(fmt.Sprintf("registers written per committed tx %s", bucket(len(ws))))
		}
		if nontrivial {
			sum.DistinctNontrivial++
		}
		for _, l := range t0 {
			switch {
			case strings.HasPrefix(l, "X ERR"):
				sum.Count("step failed")
			case l == "X ok":
				sum.Count("step ok")
			case strings.HasPrefix(l, "X PANIC"):
				sum.Fail("go-panic", "Go panic escaped the runtime in "+h.Name+": "+clip(l), map[string]any{"history": h})
			case strings.HasPrefix(l, "E json"):
				sum.Count("events")
			case strings.HasPrefix(l, "L "):
				sum.Count("log lines")
			case strings.HasPrefix(l, "W "):
				sum.Count("register writes")
			}
		}
		for rep := 1; rep <= 2; rep++ {
			t, _ := runHistory(h)
			sum.Evaluations++
			if i, x, y := firstDiff(t0, t); i >= 0 {
				sum.Fail("nondeterministic:"+diffKind(x, y), fmt.Sprintf("history %s (vm=%v): run %d in the same process differs from run 0 at trace line %d (%s): %s  VS  %s",
					h.Name, h.VM, rep, i, stepOf(t0, i), clip(x), clip(y)),
					map[string]any{"history": h, "trace_line": i, "step": stepOf(t0, i), "run0": clip(x), "other_run": clip(y), "mode": "same process, fresh host"})
				break
			}
		}
		sum.Sample(map[string]any{"history": h.Name, "vm": h.VM, "steps": len(h.Steps), "trace_lines": len(t0), "trace_sha256": traceHash(t0), "first_step": h.Steps[0].Src})
	}
	cw.Close()
	sum.CaseFiles = cw.Files

	// fresh processes
	cfgs := []childCfg{{1, "0"}, {2, "0-1"}, {16, ""}, {4, "1-3"}}
	if *tier == "thorough" {
		cfgs = append(cfgs, childCfg{1, ""}, childCfg{3, "0-2"}, childCfg{16, "0-15"}, childCfg{8, "0,2,4,6,8,10,12,14"}, childCfg{2, "5"}, childCfg{16, ""})
	}
	var cfgNames []string
	for ci, cfg := range cfgs {
		name := fmt.Sprintf("GOMAXPROCS=%d taskset=%q", cfg.Procs, cfg.CPUs)
		cfgNames = append(cfgNames, name)
		m, err := runChild(cfg, filepath.Join(*dir, fmt.Sprintf("child_%d.json", ci)))
		if err != nil && cfg.CPUs != "" {
			// the CPU set may not exist on this machine: same run without affinity
			sum.Count("taskset configuration not applicable")
			m, err = runChild(childCfg{cfg.Procs, ""}, filepath.Join(*dir, fmt.Sprintf("child_%d.json", ci)))
		}
		if err != nil {
			sum.Fail("child-process", "fresh-process run failed: "+clip(err.Error()), map[string]any{"config": name})
			continue
		}
		for _, h := range hs {
			sum.Evaluations++
			t := m[h.Name]
			if i, x, y := firstDiff(base[h.Name], t); i >= 0 {
				sum.Fail("nondeterministic:"+diffKind(x, y), fmt.Sprintf("history %s (vm=%v): a fresh process with %s differs from the parent run at trace line %d (%s): %s  VS  %s",
					h.Name, h.VM, name, i, stepOf(base[h.Name], i), clip(x), clip(y)),
					map[string]any{"history": h, "trace_line": i, "step": stepOf(base[h.Name], i), "parent": clip(x), "child": clip(y), "mode": name})
			}
		}
	}
	sum.Extra["process_configs"] = cfgNames
	_, tsErr := exec.LookPath("taskset")
	sum.Extra["taskset_available"] = tsErr == nil

	// outcome independent of what the runtime / a reused Environment executed before (started earlier, see above)
	for range prefixShards {
		ps := <-prefixCh
		sum.Evaluations += ps.Evaluations
		for k, v := range ps.Distribution {
			for i := 0; i < v; i++ {
				sum.Count(k)
			}
		}
		for _, f := range ps.Failures {
			sum.Fail(f.Key, f.What, f.Replay)
		}
	}

	// runtime.SortContractUpdates: the result does not depend on the input order
	checkSortContractUpdates(sum, lib.NewRng(*seed))

	// source-level tie
	if !*noscan {
		sr := <-scanCh
		if sr.err != nil {
			sum.Fail("maprange-scan", "cannot scan the source tree for map ranges: "+clip(sr.err.Error()), map[string]any{"repo": *repoPath})
		} else {
			expA, expU := readExpected(filepath.Join(*corpus, "maprange_expected.txt"))
			newU := minus(sr.unann, expU)
			newA := minus(sr.ann, expA)
			sum.Extra["maprange_annotated"] = len(sr.ann)
			sum.Extra["maprange_unannotated"] = len(sr.unann)
			sum.Extra["maprange_scan_cached"] = sr.cached
			sum.Extra["maprange_new_unannotated"] = newU
			sum.Extra["maprange_new_annotated"] = newA
			sum.Extra["maprange_gone"] = append(minus(expA, sr.ann), minus(expU, sr.unann)...)
		}
	}
	sum.Write(*dir)
}

func diffKind(x, y string) string {
	k := func(s string) string {
		if len(s) > 0 {
			return s[:1]
		}
		return "?"
	}
	a, b := k(x), k(y)
	if a != b {
		return "trace-shape"
	}
	switch a {
	case "W":
		return "register-write"
	case "A":
		return "slab-index-allocation"
	case "E":
		return "event"
	case "L":
		return "log"
	case "R":
		return "script-result"
	case "X":
		return "error"
	}
	return "trace-shape"
}

func bucket(n int) string {
	switch {
	case n == 0:
		return "0"
	case n <= 3:
		return "1-3"
	case n <= 10:
		return "4-10"
	}
	return ">10"
}

func minus(a, b []string) []string {
	cnt := map[string]int{}
	for _, x := range b {
		cnt[x]++
	}
	out := []string{}
	for _, x := range a {
		if cnt[x] > 0 {
			cnt[x]--
			continue
		}
		out = append(out, x)
	}
	return out
}

func readExpected(path string) (ann, unann []string) {
	b, err := os.ReadFile(path)
	if err != nil {
		return nil, nil
	}
	for _, l := range strings.Split(string(b), "\n") {
		switch {
		case strings.HasPrefix(l, "A "):
			ann = append(ann, l[2:])
		case strings.HasPrefix(l, "U "):
			unann = append(unann, l[2:])
		}
	}
	return
}

// cachedScan runs the typed source scan unless the cache holds the result for exactly these sources.
func cachedScan(repo, cacheFile string) (ann, unann []string, cached bool, err error) {
	key := sourceHash(repo)
	type entry struct {
		Key        string
		Ann, Unann []string
	}
	if cacheFile != "" {
		if b, e := os.ReadFile(cacheFile); e == nil {
			var c entry
			if json.Unmarshal(b, &c) == nil && c.Key == key && key != "" {
				return c.Ann, c.Unann, true, nil
			}
		}
	}
	ann, unann, err = scanMapRanges(repo)
	if err == nil && cacheFile != "" && key != "" {
		b, _ := json.Marshal(entry{key, ann, unann})
		_ = os.WriteFile(cacheFile, b, 0o644)
	}
	return ann, unann, false, err
}

func sourceHash(repo string) string {
	h := sha256.New()
	var files []string
	for _, d := range []string{"interpreter", "runtime", "sema", "bbq", "stdlib", "common", "encoding", "values", "activations", "errors"} {
		_ = filepath.Walk(filepath.Join(repo, d), func(p string, info os.FileInfo, err error) error {
			if err == nil && !info.IsDir() && strings.HasSuffix(p, ".go") && !strings.HasSuffix(p, "_test.go") {
				files = append(files, p)
			}
			return nil
		})
	}
	sort.Strings(files)
	for _, f := range files {
		b, err := os.ReadFile(f)
		if err != nil {
			return ""
		}
		fmt.Fprintf(h, "%s %d\n", f, len(b))
		h.Write(b)
	}
	for _, f := range []string{"go.mod"} {
		b, _ := os.ReadFile(filepath.Join(repo, f))
		h.Write(b)
	}
	return hex.EncodeToString(h.Sum(nil))
}

// checkSortContractUpdates: runtime.SortContractUpdates on shuffled inputs gives one order, sorted by (address, name).
func checkSortContractUpdates(sum *lib.Summary, r *lib.Rng) {
	for round := 0; round < 200; round++ {
		n := 2 + r.Intn(8)
		var base []runtime.ContractUpdate
		seen := map[string]bool{}
		for len(base) < n {
			a := addrOf(1 + r.Intn(5))
			w := lib.Pick(r, words)
			name := w[:1+r.Intn(len(w))]
			if seen[a.String()+name] {
				continue
			}
			seen[a.String()+name] = true
			base = append(base, runtime.ContractUpdate{Key: interpreter.StorageKey{Address: a, Key: name}})
		}
		render := func(us []runtime.ContractUpdate) string {
			var parts []string
			for _, u := range us {
				parts = append(parts, u.Key.Address.String()+"."+u.Key.Key)
			}
			return strings.Join(parts, " ")
		}
		first := ""
		for k := 0; k < 4; k++ {
			us := append([]runtime.ContractUpdate{}, base...)
			for i := len(us) - 1; i > 0; i-- {
				j := r.Intn(i + 1)
				us[i], us[j] = us[j], us[i]
			}
			runtime.SortContractUpdates(us)
			sum.Count("SortContractUpdates calls on shuffled input")
			s := render(us)
			ok := sort.SliceIsSorted(us, func(i, j int) bool {
				c := bytes.Compare(us[i].Key.Address[:], us[j].Key.Address[:])
				if c != 0 {
					return c < 0
				}
				return us[i].Key.Key < us[j].Key.Key
			})
			if first == "" {
				first = s
			}
			if s != first || !ok {
				sum.Fail("sort-contract-updates", fmt.Sprintf("runtime.SortContractUpdates depends on the input order or is not sorted by (address, name): %s vs %s", first, s),
					map[string]any{"first": first, "other": s})
				return
			}
		}
	}
}
