package main

import (
	"fmt"
	"sort"
	"strings"

	"cvh/lib"

	"github.com/onflow/atree"

	"github.com/onflow/cadence"
	"github.com/onflow/cadence/common"
	"github.com/onflow/cadence/encoding/ccf"
	jsoncdc "github.com/onflow/cadence/encoding/json"
	"github.com/onflow/cadence/runtime"
	"github.com/onflow/cadence/sema"
	ru "github.com/onflow/cadence/test_utils/runtime_utils"
)

// The prefix experiment: "executing the same script or transaction on the same ledger produces identical
// results" must hold whatever the process executed BEFORE. Embedders reuse runtime.Environment objects for many
// executions (Context.Environment); anything an execution leaves behind in the environment (call depth, flags,
// caches, gauges) and that a later execution can observe breaks the property.
//
// For one probe program P and one fixed world W (ledger registers + contract codes + uuid counter):
//   baseline : P on a fresh copy of W, fresh Runtime, Context.Environment = nil (a new environment)
//   reused   : P on a fresh copy of W, with Runtime and Environment objects that have just executed a prefix of
//              other programs (on a scratch copy of W, so W itself is the same) - prefixes that fail deep inside
//              nested calls / loops / contract functions / storage iteration / argument decoding / deployment,
//              exceed limits, succeed, commit, deploy contracts; scripts, transactions, contract function calls.
// The complete observable outcome (result, error, events, logs, register writes, slab-index allocations, uuid
// calls, metered computation and memory) must be identical. Both engines; script and transaction environments.

const contractP = `
access(all) contract P {
    access(all) event Ev(n: Int)
    access(all) var total: Int
    access(all) resource Tok {
        access(all) let id: UInt64
        init() { self.id = self.uuid }
    }
    access(all) struct Box {
        access(all) var v: Int
        init(_ v: Int) { self.v = v }
        access(all) fun down(_ n: Int): Int { if n == 0 { return self.v }; return 1 + self.down(n - 1) }
    }
    access(all) fun rec(_ n: Int): Int { if n == 0 { return 0 }; return 1 + self.rec(n - 1) }
    access(all) fun failAt(_ n: Int) { if n == 0 { panic("boom") }; self.failAt(n - 1) }
    access(all) fun need(_ b: Bool) { pre { b: "need" } }
    access(all) fun preAt(_ n: Int) { if n == 0 { self.need(false) } else { self.preAt(n - 1) } }
    access(all) fun postAt(_ n: Int): Int { post { result > 0: "post" }; if n == 0 { return 0 }; return self.postAt(n - 1) }
    access(all) fun overflowAt(_ n: Int): UInt8 { if n == 0 { let x: UInt8 = 255; return x + 1 }; return self.overflowAt(n - 1) }
    access(all) fun loopFail(_ n: Int) { for x in [1, 2, 3] { if n == 0 { let a: [Int] = []; log(a[x]) }; self.loopFail(n - 1) } }
    access(all) fun forever(_ n: Int): Int { return self.forever(n + 1) }
    access(all) fun mk(): @Tok { return <- create Tok() }
    access(all) fun bump(): Int { self.total = self.total + 1; emit Ev(n: self.total); return self.total }
    init() { self.total = 0 }
}
`

type execSpec struct {
	Kind      string   `json:"kind"` // script | tx | invoke | deploy
	Src       string   `json:"src,omitempty"`
	Args      []string `json:"args,omitempty"` // JSON-CDC encoded arguments
	Func      string   `json:"func,omitempty"` // invoke: function of contract P
	IntArg    int      `json:"int_arg,omitempty"`
	CompLimit uint64   `json:"computation_limit,omitempty"`
	MemLimit  uint64   `json:"memory_limit,omitempty"`
	Note      string   `json:"note,omitempty"`
}

// world: everything an execution can read.
type world struct {
	stored  map[string][]byte
	indices map[string]uint64
	codes   map[common.AddressLocation][]byte
	uuid    uint64
}

func (w *world) clone() *world {
	c := &world{stored: map[string][]byte{}, indices: map[string]uint64{}, codes: map[common.AddressLocation][]byte{}, uuid: w.uuid}
	for k, v := range w.stored {
		c.stored[k] = append([]byte{}, v...)
	}
	for k, v := range w.indices {
		c.indices[k] = v
	}
	for k, v := range w.codes {
		c.codes[k] = v
	}
	return c
}

type limitError struct{ what string }

func (e limitError) Error() string { return e.what + " limit exceeded" }
func (limitError) IsUserError()    {}

// envSet: the environment objects an embedder would keep and reuse.
type envSet struct {
	script runtime.Environment
	base   runtime.Environment
}

func newEnvSet(vm bool) *envSet {
	cfg := runtime.Config{}
	if vm {
		return &envSet{script: runtime.NewScriptVMEnvironment(cfg), base: runtime.NewBaseVMEnvironment(cfg)}
	}
	return &envSet{script: runtime.NewScriptInterpreterEnvironment(cfg), base: runtime.NewBaseInterpreterEnvironment(cfg)}
}

// execOn runs one program on world w (mutating it when a transaction commits) and returns the full trace.
// envs == nil: Context.Environment stays nil (the runtime creates a new environment).
func execOn(w *world, rt runtime.Runtime, envs *envSet, vm bool, spec execSpec, locByte byte) (trace []string) {
	add := func(f string, a ...any) { trace = append(trace, fmt.Sprintf(f, a...)) }
	host := lib.NewHost()
	ledger := ru.NewTestLedgerWithData(nil, func(owner, key, value []byte) { add("W %x %x %x", owner, key, value) }, w.stored, w.indices)
	alloc := ledger.OnAllocateSlabIndex
	ledger.OnAllocateSlabIndex = func(owner []byte) (atree.SlabIndex, error) {
		i, err := alloc(owner)
		add("A %x %x", owner, i[:])
		return i, err
	}
	host.Ledger = ledger
	host.Iface.Storage = ledger
	for k := range host.Codes {
		delete(host.Codes, k)
	}
	codesBefore := map[common.AddressLocation][]byte{}
	for k, v := range w.codes {
		host.Codes[k] = v
		codesBefore[k] = v
	}
	host.UUID = w.uuid
	uuidBefore := w.uuid
	host.Iface.OnProgramLog = func(s string) { add("L %s", s) }
	host.Iface.OnEmitEvent = func(e cadence.Event) error {
		if j, err := jsoncdc.Encode(e); err == nil {
			add("E json %s", j)
		} else {
			add("E json-error %v", err)
		}
		if c, err := ccf.Encode(e); err == nil {
			add("E ccf %x", c)
		}
		return nil
	}
	host.Iface.OnGetStorageUsed = func(a runtime.Address) (uint64, error) {
		var n uint64
		prefix := string(a[:]) + "|"
		for k, v := range w.stored {
			if strings.HasPrefix(k, prefix) {
				n += uint64(len(v))
			}
		}
		return n, nil
	}
	host.Iface.OnReadRandom = func(b []byte) error {
		for i := range b {
			b[i] = byte(17 * (i + 1))
		}
		add("RND %d", len(b))
		return nil
	}
	comp := map[common.ComputationKind]uint64{}
	var compTotal, memTotal uint64
	compGauge := common.FunctionComputationGauge(func(u common.ComputationUsage) error {
		comp[u.Kind] += u.Intensity
		compTotal += u.Intensity
		if spec.CompLimit > 0 && compTotal > spec.CompLimit {
			return limitError{"computation"}
		}
		return nil
	})
	memGauge := common.FunctionMemoryGauge(func(u common.MemoryUsage) error {
		memTotal += u.Amount
		if spec.MemLimit > 0 && memTotal > spec.MemLimit {
			return limitError{"memory"}
		}
		return nil
	})
	signers := []common.Address{addrOf(1), addrOf(2)}
	host.Signers = signers
	var args [][]byte
	for _, a := range spec.Args {
		args = append(args, []byte(a))
	}
	ctx := runtime.Context{Interface: host.Iface, UseVM: vm, MemoryGauge: memGauge, ComputationGauge: compGauge}
	var loc [32]byte
	loc[0] = locByte
	var value cadence.Value
	var err error
	var panicked any
	func() {
		defer func() {
			if r := recover(); r != nil {
				panicked = r
			}
		}()
		switch spec.Kind {
		case "script":
			ctx.Location = common.ScriptLocation(loc)
			if envs != nil {
				ctx.Environment = envs.script
			}
			value, err = rt.ExecuteScript(runtime.Script{Source: []byte(spec.Src), Arguments: args}, ctx)
		case "tx", "deploy":
			ctx.Location = common.TransactionLocation(loc)
			if envs != nil {
				ctx.Environment = envs.base
			}
			err = rt.ExecuteTransaction(runtime.Script{Source: []byte(spec.Src), Arguments: args}, ctx)
		case "invoke":
			ctx.Location = common.TransactionLocation(loc)
			if envs != nil {
				ctx.Environment = envs.base
			}
			value, err = rt.InvokeContractFunction(
				common.AddressLocation{Address: addrOf(1), Name: "P"}, spec.Func,
				[]cadence.Value{cadence.NewInt(spec.IntArg)}, []sema.Type{sema.IntType}, ctx)
		}
	}()
	if value != nil && err == nil && panicked == nil {
		add("R %s", value.String())
		if j, e := jsoncdc.Encode(value); e == nil {
			add("R json %s", j)
		}
	}
	switch {
	case panicked != nil:
		add("X PANIC %v", panicked)
	case err != nil:
		add("X ERR %s", cheapErr(err))
	default:
		add("X ok")
	}
	add("U %d", host.UUID-uuidBefore)
	var kinds []int
	for k := range comp {
		kinds = append(kinds, int(k))
	}
	sort.Ints(kinds)
	var cs []string
	for _, k := range kinds {
		cs = append(cs, fmt.Sprintf("%d:%d", k, comp[common.ComputationKind(k)]))
	}
	add("M computation %d [%s]", compTotal, strings.Join(cs, " "))
	add("M memory %d", memTotal)
	// the embedding is transactional: a failed execution changes neither the contract codes nor the uuid counter
	// (register writes of a failed execution are the subject of C24; the scratch world keeps them as they happened)
	if err != nil || panicked != nil {
		w.codes = codesBefore
	} else {
		w.codes = map[common.AddressLocation][]byte{}
		for k, v := range host.Codes {
			w.codes[k] = v
		}
	}
	w.uuid = host.UUID
	return
}

// cheapErr renders an error by the chain of its Go types and the message of the innermost cause. (The full
// message of runtime.Error pretty-prints the whole Cadence call stack: hundreds of milliseconds for a failure
// 1000 calls deep.)
func cheapErr(err error) string {
	var types []string
	var last error
	for e := err; e != nil && len(types) < 30; {
		types = append(types, fmt.Sprintf("%T", e))
		last = e
		u, ok := e.(interface{ Unwrap() error })
		if !ok {
			break
		}
		e = u.Unwrap()
	}
	msg := ""
	if last != nil && len(types) > 1 {
		msg = last.Error()
		if i := strings.Index(msg, "\ngoroutine "); i >= 0 {
			msg = msg[:i]
		}
		if len(msg) > 300 {
			msg = msg[:300]
		}
	}
	return strings.Join(types, " > ") + ": " + msg
}

func deployTx(name, code string, acct int) string {
	return fmt.Sprintf("transaction {\n  prepare(a1: auth(Contracts) &Account, a2: auth(Contracts) &Account) {\n    a%d.contracts.add(name: %q, code: %q.utf8)\n  }\n}\n", acct, name, code)
}

const txHead = "import P from 0x1\ntransaction {\n  prepare(a1: auth(Storage, Capabilities) &Account, a2: auth(Storage, Capabilities) &Account) {\n"

func txOf(body string) string { return txHead + body + "  }\n}\n" }

func buildWorld(vm bool) (*world, []string) {
	w := &world{stored: map[string][]byte{}, indices: map[string]uint64{}, codes: map[common.AddressLocation][]byte{}}
	rt := runtime.NewRuntime(runtime.Config{})
	var log []string
	for i, s := range []execSpec{
		{Kind: "deploy", Src: deployTx("P", contractP, 1)},
		{Kind: "tx", Src: txOf(`    a1.storage.save({"a": 1, "b": 2, "c": 3}, to: /storage/d)
    a1.storage.save([1, 2, 3, 4, 5], to: /storage/v)
    a1.storage.save(<- P.mk(), to: /storage/t1)
    a1.storage.save("hello", to: /storage/s)
    a2.storage.save(<- P.mk(), to: /storage/t2)
    a2.storage.save({1: "x", 2: "y"}, to: /storage/d)
    log(P.bump())
`)},
	} {
		t := execOn(w, rt, nil, vm, s, byte(1+i))
		log = append(log, t...)
	}
	return w, log
}

func intArg(n int) string { return fmt.Sprintf(`{"type":"Int","value":"%d"}`, n) }

// probes: programs whose behaviour is sensitive to state left behind by earlier executions.
func genProbe(r *lib.Rng) execSpec {
	deep := lib.Pick(r, []int{400, 1000, 1500, 1800, 1900, 1950, 1985, 1996})
	switch r.Intn(14) {
	case 0:
		return execSpec{Kind: "script", Note: "local recursion", Args: []string{intArg(deep)},
			Src: "access(all) fun rec(_ n: Int): Int { if n == 0 { return 0 }; return 1 + rec(n - 1) }\naccess(all) fun main(n: Int): Int { return rec(n) }\n"}
	case 1:
		return execSpec{Kind: "script", Note: "contract function recursion",
			Src: fmt.Sprintf("import P from 0x1\naccess(all) fun main(): Int { return P.rec(%d) }\n", deep)}
	case 2:
		return execSpec{Kind: "script", Note: "method recursion",
			Src: fmt.Sprintf("import P from 0x1\naccess(all) fun main(): Int { return P.Box(7).down(%d) }\n", deep)}
	case 3:
		return execSpec{Kind: "tx", Note: "deep recursion then commit",
			Src: txOf(fmt.Sprintf("    log(P.rec(%d))\n    a1.storage.save(P.rec(10), to: /storage/probe)\n", deep))}
	case 4:
		return execSpec{Kind: "invoke", Func: "rec", IntArg: deep, Note: "contract function invocation"}
	case 5:
		return execSpec{Kind: "tx", Note: "uuid + contract state + event",
			Src: txOf("    let t <- P.mk()\n    log(t.id)\n    a1.storage.save(<-t, to: /storage/tokp)\n    log(P.bump())\n    log(a2.storage.borrow<&P.Tok>(from: /storage/t2)!.id)\n")}
	case 6:
		return execSpec{Kind: "tx", Note: "storage iteration then mutation",
			Src: txOf("    a1.storage.forEachStored(fun (p: StoragePath, t: Type): Bool { log(p.toString().concat(\" \").concat(t.identifier)); return true })\n    a1.storage.save(1, to: /storage/after)\n    log(a1.storage.storagePaths)\n")}
	case 7:
		return execSpec{Kind: "script", Note: "storage iteration in a script",
			Src: "access(all) fun main(): [String] {\n  var out: [String] = []\n  let a = getAuthAccount<auth(Storage) &Account>(0x1)\n  a.storage.forEachStored(fun (p: StoragePath, t: Type): Bool { out.append(p.toString()); return true })\n  return out\n}\n"}
	case 8:
		n := 50 + r.Intn(400)
		return execSpec{Kind: "script", Note: "computation close to the limit", CompLimit: uint64(200 + r.Intn(1500)),
			Src: fmt.Sprintf("access(all) fun main(): Int { var i = 0; var s = 0; while i < %d { s = s + i; i = i + 1 }; return s }\n", n)}
	case 9:
		n := 20 + r.Intn(300)
		return execSpec{Kind: "script", Note: "memory close to the limit", MemLimit: uint64(20000 + r.Intn(200000)),
			Src: fmt.Sprintf("access(all) fun main(): Int { var xs: [String] = []; var i = 0; while i < %d { xs.append(i.toString().concat(\"-padding-padding\")); i = i + 1 }; return xs.length }\n", n)}
	case 10:
		return execSpec{Kind: "tx", Note: "computation limit in a transaction with recursion", CompLimit: uint64(500 + r.Intn(3000)),
			Src: txOf(fmt.Sprintf("    log(P.rec(%d))\n    a2.storage.save(P.bump(), to: /storage/c)\n", 100+r.Intn(900)))}
	case 11:
		return execSpec{Kind: "script", Note: "random + types",
			Src: "import P from 0x1\naccess(all) fun main(): [AnyStruct] { return [revertibleRandom<UInt64>(), Type<@P.Tok>().identifier, P.total, getAccount(0x1).contracts.names] }\n"}
	case 12:
		return execSpec{Kind: "tx", Note: "capabilities + dictionary mutation",
			Src: txOf("    let c = a1.capabilities.storage.issue<&{String: Int}>(/storage/d)\n    log(c.id)\n    let d = a1.storage.borrow<auth(Mutate) &{String: Int}>(from: /storage/d)!\n    d[\"z\"] = 26\n    for k in d.keys { log(k) }\n")}
	default:
		return execSpec{Kind: "script", Note: "closure recursion", Args: []string{intArg(deep / 2)},
			Src: "access(all) fun main(n: Int): Int {\n  var g = fun (_ k: Int): Int { return 0 }\n  g = fun (_ k: Int): Int { if k == 0 { return 0 }; return 1 + g(k - 1) }\n  return g(n)\n}\n"}
	}
}

// prefix programs: failures at depth of every kind, limit violations, successes, commits, deployments.
func genPrefix(r *lib.Rng) execSpec {
	// (an abort N calls deep costs the runtime time quadratic in N: depths are kept moderate; leftovers of several
	// failed executions accumulate in the long-lived environment)
	d := lib.Pick(r, []int{1, 7, 40, 90, 150, 300})
	prefixSeq := 1 + r.Intn(1000000)
	k := r.Intn(24)
	if k == 6 && !r.Chance(1, 4) {
		k = 1 // unbounded recursion costs seconds: rare
	}
	switch k {
	case 0:
		return execSpec{Kind: "script", Note: "panic in local recursion", Args: []string{intArg(d)},
			Src: "access(all) fun fail(_ n: Int) { if n == 0 { panic(\"boom\") }; fail(n - 1) }\naccess(all) fun main(n: Int) { fail(n) }\n"}
	case 1:
		return execSpec{Kind: "script", Note: "panic in contract function", Src: fmt.Sprintf("import P from 0x1\naccess(all) fun main() { P.failAt(%d) }\n", d)}
	case 2:
		return execSpec{Kind: "script", Note: "pre-condition failure at depth", Src: fmt.Sprintf("import P from 0x1\naccess(all) fun main() { P.preAt(%d) }\n", d)}
	case 3:
		return execSpec{Kind: "script", Note: "post-condition failure at depth", Src: fmt.Sprintf("import P from 0x1\naccess(all) fun main(): Int { return P.postAt(%d) }\n", d)}
	case 4:
		return execSpec{Kind: "script", Note: "overflow at depth", Src: fmt.Sprintf("import P from 0x1\naccess(all) fun main(): UInt8 { return P.overflowAt(%d) }\n", d)}
	case 5:
		return execSpec{Kind: "script", Note: "index error inside loops at depth", Src: fmt.Sprintf("import P from 0x1\naccess(all) fun main() { P.loopFail(%d) }\n", d%50)}
	case 6:
		return execSpec{Kind: "script", Note: "unbounded recursion", Src: "import P from 0x1\naccess(all) fun main(): Int { return P.forever(0) }\n"}
	case 7:
		return execSpec{Kind: "script", Note: "computation limit exceeded inside recursion", CompLimit: uint64(20 + r.Intn(200)),
			Src: fmt.Sprintf("import P from 0x1\naccess(all) fun main(): Int { return P.rec(%d) }\n", 300+d)}
	case 8:
		return execSpec{Kind: "script", Note: "memory limit exceeded inside recursion", MemLimit: uint64(2000 + r.Intn(20000)),
			Src: fmt.Sprintf("import P from 0x1\naccess(all) fun main(): Int { return P.Box(1).down(%d) }\n", 300+d)}
	case 9:
		return execSpec{Kind: "tx", Note: "panic at depth in prepare", Src: txOf(fmt.Sprintf("    a1.storage.save(1, to: /storage/x%d)\n    P.failAt(%d)\n", prefixSeq, d))}
	case 10:
		return execSpec{Kind: "tx", Note: "failure in execute / post",
			Src: fmt.Sprintf("import P from 0x1\ntransaction {\n  prepare(a1: &Account, a2: &Account) {}\n  execute { P.preAt(%d) }\n  post { false: \"never\" }\n}\n", d)}
	case 11:
		return execSpec{Kind: "tx", Note: "failure inside storage iteration callback",
			Src: txOf(fmt.Sprintf("    a1.storage.forEachStored(fun (p: StoragePath, t: Type): Bool { P.failAt(%d); return true })\n", d))}
	case 12:
		return execSpec{Kind: "tx", Note: "failure inside dictionary iteration callback",
			Src: txOf(fmt.Sprintf("    let d = a1.storage.borrow<&{String: Int}>(from: /storage/d)!\n    d.forEachKey(fun (k: String): Bool { P.overflowAt(%d); return true })\n", d))}
	case 13:
		return execSpec{Kind: "script", Note: "argument decoding failure", Args: []string{`{"type":"Int","value":"not a number"}`},
			Src: "access(all) fun main(n: Int): Int { return n }\n"}
	case 14:
		return execSpec{Kind: "script", Note: "argument type mismatch", Args: []string{`{"type":"String","value":"x"}`},
			Src: "access(all) fun main(n: Int): Int { return n }\n"}
	case 15:
		return execSpec{Kind: "script", Note: "parse error", Src: "access(all) fun main( { return 1 }\n"}
	case 16:
		return execSpec{Kind: "script", Note: "checker error", Src: "access(all) fun main(): Int { return \"s\" }\n"}
	case 17:
		name := fmt.Sprintf("Q%d", prefixSeq)
		code := fmt.Sprintf("import P from 0x1\naccess(all) contract %s { init() { P.failAt(%d) } }", name, d)
		return execSpec{Kind: "deploy", Note: "deployment failing in init at depth", Src: deployTx(name, code, 2)}
	case 18:
		name := fmt.Sprintf("Q%d", prefixSeq)
		code := fmt.Sprintf("import P from 0x1\naccess(all) contract %s { access(all) var n: Int; init() { self.n = P.rec(%d) } }", name, d)
		return execSpec{Kind: "deploy", Note: "successful deployment", Src: deployTx(name, code, 2)}
	case 19:
		return execSpec{Kind: "invoke", Func: "failAt", IntArg: d, Note: "contract function invocation failing at depth"}
	case 20:
		return execSpec{Kind: "invoke", Func: "rec", IntArg: d, Note: "successful contract function invocation"}
	case 21:
		return execSpec{Kind: "tx", Note: "successful transaction (commits on the scratch ledger)",
			Src: txOf(fmt.Sprintf("    a2.storage.save(P.rec(%d), to: /storage/y%d)\n    log(P.bump())\n    destroy P.mk()\n", d, prefixSeq))}
	case 22:
		return execSpec{Kind: "script", Note: "successful deep script", Src: fmt.Sprintf("import P from 0x1\naccess(all) fun main(): Int { return P.rec(%d) }\n", 1000+d%900)}
	default:
		return execSpec{Kind: "tx", Note: "resource loss / force nil at depth",
			Src: txOf(fmt.Sprintf("    let x: Int? = nil\n    if P.rec(%d) > 0 { log(x!) }\n", d))}
	}
}

// prefixExperiment runs the comparison for one engine.
func prefixExperiment(sum *lib.Summary, seed uint64, tier string, vm bool) {
	r := lib.NewRng(seed*104729 + 5)
	if vm {
		r = lib.NewRng(seed*104729 + 6)
	}
	w0, setupLog := buildWorld(vm)
	for _, l := range setupLog {
		if strings.HasPrefix(l, "X ") && l != "X ok" {
			sum.Fail("prefix-setup", fmt.Sprintf("cannot build the world for the prefix experiment (vm=%v): %s", vm, clip(l)), map[string]any{"vm": vm})
			return
		}
	}
	nprobes, nprefixes := 18, 5
	if tier == "thorough" {
		nprobes, nprefixes = 150, 8
	}
	rt := runtime.NewRuntime(runtime.Config{})
	longLived := newEnvSet(vm) // reused across ALL trials of this engine: leftovers accumulate
	var longLivedHistory []execSpec
	reported := 0
	for p := 0; p < nprobes; p++ {
		probe := genProbe(r)
		base := execOn(w0.clone(), runtime.NewRuntime(runtime.Config{}), nil, vm, probe, 0xF0)
		sum.Evaluations++
		sum.Count(fmt.Sprintf("prefix experiment vm=%v probe: %s", vm, probe.Note))
		if strings.HasPrefix(base[len(base)-4], "X ERR") {
			sum.Count("prefix experiment probe fails in the baseline")
		}
		// the baseline itself is repeatable
		again := execOn(w0.clone(), runtime.NewRuntime(runtime.Config{}), nil, vm, probe, 0xF0)
		sum.Evaluations++
		if i, x, y := firstDiff(base, again); i >= 0 {
			sum.Fail("nondeterministic:"+diffKind(x, y), fmt.Sprintf("probe (vm=%v) differs between two fresh runs at trace line %d: %s  VS  %s", vm, i, clip(x), clip(y)),
				map[string]any{"probe": probe, "vm": vm, "first": clip(x), "second": clip(y)})
			continue
		}
		for k := 0; k < nprefixes; k++ {
			envs := longLived
			mode := "long-lived environment (reused across all trials)"
			var history []execSpec
			if k%2 == 0 {
				envs = newEnvSet(vm)
				mode = "environment created for this trial"
			}
			scratch := w0.clone()
			var prefix []execSpec
			np := r.Intn(4)
			if k == 1 {
				np = 0 // the long-lived environment as it is
			}
			for j := 0; j < np; j++ {
				s := genPrefix(r)
				prefix = append(prefix, s)
				t := execOn(scratch, rt, envs, vm, s, byte(0x10+j))
				sum.Evaluations++
				outcome := "ok"
				if !strings.HasPrefix(t[len(t)-4], "X ok") {
					outcome = "fails"
				}
				sum.Count("prefix program " + outcome + ": " + s.Note)
			}
			if envs == longLived {
				history = append(append([]execSpec{}, longLivedHistory...), prefix...)
				longLivedHistory = append(longLivedHistory, prefix...)
				if len(longLivedHistory) > 40 {
					longLivedHistory = longLivedHistory[len(longLivedHistory)-40:]
				}
			} else {
				history = prefix
			}
			got := execOn(w0.clone(), rt, envs, vm, probe, 0xF0)
			sum.Evaluations++
			if envs == longLived {
				longLivedHistory = append(longLivedHistory, probe)
			}
			if i, x, y := firstDiff(base, got); i >= 0 {
				// shrink the prefix: replay subsets with a new environment, keep what is needed for a difference
				min := history
				budget := 250
				if reported >= 2 {
					budget = 0 // only the first failures of a shard are minimized
				}
				reported++
				differs := func(h []execSpec) bool {
					envs2 := newEnvSet(vm)
					scratch2 := w0.clone()
					for j, s := range h {
						execOn(scratch2, rt, envs2, vm, s, byte(0x10+j%64))
						budget--
					}
					g := execOn(w0.clone(), rt, envs2, vm, probe, 0xF0)
					k, _, _ := firstDiff(base, g)
					return k >= 0
				}
				minimized := false
				if budget > 0 && differs(min) {
					minimized = true
					for again := true; again && budget > 0; {
						again = false
						for j := 0; j < len(min) && budget > 0; j++ {
							cand := append(append([]execSpec{}, min[:j]...), min[j+1:]...)
							if differs(cand) {
								min = cand
								again = true
								j--
							}
						}
					}
				}
				var notes []string
				for _, s := range min {
					notes = append(notes, s.Kind+": "+s.Note)
				}
				sum.Fail("prefix-dependent:"+diffKind(x, y),
					fmt.Sprintf("the same %s on the same ledger (vm=%v) gives a different outcome in an Environment that executed other programs before than in a fresh one; "+
						"probe (%s): %s %v   fresh: %s   VS after prefix: %s   (trace line %d; %s; prefix of %d program(s)%s: [%s])",
						probe.Kind, vm, probe.Note, clip(probe.Src+probe.Func), probe.Args, clip(x), clip(y), i, mode, len(min),
						map[bool]string{true: ", minimized", false: ""}[minimized], strings.Join(notes, "; ")),
					map[string]any{"vm": vm, "environment": mode, "prefix": min, "prefix_minimized": minimized, "probe": probe,
						"fresh_outcome": clipAll(base), "outcome_after_prefix": clipAll(got),
						"how": "world = harness/c33/prefix.go buildWorld (contract P at 0x1 + setup transaction); run the prefix programs with one shared runtime.Environment (script environment for scripts, base environment for transactions / contract invocations) on a scratch copy of the world, then the probe with the same Environment objects on a fresh copy of the world; compare with the probe on a fresh copy with Context.Environment = nil"})
			}
		}
	}
}

func clipAll(t []string) []string {
	var out []string
	for _, l := range t {
		if len(l) > 300 {
			l = l[:300] + "..."
		}
		out = append(out, l)
	}
	if len(out) > 40 {
		out = append(out[:20], out[len(out)-20:]...)
	}
	return out
}
