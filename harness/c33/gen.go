package main

import (
	"fmt"
	"strings"

	"cvh/lib"
)

// contractE: events, a resource with dictionary state, contract state.
const contractE = `
access(all) contract E {
    access(all) event Ping(n: Int, who: Address, tags: [String], m: {String: Int})
    access(all) event Made(id: UInt64, size: Int)
    access(all) var counter: Int
    access(all) var seen: {String: Int}

    access(all) resource Item {
        access(all) let id: UInt64
        access(all) var data: {String: [Int]}
        init(_ n: Int) {
            self.id = self.uuid
            self.data = {}
            var i = 0
            while i < n {
                self.data["k".concat(i.toString())] = [i, i * 2, i * 3, i * 5]
                i = i + 1
            }
            emit Made(id: self.id, size: n)
        }
        access(all) fun keys(): [String] { return self.data.keys }
    }

    access(all) fun make(_ n: Int): @Item { return <- create Item(n) }

    access(all) fun ping(_ n: Int, _ who: Address, _ tags: [String], _ m: {String: Int}) {
        emit Ping(n: n, who: who, tags: tags, m: m)
    }

    access(all) fun bump(_ tag: String): Int {
        self.counter = self.counter + 1
        self.seen[tag] = (self.seen[tag] ?? 0) + 1
        return self.counter
    }

    init() { self.counter = 0; self.seen = {} }
}
`

const nAcct = 4

type Step struct {
	Kind string `json:"kind"` // tx | script
	Src  string `json:"src"`
}

type History struct {
	Name  string `json:"name"`
	VM    bool   `json:"vm"`
	Steps []Step `json:"steps"`
}

type gen struct {
	r        *lib.Rng
	deployed map[string]bool // "<acct>.<name>"
}

var words = []string{"alpha", "beta", "gamma", "delta", "eps", "zeta", "eta", "theta", "iota", "kappa", "lambda", "mu", "nu", "xi", "omicron", "pi", "rho", "sigma", "tau", "upsilon"}

func (g *gen) acct() string { return fmt.Sprintf("a%d", 1+g.r.Intn(nAcct)) }

func (g *gen) strIntDict(n int) string {
	var parts []string
	seen := map[string]bool{}
	for i := 0; i < n; i++ {
		k := lib.Pick(g.r, words) + fmt.Sprint(g.r.Intn(30))
		if seen[k] {
			continue
		}
		seen[k] = true
		parts = append(parts, fmt.Sprintf("%q: %d", k, g.r.Intn(1000)))
	}
	return "{" + strings.Join(parts, ", ") + "}"
}

// stmt produces one block of statements for a transaction body.
func (g *gen) stmt(i int) string {
	a := g.acct()
	p := g.r.Intn(4)
	v := fmt.Sprintf("x%d", i)
	switch g.r.Intn(16) {
	case 0, 1: // (re)store a dictionary
		return fmt.Sprintf("    let %s = %s.storage.load<{String: Int}>(from: /storage/d%d)\n    %s.storage.save(%s as {String: Int}, to: /storage/d%d)\n",
			v, a, p, a, g.strIntDict(3+g.r.Intn(40)), p)
	case 2, 3: // mutate a stored dictionary through a reference, iterate it
		return fmt.Sprintf(`    if let %[1]s = %[2]s.storage.borrow<auth(Mutate) &{String: Int}>(from: /storage/d%[3]d) {
      %[1]s[%[4]q] = %[5]d
      %[1]s.remove(key: %[6]q)
      var n%[1]s = 0
      while n%[1]s < %[7]d { %[1]s["g".concat(n%[1]s.toString())] = n%[1]s * %[5]d; n%[1]s = n%[1]s + 1 }
      for k in %[1]s.keys { log(k) }
      log(%[1]s.values)
      %[1]s.forEachKey(fun (k: String): Bool { log(k.length); return true })
    }
`, v, a, p, lib.Pick(g.r, words), g.r.Intn(500), lib.Pick(g.r, words)+fmt.Sprint(g.r.Intn(30)), g.r.Intn(60))
	case 4: // big array
		return fmt.Sprintf(`    let %[1]s = %[2]s.storage.load<[Int]>(from: /storage/v%[3]d) ?? []
    var %[1]sa = %[1]s
    var n%[1]s = 0
    while n%[1]s < %[4]d { %[1]sa.append(n%[1]s * 7 + %[1]sa.length); n%[1]s = n%[1]s + 1 }
    %[2]s.storage.save(%[1]sa, to: /storage/v%[3]d)
`, v, a, p, 10+g.r.Intn(300))
	case 5, 6: // resources with dictionary state
		return fmt.Sprintf("    destroy %s.storage.load<@E.Item>(from: /storage/r%d)\n    %s.storage.save(<- E.make(%d), to: /storage/r%d)\n",
			a, p, a, g.r.Intn(70), p)
	case 7: // events
		return fmt.Sprintf("    E.ping(%d, %s.address, [%q, %q], %s)\n", g.r.Intn(100), a, lib.Pick(g.r, words), lib.Pick(g.r, words), g.strIntDict(1+g.r.Intn(6)))
	case 8: // storage iteration order
		return fmt.Sprintf(`    log(%[1]s.storage.storagePaths)
    %[1]s.storage.forEachStored(fun (p: StoragePath, t: Type): Bool { log(p.toString().concat(" ").concat(t.identifier)); return true })
    log(%[1]s.storage.used)
`, a)
	case 9: // capabilities
		return fmt.Sprintf(`    %[1]s.capabilities.unpublish(/public/c%[2]d)
    let %[3]s = %[1]s.capabilities.storage.issue<&{String: Int}>(/storage/d%[2]d)
    %[1]s.capabilities.publish(%[3]s, at: /public/c%[2]d)
    log(%[1]s.capabilities.storage.getControllers(forPath: /storage/d%[2]d).length)
    log(%[3]s.id)
`, a, p, v)
	case 10: // contract state
		return fmt.Sprintf("    log(E.bump(%q))\n    log(E.seen.keys)\n", lib.Pick(g.r, words))
	case 11: // nested dictionaries
		return fmt.Sprintf(`    var %[1]s: {Int: {String: Int}} = %[2]s.storage.load<{Int: {String: Int}}>(from: /storage/n%[3]d) ?? {}
    var n%[1]s = 0
    while n%[1]s < %[4]d { %[1]s[n%[1]s * 3] = %[5]s; n%[1]s = n%[1]s + 1 }
    %[2]s.storage.save(%[1]s, to: /storage/n%[3]d)
    log(%[1]s.keys)
`, v, a, p, 1+g.r.Intn(25), g.strIntDict(1+g.r.Intn(5)))
	case 12: // several contracts deployed in one transaction (contract updates are written at commit)
		var sb strings.Builder
		for k := 0; k < 2+g.r.Intn(3); k++ {
			acc := 1 + g.r.Intn(nAcct)
			name := lib.Pick(g.r, []string{"Zed", "Alpha", "Mid", "Beta", "Omega", "Kilo"})
			key := fmt.Sprintf("%d.%s", acc, name)
			if g.deployed[key] {
				continue
			}
			g.deployed[key] = true
			code := fmt.Sprintf("access(all) contract %s { access(all) var xs: [Int]; access(all) var m: {String: Int}; access(all) event Up(n: Int); init(_ n: Int) { self.xs = []; self.m = {}; var i = 0; while i < n { self.xs.append(i); self.m[i.toString()] = i; i = i + 1 }; emit Up(n: n) } }", name)
			fmt.Fprintf(&sb, "    a%d.contracts.add(name: %q, code: %q.utf8, %d)\n", acc, name, code, g.r.Intn(80))
		}
		fmt.Fprintf(&sb, "    log(a1.contracts.names)\n")
		return sb.String()
	case 13: // string values
		return fmt.Sprintf("    let %s = %s.storage.load<String>(from: /storage/s%d)\n    %s.storage.save((%s ?? \"\").concat(%q), to: /storage/s%d)\n",
			v, a, p, a, v, strings.Repeat(lib.Pick(g.r, words), 1+g.r.Intn(60)), p)
	case 14: // types and identifiers
		return fmt.Sprintf("    log(%s.storage.type(at: /storage/d%d))\n    log(Type<@E.Item>().identifier)\n    log(%s.storage.publicPaths)\n", a, p, a)
	default: // failures (message text is an observable)
		switch g.r.Intn(4) {
		case 0:
			return fmt.Sprintf("    if %s.address != 0x0 { panic(\"boom \".concat((%d).toString())) }\n", a, g.r.Intn(1000))
		case 1:
			return fmt.Sprintf("    let %s: UInt8 = UInt8(%s.storage.used %% 5) + 253\n    log(%s)\n", v, a, v)
		case 2:
			return fmt.Sprintf("    let %s = %s.storage.borrow<&[Int]>(from: /storage/v%d)!\n    log(%s[%d])\n", v, a, p, v, g.r.Intn(400))
		default:
			return fmt.Sprintf("    %s.storage.save(1, to: /storage/dup)\n    %s.storage.save(2, to: /storage/dup)\n", a, a)
		}
	}
}

func (g *gen) tx() Step {
	var ps []string
	for i := 1; i <= nAcct; i++ {
		ps = append(ps, fmt.Sprintf("a%d: auth(Storage, Contracts, Capabilities) &Account", i))
	}
	var sb strings.Builder
	sb.WriteString("import E from 0x1\ntransaction {\n  prepare(" + strings.Join(ps, ", ") + ") {\n")
	n := 2 + g.r.Intn(6)
	for i := 0; i < n; i++ {
		sb.WriteString(g.stmt(i))
	}
	sb.WriteString("  }\n}\n")
	return Step{Kind: "tx", Src: sb.String()}
}

func (g *gen) script() Step {
	a := 1 + g.r.Intn(nAcct)
	p := g.r.Intn(4)
	switch g.r.Intn(6) {
	case 0:
		return Step{"script", fmt.Sprintf("access(all) fun main(): {String: Int}? {\n  return getAuthAccount<auth(Storage) &Account>(0x%d).storage.copy<{String: Int}>(from: /storage/d%d)\n}\n", a, p)}
	case 1:
		return Step{"script", fmt.Sprintf("access(all) fun main(): [StoragePath] {\n  return *getAuthAccount<auth(Storage) &Account>(0x%d).storage.storagePaths\n}\n", a)}
	case 2:
		return Step{"script", fmt.Sprintf("import E from 0x1\naccess(all) fun main(): [String] {\n  let r = getAuthAccount<auth(Storage) &Account>(0x%d).storage.borrow<&E.Item>(from: /storage/r%d) ?? panic(\"no item at r%d\")\n  return r.keys()\n}\n", a, p, p)}
	case 3:
		return Step{"script", fmt.Sprintf("access(all) fun main(): {Int: {String: Int}} {\n  return getAuthAccount<auth(Storage) &Account>(0x%d).storage.copy<{Int: {String: Int}}>(from: /storage/n%d) ?? {}\n}\n", a, p)}
	case 4:
		return Step{"script", fmt.Sprintf("import E from 0x1\naccess(all) fun main(): [AnyStruct] {\n  return [E.counter, E.seen, getAccount(0x%d).contracts.names, getAccount(0x%d).storage.used]\n}\n", a, a)}
	default:
		return Step{"script", fmt.Sprintf("access(all) fun main(): Int {\n  let xs = getAuthAccount<auth(Storage) &Account>(0x%d).storage.copy<[Int]>(from: /storage/v%d) ?? []\n  return xs[%d]\n}\n", a, p, g.r.Intn(200))}
	}
}

// histories are a deterministic function of (seed, tier): parent and child processes regenerate the same list.
func genHistories(seed uint64, tier string) []History {
	rng := lib.NewRng(seed*7919 + 33)
	nh, ns := 18, 8
	if tier == "thorough" {
		nh, ns = 120, 12
	}
	var out []History
	for i := 0; i < nh; i++ {
		g := &gen{r: rng, deployed: map[string]bool{}}
		h := History{Name: fmt.Sprintf("gen-%d-%d", seed, i), VM: i%2 == 1}
		n := ns/2 + rng.Intn(ns)
		for j := 0; j < n; j++ {
			if rng.Chance(1, 5) {
				h.Steps = append(h.Steps, g.script())
			} else {
				h.Steps = append(h.Steps, g.tx())
			}
		}
		out = append(out, h)
	}
	return out
}
