package main

// The resource fragment of property C03 as an AST that is rendered twice:
// as Cadence source (for the real sema.Checker) and as a Coq term of type
// CV.C03.Model.stmt (for the model).  Positions are byte offsets in the rendered source
// and are filled in by the renderer.

type Kind int // static type of a resource variable

const (
	KR Kind = iota // @R
	KO             // @R?
	KA             // @[R] / @[R?]  (only moved, destroyed, read)
)

// Occ is an occurrence of a variable name in an expression.
type Occ struct {
	Name string
	Pos  int
}

type SK int

const (
	SLet     SK = iota // var x <- create R() | var x <- y | var x: @R? <- y | var x <- [<-y, <-z]
	SLet2              // var x <- y <- z | var x <- y <- create R()
	SAssign            // o <-! y | o <-! create R()
	SCall              // consume(<-y,...) | y.take(<-z) | y?.take(<-z) | y.use()
	SRead              // y.id | y?.id | y.length
	SDestroy           // destroy y
	SSwap              // y <-> z
	SIf                // if cond() {..} else {..}
	SIfLet             // if var x <- o {..} else {..}
	SLoop              // while cond() {..} | for i in ints {..}
	SBreak
	SContinue
	SReturn // return | return <-y | return <- create R()
	SHalt   // panic("")
	SFun    // fun f(p: @R, ...) [: @AnyResource?] {..}
)

type Param struct {
	Name string
	K    Kind
	Pos  int
}

type Stmt struct {
	K   SK
	Pos int // start offset of the statement

	X    string // declared name (SLet, SLet2, SIfLet)
	XPos int
	XK   Kind // kind of the declared variable (rendering only)
	Wrap bool // SLet with one source: render with explicit optional annotation

	Srcs []*Occ // SLet sources, SCall arguments
	Y    *Occ   // SLet2 first value, SAssign target, SCall receiver, SRead/SDestroy operand, SSwap left, SIfLet source, SReturn value
	Z    *Occ   // SLet2 second value (nil = create), SAssign value (nil = create), SSwap right
	YK   Kind   // kind of Y at this point (rendering of member access)

	OptChain bool // SCall with optional receiver
	Create   bool // SReturn: return <- create R()

	Then, Else []*Stmt // SIf, SIfLet; Then = body for SLoop, SFun
	HasElse    bool
	IsFor      bool

	FName  string // SFun
	Params []*Param
	RetRes bool
	PB     int // offset of the function block
}

// Prog is a top-level function `fun test(params)[: @AnyResource?] { body }`.
type Prog struct {
	F *Stmt // K == SFun
}

func (s *Stmt) size() int {
	n := 1
	for _, t := range s.Then {
		n += t.size()
	}
	for _, t := range s.Else {
		n += t.size()
	}
	return n
}

func blockSize(b []*Stmt) int {
	n := 0
	for _, s := range b {
		n += s.size()
	}
	return n
}

// walk visits every statement (pre-order).
func walk(b []*Stmt, f func(*Stmt)) {
	for _, s := range b {
		f(s)
		walk(s.Then, f)
		walk(s.Else, f)
	}
}

// feature flags of a program, used for distributions and for the keys of failures
type Features struct {
	Assign, Halt, Jump, Return, Loop, If, IfLet, Fun, Swap, Let2, OptChain bool
}

func features(p *Prog) Features {
	var f Features
	walk([]*Stmt{p.F}, func(s *Stmt) {
		switch s.K {
		case SAssign:
			f.Assign = true
		case SHalt:
			f.Halt = true
		case SBreak, SContinue:
			f.Jump = true
		case SReturn:
			f.Return = true
		case SLoop:
			f.Loop = true
		case SIf:
			f.If = true
		case SIfLet:
			f.IfLet = true
		case SFun:
			if s != p.F {
				f.Fun = true
			}
		case SSwap:
			f.Swap = true
		case SLet2:
			f.Let2 = true
		case SCall:
			if s.OptChain {
				f.OptChain = true
			}
		}
	})
	return f
}
