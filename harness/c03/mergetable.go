package main

import "fmt"

// Merge-table family: systematic enumeration of the branch-merge cases of the analysis.
// For a resource r declared (a) in the loop body or (b) before the loop, an if/else whose two branches
// range over  {no-op, destroy r, consume(<-r), move r into an array}  x
//             {fall through, break, continue, return, panic, return <-r}  x
//             {flat, nested one level: both arms do the same and exit},
// optionally followed by `destroy r` after the conditional and (for b) after the loop.

type mtBranch struct {
	action string // "", "destroy", "call", "array"
	exit   string // "", "break", "continue", "return", "halt", "retmove"
	nested bool
}

func (b mtBranch) String() string {
	s := b.action + "/" + b.exit
	if b.nested {
		s += "/nested"
	}
	return s
}

func mtBranches() []mtBranch {
	var out []mtBranch
	for _, a := range []string{"", "destroy", "call", "array"} {
		for _, e := range []string{"", "break", "continue", "return", "halt"} {
			out = append(out, mtBranch{a, e, false})
		}
	}
	out = append(out, mtBranch{"", "retmove", false})
	for _, a := range []string{"", "destroy"} {
		for _, e := range []string{"break", "continue", "return", "halt"} {
			out = append(out, mtBranch{a, e, true})
		}
	}
	return out
}

func (b mtBranch) stmts(retres bool) []*Stmt {
	var flat []*Stmt
	switch b.action {
	case "destroy":
		flat = append(flat, destroy("r"))
	case "call":
		flat = append(flat, consume("r"))
	case "array":
		flat = append(flat, &Stmt{K: SLet, X: "x", XK: KA, Srcs: []*Occ{occ("r")}}, destroy("x"))
	}
	switch b.exit {
	case "break":
		flat = append(flat, brk())
	case "continue":
		flat = append(flat, cont())
	case "return":
		flat = append(flat, &Stmt{K: SReturn, Create: retres})
	case "halt":
		flat = append(flat, halt())
	case "retmove":
		flat = append(flat, &Stmt{K: SReturn, Y: occ("r")})
	}
	if !b.nested {
		return flat
	}
	other := make([]*Stmt, len(flat))
	for i, s := range flat {
		other[i] = cloneStmt(s)
	}
	return []*Stmt{{K: SIf, Then: flat, Else: other, HasElse: true}}
}

// mergeTable calls emit for every program of the family.
func mergeTable(emit func(p *Prog, origin string)) int {
	bs := mtBranches()
	n := 0
	for ti, tb := range bs {
		for ei, eb := range bs {
			retres := tb.exit == "retmove" || eb.exit == "retmove"
			isFor := (ti+ei)%2 == 1
			mk := func(inside bool, afterCond, afterLoop bool) *Prog {
				cond := &Stmt{K: SIf, Then: tb.stmts(retres), Else: eb.stmts(retres), HasElse: true}
				var body, top []*Stmt
				if inside {
					body = append(body, create("r"))
				} else {
					top = append(top, create("r"))
				}
				body = append(body, cond)
				if afterCond {
					body = append(body, destroy("r"))
				}
				top = append(top, &Stmt{K: SLoop, Then: body, IsFor: isFor})
				if afterLoop {
					top = append(top, destroy("r"))
				}
				if retres {
					top = append(top, &Stmt{K: SReturn, Create: true})
				}
				return &Prog{F: &Stmt{K: SFun, FName: "test", RetRes: retres, Then: top}}
			}
			for _, ac := range []bool{false, true} {
				emit(mk(true, ac, false), fmt.Sprintf("mergetable:body-local:%v|%v", tb, eb))
				n++
			}
			for _, v := range [][2]bool{{false, false}, {true, false}, {false, true}} {
				emit(mk(false, v[0], v[1]), fmt.Sprintf("mergetable:outer:%v|%v", tb, eb))
				n++
			}
		}
	}
	return n
}
