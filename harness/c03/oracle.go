package main

import (
	"fmt"
	"strings"
)

// Independent path-sensitive linearity oracle (no knowledge of sema's analysis).
// A path fixes every branch condition and the number of iterations of every loop entry
// (0..maxIter).  A concrete machine runs the path: each function has a stack of scopes, every binding
// is live or dead.  A path is linear iff no variable is used or consumed while dead and no variable
// is live when its scope is left (by normal flow, break, continue or return; halting leaves no scope).

type outcome int

const (
	oNormal outcome = iota
	oBreak
	oContinue
	oReturn
	oHalt
)

type binding struct {
	name string
	live bool
}

type violation struct {
	Kind string // "use-after-invalidation" | "invalidated-twice" | "lost" | "unbound"
	Var  string
	// context of the path up to the violation
	AssignDead bool // a force-assignment into a dead variable happened before
	Jumped     bool // a break/continue was taken before
	SecondIter bool // the violation happened while some enclosing loop was in iteration >= 2
	Trace      string
}

// rank: higher = less explained by a known defect class; the reported witness maximises it
func (v *violation) class() (string, int) {
	switch {
	case v.Kind == "unbound":
		return "unbound-variable", 5
	case !v.AssignDead && !v.Jumped && !v.SecondIter:
		return "plain-path", 4
	case !v.AssignDead && !v.Jumped:
		return "second-loop-iteration", 3
	case !v.AssignDead:
		return "path-through-break-or-continue", 2
	}
	return "force-assign-to-invalidated-variable", 1
}

type machine struct {
	choices []int // prescribed choices
	arity   []int // arity of every choice taken
	next    int
	maxIter int

	scopes   [][]binding
	viol     *violation
	trace    []string
	assignD  bool
	jumped   bool
	iterDeep int // number of enclosing loops currently in iteration >= 2
}

func (m *machine) choose(n int) int {
	c := 0
	if m.next < len(m.choices) {
		c = m.choices[m.next]
	}
	if m.next < len(m.arity) {
		m.arity[m.next] = n
	} else {
		m.arity = append(m.arity, n)
	}
	m.next++
	return c
}

func (m *machine) fail(kind, v string) {
	if m.viol == nil {
		m.viol = &violation{Kind: kind, Var: v, AssignDead: m.assignD, Jumped: m.jumped, SecondIter: m.iterDeep > 0,
			Trace: strings.Join(m.trace, "; ")}
	}
}

func (m *machine) lookup(name string) *binding {
	for i := len(m.scopes) - 1; i >= 0; i-- {
		sc := m.scopes[i]
		for j := len(sc) - 1; j >= 0; j-- {
			if sc[j].name == name {
				return &sc[j]
			}
		}
	}
	return nil
}

func (m *machine) use(o *Occ) {
	m.trace = append(m.trace, "use "+o.Name)
	b := m.lookup(o.Name)
	if b == nil {
		m.fail("unbound", o.Name)
	} else if !b.live {
		m.fail("use-after-invalidation", o.Name)
	}
}

func (m *machine) consume(o *Occ, what string) {
	m.trace = append(m.trace, what+" "+o.Name)
	b := m.lookup(o.Name)
	if b == nil {
		m.fail("unbound", o.Name)
	} else if !b.live {
		m.fail("invalidated-twice", o.Name)
	} else {
		b.live = false
	}
}

func (m *machine) refill(o *Occ) {
	if b := m.lookup(o.Name); b != nil {
		b.live = true
	}
}

func (m *machine) assign(o *Occ) {
	m.trace = append(m.trace, "assign "+o.Name)
	b := m.lookup(o.Name)
	if b == nil {
		m.fail("unbound", o.Name)
		return
	}
	if !b.live {
		m.assignD = true
		b.live = true
	}
}

func (m *machine) decl(name string) {
	m.trace = append(m.trace, "decl "+name)
	top := len(m.scopes) - 1
	m.scopes[top] = append(m.scopes[top], binding{name, true})
}

func (m *machine) enter() { m.scopes = append(m.scopes, nil) }
func (m *machine) exit() {
	top := len(m.scopes) - 1
	for _, b := range m.scopes[top] {
		if b.live {
			m.trace = append(m.trace, "scope of "+b.name+" ends")
			m.fail("lost", b.name)
		}
	}
	m.scopes = m.scopes[:top]
}

func (m *machine) scoped(b []*Stmt) outcome {
	m.enter()
	o := m.stmts(b)
	if o != oHalt && m.viol == nil {
		m.exit()
	}
	return o
}

func (m *machine) stmts(b []*Stmt) outcome {
	for _, s := range b {
		if m.viol != nil {
			return oHalt
		}
		if o := m.stmt(s); o != oNormal {
			return o
		}
	}
	return oNormal
}

func (m *machine) stmt(s *Stmt) outcome {
	switch s.K {
	case SLet:
		for _, y := range s.Srcs {
			m.consume(y, "move")
		}
		m.decl(s.X)
	case SLet2:
		m.consume(s.Y, "move")
		if s.Z != nil {
			m.consume(s.Z, "move")
		}
		m.refill(s.Y)
		m.decl(s.X)
	case SAssign:
		if s.Z != nil {
			m.consume(s.Z, "move")
		}
		m.assign(s.Y)
	case SCall:
		if s.Y != nil {
			m.use(s.Y)
		}
		evaluated := true
		if s.OptChain && len(s.Srcs) > 0 {
			evaluated = m.choose(2) == 0
		}
		if evaluated {
			for _, y := range s.Srcs {
				m.consume(y, "move")
			}
		}
		if s.Y != nil {
			m.use(s.Y)
		}
	case SRead:
		m.use(s.Y)
	case SDestroy:
		m.consume(s.Y, "destroy")
	case SSwap:
		m.use(s.Y)
		m.use(s.Z)
	case SIf:
		if m.choose(2) == 0 {
			m.trace = append(m.trace, "then")
			return m.scoped(s.Then)
		}
		m.trace = append(m.trace, "else")
		return m.scoped(s.Else)
	case SIfLet:
		m.consume(s.Y, "move")
		if m.choose(2) == 0 {
			m.trace = append(m.trace, "some")
			m.enter()
			m.decl(s.X)
			o := m.scoped(s.Then)
			if o != oHalt && m.viol == nil {
				m.exit()
			}
			return o
		}
		m.trace = append(m.trace, "nil")
		return m.scoped(s.Else)
	case SLoop:
		deep := false
		res := oNormal
		for it := 1; it <= m.maxIter; it++ {
			if m.choose(2) == 0 {
				break
			}
			m.trace = append(m.trace, fmt.Sprintf("iteration %d", it))
			if it == 2 {
				m.iterDeep++
				deep = true
			}
			o := m.scoped(s.Then)
			if m.viol != nil || o == oBreak {
				break
			}
			if o == oReturn || o == oHalt {
				res = o
				break
			}
		}
		if deep {
			m.iterDeep--
		}
		if res != oNormal {
			return res
		}
	case SBreak:
		m.trace = append(m.trace, "break")
		m.jumped = true
		return oBreak
	case SContinue:
		m.trace = append(m.trace, "continue")
		m.jumped = true
		return oContinue
	case SReturn:
		if s.Y != nil {
			m.consume(s.Y, "move")
		}
		m.trace = append(m.trace, "return")
		return oReturn
	case SHalt:
		m.trace = append(m.trace, "halt")
		return oHalt
	case SFun:
		// declaration only
	}
	if m.viol != nil {
		return oHalt
	}
	return oNormal
}

// runFun runs one path of a function in isolation (parameters live).
func (m *machine) runFun(f *Stmt) {
	m.scopes = nil
	m.enter()
	for _, p := range f.Params {
		m.decl(p.Name)
	}
	m.enter()
	o := m.stmts(f.Then)
	if o != oHalt && m.viol == nil {
		m.exit()
		if m.viol == nil {
			m.exit()
		}
	}
}

type oracleResult struct {
	Paths    int
	Complete bool       // all paths (within the iteration bound) explored
	Witness  *violation // best-ranked violating path, if any
	Fun      string
}

// explore enumerates the paths of every function of the program.
func explore(p *Prog, maxIter, maxPaths int) oracleResult {
	res := oracleResult{Complete: true}
	var funs []*Stmt
	walk([]*Stmt{p.F}, func(s *Stmt) {
		if s.K == SFun {
			funs = append(funs, s)
		}
	})
	best := -1
	for _, f := range funs {
		var choices []int
		for {
			m := &machine{choices: choices, maxIter: maxIter}
			m.runFun(f)
			res.Paths++
			if m.viol != nil {
				if _, r := m.viol.class(); r > best {
					best = r
					res.Witness = m.viol
					res.Fun = f.FName
				}
			}
			// next choice vector (odometer over the choices actually taken)
			taken := make([]int, m.next)
			copy(taken, choices)
			i := m.next - 1
			for ; i >= 0; i-- {
				if taken[i]+1 < m.arity[i] {
					taken[i]++
					taken = taken[:i+1]
					break
				}
			}
			if i < 0 {
				break
			}
			choices = taken
			if res.Paths >= maxPaths {
				res.Complete = false
				break
			}
		}
	}
	return res
}
