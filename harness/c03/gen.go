package main

import (
	"fmt"

	"cvh/lib"
)

// ---------------------------------------------------------------- generation-time scopes

type gbind struct {
	name  string
	k     Kind
	param bool
}

type genv struct {
	scopes [][]gbind
}

func (e *genv) push()       { e.scopes = append(e.scopes, nil) }
func (e *genv) pop()        { e.scopes = e.scopes[:len(e.scopes)-1] }
func (e *genv) add(b gbind) { e.scopes[len(e.scopes)-1] = append(e.scopes[len(e.scopes)-1], b) }
func (e *genv) unadd()      { t := len(e.scopes) - 1; e.scopes[t] = e.scopes[t][:len(e.scopes[t])-1] }
func (e *genv) find(name string) *gbind {
	for i := len(e.scopes) - 1; i >= 0; i-- {
		for j := len(e.scopes[i]) - 1; j >= 0; j-- {
			if e.scopes[i][j].name == name {
				return &e.scopes[i][j]
			}
		}
	}
	return nil
}
func (e *genv) inTop(name string) bool {
	for _, b := range e.scopes[len(e.scopes)-1] {
		if b.name == name {
			return true
		}
	}
	return false
}

// visible returns the innermost binding of every visible name, in a deterministic order.
func (e *genv) visible() []gbind {
	var out []gbind
	seen := map[string]bool{}
	for i := len(e.scopes) - 1; i >= 0; i-- {
		for j := len(e.scopes[i]) - 1; j >= 0; j-- {
			b := e.scopes[i][j]
			if !seen[b.name] {
				seen[b.name] = true
				out = append(out, b)
			}
		}
	}
	return out
}

func occ(n string) *Occ { return &Occ{Name: n} }

// ---------------------------------------------------------------- exhaustive enumeration

// alphabet of an exhaustive family
type family struct {
	Name    string
	Names   []string        // declarable names
	Kinds   map[string]Kind // kind of each name
	Move    bool            // var n <- m
	Use     bool            // n.use()
	Read    bool            // n.id
	Consume bool            // consume(<-n)
	Take    bool            // n.take(<-m)
	Swap    bool
	Assign  bool // o <-! n / o <-! create R()
	IfLet   bool
	Let2    bool
	Opt     bool // o?.take(<-n)
	Jumps   bool
	Return  bool
	Halt    bool
	If      bool
	IfElse  bool
	Loop    bool
	For     bool // also enumerate `for` loops
	Fun     bool // nested function with one parameter
}

type enumerator struct {
	fam    family
	env    *genv
	emit   func(p *Prog)
	prog   *Prog
	count  int
	fnum   int
	retres bool
}

// atoms enumerates all simple statements available in the current environment; for each it
// calls k with the statement after applying its effect on the environment (and undoes it afterwards).
func (en *enumerator) atoms(inLoop bool, k func(*Stmt)) {
	f, e := en.fam, en.env
	vis := e.visible()
	// declarations from create
	for _, n := range f.Names {
		if e.inTop(n) {
			continue
		}
		kd := f.Kinds[n]
		e.add(gbind{name: n, k: kd})
		k(&Stmt{K: SLet, X: n, XK: kd})
		e.unadd()
		if f.Move {
			for _, m := range vis {
				if m.k == KA || m.k > kd {
					continue
				}
				e.add(gbind{name: n, k: kd})
				k(&Stmt{K: SLet, X: n, XK: kd, Wrap: m.k != kd, Srcs: []*Occ{occ(m.name)}})
				e.unadd()
			}
		}
		if f.Let2 {
			for _, m := range vis {
				if m.k != kd || m.param {
					continue
				}
				e.add(gbind{name: n, k: kd})
				k(&Stmt{K: SLet2, X: n, XK: kd, Y: occ(m.name)})
				e.unadd()
				for _, z := range vis {
					if z.k > m.k {
						continue
					}
					e.add(gbind{name: n, k: kd})
					k(&Stmt{K: SLet2, X: n, XK: kd, Y: occ(m.name), Z: occ(z.name)})
					e.unadd()
				}
			}
		}
	}
	for _, m := range vis {
		k(&Stmt{K: SDestroy, Y: occ(m.name)})
		if f.Use && m.k != KA {
			k(&Stmt{K: SCall, Y: occ(m.name), YK: m.k, OptChain: m.k == KO})
		}
		if f.Read {
			k(&Stmt{K: SRead, Y: occ(m.name), YK: m.k})
		}
		if f.Consume {
			k(&Stmt{K: SCall, Srcs: []*Occ{occ(m.name)}})
		}
		if f.Take || f.Opt {
			for _, r := range vis {
				if (r.k == KR && f.Take) || (r.k == KO && f.Opt) {
					k(&Stmt{K: SCall, Y: occ(r.name), YK: r.k, OptChain: r.k == KO, Srcs: []*Occ{occ(m.name)}})
				}
			}
		}
		if f.Assign && m.k == KO && !m.param {
			k(&Stmt{K: SAssign, Y: occ(m.name)})
			for _, z := range vis {
				if z.k != KA {
					k(&Stmt{K: SAssign, Y: occ(m.name), Z: occ(z.name)})
				}
			}
		}
	}
	if f.Swap {
		for i, a := range vis {
			for j, b := range vis {
				if i < j && a.k == b.k && !a.param && !b.param {
					k(&Stmt{K: SSwap, Y: occ(a.name), Z: occ(b.name)})
				}
			}
		}
	}
	if f.Jumps && inLoop {
		k(&Stmt{K: SBreak})
		k(&Stmt{K: SContinue})
	}
	if f.Return {
		if en.retres {
			k(&Stmt{K: SReturn, Create: true})
			for _, m := range vis {
				k(&Stmt{K: SReturn, Y: occ(m.name)})
			}
		} else {
			k(&Stmt{K: SReturn})
		}
	}
	if f.Halt {
		k(&Stmt{K: SHalt})
	}
}

// blocks enumerates all statement lists of total size exactly n.
func (en *enumerator) blocks(n int, inLoop bool, k func([]*Stmt)) {
	if n == 0 {
		k(nil)
		return
	}
	for sz := 1; sz <= n; sz++ {
		en.stmts(sz, inLoop, func(s *Stmt) {
			en.blocks(n-sz, inLoop, func(rest []*Stmt) {
				k(append([]*Stmt{s}, rest...))
			})
		})
	}
}

func (en *enumerator) scopedBlocks(n int, inLoop bool, pre func(), k func([]*Stmt)) {
	en.env.push()
	if pre != nil {
		pre()
	}
	// NOTE: the continuation runs with the inner scope popped
	en.blocks(n, inLoop, func(b []*Stmt) {
		saved := en.env.scopes[len(en.env.scopes)-1]
		en.env.pop()
		k(b)
		en.env.scopes = append(en.env.scopes, saved)
	})
	en.env.pop()
}

// stmts enumerates all statements of size exactly n.
func (en *enumerator) stmts(n int, inLoop bool, k func(*Stmt)) {
	f := en.fam
	if n == 1 {
		en.atoms(inLoop, k)
	}
	// compound statements: the statement itself counts 1
	m := n - 1
	if f.If {
		// empty then-blocks are not enumerated
		for t := 1; t <= m; t++ {
			if t < m && !f.IfElse {
				continue
			}
			el := m - t
			en.scopedBlocks(t, inLoop, nil, func(th []*Stmt) {
				en.scopedBlocks(el, inLoop, nil, func(eb []*Stmt) {
					k(&Stmt{K: SIf, Then: th, Else: eb})
				})
			})
		}
	}
	if f.IfLet && m >= 1 {
		for _, o := range en.env.visible() {
			if o.k != KO {
				continue
			}
			for _, x := range f.Names {
				if f.Kinds[x] != KR {
					continue
				}
				for t := 1; t <= m; t++ {
					el := m - t
					o, x := o, x
					en.env.push()
					en.env.add(gbind{name: x, k: KR})
					en.scopedBlocks(t, inLoop, nil, func(th []*Stmt) {
						saved := en.env.scopes[len(en.env.scopes)-1]
						en.env.pop()
						en.scopedBlocks(el, inLoop, nil, func(eb []*Stmt) {
							k(&Stmt{K: SIfLet, X: x, XK: KR, Y: occ(o.name), Then: th, Else: eb})
						})
						en.env.scopes = append(en.env.scopes, saved)
					})
					en.env.pop()
				}
			}
		}
	}
	if f.Loop && m >= 1 {
		en.scopedBlocks(m, true, nil, func(b []*Stmt) {
			k(&Stmt{K: SLoop, Then: b})
			if f.For {
				k(&Stmt{K: SLoop, Then: b, IsFor: true})
			}
		})
	}
	if f.Fun && m >= 1 {
		// nested function with one resource parameter named like the first declarable name
		saved := en.env
		for _, ret := range []bool{false, true} {
			inner := &genv{}
			// the outer variables stay visible (capturing them is an error the checker must report)
			inner.scopes = append(inner.scopes, saved.visible())
			inner.push()
			pn := f.Names[0]
			inner.add(gbind{name: pn, k: f.Kinds[pn], param: true})
			inner.push()
			en.env = inner
			ret := ret
			savedRet := en.retres
			en.retres = ret
			en.blocks(m, false, func(b []*Stmt) {
				cur := en.env
				en.env = saved
				en.retres = savedRet
				defer func() { en.retres = ret }()
				en.fnum++
				k(&Stmt{K: SFun, FName: fmt.Sprintf("f%d", en.fnum), Params: []*Param{{Name: pn, K: f.Kinds[pn]}}, RetRes: ret, Then: b})
				en.env = cur
			})
			en.env = saved
			en.retres = savedRet
		}
	}
}

// enumerate calls emit for every program of the family whose body has between 1 and maxSize nodes.
func enumerate(fam family, maxSize int, emit func(p *Prog)) int {
	en := &enumerator{fam: fam, env: &genv{}}
	en.env.push() // parameter scope (empty)
	en.env.push() // body scope
	n := 0
	for sz := 1; sz <= maxSize; sz++ {
		en.blocks(sz, false, func(b []*Stmt) {
			n++
			emit(&Prog{F: &Stmt{K: SFun, FName: "test", Then: b}})
		})
	}
	return n
}

var famCore = family{Name: "core1", Names: []string{"a"}, Kinds: map[string]Kind{"a": KR},
	Use: true, Jumps: true, Return: true, Halt: true, If: true, IfElse: true, Loop: true}

var famRich = family{Name: "rich2", Names: []string{"a", "b"}, Kinds: map[string]Kind{"a": KR, "b": KR},
	Move: true, Use: true, Consume: true, Take: true, Swap: true, Jumps: true, Return: true, Halt: true,
	If: true, IfElse: true, Loop: true, For: true}

var famOpt = family{Name: "opt2", Names: []string{"o", "a"}, Kinds: map[string]Kind{"o": KO, "a": KR},
	Move: true, Read: true, Assign: true, IfLet: true, Let2: true, Opt: true, Return: true, Halt: true,
	If: true, IfElse: true, Loop: true, Jumps: true}

var famFun = family{Name: "fun1", Names: []string{"a"}, Kinds: map[string]Kind{"a": KR},
	Consume: true, Return: true, Halt: true, If: true, IfElse: true, Loop: true, Jumps: true, Fun: true}

// ---------------------------------------------------------------- random generation

type status int

const (
	stLive status = iota
	stDead
	stMaybe
)

type rbind struct {
	gbind
	st status
}

func (b *rbind) markConsumed() {
	if b.st == stLive {
		b.st = stDead
	} else {
		b.st = stMaybe
	}
}

// rgen generates mostly-linear programs: it tracks for every binding whether it is live, dead or unknown,
// prefers operations that keep the program linear and repairs branches / scope ends / exits with high probability.
type rgen struct {
	rng      *lib.Rng
	scopes   [][]*rbind
	funBase  int   // index of the first scope of the current function
	loopBase []int // stack: index of the first scope inside each enclosing loop of the current function
	retres   bool
	nvar     int
	nfun     int
	budget   int
	names    []string
}

func (g *rgen) visible() []*rbind {
	var out []*rbind
	seen := map[string]bool{}
	for i := len(g.scopes) - 1; i >= 0; i-- {
		for j := len(g.scopes[i]) - 1; j >= 0; j-- {
			b := g.scopes[i][j]
			if !seen[b.name] {
				seen[b.name] = true
				// variables of enclosing functions are visible but (mostly) not chosen
				if i >= g.funBase || g.rng.Chance(1, 8) {
					out = append(out, b)
				}
			}
		}
	}
	return out
}

func (g *rgen) inTop(n string) bool {
	for _, b := range g.scopes[len(g.scopes)-1] {
		if b.name == n {
			return true
		}
	}
	return false
}

func (g *rgen) freshName() string {
	for tries := 0; tries < 4; tries++ {
		n := lib.Pick(g.rng, g.names)
		if !g.inTop(n) {
			return n
		}
	}
	g.nvar++
	return fmt.Sprintf("v%d", g.nvar)
}

func (g *rgen) declare(n string, k Kind) *rbind {
	t := len(g.scopes) - 1
	b := &rbind{gbind: gbind{name: n, k: k}}
	g.scopes[t] = append(g.scopes[t], b)
	return b
}

func (g *rgen) pickVar(pred func(*rbind) bool) *rbind {
	var good, any []*rbind
	for _, b := range g.visible() {
		if pred != nil && !pred(b) {
			continue
		}
		any = append(any, b)
		if b.st == stLive {
			good = append(good, b)
		}
	}
	if len(good) > 0 && g.rng.Chance(9, 10) {
		return lib.Pick(g.rng, good)
	}
	if len(any) > 0 && g.rng.Chance(1, 3) {
		return lib.Pick(g.rng, any)
	}
	return nil
}

func (g *rgen) all() []*rbind {
	var out []*rbind
	for _, sc := range g.scopes {
		out = append(out, sc...)
	}
	return out
}

func snapOf(bs []*rbind) []status {
	s := make([]status, len(bs))
	for i, b := range bs {
		s[i] = b.st
	}
	return s
}

func restoreTo(bs []*rbind, s []status) {
	for i, b := range bs {
		b.st = s[i]
	}
}

func (g *rgen) consumeStmt(v *rbind) *Stmt {
	v.markConsumed()
	if g.rng.Intn(3) == 0 {
		return &Stmt{K: SCall, Srcs: []*Occ{occ(v.name)}}
	}
	return &Stmt{K: SDestroy, Y: occ(v.name)}
}

// cleanup consumes (with high probability) every live variable of the scopes from index `from` upwards
func (g *rgen) cleanup(from int) []*Stmt {
	var out []*Stmt
	for i := len(g.scopes) - 1; i >= from; i-- {
		for _, v := range g.scopes[i] {
			if v.st == stLive && !g.rng.Chance(1, 12) {
				out = append(out, g.consumeStmt(v))
			}
		}
	}
	return out
}

// block generates a scoped block of about n statements.
func (g *rgen) block(n int, inLoop bool) (b []*Stmt, exits bool) {
	g.scopes = append(g.scopes, nil)
	b, exits = g.stmts(n, inLoop)
	if !exits {
		b = append(b, g.cleanup(len(g.scopes)-1)...)
	}
	g.scopes = g.scopes[:len(g.scopes)-1]
	return
}

func (g *rgen) stmts(n int, inLoop bool) (b []*Stmt, exits bool) {
	for i := 0; i < n && g.budget > 0 && !exits; i++ {
		var ss []*Stmt
		ss, exits = g.stmt(inLoop)
		b = append(b, ss...)
	}
	return
}

// branches generates the two blocks of a conditional from the same state and makes the outer variables agree
// afterwards (a variable consumed in only one branch is consumed at the end of the other, with high probability).
func (g *rgen) branches(inLoop bool, genThen func() ([]*Stmt, bool)) (th, el []*Stmt, exits bool) {
	outer := g.all()
	before := snapOf(outer)
	th, exT := genThen()
	afterT := snapOf(outer)
	restoreTo(outer, before)
	var exE bool
	if g.rng.Chance(2, 3) {
		el, exE = g.block(1+g.rng.Intn(3), inLoop)
	}
	afterE := snapOf(outer)
	for i, v := range outer {
		t, e := afterT[i], afterE[i]
		switch {
		case exT && exE:
			v.st = before[i]
		case exT:
			v.st = e
		case exE:
			v.st = t
		case t == e:
			v.st = t
		case t == stDead && e == stLive && g.rng.Chance(5, 6):
			el = append(el, &Stmt{K: SDestroy, Y: occ(v.name)})
			v.st = stDead
		case t == stLive && e == stDead && g.rng.Chance(5, 6):
			th = append(th, &Stmt{K: SDestroy, Y: occ(v.name)})
			v.st = stDead
		default:
			v.st = stMaybe
		}
	}
	return th, el, exT && exE
}

func (g *rgen) stmt(inLoop bool) ([]*Stmt, bool) {
	g.budget--
	r := g.rng
	one := func(s *Stmt) ([]*Stmt, bool) { return []*Stmt{s}, false }
	switch c := r.Intn(100); {
	case c < 16: // create
		n := g.freshName()
		k := KR
		if r.Chance(1, 4) {
			k = KO
		}
		g.declare(n, k)
		return one(&Stmt{K: SLet, X: n, XK: k})
	case c < 24: // move into a new variable / array / optional
		v := g.pickVar(nil)
		if v == nil {
			return nil, false
		}
		n := g.freshName()
		switch {
		case v.k == KA || r.Chance(1, 4):
			srcs := []*Occ{occ(v.name)}
			v.markConsumed()
			if w := g.pickVar(func(b *rbind) bool { return b != v }); w != nil && r.Bool() {
				srcs = append(srcs, occ(w.name))
				w.markConsumed()
			}
			g.declare(n, KA)
			return one(&Stmt{K: SLet, X: n, XK: KA, Srcs: srcs})
		case v.k == KR && r.Chance(1, 3):
			v.markConsumed()
			g.declare(n, KO)
			return one(&Stmt{K: SLet, X: n, XK: KO, Wrap: true, Srcs: []*Occ{occ(v.name)}})
		default:
			v.markConsumed()
			g.declare(n, v.k)
			return one(&Stmt{K: SLet, X: n, XK: v.k, Srcs: []*Occ{occ(v.name)}})
		}
	case c < 27: // second-value transfer
		y := g.pickVar(func(b *rbind) bool { return b.k != KA && !b.param })
		if y == nil {
			return nil, false
		}
		n := g.freshName()
		s := &Stmt{K: SLet2, X: n, XK: y.k, Y: occ(y.name)}
		if z := g.pickVar(func(b *rbind) bool { return b.k <= y.k && b != y }); z != nil && r.Bool() {
			s.Z = occ(z.name)
			z.markConsumed()
		}
		g.declare(n, y.k)
		return one(s)
	case c < 31: // force assignment
		o := g.pickVar(func(b *rbind) bool { return b.k == KO && !b.param })
		if o == nil {
			return nil, false
		}
		s := &Stmt{K: SAssign, Y: occ(o.name)}
		if z := g.pickVar(func(b *rbind) bool { return b.k != KA && b != o }); z != nil && r.Bool() {
			s.Z = occ(z.name)
			z.markConsumed()
		}
		return one(s)
	case c < 43: // destroy / consume
		v := g.pickVar(nil)
		if v == nil {
			return nil, false
		}
		return one(g.consumeStmt(v))
	case c < 50: // calls with receiver
		y := g.pickVar(func(b *rbind) bool { return b.k != KA })
		if y == nil {
			return nil, false
		}
		s := &Stmt{K: SCall, Y: occ(y.name), YK: y.k, OptChain: y.k == KO}
		nargs := r.Intn(3)
		for i := 0; i < nargs; i++ {
			if z := g.pickVar(func(b *rbind) bool { return b != y }); z != nil {
				s.Srcs = append(s.Srcs, occ(z.name))
				if s.OptChain {
					z.st = stMaybe
				} else {
					z.markConsumed()
				}
			}
		}
		return one(s)
	case c < 54: // consume with several arguments
		s := &Stmt{K: SCall}
		nargs := 1 + r.Intn(3)
		for i := 0; i < nargs; i++ {
			if z := g.pickVar(nil); z != nil {
				s.Srcs = append(s.Srcs, occ(z.name))
				z.markConsumed()
			}
		}
		return one(s)
	case c < 58:
		y := g.pickVar(nil)
		if y == nil {
			return nil, false
		}
		return one(&Stmt{K: SRead, Y: occ(y.name), YK: y.k})
	case c < 61:
		y := g.pickVar(func(b *rbind) bool { return !b.param })
		if y == nil {
			return nil, false
		}
		z := g.pickVar(func(b *rbind) bool { return !b.param && b.k == y.k && b != y })
		if z == nil {
			return nil, false
		}
		return one(&Stmt{K: SSwap, Y: occ(y.name), Z: occ(z.name)})
	case c < 73: // if / else
		th, el, ex := g.branches(inLoop, func() ([]*Stmt, bool) { return g.block(1+r.Intn(3), inLoop) })
		return []*Stmt{{K: SIf, Then: th, Else: el, HasElse: el != nil || r.Chance(1, 5)}}, ex
	case c < 78: // optional binding
		o := g.pickVar(func(b *rbind) bool { return b.k == KO })
		if o == nil {
			return nil, false
		}
		o.markConsumed()
		x := g.freshName()
		th, el, ex := g.branches(inLoop, func() ([]*Stmt, bool) {
			// the bound variable lives in an extra scope around the then-block
			g.scopes = append(g.scopes, nil)
			xb := g.declare(x, KR)
			g.scopes = append(g.scopes, nil)
			b, exits := g.stmts(1+r.Intn(3), inLoop)
			if !exits {
				b = append(b, g.cleanup(len(g.scopes)-2)...)
			}
			_ = xb
			g.scopes = g.scopes[:len(g.scopes)-2]
			return b, exits
		})
		return []*Stmt{{K: SIfLet, X: x, XK: KR, Y: occ(o.name), Then: th, Else: el, HasElse: el != nil}}, ex
	case c < 86: // loop
		outer := g.all()
		before := snapOf(outer)
		g.loopBase = append(g.loopBase, len(g.scopes))
		b, _ := g.block(1+r.Intn(4), true)
		g.loopBase = g.loopBase[:len(g.loopBase)-1]
		for i, v := range outer {
			if v.st != before[i] {
				v.st = stMaybe
			}
		}
		return one(&Stmt{K: SLoop, Then: b, IsFor: r.Chance(1, 3)})
	case c < 90: // break / continue
		if !inLoop {
			if r.Chance(1, 20) {
				return one(&Stmt{K: SBreak})
			}
			return nil, false
		}
		k := SBreak
		if r.Bool() {
			k = SContinue
		}
		out := g.cleanup(g.loopBase[len(g.loopBase)-1])
		return append(out, &Stmt{K: k}), true
	case c < 95: // return
		ret := &Stmt{K: SReturn}
		if g.retres {
			if v := g.pickVar(nil); v != nil && r.Chance(2, 3) {
				v.markConsumed()
				ret.Y = occ(v.name)
			} else {
				ret.Create = true
			}
		}
		out := g.cleanup(g.funBase)
		return append(out, ret), true
	case c < 98:
		return []*Stmt{{K: SHalt}}, true
	default: // nested function
		return one(g.function(fmt.Sprintf("f%d", g.nextFun()), r.Intn(3), 1+r.Intn(5)))
	}
}

func (g *rgen) nextFun() int { g.nfun++; return g.nfun }

// function generates a function declaration; the variables of the enclosing functions stay visible
// (capturing them must be reported by the checker) but are rarely chosen.
func (g *rgen) function(name string, nparams, size int) *Stmt {
	r := g.rng
	savedBase, savedLoops, savedRet := g.funBase, g.loopBase, g.retres
	g.funBase, g.loopBase, g.retres = len(g.scopes), nil, r.Chance(1, 4)
	f := &Stmt{K: SFun, FName: name, RetRes: g.retres}
	g.scopes = append(g.scopes, nil)
	for i := 0; i < nparams; i++ {
		pn := fmt.Sprintf("p%d", i)
		if r.Chance(1, 3) {
			pn = g.freshName()
		}
		if g.inTop(pn) {
			continue
		}
		k := KR
		if r.Chance(1, 3) {
			k = KO
		}
		t := len(g.scopes) - 1
		g.scopes[t] = append(g.scopes[t], &rbind{gbind: gbind{name: pn, k: k, param: true}})
		f.Params = append(f.Params, &Param{Name: pn, K: k})
	}
	g.scopes = append(g.scopes, nil)
	b, ex := g.stmts(size, false)
	if !ex {
		if g.retres && !r.Chance(1, 10) {
			ret := &Stmt{K: SReturn, Create: true}
			if v := g.pickVar(nil); v != nil && r.Chance(2, 3) {
				v.markConsumed()
				ret.Create = false
				ret.Y = occ(v.name)
			}
			b = append(b, g.cleanup(g.funBase)...)
			b = append(b, ret)
		} else {
			b = append(b, g.cleanup(g.funBase)...)
		}
	}
	g.scopes = g.scopes[:len(g.scopes)-2]
	g.funBase, g.loopBase, g.retres = savedBase, savedLoops, savedRet
	f.Then = b
	return f
}

// randomProg generates a mostly-linear program of about `size` statements.
func randomProg(rng *lib.Rng, size int) *Prog {
	g := &rgen{rng: rng, budget: size, names: []string{"a", "b", "c", "o"}}
	return &Prog{F: g.function("test", rng.Intn(3), size)}
}

// ---------------------------------------------------------------- violation injection

type blockRef struct {
	b      *[]*Stmt
	vis    []gbind // bindings visible at the start of the block (innermost last)
	loop   bool
	owner  *Stmt
	retres bool // the enclosing function returns a resource
}

// blocksWithScope lists every block of the program with the bindings visible at its start.
func blocksWithScope(f *Stmt) []blockRef {
	var out []blockRef
	var recFun func(f *Stmt, outer []gbind)
	var recBlock func(b *[]*Stmt, vis []gbind, loop bool, owner *Stmt)
	retres := false
	recBlock = func(b *[]*Stmt, vis []gbind, loop bool, owner *Stmt) {
		out = append(out, blockRef{b, append([]gbind{}, vis...), loop, owner, retres})
		cur := append([]gbind{}, vis...)
		for _, s := range *b {
			switch s.K {
			case SLet, SLet2:
				cur = append(cur, gbind{name: s.X, k: s.XK})
			case SIf:
				recBlock(&s.Then, cur, loop, s)
				recBlock(&s.Else, cur, loop, s)
			case SIfLet:
				recBlock(&s.Then, append(append([]gbind{}, cur...), gbind{name: s.X, k: KR}), loop, s)
				recBlock(&s.Else, cur, loop, s)
			case SLoop:
				recBlock(&s.Then, cur, true, s)
			case SFun:
				recFun(s, cur)
			}
		}
	}
	recFun = func(f *Stmt, outer []gbind) {
		vis := append([]gbind{}, outer...)
		for _, p := range f.Params {
			vis = append(vis, gbind{name: p.Name, k: p.K, param: true})
		}
		saved := retres
		retres = f.RetRes
		recBlock(&f.Then, vis, false, f)
		retres = saved
	}
	recFun(f, nil)
	return out
}

// visibleAt returns the bindings visible before statement index i of the block (innermost binding per name).
func (br blockRef) visibleAt(i int) []gbind {
	cur := append([]gbind{}, br.vis...)
	for j, s := range *br.b {
		if j >= i {
			break
		}
		if s.K == SLet || s.K == SLet2 {
			cur = append(cur, gbind{name: s.X, k: s.XK})
		}
	}
	seen := map[string]bool{}
	var out []gbind
	for j := len(cur) - 1; j >= 0; j-- {
		if !seen[cur[j].name] {
			seen[cur[j].name] = true
			out = append(out, cur[j])
		}
	}
	return out
}

func cloneStmt(s *Stmt) *Stmt {
	c := *s
	cp := func(o *Occ) *Occ {
		if o == nil {
			return nil
		}
		d := *o
		return &d
	}
	c.Y, c.Z = cp(s.Y), cp(s.Z)
	c.Srcs = nil
	for _, o := range s.Srcs {
		c.Srcs = append(c.Srcs, cp(o))
	}
	c.Then, c.Else = nil, nil
	for _, t := range s.Then {
		c.Then = append(c.Then, cloneStmt(t))
	}
	for _, t := range s.Else {
		c.Else = append(c.Else, cloneStmt(t))
	}
	c.Params = nil
	for _, p := range s.Params {
		d := *p
		c.Params = append(c.Params, &d)
	}
	return &c
}

func isDecl(s *Stmt) bool { return s.K == SLet || s.K == SLet2 || s.K == SFun }

// inject applies one random edit that typically introduces (or removes) a linearity violation.
// Edits keep the program well-scoped and well-typed, so that only linearity and control-flow errors can arise.
func inject(rng *lib.Rng, p *Prog) string {
	blocks := blocksWithScope(p.F)
	br := lib.Pick(rng, blocks)
	b := *br.b
	insAt := func(i int, s *Stmt) {
		nb := append([]*Stmt{}, b[:i]...)
		nb = append(nb, s)
		nb = append(nb, b[i:]...)
		*br.b = nb
	}
	switch c := rng.Intn(10); {
	case c < 2 && len(b) > 0: // drop a statement (not a declaration: later uses must stay bound)
		i := rng.Intn(len(b))
		if isDecl(b[i]) {
			return "none"
		}
		*br.b = append(append([]*Stmt{}, b[:i]...), b[i+1:]...)
		return "drop"
	case c < 4 && len(b) > 0: // duplicate a statement
		i := rng.Intn(len(b))
		if b[i].K == SFun {
			return "none"
		}
		insAt(i+1, cloneStmt(b[i]))
		return "duplicate"
	case c < 6: // extra destroy / consume of a visible variable
		i := rng.Intn(len(b) + 1)
		vis := br.visibleAt(i)
		if len(vis) == 0 {
			return "none"
		}
		v := lib.Pick(rng, vis)
		if rng.Bool() {
			insAt(i, &Stmt{K: SDestroy, Y: occ(v.name)})
		} else {
			insAt(i, &Stmt{K: SRead, Y: occ(v.name), YK: v.k})
		}
		return "extra-use"
	case c < 7: // exit in the middle
		i := rng.Intn(len(b) + 1)
		insAt(i, exitStmt(rng, br))
		return "exit"
	case c < 9 && len(b) > 0: // wrap a statement into if / loop
		i := rng.Intn(len(b))
		if isDecl(b[i]) {
			return "none"
		}
		w := &Stmt{K: SIf, Then: []*Stmt{b[i]}}
		if rng.Chance(1, 3) {
			w = &Stmt{K: SLoop, Then: []*Stmt{b[i]}}
		}
		nb := append([]*Stmt{}, b...)
		nb[i] = w
		*br.b = nb
		return "wrap"
	default: // conditional exit
		i := rng.Intn(len(b) + 1)
		insAt(i, &Stmt{K: SIf, Then: []*Stmt{exitStmt(rng, br)}})
		return "cond-exit"
	}
}

func exitStmt(rng *lib.Rng, br blockRef) *Stmt {
	s := &Stmt{K: exitKind(rng, br.loop)}
	if s.K == SReturn && br.retres {
		s.Create = true
	}
	return s
}

func exitKind(rng *lib.Rng, inLoop bool) SK {
	if inLoop || rng.Chance(1, 10) {
		return []SK{SReturn, SHalt, SBreak, SContinue}[rng.Intn(4)]
	}
	return []SK{SReturn, SHalt}[rng.Intn(2)]
}
