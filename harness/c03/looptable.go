package main

// Loop-exit table: systematic enumeration of loop bodies that invalidate a resource declared OUTSIDE the loop,
// jump (break/continue) conditionally, and end with or without a definite return/halt, followed by uses and
// invalidations after the loop.  It exercises FunctionActivation.WithLoop (clearing of the definite-exit flags
// when a path jumped, restoring MaybeJumpedLoop / the jump offsets) and the loop merge of checkPotentiallyUnevaluated.
//
//   var r <- create R()
//   [while cond() { if cond() { break }]          -- optional enclosing loop that already jumped
//   while|for { A; J; B; T }
//   AFTER
//
//   A, B  in {-, destroy r, consume(<-r), r.use()}           (B without use)
//   J     in {-, if{break}, if{continue}, if{break}else{continue}, if{destroy r; break}, if{destroy r; continue},
//             if{destroy r; break}else{destroy r}, if{destroy r}else{destroy r; continue}}
//   T     in {-, return, panic, if{return}, if{return}else{return}}
//   AFTER in {-, destroy r, r.use(); destroy r}

func ltAction(k int) []*Stmt {
	switch k {
	case 1:
		return []*Stmt{destroy("r")}
	case 2:
		return []*Stmt{consume("r")}
	case 3:
		return []*Stmt{use("r")}
	}
	return nil
}

func ltJump(k int) []*Stmt {
	switch k {
	case 1:
		return []*Stmt{iff(blk(brk()))}
	case 2:
		return []*Stmt{iff(blk(cont()))}
	case 3:
		return []*Stmt{iff(blk(brk()), cont())}
	case 4:
		return []*Stmt{iff(blk(destroy("r"), brk()))}
	case 5:
		return []*Stmt{iff(blk(destroy("r"), cont()))}
	case 6:
		return []*Stmt{iff(blk(destroy("r"), brk()), destroy("r"))}
	case 7:
		return []*Stmt{iff(blk(destroy("r")), destroy("r"), cont())}
	}
	return nil
}

func ltTail(k int) []*Stmt {
	switch k {
	case 1:
		return []*Stmt{ret()}
	case 2:
		return []*Stmt{halt()}
	case 3:
		return []*Stmt{iff(blk(ret()))}
	case 4:
		return []*Stmt{iff(blk(ret()), ret())}
	}
	return nil
}

func ltAfter(k int) []*Stmt {
	switch k {
	case 1:
		return []*Stmt{destroy("r")}
	case 2:
		return []*Stmt{use("r"), destroy("r")}
	}
	return nil
}

// loopTable calls emit for every program of the family.
func loopTable(emit func(p *Prog)) int {
	n := 0
	for a := 0; a < 4; a++ {
		for j := 0; j < 8; j++ {
			for b := 0; b < 3; b++ {
				for t := 0; t < 5; t++ {
					for af := 0; af < 3; af++ {
						for nest := 0; nest < 2; nest++ {
							if nest == 1 && t != 1 && t != 4 {
								continue
							}
							var body []*Stmt
							body = append(body, ltAction(a)...)
							body = append(body, ltJump(j)...)
							body = append(body, ltAction(b)...)
							body = append(body, ltTail(t)...)
							loop := &Stmt{K: SLoop, Then: body, IsFor: (a+j+b+t+af)%2 == 1}
							top := []*Stmt{create("r")}
							if nest == 1 {
								inner := []*Stmt{iff(blk(brk())), loop}
								inner = append(inner, ltAfter(af)...)
								top = append(top, &Stmt{K: SLoop, Then: inner})
							} else {
								top = append(top, loop)
								top = append(top, ltAfter(af)...)
							}
							emit(&Prog{F: &Stmt{K: SFun, FName: "test", Then: top}})
							n++
						}
					}
				}
			}
		}
	}
	return n
}
