package main

import (
	"encoding/json"
	"os"
	"path/filepath"
)

// small constructors for hand-written programs
func create(x string) *Stmt  { return &Stmt{K: SLet, X: x, XK: KR} }
func createO(x string) *Stmt { return &Stmt{K: SLet, X: x, XK: KO} }
func move(x, y string) *Stmt { return &Stmt{K: SLet, X: x, XK: KR, Srcs: []*Occ{occ(y)}} }
func destroy(y string) *Stmt { return &Stmt{K: SDestroy, Y: occ(y)} }
func use(y string) *Stmt     { return &Stmt{K: SCall, Y: occ(y), YK: KR} }
func consume(ys ...string) *Stmt {
	s := &Stmt{K: SCall}
	for _, y := range ys {
		s.Srcs = append(s.Srcs, occ(y))
	}
	return s
}
func iff(th []*Stmt, el ...*Stmt) *Stmt {
	return &Stmt{K: SIf, Then: th, Else: el, HasElse: len(el) > 0}
}
func while(b ...*Stmt) *Stmt { return &Stmt{K: SLoop, Then: b} }
func forr(b ...*Stmt) *Stmt  { return &Stmt{K: SLoop, Then: b, IsFor: true} }
func blk(b ...*Stmt) []*Stmt { return b }
func brk() *Stmt             { return &Stmt{K: SBreak} }
func cont() *Stmt            { return &Stmt{K: SContinue} }
func ret() *Stmt             { return &Stmt{K: SReturn} }
func halt() *Stmt            { return &Stmt{K: SHalt} }
func assign(o string, z string) *Stmt {
	s := &Stmt{K: SAssign, Y: occ(o)}
	if z != "" {
		s.Z = occ(z)
	}
	return s
}
func iflet(x, o string, th []*Stmt, el ...*Stmt) *Stmt {
	return &Stmt{K: SIfLet, X: x, XK: KR, Y: occ(o), Then: th, Else: el, HasElse: len(el) > 0}
}
func fn(body ...*Stmt) *Stmt { return &Stmt{K: SFun, FName: "test", Then: body} }

func builtinCorpus() []corpusEntry {
	return []corpusEntry{
		// ---- witnesses of the known findings (soundness direction: accepted although a path is non-linear)
		{"F1-force-assign-after-destroy", "o <-! e into an invalidated variable is neither reported nor re-validated: the new resource is lost",
			fn(createO("o"), destroy("o"), assign("o", ""))},
		{"F1-force-assign-self", "o <-! o", fn(createO("o"), assign("o", "o"))},
		{"F2-loop-then-halt", "a resource destroyed in a loop body is destroyed again in the second iteration; only the (halt-suppressed) loss check would notice",
			fn(create("a"), while(destroy("a")), halt())},
		{"F2-loop-use-then-halt", "", fn(create("a"), while(use("a"), consume("a")), halt())},
		{"F3-halted-branch-with-break", "else-branch is DefinitelyHalted although a break escapes from it: then-branch invalidation counted as definite",
			fn(while(create("x"), iff(blk(destroy("x")), iff(blk(brk())), halt())))},
		{"F3-halted-branch-with-continue", "", fn(forr(create("x"), iff(blk(iff(blk(cont())), halt()), destroy("x"))))},
		{"F4-returned-branch-with-break", "then-branch is DefinitelyReturned although a break escapes from it: its invalidation is dropped",
			fn(create("v"), while(iff(blk(destroy("v"), iff(blk(brk())), ret()))), destroy("v"))},
		{"F4-returned-branch-with-continue", "", fn(create("v"), forr(iff(blk(destroy("v"), iff(blk(cont())), ret()))), destroy("v"))},
		// ---- witnesses of the known findings (converse direction: rejected although all paths are linear)
		{"I1-destroy-then-halt-in-branch", "", fn(create("a"), iff(blk(destroy("a"), halt())), destroy("a"))},
		{"I2-destroy-then-break-in-branch", "", fn(while(create("a"), iff(blk(destroy("a"), brk())), destroy("a")))},
		{"I2-destroy-then-continue-in-branch", "", fn(while(create("a"), iff(blk(destroy("a"), cont())), destroy("a")))},
		{"I3-nested-returning-branches", "", fn(create("x"), iff(blk(iff(blk(destroy("x"), ret()), destroy("x"), ret())), destroy("x")))},
		{"I4-reassigned-optional", "", fn(createO("o"), destroy("o"), assign("o", ""), destroy("o"))},
		// ---- ordinary cases
		{"ok-simple", "", fn(create("a"), destroy("a"))},
		{"loss-simple", "", fn(create("a"))},
		{"double-destroy", "", fn(create("a"), destroy("a"), destroy("a"))},
		{"branch-one-sided", "", fn(create("a"), iff(blk(destroy("a"))))},
		{"branch-both", "", fn(create("a"), iff(blk(destroy("a")), consume("a")))},
		{"branch-return", "", fn(create("a"), iff(blk(destroy("a"), ret())), destroy("a"))},
		{"loop-body-local", "", fn(while(create("a"), iff(blk(brk())), destroy("a")))},
		{"loop-outer", "", fn(create("a"), while(destroy("a")))},
		{"loop-return", "", fn(create("a"), while(destroy("a"), ret()), destroy("a"))},
		{"nested-loop-inner-if", "resource moved in only one branch of a nested if inside a loop", fn(while(create("a"), iff(blk(iff(blk(consume("a")))), destroy("a")), use("a")))},
		{"shadow-return", "", fn(create("a"), iff(blk(create("a"), destroy("a"), ret())), destroy("a"))},
		{"iflet", "", fn(createO("o"), iflet("x", "o", blk(destroy("x"))))},
		{"iflet-else-use", "", fn(createO("o"), iflet("x", "o", blk(destroy("x")), destroy("o")))},
		{"unreachable", "", fn(create("a"), ret(), destroy("a"))},
		{"swap", "", fn(create("a"), create("b"), &Stmt{K: SSwap, Y: occ("a"), Z: occ("b")}, destroy("a"), destroy("b"))},
		{"second-value", "", fn(create("a"), create("b"), &Stmt{K: SLet2, X: "x", XK: KR, Y: occ("a"), Z: occ("b")}, destroy("x"), destroy("a"))},
		{"second-value-self", "", fn(create("a"), &Stmt{K: SLet2, X: "x", XK: KR, Y: occ("a"), Z: occ("a")}, destroy("x"), destroy("a"))},
		{"take-self", "", fn(create("a"), &Stmt{K: SCall, Y: occ("a"), YK: KR, Srcs: []*Occ{occ("a")}})},
		{"optchain-arg", "", fn(create("a"), createO("o"), &Stmt{K: SCall, Y: occ("o"), YK: KO, OptChain: true, Srcs: []*Occ{occ("a")}}, destroy("o"), destroy("a"))},
		{"capture", "", fn(create("a"), &Stmt{K: SFun, FName: "inner", Then: blk(destroy("a"))})},
		{"nested-fun-param", "", fn(&Stmt{K: SFun, FName: "inner", Params: []*Param{{Name: "p", K: KR}}, RetRes: true, Then: blk(iff(blk(&Stmt{K: SReturn, Y: occ("p")})))})},
		{"break-outside", "", fn(brk())},
		{"redeclare", "", fn(create("a"), create("a"), destroy("a"))},
	}
}

func writeCorpus(dir string) {
	if err := os.MkdirAll(dir, 0o755); err != nil {
		panic(err)
	}
	b, _ := json.MarshalIndent(builtinCorpus(), "", " ")
	if err := os.WriteFile(filepath.Join(dir, "handpicked.json"), b, 0o644); err != nil {
		panic(err)
	}
}
