package main

import (
	"fmt"
	"strings"
)

const prelude = `resource R {
    let id: Int
    init() { self.id = 1 }
    fun use() {}
    fun take(_ r: @AnyResource?) { destroy r }
    fun take2(_ r: @AnyResource?, _ s: @AnyResource?) { destroy r; destroy s }
    fun take3(_ r: @AnyResource?, _ s: @AnyResource?, _ t: @AnyResource?) { destroy r; destroy s; destroy t }
}
fun consume(_ r: @AnyResource?) { destroy r }
fun consume2(_ r: @AnyResource?, _ s: @AnyResource?) { destroy r; destroy s }
fun consume3(_ r: @AnyResource?, _ s: @AnyResource?, _ t: @AnyResource?) { destroy r; destroy s; destroy t }
fun cond(): Bool { return true }
let ints = [1, 2]
`

type renderer struct {
	sb      strings.Builder
	forVar  int
	varDecl map[string]bool // names that must be declared with `var` (assignment / swap targets)
	letTick int
}

func (r *renderer) off() int { return r.sb.Len() }
func (r *renderer) w(s string) {
	r.sb.WriteString(s)
}

func (r *renderer) occ(o *Occ) {
	o.Pos = r.off()
	r.w(o.Name)
}

func typeOf(k Kind) string {
	switch k {
	case KR:
		return "@R"
	case KO:
		return "@R?"
	}
	return "@[AnyResource?]"
}

func (r *renderer) moveList(os []*Occ) {
	for i, o := range os {
		if i > 0 {
			r.w(", ")
		}
		r.w("<-")
		r.occ(o)
	}
}

// declKw chooses `let` or `var` for a local declaration; names that are targets of an
// assignment or swap anywhere in the program are always `var`.
func (r *renderer) declKw(name string) string {
	if r.varDecl[name] {
		return "var"
	}
	r.letTick++
	if r.letTick%3 == 0 {
		return "let"
	}
	return "var"
}

func (r *renderer) block(b []*Stmt, ind string) {
	r.w("{\n")
	for _, s := range b {
		r.w(ind + "    ")
		r.stmt(s, ind+"    ")
		r.w("\n")
	}
	r.w(ind + "}")
}

func (r *renderer) stmt(s *Stmt, ind string) {
	s.Pos = r.off()
	switch s.K {
	case SLet:
		r.w(r.declKw(s.X) + " ")
		s.XPos = r.off()
		r.w(s.X)
		switch {
		case s.XK == KA:
			r.w(": @[AnyResource?] <- [")
			r.moveList(s.Srcs)
			r.w("]")
		case len(s.Srcs) == 0:
			if s.XK == KO {
				r.w(": @R?")
			}
			r.w(" <- create R()")
		default:
			if s.Wrap {
				r.w(": @R?")
			}
			r.w(" <- ")
			r.occ(s.Srcs[0])
		}
	case SLet2:
		r.w(r.declKw(s.X) + " ")
		s.XPos = r.off()
		r.w(s.X)
		r.w(" <- ")
		r.occ(s.Y)
		r.w(" <- ")
		if s.Z != nil {
			r.occ(s.Z)
		} else {
			r.w("create R()")
		}
	case SAssign:
		r.occ(s.Y)
		r.w(" <-! ")
		if s.Z != nil {
			r.occ(s.Z)
		} else {
			r.w("create R()")
		}
	case SCall:
		if s.Y != nil {
			r.occ(s.Y)
			if s.OptChain {
				r.w("?")
			}
			switch len(s.Srcs) {
			case 0:
				r.w(".use(")
			case 1:
				r.w(".take(")
			default:
				r.w(fmt.Sprintf(".take%d(", len(s.Srcs)))
			}
		} else {
			switch len(s.Srcs) {
			case 0:
				r.w("cond(")
			case 1:
				r.w("consume(")
			default:
				r.w(fmt.Sprintf("consume%d(", len(s.Srcs)))
			}
		}
		r.moveList(s.Srcs)
		r.w(")")
	case SRead:
		r.occ(s.Y)
		switch s.YK {
		case KR:
			r.w(".id")
		case KO:
			r.w("?.id")
		default:
			r.w(".length")
		}
	case SDestroy:
		r.w("destroy ")
		r.occ(s.Y)
	case SSwap:
		r.occ(s.Y)
		r.w(" <-> ")
		r.occ(s.Z)
	case SIf:
		r.w("if cond() ")
		r.block(s.Then, ind)
		if s.HasElse || len(s.Else) > 0 {
			r.w(" else ")
			r.block(s.Else, ind)
		}
	case SIfLet:
		r.w("if " + r.declKw(s.X) + " ")
		s.XPos = r.off()
		r.w(s.X)
		r.w(" <- ")
		r.occ(s.Y)
		r.w(" ")
		r.block(s.Then, ind)
		if s.HasElse || len(s.Else) > 0 {
			r.w(" else ")
			r.block(s.Else, ind)
		}
	case SLoop:
		if s.IsFor {
			r.forVar++
			r.w(fmt.Sprintf("for i%d in ints ", r.forVar))
		} else {
			r.w("while cond() ")
		}
		r.block(s.Then, ind)
	case SBreak:
		r.w("break")
	case SContinue:
		r.w("continue")
	case SReturn:
		r.w("return")
		if s.Y != nil {
			r.w(" <-")
			r.occ(s.Y)
		} else if s.Create {
			r.w(" <- create R()")
		}
	case SHalt:
		r.w(`panic("")`)
	case SFun:
		r.w("fun " + s.FName + "(")
		for i, p := range s.Params {
			if i > 0 {
				r.w(", ")
			}
			p.Pos = r.off()
			r.w(p.Name + ": " + typeOf(p.K))
		}
		r.w(")")
		if s.RetRes {
			r.w(": @AnyResource?")
		}
		r.w(" ")
		s.PB = r.off()
		r.block(s.Then, ind)
	}
}

// Source renders the program as Cadence source and fills in all positions.
func (p *Prog) Source() string {
	r := &renderer{varDecl: map[string]bool{}}
	walk([]*Stmt{p.F}, func(s *Stmt) {
		switch s.K {
		case SAssign, SLet2:
			r.varDecl[s.Y.Name] = true
		case SSwap:
			r.varDecl[s.Y.Name] = true
			r.varDecl[s.Z.Name] = true
		}
	})
	r.w(prelude)
	r.stmt(p.F, "")
	r.w("\n")
	return r.sb.String()
}

// ---------------------------------------------------------------- Coq term

type coqNames struct {
	ids map[string]int
}

func (c *coqNames) id(n string) int {
	if v, ok := c.ids[n]; ok {
		return v
	}
	v := len(c.ids)
	c.ids[n] = v
	return v
}

func (c *coqNames) occ(o *Occ) string { return fmt.Sprintf("(%d,%d)", c.id(o.Name), o.Pos) }
func (c *coqNames) occs(os []*Occ) string {
	parts := make([]string, len(os))
	for i, o := range os {
		parts[i] = c.occ(o)
	}
	return "[" + strings.Join(parts, ";") + "]"
}
func (c *coqNames) oocc(o *Occ) string {
	if o == nil {
		return "None"
	}
	return "(Some " + c.occ(o) + ")"
}
func coqBool(b bool) string {
	if b {
		return "true"
	}
	return "false"
}

func (c *coqNames) block(b []*Stmt) string {
	parts := make([]string, len(b))
	for i, s := range b {
		parts[i] = c.stmt(s)
	}
	return "(blk [" + strings.Join(parts, ";") + "])"
}

func (c *coqNames) stmt(s *Stmt) string {
	switch s.K {
	case SLet:
		return fmt.Sprintf("SLet %d %d %d %s", s.Pos, c.id(s.X), s.XPos, c.occs(s.Srcs))
	case SLet2:
		return fmt.Sprintf("SLet2 %d %d %d %s %s", s.Pos, c.id(s.X), s.XPos, c.occ(s.Y), c.oocc(s.Z))
	case SAssign:
		return fmt.Sprintf("SAssign %d %s %s", s.Pos, c.occ(s.Y), c.oocc(s.Z))
	case SCall:
		return fmt.Sprintf("SCall %d %s %s %s", s.Pos, c.oocc(s.Y), coqBool(s.OptChain), c.occs(s.Srcs))
	case SRead:
		return fmt.Sprintf("SRead %d %s", s.Pos, c.occ(s.Y))
	case SDestroy:
		return fmt.Sprintf("SDestroy %d %s", s.Pos, c.occ(s.Y))
	case SSwap:
		return fmt.Sprintf("SSwap %d %s %s", s.Pos, c.occ(s.Y), c.occ(s.Z))
	case SIf:
		return fmt.Sprintf("SIf %d %s %s", s.Pos, c.block(s.Then), c.block(s.Else))
	case SIfLet:
		return fmt.Sprintf("SIfLet %d %d %d %s %s %s", s.Pos, c.id(s.X), s.XPos, c.occ(s.Y), c.block(s.Then), c.block(s.Else))
	case SLoop:
		return fmt.Sprintf("SLoop %d %s", s.Pos, c.block(s.Then))
	case SBreak:
		return fmt.Sprintf("SBreak %d", s.Pos)
	case SContinue:
		return fmt.Sprintf("SContinue %d", s.Pos)
	case SReturn:
		v := "RNone"
		if s.Y != nil {
			v = "(RMove " + c.occ(s.Y) + ")"
		} else if s.Create {
			v = "RCreate"
		}
		return fmt.Sprintf("SReturn %d %s", s.Pos, v)
	case SHalt:
		return fmt.Sprintf("SHalt %d", s.Pos)
	case SFun:
		ps := make([]string, len(s.Params))
		for i, p := range s.Params {
			ps[i] = fmt.Sprintf("(%d,%d)", c.id(p.Name), p.Pos)
		}
		return fmt.Sprintf("SFun %d %d [%s] %s %s", s.Pos, s.PB, strings.Join(ps, ";"), coqBool(s.RetRes), c.block(s.Then))
	}
	panic("unknown statement kind")
}

// Coq renders the program (after Source() has filled in the positions) as a Coq term of type stmt.
func (p *Prog) Coq() string {
	c := &coqNames{ids: map[string]int{}}
	return "(" + c.stmt(p.F) + ")"
}
