// Command c03: correspondence + direct-oracle harness for property C03
// (the checker rejects every resource-linearity violation).
//
// Programs of the resource fragment are generated as ASTs, rendered as Cadence source (checked by the REAL
// sema.Checker) and as Coq terms (checked by the model CV.C03.Model.check_prog inside coqc).  Independently of
// the model, a path-sensitive oracle enumerates the control-flow paths of every program (loops 0..k times)
// on a concrete machine: the real checker accepting a program with a non-linear path is reported directly,
// with the path as witness.
package main

import (
	"encoding/json"
	"flag"
	"fmt"
	"io"
	"os"
	"path/filepath"
	"sort"
	"strings"

	"cvh/lib"
)

var (
	prop      = flag.String("prop", "C03", "property id")
	seed      = flag.Uint64("seed", 1, "seed")
	tier      = flag.String("tier", "quick", "quick|thorough")
	dir       = flag.String("dir", ".", "output directory")
	corpusDir = flag.String("corpus", "", "directory with corpus programs (*.json)")
	probe     = flag.Bool("probe", false, "read function bodies separated by lines '----' from stdin, print the real checker's verdict")
	mkcorpus  = flag.String("mkcorpus", "", "write the built-in corpus programs to this directory and exit")
	count     = flag.Bool("count", false, "only count the programs of the exhaustive families")
)

type runner struct {
	sum      *lib.Summary
	perKey   map[string]int
	cw       *lib.CaseWriter
	distinct map[string]bool
	maxIter  int
	maxPaths int
}

// fail records a failure; at most 3 per key are kept (lib.Summary keeps 200 in total), all are counted.
func (r *runner) fail(key, what string, replay any) {
	r.perKey[key]++
	r.sum.Count("failure " + key)
	if r.perKey[key] <= 3 {
		r.sum.Fail(key, what, replay)
	}
}

type corpusEntry struct {
	Name string `json:"name"`
	Note string `json:"note"`
	Prog *Stmt  `json:"prog"`
}

func featureClass(f Features) string {
	switch {
	case f.Assign:
		return "program-with-force-assignment"
	case f.Halt:
		return "program-with-halt"
	case f.Jump:
		return "program-with-break-or-continue"
	case f.Return:
		return "program-with-return"
	}
	return "plain-program"
}

// check runs one program through the real checker and the path oracle, and (if toCoq) adds it to the case files.
func (r *runner) check(p *Prog, origin string, toCoq bool) {
	src := p.Source()
	v := checkReal(src)
	r.sum.Evaluations++
	r.sum.Count("origin " + origin)
	feat := features(p)
	body := src[len(prelude):]
	replay := func(extra map[string]any) map[string]any {
		m := map[string]any{"origin": origin, "program": body, "real_checker": v.String()}
		for k, x := range extra {
			m[k] = x
		}
		return m
	}
	if v.Crash != "" {
		r.fail("checker-crash", fmt.Sprintf("real checker failed on a fragment program: %s\n%s", v.Crash, body), replay(nil))
		return
	}
	if len(v.Others) > 0 {
		r.sum.Count("unmodelled error")
		r.fail("unmodelled-error:"+strings.Join(v.Others, ","),
			fmt.Sprintf("real checker reports an error kind outside the modelled set %v on\n%s", v.Others, body), replay(nil))
		return
	}
	or := explore(p, r.maxIter, r.maxPaths)
	switch {
	case v.Accepts():
		r.sum.Count("real: accepted")
	case v.OnlyLinearity():
		r.sum.Count("real: rejected (loss / use-after-invalidation only)")
	default:
		r.sum.Count("real: rejected (other errors too)")
	}
	for _, e := range v.Errs {
		r.sum.Count("error " + kindNames[e.Kind])
	}
	if or.Witness != nil {
		r.sum.Count("oracle: some path non-linear")
	} else if or.Complete {
		r.sum.Count("oracle: all paths linear")
	} else {
		r.sum.Count("oracle: path budget exceeded")
	}
	nontrivial := feat.If || feat.Loop || feat.IfLet || !v.Accepts()
	if nontrivial && !r.distinct[body] {
		r.distinct[body] = true
		r.sum.DistinctNontrivial++
	}
	directFailure := false
	// direct oracle, direction 1: an accepted program must have only linear paths
	if v.Accepts() && or.Witness != nil {
		directFailure = true
		w := or.Witness
		cls, _ := w.class()
		// the known defect classes need a halt (loop re-invalidation) resp. a halt or return (jump paths)
		// somewhere in the program; without them the acceptance is not explained by a known defect
		switch {
		case cls == "second-loop-iteration" && !feat.Halt:
			cls += "-without-halt"
		case cls == "path-through-break-or-continue" && !feat.Halt && !feat.Return:
			cls += "-without-halt-or-return"
		}
		r.fail("accepts-nonlinear:"+cls,
			fmt.Sprintf("the real checker ACCEPTS a program with a non-linear path: variable %s %s in function %s on path [%s]\n%s",
				w.Var, w.Kind, or.Fun, w.Trace, body),
			replay(map[string]any{"violation": w.Kind, "variable": w.Var, "function": or.Fun, "path": w.Trace, "class": cls}))
	}
	// direction 2 (converse of the property): a program all of whose paths are linear must be accepted
	if v.OnlyLinearity() && or.Witness == nil && or.Complete {
		directFailure = true
		cls := featureClass(feat)
		r.fail("rejects-linear:"+cls,
			fmt.Sprintf("the real checker REJECTS (%s) a program all of whose %d paths (loops 0..%d times) are linear\n%s",
				v.String(), or.Paths, r.maxIter, body),
			replay(map[string]any{"paths": or.Paths, "class": cls}))
	}
	// A direct failure may only be excused as a known finding when the faithful model predicts the real
	// checker's verdict: every such program is also evaluated by the Coq model (a disagreement is a VIOLATION).
	if directFailure {
		toCoq = true
	}
	if toCoq {
		r.cw.Add(fmt.Sprintf("(%s, %s, %s)", p.Coq(), v.Coq(), coqBool(or.Witness != nil)),
			map[string]any{"origin": origin, "program": body, "real_checker": v.String()})
		r.sum.Count("coq cases")
	}
	if !v.Accepts() || or.Witness != nil {
		r.sum.Sample(map[string]any{"origin": origin, "program": body, "real_checker": v.String(),
			"oracle_nonlinear_path": or.Witness != nil})
	}
}

func main() {
	flag.Parse()
	if *probe {
		b, _ := io.ReadAll(os.Stdin)
		for _, body := range strings.Split(string(b), "----") {
			body = strings.TrimSpace(body)
			if body == "" {
				continue
			}
			src := prelude + "fun test() {\n" + body + "\n}\n"
			fmt.Printf("%s\n  => %s\n\n", body, checkReal(src))
		}
		return
	}
	if *mkcorpus != "" {
		writeCorpus(*mkcorpus)
		return
	}
	thorough := *tier == "thorough"
	if *count {
		for _, fam := range []family{famCore, famRich, famOpt, famFun} {
			for sz := 1; sz <= 8; sz++ {
				n := enumerate(fam, sz, func(*Prog) {})
				fmt.Printf("%s size<=%d: %d\n", fam.Name, sz, n)
				if n > 3000000 {
					break
				}
			}
		}
		return
	}
	sum := &lib.Summary{}
	r := &runner{sum: sum, perKey: map[string]int{}, distinct: map[string]bool{}, maxIter: 2, maxPaths: 4000}
	r.cw = &lib.CaseWriter{
		Dir: *dir, Prefix: "cases_C03",
		Header:   "From CV Require Import C03.Cases.",
		ElemType: "stmt * list (Z * Z) * bool",
		CheckFn:  "check_case",
		PerFile:  800,
	}
	rng := lib.NewRng(*seed)

	// 1. corpus (hand-picked / minimised cases; they include the witnesses of the known findings)
	if *corpusDir != "" {
		files, _ := filepath.Glob(filepath.Join(*corpusDir, "*.json"))
		sort.Strings(files)
		for _, f := range files {
			b, err := os.ReadFile(f)
			if err != nil {
				continue
			}
			var es []corpusEntry
			if err := json.Unmarshal(b, &es); err != nil {
				fmt.Fprintln(os.Stderr, "bad corpus file", f, err)
				os.Exit(2)
			}
			for _, e := range es {
				r.check(&Prog{F: e.Prog}, "corpus:"+e.Name, true)
			}
		}
	}

	// 2. exhaustive families.  Every program goes to the real checker and the path oracle;
	//    all programs up to coqAll nodes and a seeded sample of the larger ones also go to the Coq model.
	type plan struct {
		fam     family
		size    int // maximal number of statement nodes
		coqAll  int
		coqRate int // 1/coqRate of the larger programs
	}
	plans := []plan{
		{famCore, 5, 3, 40},
		{famRich, 3, 2, 8},
		{famOpt, 3, 2, 10},
		{famFun, 4, 2, 12},
	}
	if thorough {
		plans = []plan{
			{famCore, 6, 4, 40},
			{famRich, 4, 3, 10},
			{famOpt, 4, 3, 10},
			{famFun, 5, 3, 30},
		}
	}
	for _, pl := range plans {
		pl := pl
		n := enumerate(pl.fam, pl.size, func(p *Prog) {
			sz := blockSize(p.F.Then)
			toCoq := sz <= pl.coqAll || rng.Intn(pl.coqRate) == 0
			r.check(p, fmt.Sprintf("exhaustive:%s", pl.fam.Name), toCoq)
		})
		sum.Count(fmt.Sprintf("family %s (<=%d nodes) programs", pl.fam.Name, pl.size))
		sum.Distribution[fmt.Sprintf("family %s (<=%d nodes) programs", pl.fam.Name, pl.size)] = n
	}

	// 2b. merge table: every combination of branch shapes at an if/else inside a loop (all of them go to the
	//     real checker, the path oracle and the Coq model, in both tiers)
	nmt := mergeTable(func(p *Prog, origin string) {
		r.check(p, "mergetable", true)
		_ = origin
	})
	sum.Distribution["family mergetable programs"] = nmt

	// 2c. loop-exit table: loop bodies that invalidate an outer resource, jump conditionally and end with or
	//     without a definite return/halt, followed by uses after the loop (all evaluated by the Coq model)
	nlt := loopTable(func(p *Prog) { r.check(p, "looptable", true) })
	sum.Distribution["family looptable programs"] = nlt

	// 3. random larger programs: mostly linear by construction, half of them with an injected edit
	nrand := 800
	if thorough {
		nrand = 20000
	}
	for i := 0; i < nrand; i++ {
		size := 3 + rng.Intn(18)
		p := randomProg(rng, size)
		origin := "random"
		if rng.Bool() {
			k := 1 + rng.Intn(2)
			for j := 0; j < k; j++ {
				origin = "random+" + inject(rng, p)
			}
		}
		sum.Count(fmt.Sprintf("random size %02d-%02d", blockSize(p.F.Then)/5*5, blockSize(p.F.Then)/5*5+4))
		r.check(p, origin, true)
	}

	r.cw.Close()
	sum.CaseFiles = r.cw.Files
	sum.Rule = "programs of the resource fragment (create/move/array/optional/argument/second-value transfer/force-assign/" +
		"destroy/use/swap/if/if-let/while/for/break/continue/return/halt/nested function): corpus, all programs of four " +
		"exhaustive families up to the stated node counts, random mostly-linear programs with injected edits. Every program: " +
		"real sema.Checker error set projected to (kind, offset) and an independent path oracle (all paths, loops 0..2 times); " +
		"a subset is also evaluated by the Coq model check_prog (exact error set). " +
		"non-trivial = contains a branch/loop or is rejected; distinct = distinct source text"
	sum.Write(*dir)
}
