package main

import (
	"errors"
	"fmt"
	"sort"
	"strings"

	"github.com/onflow/cadence/ast"
	"github.com/onflow/cadence/common"
	"github.com/onflow/cadence/parser"
	"github.com/onflow/cadence/sema"
	"github.com/onflow/cadence/stdlib"
)

// error kinds of the projection (the same numbers are used by CV.C03.Model.err_code)
const (
	ELoss       = 1 // ResourceLossError, position = declaration of the variable
	EUse        = 2 // ResourceUseAfterInvalidationError, position = the use
	EUnreach    = 3 // UnreachableStatementError, position = first unreachable statement
	ECtl        = 4 // ControlStatementError (break/continue outside a loop)
	ECapture    = 5 // ResourceCapturingError
	EMissingRet = 6 // MissingReturnStatementError, position = function block
	ERedecl     = 7 // RedeclarationError
	ENotDecl    = 8 // NotDeclaredError
	EOther      = 9 // anything else (not produced by the model), position 0
)

type PErr struct {
	Kind int
	Pos  int
}

// Verdict is the projection of the real checker's error set that property C03 constrains.
type Verdict struct {
	Errs   []PErr   // sorted, distinct
	Others []string // Go type names of unmodelled errors
	Crash  string   // non-empty if parser/checker failed in another way
}

func (v Verdict) Accepts() bool { return v.Crash == "" && len(v.Errs) == 0 }

// OnlyLinearity: rejected, and every reported error is a loss or a use-after-invalidation.
func (v Verdict) OnlyLinearity() bool {
	if v.Crash != "" || len(v.Errs) == 0 {
		return false
	}
	for _, e := range v.Errs {
		if e.Kind != ELoss && e.Kind != EUse {
			return false
		}
	}
	return true
}

var baseValueActivation = func() *sema.VariableActivation {
	a := sema.NewVariableActivation(sema.BaseValueActivation)
	a.DeclareValue(stdlib.InterpreterPanicFunction)
	return a
}()

var testLocation = common.StringLocation("c03")

// checkReal parses and checks the source with the real sema.Checker and projects the errors.
func checkReal(src string) (v Verdict) {
	defer func() {
		if r := recover(); r != nil {
			v.Crash = fmt.Sprintf("panic: %v", r)
		}
	}()
	code := []byte(src)
	program, err := parser.ParseProgram(nil, code, parser.Config{})
	if err != nil {
		v.Crash = "parse: " + err.Error()
		return
	}
	checker, err := sema.NewChecker(program, testLocation, nil, &sema.Config{
		AccessCheckMode: sema.AccessCheckModeNotSpecifiedUnrestricted,
		BaseValueActivationHandler: func(_ common.Location) *sema.VariableActivation {
			return baseValueActivation
		},
	})
	if err != nil {
		v.Crash = "new checker: " + err.Error()
		return
	}
	err = checker.Check()
	if err == nil {
		return
	}
	var ce *sema.CheckerError
	if !errors.As(err, &ce) {
		v.Crash = "check: " + err.Error()
		return
	}
	seen := map[PErr]bool{}
	others := map[string]bool{}
	for _, e := range ce.Errors {
		kind := EOther
		switch e.(type) {
		case *sema.ResourceLossError:
			kind = ELoss
		case *sema.ResourceUseAfterInvalidationError:
			kind = EUse
		case *sema.UnreachableStatementError:
			kind = EUnreach
		case *sema.ControlStatementError:
			kind = ECtl
		case *sema.ResourceCapturingError:
			kind = ECapture
		case *sema.MissingReturnStatementError:
			kind = EMissingRet
		case *sema.RedeclarationError:
			kind = ERedecl
		case *sema.NotDeclaredError:
			kind = ENotDecl
		}
		pos := 0
		if kind != EOther {
			if hp, ok := e.(ast.HasPosition); ok {
				pos = hp.StartPosition().Offset
			}
		} else {
			others[fmt.Sprintf("%T", e)] = true
		}
		seen[PErr{kind, pos}] = true
	}
	for k := range seen {
		v.Errs = append(v.Errs, k)
	}
	sort.Slice(v.Errs, func(i, j int) bool {
		if v.Errs[i].Kind != v.Errs[j].Kind {
			return v.Errs[i].Kind < v.Errs[j].Kind
		}
		return v.Errs[i].Pos < v.Errs[j].Pos
	})
	for k := range others {
		v.Others = append(v.Others, k)
	}
	sort.Strings(v.Others)
	return
}

var kindNames = map[int]string{ELoss: "loss", EUse: "use-after-invalidation", EUnreach: "unreachable", ECtl: "control",
	ECapture: "capture", EMissingRet: "missing-return", ERedecl: "redeclaration", ENotDecl: "not-declared", EOther: "other"}

func (v Verdict) String() string {
	if v.Crash != "" {
		return "crash: " + v.Crash
	}
	if len(v.Errs) == 0 {
		return "accepted"
	}
	parts := make([]string, len(v.Errs))
	for i, e := range v.Errs {
		parts[i] = fmt.Sprintf("%s@%d", kindNames[e.Kind], e.Pos)
	}
	s := strings.Join(parts, " ")
	if len(v.Others) > 0 {
		s += " " + fmt.Sprint(v.Others)
	}
	return s
}

// Coq renders the observed error set as a Coq list of (kind, position).
func (v Verdict) Coq() string {
	parts := make([]string, len(v.Errs))
	for i, e := range v.Errs {
		parts[i] = fmt.Sprintf("(%d,%d)", e.Kind, e.Pos)
	}
	return "[" + strings.Join(parts, ";") + "]"
}
