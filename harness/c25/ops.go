package main

import (
	"fmt"
	"strings"
)

// Op mirrors the constructors of `op` in coq/theories/C25/Model.v.
type Op struct {
	K      string // constructor name
	A      int    // acting account (1..3)
	P      int    // storage path / target path index
	V      int    // value kind 0..2 (VA VB VC)
	Acct   bool   // controller kind: account (true) or storage (false)
	BT     btyT
	Slot   int
	ID     int
	Mode   int // 0 LGet 1 LEach 2 LEachStop
	Tag    int
	PP     int // public path index
	Tgt    int // looked-up account
	Typed  bool
	Name   int
	Recip  int
	Prov   int
}

func bstr(b bool) string {
	if b {
		return "true"
	}
	return "false"
}

func (o Op) kindCoq() string {
	if o.Acct {
		return "KAccount"
	}
	return fmt.Sprintf("(KStorage %d)", o.P)
}

var valCoq = []string{"VA", "VB", "VC", "VR", "VQ"}
var valSrc = []string{"T.A()", "T.B()", "T.C()", "<- T.mkR()", "<- T.mkQ()"}
var modeCoq = []string{"LGet", "LEach", "LEachStop"}

func (o Op) Coq() string {
	switch o.K {
	case "OPut":
		return fmt.Sprintf("OPut %d %d %s", o.A, o.P, valCoq[o.V])
	case "OTake":
		return fmt.Sprintf("OTake %d %d", o.A, o.P)
	case "OIssue":
		return fmt.Sprintf("OIssue %d %s %s %d", o.A, o.kindCoq(), o.BT.coq(), o.Slot)
	case "OGetCtrl":
		return fmt.Sprintf("OGetCtrl %d %s %d", o.A, bstr(o.Acct), o.ID)
	case "OList":
		return fmt.Sprintf("OList %d %s %s", o.A, o.kindCoq(), modeCoq[o.Mode])
	case "ODelete":
		return fmt.Sprintf("ODelete %d %s %d", o.A, bstr(o.Acct), o.ID)
	case "ORetarget":
		return fmt.Sprintf("ORetarget %d %d %d", o.A, o.ID, o.P)
	case "OSetTag":
		return fmt.Sprintf("OSetTag %d %s %d %d", o.A, bstr(o.Acct), o.ID, o.Tag)
	case "OCtrlCap":
		return fmt.Sprintf("OCtrlCap %d %s %d %d", o.A, bstr(o.Acct), o.ID, o.Slot)
	case "OPublish":
		return fmt.Sprintf("OPublish %d %d %d", o.A, o.Slot, o.PP)
	case "OUnpublish":
		return fmt.Sprintf("OUnpublish %d %d %d", o.A, o.PP, o.Slot)
	case "OGet":
		return fmt.Sprintf("OGet %d %d %d %s %d", o.A, o.Tgt, o.PP, o.BT.coq(), o.Slot)
	case "OBorrowPub":
		return fmt.Sprintf("OBorrowPub %d %d %s", o.Tgt, o.PP, o.BT.coq())
	case "OExists":
		return fmt.Sprintf("OExists %d %d", o.Tgt, o.PP)
	case "OCapBorrow", "OCapCheck":
		return fmt.Sprintf("%s %d %d %s %s", o.K, o.A, o.Slot, o.BT.coq(), bstr(o.Typed))
	case "OCapInfo":
		return fmt.Sprintf("OCapInfo %d %d", o.A, o.Slot)
	case "OInboxPublish":
		return fmt.Sprintf("OInboxPublish %d %d %d %d", o.A, o.Slot, o.Name, o.Recip)
	case "OInboxUnpublish":
		return fmt.Sprintf("OInboxUnpublish %d %d %s %d", o.A, o.Name, o.BT.coq(), o.Slot)
	case "OInboxClaim":
		return fmt.Sprintf("OInboxClaim %d %d %d %s %d", o.A, o.Name, o.Prov, o.BT.coq(), o.Slot)
	case "OPanic":
		return "OPanic"
	}
	panic("op " + o.K)
}

// Desc is the human-readable form used in replays and samples.
func (o Op) Desc() string {
	switch o.K {
	case "OIssue", "OGet", "OBorrowPub", "OCapBorrow", "OCapCheck", "OInboxUnpublish", "OInboxClaim":
		return o.Coq() + "  (* " + o.BT.src() + " *)"
	}
	return o.Coq()
}

func addr(a int) string { return fmt.Sprintf("0x%d", a) }

// Cadence renders the operation as a statement block of the transaction's prepare phase;
// every completed operation logs exactly one result line.
func (o Op) Cadence() string {
	s := fmt.Sprintf("s%d", o.A)
	slot := fmt.Sprintf("/storage/slot%d", o.Slot)
	sp := fmt.Sprintf("/storage/p%d", o.P)
	pp := fmt.Sprintf("/public/q%d", o.PP)
	bt := o.BT.src()
	name := fmt.Sprintf("\"n%d\"", o.Name)
	ctrlNS := "storage"
	if o.Acct {
		ctrlNS = "account"
	}
	getCtrl := fmt.Sprintf("%s.capabilities.%s.getController(byCapabilityID: %d)", s, ctrlNS, o.ID)
	getSlot := fmt.Sprintf("%s.storage.copy<Capability>(from: %s)", s, slot)
	switch o.K {
	case "OPut":
		return fmt.Sprintf("T.clear(%s, %s)\n%s.storage.save(%s, to: %s)\nlog(\"u\")", s, sp, s, valSrc[o.V], sp)
	case "OTake":
		return fmt.Sprintf("T.clear(%s, %s)\nlog(\"u\")", s, sp)
	case "OIssue":
		if o.Acct {
			return fmt.Sprintf("let c = %s.capabilities.account.issue<%s>()\nT.put(%s, %s, c)\nlog(\"i:\".concat(c.id.toString()))", s, bt, s, slot)
		}
		return fmt.Sprintf("let c = %s.capabilities.storage.issue<%s>(%s)\nT.put(%s, %s, c)\nlog(\"i:\".concat(c.id.toString()))", s, bt, sp, s, slot)
	case "OGetCtrl":
		tgt := "c.target().toString()"
		if o.Acct {
			tgt = "\"-\""
		}
		return fmt.Sprintf("if let c = %s {\nlog(\"c:\".concat(c.capabilityID.toString()).concat(\"#\").concat(c.borrowType.identifier).concat(\"#\").concat(%s).concat(\"#\").concat(c.tag))\n} else { log(\"n\") }", getCtrl, tgt)
	case "OList":
		refT := "&StorageCapabilityController"
		arg, argEach := "forPath: "+sp, "forPath: "+sp+", "
		if o.Acct {
			refT = "&AccountCapabilityController"
			arg, argEach = "", ""
		}
		switch o.Mode {
		case 0:
			return fmt.Sprintf("var ids: [UInt64] = []\nfor c in %s.capabilities.%s.getControllers(%s) { ids.append(c.capabilityID) }\nlog(T.join(ids))", s, ctrlNS, arg)
		case 1:
			return fmt.Sprintf("var ids: [UInt64] = []\n%s.capabilities.%s.forEachController(%sfun (c: %s): Bool { ids.append(c.capabilityID); return true })\nlog(T.join(ids))", s, ctrlNS, argEach, refT)
		default:
			return fmt.Sprintf("var ids: [UInt64] = []\n%s.capabilities.%s.forEachController(%sfun (c: %s): Bool { ids.append(c.capabilityID); return false })\nlog(\"b:\".concat(ids.length > 0 ? \"true\" : \"false\"))", s, ctrlNS, argEach, refT)
		}
	case "ODelete":
		return fmt.Sprintf("if let c = %s {\nc.delete()\nlog(\"u\")\n} else { log(\"n\") }", getCtrl)
	case "ORetarget":
		return fmt.Sprintf("if let c = %s {\nc.retarget(%s)\nlog(\"u\")\n} else { log(\"n\") }", getCtrl, sp)
	case "OSetTag":
		tag := ""
		if o.Tag > 0 {
			tag = fmt.Sprintf("t%d", o.Tag)
		}
		return fmt.Sprintf("if let c = %s {\nc.setTag(\"%s\")\nlog(\"u\")\n} else { log(\"n\") }", getCtrl, tag)
	case "OCtrlCap":
		return fmt.Sprintf("if let c = %s {\nlet k = c.capability\nT.put(%s, %s, k)\nlog(T.capinfo(k))\n} else { log(\"n\") }", getCtrl, s, slot)
	case "OPublish":
		return fmt.Sprintf("if let c = %s {\n%s.capabilities.publish(c, at: %s)\nlog(\"u\")\n} else { log(\"n\") }", getSlot, s, pp)
	case "OUnpublish":
		return fmt.Sprintf("if let c = %s.capabilities.unpublish(%s) {\nT.put(%s, %s, c)\nlog(T.capinfo(c))\n} else { log(\"n\") }", s, pp, s, slot)
	case "OGet":
		return fmt.Sprintf("let c = getAccount(%s).capabilities.get<%s>(%s)\nT.put(%s, %s, c)\nlog(T.capinfo(c))", addr(o.Tgt), bt, pp, s, slot)
	case "OBorrowPub":
		return fmt.Sprintf("log(\"b:\".concat(getAccount(%s).capabilities.borrow<%s>(%s) != nil ? \"true\" : \"false\"))", addr(o.Tgt), bt, pp)
	case "OExists":
		return fmt.Sprintf("log(\"b:\".concat(getAccount(%s).capabilities.exists(%s) ? \"true\" : \"false\"))", addr(o.Tgt), pp)
	case "OCapBorrow", "OCapCheck":
		call := "c.borrow<" + bt + ">() != nil"
		tcall := "tc.borrow() != nil"
		if o.K == "OCapCheck" {
			call = "c.check<" + bt + ">()"
			tcall = "tc.check()"
		}
		if o.Typed {
			return fmt.Sprintf("if let c = %s {\nif let tc = c as? Capability<%s> {\nlog(\"b:\".concat(%s ? \"true\" : \"false\"))\n} else { log(\"x\") }\n} else { log(\"n\") }", getSlot, bt, tcall)
		}
		return fmt.Sprintf("if let c = %s {\nlog(\"b:\".concat(%s ? \"true\" : \"false\"))\n} else { log(\"n\") }", getSlot, call)
	case "OCapInfo":
		return fmt.Sprintf("if let c = %s {\nlog(T.capinfo(c))\n} else { log(\"n\") }", getSlot)
	case "OInboxPublish":
		return fmt.Sprintf("if let c = %s {\n%s.inbox.publish(c, name: %s, recipient: %s)\nlog(\"u\")\n} else { log(\"n\") }", getSlot, s, name, addr(o.Recip))
	case "OInboxUnpublish":
		return fmt.Sprintf("if let c = %s.inbox.unpublish<%s>(%s) {\nT.put(%s, %s, c)\nlog(T.capinfo(c))\n} else { log(\"n\") }", s, bt, name, s, slot)
	case "OInboxClaim":
		return fmt.Sprintf("if let c = %s.inbox.claim<%s>(%s, provider: %s) {\nT.put(%s, %s, c)\nlog(T.capinfo(c))\n} else { log(\"n\") }", s, bt, name, addr(o.Prov), s, slot)
	case "OPanic":
		return "panic(\"abort\")"
	}
	panic("op " + o.K)
}

const signerT = "auth(Storage, Capabilities, Inbox) &Account"

// txSource renders the transaction for a list of operations (signed by accounts 1,2,3).
func txSource(ops []Op) string {
	var sb strings.Builder
	sb.WriteString("import T from 0x1\ntransaction {\nprepare(s1: " + signerT + ", s2: " + signerT + ", s3: " + signerT + ") {\n")
	for _, o := range ops {
		sb.WriteString("if true {\n")
		sb.WriteString(o.Cadence())
		sb.WriteString("\n}\n")
	}
	sb.WriteString("}\n}\n")
	return sb.String()
}
