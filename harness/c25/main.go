// Command c25: correspondence harness for C25 (capability controllers, publishing, inbox).
// Histories of capability operations grouped into transactions are generated from the seed,
// executed as real transactions on lib.Host in both engines, and written as Coq cases
// (history + observed per-operation results and events) for evaluation by the Coq model.
package main

import (
	"encoding/json"
	"flag"
	"fmt"
	"os"
	"path/filepath"
	"sort"
	"strconv"
	"strings"

	"cvh/lib"
)

var (
	prop = flag.String("prop", "C25", "property id")
	seed = flag.Uint64("seed", 1, "seed")
	tier = flag.String("tier", "quick", "quick|thorough")
	dir  = flag.String("dir", ".", "output directory")
	corp = flag.String("corpus", "", "directory of corpus histories (*.json), run first")
)

// corpus file: {"name": ..., "txs": [[{"K": "OIssue", "A": 1, ..., "Repeat": 200}, ...], ...]}
type corpusOp struct {
	Op
	Repeat int
}
type corpusHistory struct {
	Name string
	Txs  [][]corpusOp
}

func loadCorpus(dirname string, sum *lib.Summary) []corpusHistory {
	if dirname == "" {
		return nil
	}
	files, _ := filepath.Glob(filepath.Join(dirname, "*.json"))
	sort.Strings(files)
	var out []corpusHistory
	for _, f := range files {
		b, err := os.ReadFile(f)
		var h corpusHistory
		if err == nil {
			err = json.Unmarshal(b, &h)
		}
		if err != nil {
			sum.Fail("harness-corpus", "cannot read corpus file "+f+": "+err.Error(), map[string]any{"file": f})
			continue
		}
		if h.Name == "" {
			h.Name = filepath.Base(f)
		}
		out = append(out, h)
	}
	return out
}

func main() {
	flag.Parse()
	sum := &lib.Summary{}
	if *prop != "C25" {
		fmt.Fprintln(os.Stderr, "unknown prop", *prop)
		os.Exit(2)
	}
	c25(sum)
	sum.Write(*dir)
}

type source func(t *tracker, i int) []Op

// execute a history on one engine; next(i) yields the operations of transaction i (nil = end)
func execute(name string, vm bool, next source) (*History, error) {
	h, err := newHost(vm)
	if err != nil {
		return nil, err
	}
	hist := &History{Name: name}
	tr := newTracker()
	for i := 0; ; i++ {
		ops := next(tr, i)
		if ops == nil {
			break
		}
		tx := runTx(h, vm, ops)
		hist.Txs = append(hist.Txs, tx)
		if tx.Bad != "" {
			break
		}
		tr.observe(tx)
	}
	return hist, nil
}

func c25(sum *lib.Summary) {
	thorough := *tier == "thorough"
	rng := lib.NewRng(*seed)
	sum.Rule = "histories of 21 kinds of capability operations (issue storage/account, getController, getControllers/forEachController, delete, " +
		"retarget, setTag, controller.capability, publish, unpublish, capabilities.get/borrow/exists, capability.borrow/check (typed and untyped), " +
		"inbox publish/unpublish/claim, save/replace/load of values at target paths, failing transactions) over 3 accounts, 3 target paths, 3 public paths, " +
		"96 borrow types (8 referenced types x 12 authorizations); each history runs as transactions in interpreter and VM; per-operation results and " +
		"capability events are compared with the Coq model; additionally the lattice tables (IsSubType, PermitsAccess, reference subtyping, CanBorrow) are " +
		"compared exhaustively with sema/stdlib. non-trivial history = at least 2 committed transactions, a borrow/check observed true and one observed false, " +
		"and a successful delete or retarget; distinct = distinct operation sequences"

	files := typeTableCases(*dir, sum, thorough)

	// runtime type identifiers
	{
		h, err := newHost(false)
		if err == nil {
			err = initTypeIDs(h, false)
		}
		if err != nil {
			sum.Fail("harness-types", err.Error(), map[string]any{"error": err.Error()})
			sum.CaseFiles = files
			return
		}
	}

	cw := &lib.CaseWriter{
		Dir: *dir, Prefix: "cases_C25_hist",
		Header:   "From CV Require Import C25.Cases.",
		ElemType: "list tx * list (list result * list event)",
		CheckFn:  "check_history",
		PerFile:  25,
	}
	distinct := map[string]bool{}

	handle := func(name string, next source) {
		// interpreter run drives generation; the VM replays the same operations
		hi, err := execute(name, false, next)
		if err != nil {
			sum.Fail("harness-host", err.Error(), map[string]any{"error": err.Error()})
			return
		}
		replay := func(_ *tracker, i int) []Op {
			if i < len(hi.Txs) {
				return hi.Txs[i].Ops
			}
			return nil
		}
		hv, err := execute(name, true, replay)
		if err != nil {
			sum.Fail("harness-host", err.Error(), map[string]any{"error": err.Error()})
			return
		}
		for k, h := range []*History{hi, hv} {
			vm := k == 1
			sum.Evaluations++
			sum.Count(fmt.Sprintf("history vm=%v", vm))
			bad := false
			for _, t := range h.Txs {
				sum.Count("transactions")
				if t.Failed {
					sum.Count("transactions failed")
				}
				for i, o := range t.Ops {
					if i < len(t.Results) {
						sum.Count("op " + o.K)
						if strings.HasPrefix(t.Results[i], "(RFail") {
							sum.Count("fail " + t.Results[i])
						}
					}
				}
				if t.Bad != "" {
					bad = true
					sum.Fail("unexpected-outcome", fmt.Sprintf("history %s (vm=%v): %s", name, vm, t.Bad), h.desc(vm))
				}
				for _, s := range t.Stale {
					sum.Count("stale retarget")
					sum.Fail("retarget-not-persisted",
						fmt.Sprintf("history %s (vm=%v): controller %d of account 0x%d was retargeted in a committed transaction but a later read of the ledger still shows the old target", name, vm, s[1], s[0]),
						h.desc(vm))
				}
			}
			if bad {
				continue
			}
			// direct checks independent of the model
			last := map[int]int{}
			for _, t := range h.Txs {
				for i, r := range t.Results {
					if strings.HasPrefix(r, "(RId ") {
						id, _ := strconv.Atoi(strings.TrimSuffix(strings.TrimPrefix(r, "(RId "), ")"))
						a := t.Ops[i].A
						if id <= last[a] {
							sum.Fail("id-not-fresh", fmt.Sprintf("history %s (vm=%v): account 0x%d issued id %d after id %d", name, vm, a, id, last[a]), h.desc(vm))
						}
						last[a] = id
					}
					if r == "(RFail FInternal)" && !h.hasStale() {
						sum.Fail("internal-error", fmt.Sprintf("history %s (vm=%v): internal error in operation %s", name, vm, t.Ops[i].Desc()), h.desc(vm))
					}
				}
			}
			cw.Add(h.coq(), h.desc(vm))
		}
		if hi.coq() != hv.coq() {
			sum.Fail("engine-difference", "history "+name+": interpreter and VM observations differ", map[string]any{"interpreter": hi.desc(false), "vm": hv.desc(true)})
		}
		// statistics
		committed, tru, fls, mut := 0, false, false, false
		var key strings.Builder
		for _, t := range hi.Txs {
			if !t.Failed {
				committed++
			}
			for i, o := range t.Ops {
				key.WriteString(o.Coq() + ";")
				if i >= len(t.Results) || t.Failed {
					continue
				}
				switch o.K {
				case "OCapBorrow", "OCapCheck", "OBorrowPub":
					tru = tru || t.Results[i] == "(RBool true)"
					fls = fls || t.Results[i] == "(RBool false)"
				case "ODelete", "ORetarget":
					mut = mut || t.Results[i] == "RUnit"
				}
			}
			key.WriteString("|")
		}
		if committed >= 2 && tru && fls && mut && !distinct[key.String()] {
			distinct[key.String()] = true
			sum.DistinctNontrivial++
			sum.Sample(hi.desc(false))
		}
	}

	// corpus histories first, then the fixed scenarios
	for _, ch := range loadCorpus(*corp, sum) {
		var txs [][]Op
		for _, t := range ch.Txs {
			var ops []Op
			for _, co := range t {
				n := co.Repeat
				if n < 1 {
					n = 1
				}
				for i := 0; i < n; i++ {
					ops = append(ops, co.Op)
				}
			}
			txs = append(txs, ops)
		}
		handle("corpus:"+ch.Name, func(_ *tracker, i int) []Op {
			if i < len(txs) {
				return txs[i]
			}
			return nil
		})
	}
	sc := scenarios()
	var names []string
	for n := range sc {
		names = append(names, n)
	}
	sort.Strings(names)
	for _, n := range names {
		txs := sc[n]
		handle("scenario:"+n, func(_ *tracker, i int) []Op {
			if i < len(txs) {
				return txs[i]
			}
			return nil
		})
	}

	nh := 60
	if thorough {
		nh = 1200
	}
	for k := 0; k < nh; k++ {
		g := &gen{r: lib.NewRng(rng.U64()), thorough: thorough}
		ntx := 3 + g.r.Intn(6)
		if thorough {
			ntx = 3 + g.r.Intn(10)
		}
		handle(fmt.Sprintf("random:%d:%d", *seed, k), func(t *tracker, i int) []Op {
			g.t = t
			switch {
			case i == 0:
				return g.setupTx()
			case i <= ntx:
				return g.randomTx()
			}
			return nil
		})
	}
	cw.Close()
	sum.CaseFiles = append(files, cw.Files...)
}
