package main

import (
	"fmt"
	"sort"
	"strconv"
	"strings"

	"cvh/lib"

	"github.com/onflow/cadence"
	"github.com/onflow/cadence/common"
	cerrors "github.com/onflow/cadence/errors"
	"github.com/onflow/cadence/interpreter"
	"github.com/onflow/cadence/stdlib"
)

var signers = []common.Address{
	common.MustBytesToAddress([]byte{1}),
	common.MustBytesToAddress([]byte{2}),
	common.MustBytesToAddress([]byte{3}),
}

// Tx is one transaction of a history with what was observed when it ran.
type Tx struct {
	Ops     []Op
	Results []string // Coq `result` terms, one per executed operation
	Events  []string // Coq `event` terms
	Stale   [][2]int // (account, id): retargeted controllers whose new target was not persisted
	Failed  bool
	Bad     string // non-empty: observation could not be interpreted (reported directly)
}

type History struct {
	Name string
	Txs  []*Tx
}

func newHost(vm bool) (*lib.Host, error) {
	h := lib.NewHost()
	o := h.Deploy(signers[0], "T", typesContract, vm)
	if o.Err != nil {
		return nil, fmt.Errorf("deploying the type lattice contract failed: %v", o.Err)
	}
	h.Events = nil
	h.Logs = nil
	return h, nil
}

func unwrapFind(err error, f func(error) bool) bool {
	for i := 0; err != nil && i < 60; i++ {
		if f(err) {
			return true
		}
		u, ok := err.(interface{ Unwrap() error })
		if !ok {
			return false
		}
		err = u.Unwrap()
	}
	return false
}

// failClass maps the error of a failed transaction to a constructor of `fail` ("" = not one
// of the modelled classes).
func failClass(err error) string {
	cls := ""
	unwrapFind(err, func(e error) bool {
		switch e.(type) {
		case *interpreter.OverwriteError:
			cls = "FOverwrite"
		case *interpreter.CapabilityAddressPublishingError:
			cls = "FAddress"
		case *interpreter.ForceCastTypeMismatchError:
			cls = "FTypeMismatch"
		case *stdlib.PanicError:
			cls = "FPanic"
		}
		return cls != ""
	})
	if cls == "" && cerrors.IsInternalError(err) {
		cls = "FInternal"
	}
	return cls
}

func parseBty(id string) (btyT, bool) {
	id = strings.TrimSuffix(strings.TrimPrefix(id, "Capability<"), ">")
	b, ok := typeIDs[id]
	return b, ok
}

func parseAddr(s string) (int, bool) {
	v, err := strconv.ParseUint(strings.TrimPrefix(s, "0x"), 16, 64)
	return int(v), err == nil
}

func capCoq(id uint64, addr int, bt btyT) string {
	return fmt.Sprintf("(mkCap %d %d %s)", id, addr, bt.coq())
}

// parseResult turns one logged result line into a Coq `result` term.
func parseResult(line string) (string, bool) {
	line = strings.Trim(line, "\"")
	switch {
	case line == "u":
		return "RUnit", true
	case line == "n":
		return "RNone", true
	case line == "x":
		return "RNoCast", true
	case strings.HasPrefix(line, "i:"):
		if _, err := strconv.ParseUint(line[2:], 10, 64); err == nil {
			return "(RId " + line[2:] + ")", true
		}
	case line == "b:true":
		return "(RBool true)", true
	case line == "b:false":
		return "(RBool false)", true
	case strings.HasPrefix(line, "l:"):
		var ids []int
		if line != "l:" {
			for _, p := range strings.Split(line[2:], ",") {
				v, err := strconv.Atoi(p)
				if err != nil {
					return "", false
				}
				ids = append(ids, v)
			}
		}
		sort.Ints(ids)
		parts := make([]string, len(ids))
		for i, v := range ids {
			parts[i] = fmt.Sprint(v)
		}
		return "(RIds [" + strings.Join(parts, ";") + "])", true
	case strings.HasPrefix(line, "c:"):
		f := strings.Split(line[2:], "#")
		if len(f) != 4 {
			return "", false
		}
		bt, ok := parseBty(f[1])
		if !ok {
			return "", false
		}
		kind := "KAccount"
		if f[2] != "-" {
			if !strings.HasPrefix(f[2], "/storage/p") {
				return "", false
			}
			kind = "(KStorage " + strings.TrimPrefix(f[2], "/storage/p") + ")"
		}
		tag := "0"
		if f[3] != "" {
			tag = strings.TrimPrefix(f[3], "t")
		}
		return fmt.Sprintf("(RCtrl %s %s %s %s)", f[0], bt.coq(), kind, tag), true
	case strings.HasPrefix(line, "k:"):
		f := strings.Split(line[2:], "#")
		if len(f) != 3 {
			return "", false
		}
		id, err := strconv.ParseUint(f[0], 10, 64)
		a, ok1 := parseAddr(f[1])
		bt, ok2 := parseBty(f[2])
		if err != nil || !ok1 || !ok2 {
			return "", false
		}
		return "(RCap " + capCoq(id, a, bt) + ")", true
	}
	return "", false
}

func evU64(v cadence.Value) string { return v.String() }

func evAddr(v cadence.Value) string {
	a, _ := parseAddr(v.String())
	return fmt.Sprint(a)
}

func evPath(v cadence.Value, prefix string) (string, bool) {
	s := v.String()
	if !strings.HasPrefix(s, prefix) {
		return "", false
	}
	return strings.TrimPrefix(s, prefix), true
}

func evName(v cadence.Value) (string, bool) {
	s := strings.Trim(v.String(), "\"")
	if !strings.HasPrefix(s, "n") {
		return "", false
	}
	return s[1:], true
}

func evType(v cadence.Value) (btyT, bool) {
	tv, ok := v.(cadence.TypeValue)
	if !ok || tv.StaticType == nil {
		return 0, false
	}
	return parseBty(tv.StaticType.ID())
}

// parseEvent turns a capability-related event into a Coq `event` term.
func parseEvent(e cadence.Event) (string, bool) {
	f := e.FieldsMappedByName()
	name := "flow." + strings.TrimPrefix(e.EventType.QualifiedIdentifier, "flow.")
	switch name {
	case "flow.StorageCapabilityControllerIssued":
		bt, ok := evType(f["type"])
		p, ok2 := evPath(f["path"], "/storage/p")
		return fmt.Sprintf("EvIssued %s %s %s %s", evU64(f["id"]), evAddr(f["address"]), bt.coq(), p), ok && ok2
	case "flow.AccountCapabilityControllerIssued":
		bt, ok := evType(f["type"])
		return fmt.Sprintf("EvAcctIssued %s %s %s", evU64(f["id"]), evAddr(f["address"]), bt.coq()), ok
	case "flow.StorageCapabilityControllerTargetChanged":
		p, ok := evPath(f["path"], "/storage/p")
		return fmt.Sprintf("EvTarget %s %s %s", evU64(f["id"]), evAddr(f["address"]), p), ok
	case "flow.StorageCapabilityControllerDeleted":
		return fmt.Sprintf("EvDeleted %s %s", evU64(f["id"]), evAddr(f["address"])), true
	case "flow.AccountCapabilityControllerDeleted":
		return fmt.Sprintf("EvAcctDeleted %s %s", evU64(f["id"]), evAddr(f["address"])), true
	case "flow.CapabilityPublished":
		p, ok := evPath(f["path"], "/public/q")
		c, ok2 := f["capability"].(cadence.Capability)
		if !ok || !ok2 || c.BorrowType == nil {
			return "", false
		}
		bt, ok3 := parseBty(c.BorrowType.ID())
		a, _ := parseAddr(c.Address.String())
		return fmt.Sprintf("EvPublished %s %s %s", evAddr(f["address"]), p, capCoq(uint64(c.ID), a, bt)), ok3
	case "flow.CapabilityUnpublished":
		p, ok := evPath(f["path"], "/public/q")
		return fmt.Sprintf("EvUnpublished %s %s", evAddr(f["address"]), p), ok
	case "flow.InboxValuePublished":
		n, ok := evName(f["name"])
		bt, ok2 := evType(f["type"])
		return fmt.Sprintf("EvInboxPublished %s %s %s %s", evAddr(f["provider"]), evAddr(f["recipient"]), n, bt.coq()), ok && ok2
	case "flow.InboxValueUnpublished":
		n, ok := evName(f["name"])
		return fmt.Sprintf("EvInboxUnpublished %s %s", evAddr(f["provider"]), n), ok
	case "flow.InboxValueClaimed":
		n, ok := evName(f["name"])
		return fmt.Sprintf("EvInboxClaimed %s %s %s", evAddr(f["provider"]), evAddr(f["recipient"]), n), ok
	}
	return "", false
}

// runTx executes the operations as one transaction and fills in the observation.
func runTx(h *lib.Host, vm bool, ops []Op) *Tx {
	t := &Tx{Ops: ops}
	o := h.RunTx(txSource(ops), nil, signers, vm)
	if o.Panic != nil {
		t.Bad = fmt.Sprintf("Go panic escaped the runtime: %v", o.Panic)
		return t
	}
	for _, l := range o.Logs {
		r, ok := parseResult(l)
		if !ok {
			t.Bad = "cannot interpret result line " + l
			return t
		}
		t.Results = append(t.Results, r)
	}
	for _, e := range o.Events {
		ev, ok := parseEvent(e)
		if !ok {
			t.Bad = "cannot interpret event " + e.String()
			return t
		}
		t.Events = append(t.Events, ev)
	}
	if o.Err != nil {
		t.Failed = true
		cls := failClass(o.Err)
		if cls == "" {
			t.Bad = fmt.Sprintf("transaction failed with an error outside the modelled classes: %T: %v", o.Err, firstLine(o.Err.Error()))
			return t
		}
		t.Results = append(t.Results, "(RFail "+cls+")")
		if len(t.Results) > len(ops) {
			t.Bad = "more results than operations"
		}
		return t
	}
	if len(t.Results) != len(ops) {
		t.Bad = fmt.Sprintf("%d results for %d operations", len(t.Results), len(ops))
		return t
	}
	// committed: measure whether retargets were persisted (fresh storage reads the ledger)
	last := map[[2]int]int{}
	var order [][2]int
	for i, op := range ops {
		if op.K == "ORetarget" && t.Results[i] == "RUnit" {
			k := [2]int{op.A, op.ID}
			if _, ok := last[k]; !ok {
				order = append(order, k)
			}
			last[k] = op.P
		}
	}
	for _, k := range order {
		src := fmt.Sprintf(`access(all) fun main(): String {
  let a = getAuthAccount<auth(Capabilities) &Account>(%s)
  if let c = a.capabilities.storage.getController(byCapabilityID: %d) { return c.target().toString() }
  return "gone"
}`, addr(k[0]), k[1])
		so := h.RunScript(src, nil, vm)
		if so.Err != nil || so.Value == nil {
			t.Bad = fmt.Sprintf("target probe script failed: %v", so.Err)
			return t
		}
		got := strings.Trim(so.Value.String(), "\"")
		want := fmt.Sprintf("/storage/p%d", last[k])
		if got != "gone" && got != want {
			t.Stale = append(t.Stale, k)
		}
	}
	return t
}

func firstLine(s string) string {
	if i := strings.Index(s, "\n"); i >= 0 {
		s = s[:i]
	}
	if len(s) > 300 {
		s = s[:300]
	}
	return s
}

func (t *Tx) coqTx() string {
	ops := make([]string, len(t.Ops))
	for i, o := range t.Ops {
		ops[i] = o.Coq()
	}
	st := make([]string, len(t.Stale))
	for i, s := range t.Stale {
		st[i] = fmt.Sprintf("(%d, %d)", s[0], s[1])
	}
	return "mkTx [" + strings.Join(ops, "; ") + "] [" + strings.Join(st, "; ") + "]"
}

func (t *Tx) coqObs() string {
	return "([" + strings.Join(t.Results, "; ") + "], [" + strings.Join(t.Events, "; ") + "])"
}

func (h *History) coq() string {
	txs := make([]string, len(h.Txs))
	obs := make([]string, len(h.Txs))
	for i, t := range h.Txs {
		txs[i] = t.coqTx()
		obs[i] = t.coqObs()
	}
	return "([" + strings.Join(txs, ";\n  ") + "],\n [" + strings.Join(obs, ";\n  ") + "])"
}

func (h *History) desc(vm bool) map[string]any {
	var txs []any
	for _, t := range h.Txs {
		var ops []string
		for _, o := range t.Ops {
			ops = append(ops, o.Desc())
		}
		txs = append(txs, map[string]any{"ops": ops, "observed_results": t.Results, "observed_events": t.Events,
			"stale_retargets": t.Stale, "failed": t.Failed})
	}
	return map[string]any{"history": h.Name, "vm": vm, "transactions": txs}
}

func (h *History) hasStale() bool {
	for _, t := range h.Txs {
		if len(t.Stale) > 0 {
			return true
		}
	}
	return false
}
