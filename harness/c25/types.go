package main

import (
	"fmt"
	"strings"

	"cvh/lib"

	"github.com/onflow/cadence/common"
	"github.com/onflow/cadence/parser"
	"github.com/onflow/cadence/sema"
	"github.com/onflow/cadence/stdlib"
)

// The explicit type lattice of Coq C25/Model.v, rendered three ways: Cadence source,
// Coq term, sema.Type (for the exhaustive table tie).

const typesContract = `
access(all) contract T {
  access(all) entitlement E
  access(all) entitlement F
  access(all) entitlement G
  access(all) struct interface I {}
  access(all) struct interface J {}
  access(all) struct A: I { init() {} }
  access(all) struct B: I, J { init() {} }
  access(all) struct C { init() {} }
  access(all) resource interface RI {}
  access(all) resource R: RI {}
  access(all) resource Q {}

  access(all) fun join(_ xs: [UInt64]): String {
    var s = "l:"
    var first = true
    for x in xs {
      if !first { s = s.concat(",") }
      first = false
      s = s.concat(x.toString())
    }
    return s
  }
  access(all) fun capinfo(_ c: Capability): String {
    return "k:".concat(c.id.toString()).concat("#").concat(c.address.toString()).concat("#").concat(c.getType().identifier)
  }
  access(all) fun mkR(): @R { return <- create R() }
  access(all) fun mkQ(): @Q { return <- create Q() }
  // empty a storage path, whatever kind of value it holds
  access(all) fun clear(_ s: auth(Storage) &Account, _ p: StoragePath) {
    if let t = s.storage.type(at: p) {
      if t.isSubtype(of: Type<@AnyResource>()) {
        destroy s.storage.load<@AnyResource>(from: p)
      } else {
        let old = s.storage.load<AnyStruct>(from: p)
      }
    }
  }
  access(all) fun put(_ s: auth(Storage) &Account, _ k: StoragePath, _ c: Capability) {
    let old = s.storage.load<AnyStruct>(from: k)
    s.storage.save(c, to: k)
  }
}
`

var baseNames = []string{"BA", "BB", "BC", "BI", "BJ", "BIJ", "BAny", "BAcct", "BR", "BQ", "BRI", "BAnyRes"}
var baseSrc = []string{"T.A", "T.B", "T.C", "{T.I}", "{T.J}", "{T.I, T.J}", "AnyStruct", "Account", "T.R", "T.Q", "{T.RI}", "AnyResource"}
var entNames = []string{"T.E", "T.F", "T.G"}

type authT struct {
	Kind int // 0 unauthorized, 1 conjunction, 2 disjunction
	Set  []int
}

var auths = []authT{
	{0, nil},
	{1, []int{0}}, {1, []int{1}}, {1, []int{2}},
	{1, []int{0, 1}}, {1, []int{0, 2}}, {1, []int{1, 2}}, {1, []int{0, 1, 2}},
	{2, []int{0, 1}}, {2, []int{0, 2}}, {2, []int{1, 2}}, {2, []int{0, 1, 2}},
}

const nBase = 12

// a borrow type is an index: auth*nBase + base
type btyT int

func (b btyT) auth() authT { return auths[int(b)/nBase] }
func (b btyT) base() int   { return int(b) % nBase }
func nBty() int            { return len(auths) * nBase }

func (a authT) coq() string {
	if a.Kind == 0 {
		return "AUn"
	}
	parts := make([]string, len(a.Set))
	for i, e := range a.Set {
		parts[i] = fmt.Sprint(e)
	}
	k := "AConj"
	if a.Kind == 2 {
		k = "ADisj"
	}
	return "(" + k + " [" + strings.Join(parts, ";") + "])"
}

func (b btyT) coq() string { return "(" + b.auth().coq() + ", " + baseNames[b.base()] + ")" }

func (b btyT) src() string {
	a := b.auth()
	pre := "&"
	if a.Kind != 0 {
		parts := make([]string, len(a.Set))
		for i, e := range a.Set {
			parts[i] = entNames[e]
		}
		sep := ", "
		if a.Kind == 2 {
			sep = " | "
		}
		pre = "auth(" + strings.Join(parts, sep) + ") &"
	}
	return pre + baseSrc[b.base()]
}

// typeIDs maps the runtime type identifier of every borrow type to its index
// (filled by initTypeIDs by evaluating Type<T>().identifier in the real runtime).
var typeIDs = map[string]btyT{}

func initTypeIDs(h *lib.Host, vm bool) error {
	var sb strings.Builder
	sb.WriteString("import T from 0x1\naccess(all) fun main(): [String] { return [\n")
	for i := 0; i < nBty(); i++ {
		if i > 0 {
			sb.WriteString(",\n")
		}
		sb.WriteString("Type<" + btyT(i).src() + ">().identifier")
	}
	sb.WriteString("] }")
	o := h.RunScript(sb.String(), nil, vm)
	if o.Err != nil || o.Value == nil {
		return fmt.Errorf("type id script failed: %v", o.Err)
	}
	s := o.Value.String() // ["..", ".."]
	s = strings.TrimSuffix(strings.TrimPrefix(s, "["), "]")
	parts := strings.Split(s, "\", \"")
	if len(parts) != nBty() {
		return fmt.Errorf("type id script: %d ids for %d types", len(parts), nBty())
	}
	for i, p := range parts {
		p = strings.Trim(p, "\"")
		if old, ok := typeIDs[p]; ok && old != btyT(i) {
			return fmt.Errorf("type id %q ambiguous: %d and %d", p, old, i)
		}
		typeIDs[p] = btyT(i)
	}
	return nil
}

// semaTypes builds the sema types of the lattice from a checked copy of the contract.
func semaTypes() (bases []sema.Type, accs []sema.Access, err error) {
	// only the declarations (the helper functions need the standard library)
	src := typesContract[:strings.Index(typesContract, "access(all) fun join")] + "}"
	prog, err := parser.ParseProgram(nil, []byte(src), parser.Config{})
	if err != nil {
		return nil, nil, err
	}
	loc := common.AddressLocation{Address: common.MustBytesToAddress([]byte{1}), Name: "T"}
	checker, err := sema.NewChecker(prog, loc, nil, &sema.Config{AccessCheckMode: sema.AccessCheckModeStrict})
	if err != nil {
		return nil, nil, err
	}
	if err = checker.Check(); err != nil {
		return nil, nil, err
	}
	v, ok := checker.Elaboration.GetGlobalType("T")
	if !ok {
		return nil, nil, fmt.Errorf("contract type T not found")
	}
	ct := v.Type.(*sema.CompositeType)
	nested := func(n string) sema.Type {
		t, ok := ct.GetNestedTypes().Get(n)
		if !ok {
			panic("nested type " + n)
		}
		return t
	}
	i, j := nested("I").(*sema.InterfaceType), nested("J").(*sema.InterfaceType)
	bases = []sema.Type{
		nested("A"), nested("B"), nested("C"),
		sema.NewIntersectionType(nil, nil, []*sema.InterfaceType{i}),
		sema.NewIntersectionType(nil, nil, []*sema.InterfaceType{j}),
		sema.NewIntersectionType(nil, nil, []*sema.InterfaceType{i, j}),
		sema.AnyStructType, sema.AccountType,
		nested("R"), nested("Q"),
		sema.NewIntersectionType(nil, nil, []*sema.InterfaceType{nested("RI").(*sema.InterfaceType)}),
		sema.AnyResourceType,
	}
	ents := []*sema.EntitlementType{
		nested("E").(*sema.EntitlementType), nested("F").(*sema.EntitlementType), nested("G").(*sema.EntitlementType),
	}
	for _, a := range auths {
		if a.Kind == 0 {
			accs = append(accs, sema.UnauthorizedAccess)
			continue
		}
		var es []*sema.EntitlementType
		for _, e := range a.Set {
			es = append(es, ents[e])
		}
		kind := sema.Conjunction
		if a.Kind == 2 {
			kind = sema.Disjunction
		}
		accs = append(accs, sema.NewEntitlementSetAccess(es, kind))
	}
	return
}

// typeTableCases ties base_sub / permits / ref_sub / can_borrow of the Coq model to
// sema.IsSubType / Access.PermitsAccess / stdlib.CanBorrow, exhaustively over the lattice.
func typeTableCases(dir string, sum *lib.Summary, thorough bool) []string {
	bases, accs, err := semaTypes()
	if err != nil {
		sum.Fail("harness-types", "cannot check the type lattice contract: "+err.Error(), map[string]any{"error": err.Error()})
		return nil
	}
	cw := &lib.CaseWriter{
		Dir: dir, Prefix: "cases_C25_types",
		Header:   "From CV Require Import C25.Cases.",
		ElemType: "Z * bty * bty * bool",
		CheckFn:  "check_types",
		PerFile:  3500,
	}
	b := func(x bool) string {
		if x {
			return "true"
		}
		return "false"
	}
	add := func(kind int, x, y btyT, obs bool) {
		sum.Evaluations++
		sum.Count(fmt.Sprintf("type-table kind %d", kind))
		cw.Add(fmt.Sprintf("(%d, %s, %s, %s)", kind, x.coq(), y.coq(), b(obs)),
			map[string]any{"table": []string{"IsSubType", "PermitsAccess", "reference-subtype", "CanBorrow"}[kind],
				"x": x.src(), "y": y.src(), "observed": obs})
	}
	for x := 0; x < nBase; x++ {
		for y := 0; y < nBase; y++ {
			add(0, btyT(x), btyT(y), sema.IsSubType(bases[x], bases[y]))
		}
	}
	for x := range auths {
		for y := range auths {
			add(1, btyT(x*nBase), btyT(y*nBase), accs[x].PermitsAccess(accs[y]))
		}
	}
	ref := func(t btyT) *sema.ReferenceType {
		return sema.NewReferenceType(nil, accs[int(t)/nBase], bases[t.base()])
	}
	n := nBty()
	for x := 0; x < n; x++ {
		for y := 0; y < n; y++ {
			if !thorough && (x*7+y*13)%6 != 0 {
				continue
			}
			rx, ry := ref(btyT(x)), ref(btyT(y))
			add(2, btyT(x), btyT(y), sema.IsSubType(rx, ry))
			add(3, btyT(x), btyT(y), stdlib.CanBorrow(rx, ry))
		}
	}
	cw.Close()
	return cw.Files
}
