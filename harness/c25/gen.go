package main

import (
	"strconv"
	"strings"

	"cvh/lib"
)

// tracker: what the generator knows about the state, learnt from the observed results of the
// interpreter run (used only to bias generation towards meaningful operations).
type tracker struct {
	next   [4]int          // highest id issued per account
	acct   [4]map[int]bool // id -> is an account controller
	recent []btyT          // borrow types used by issue operations
}

func newTracker() *tracker {
	t := &tracker{}
	for i := range t.acct {
		t.acct[i] = map[int]bool{}
	}
	return t
}

func (t *tracker) observe(tx *Tx) {
	for i, r := range tx.Results {
		if i >= len(tx.Ops) {
			break
		}
		o := tx.Ops[i]
		if o.K == "OIssue" && strings.HasPrefix(r, "(RId ") {
			id, _ := strconv.Atoi(strings.TrimSuffix(strings.TrimPrefix(r, "(RId "), ")"))
			if id > t.next[o.A] {
				t.next[o.A] = id
			}
			t.acct[o.A][id] = o.Acct
			t.recent = append(t.recent, o.BT)
		}
	}
}

type gen struct {
	r        *lib.Rng
	t        *tracker
	thorough bool
}

func (g *gen) acctN() int { return 1 + g.r.Intn(3) }

func (g *gen) pickAuth() int {
	switch x := g.r.Intn(100); {
	case x < 40:
		return 0
	case x < 60:
		return 1 + g.r.Intn(3) // single entitlement
	case x < 75:
		return 4 + g.r.Intn(4) // conjunctions
	case x < 90:
		return 8 + g.r.Intn(4) // disjunctions
	default:
		return g.r.Intn(len(auths))
	}
}

func (g *gen) pickBase() int {
	switch x := g.r.Intn(100); {
	case x < 50:
		return []int{0, 0, 1, 1, 3, 3, 4, 5, 6, 6}[g.r.Intn(10)]
	case x < 60:
		return 2
	case x < 84:
		return []int{8, 8, 9, 10, 11, 11}[g.r.Intn(6)]
	case x < 92:
		return 7
	default:
		return g.r.Intn(nBase)
	}
}

func (g *gen) pickBT() btyT { return btyT(g.pickAuth()*nBase + g.pickBase()) }

// wanted type: often a variation of a type that was issued
func (g *gen) pickWanted() btyT {
	if len(g.t.recent) > 0 && g.r.Chance(6, 10) {
		b := g.t.recent[g.r.Intn(len(g.t.recent))]
		switch g.r.Intn(4) {
		case 0:
			return b
		case 1:
			return btyT(g.pickAuth()*nBase + b.base())
		case 2:
			return btyT((int(b)/nBase)*nBase + g.pickBase())
		default:
			return btyT(b.base()) // unauthorized, same base
		}
	}
	return g.pickBT()
}

func (g *gen) pickID(a int) (id int, acct bool) {
	n := g.t.next[a]
	switch x := g.r.Intn(100); {
	case n > 0 && x < 86:
		id = 1 + g.r.Intn(n)
	case x < 91:
		id = n + 1
	case x < 95:
		id = 0
	default:
		id = 1 + g.r.Intn(4)
	}
	acct = g.t.acct[a][id]
	if g.r.Chance(1, 8) {
		acct = !acct
	}
	return
}

var opWeights = []struct {
	k string
	w int
}{
	{"OPut", 8}, {"OTake", 3}, {"OIssue", 11}, {"OIssueAcct", 3}, {"OGetCtrl", 5}, {"OList", 9},
	{"ODelete", 5}, {"ORetarget", 7}, {"OSetTag", 3}, {"OCtrlCap", 4}, {"OPublish", 7}, {"OUnpublish", 4},
	{"OGet", 6}, {"OBorrowPub", 6}, {"OExists", 2}, {"OCapBorrow", 8}, {"OCapCheck", 8}, {"OCapInfo", 2},
	{"OInboxPublish", 4}, {"OInboxUnpublish", 2}, {"OInboxClaim", 5},
}

func (g *gen) op() Op {
	tot := 0
	for _, w := range opWeights {
		tot += w.w
	}
	x := g.r.Intn(tot)
	k := ""
	for _, w := range opWeights {
		if x < w.w {
			k = w.k
			break
		}
		x -= w.w
	}
	a := g.acctN()
	o := Op{K: k, A: a, P: g.r.Intn(3), Slot: g.r.Intn(4), PP: g.r.Intn(3), Name: g.r.Intn(3), Tgt: g.acctN()}
	switch k {
	case "OPut":
		o.V = []int{0, 1, 2, 3, 3, 4}[g.r.Intn(6)]
	case "OIssue":
		o.BT = g.pickBT()
	case "OIssueAcct":
		o.K = "OIssue"
		o.Acct = true
		o.BT = btyT(g.pickAuth()*nBase + 7)
	case "OGetCtrl", "ODelete", "OCtrlCap":
		o.ID, o.Acct = g.pickID(a)
	case "OSetTag":
		o.ID, o.Acct = g.pickID(a)
		o.Tag = g.r.Intn(4)
	case "ORetarget":
		o.ID, _ = g.pickID(a)
	case "OList":
		o.Acct = g.r.Chance(1, 5)
		o.Mode = []int{0, 0, 1, 1, 2}[g.r.Intn(5)]
	case "OGet", "OBorrowPub":
		o.BT = g.pickWanted()
	case "OCapBorrow", "OCapCheck":
		o.BT = g.pickWanted()
		o.Typed = g.r.Chance(1, 5)
	case "OInboxPublish":
		o.Recip = g.acctN()
	case "OInboxUnpublish":
		o.BT = g.pickWanted()
	case "OInboxClaim":
		o.Prov = g.acctN()
		o.BT = g.pickWanted()
	}
	return o
}

// setup transaction: values at target paths and a few controllers
func (g *gen) setupTx() []Op {
	var ops []Op
	n := 4 + g.r.Intn(5)
	for i := 0; i < n; i++ {
		a := g.acctN()
		if g.r.Chance(1, 2) {
			ops = append(ops, Op{K: "OPut", A: a, P: g.r.Intn(3), V: []int{0, 1, 2, 3, 3, 4}[g.r.Intn(6)]})
		} else {
			ops = append(ops, Op{K: "OIssue", A: a, P: g.r.Intn(3), BT: g.pickBT(), Slot: g.r.Intn(4)})
		}
	}
	return ops
}

func (g *gen) randomTx() []Op {
	max := 8
	if g.thorough {
		max = 12
	}
	n := 1 + g.r.Intn(max)
	var ops []Op
	for i := 0; i < n; i++ {
		ops = append(ops, g.op())
	}
	if g.r.Chance(15, 100) {
		// a transaction that fails: everything in it must stay invisible later
		at := g.r.Intn(len(ops) + 1)
		ops = append(ops[:at:at], append([]Op{{K: "OPanic"}}, ops[at:]...)...)
	}
	return ops
}

// ---------------------------------------------------------------- fixed scenarios (run first, every seed)

func st(a, bt int) btyT { return btyT(a*nBase + bt) }

func scenarios() map[string][][]Op {
	un := func(b int) btyT { return btyT(b) }
	sc := map[string][][]Op{}

	// many controllers in one account, retarget in its own transaction, observe in later ones
	var issue []Op
	issue = append(issue, Op{K: "OPut", A: 1, P: 0, V: 0}, Op{K: "OPut", A: 1, P: 1, V: 1})
	for i := 0; i < 40; i++ {
		issue = append(issue, Op{K: "OIssue", A: 1, P: 0, BT: un(0), Slot: i % 4})
	}
	sc["retarget-large-account"] = [][]Op{
		issue,
		{{K: "OCtrlCap", A: 1, ID: 1, Slot: 0}, {K: "OCapCheck", A: 1, Slot: 0, BT: un(0)}},
		{{K: "ORetarget", A: 1, ID: 1, P: 1}, {K: "OGetCtrl", A: 1, ID: 1}, {K: "OCapCheck", A: 1, Slot: 0, BT: un(0)}},
		{{K: "OGetCtrl", A: 1, ID: 1}, {K: "OList", A: 1, P: 0}, {K: "OList", A: 1, P: 1, Mode: 1},
			{K: "OCapCheck", A: 1, Slot: 0, BT: un(0)}, {K: "OCapCheck", A: 1, Slot: 0, BT: un(3)}},
		{{K: "ODelete", A: 1, ID: 1}},
		{{K: "OGetCtrl", A: 1, ID: 1}, {K: "OList", A: 1, P: 1}, {K: "OCapCheck", A: 1, Slot: 0, BT: un(3)}},
	}

	sc["retarget-then-delete"] = [][]Op{
		{{K: "OPut", A: 2, P: 0, V: 0}, {K: "OPut", A: 2, P: 2, V: 1},
			{K: "OIssue", A: 2, P: 0, BT: un(3), Slot: 0}, {K: "OIssue", A: 2, P: 0, BT: un(0), Slot: 1},
			{K: "OIssue", A: 2, P: 2, BT: un(1), Slot: 2}},
		{{K: "ORetarget", A: 2, ID: 1, P: 2}, {K: "OList", A: 2, P: 0}, {K: "OList", A: 2, P: 2}},
		{{K: "OCapCheck", A: 2, Slot: 0, BT: un(3)}, {K: "OCapBorrow", A: 2, Slot: 0, BT: un(0)}, {K: "OCapBorrow", A: 2, Slot: 0, BT: un(1)},
			{K: "ODelete", A: 2, ID: 1}, {K: "OList", A: 2, P: 0, Mode: 1}, {K: "OList", A: 2, P: 2, Mode: 1}, {K: "OList", A: 2, P: 2, Mode: 2}},
		{{K: "OCapCheck", A: 2, Slot: 0, BT: un(3)}, {K: "OGetCtrl", A: 2, ID: 1}, {K: "OList", A: 2, P: 2},
			{K: "ORetarget", A: 2, ID: 3, P: 0}, {K: "ORetarget", A: 2, ID: 3, P: 0}, {K: "OList", A: 2, P: 0}, {K: "ODelete", A: 2, ID: 3}, {K: "ODelete", A: 2, ID: 3},
			{K: "OList", A: 2, P: 0}, {K: "OList", A: 2, P: 2}},
	}

	// borrow rule: controller &{I} with entitlement E at a path holding an A
	var matrix []Op
	for _, w := range []btyT{un(0), un(1), un(2), un(3), un(4), un(5), un(6), un(7), st(1, 0), st(1, 3), st(2, 3), st(4, 3), st(8, 3), st(9, 0), st(10, 3), st(7, 6)} {
		matrix = append(matrix, Op{K: "OCapCheck", A: 3, Slot: 0, BT: w}, Op{K: "OCapBorrow", A: 3, Slot: 0, BT: w},
			Op{K: "OCapBorrow", A: 3, Slot: 0, BT: w, Typed: true})
	}
	sc["borrow-matrix"] = [][]Op{
		{{K: "OPut", A: 3, P: 1, V: 0}, {K: "OIssue", A: 3, P: 1, BT: st(1, 3), Slot: 0}, {K: "OCapInfo", A: 3, Slot: 0}},
		matrix,
		{{K: "OPut", A: 3, P: 1, V: 2}},
		matrix,
		{{K: "OPut", A: 3, P: 1, V: 1}, {K: "OPublish", A: 3, Slot: 0, PP: 1}, {K: "OGet", A: 1, Tgt: 3, PP: 1, BT: un(1), Slot: 3},
			{K: "OCapBorrow", A: 1, Slot: 3, BT: un(1)}, {K: "OCapBorrow", A: 1, Slot: 3, BT: un(0)}, {K: "OCapBorrow", A: 1, Slot: 3, BT: st(1, 1)},
			{K: "OGet", A: 1, Tgt: 3, PP: 1, BT: st(1, 6), Slot: 2}, {K: "OCapBorrow", A: 1, Slot: 2, BT: st(1, 1)}, {K: "OCapBorrow", A: 1, Slot: 2, BT: st(2, 6)}},
		{{K: "OTake", A: 3, P: 1}},
		matrix,
	}

	// the controller's borrow type must be checked as well as the capability's: controller &{J},
	// stored value A (conforms to I only), capability re-typed to &AnyStruct through get
	sc["controller-type-check"] = [][]Op{
		{{K: "OPut", A: 2, P: 1, V: 0}, {K: "OIssue", A: 2, P: 1, BT: un(4), Slot: 0}, {K: "OPublish", A: 2, Slot: 0, PP: 2},
			{K: "OGet", A: 3, Tgt: 2, PP: 2, BT: un(6), Slot: 1}, {K: "OCapInfo", A: 3, Slot: 1}},
		{{K: "OCapBorrow", A: 3, Slot: 1, BT: un(3)}, {K: "OCapCheck", A: 3, Slot: 1, BT: un(0)}, {K: "OCapCheck", A: 3, Slot: 1, BT: un(6)},
			{K: "OCapCheck", A: 3, Slot: 1, BT: un(4)}, {K: "OCapBorrow", A: 3, Slot: 1, BT: un(6), Typed: true},
			{K: "OGet", A: 3, Tgt: 2, PP: 2, BT: un(3), Slot: 2}, {K: "OBorrowPub", Tgt: 2, PP: 2, BT: un(3)}, {K: "OBorrowPub", Tgt: 2, PP: 2, BT: un(6)}},
		{{K: "OPut", A: 2, P: 1, V: 1}, {K: "OCapBorrow", A: 3, Slot: 1, BT: un(3)}, {K: "OCapCheck", A: 3, Slot: 1, BT: un(4)}, {K: "OCapCheck", A: 3, Slot: 1, BT: un(5)}},
	}

	// top types against values of the other kind: &AnyStruct on a resource, &AnyResource on a struct,
	// with the value replaced after issue and the controller retargeted
	var tops []Op
	for slot, ws := range [][]btyT{{un(6), un(11), un(3)}, {un(11), un(8), un(9), un(10), un(6), st(1, 11)}, {un(10), un(11), un(8), un(6)}} {
		for _, w := range ws {
			tops = append(tops, Op{K: "OCapCheck", A: 2, Slot: slot, BT: w}, Op{K: "OCapBorrow", A: 2, Slot: slot, BT: w})
		}
		tops = append(tops, Op{K: "OCapBorrow", A: 2, Slot: slot, BT: un(6), Typed: true}, Op{K: "OCapCheck", A: 2, Slot: slot, BT: un(11), Typed: true})
	}
	tops = append(tops, Op{K: "OBorrowPub", Tgt: 2, PP: 0, BT: un(6)}, Op{K: "OBorrowPub", Tgt: 2, PP: 1, BT: un(11)},
		Op{K: "OGet", A: 2, Tgt: 2, PP: 0, BT: un(6), Slot: 3}, Op{K: "OCapCheck", A: 2, Slot: 3, BT: un(6)})
	sc["top-types"] = [][]Op{
		{{K: "OPut", A: 2, P: 0, V: 3}, {K: "OIssue", A: 2, P: 0, BT: un(6), Slot: 0}, {K: "OIssue", A: 2, P: 0, BT: un(11), Slot: 1},
			{K: "OIssue", A: 2, P: 0, BT: un(10), Slot: 2}, {K: "OPublish", A: 2, Slot: 0, PP: 0}, {K: "OPublish", A: 2, Slot: 1, PP: 1}},
		tops,
		{{K: "OPut", A: 2, P: 0, V: 0}},
		tops,
		{{K: "OPut", A: 2, P: 0, V: 4}, {K: "OPut", A: 2, P: 1, V: 1}},
		tops,
		{{K: "ORetarget", A: 2, ID: 2, P: 1}, {K: "ORetarget", A: 2, ID: 1, P: 2}, {K: "OPut", A: 2, P: 2, V: 3}},
		tops,
		{{K: "OTake", A: 2, P: 2}, {K: "OTake", A: 2, P: 1}},
		tops,
	}

	sc["account-capabilities"] = [][]Op{
		{{K: "OIssue", A: 1, Acct: true, BT: st(1, 7), Slot: 0}, {K: "OIssue", A: 1, P: 0, BT: un(0), Slot: 1}, {K: "OIssue", A: 1, Acct: true, BT: un(7), Slot: 2}},
		{{K: "OList", A: 1, Acct: true}, {K: "OList", A: 1, Acct: true, Mode: 1}, {K: "OGetCtrl", A: 1, Acct: true, ID: 1}, {K: "OGetCtrl", A: 1, ID: 1},
			{K: "OGetCtrl", A: 1, Acct: true, ID: 2}, {K: "OGetCtrl", A: 1, ID: 2},
			{K: "OCapCheck", A: 1, Slot: 0, BT: un(7)}, {K: "OCapCheck", A: 1, Slot: 0, BT: st(1, 7)}, {K: "OCapCheck", A: 1, Slot: 0, BT: st(2, 7)},
			{K: "OCapCheck", A: 1, Slot: 0, BT: un(6)}, {K: "OCapCheck", A: 1, Slot: 0, BT: un(0)}, {K: "OCapBorrow", A: 1, Slot: 2, BT: st(1, 7)}},
		{{K: "OSetTag", A: 1, Acct: true, ID: 1, Tag: 2}, {K: "OSetTag", A: 1, ID: 1, Tag: 1}, {K: "OGetCtrl", A: 1, Acct: true, ID: 1},
			{K: "ODelete", A: 1, ID: 1}, {K: "ODelete", A: 1, Acct: true, ID: 1}, {K: "OList", A: 1, Acct: true}, {K: "OList", A: 1, Acct: true, Mode: 2}},
		{{K: "OCapCheck", A: 1, Slot: 0, BT: un(7)}, {K: "OCapBorrow", A: 1, Slot: 0, BT: un(7)}, {K: "OGetCtrl", A: 1, Acct: true, ID: 1}, {K: "OCapCheck", A: 1, Slot: 2, BT: un(7)}},
	}

	sc["inbox"] = [][]Op{
		{{K: "OPut", A: 1, P: 0, V: 1}, {K: "OIssue", A: 1, P: 0, BT: st(4, 1), Slot: 0}, {K: "OIssue", A: 1, P: 0, BT: un(4), Slot: 1},
			{K: "OInboxPublish", A: 1, Slot: 0, Name: 0, Recip: 2}, {K: "OInboxPublish", A: 1, Slot: 1, Name: 1, Recip: 3}},
		{{K: "OInboxClaim", A: 3, Name: 0, Prov: 1, BT: un(1), Slot: 0}, {K: "OInboxClaim", A: 2, Name: 0, Prov: 2, BT: un(1), Slot: 0},
			{K: "OInboxClaim", A: 2, Name: 1, Prov: 1, BT: un(4), Slot: 0}, {K: "OInboxClaim", A: 2, Name: 2, Prov: 1, BT: un(1), Slot: 0}},
		{{K: "OInboxClaim", A: 2, Name: 0, Prov: 1, BT: st(4, 0), Slot: 0}},
		{{K: "OInboxClaim", A: 2, Name: 0, Prov: 1, BT: st(7, 1), Slot: 0}},
		{{K: "OInboxClaim", A: 2, Name: 0, Prov: 1, BT: st(1, 3), Slot: 0}, {K: "OCapInfo", A: 2, Slot: 0}, {K: "OCapBorrow", A: 2, Slot: 0, BT: st(1, 3)},
			{K: "OInboxClaim", A: 2, Name: 0, Prov: 1, BT: st(1, 3), Slot: 1}, {K: "OCapInfo", A: 2, Slot: 1}},
		{{K: "OInboxUnpublish", A: 1, Name: 0, BT: un(1), Slot: 3}, {K: "OInboxUnpublish", A: 1, Name: 1, BT: un(1), Slot: 3}},
		{{K: "OInboxUnpublish", A: 1, Name: 1, BT: un(3), Slot: 3}, {K: "OInboxClaim", A: 3, Name: 1, Prov: 1, BT: un(4), Slot: 0},
			{K: "OInboxPublish", A: 2, Slot: 0, Name: 1, Recip: 3}, {K: "OInboxPublish", A: 2, Slot: 0, Name: 1, Recip: 1}, {K: "OInboxClaim", A: 3, Name: 1, Prov: 2, BT: un(6), Slot: 0},
			{K: "OInboxClaim", A: 1, Name: 1, Prov: 2, BT: un(6), Slot: 2}, {K: "OCapCheck", A: 1, Slot: 2, BT: un(1)}},
	}

	sc["publish"] = [][]Op{
		{{K: "OPut", A: 1, P: 0, V: 0}, {K: "OIssue", A: 1, P: 0, BT: un(0), Slot: 0}, {K: "OIssue", A: 2, P: 0, BT: un(0), Slot: 0},
			{K: "OPublish", A: 1, Slot: 0, PP: 0}, {K: "OExists", Tgt: 1, PP: 0}, {K: "OGet", A: 2, Tgt: 1, PP: 0, BT: un(3), Slot: 1}, {K: "OBorrowPub", Tgt: 1, PP: 0, BT: un(3)},
			{K: "OBorrowPub", Tgt: 1, PP: 0, BT: un(1)}, {K: "OBorrowPub", Tgt: 1, PP: 1, BT: un(0)}, {K: "OBorrowPub", Tgt: 2, PP: 0, BT: un(0)}},
		{{K: "OPublish", A: 2, Slot: 1, PP: 1}},
		{{K: "OPublish", A: 1, Slot: 0, PP: 0}},
		{{K: "OExists", Tgt: 2, PP: 1}, {K: "OUnpublish", A: 1, PP: 0, Slot: 2}, {K: "OUnpublish", A: 1, PP: 0, Slot: 2}, {K: "OExists", Tgt: 1, PP: 0},
			{K: "OGet", A: 2, Tgt: 1, PP: 0, BT: un(0), Slot: 3}, {K: "OBorrowPub", Tgt: 1, PP: 0, BT: un(0)}, {K: "OCapBorrow", A: 2, Slot: 1, BT: un(0)},
			{K: "OPublish", A: 1, Slot: 2, PP: 2}, {K: "OBorrowPub", Tgt: 1, PP: 2, BT: un(0)}, {K: "ODelete", A: 1, ID: 1}, {K: "OBorrowPub", Tgt: 1, PP: 2, BT: un(0)},
			{K: "OGet", A: 2, Tgt: 1, PP: 2, BT: un(0), Slot: 3}, {K: "OExists", Tgt: 1, PP: 2}},
	}

	sc["rollback"] = [][]Op{
		{{K: "OPut", A: 1, P: 0, V: 0}, {K: "OIssue", A: 1, P: 0, BT: un(0), Slot: 0}},
		{{K: "OIssue", A: 1, P: 1, BT: un(1), Slot: 1}, {K: "OPublish", A: 1, Slot: 0, PP: 0}, {K: "ODelete", A: 1, ID: 1}, {K: "OSetTag", A: 1, ID: 2, Tag: 3},
			{K: "OInboxPublish", A: 1, Slot: 1, Name: 0, Recip: 2}, {K: "OTake", A: 1, P: 0}, {K: "OPanic"}},
		{{K: "OExists", Tgt: 1, PP: 0}, {K: "OGetCtrl", A: 1, ID: 1}, {K: "OGetCtrl", A: 1, ID: 2}, {K: "OList", A: 1, P: 0}, {K: "OList", A: 1, P: 1},
			{K: "OCapCheck", A: 1, Slot: 0, BT: un(0)}, {K: "OCapInfo", A: 1, Slot: 1}, {K: "OInboxClaim", A: 2, Name: 0, Prov: 1, BT: un(1), Slot: 0},
			{K: "OIssue", A: 1, P: 1, BT: un(1), Slot: 1}},
	}
	return sc
}
