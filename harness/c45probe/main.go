package main

import (
	"fmt"

	"github.com/onflow/cadence"
	"github.com/onflow/cadence/common"
	"github.com/onflow/cadence/interpreter"
	"github.com/onflow/cadence/runtime"
	"github.com/onflow/cadence/sema"
)

func dec(id string) {
	defer func() {
		if r := recover(); r != nil {
			fmt.Printf("decode %q PANIC %v\n", id, r)
		}
	}()
	loc, qid, err := common.DecodeTypeID(nil, id)
	fmt.Printf("decode %q -> loc=%#v qid=%q err=%v\n", id, loc, qid, err)
}

func main() {
	locs := []common.Location{
		common.StringLocation("foo.cdc"), common.StringLocation("foo"), common.IdentifierLocation("Crypto"), common.IdentifierLocation("a.b"),
		common.AddressLocation{Address: common.MustBytesToAddress([]byte{1, 2}), Name: "C"},
		common.AddressLocation{Address: common.MustBytesToAddress([]byte{1, 2}), Name: "Other"},
		common.TransactionLocation{1, 2, 3}, common.ScriptLocation{9}, common.REPLLocation{}, nil,
	}
	for _, l := range locs {
		for _, q := range []string{"C", "C.T", "", "A.B", "S"} {
			id := common.NewTypeIDFromQualifiedName(nil, l, q)
			fmt.Printf("loc=%#v qid=%q id=%q\n", l, q, id)
			dec(string(id))
			if l != nil {
				fmt.Printf("   loc.QualifiedIdentifier(id)=%q\n", l.QualifiedIdentifier(id))
			}
		}
	}
	// attachment import
	loc := common.AddressLocation{Address: common.MustBytesToAddress([]byte{1}), Name: "C"}
	att := &sema.CompositeType{Location: loc, Identifier: "A", Kind: common.CompositeKindAttachment, Members: &sema.StringMemberOrderedMap{}}
	func() {
		defer func() {
			if r := recover(); r != nil {
				fmt.Println("attachment export/import PANIC:", r)
			}
		}()
		ex := runtime.ExportType(att, map[sema.TypeID]cadence.Type{})
		fmt.Printf("export attachment: %T id=%s\n", ex, ex.ID())
		im := runtime.ImportType(nil, ex)
		fmt.Printf("import: %T %s\n", im, im.ID())
	}()
	ft := &sema.FunctionType{ReturnTypeAnnotation: sema.NewTypeAnnotation(sema.IntType), Parameters: []sema.Parameter{{Identifier: "a", TypeAnnotation: sema.NewTypeAnnotation(sema.StringType)}}}
	func() {
		defer func() {
			if r := recover(); r != nil {
				fmt.Println("function export/import PANIC:", r)
			}
		}()
		ex := runtime.ExportType(ft, map[sema.TypeID]cadence.Type{})
		fmt.Printf("export function: %T id=%s sema id=%s static id=%s\n", ex, ex.ID(), ft.ID(), interpreter.ConvertSemaToStaticType(nil, ft).ID())
		im := runtime.ImportType(nil, ex)
		fmt.Printf("import: %T %s\n", im, im.ID())
	}()
}
