package main

// Dictionary histories: generation, independent Go oracle (Go map), Cadence / Coq rendering,
// parsing of logged observations (iteration order is canonicalised: sorted by id).

import (
	"fmt"
	"math/big"
	"sort"
	"strings"

	"cvh/lib"
)

type dop struct {
	Op   string   // insert remove get set setNil containsKey length keys values entries forEachKey iterate
	K, V *big.Int // key / value operand
	Stop *big.Int // forEachKey: stop at this key (nil: never)
}

type dout struct {
	Tag  string // u o b z ks vs es
	Some bool
	V    *big.Int
	B    bool
	Ks   []*big.Int // keys (sorted, except for forEachKey: visiting order)
	Vs   []*big.Int // values (sorted for "vs"; aligned with Ks for "es")
}

func (o dout) String() string {
	switch o.Tag {
	case "u":
		return "u"
	case "o":
		if !o.Some {
			return "o:nil"
		}
		return "o:" + o.V.String()
	case "b":
		return fmt.Sprint("b:", o.B)
	case "z":
		return "z:" + o.V.String()
	case "ks":
		return "ks:" + idsString(o.Ks)
	case "vs":
		return "vs:" + idsString(o.Vs)
	case "es":
		return "es:" + idsString(o.Ks) + idsString(o.Vs)
	}
	return "?"
}

func (o dout) coq() string {
	switch o.Tag {
	case "u":
		return "QUnit"
	case "o":
		if !o.Some {
			return "QOpt None"
		}
		return "QOpt (Some " + zc(o.V) + ")"
	case "b":
		return fmt.Sprint("QBool ", o.B)
	case "z":
		return "QZ " + zc(o.V)
	case "ks":
		return "QKeys " + zlist(o.Ks)
	case "vs":
		return "QVals " + zlist(o.Vs)
	case "es":
		return "QEntries " + pairs(o.Ks, o.Vs)
	}
	panic(o.Tag)
}

func pairs(ks, vs []*big.Int) string {
	parts := make([]string, len(ks))
	for i := range ks {
		parts[i] = "(" + zc(ks[i]) + ", " + zc(vs[i]) + ")"
	}
	return "[" + strings.Join(parts, "; ") + "]"
}

func sortIDs(l []*big.Int) []*big.Int {
	r := cp(l)
	sort.Slice(r, func(i, j int) bool { return r[i].Cmp(r[j]) < 0 })
	return r
}

// ---------------------------------------------------------------- oracle

type odict struct {
	m map[string]*big.Int // key id (decimal) -> value id
}

func newODict() *odict { return &odict{m: map[string]*big.Int{}} }

func (d *odict) clone() *odict {
	c := newODict()
	for k, v := range d.m {
		c.m[k] = v
	}
	return c
}

func (d *odict) keys() []*big.Int {
	ks := make([]*big.Int, 0, len(d.m))
	for k := range d.m {
		z, _ := new(big.Int).SetString(k, 10)
		ks = append(ks, z)
	}
	return sortIDs(ks)
}

func (d *odict) entries() (ks, vs []*big.Int) {
	ks = d.keys()
	for _, k := range ks {
		vs = append(vs, d.m[k.String()])
	}
	return
}

// apply mutates the oracle and returns the expected output. For forEachKey the expected output
// only fixes the set of keys when nothing stops the visit; see checkForEach.
func (o *dop) apply(d *odict) dout {
	ks := ""
	if o.K != nil {
		ks = o.K.String()
	}
	old, had := d.m[ks]
	switch o.Op {
	case "insert":
		d.m[ks] = o.V
		return dout{Tag: "o", Some: had, V: old}
	case "remove":
		delete(d.m, ks)
		return dout{Tag: "o", Some: had, V: old}
	case "get":
		return dout{Tag: "o", Some: had, V: old}
	case "set":
		d.m[ks] = o.V
		return dout{Tag: "u"}
	case "setNil":
		delete(d.m, ks)
		return dout{Tag: "u"}
	case "containsKey":
		return dout{Tag: "b", B: had}
	case "length":
		return dout{Tag: "z", V: bi(int64(len(d.m)))}
	case "keys", "iterate", "forEachKey":
		return dout{Tag: "ks", Ks: d.keys()}
	case "values":
		_, vs := d.entries()
		return dout{Tag: "vs", Vs: sortIDs(vs)}
	case "entries":
		k, v := d.entries()
		return dout{Tag: "es", Ks: k, Vs: v}
	}
	panic(o.Op)
}

func (o *dop) coq() string {
	switch o.Op {
	case "insert":
		return "DInsert " + zc(o.K) + " " + zc(o.V)
	case "remove":
		return "DRemove " + zc(o.K)
	case "get":
		return "DGet " + zc(o.K)
	case "set":
		return "DSet " + zc(o.K) + " " + zc(o.V)
	case "setNil":
		return "DSetNil " + zc(o.K)
	case "containsKey":
		return "DContainsKey " + zc(o.K)
	case "length":
		return "DLength"
	case "keys":
		return "DKeys"
	case "values":
		return "DValues"
	case "entries":
		return "DEntries"
	case "forEachKey":
		if o.Stop == nil {
			return "DForEachKey never_stop"
		}
		return "DForEachKey (stop_at " + zc(o.Stop) + ")"
	case "iterate":
		return "DIterate"
	}
	panic(o.Op)
}

// ---------------------------------------------------------------- Cadence rendering

func dictType(kk, vk kind) string { return "{" + kk.typ() + ": " + vk.typ() + "}" }

func (o *dop) cadence(kk, vk kind, viaRef bool) string {
	switch o.Op {
	case "insert":
		return fmt.Sprintf("log(d.insert(key: %s, %s))", lit(kk, o.K), lit(vk, o.V))
	case "remove":
		return fmt.Sprintf("log(d.remove(key: %s))", lit(kk, o.K))
	case "get":
		return fmt.Sprintf("log(d[%s])", lit(kk, o.K))
	case "set":
		return fmt.Sprintf("d[%s] = %s; log(\"u\")", lit(kk, o.K), lit(vk, o.V))
	case "setNil":
		return fmt.Sprintf("d[%s] = nil; log(\"u\")", lit(kk, o.K))
	case "containsKey":
		return fmt.Sprintf("log(d.containsKey(%s))", lit(kk, o.K))
	case "length":
		return "log(d.length)"
	case "keys":
		return "log(d.keys)"
	case "values":
		return "log(d.values)"
	case "entries":
		return "log(d.keys); log(d.values)"
	case "forEachKey":
		cond := "true"
		if o.Stop != nil {
			cond = "k != " + lit(kk, o.Stop)
		}
		return fmt.Sprintf("log(d.keys); d.forEachKey(fun (k: %s): Bool { log(k); return %s }); log(\"end\")", kk.typ(), cond)
	case "iterate":
		if viaRef {
			return "log(d.keys); for k in d.keys { log(k) }; log(\"end\")"
		}
		return "log(d.keys); for k in d { log(k) }; log(\"end\")"
	}
	panic(o.Op)
}

func dictProgram(kk, vk kind, m amode, ops []*dop, abort bool) string {
	T := dictType(kk, vk)
	var b strings.Builder
	b.WriteString("import C20 from 0x1\n")
	if m == MScript {
		b.WriteString("access(all) fun main() {\n  let acct = getAuthAccount<auth(Storage) &Account>(0x1)\n")
	} else {
		b.WriteString("transaction {\n prepare(acct: auth(Storage) &Account) {\n")
	}
	switch m {
	case MRef, MScript:
		fmt.Fprintf(&b, "  let d = acct.storage.borrow<auth(Mutate) &%s>(from: /storage/c)!\n", T)
	case MLoadSave:
		fmt.Fprintf(&b, "  var d = acct.storage.load<%s>(from: /storage/c)!\n", T)
	case MCopy:
		fmt.Fprintf(&b, "  var d = acct.storage.copy<%s>(from: /storage/c)!\n", T)
	}
	for _, o := range ops {
		b.WriteString("  " + o.cadence(kk, vk, m.viaRef()) + "\n")
	}
	if m == MLoadSave {
		b.WriteString("  acct.storage.save(d, to: /storage/c)\n")
	}
	if abort {
		b.WriteString("  panic(\"abort\")\n")
	}
	if m == MScript {
		b.WriteString("}\n")
	} else {
		b.WriteString(" }\n}\n")
	}
	return b.String()
}

// parseDictOuts consumes the logged lines of a whole program.
// Besides the per-operation outputs it returns direct consistency complaints:
// keys / forEachKey / for-in must agree on the iteration order within one state.
func parseDictOuts(kk, vk kind, ops []*dop, lines []string) (outs []dout, complaints []string, err error) {
	pos := 0
	next := func() (string, error) {
		if pos >= len(lines) {
			return "", fmt.Errorf("missing log line %d", pos)
		}
		pos++
		return lines[pos-1], nil
	}
	val := func(k kind) (*big.Int, bool, error) { // optional value
		l, e := next()
		if e != nil {
			return nil, false, e
		}
		n, e := parseValue(l)
		if e != nil {
			return nil, false, e
		}
		if n.tag == 'n' {
			return nil, false, nil
		}
		id, ok := idOf(k, n)
		if !ok {
			return nil, false, fmt.Errorf("not a %s value: %q", k, trunc(l, 120))
		}
		return id, true, nil
	}
	list := func(k kind) ([]*big.Int, error) {
		l, e := next()
		if e != nil {
			return nil, e
		}
		n, e := parseValue(l)
		if e != nil {
			return nil, e
		}
		ids, ok := idsOf(k, n)
		if !ok {
			return nil, fmt.Errorf("not a [%s]: %q", k, trunc(l, 120))
		}
		return ids, nil
	}
	for _, o := range ops {
		switch o.Op {
		case "insert", "remove", "get":
			id, some, e := val(vk)
			if e != nil {
				return outs, complaints, e
			}
			outs = append(outs, dout{Tag: "o", Some: some, V: id})
		case "set", "setNil":
			l, e := next()
			if e != nil || l != `"u"` {
				return outs, complaints, fmt.Errorf("expected unit marker, got %q (%v)", trunc(l, 60), e)
			}
			outs = append(outs, dout{Tag: "u"})
		case "containsKey":
			l, e := next()
			if e != nil || (l != "true" && l != "false") {
				return outs, complaints, fmt.Errorf("expected bool, got %q (%v)", trunc(l, 60), e)
			}
			outs = append(outs, dout{Tag: "b", B: l == "true"})
		case "length":
			l, e := next()
			if e != nil {
				return outs, complaints, e
			}
			z, ok := new(big.Int).SetString(l, 10)
			if !ok {
				return outs, complaints, fmt.Errorf("expected int, got %q", trunc(l, 60))
			}
			outs = append(outs, dout{Tag: "z", V: z})
		case "keys":
			ks, e := list(kk)
			if e != nil {
				return outs, complaints, e
			}
			outs = append(outs, dout{Tag: "ks", Ks: sortIDs(ks)})
		case "values":
			vs, e := list(vk)
			if e != nil {
				return outs, complaints, e
			}
			outs = append(outs, dout{Tag: "vs", Vs: sortIDs(vs)})
		case "entries":
			ks, e := list(kk)
			if e != nil {
				return outs, complaints, e
			}
			vs, e := list(vk)
			if e != nil {
				return outs, complaints, e
			}
			if len(ks) != len(vs) {
				complaints = append(complaints, fmt.Sprintf("keys has %d elements but values has %d", len(ks), len(vs)))
				n := min(len(ks), len(vs))
				ks, vs = ks[:n], vs[:n]
			}
			idx := make([]int, len(ks))
			for i := range idx {
				idx[i] = i
			}
			sort.Slice(idx, func(i, j int) bool { return ks[idx[i]].Cmp(ks[idx[j]]) < 0 })
			o := dout{Tag: "es"}
			for _, i := range idx {
				o.Ks = append(o.Ks, ks[i])
				o.Vs = append(o.Vs, vs[i])
			}
			outs = append(outs, o)
		case "forEachKey", "iterate":
			ks, e := list(kk)
			if e != nil {
				return outs, complaints, e
			}
			var visited []*big.Int
			for {
				l, e := next()
				if e != nil {
					return outs, complaints, e
				}
				if l == `"end"` {
					break
				}
				n, e := parseValue(l)
				if e != nil {
					return outs, complaints, e
				}
				id, ok := idOf(kk, n)
				if !ok {
					return outs, complaints, fmt.Errorf("not a key: %q", trunc(l, 120))
				}
				visited = append(visited, id)
			}
			// same iteration order as d.keys of the same state
			if len(visited) > len(ks) {
				complaints = append(complaints, fmt.Sprintf("%s visited %d keys, keys has %d", o.Op, len(visited), len(ks)))
			} else {
				for i, v := range visited {
					if v.Cmp(ks[i]) != 0 {
						complaints = append(complaints, fmt.Sprintf("%s order differs from keys at position %d", o.Op, i))
						break
					}
				}
			}
			if o.Op == "iterate" {
				outs = append(outs, dout{Tag: "ks", Ks: sortIDs(visited)})
			} else {
				outs = append(outs, dout{Tag: "ks", Ks: visited}) // raw visiting order
			}
		}
	}
	if pos != len(lines) {
		return outs, complaints, fmt.Errorf("%d unexpected extra log lines", len(lines)-pos)
	}
	return outs, complaints, nil
}

// checkForEach: oracle-side requirement on a forEachKey observation (visiting order is free).
func checkForEach(keys []*big.Int, stop *big.Int, visited []*big.Int) string {
	in := map[string]bool{}
	for _, k := range keys {
		in[k.String()] = true
	}
	seen := map[string]bool{}
	for _, v := range visited {
		if !in[v.String()] {
			return "visited a key that is not in the dictionary: " + v.String()
		}
		if seen[v.String()] {
			return "visited a key twice: " + v.String()
		}
		seen[v.String()] = true
	}
	if stop != nil && in[stop.String()] {
		if len(visited) == 0 || visited[len(visited)-1].Cmp(stop) != 0 {
			return "did not stop exactly at the key whose callback returned false"
		}
		return ""
	}
	if len(visited) != len(keys) {
		return fmt.Sprintf("visited %d of %d keys although the callback never returned false", len(visited), len(keys))
	}
	return ""
}

// ---------------------------------------------------------------- generation

type dictGen struct {
	rng      *lib.Rng
	kk, vk   kind
	target   int
	nextK    int64
	nextV    int64
	hugeLeft int // how many more non-inlinable Int keys / values this history may introduce
}

func (g *dictGen) freshKey() *big.Int {
	g.nextK++
	if g.kk.integer() && g.hugeLeft > 0 && (g.nextK == 2 || g.rng.Chance(1, 14)) {
		g.hugeLeft--
		z := hugeInt(g.rng, g.nextK)
		if g.kk == KUInt {
			z.Abs(z)
		}
		return z
	}
	if g.kk == KInt {
		switch g.rng.Intn(30) {
		case 0:
			return new(big.Int).Add(new(big.Int).Lsh(bi(1), 70), bi(g.nextK))
		case 1, 2:
			return bi(-g.nextK)
		}
	}
	return bi(g.nextK)
}

func (g *dictGen) key(d *odict) *big.Int {
	if len(d.m) > 0 && g.rng.Chance(1, 2) {
		ks := d.keys()
		return ks[g.rng.Intn(len(ks))]
	}
	return g.freshKey()
}

func (g *dictGen) val() *big.Int {
	g.nextV++
	if g.vk.integer() && g.hugeLeft > 0 && (g.nextV == 3 || g.rng.Chance(1, 14)) {
		g.hugeLeft--
		z := hugeInt(g.rng, g.nextV)
		if g.vk == KUInt {
			z.Abs(z)
		}
		return z
	}
	if g.rng.Chance(1, 5) {
		return bi(1 + int64(g.rng.Intn(int(g.nextV)))) // repeated values
	}
	return bi(g.nextV)
}

func (g *dictGen) op(d *odict) *dop {
	r := g.rng
	n := len(d.m)
	grow := n < g.target
	bigOK := n <= 40 || r.Intn(n) < 25
	w := r.Intn(100)
	switch {
	case w < 16:
		if grow && r.Chance(2, 3) {
			return &dop{Op: "insert", K: g.freshKey(), V: g.val()}
		}
		return &dop{Op: "insert", K: g.key(d), V: g.val()}
	case w < 30:
		if grow && r.Chance(2, 3) {
			return &dop{Op: "set", K: g.freshKey(), V: g.val()}
		}
		return &dop{Op: "set", K: g.key(d), V: g.val()}
	case w < 42:
		if grow && r.Chance(1, 2) {
			return &dop{Op: "insert", K: g.freshKey(), V: g.val()}
		}
		return &dop{Op: "remove", K: g.key(d)}
	case w < 50:
		if grow && r.Chance(1, 2) {
			return &dop{Op: "set", K: g.freshKey(), V: g.val()}
		}
		return &dop{Op: "setNil", K: g.key(d)}
	case w < 64:
		return &dop{Op: "get", K: g.key(d)}
	case w < 72:
		return &dop{Op: "containsKey", K: g.key(d)}
	case w < 77:
		return &dop{Op: "length"}
	}
	if !bigOK {
		return &dop{Op: "get", K: g.key(d)}
	}
	switch {
	case w < 82:
		return &dop{Op: "keys"}
	case w < 86:
		return &dop{Op: "values"}
	case w < 92:
		return &dop{Op: "entries"}
	case w < 97:
		o := &dop{Op: "forEachKey"}
		if r.Chance(2, 3) {
			o.Stop = g.key(d)
		}
		return o
	default:
		return &dop{Op: "iterate"}
	}
}
