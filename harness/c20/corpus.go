package main

// Hand-picked histories from /verif/corpus/C20/*.json; they run before the generated ones.
// Expected results are computed by the Go oracle when the file is loaded.

import (
	"encoding/json"
	"fmt"
	"math/big"
	"os"
	"path/filepath"
	"sort"
)

type corpusProgram struct {
	Mode  string `json:"mode"`
	Abort bool   `json:"abort"`
	Ops   []*aop `json:"ops"`
	DOps  []*dop `json:"dict_ops"`
}

type corpusFile struct {
	Container string          `json:"container"` // array | dict
	Kind      string          `json:"kind"`
	KeyKind   string          `json:"key_kind"`
	Fixed     bool            `json:"fixed"`
	Init      []*big.Int      `json:"init"`
	InitDict  [][2]*big.Int   `json:"init_dict"`
	Programs  []corpusProgram `json:"programs"`
}

func kindByName(s string) kind {
	for _, k := range []kind{KInt, KStr, KArr, KStruct, KUInt} {
		if k.String() == s {
			return k
		}
	}
	return KInt
}

func modeByName(s string) amode {
	for _, m := range []amode{MRef, MLoadSave, MCopy, MScript} {
		if m.String() == s {
			return m
		}
	}
	return MRef
}

func corpusDir() string {
	if d := os.Getenv("VERIF_CORPUS"); d != "" {
		return d
	}
	exe, err := os.Executable()
	if err != nil {
		return ""
	}
	// <root>/build/bin*/c20 -> <root>/corpus/C20
	return filepath.Join(filepath.Dir(filepath.Dir(filepath.Dir(exe))), "corpus", "C20")
}

func (r *runner) runCorpus() {
	files, _ := filepath.Glob(filepath.Join(corpusDir(), "*.json"))
	sort.Strings(files)
	for _, f := range files {
		b, err := os.ReadFile(f)
		if err != nil {
			continue
		}
		var c corpusFile
		if err := json.Unmarshal(b, &c); err != nil {
			r.sum.Fail("corpus", "cannot read corpus file "+f+": "+err.Error(), nil)
			continue
		}
		label := "corpus:" + filepath.Base(f)
		r.sum.Count("corpus-history")
		if c.Container == "dict" {
			h := &dhist{KK: kindByName(c.KeyKind), VK: kindByName(c.Kind), Label: label, Init: newODict()}
			for _, e := range c.InitDict {
				h.Init.m[e[0].String()] = e[1]
			}
			state := h.Init.clone()
			for _, p := range c.Programs {
				t := &dtx{Mode: modeByName(p.Mode), Abort: p.Abort, Before: len(state.m)}
				s := state.clone()
				for _, o := range p.DOps {
					t.Keys = append(t.Keys, s.keys())
					t.Ops = append(t.Ops, o)
					t.Outs = append(t.Outs, o.apply(s))
				}
				if t.Mode.persists() && !t.Abort {
					state = s
				}
				h.Txs = append(h.Txs, t)
			}
			h.Final = state
			r.runDictHistory(h)
			continue
		}
		h := &ahist{K: kindByName(c.Kind), Fixed: c.Fixed, Init: c.Init, Label: label}
		state := cp(h.Init)
		for _, p := range c.Programs {
			t := &atx{Mode: modeByName(p.Mode), Before: len(state)}
			s := state
			failed := false
			for _, o := range p.Ops {
				t.Ops = append(t.Ops, o)
				if !o.allowed(h.Fixed) {
					t.Rejected = true
				}
				if failed {
					continue
				}
				ns, out, e := o.apply(s)
				if e != "" {
					failed, t.End = true, e
					continue
				}
				s = ns
				t.Outs = append(t.Outs, out)
			}
			if t.Rejected {
				t.Outs, t.End = nil, ""
			} else if !failed && t.Mode.persists() {
				state = s
			}
			h.Txs = append(h.Txs, t)
		}
		h.Final = state
		r.runArrayHistory(h)
	}
	_ = fmt.Sprint
}
