package main

// Array histories: generation, an independent Go oracle (plain slices), rendering as Cadence
// programs and as Coq terms, and parsing of what the real implementation logged.

import (
	"fmt"
	"math/big"
	"strings"

	"cvh/lib"
)

type aop struct {
	Op    string     // append appendAll insert remove removeFirst removeLast get set contains firstIndex length pure assign toConst toVar read
	I, J  *big.Int   // index / slice bounds / toConst size
	X     *big.Int   // element operand
	Xs    []*big.Int // array operand
	Pure  string     // slice reverse concat filter map
	FMod  int64      // filter: x mod FMod == FRem   (FMod = 0: constant FConst)
	FRem  int64
	FCons bool
	MA    int64 // map: x -> MA*x + MB
	MB    int64
}

type aout struct {
	Tag  string // u v oz b z l ol
	V    *big.Int
	Some bool
	B    bool
	L    []*big.Int
}

func (o aout) String() string {
	switch o.Tag {
	case "u":
		return "u"
	case "v":
		return "v:" + o.V.String()
	case "oz":
		if !o.Some {
			return "oz:nil"
		}
		return "oz:" + o.V.String()
	case "b":
		return fmt.Sprint("b:", o.B)
	case "z":
		return "z:" + o.V.String()
	case "l":
		return "l:" + idsString(o.L)
	case "ol":
		if !o.Some {
			return "ol:nil"
		}
		return "ol:" + idsString(o.L)
	}
	return "?" + o.Tag
}

func (o aout) coq() string {
	switch o.Tag {
	case "u":
		return "RUnit"
	case "v":
		return "RVal " + zc(o.V)
	case "oz":
		if !o.Some {
			return "ROptZ None"
		}
		return "ROptZ (Some " + zc(o.V) + ")"
	case "b":
		return fmt.Sprint("RBool ", o.B)
	case "z":
		return "RZ " + zc(o.V)
	case "l":
		return "RList " + zlist(o.L)
	case "ol":
		if !o.Some {
			return "ROptList None"
		}
		return "ROptList (Some " + zlist(o.L) + ")"
	}
	panic(o.Tag)
}

// ---------------------------------------------------------------- oracle

var (
	intMin = new(big.Int).Neg(new(big.Int).Lsh(bi(1), 63))
	intMax = new(big.Int).Sub(new(big.Int).Lsh(bi(1), 63), bi(1))
)

func fitsInt(z *big.Int) bool { return z.Cmp(intMin) >= 0 && z.Cmp(intMax) <= 0 }

func cp(l []*big.Int) []*big.Int { return append([]*big.Int{}, l...) }

func (o *aop) filterKeeps(x *big.Int) bool {
	if o.FMod == 0 {
		return o.FCons
	}
	m := new(big.Int).Mod(x, bi(o.FMod))
	return m.Int64() == o.FRem
}

func (o *aop) mapped(x *big.Int) *big.Int {
	r := new(big.Int).Mul(x, bi(o.MA))
	return r.Add(r, bi(o.MB))
}

// pureResult computes slice/reverse/concat/filter/map on a plain slice.
func (o *aop) pureResult(s []*big.Int) ([]*big.Int, string) {
	n := int64(len(s))
	switch o.Pure {
	case "slice":
		if !fitsInt(o.I) || !fitsInt(o.J) {
			return nil, "EIntOverflow"
		}
		a, b := o.I.Int64(), o.J.Int64()
		if a < 0 || b < 0 || a > n || b > n {
			return nil, "ESliceBounds"
		}
		if a > b {
			return nil, "ESliceOrder"
		}
		return cp(s[a:b]), ""
	case "reverse":
		r := make([]*big.Int, len(s))
		for i, x := range s {
			r[len(s)-1-i] = x
		}
		return r, ""
	case "concat":
		return append(cp(s), o.Xs...), ""
	case "filter":
		r := []*big.Int{}
		for _, x := range s {
			if o.filterKeeps(x) {
				r = append(r, x)
			}
		}
		return r, ""
	case "map":
		r := make([]*big.Int, len(s))
		for i, x := range s {
			r[i] = o.mapped(x)
		}
		return r, ""
	}
	panic(o.Pure)
}

// apply runs one operation on the oracle state: new state, output, error class ("" = ok).
func (o *aop) apply(s []*big.Int) ([]*big.Int, aout, string) {
	n := int64(len(s))
	idx := func(z *big.Int, hi int64) (int64, string) { // valid range [0, hi)
		if !fitsInt(z) {
			return 0, "EIntOverflow"
		}
		i := z.Int64()
		if i < 0 || i >= hi {
			return 0, "EIndex"
		}
		return i, ""
	}
	switch o.Op {
	case "append":
		return append(cp(s), o.X), aout{Tag: "u"}, ""
	case "appendAll":
		return append(cp(s), o.Xs...), aout{Tag: "u"}, ""
	case "insert":
		i, e := idx(o.I, n+1)
		if e != "" {
			return s, aout{}, e
		}
		r := append(cp(s[:i]), o.X)
		return append(r, s[i:]...), aout{Tag: "u"}, ""
	case "remove", "removeFirst", "removeLast":
		var i int64
		var e string
		switch o.Op {
		case "remove":
			i, e = idx(o.I, n)
		case "removeFirst":
			i, e = idx(bi(0), n)
		default:
			i, e = idx(bi(n-1), n)
		}
		if e != "" {
			return s, aout{}, e
		}
		r := append(cp(s[:i]), s[i+1:]...)
		return r, aout{Tag: "v", V: s[i]}, ""
	case "get":
		i, e := idx(o.I, n)
		if e != "" {
			return s, aout{}, e
		}
		return s, aout{Tag: "v", V: s[i]}, ""
	case "set":
		i, e := idx(o.I, n)
		if e != "" {
			return s, aout{}, e
		}
		r := cp(s)
		r[i] = o.X
		return r, aout{Tag: "u"}, ""
	case "contains":
		for _, x := range s {
			if x.Cmp(o.X) == 0 {
				return s, aout{Tag: "b", B: true}, ""
			}
		}
		return s, aout{Tag: "b", B: false}, ""
	case "firstIndex":
		for i, x := range s {
			if x.Cmp(o.X) == 0 {
				return s, aout{Tag: "oz", Some: true, V: bi(int64(i))}, ""
			}
		}
		return s, aout{Tag: "oz"}, ""
	case "length":
		return s, aout{Tag: "z", V: bi(n)}, ""
	case "pure":
		r, e := o.pureResult(s)
		if e != "" {
			return s, aout{}, e
		}
		return s, aout{Tag: "l", L: r}, ""
	case "assign":
		r, e := o.pureResult(s)
		if e != "" {
			return s, aout{}, e
		}
		return r, aout{Tag: "u"}, ""
	case "toConst":
		if o.I.Cmp(bi(n)) == 0 {
			return s, aout{Tag: "ol", Some: true, L: cp(s)}, ""
		}
		return s, aout{Tag: "ol"}, ""
	case "toVar", "read":
		return s, aout{Tag: "l", L: cp(s)}, ""
	}
	panic(o.Op)
}

// allowed mirrors the static typing of constant-sized arrays (independent of the Coq model:
// written from the sema member tables).
func (o *aop) allowed(fixed bool) bool {
	if !fixed {
		return o.Op != "toVar"
	}
	switch o.Op {
	case "append", "appendAll", "insert", "remove", "removeFirst", "removeLast", "toConst":
		return false
	case "pure":
		return o.Pure != "slice" && o.Pure != "concat"
	case "assign":
		return o.Pure == "reverse" || o.Pure == "map"
	}
	return true
}

// ---------------------------------------------------------------- Coq rendering

func (o *aop) coqPure() string {
	switch o.Pure {
	case "slice":
		return "(PSlice " + zc(o.I) + " " + zc(o.J) + ")"
	case "reverse":
		return "PReverse"
	case "concat":
		return "(PConcat " + zlist(o.Xs) + ")"
	case "filter":
		if o.FMod == 0 {
			return fmt.Sprintf("(PFilter (pconst %v))", o.FCons)
		}
		return fmt.Sprintf("(PFilter (pmod %d %d))", o.FMod, o.FRem)
	case "map":
		return fmt.Sprintf("(PMap (faff %s %s))", zc(bi(o.MA)), zc(bi(o.MB)))
	}
	panic(o.Pure)
}

func (o *aop) coq() string {
	switch o.Op {
	case "append":
		return "OpAppend " + zc(o.X)
	case "appendAll":
		return "OpAppendAll " + zlist(o.Xs)
	case "insert":
		return "OpInsert " + zc(o.I) + " " + zc(o.X)
	case "remove":
		return "OpRemove " + zc(o.I)
	case "removeFirst":
		return "OpRemoveFirst"
	case "removeLast":
		return "OpRemoveLast"
	case "get":
		return "OpGet " + zc(o.I)
	case "set":
		return "OpSet " + zc(o.I) + " " + zc(o.X)
	case "contains":
		return "OpContains " + zc(o.X)
	case "firstIndex":
		return "OpFirstIndex " + zc(o.X)
	case "length":
		return "OpLength"
	case "pure":
		return "OpPure " + o.coqPure()
	case "assign":
		return "OpAssign " + o.coqPure()
	case "toConst":
		return "OpToConstant " + zc(o.I)
	case "toVar":
		return "OpToVariable"
	case "read":
		return "OpRead"
	}
	panic(o.Op)
}

func (o *aop) short() string {
	s := o.Op
	if o.Op == "pure" || o.Op == "assign" {
		s += ":" + o.Pure
	}
	return s
}

// ---------------------------------------------------------------- Cadence rendering

type amode int

const (
	MRef amode = iota
	MLoadSave
	MCopy
	MScript
)

func (m amode) String() string { return [...]string{"MRef", "MLoadSave", "MCopy", "MScript"}[m] }
func (m amode) viaRef() bool   { return m == MRef || m == MScript }
func (m amode) persists() bool { return m == MRef || m == MLoadSave }

func arrType(k kind, fixed bool, n int) string {
	if fixed {
		return fmt.Sprintf("[%s; %d]", k.typ(), n)
	}
	return "[" + k.typ() + "]"
}

// function literal parameter type: elements are exposed as references when the receiver is one
func paramType(k kind, viaRef bool) string {
	if viaRef && (k == KArr || k == KStruct) {
		return "&" + k.typ()
	}
	return k.typ()
}

func (o *aop) cadenceFun(k kind, viaRef bool) string {
	pt := paramType(k, viaRef)
	isRef := strings.HasPrefix(pt, "&")
	switch o.Pure {
	case "filter":
		if o.FMod == 0 {
			return fmt.Sprintf("view fun (x: %s): Bool { return %v }", pt, o.FCons)
		}
		sel := "x"
		switch k {
		case KStruct:
			sel = "x.id"
		case KArr:
			sel = "x[0]"
		}
		return fmt.Sprintf("view fun (x: %s): Bool { return ((%s %% %d) + %d) %% %d == %d }", pt, sel, o.FMod, o.FMod, o.FMod, o.FRem)
	case "map":
		switch k {
		case KInt, KUInt:
			return fmt.Sprintf("fun (x: %s): %s { return x * (%d) + (%d) }", k.typ(), k.typ(), o.MA, o.MB)
		case KStruct:
			return fmt.Sprintf("fun (x: %s): C20.S { return C20.S(id: x.id + (%d), pad: x.pad) }", pt, o.MB)
		case KArr:
			if isRef {
				return "fun (x: &[Int]): [Int] { return *x }"
			}
			return "fun (x: [Int]): [Int] { return x }"
		default:
			return "fun (x: String): String { return x }"
		}
	}
	panic(o.Pure)
}

func (o *aop) cadencePure(v string, k kind, viaRef bool) string {
	switch o.Pure {
	case "slice":
		return fmt.Sprintf("%s.slice(from: %s, upTo: %s)", v, o.I, o.J)
	case "reverse":
		return v + ".reverse()"
	case "concat":
		return v + ".concat(" + lits(k, o.Xs) + ")"
	case "filter":
		return v + ".filter(" + o.cadenceFun(k, viaRef) + ")"
	case "map":
		return v + ".map(" + o.cadenceFun(k, viaRef) + ")"
	}
	panic(o.Pure)
}

// cadence renders the statements of one operation; every successful operation logs exactly one line.
func (o *aop) cadence(k kind, fixed bool, n int, m amode, seq int) string {
	T := arrType(k, fixed, n)
	ref := m.viaRef()
	switch o.Op {
	case "append":
		return "a.append(" + lit(k, o.X) + "); log(\"u\")"
	case "appendAll":
		return "a.appendAll(" + lits(k, o.Xs) + "); log(\"u\")"
	case "insert":
		return fmt.Sprintf("a.insert(at: %s, %s); log(\"u\")", o.I, lit(k, o.X))
	case "remove":
		return fmt.Sprintf("log(a.remove(at: %s))", o.I)
	case "removeFirst":
		return "log(a.removeFirst())"
	case "removeLast":
		return "log(a.removeLast())"
	case "get":
		return fmt.Sprintf("log(a[%s])", o.I)
	case "set":
		return fmt.Sprintf("a[%s] = %s; log(\"u\")", o.I, lit(k, o.X))
	case "contains":
		return "log(a.contains(" + lit(k, o.X) + "))"
	case "firstIndex":
		return "log(a.firstIndex(of: " + lit(k, o.X) + "))"
	case "length":
		return "log(a.length)"
	case "pure":
		return "log(" + o.cadencePure("a", k, ref) + ")"
	case "assign":
		if ref {
			// replace the stored value by the result computed on the loaded value, then re-borrow
			t := fmt.Sprintf("t%d", seq)
			return fmt.Sprintf("var %s = acct.storage.load<%s>(from: /storage/c)!; %s = %s; acct.storage.save(%s, to: /storage/c); a = acct.storage.borrow<auth(Mutate) &%s>(from: /storage/c)!; log(\"u\")",
				t, T, t, o.cadencePure(t, k, false), t, T)
		}
		return "a = " + o.cadencePure("a", k, false) + "; log(\"u\")"
	case "toConst":
		return fmt.Sprintf("log(a.toConstantSized<[%s; %s]>())", paramType(k, ref), o.I)
	case "toVar":
		return "log(a.toVariableSized())"
	case "read":
		if !ref {
			return "log(a)"
		}
		if fixed {
			return "log(a.toVariableSized())"
		}
		return "log(a.slice(from: 0, upTo: a.length))"
	}
	panic(o.Op)
}

func arrayProgram(k kind, fixed bool, n int, m amode, ops []*aop) string {
	T := arrType(k, fixed, n)
	var b strings.Builder
	b.WriteString("import C20 from 0x1\n")
	if m == MScript {
		b.WriteString("access(all) fun main() {\n  let acct = getAuthAccount<auth(Storage) &Account>(0x1)\n")
	} else {
		b.WriteString("transaction {\n prepare(acct: auth(Storage) &Account) {\n")
	}
	switch m {
	case MRef, MScript:
		fmt.Fprintf(&b, "  var a = acct.storage.borrow<auth(Mutate) &%s>(from: /storage/c)!\n", T)
	case MLoadSave:
		fmt.Fprintf(&b, "  var a = acct.storage.load<%s>(from: /storage/c)!\n", T)
	case MCopy:
		fmt.Fprintf(&b, "  var a = acct.storage.copy<%s>(from: /storage/c)!\n", T)
	}
	for i, o := range ops {
		b.WriteString("  " + o.cadence(k, fixed, n, m, i) + "\n")
	}
	if m == MLoadSave {
		b.WriteString("  acct.storage.save(a, to: /storage/c)\n")
	}
	if m == MScript {
		b.WriteString("}\n")
	} else {
		b.WriteString(" }\n}\n")
	}
	return b.String()
}

// parseArrayOut converts one logged line into the output of the given operation.
func parseArrayOut(k kind, o *aop, line string) (aout, error) {
	bad := func() (aout, error) {
		return aout{}, fmt.Errorf("unexpected log %q for %s", trunc(line, 120), o.short())
	}
	if line == `"u"` {
		return aout{Tag: "u"}, nil
	}
	n, err := parseValue(line)
	if err != nil {
		return aout{}, err
	}
	switch o.Op {
	case "remove", "removeFirst", "removeLast", "get":
		id, ok := idOf(k, n)
		if !ok {
			return bad()
		}
		return aout{Tag: "v", V: id}, nil
	case "contains":
		if n.tag != 'b' {
			return bad()
		}
		return aout{Tag: "b", B: n.b}, nil
	case "firstIndex":
		if n.tag == 'n' {
			return aout{Tag: "oz"}, nil
		}
		if n.tag != 'i' {
			return bad()
		}
		return aout{Tag: "oz", Some: true, V: n.i}, nil
	case "length":
		if n.tag != 'i' {
			return bad()
		}
		return aout{Tag: "z", V: n.i}, nil
	case "pure", "toVar", "read":
		ids, ok := idsOf(k, n)
		if !ok {
			return bad()
		}
		return aout{Tag: "l", L: ids}, nil
	case "toConst":
		if n.tag == 'n' {
			return aout{Tag: "ol"}, nil
		}
		ids, ok := idsOf(k, n)
		if !ok {
			return bad()
		}
		return aout{Tag: "ol", Some: true, L: ids}, nil
	}
	return bad()
}

// ---------------------------------------------------------------- generation

type arrGen struct {
	rng      *lib.Rng
	k        kind
	fixed    bool
	target   int // size the history drifts towards
	nextID   int64
	hugeLeft int // how many more non-inlinable Int elements this history may introduce
}

// hugeExps: Int elements of 2^e + id.  atree inlines an array element up to ~500 bytes and a
// dictionary key/value up to ~240 bytes; beyond that the scalar lives in its own slab and the
// container only holds a slab reference.
var hugeExps = []uint{600, 1900, 2100, 3900, 4100, 4500, 6400, 7000}

func hugeInt(rng *lib.Rng, id int64) *big.Int {
	z := new(big.Int).Lsh(bi(1), hugeExps[rng.Intn(len(hugeExps))])
	z.Add(z, bi(id))
	if rng.Chance(1, 4) {
		z.Neg(z)
	}
	return z
}

func (g *arrGen) freshID() *big.Int {
	g.nextID++
	if g.k.integer() && g.hugeLeft > 0 && (g.nextID == 2 || g.rng.Chance(1, 12)) {
		g.hugeLeft--
		z := hugeInt(g.rng, g.nextID)
		if g.k == KUInt {
			z.Abs(z)
		}
		return z
	}
	if g.k == KUInt && g.rng.Chance(1, 20) {
		return new(big.Int).Add(new(big.Int).Lsh(bi(1), 64), bi(g.nextID)) // > 64 bits
	}
	if g.k == KInt {
		switch g.rng.Intn(40) {
		case 0:
			return new(big.Int).Add(new(big.Int).Lsh(bi(1), 64), bi(g.nextID)) // > 64 bits
		case 1:
			return new(big.Int).Neg(new(big.Int).Add(new(big.Int).Lsh(bi(1), 130), bi(g.nextID)))
		case 2, 3:
			return bi(-g.nextID)
		}
	}
	return bi(g.nextID)
}

// an element operand: mostly fresh, sometimes one already present (duplicates matter for
// contains / firstIndex)
func (g *arrGen) elem(s []*big.Int) *big.Int {
	if len(s) > 0 && g.rng.Chance(1, 4) {
		return s[g.rng.Intn(len(s))]
	}
	return g.freshID()
}

func (g *arrGen) elems(n int, s []*big.Int) []*big.Int {
	out := make([]*big.Int, n)
	for i := range out {
		out[i] = g.elem(s)
	}
	return out
}

var two63 = new(big.Int).Lsh(bi(1), 63)
var two64 = new(big.Int).Lsh(bi(1), 64)

// index in [0, hi) mostly; boundary and invalid values with probability ~1/7
func (g *arrGen) index(n int, hiIncl bool) *big.Int {
	hi := n
	if hiIncl {
		hi = n + 1
	}
	if g.rng.Chance(1, 7) {
		switch g.rng.Intn(9) {
		case 0:
			return bi(-1)
		case 1:
			return bi(int64(hi))
		case 2:
			return bi(int64(hi) + 1)
		case 3:
			return new(big.Int).Set(two63)
		case 4:
			return new(big.Int).Set(two64)
		case 5:
			return new(big.Int).Sub(intMin, bi(1))
		case 6:
			return new(big.Int).Set(intMax)
		case 7:
			return new(big.Int).Set(intMin)
		default:
			return bi(int64(-1 - g.rng.Intn(5)))
		}
	}
	if hi == 0 {
		return bi(0)
	}
	switch g.rng.Intn(6) {
	case 0:
		return bi(0)
	case 1:
		return bi(int64(hi - 1))
	}
	return bi(int64(g.rng.Intn(hi)))
}

func (g *arrGen) pure(s []*big.Int, forAssign bool) *aop {
	n := len(s)
	o := &aop{}
	choices := []string{"slice", "reverse", "concat", "filter", "map"}
	if g.fixed {
		choices = []string{"reverse", "map", "filter"}
		if forAssign {
			choices = []string{"reverse", "map"}
		}
		if g.rng.Chance(1, 25) {
			choices = []string{"slice", "concat", "filter"} // statically rejected (filter only when assigned)
		}
	}
	o.Pure = lib.Pick(g.rng, choices)
	switch o.Pure {
	case "slice":
		a := g.index(n, true)
		b := g.index(n, true)
		if fitsInt(a) && fitsInt(b) && a.Cmp(b) > 0 && g.rng.Chance(5, 6) {
			a, b = b, a
		}
		if forAssign && g.rng.Chance(2, 3) && n > 4 {
			// keep most of the array, or shrink decisively towards the target
			if n > g.target*2 {
				a, b = bi(int64(g.rng.Intn(n/4+1))), bi(int64(n/2+g.rng.Intn(n/4+1)))
			} else {
				a, b = bi(int64(g.rng.Intn(2))), bi(int64(n-g.rng.Intn(2)))
			}
		}
		o.I, o.J = a, b
	case "concat":
		m := g.rng.Intn(4)
		if n < g.target && g.rng.Chance(1, 2) {
			m = 5 + g.target/10 + g.rng.Intn(min(60, g.target))
		}
		o.Xs = g.elems(m, s)
	case "filter":
		if g.k == KStr || g.rng.Chance(1, 6) {
			o.FCons = g.rng.Chance(4, 5)
		} else {
			o.FMod = int64(2 + g.rng.Intn(4))
			if forAssign {
				o.FMod = int64(5 + g.rng.Intn(4))
			}
			o.FRem = int64(g.rng.Intn(int(o.FMod)))
		}
	case "map":
		o.MA, o.MB = 1, 0
		switch g.k {
		case KInt:
			o.MA, o.MB = int64(g.rng.Intn(5)-1), int64(g.rng.Intn(9)-4)
		case KUInt:
			o.MA, o.MB = int64(g.rng.Intn(4)), int64(g.rng.Intn(5))
		case KStruct:
			o.MB = 16 * int64(g.rng.Intn(5))
		}
	}
	return o
}

func (g *arrGen) op(s []*big.Int) *aop {
	n := len(s)
	r := g.rng
	if g.fixed {
		switch r.Intn(14) {
		case 0, 1, 2:
			return &aop{Op: "get", I: g.index(n, false)}
		case 3, 4, 5:
			return &aop{Op: "set", I: g.index(n, false), X: g.elem(s)}
		case 6:
			if g.k.equatable() {
				return &aop{Op: "contains", X: g.elem(s)}
			}
			return &aop{Op: "length"}
		case 7:
			if g.k.equatable() {
				return &aop{Op: "firstIndex", X: g.elem(s)}
			}
			return &aop{Op: "length"}
		case 8:
			return &aop{Op: "length"}
		case 9:
			p := g.pure(s, false)
			p.Op = "pure"
			return p
		case 10:
			p := g.pure(s, true)
			p.Op = "assign"
			return p
		case 11:
			return &aop{Op: "toVar"}
		case 12:
			if r.Chance(1, 4) { // statically rejected member on [T; n]
				return lib.Pick(r, []*aop{{Op: "append", X: g.elem(s)}, {Op: "removeLast"}, {Op: "removeFirst"},
					{Op: "insert", I: bi(0), X: g.elem(s)}, {Op: "remove", I: bi(0)}, {Op: "appendAll", Xs: g.elems(2, s)},
					{Op: "toConst", I: bi(int64(n))}})
			}
			return &aop{Op: "read"}
		default:
			return &aop{Op: "read"}
		}
	}
	grow := n < g.target
	w := r.Intn(100)
	// rare big results are damped on big arrays to bound the volume of logged output
	bigOK := n <= 40 || r.Intn(n) < 25
	switch {
	case w < 12:
		return &aop{Op: "append", X: g.elem(s)}
	case w < 18:
		m := r.Intn(4)
		if grow && r.Chance(2, 3) {
			m = 4 + g.target/8 + r.Intn(min(100, g.target))
		}
		return &aop{Op: "appendAll", Xs: g.elems(m, s)}
	case w < 28:
		return &aop{Op: "insert", I: g.index(n, true), X: g.elem(s)}
	case w < 38:
		if grow && r.Chance(1, 2) {
			return &aop{Op: "insert", I: g.index(n, true), X: g.elem(s)}
		}
		return &aop{Op: "remove", I: g.index(n, false)}
	case w < 43:
		return &aop{Op: "removeFirst"}
	case w < 48:
		return &aop{Op: "removeLast"}
	case w < 58:
		return &aop{Op: "get", I: g.index(n, false)}
	case w < 66:
		return &aop{Op: "set", I: g.index(n, false), X: g.elem(s)}
	case w < 71:
		if g.k.equatable() {
			return &aop{Op: "contains", X: g.elem(s)}
		}
		return &aop{Op: "length"}
	case w < 76:
		if g.k.equatable() {
			return &aop{Op: "firstIndex", X: g.elem(s)}
		}
		return &aop{Op: "length"}
	case w < 79:
		return &aop{Op: "length"}
	case w < 87:
		if !bigOK {
			return &aop{Op: "get", I: g.index(n, false)}
		}
		p := g.pure(s, false)
		p.Op = "pure"
		return p
	case w < 93:
		p := g.pure(s, true)
		p.Op = "assign"
		return p
	case w < 96:
		c := n
		if r.Chance(1, 2) {
			c = n + r.Intn(3) - 1
			if c < 0 {
				c = 0
			}
		}
		if !bigOK {
			c = n + 1
		}
		return &aop{Op: "toConst", I: bi(int64(c))}
	case w < 97:
		if r.Chance(1, 3) {
			return &aop{Op: "toVar"} // statically rejected on variable-sized arrays
		}
		return &aop{Op: "length"}
	default:
		if !bigOK {
			return &aop{Op: "length"}
		}
		return &aop{Op: "read"}
	}
}

func min(a, b int) int {
	if a < b {
		return a
	}
	return b
}
