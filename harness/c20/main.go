// Command c20: correspondence harness for C20 (arrays and dictionaries behave like their
// mathematical models).  Generated operation histories are executed on REAL Cadence arrays and
// dictionaries kept in account storage, by generated transactions/scripts run through the
// runtime with the interpreter and with the VM; every operation's logged result, every error
// class and the final stored contents are compared with an independent Go oracle and written as
// Coq cases for evaluation by the proved model (coq/theories/C20).
package main

import (
	"flag"
	"fmt"
	"math/big"
	"os"
	"strings"

	"cvh/lib"

	"github.com/onflow/cadence/common"
	"github.com/onflow/cadence/interpreter"
)

var (
	prop = flag.String("prop", "C20", "property id")
	seed = flag.Uint64("seed", 1, "seed")
	tier = flag.String("tier", "quick", "quick|thorough")
	dir  = flag.String("dir", ".", "output directory")
)

const contract = `
access(all) contract C20 {
    access(all) struct S {
        access(all) let id: Int
        access(all) let pad: String
        init(id: Int, pad: String) { self.id = id; self.pad = pad }
    }
}
`

var addr = common.MustBytesToAddress([]byte{1})

// classify maps the failure of a program to the model's error classes.
func classify(o lib.Outcome) string {
	if o.Err == nil && o.Panic == nil {
		return ""
	}
	if o.Panic != nil {
		return "other:GoPanic"
	}
	found := ""
	var err error = o.Err
	for i := 0; err != nil && i < 60 && found == ""; i++ {
		switch err.(type) {
		case *interpreter.ArrayIndexOutOfBoundsError:
			found = "EIndex"
		case *interpreter.ArraySliceIndicesError:
			found = "ESliceBounds"
		case *interpreter.InvalidSliceIndexError:
			found = "ESliceOrder"
		case *interpreter.OverflowError:
			found = "EIntOverflow"
		}
		u, ok := err.(interface{ Unwrap() error })
		if !ok {
			break
		}
		err = u.Unwrap()
	}
	if found != "" {
		return found
	}
	switch o.Class {
	case "CheckerError":
		return "Rejected"
	case "Panic":
		return "Abort"
	}
	return "other:" + o.Class
}

type engine struct {
	name string
	vm   func(i int) bool
}

var engines = []engine{
	{"interpreter", func(int) bool { return false }},
	{"vm", func(int) bool { return true }},
	{"alternating", func(i int) bool { return i%2 == 1 }},
}

type runner struct {
	sum      *lib.Summary
	cwA, cwD *lib.CaseWriter
	seen     map[string]bool
	txs      int
}

func (r *runner) program(h *lib.Host, src string, script bool, vm bool) lib.Outcome {
	r.txs++
	if script {
		return h.RunScript(src, nil, vm)
	}
	return h.RunTx(src, nil, []common.Address{addr}, vm)
}

func (r *runner) noteProgram(src string, nontrivial bool) {
	r.sum.Evaluations++
	if nontrivial && !r.seen[src] {
		r.seen[src] = true
		r.sum.DistinctNontrivial++
	}
}

// ================================================================ arrays

type atx struct {
	Mode     amode
	Ops      []*aop
	Rejected bool
	Outs     []aout // expected outputs of the operations that run
	End      string // "" or error class
	Before   int    // committed length before the program
}

type ahist struct {
	K     kind
	Fixed bool
	Init  []*big.Int
	Txs   []*atx
	Final []*big.Int
	Label string
}

func genArrayHistory(rng *lib.Rng, k kind, fixed bool, target, nOps int, label string) *ahist {
	g := &arrGen{rng: rng, k: k, fixed: fixed, target: target, hugeLeft: 3}
	h := &ahist{K: k, Fixed: fixed, Label: label}
	n0 := rng.Intn(4)
	if fixed {
		n0 = target
	}
	for i := 0; i < n0; i++ {
		h.Init = append(h.Init, g.freshID())
	}
	state := cp(h.Init)
	done := 0
	for done < nOps {
		t := &atx{Before: len(state)}
		switch w := rng.Intn(20); {
		case w < 9:
			t.Mode = MRef
		case w < 15:
			t.Mode = MLoadSave
		case w < 17:
			t.Mode = MCopy
		default:
			t.Mode = MScript
		}
		nops := 1 + rng.Intn(8)
		s := state
		failed := false
		for i := 0; i < nops; i++ {
			o := g.op(s)
			t.Ops = append(t.Ops, o)
			done++
			if !o.allowed(fixed) {
				t.Rejected = true
			}
			if failed {
				continue
			}
			ns, out, e := o.apply(s)
			if e != "" {
				failed = true
				t.End = e
				if rng.Chance(5, 6) {
					break
				}
				continue
			}
			s = ns
			t.Outs = append(t.Outs, out)
		}
		if t.Rejected {
			t.Outs, t.End = nil, ""
		} else if !failed && t.Mode.persists() {
			state = s
		}
		h.Txs = append(h.Txs, t)
	}
	h.Final = state
	return h
}

func (t *atx) coqObs(outs []aout, end string, rejected bool) string {
	if rejected {
		return "XRejected"
	}
	parts := make([]string, len(outs))
	for i, o := range outs {
		parts[i] = o.coq()
	}
	e := "TDone"
	switch end {
	case "":
	case "EIndex", "ESliceBounds", "ESliceOrder", "EIntOverflow":
		e = "(TFail " + end + ")"
	default:
		e = "TStuck" // not an outcome of the model: forces a mismatch
	}
	return "XRan [" + strings.Join(parts, "; ") + "] " + e
}

func (t *atx) coqTx() string {
	parts := make([]string, len(t.Ops))
	for i, o := range t.Ops {
		parts[i] = o.coq()
	}
	return "{| tmode := " + t.Mode.String() + "; tops := [" + strings.Join(parts, "; ") + "] |}"
}

func outsString(outs []aout) string {
	parts := make([]string, len(outs))
	for i, o := range outs {
		parts[i] = trunc(o.String(), 200)
	}
	return strings.Join(parts, " | ")
}

func (r *runner) runArrayHistory(h *ahist) {
	sum := r.sum
	n := len(h.Init)
	T := arrType(h.K, h.Fixed, n)
	var caseTerms []string
	for _, eng := range engines {
		host := lib.NewHost()
		if o := host.Deploy(addr, "C20", contract, eng.vm(0)); o.Err != nil {
			sum.Fail("setup", "cannot deploy helper contract: "+o.Err.Error(), nil)
			return
		}
		setup := fmt.Sprintf("import C20 from 0x1\ntransaction { prepare(acct: auth(Storage) &Account) {\n let v: %s = %s\n acct.storage.save(v, to: /storage/c)\n} }", T, lits(h.K, h.Init))
		if o := r.program(host, setup, false, eng.vm(0)); o.Err != nil {
			sum.Fail("setup", "cannot store initial array: "+o.Err.Error(), map[string]any{"program": setup})
			return
		}
		var obsTerms []string
		diverged := false
		for ti, t := range h.Txs {
			src := arrayProgram(h.K, h.Fixed, n, t.Mode, t.Ops)
			vm := eng.vm(ti + 1)
			o := r.program(host, src, t.Mode == MScript, vm)
			cls := classify(o)
			r.noteProgram(src, t.Before >= 2 || t.End != "")
			rejected := cls == "Rejected"
			var outs []aout
			perr := ""
			if !rejected {
				if len(o.Logs) > len(t.Ops) {
					perr = fmt.Sprintf("%d log lines for %d operations", len(o.Logs), len(t.Ops))
				}
				for i := 0; i < len(o.Logs) && i < len(t.Ops) && perr == ""; i++ {
					out, err := parseArrayOut(h.K, t.Ops[i], o.Logs[i])
					if err != nil {
						perr = err.Error()
						break
					}
					outs = append(outs, out)
				}
			}
			end := cls
			if rejected {
				end = ""
			}
			obsTerms = append(obsTerms, "("+t.coqTx()+", "+t.coqObs(outs, end, rejected)+")")
			for _, op := range t.Ops {
				sum.Count("array-op:" + op.short())
			}
			if t.End != "" {
				sum.Count("array-error:" + t.End)
			}
			if t.Rejected {
				sum.Count("array-rejected-program")
			}
			// direct comparison with the oracle
			what := ""
			failing := "program"
			switch {
			case perr != "":
				what = "unreadable result: " + perr
			case rejected != t.Rejected:
				what = fmt.Sprintf("static rejection: expected %v, observed %v (%s)", t.Rejected, rejected, cls)
			case !rejected && end != t.End:
				what = fmt.Sprintf("error class: expected %q, observed %q", t.End, end)
				if len(outs) < len(t.Ops) {
					failing = t.Ops[len(outs)].short()
				}
			case !rejected:
				if len(outs) != len(t.Outs) {
					what = fmt.Sprintf("number of results: expected %d, observed %d", len(t.Outs), len(outs))
				}
				for i := 0; i < len(outs) && i < len(t.Outs); i++ {
					if outs[i].String() != t.Outs[i].String() {
						what = fmt.Sprintf("result of operation %d (%s): expected %s, observed %s", i, t.Ops[i].short(),
							trunc(t.Outs[i].String(), 300), trunc(outs[i].String(), 300))
						failing = t.Ops[i].short()
						break
					}
				}
			}
			if what != "" {
				sum.Fail("array:"+failing, fmt.Sprintf("%s array %s, engine %s, program %d (%s): %s", h.K, T, eng.name, ti, t.Mode, what),
					map[string]any{"history": h.Label, "engine": eng.name, "program_index": ti, "program": src,
						"expected": outsString(t.Outs) + " end=" + t.End, "observed": outsString(outs) + " end=" + end,
						"error": fmt.Sprint(o.Err)})
				diverged = true
				break
			}
		}
		finalTerm := zlist(h.Final)
		if !diverged {
			// read back the stored contents with a fresh storage load, in both engines
			for _, vm := range []bool{false, true} {
				src := fmt.Sprintf("import C20 from 0x1\naccess(all) fun main() { log(getAuthAccount<auth(Storage) &Account>(0x1).storage.copy<%s>(from: /storage/c)!) }", T)
				o := r.program(host, src, true, vm)
				var ids []*big.Int
				ok := false
				if o.Err == nil && len(o.Logs) == 1 {
					if nd, err := parseValue(o.Logs[0]); err == nil {
						ids, ok = idsOf(h.K, nd)
					}
				}
				if !ok || idsString(ids) != idsString(h.Final) {
					sum.Fail("array:final-contents", fmt.Sprintf("%s array %s, engine %s: stored contents after the history differ from the list model", h.K, T, eng.name),
						map[string]any{"history": h.Label, "engine": eng.name, "expected": trunc(idsString(h.Final), 2000),
							"observed": trunc(strings.Join(o.Logs, "\n"), 2000), "error": fmt.Sprint(o.Err)})
					diverged = true
				}
				if ok {
					finalTerm = zlist(ids)
				}
			}
		}
		if diverged {
			// final contents unknown after a divergence: use the model-independent marker "no check"
			// by ending the case at the diverging program; the model then decides the program itself.
			finalTerm = "[]"
		}
		term := fmt.Sprintf("(%v, %s,\n [%s],\n %s)", h.Fixed, zlist(h.Init), strings.Join(obsTerms, ";\n  "), finalTerm)
		dup := false
		for _, c := range caseTerms {
			if c == term {
				dup = true
			}
		}
		if !dup {
			caseTerms = append(caseTerms, term)
			r.cwA.Add(term, map[string]any{"container": "array", "history": h.Label, "engine": eng.name,
				"type": T, "programs": len(h.Txs), "final_length": len(h.Final)})
		}
	}
	sum.Count(fmt.Sprintf("array-history:%s:fixed=%v", h.K, h.Fixed))
	mx := 0
	for _, t := range h.Txs {
		if t.Before > mx {
			mx = t.Before
		}
	}
	sum.Count("array-max-length:" + bucket(mx))
	if len(sum.Samples) < 4 && len(h.Txs) > 0 {
		sum.Sample(map[string]any{"history": h.Label, "type": T, "first_program": trunc(arrayProgram(h.K, h.Fixed, n, h.Txs[0].Mode, h.Txs[0].Ops), 600)})
	}
}

func bucket(n int) string {
	switch {
	case n < 10:
		return "<10"
	case n < 50:
		return "10-49"
	case n < 150:
		return "50-149"
	case n < 400:
		return "150-399"
	}
	return ">=400"
}

// ================================================================ dictionaries

type dtx struct {
	Mode   amode
	Ops    []*dop
	Abort  bool
	Outs   []dout
	Keys   [][]*big.Int // oracle keys before each op (for forEachKey)
	Before int
}

type dhist struct {
	KK, VK kind
	Init   *odict
	Txs    []*dtx
	Final  *odict
	Label  string
}

func genDictHistory(rng *lib.Rng, kk, vk kind, target, nOps int, label string) *dhist {
	g := &dictGen{rng: rng, kk: kk, vk: vk, target: target, hugeLeft: 3}
	h := &dhist{KK: kk, VK: vk, Label: label, Init: newODict()}
	for i := rng.Intn(4); i > 0; i-- {
		h.Init.m[g.freshKey().String()] = g.val()
	}
	state := h.Init.clone()
	done := 0
	for done < nOps {
		t := &dtx{Before: len(state.m)}
		switch w := rng.Intn(20); {
		case w < 9:
			t.Mode = MRef
		case w < 15:
			t.Mode = MLoadSave
		case w < 17:
			t.Mode = MCopy
		default:
			t.Mode = MScript
		}
		t.Abort = t.Mode != MScript && rng.Chance(1, 12)
		s := state.clone()
		for i := 1 + rng.Intn(8); i > 0; i-- {
			o := g.op(s)
			t.Keys = append(t.Keys, s.keys())
			t.Ops = append(t.Ops, o)
			t.Outs = append(t.Outs, o.apply(s))
			done++
		}
		if t.Mode.persists() && !t.Abort {
			state = s
		}
		h.Txs = append(h.Txs, t)
	}
	h.Final = state
	return h
}

func (t *dtx) coqTx() string {
	parts := make([]string, len(t.Ops))
	for i, o := range t.Ops {
		parts[i] = o.coq()
	}
	m := map[amode]string{MRef: "DRef", MLoadSave: "DLoadSave", MCopy: "DCopy", MScript: "DScript"}[t.Mode]
	return fmt.Sprintf("{| dmode_of := %s; dops := [%s]; dabort := %v |}", m, strings.Join(parts, "; "), t.Abort)
}

func (r *runner) runDictHistory(h *dhist) {
	sum := r.sum
	T := dictType(h.KK, h.VK)
	var caseTerms []string
	ik, iv := h.Init.entries()
	for _, eng := range engines {
		host := lib.NewHost()
		if o := host.Deploy(addr, "C20", contract, eng.vm(0)); o.Err != nil {
			sum.Fail("setup", "cannot deploy helper contract: "+o.Err.Error(), nil)
			return
		}
		var ents []string
		for i := range ik {
			ents = append(ents, lit(h.KK, ik[i])+": "+lit(h.VK, iv[i]))
		}
		setup := fmt.Sprintf("import C20 from 0x1\ntransaction { prepare(acct: auth(Storage) &Account) {\n let v: %s = {%s}\n acct.storage.save(v, to: /storage/c)\n} }", T, strings.Join(ents, ", "))
		if o := r.program(host, setup, false, eng.vm(0)); o.Err != nil {
			sum.Fail("setup", "cannot store initial dictionary: "+o.Err.Error(), map[string]any{"program": setup})
			return
		}
		var obsTerms []string
		diverged := false
		for ti, t := range h.Txs {
			src := dictProgram(h.KK, h.VK, t.Mode, t.Ops, t.Abort)
			o := r.program(host, src, t.Mode == MScript, eng.vm(ti+1))
			cls := classify(o)
			r.noteProgram(src, t.Before >= 2)
			for _, op := range t.Ops {
				sum.Count("dict-op:" + op.Op)
			}
			if t.Abort {
				sum.Count("dict-aborted-program")
			}
			what, failing := "", "program"
			wantCls := ""
			if t.Abort {
				wantCls = "Abort"
			}
			outs, complaints, perr := parseDictOuts(h.KK, h.VK, t.Ops, o.Logs)
			switch {
			case cls != wantCls:
				what = fmt.Sprintf("program outcome: expected %q, observed %q (%v)", wantCls, cls, o.Err)
			case perr != nil:
				what = "unreadable result: " + perr.Error()
			case len(complaints) > 0:
				what = "keys / values / forEachKey / for-in are not mutually consistent: " + strings.Join(complaints, "; ")
				failing = "iteration-consistency"
			default:
				for i, op := range t.Ops {
					if op.Op == "forEachKey" {
						if c := checkForEach(t.Keys[i], op.Stop, outs[i].Ks); c != "" {
							what = fmt.Sprintf("result of operation %d (forEachKey): %s", i, c)
							failing = "forEachKey"
							break
						}
						continue
					}
					if outs[i].String() != t.Outs[i].String() {
						what = fmt.Sprintf("result of operation %d (%s): expected %s, observed %s", i, op.Op,
							trunc(t.Outs[i].String(), 300), trunc(outs[i].String(), 300))
						failing = op.Op
						break
					}
				}
			}
			parts := make([]string, len(outs))
			for i, x := range outs {
				parts[i] = x.coq()
			}
			obsTerms = append(obsTerms, "("+t.coqTx()+", ["+strings.Join(parts, "; ")+"])")
			if what != "" {
				sum.Fail("dict:"+failing, fmt.Sprintf("dictionary %s, engine %s, program %d (%s): %s", T, eng.name, ti, t.Mode, what),
					map[string]any{"history": h.Label, "engine": eng.name, "program_index": ti, "program": src, "error": fmt.Sprint(o.Err)})
				diverged = true
				break
			}
		}
		fk, fv := h.Final.entries()
		finalTerm := pairs(fk, fv)
		if !diverged {
			for _, vm := range []bool{false, true} {
				src := fmt.Sprintf("import C20 from 0x1\naccess(all) fun main() { let d = getAuthAccount<auth(Storage) &Account>(0x1).storage.copy<%s>(from: /storage/c)!\n log(d.keys); log(d.values) }", T)
				o := r.program(host, src, true, vm)
				outs, complaints, perr := parseDictOuts(h.KK, h.VK, []*dop{{Op: "entries"}}, o.Logs)
				want := dout{Tag: "es", Ks: fk, Vs: fv}
				if o.Err != nil || perr != nil || len(complaints) > 0 || len(outs) != 1 || outs[0].String() != want.String() {
					sum.Fail("dict:final-contents", fmt.Sprintf("dictionary %s, engine %s: stored contents after the history differ from the finite-map model", T, eng.name),
						map[string]any{"history": h.Label, "engine": eng.name, "expected": trunc(want.String(), 2000),
							"observed": trunc(strings.Join(o.Logs, "\n"), 2000), "error": fmt.Sprint(o.Err, perr, complaints)})
					diverged = true
				}
				if len(outs) == 1 {
					finalTerm = pairs(outs[0].Ks, outs[0].Vs)
				}
			}
		}
		if diverged {
			finalTerm = "[(0, 0); (0, 0)]" // never a model state (duplicate key): forces a mismatch
		}
		term := fmt.Sprintf("(%s,\n [%s],\n %s)", pairs(ik, iv), strings.Join(obsTerms, ";\n  "), finalTerm)
		dup := false
		for _, c := range caseTerms {
			if c == term {
				dup = true
			}
		}
		if !dup {
			caseTerms = append(caseTerms, term)
			r.cwD.Add(term, map[string]any{"container": "dictionary", "history": h.Label, "engine": eng.name,
				"type": T, "programs": len(h.Txs), "final_length": len(h.Final.m)})
		}
	}
	sum.Count(fmt.Sprintf("dict-history:%s", T))
	mx := 0
	for _, t := range h.Txs {
		if t.Before > mx {
			mx = t.Before
		}
	}
	sum.Count("dict-max-length:" + bucket(mx))
}

// ================================================================ main

func main() {
	flag.Parse()
	if *prop != "C20" {
		fmt.Fprintln(os.Stderr, "unknown prop", *prop)
		os.Exit(2)
	}
	sum := &lib.Summary{}
	r := &runner{sum: sum, seen: map[string]bool{}}
	r.cwA = &lib.CaseWriter{Dir: *dir, Prefix: "cases_C20_arr", Header: "From CV Require Import C20.Cases.",
		ElemType: "bool * list Z * list (@tx Z * @txres Z) * list Z", CheckFn: "check_array", PerFile: 6}
	r.cwD = &lib.CaseWriter{Dir: *dir, Prefix: "cases_C20_dict", Header: "From CV Require Import C20.Cases.",
		ElemType: "list (Z * Z) * list (@dtx Z Z * list (@dout Z Z)) * list (Z * Z)", CheckFn: "check_dict", PerFile: 6}
	sum.Rule = "a case = one operation history (50-300 operations grouped into transactions/scripts of 1-8 operations) executed on a real " +
		"array or dictionary kept in account storage (every program starts from a fresh storage load of the committed state), once per engine " +
		"configuration (interpreter, VM, alternating); programs access the container in place through a storage reference, by load+save, on a " +
		"copy, or from a script; element types Int / UInt (incl. >64-bit and non-inlinable values of 2^600..2^7000 inside small and large containers), String (pads up to 560 chars), [Int] (up to 150 elements), struct; " +
		"observables = every operation's logged result, the error class / static rejection of every program, the stored contents read back at " +
		"the end; compared with a Go oracle (slices / map) and by the Coq model. evaluations = programs executed and compared; " +
		"non-trivial = distinct program texts that ran on a container of >= 2 elements or ended in an index error"

	rng := lib.NewRng(*seed)
	thorough := *tier == "thorough"

	// --- hand-picked boundary histories (corpus/C20), then histories from a fixed seed
	r.runCorpus()
	corpusRng := lib.NewRng(7)
	for i, k := range []kind{KInt, KStr, KArr, KStruct, KUInt} {
		r.runArrayHistory(genArrayHistory(corpusRng, k, false, 6, 60, fmt.Sprintf("corpus-array-%d", i)))
		r.runArrayHistory(genArrayHistory(corpusRng, k, true, 4, 40, fmt.Sprintf("corpus-fixed-%d", i)))
	}
	r.runDictHistory(genDictHistory(corpusRng, KInt, KInt, 6, 60, "corpus-dict-0"))
	r.runDictHistory(genDictHistory(corpusRng, KStr, KStruct, 6, 60, "corpus-dict-1"))
	r.runDictHistory(genDictHistory(corpusRng, KUInt, KUInt, 6, 60, "corpus-dict-2"))

	// --- generated histories
	type prof struct{ target, ops int }
	profiles := []prof{{8, 60}, {10, 120}, {40, 150}, {130, 200}, {350, 300}, {600, 250}}
	nArr, nFix, nDict := 14, 4, 12
	if thorough {
		nArr, nFix, nDict = 100, 24, 90
	}
	kinds := []kind{KInt, KStr, KArr, KStruct, KUInt}
	keyKinds := []kind{KInt, KStr, KUInt}
	for i := 0; i < nArr; i++ {
		p := profiles[i%len(profiles)]
		k := kinds[rng.Intn(len(kinds))]
		if i < len(kinds) {
			k = kinds[i]
		}
		r.runArrayHistory(genArrayHistory(rng, k, false, p.target, p.ops, fmt.Sprintf("array-%d", i)))
	}
	for i := 0; i < nFix; i++ {
		k := kinds[i%len(kinds)]
		size := []int{0, 1, 3, 17, 130, 2}[rng.Intn(6)]
		r.runArrayHistory(genArrayHistory(rng, k, true, size, 50+rng.Intn(60), fmt.Sprintf("fixed-%d", i)))
	}
	for i := 0; i < nDict; i++ {
		p := profiles[i%len(profiles)]
		kk := keyKinds[rng.Intn(len(keyKinds))]
		vk := kinds[rng.Intn(len(kinds))]
		if i < 10 {
			kk, vk = keyKinds[i%3], kinds[i%5]
		}
		if i%4 == 3 { // both key and value types are integer types
			kk, vk = keyKinds[2*rng.Intn(2)], []kind{KInt, KUInt}[rng.Intn(2)]
		}
		r.runDictHistory(genDictHistory(rng, kk, vk, p.target, p.ops, fmt.Sprintf("dict-%d", i)))
	}
	r.cwA.Close()
	r.cwD.Close()
	sum.CaseFiles = append(append([]string{}, r.cwA.Files...), r.cwD.Files...)
	sum.Extra = map[string]any{"programs_executed_total": r.txs}
	sum.Write(*dir)
}
