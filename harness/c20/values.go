package main

// Element universe of the C20 correspondence run: every element / key / value of a history is
// identified by an integer id; its Cadence value is a deterministic function of (kind, id).
// Observed values are parsed back from log() output and must match that function exactly
// (so a garbled, truncated or aliased element is noticed, not just a wrong id).

import (
	"fmt"
	"math/big"
	"strconv"
	"strings"

	"cvh/lib"
)

type kind int

const (
	KInt    kind = iota // Int; id is the value itself (may exceed 64 bits)
	KStr                // String "s<id>:<pad>"; pads up to 560 chars (not inlined by atree)
	KArr                // [Int] = [id, id+1, ...]; up to 150 elements (own slab)
	KStruct             // C20.S(id:, pad:)
	KUInt               // UInt; id is the value itself, never negative (may exceed 64 bits)
)

func (k kind) String() string { return [...]string{"Int", "String", "[Int]", "C20.S", "UInt"}[k] }

// integer kinds: the id is the value
func (k kind) integer() bool { return k == KInt || k == KUInt }

// Cadence type of an element of this kind.
func (k kind) typ() string { return k.String() }

func (k kind) equatable() bool { return k != KStruct }

var padLens = [16]int{0, 1, 2, 3, 5, 8, 12, 20, 33, 60, 100, 0, 1, 280, 560, 4}
var arrLens = [16]int{1, 2, 3, 1, 2, 5, 8, 1, 13, 40, 1, 2, 90, 1, 150, 3}

func mod16(id *big.Int) int {
	m := new(big.Int).Mod(id, big.NewInt(16)) // Euclidean
	return int(m.Int64())
}

func pad(id *big.Int) string {
	c := byte('a' + mod16(id)%7)
	return strings.Repeat(string(c), padLens[mod16(id)])
}

func bi(n int64) *big.Int { return big.NewInt(n) }

// lit renders the Cadence literal of element id.
func lit(k kind, id *big.Int) string {
	switch k {
	case KInt, KUInt:
		return id.String()
	case KStr:
		return `"s` + id.String() + ":" + pad(id) + `"`
	case KArr:
		n := arrLens[mod16(id)]
		parts := make([]string, n)
		for i := 0; i < n; i++ {
			parts[i] = new(big.Int).Add(id, bi(int64(i))).String()
		}
		return "[" + strings.Join(parts, ", ") + "]"
	case KStruct:
		return `C20.S(id: ` + id.String() + `, pad: "` + pad(id) + `")`
	}
	panic("kind")
}

func lits(k kind, ids []*big.Int) string {
	parts := make([]string, len(ids))
	for i, id := range ids {
		parts[i] = lit(k, id)
	}
	return "[" + strings.Join(parts, ", ") + "]"
}

// ---------------------------------------------------------------- parsing log() output

type node struct {
	tag    byte // 'i' int, 's' string, 'a' array, 'c' composite, 'n' nil, 'b' bool, 'u' unit, 'd' dictionary
	i      *big.Int
	s      string
	elems  []*node
	fields map[string]*node
	b      bool
}

type parser struct {
	s   string
	pos int
}

func (p *parser) ws() {
	for p.pos < len(p.s) && p.s[p.pos] == ' ' {
		p.pos++
	}
}

func (p *parser) fail(msg string) error {
	return fmt.Errorf("parse %q at %d: %s", trunc(p.s, 80), p.pos, msg)
}

func trunc(s string, n int) string {
	if len(s) > n {
		return s[:n] + "..."
	}
	return s
}

func (p *parser) value() (*node, error) {
	p.ws()
	if p.pos >= len(p.s) {
		return nil, p.fail("eof")
	}
	c := p.s[p.pos]
	switch {
	case c == '[':
		p.pos++
		n := &node{tag: 'a'}
		p.ws()
		if p.pos < len(p.s) && p.s[p.pos] == ']' {
			p.pos++
			return n, nil
		}
		for {
			e, err := p.value()
			if err != nil {
				return nil, err
			}
			n.elems = append(n.elems, e)
			p.ws()
			if p.pos < len(p.s) && p.s[p.pos] == ',' {
				p.pos++
				continue
			}
			if p.pos < len(p.s) && p.s[p.pos] == ']' {
				p.pos++
				return n, nil
			}
			return nil, p.fail("expected , or ]")
		}
	case c == '"':
		end := p.pos + 1
		for end < len(p.s) && p.s[end] != '"' {
			if p.s[end] == '\\' {
				return nil, p.fail("escape in string")
			}
			end++
		}
		if end >= len(p.s) {
			return nil, p.fail("unterminated string")
		}
		n := &node{tag: 's', s: p.s[p.pos+1 : end]}
		p.pos = end + 1
		return n, nil
	case c == '-' || (c >= '0' && c <= '9'):
		end := p.pos + 1
		for end < len(p.s) && p.s[end] >= '0' && p.s[end] <= '9' {
			end++
		}
		z, ok := new(big.Int).SetString(p.s[p.pos:end], 10)
		if !ok {
			return nil, p.fail("bad int")
		}
		p.pos = end
		return &node{tag: 'i', i: z}, nil
	case c == '(':
		if strings.HasPrefix(p.s[p.pos:], "()") {
			p.pos += 2
			return &node{tag: 'u'}, nil
		}
		return nil, p.fail("unexpected (")
	case strings.HasPrefix(p.s[p.pos:], "nil"):
		p.pos += 3
		return &node{tag: 'n'}, nil
	case strings.HasPrefix(p.s[p.pos:], "true"):
		p.pos += 4
		return &node{tag: 'b', b: true}, nil
	case strings.HasPrefix(p.s[p.pos:], "false"):
		p.pos += 5
		return &node{tag: 'b', b: false}, nil
	case c == 'A' || c == 'S':
		// composite: QualifiedName(field: value, ...)
		end := p.pos
		for end < len(p.s) && p.s[end] != '(' {
			end++
		}
		if end >= len(p.s) {
			return nil, p.fail("composite without (")
		}
		n := &node{tag: 'c', s: p.s[p.pos:end], fields: map[string]*node{}}
		p.pos = end + 1
		p.ws()
		if p.pos < len(p.s) && p.s[p.pos] == ')' {
			p.pos++
			return n, nil
		}
		for {
			p.ws()
			fe := p.pos
			for fe < len(p.s) && p.s[fe] != ':' {
				fe++
			}
			if fe >= len(p.s) {
				return nil, p.fail("field name")
			}
			name := p.s[p.pos:fe]
			p.pos = fe + 1
			v, err := p.value()
			if err != nil {
				return nil, err
			}
			if _, dup := n.fields[name]; dup {
				return nil, p.fail("duplicate field")
			}
			n.fields[name] = v
			p.ws()
			if p.pos < len(p.s) && p.s[p.pos] == ',' {
				p.pos++
				continue
			}
			if p.pos < len(p.s) && p.s[p.pos] == ')' {
				p.pos++
				return n, nil
			}
			return nil, p.fail("expected , or )")
		}
	}
	return nil, p.fail("unexpected character")
}

func parseValue(s string) (*node, error) {
	p := &parser{s: s}
	n, err := p.value()
	if err != nil {
		return nil, err
	}
	p.ws()
	if p.pos != len(p.s) {
		return nil, p.fail("trailing input")
	}
	return n, nil
}

const structTypeID = "A.0000000000000001.C20.S"

// idOf maps a parsed value back to its id; ok=false when the value is not exactly the value
// of some id of that kind.
func idOf(k kind, n *node) (*big.Int, bool) {
	switch k {
	case KInt:
		if n.tag == 'i' {
			return n.i, true
		}
	case KUInt:
		if n.tag == 'i' && n.i.Sign() >= 0 {
			return n.i, true
		}
	case KStr:
		if n.tag != 's' || !strings.HasPrefix(n.s, "s") {
			return nil, false
		}
		c := strings.IndexByte(n.s, ':')
		if c < 0 {
			return nil, false
		}
		id, ok := new(big.Int).SetString(n.s[1:c], 10)
		if !ok || n.s[c+1:] != pad(id) {
			return nil, false
		}
		return id, true
	case KArr:
		if n.tag != 'a' || len(n.elems) == 0 || n.elems[0].tag != 'i' {
			return nil, false
		}
		id := n.elems[0].i
		if len(n.elems) != arrLens[mod16(id)] {
			return nil, false
		}
		for i, e := range n.elems {
			if e.tag != 'i' || e.i.Cmp(new(big.Int).Add(id, bi(int64(i)))) != 0 {
				return nil, false
			}
		}
		return id, true
	case KStruct:
		if n.tag != 'c' || n.s != structTypeID || len(n.fields) != 2 {
			return nil, false
		}
		f, p := n.fields["id"], n.fields["pad"]
		if f == nil || p == nil || f.tag != 'i' || p.tag != 's' || p.s != pad(f.i) {
			return nil, false
		}
		return f.i, true
	}
	return nil, false
}

func idsOf(k kind, n *node) ([]*big.Int, bool) {
	if n.tag != 'a' {
		return nil, false
	}
	out := make([]*big.Int, len(n.elems))
	for i, e := range n.elems {
		id, ok := idOf(k, e)
		if !ok {
			return nil, false
		}
		out[i] = id
	}
	return out, true
}

// ---------------------------------------------------------------- Coq rendering

// integers wider than 192 bits are written as limbs (zl, Base/Prelude.v): Coq parses huge
// decimal literals very slowly
func zc(z *big.Int) string { return lib.Z(z) }

func zlist(ids []*big.Int) string {
	parts := make([]string, len(ids))
	for i, id := range ids {
		parts[i] = zc(id)
	}
	return "[" + strings.Join(parts, "; ") + "]"
}

func idsString(ids []*big.Int) string {
	parts := make([]string, len(ids))
	for i, id := range ids {
		parts[i] = id.String()
	}
	return "[" + strings.Join(parts, " ") + "]"
}

func itoa(i int) string { return strconv.Itoa(i) }
