package main

// contractSrc declares the small fixed type universe used by the C22 histories and the
// helpers that render loaded / copied / borrowed values as "<type identifier>:<payload>".
const contractSrc = `
access(all) contract C {
    access(all) struct interface SI { access(all) let x: Int }
    access(all) resource interface RI { access(all) let x: Int }
    access(all) let bigPad: String
    access(all) struct S { access(all) let x: Int; access(all) let pad: String; init(_ x: Int) { self.x = x; self.pad = x % 4 == 3 ? C.bigPad : "" } }
    access(all) struct S2: SI { access(all) let x: Int; init(_ x: Int) { self.x = x } }
    access(all) resource R { access(all) let x: Int; access(all) let pad: String; init(_ x: Int) { self.x = x; self.pad = x % 4 == 3 ? C.bigPad : "" } }
    access(all) resource R2: RI { access(all) let x: Int; init(_ x: Int) { self.x = x } }
    access(all) fun boom() { panic("boom") }
    access(all) fun mkArr(_ v: Int, _ n: Int): [Int] {
        let a: [Int] = []
        while a.length < n { a.append(v) }
        return a
    }
    init() {
        var p = "xxxxxxxxxx"
        while p.length < 1000 { p = p.concat(p) }
        self.bigPad = p
    }
    access(all) fun newR(_ x: Int): @R { return <- create R(x) }
    access(all) fun newR2(_ x: Int): @R2 { return <- create R2(x) }

    access(all) fun payload(_ x: AnyStruct): String {
        if let i = x as? Int { return i.toString() }
        if let s = x as? String { return s }
        if let s = x as? S { return s.x.toString() }
        if let s = x as? S2 { return s.x.toString() }
        if let a = x as? [Int] { return a[0].toString().concat(",").concat(a.length.toString()) }
        if let o = x as? Int? { if let i = o { return i.toString() } }
        if let o = x as? String? { if let s = o { return s } }
        return "?"
    }
    access(all) fun show(_ v: AnyStruct?): String {
        if let x = v {
            return x.getType().identifier.concat(":").concat(self.payload(x))
        }
        return "nil"
    }
    access(all) fun showRef(_ v: &AnyStruct?): String {
        if let r = v {
            let t = r.getType()
            if t == Type<Int>() { return t.identifier.concat(":").concat((*(r as! &Int)).toString()) }
            if t == Type<String>() { return t.identifier.concat(":").concat(*(r as! &String)) }
            if t == Type<S>() { return t.identifier.concat(":").concat((r as! &S).x.toString()) }
            if t == Type<S2>() { return t.identifier.concat(":").concat((r as! &S2).x.toString()) }
            if t == Type<[Int]>() { let a = r as! &[Int]; return t.identifier.concat(":").concat(a[0].toString()).concat(",").concat(a.length.toString()) }
            return t.identifier.concat(":?")
        }
        return "nil"
    }
    access(all) fun showRefR(_ v: &AnyResource?): String {
        if let r = v {
            let t = r.getType()
            if t == Type<@R>() { return t.identifier.concat(":").concat((r as! &R).x.toString()) }
            if t == Type<@R2>() { return t.identifier.concat(":").concat((r as! &R2).x.toString()) }
            return t.identifier.concat(":?")
        }
        return "nil"
    }
    access(all) fun showType(_ t: Type?): String {
        if let x = t { return x.identifier }
        return "nil"
    }
    // observation of one storage slot with the property's own operations:
    // type(at:), check<T>, then borrow / copy at the top type of its kind
    access(all) fun describe(_ acct: auth(Storage) &Account, _ p: StoragePath): String {
        if acct.storage.type(at: p) == nil { return "nil" }
        if acct.storage.check<@AnyResource>(from: p) {
            return self.showRefR(acct.storage.borrow<&AnyResource>(from: p))
        }
        return self.show(acct.storage.copy<AnyStruct>(from: p))
    }
}
`
