// Command c22: correspondence harness for C22 (account storage behaves as a typed
// path-indexed map across transactions).
//
// It generates histories of transactions and scripts over 3 accounts x 4 storage paths with
// struct/resource values of a small fixed type universe, runs them on an in-memory chain
// (lib.Host: every transaction decodes storage afresh from the ledger registers) with the
// interpreter and with the VM, parses the per-operation results the programs log, and
//
//	(a) compares them with an independent Go oracle (a plain map with commit/abort), and
//	(b) writes them as Coq case files evaluated against the code-shaped model of
//	    coq/theories/C22/Model.v (proved to refine the plain-map specification).
package main

import (
	"encoding/json"
	goerrors "errors"
	"flag"
	"fmt"
	"os"
	"path/filepath"
	"sort"
	"strconv"
	"strings"

	"cvh/lib"

	"github.com/onflow/cadence/common"
	"github.com/onflow/cadence/interpreter"
	"github.com/onflow/cadence/stdlib"
)

var (
	prop   = flag.String("prop", "C22", "property id")
	seed   = flag.Uint64("seed", 1, "seed")
	tier   = flag.String("tier", "quick", "quick|thorough")
	dir    = flag.String("dir", ".", "output directory")
	corpus = flag.String("corpus", "", "directory with hand-picked histories (*.json)")
)

// ------------------------------------------------------------------------------------------
// type universe

var dtys = []string{"DInt", "DOptInt", "DStr", "DOptStr", "DS", "DS2", "DArr", "DR", "DR2"}
var stys = []string{"TInt", "TInteger", "TOptInt", "TOptStr", "TStr", "TS", "TS2", "TSI", "TArr", "TAnyStruct",
	"TR", "TR2", "TRI", "TAnyResource"}

var styCadence = map[string]string{
	"TInt": "Int", "TInteger": "Integer", "TOptInt": "Int?", "TOptStr": "String?", "TStr": "String",
	"TS": "C.S", "TS2": "C.S2", "TSI": "{C.SI}", "TArr": "[Int]", "TAnyStruct": "AnyStruct",
	"TR": "C.R", "TR2": "C.R2", "TRI": "{C.RI}", "TAnyResource": "AnyResource",
}

var typeIDToDty = map[string]string{
	"Int": "DInt", "(Int)?": "DOptInt", "String": "DStr", "(String)?": "DOptStr",
	"A.0000000000000001.C.S": "DS", "A.0000000000000001.C.S2": "DS2", "[Int]": "DArr",
	"A.0000000000000001.C.R": "DR", "A.0000000000000001.C.R2": "DR2",
}

func isResT(t string) bool { return t == "TR" || t == "TR2" || t == "TRI" || t == "TAnyResource" }
func isResD(d string) bool { return d == "DR" || d == "DR2" }
func isOptT(t string) bool { return t == "TOptInt" || t == "TOptStr" }
func isOptD(d string) bool { return d == "DOptInt" || d == "DOptStr" }

// subtype oracle (Cadence typing rules, written independently of the Coq table)
func sub(d, t string) bool {
	switch t {
	case "TAnyStruct":
		return !isResD(d)
	case "TAnyResource":
		return isResD(d)
	case "TInt", "TInteger":
		return d == "DInt"
	case "TOptInt":
		return d == "DInt" || d == "DOptInt"
	case "TStr":
		return d == "DStr"
	case "TOptStr":
		return d == "DStr" || d == "DOptStr"
	case "TS":
		return d == "DS"
	case "TS2", "TSI":
		return d == "DS2"
	case "TArr":
		return d == "DArr"
	case "TR":
		return d == "DR"
	case "TR2", "TRI":
		return d == "DR2"
	}
	panic(t)
}

func box(t, d string) string {
	switch t {
	case "TOptInt":
		return "DOptInt"
	case "TOptStr":
		return "DOptStr"
	}
	return d
}

// Large values are NOT inlined in the storage-map slab: they live in slabs of their own, which
// a later transaction's fresh Storage loads lazily (1000-char strings, 500-element arrays; the
// contract pads C.S / C.R composites with a 1000-char field when x % 4 == 3).
func strPad(n int64) int {
	if n%4 == 3 {
		return 1000
	}
	return 0
}
func arrLen(n int64) int {
	if n%5 == 4 {
		return 500
	}
	return 1 + int(n%3)
}

func valExpr(v int64, d string) string {
	switch d {
	case "DInt":
		return fmt.Sprint(v)
	case "DOptInt":
		return fmt.Sprintf("(%d as Int?)", v)
	case "DStr":
		return fmt.Sprintf("\"s%d%s\"", v, strings.Repeat("x", strPad(v)))
	case "DOptStr":
		return fmt.Sprintf("(\"s%d%s\" as String?)", v, strings.Repeat("x", strPad(v)))
	case "DS":
		return fmt.Sprintf("C.S(%d)", v)
	case "DS2":
		return fmt.Sprintf("C.S2(%d)", v)
	case "DArr":
		if arrLen(v) > 3 {
			return fmt.Sprintf("C.mkArr(%d, %d)", v, arrLen(v))
		}
		el := make([]string, arrLen(v))
		for i := range el {
			el[i] = fmt.Sprint(v)
		}
		return "[" + strings.Join(el, ", ") + "]"
	case "DR":
		return fmt.Sprintf("<- C.newR(%d)", v)
	case "DR2":
		return fmt.Sprintf("<- C.newR2(%d)", v)
	}
	panic(d)
}

// ------------------------------------------------------------------------------------------
// operations and histories

type Op struct {
	K  string `json:"k"` // save load copy borrow check type paths foreach move describe assert panic
	A  int    `json:"a,omitempty"`
	P  int    `json:"p,omitempty"`
	V  int64  `json:"v,omitempty"`
	D  string `json:"d,omitempty"`
	T  string `json:"t,omitempty"`
	A2 int    `json:"a2,omitempty"`
	P2 int    `json:"p2,omitempty"`
	N  int    `json:"n,omitempty"`
	B  bool   `json:"b,omitempty"`
}

type Tx struct {
	Script bool `json:"script,omitempty"`
	Prep   []Op `json:"prep"`
	Pre    bool `json:"pre"`
	Exec   []Op `json:"exec,omitempty"`
	Post   bool `json:"post"`
	Reload bool `json:"reload,omitempty"` // inserted observation script
}

// body of the transaction as the model sees it
func (t Tx) body() []Op {
	if t.Script {
		return t.Prep
	}
	b := append([]Op{}, t.Prep...)
	b = append(b, Op{K: "assert", B: t.Pre})
	b = append(b, t.Exec...)
	b = append(b, Op{K: "assert", B: t.Post})
	return b
}

func (o Op) coq() string {
	switch o.K {
	case "save":
		return fmt.Sprintf("OSave %d %d %d %s", o.A, o.P, o.V, o.D)
	case "load":
		return fmt.Sprintf("OLoad %d %d %s", o.A, o.P, o.T)
	case "copy":
		return fmt.Sprintf("OCopy %d %d %s", o.A, o.P, o.T)
	case "borrow":
		return fmt.Sprintf("OBorrow %d %d %s", o.A, o.P, o.T)
	case "check":
		return fmt.Sprintf("OCheck %d %d %s", o.A, o.P, o.T)
	case "type":
		return fmt.Sprintf("OType %d %d", o.A, o.P)
	case "paths":
		return fmt.Sprintf("OPaths %d", o.A)
	case "foreach":
		return fmt.Sprintf("OForEach %d %d", o.A, o.N)
	case "move":
		return fmt.Sprintf("OMove %d %d %s %d %d", o.A, o.P, o.T, o.A2, o.P2)
	case "describe":
		return fmt.Sprintf("ODescribe %d %d", o.A, o.P)
	case "assert":
		return fmt.Sprintf("OAssert %v", o.B)
	case "panic":
		return "OPanic"
	}
	panic(o.K)
}

// Cadence statements of one operation; acct renders the account expression
func (o Op) cadence(i int, acct func(int) string) string {
	path := func(p int) string { return fmt.Sprintf("/storage/p%d", p) }
	a := ""
	if o.K != "assert" && o.K != "panic" {
		a = acct(o.A)
	}
	switch o.K {
	case "save":
		return fmt.Sprintf("%s.storage.save(%s, to: %s)\nlog(\"saved\")", a, valExpr(o.V, o.D), path(o.P))
	case "load":
		if isResT(o.T) {
			return fmt.Sprintf("let r%d <- %s.storage.load<@%s>(from: %s)\nlog(C.showRefR(&r%d as &AnyResource?))\ndestroy r%d",
				i, a, styCadence[o.T], path(o.P), i, i)
		}
		return fmt.Sprintf("log(C.show(%s.storage.load<%s>(from: %s)))", a, styCadence[o.T], path(o.P))
	case "copy":
		return fmt.Sprintf("log(C.show(%s.storage.copy<%s>(from: %s)))", a, styCadence[o.T], path(o.P))
	case "borrow":
		if isResT(o.T) {
			return fmt.Sprintf("log(C.showRefR(%s.storage.borrow<&%s>(from: %s)))", a, styCadence[o.T], path(o.P))
		}
		return fmt.Sprintf("log(C.showRef(%s.storage.borrow<&%s>(from: %s)))", a, styCadence[o.T], path(o.P))
	case "check":
		at := ""
		if isResT(o.T) {
			at = "@"
		}
		return fmt.Sprintf("log(%s.storage.check<%s%s>(from: %s))", a, at, styCadence[o.T], path(o.P))
	case "type":
		return fmt.Sprintf("log(C.showType(%s.storage.type(at: %s)))", a, path(o.P))
	case "paths":
		return fmt.Sprintf("log(%s.storage.storagePaths)", a)
	case "foreach":
		return fmt.Sprintf("var n%d = 0\n%s.storage.forEachStored(fun (p: StoragePath, t: Type): Bool { n%d = n%d + 1; log(p.toString().concat(\"=\").concat(t.identifier)); return n%d < %d })\nlog(\"fe-end\")",
			i, a, i, i, i, o.N)
	case "move":
		b := acct(o.A2)
		if isResT(o.T) {
			return fmt.Sprintf("if let v%d <- %s.storage.load<@%s>(from: %s) { %s.storage.save(<-v%d, to: %s); log(C.describe(%s, %s)); log(\"moved\") } else { log(\"nil\") }",
				i, a, styCadence[o.T], path(o.P), b, i, path(o.P2), b, path(o.P2))
		}
		return fmt.Sprintf("if let v%d = %s.storage.load<%s>(from: %s) { %s.storage.save(v%d, to: %s); log(C.describe(%s, %s)); log(\"moved\") } else { log(\"nil\") }",
			i, a, styCadence[o.T], path(o.P), b, i, path(o.P2), b, path(o.P2))
	case "describe":
		return fmt.Sprintf("log(C.describe(%s, %s))", a, path(o.P))
	case "assert":
		return fmt.Sprintf("assert(%v, message: \"a\")\nlog(\"ok\")", o.B)
	case "panic":
		return "C.boom()"
	}
	panic(o.K)
}

const nAccounts = 3
const nPaths = 4

func (t Tx) source() string {
	var sb strings.Builder
	sb.WriteString("import C from 0x1\n")
	if t.Script {
		sb.WriteString("access(all) fun main() {\n")
		for a := 1; a <= nAccounts; a++ {
			fmt.Fprintf(&sb, "  let a%d = getAuthAccount<auth(Storage) &Account>(0x%d)\n", a, a)
		}
		for i, o := range t.Prep {
			sb.WriteString(o.cadence(i, func(a int) string { return fmt.Sprintf("a%d", a) }))
			sb.WriteString("\n")
		}
		sb.WriteString("}\n")
		return sb.String()
	}
	acct := func(a int) string { return fmt.Sprintf("self.a%d", a) }
	sb.WriteString("transaction {\n")
	for a := 1; a <= nAccounts; a++ {
		fmt.Fprintf(&sb, "  let a%d: auth(Storage) &Account\n", a)
	}
	sb.WriteString("  prepare(a1: auth(Storage) &Account, a2: auth(Storage) &Account, a3: auth(Storage) &Account) {\n")
	sb.WriteString("    self.a1 = a1\n    self.a2 = a2\n    self.a3 = a3\n")
	for i, o := range t.Prep {
		sb.WriteString(o.cadence(i, acct))
		sb.WriteString("\n")
	}
	sb.WriteString("  }\n")
	fmt.Fprintf(&sb, "  pre { %v: \"pre\" }\n", t.Pre)
	sb.WriteString("  execute {\n    log(\"EXEC\")\n")
	for i, o := range t.Exec {
		sb.WriteString(o.cadence(100+i, acct))
		sb.WriteString("\n")
	}
	sb.WriteString("  }\n")
	fmt.Fprintf(&sb, "  post { %v: \"post\" }\n", t.Post)
	sb.WriteString("}\n")
	return sb.String()
}

// ------------------------------------------------------------------------------------------
// results

type Res struct {
	K       string      `json:"k"` // unit nil val bool ty paths visited
	V       int64       `json:"v,omitempty"`
	D       string      `json:"d,omitempty"`
	B       bool        `json:"b,omitempty"`
	Paths   []int       `json:"paths,omitempty"`
	Visited [][2]string `json:"visited,omitempty"` // (path index, dty)
	Raw     string      `json:"raw,omitempty"`     // unparsable log line
}

func (r Res) coq() string {
	switch r.K {
	case "unit":
		return "RUnit"
	case "nil":
		return "RNil"
	case "val":
		return fmt.Sprintf("RVal %s %s", lib.ZI(r.V), r.D)
	case "bool":
		return fmt.Sprintf("RBool %v", r.B)
	case "ty":
		return "RTy " + r.D
	case "paths":
		s := make([]string, len(r.Paths))
		for i, p := range r.Paths {
			s[i] = fmt.Sprint(p)
		}
		return "RPaths [" + strings.Join(s, ";") + "]"
	case "visited":
		s := make([]string, len(r.Visited))
		for i, v := range r.Visited {
			s[i] = fmt.Sprintf("(%s, %s)", v[0], v[1])
		}
		return "RVisited [" + strings.Join(s, ";") + "]"
	}
	// unparsable: a result no model output equals
	return "RPaths [-1]"
}

func (r Res) String() string {
	b, _ := json.Marshal(r)
	return string(b)
}

func unquote(s string) string {
	if len(s) >= 2 && s[0] == '"' && s[len(s)-1] == '"' {
		return s[1 : len(s)-1]
	}
	return s
}

func parsePath(s string) (int, bool) {
	if !strings.HasPrefix(s, "/storage/p") {
		return 0, false
	}
	n, err := strconv.Atoi(s[len("/storage/p"):])
	return n, err == nil
}

// parseVal parses "<type id>:<payload>" or "nil"
func parseVal(line string) Res {
	s := unquote(line)
	if s == "nil" {
		return Res{K: "nil"}
	}
	i := strings.LastIndex(s, ":")
	if i < 0 {
		return Res{K: "bad", Raw: line}
	}
	d, ok := typeIDToDty[s[:i]]
	if !ok {
		return Res{K: "bad", Raw: line}
	}
	pl := s[i+1:]
	switch d {
	case "DStr", "DOptStr":
		if pl == "?" {
			return Res{K: "val", V: -1, D: d}
		}
		core := strings.TrimRight(pl, "x")
		if !strings.HasPrefix(core, "s") {
			return Res{K: "bad", Raw: line}
		}
		n, err := strconv.ParseInt(core[1:], 10, 64)
		if err != nil || len(pl)-len(core) != strPad(n) {
			return Res{K: "bad", Raw: line}
		}
		return Res{K: "val", V: n, D: d}
	case "DArr":
		parts := strings.Split(pl, ",")
		if len(parts) != 2 {
			return Res{K: "bad", Raw: line}
		}
		n, err := strconv.ParseInt(parts[0], 10, 64)
		l, err2 := strconv.Atoi(parts[1])
		if err != nil || err2 != nil || l != arrLen(n) {
			return Res{K: "bad", Raw: line}
		}
		return Res{K: "val", V: n, D: d}
	default:
		if pl == "?" {
			return Res{K: "val", V: -1, D: d}
		}
		n, err := strconv.ParseInt(pl, 10, 64)
		if err != nil {
			return Res{K: "bad", Raw: line}
		}
		return Res{K: "val", V: n, D: d}
	}
}

// parseLogs turns the log lines of one program into per-operation results, following the
// statement templates above. It stops at the first operation whose lines are missing.
func parseLogs(ops []Op, lines []string) (res []Res, rest []string) {
	for _, o := range ops {
		if len(lines) == 0 {
			return res, lines
		}
		l := lines[0]
		switch o.K {
		case "save":
			if unquote(l) != "saved" {
				return append(res, Res{K: "bad", Raw: l}), lines[1:]
			}
			res = append(res, Res{K: "unit"})
			lines = lines[1:]
		case "assert":
			if unquote(l) != "ok" {
				return append(res, Res{K: "bad", Raw: l}), lines[1:]
			}
			res = append(res, Res{K: "unit"})
			lines = lines[1:]
		case "load", "copy", "borrow", "describe":
			res = append(res, parseVal(l))
			lines = lines[1:]
		case "check":
			switch l {
			case "true":
				res = append(res, Res{K: "bool", B: true})
			case "false":
				res = append(res, Res{K: "bool", B: false})
			default:
				res = append(res, Res{K: "bad", Raw: l})
			}
			lines = lines[1:]
		case "type":
			s := unquote(l)
			if s == "nil" {
				res = append(res, Res{K: "nil"})
			} else if d, ok := typeIDToDty[s]; ok {
				res = append(res, Res{K: "ty", D: d})
			} else {
				res = append(res, Res{K: "bad", Raw: l})
			}
			lines = lines[1:]
		case "paths":
			r := Res{K: "paths", Paths: []int{}}
			inner := strings.TrimSuffix(strings.TrimPrefix(l, "["), "]")
			if !strings.HasPrefix(l, "[") {
				r = Res{K: "bad", Raw: l}
			} else if inner != "" {
				for _, part := range strings.Split(inner, ", ") {
					p, ok := parsePath(part)
					if !ok {
						r = Res{K: "bad", Raw: l}
						break
					}
					r.Paths = append(r.Paths, p)
				}
			}
			res = append(res, r)
			lines = lines[1:]
		case "foreach":
			r := Res{K: "visited", Visited: [][2]string{}}
			done := false
			for len(lines) > 0 {
				s := unquote(lines[0])
				lines = lines[1:]
				if s == "fe-end" {
					done = true
					break
				}
				kv := strings.SplitN(s, "=", 2)
				p, ok := 0, false
				if len(kv) == 2 {
					p, ok = parsePath(kv[0])
				}
				d, ok2 := "", false
				if ok {
					d, ok2 = typeIDToDty[kv[1]]
				}
				if !ok || !ok2 {
					r = Res{K: "bad", Raw: s}
					continue
				}
				if r.K == "visited" {
					r.Visited = append(r.Visited, [2]string{fmt.Sprint(p), d})
				}
			}
			if !done {
				return res, lines // the iteration did not finish: the operation failed
			}
			res = append(res, r)
		case "move":
			if unquote(l) == "nil" {
				res = append(res, Res{K: "nil"})
				lines = lines[1:]
				break
			}
			if len(lines) < 2 {
				return append(res, Res{K: "bad", Raw: l}), lines[1:]
			}
			if unquote(lines[1]) != "moved" {
				return append(res, Res{K: "bad", Raw: lines[1]}), lines[2:]
			}
			res = append(res, parseVal(l))
			lines = lines[2:]
		case "panic":
			return append(res, Res{K: "bad", Raw: "log after panic: " + l}), lines
		}
	}
	return res, lines
}

// error classes = constructors of `serr` in C22/Model.v
func classify(err error) string {
	if err == nil {
		return ""
	}
	var ow *interpreter.OverwriteError
	var tm *interpreter.StoredValueTypeMismatchError
	var pe *stdlib.PanicError
	var ce *interpreter.ConditionError
	var ae *stdlib.AssertionError
	switch {
	case goerrors.As(err, &ow):
		return "EOverwrite"
	case goerrors.As(err, &tm):
		return "EMismatch"
	case goerrors.As(err, &pe):
		return "EPanic"
	case goerrors.As(err, &ce), goerrors.As(err, &ae):
		return "ECond"
	}
	return "ECrashed"
}

// ------------------------------------------------------------------------------------------
// independent oracle: a plain map with working copy

type key struct{ a, p int }
type entry struct {
	v int64
	d string
}
type oracle struct {
	committed map[key]entry
	cur       map[key]entry
}

func newOracle() *oracle { return &oracle{committed: map[key]entry{}} }
func (o *oracle) begin() {
	o.cur = map[key]entry{}
	for k, v := range o.committed {
		o.cur[k] = v
	}
}
func (o *oracle) commit() { o.committed = o.cur }

func (o *oracle) dom(a int) []int {
	var ps []int
	for k := range o.cur {
		if k.a == a {
			ps = append(ps, k.p)
		}
	}
	sort.Ints(ps)
	return ps
}

// apply returns the required result, or the required error class
func (o *oracle) apply(op Op) (Res, string) {
	k := key{op.A, op.P}
	e, has := o.cur[k]
	switch op.K {
	case "save":
		if has {
			return Res{}, "EOverwrite"
		}
		o.cur[k] = entry{op.V, op.D}
		return Res{K: "unit"}, ""
	case "load", "copy", "borrow":
		if !has {
			return Res{K: "nil"}, ""
		}
		if !sub(e.d, op.T) {
			return Res{}, "EMismatch"
		}
		if op.K == "load" {
			delete(o.cur, k)
		}
		if op.K == "borrow" {
			return Res{K: "val", V: e.v, D: e.d}, ""
		}
		return Res{K: "val", V: e.v, D: box(op.T, e.d)}, ""
	case "check":
		return Res{K: "bool", B: has && sub(e.d, op.T)}, ""
	case "type":
		if !has {
			return Res{K: "nil"}, ""
		}
		return Res{K: "ty", D: e.d}, ""
	case "paths":
		return Res{K: "paths", Paths: o.dom(op.A)}, ""
	case "foreach":
		r := Res{K: "visited"}
		for _, p := range o.dom(op.A) {
			r.Visited = append(r.Visited, [2]string{fmt.Sprint(p), o.cur[key{op.A, p}].d})
		}
		return r, ""
	case "move":
		if !has {
			return Res{K: "nil"}, ""
		}
		if !sub(e.d, op.T) {
			return Res{}, "EMismatch"
		}
		delete(o.cur, k)
		k2 := key{op.A2, op.P2}
		if _, occ := o.cur[k2]; occ {
			return Res{}, "EOverwrite"
		}
		o.cur[k2] = entry{e.v, box(op.T, e.d)}
		return Res{K: "val", V: e.v, D: box(op.T, e.d)}, ""
	case "describe":
		if !has {
			return Res{K: "nil"}, ""
		}
		return Res{K: "val", V: e.v, D: e.d}, ""
	case "assert":
		if !op.B {
			return Res{}, "ECond"
		}
		return Res{K: "unit"}, ""
	case "panic":
		return Res{}, "EPanic"
	}
	panic(op.K)
}

// agrees: does the observed result satisfy the required one (enumerations up to order;
// forEachStored stopped by its callback must have visited max(1,n) distinct stored entries)?
func agrees(op Op, want, got Res) bool {
	if got.K != want.K {
		return false
	}
	switch want.K {
	case "unit", "nil":
		return true
	case "val":
		if op.K == "borrow" && isOptD(want.D) {
			return got.D == want.D // payload not observable through a reference to an optional
		}
		return got.V == want.V && got.D == want.D
	case "bool":
		return got.B == want.B
	case "ty":
		return got.D == want.D
	case "paths":
		g := append([]int{}, got.Paths...)
		sort.Ints(g)
		return fmt.Sprint(g) == fmt.Sprint(append([]int{}, want.Paths...))
	case "visited":
		n := op.N
		if n < 1 {
			n = 1
		}
		if n > len(want.Visited) {
			n = len(want.Visited)
		}
		if len(got.Visited) != n {
			return false
		}
		seen := map[string]bool{}
		for _, v := range got.Visited {
			if seen[v[0]] {
				return false
			}
			seen[v[0]] = true
			ok := false
			for _, w := range want.Visited {
				if w == v {
					ok = true
				}
			}
			if !ok {
				return false
			}
		}
		return true
	}
	return false
}

// ------------------------------------------------------------------------------------------
// generation

type gen struct {
	rng  *lib.Rng
	or   *oracle // used only to bias choices towards occupied/empty slots and related types
	bulk int     // account holding the bulk paths p100..p179 (0 = none): its storage map spans several slabs
}

const bulkBase, bulkN = 100, 80

func (g *gen) relatedT(d string, allowRes, allowOpt bool) string {
	var c []string
	for _, t := range stys {
		if sub(d, t) && (allowRes || !isResT(t)) && (allowOpt || !isOptT(t)) {
			c = append(c, t)
		}
	}
	if len(c) == 0 {
		return "TAnyStruct"
	}
	return lib.Pick(g.rng, c)
}

func (g *gen) anyT(allowRes, allowOpt bool) string {
	for {
		t := lib.Pick(g.rng, stys)
		if (allowRes || !isResT(t)) && (allowOpt || !isOptT(t)) {
			return t
		}
	}
}

func (g *gen) slot(wantOccupied bool) (int, int) {
	// try a few times to find a slot with the wanted occupancy in the oracle's working map
	a, p := 0, 0
	if g.bulk != 0 && g.rng.Chance(1, 8) {
		return g.bulk, bulkBase + g.rng.Intn(bulkN)
	}
	for i := 0; i < 6; i++ {
		a, p = 1+g.rng.Intn(nAccounts), g.rng.Intn(nPaths)
		_, has := g.or.cur[key{a, p}]
		if has == wantOccupied {
			break
		}
	}
	return a, p
}

func (g *gen) typeArg(a, p int, allowRes, allowOpt bool) string {
	if e, has := g.or.cur[key{a, p}]; has && g.rng.Chance(3, 5) {
		return g.relatedT(e.d, allowRes, allowOpt)
	}
	return g.anyT(allowRes, allowOpt)
}

func (g *gen) op() Op {
	r := g.rng
	switch k := r.Intn(100); {
	case k < 24:
		a, p := g.slot(r.Chance(1, 5))
		return Op{K: "save", A: a, P: p, V: int64(r.Intn(40)), D: lib.Pick(r, dtys)}
	case k < 40:
		a, p := g.slot(r.Chance(4, 5))
		return Op{K: "load", A: a, P: p, T: g.typeArg(a, p, true, true)}
	case k < 50:
		a, p := g.slot(r.Chance(4, 5))
		return Op{K: "copy", A: a, P: p, T: g.typeArg(a, p, false, true)}
	case k < 61:
		a, p := g.slot(r.Chance(4, 5))
		return Op{K: "borrow", A: a, P: p, T: g.typeArg(a, p, true, false)}
	case k < 70:
		a, p := g.slot(r.Chance(3, 4))
		return Op{K: "check", A: a, P: p, T: g.typeArg(a, p, true, true)}
	case k < 76:
		a, p := g.slot(r.Chance(3, 4))
		return Op{K: "type", A: a, P: p}
	case k < 81:
		return Op{K: "paths", A: 1 + r.Intn(nAccounts)}
	case k < 87:
		return Op{K: "foreach", A: 1 + r.Intn(nAccounts), N: lib.Pick(r, []int{0, 1, 2, 3, 4, 9})}
	case k < 96:
		a, p := g.slot(r.Chance(4, 5))
		a2, p2 := g.slot(r.Chance(1, 4))
		return Op{K: "move", A: a, P: p, T: g.typeArg(a, p, true, true), A2: a2, P2: p2}
	case k < 98:
		return Op{K: "assert", B: r.Chance(2, 3)}
	default:
		return Op{K: "panic"}
	}
}

// ops generates n operations, following them on the oracle so later choices see their effects;
// after the oracle predicts a failure a few more operations are generated (they must not run).
func (g *gen) ops(n int) (ops []Op, failed bool) {
	for i := 0; i < n; i++ {
		o := g.op()
		ops = append(ops, o)
		if _, e := g.or.apply(o); e != "" {
			failed = true
			for j := g.rng.Intn(3); j > 0; j-- {
				ops = append(ops, g.op())
			}
			return
		}
	}
	return
}

func (g *gen) tx() Tx {
	r := g.rng
	g.or.begin()
	if r.Chance(1, 4) {
		ops, _ := g.ops(1 + r.Intn(6))
		return Tx{Script: true, Prep: ops, Pre: true, Post: true}
	}
	t := Tx{Pre: !r.Chance(1, 12), Post: !r.Chance(1, 12)}
	var failed bool
	t.Prep, failed = g.ops(r.Intn(5))
	if r.Chance(1, 3) {
		// an enumeration as the transaction's very first storage access
		o := Op{K: "paths", A: 1 + r.Intn(nAccounts)}
		if r.Bool() {
			o = Op{K: "foreach", A: o.A, N: lib.Pick(r, []int{1, 2, 200})}
		}
		t.Prep = append([]Op{o}, t.Prep...)
	}
	if !failed && t.Pre {
		t.Exec, failed = g.ops(r.Intn(5))
	} else if r.Bool() {
		t.Exec, _ = g.ops(r.Intn(3))
	}
	if !failed && t.Pre && t.Post {
		g.or.commit()
	}
	return t
}

func reloadTx() Tx {
	// storagePaths of every account comes FIRST: a fresh Storage has loaded nothing yet, so the
	// enumeration must work on slabs that are still on the ledger (values in slabs of their own,
	// storage maps spanning several slabs); then a full forEachStored, then every slot
	var ops []Op
	for a := 1; a <= nAccounts; a++ {
		ops = append(ops, Op{K: "paths", A: a})
	}
	for a := 1; a <= nAccounts; a++ {
		ops = append(ops, Op{K: "foreach", A: a, N: 200})
	}
	for a := 1; a <= nAccounts; a++ {
		for p := 0; p < nPaths; p++ {
			ops = append(ops, Op{K: "describe", A: a, P: p})
		}
	}
	return Tx{Script: true, Prep: ops, Pre: true, Post: true, Reload: true}
}

func (g *gen) history() []Tx {
	g.or = newOracle()
	g.bulk = 0
	n := 4 + g.rng.Intn(9)
	bulkAt := -1
	if g.rng.Chance(1, 6) {
		// one account gets 80 more paths, so that its storage map no longer fits one slab
		n = 3 + g.rng.Intn(4)
		bulkAt = g.rng.Intn(2)
	}
	var h []Tx
	for i := 0; i < n; i++ {
		var t Tx
		if i == bulkAt {
			g.bulk = 1 + g.rng.Intn(nAccounts)
			g.or.begin()
			t = Tx{Pre: true, Post: true}
			for p := bulkBase; p < bulkBase+bulkN; p++ {
				o := Op{K: "save", A: g.bulk, P: p, V: int64(p % 40), D: "DInt"}
				if p%16 == 7 {
					o.D = "DStr" // a few of them large
					o.V = 3
				}
				g.or.apply(o)
				t.Prep = append(t.Prep, o)
			}
			g.or.commit()
		} else {
			t = g.tx()
		}
		h = append(h, t)
		// reload check: after every transaction (committed or aborted) and after half of the scripts
		if !t.Script || g.rng.Bool() {
			h = append(h, reloadTx())
		}
	}
	return h
}

// ------------------------------------------------------------------------------------------
// execution

type Observed struct {
	Res  []Res  `json:"res"`
	Err  string `json:"err,omitempty"`
	Text string `json:"text,omitempty"` // first line of the implementation's error
	Vm   bool   `json:"vm"`
}

func addr(i int) common.Address { return common.MustBytesToAddress([]byte{byte(i)}) }

func runTx(h *lib.Host, t Tx, vm bool) Observed {
	src := t.source()
	var out lib.Outcome
	if t.Script {
		out = h.RunScript(src, nil, vm)
	} else {
		out = h.RunTx(src, nil, []common.Address{addr(1), addr(2), addr(3)}, vm)
	}
	ob := Observed{Vm: vm, Res: []Res{}}
	if out.Panic != nil {
		ob.Err = "ECrashed"
		ob.Text = fmt.Sprintf("Go panic: %v", out.Panic)
	} else if out.Err != nil {
		ob.Err = classify(out.Err)
		if ob.Err == "ECrashed" {
			ob.Err = "ECrashed"
		}
		ob.Text = firstLines(out.Err.Error())
		if out.Class == "CheckerError" || out.Class == "ParseError" {
			ob.Err = "ECrashed"
			ob.Text = "generated program rejected: " + ob.Text
		}
	}
	lines := out.Logs
	if t.Script {
		ob.Res, lines = parseLogs(t.Prep, lines)
	} else {
		var r1, r2 []Res
		r1, lines = parseLogs(t.Prep, lines)
		ob.Res = append(ob.Res, r1...)
		if len(lines) > 0 && unquote(lines[0]) == "EXEC" {
			lines = lines[1:]
			ob.Res = append(ob.Res, Res{K: "unit"}) // the pre-condition held
			r2, lines = parseLogs(t.Exec, lines)
			ob.Res = append(ob.Res, r2...)
			if out.Err == nil && out.Panic == nil {
				ob.Res = append(ob.Res, Res{K: "unit"}) // the post-condition held
			}
		}
	}
	for _, l := range lines {
		ob.Res = append(ob.Res, Res{K: "bad", Raw: "unexpected log line: " + l})
	}
	return ob
}

func firstLines(s string) string {
	var keep []string
	for _, l := range strings.Split(s, "\n") {
		l = strings.TrimSpace(l)
		if strings.HasPrefix(l, "error:") || strings.HasPrefix(l, "Execution failed") {
			keep = append(keep, l)
		}
	}
	s = strings.Join(keep, " ")
	if len(s) > 300 {
		s = s[:300]
	}
	return s
}

type engineMode int

const (
	modeInterp engineMode = iota
	modeVM
	modeMixed
)

func (m engineMode) String() string { return [...]string{"interpreter", "vm", "mixed"}[m] }

// runHistory executes the history on a fresh chain
func runHistory(hist []Tx, mode engineMode, mix uint64) ([]Observed, error) {
	h := lib.NewHost()
	dep := h.Deploy(addr(1), "C", contractSrc, mode == modeVM)
	if dep.Err != nil || dep.Panic != nil {
		return nil, fmt.Errorf("contract deployment failed: %v %v", dep.Err, dep.Panic)
	}
	var obs []Observed
	for i, t := range hist {
		vm := mode == modeVM || (mode == modeMixed && (mix>>(uint(i)%64))&1 == 1)
		obs = append(obs, runTx(h, t, vm))
	}
	return obs, nil
}

// ------------------------------------------------------------------------------------------

func coqCase(hist []Tx, obs []Observed) string {
	var sb strings.Builder
	sb.WriteString("[")
	for i, t := range hist {
		if i > 0 {
			sb.WriteString(";\n  ")
		}
		ops := t.body()
		os := make([]string, len(ops))
		for j, o := range ops {
			os[j] = o.coq()
		}
		rs := make([]string, len(obs[i].Res))
		for j, r := range obs[i].Res {
			rs[j] = r.coq()
		}
		e := "None"
		if obs[i].Err != "" {
			e = "Some " + obs[i].Err
		}
		if t.Reload {
			fmt.Fprintf(&sb, "(RL, ([%s], %s))", strings.Join(rs, "; "), e)
		} else {
			fmt.Fprintf(&sb, "(T %v [%s], ([%s], %s))", t.Script, strings.Join(os, "; "), strings.Join(rs, "; "), e)
		}
	}
	sb.WriteString("]")
	return sb.String()
}

// oracleCheck replays the history on the Go oracle and reports the first disagreement
func oracleCheck(hist []Tx, obs []Observed) (string, string) {
	or := newOracle()
	for i, t := range hist {
		or.begin()
		ops := t.body()
		ob := obs[i]
		wantErr := ""
		n := 0
		for j, o := range ops {
			want, e := or.apply(o)
			if e != "" {
				wantErr = e
				break
			}
			n++
			if j >= len(ob.Res) {
				return "storage-op:" + o.K, fmt.Sprintf("item %d (vm=%v) op %d `%s`: required result %s but the program ended before it with error %q (%s)",
					i, ob.Vm, j, o.coq(), want, ob.Err, ob.Text)
			}
			if !agrees(o, want, ob.Res[j]) {
				return "storage-op:" + o.K, fmt.Sprintf("item %d (vm=%v) op %d `%s`: observed %s, required %s",
					i, ob.Vm, j, o.coq(), ob.Res[j], want)
			}
		}
		if len(ob.Res) != n || ob.Err != wantErr {
			what := "end"
			if n < len(ops) {
				what = ops[n].K
			}
			return "storage-outcome:" + what, fmt.Sprintf("item %d (vm=%v): observed %d results and error %q (%s); required %d results and error %q",
				i, ob.Vm, len(ob.Res), ob.Err, ob.Text, n, wantErr)
		}
		if wantErr == "" && !t.Script {
			or.commit()
		}
	}
	return "", ""
}

func nontrivial(hist []Tx, obs []Observed) bool {
	aborts, commits, mism := 0, 0, 0
	for i, t := range hist {
		if t.Reload {
			continue
		}
		switch {
		case obs[i].Err != "" && len(obs[i].Res) > 0:
			aborts++
		case obs[i].Err == "" && !t.Script:
			commits++
		}
		if obs[i].Err == "EMismatch" {
			mism++
		}
	}
	return aborts > 0 && commits > 1
}

func loadCorpus(dir string) [][]Tx {
	var out [][]Tx
	if dir == "" {
		return nil
	}
	files, _ := filepath.Glob(filepath.Join(dir, "*.json"))
	sort.Strings(files)
	for _, f := range files {
		b, err := os.ReadFile(f)
		if err != nil {
			continue
		}
		var h []Tx
		if err := json.Unmarshal(b, &h); err != nil {
			fmt.Fprintln(os.Stderr, "bad corpus file", f, err)
			os.Exit(2)
		}
		// corpus files hold the transactions only; add the reload observation after each
		var full []Tx
		for _, t := range h {
			full = append(full, t, reloadTx())
		}
		out = append(out, full)
	}
	return out
}

func main() {
	flag.Parse()
	if *prop != "C22" {
		fmt.Fprintln(os.Stderr, "unknown prop", *prop)
		os.Exit(2)
	}
	sum := &lib.Summary{}
	rng := lib.NewRng(*seed)
	cw := &lib.CaseWriter{
		Dir: *dir, Prefix: "cases_C22",
		Header:   "From CV Require Import C22.Cases.",
		ElemType: "list obs_tx",
		CheckFn:  "check_case",
		PerFile:  8,
	}
	nhist := 40
	if *tier == "thorough" {
		nhist = 1500
		cw.PerFile = 20
	}
	sum.Rule = "one case = one history of 4-12 transactions/scripts (each followed by an observation script reading all 12 slots and " +
		"storagePaths of the 3 accounts) over 3 accounts x 4 storage paths, values of 9 stored types, 14 type arguments (exact, super-, sub-, " +
		"unrelated, optional, interface, top types); operations save/load/copy/borrow/check/type/storagePaths/forEachStored/move, " +
		"aborts by panic, assert, pre-/post-condition, overwrite and type mismatch; executed on a fresh chain with the interpreter and with the VM " +
		"(and mixed per transaction); every logged result is compared with a Go plain-map oracle and with the Coq code-shaped model. " +
		"non-trivial = history with at least one transaction aborted after producing results and at least two committed transactions; " +
		"distinct = distinct operation lists"
	g := &gen{rng: rng}
	distinct := map[string]bool{}
	errKinds := map[string]int{}

	runOne := func(hist []Tx, label string) {
		var base []Observed
		for _, mode := range []engineMode{modeInterp, modeVM, modeMixed} {
			if mode == modeMixed && label != "corpus" && rng.Intn(3) != 0 {
				continue
			}
			obs, err := runHistory(hist, mode, rng.U64())
			if err != nil {
				sum.Fail("setup", err.Error(), map[string]any{"mode": mode.String()})
				return
			}
			for i, o := range obs {
				sum.Evaluations += len(o.Res)
				sum.Count("engine " + map[bool]string{false: "interpreter", true: "vm"}[o.Vm])
				if !hist[i].Reload {
					if o.Err != "" {
						errKinds[o.Err]++
						sum.Count("abort " + o.Err)
					} else if hist[i].Script {
						sum.Count("script ok")
					} else {
						sum.Count("tx committed")
					}
				}
			}
			replay := func() map[string]any {
				srcs := make([]string, len(hist))
				for i, t := range hist {
					srcs[i] = t.source()
				}
				return map[string]any{"mode": mode.String(), "history": hist, "observed": obs, "sources": srcs,
					"note": "run each source in order on a fresh chain with contract C (harness/c22/contract.go) deployed at 0x1, signers 0x1,0x2,0x3"}
			}
			if k, what := oracleCheck(hist, obs); k != "" {
				sum.Fail(k, what, replay())
			}
			same := base != nil && sameObserved(base, obs)
			if base == nil {
				base = obs
			}
			if !same {
				// (identical observations of another engine are covered by the first case)
				cw.Add(coqCase(hist, obs), map[string]any{"mode": mode.String(), "label": label, "history": hist, "observed": obs})
			}
			if mode == modeInterp {
				sig := fmt.Sprint(hist)
				if nontrivial(hist, obs) && !distinct[sig] {
					distinct[sig] = true
					sum.DistinctNontrivial++
				}
				if len(sum.Samples) < 3 {
					sum.Sample(map[string]any{"history": hist[:min(4, len(hist))], "observed": obs[:min(4, len(obs))]})
				}
			}
		}
		for _, t := range hist {
			for _, o := range t.body() {
				if !t.Reload {
					sum.Count("op " + o.K)
				}
			}
		}
	}

	for _, h := range loadCorpus(*corpus) {
		runOne(h, "corpus")
	}
	for i := 0; i < nhist; i++ {
		runOne(g.history(), "generated")
	}
	cw.Close()
	sum.CaseFiles = cw.Files
	sum.Write(*dir)
}

func sameObserved(a, b []Observed) bool {
	if len(a) != len(b) {
		return false
	}
	for i := range a {
		if a[i].Err != b[i].Err || fmt.Sprint(a[i].Res) != fmt.Sprint(b[i].Res) {
			return false
		}
	}
	return true
}
