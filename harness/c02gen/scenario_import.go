package c02gen

import (
	"fmt"
	"sort"
	"strings"

	"cvh/lib"

	"github.com/onflow/cadence/common"
)

// Deterministic two-contract, cross-transaction scenario, run on every `./check C02`.
//
// A resource of contract Item (declares the destruction event) is nested in a resource of
// contract Holder (declares it too, does not import Item) and saved. A later transaction loads
// the outer resource and destroys it. Variant "not-imported": that transaction imports only
// Holder; variant "control": it imports both. In every variant every created resource must be
// announced by exactly one ResourceDestroyed event (all types here declare the event and
// storage is empty afterwards) - checked on the real observations alone, no model involved.

const scItem = `
access(all) contract Item {
    access(all) event Made(uuid: UInt64)
    access(all) resource NFT {
        access(all) event ResourceDestroyed(uuid: UInt64 = self.uuid, id: Int = self.id)
        access(all) let id: Int
        init(_ id: Int) { self.id = id }
    }
    access(all) fun mk(_ id: Int): @NFT {
        let r <- create NFT(id)
        emit Made(uuid: r.uuid)
        return <- r
    }
}`

const scHolder = `
access(all) contract Holder {
    access(all) event Made(uuid: UInt64)
    access(all) resource Box {
        access(all) event ResourceDestroyed(uuid: UInt64 = self.uuid)
        access(all) var content: @[AnyResource]
        access(all) var extra: @AnyResource?
        init() {
            self.content <- []
            self.extra <- nil
        }
        access(all) fun put(_ r: @AnyResource) { self.content.append(<-r) }
        access(all) fun putExtra(_ r: @AnyResource) { self.extra <-! r }
    }
    access(all) fun mk(): @Box {
        let r <- create Box()
        emit Made(uuid: r.uuid)
        return <- r
    }
}`

const scTxStore = `
import Item from 0x1
import Holder from 0x1
transaction {
  prepare(acct: auth(Storage) &Account) {
    let inner <- Holder.mk()
    inner.put(<-Item.mk(8))
    let b <- Holder.mk()
    b.put(<-Item.mk(7))
    b.put(<-inner)
    b.putExtra(<-Item.mk(9))
    acct.storage.save(<-b, to: /storage/box)
  }
}`

const scDestroyBody = `
transaction {
  prepare(acct: auth(Storage) &Account) {
    let b <- acct.storage.load<@Holder.Box>(from: /storage/box)!
    destroy b
  }
}`

const scCount = `
access(all) fun main(): Int {
    return getAuthAccount<auth(Storage) &Account>(0x1).storage.storagePaths.length
}`

const scTxStoreArray = `
import Item from 0x1
transaction {
  prepare(acct: auth(Storage) &Account) {
    let a: @[AnyResource] <- [<-Item.mk(1), <-Item.mk(2), <-Item.mk(3)]
    acct.storage.save(<-a, to: /storage/arr)
  }
}`

const scDestroyArrayBody = `
transaction {
  prepare(acct: auth(Storage) &Account) {
    let a <- acct.storage.load<@[AnyResource]>(from: /storage/arr)!
    destroy a
  }
}`

const KeyArrayNotImported = "destroy-event-missing:array-element-type-not-imported:interpreter"

const KeyNotImported = "destroy-event-missing:nested-type-not-imported:interpreter"

func RunImportScenario(sum *lib.Summary) {
	addr := common.MustBytesToAddress([]byte{1})
	variants := []struct{ name, imports string }{
		{"not-imported", "import Holder from 0x1\n"},
		{"control", "import Item from 0x1\nimport Holder from 0x1\n"},
		// a stored array of resources (no enclosing resource), destroyed by a transaction that
		// imports nothing / imports the elements' contract
		{"array-not-imported", ""},
		{"array-control", "import Item from 0x1\n"},
	}
	for _, v := range variants {
		for _, vm := range []bool{false, true} {
			engine := "interpreter"
			if vm {
				engine = "vm"
			}
			h := lib.NewHost()
			txs := []string{scTxStore, v.imports + scDestroyBody}
			if strings.HasPrefix(v.name, "array") {
				txs = []string{scTxStoreArray, v.imports + scDestroyArrayBody}
			}
			replay := map[string]any{"engine": engine, "variant": v.name,
				"contracts": map[string]string{"Item": scItem, "Holder": scHolder}, "transactions": txs,
				"how_to_replay": "deploy Item and Holder at 0x1 on lib.Host, run the transactions in order signed by 0x1, UseVM=" + fmt.Sprint(vm)}
			fail := func(key, what string) { sum.Fail(key, engine+", variant "+v.name+": "+what, replay) }
			if o := h.Deploy(addr, "Item", scItem, vm); o.Err != nil || o.Panic != nil {
				fail("harness:deploy", fmt.Sprint(o.Err, o.Panic))
				continue
			}
			if o := h.Deploy(addr, "Holder", scHolder, vm); o.Err != nil || o.Panic != nil {
				fail("harness:deploy", fmt.Sprint(o.Err, o.Panic))
				continue
			}
			u0 := h.UUID
			created := map[int64]string{} // uuid -> type
			destroyed := map[int64]int{}
			ok := true
			for i, src := range txs {
				o := h.RunTx(src, nil, []common.Address{addr}, vm)
				sum.Evaluations++
				if o.Err != nil || o.Panic != nil {
					fail("scenario-import:unexpected-failure:"+engine, fmt.Sprintf("transaction %d failed: %v %v", i, o.Err, o.Panic))
					ok = false
					break
				}
				for _, ev := range o.Events {
					id := ev.EventType.ID()
					u := toInt(eventField(ev, "uuid"))
					switch {
					case strings.HasSuffix(id, ".Made"):
						created[u] = strings.TrimSuffix(id[strings.Index(id, "1.")+2:], ".Made")
					case strings.HasSuffix(id, ".ResourceDestroyed"):
						destroyed[u]++
					}
				}
			}
			if !ok {
				continue
			}
			sum.Count("import scenario " + v.name + " " + engine)
			if int64(len(created)) != int64(h.UUID-u0) {
				fail("scenario-import:uuids:"+engine, fmt.Sprintf("%d uuids generated, %d resources created", h.UUID-u0, len(created)))
			}
			o := h.RunScript(scCount, nil, vm)
			sum.Evaluations++
			if o.Err != nil || o.Value == nil || o.Value.String() != "0" {
				fail("scenario-import:storage-not-empty:"+engine, fmt.Sprintf("storage paths after destruction: %v %v", o.Value, o.Err))
			}
			// events exactly once: storage is empty, every type declares the event
			var missing, dup, spurious []string
			missingNested := true
			for u, t := range created {
				switch n := destroyed[u]; {
				case n == 0:
					missing = append(missing, fmt.Sprintf("%s(uuid %d)", t, u))
					if t != "Item" {
						missingNested = false
					}
				case n > 1:
					dup = append(dup, fmt.Sprintf("%s(uuid %d) x%d", t, u, n))
				}
			}
			for u := range destroyed {
				if _, ok := created[u]; !ok {
					spurious = append(spurious, fmt.Sprint(u))
				}
			}
			sort.Strings(missing)
			sort.Strings(dup)
			sort.Strings(spurious)
			if len(dup) > 0 || len(spurious) > 0 {
				fail("destroy-event-extra:"+v.name+":"+engine, fmt.Sprintf("duplicate destruction events %v, events for unknown uuids %v", dup, spurious))
			}
			if len(missing) > 0 {
				key := "destroy-event-missing:" + v.name + ":" + engine
				// the known defect, and nothing else: interpreter, destroying transaction does not
				// import the nested resources' contract, and only events of Item.NFT are missing (which of
				// them depends on whether something else made the interpreter load the Item program before)
				if v.name == "not-imported" && !vm && missingNested {
					key = KeyNotImported
				}
				if v.name == "array-not-imported" && !vm && missingNested {
					key = KeyArrayNotImported
				}
				fail(key, fmt.Sprintf("%d resources were created and all destroyed (storage is empty), but no ResourceDestroyed event was emitted for %v",
					len(created), missing))
			}
		}
	}
}
