package c02gen

import (
	"fmt"
	"strings"

	"cvh/lib"
)

// Program generator: emits, statement by statement, Cadence source and the corresponding
// commands of the Coq model (coq/theories/C02/Model.v). Variables are single-assignment
// (every statement that yields a resource declares a fresh variable), so that the checker's
// static linearity analysis is satisfied by construction and everything interesting is
// decided at run time. References obtained from variables are passed through C.idr / C.idn
// so that the checker's variable-rooted static invalidation analysis does not pre-empt the
// run-time invalidation check that C04 is about.

type varInfo struct {
	idx int64
	opt bool // declared @{C.I}? (may hold nil); otherwise @{C.I}
}

type refInfo struct {
	idx  int64
	opt  bool // declared optional reference
	conc bool // static type &C.R / &C.R? (otherwise &{C.I} / &{C.I}?, or a borrow's type)
	att  bool // static type &C.A: reference to the attachment of the target (only the att* statements use it)
}

// a non-resource value holding a copy of a reference: struct field, optional struct, array
// element or dictionary value. In the model the stored reference is a reference variable (idx).
type holderInfo struct {
	idx  int64
	kind string // "struct", "optstruct", "array", "dict"
}

func hname(i int64) string { return fmt.Sprintf("h%d", i) }

// Stmt is one generated Cadence statement with its model commands.
type Stmt struct {
	Src     string
	Cmds    []Cmd
	Kind    string
	SwapIdx bool // `x.f[i] <-> y` on a resource field: known defect of the tree under test
}

type Tx struct {
	Stmts []Stmt
	// Raw, if set, is the whole transaction source (hand-written corpus transactions whose shape
	// the statement list cannot express, e.g. transaction fields); Stmts then only carry the commands
	Raw string
}

func (t *Tx) Cmds() []Cmd {
	var out []Cmd
	for _, s := range t.Stmts {
		out = append(out, s.Cmds...)
	}
	return out
}

func (t *Tx) Source() string {
	if t.Raw != "" {
		return t.Raw
	}
	var b strings.Builder
	b.WriteString("import C from 0x1\ntransaction {\n  prepare(acct: auth(Storage) &Account) {\n")
	for _, s := range t.Stmts {
		for _, l := range strings.Split(s.Src, "\n") {
			b.WriteString("    " + l + "\n")
		}
	}
	b.WriteString("  }\n}\n")
	return b.String()
}

type History struct {
	Txs     []*Tx
	SwapIdx bool
	Isolate bool // run in a child process (see runIsolated)
	// failures of this (corpus) history in engine KnownEngine are attributed to this known-finding key
	KnownKey    string
	KnownEngine string
	Kinds   map[string]int
	// features measured on the model run, used for the non-triviality rule
	MaxDepth    int
	InvalidUses int
	Destroyed   int
	Stored      int
}

type Weights struct {
	Create, Move, Nest, Unnest, Destroy, Storage, Ref, Use, Mut, SwapIdx int
	FailTxPct                                                            int // percent of transactions that end in a deliberately failing statement
	InvalidPct                                                           int // among those, percent whose failure is a use of an invalidated reference
}

var WeightsC02 = Weights{Create: 16, Move: 16, Nest: 22, Unnest: 10, Destroy: 5, Storage: 10, Ref: 7, Use: 7, Mut: 3, SwapIdx: 0, FailTxPct: 28, InvalidPct: 25}
var WeightsC04 = Weights{Create: 12, Move: 16, Nest: 14, Unnest: 9, Destroy: 4, Storage: 8, Ref: 18, Use: 14, Mut: 5, SwapIdx: 0, FailTxPct: 40, InvalidPct: 70}

type Gen struct {
	rng   *lib.Rng
	w     Weights
	name  int64
	tag   int64
	vars  []*varInfo
	refs  []*refInfo
	hold  []*holderInfo
	st    *State
	p     *PState
	h     *History
	ended bool // a statement that fails at run time was emitted: the rest is never executed
	want  Rerr // the failure the statement being built should provoke ("" = must succeed)
}

func NewGen(rng *lib.Rng, w Weights, next int64) *Gen {
	return &Gen{rng: rng, w: w, p: InitPState(next)}
}

func (g *Gen) fresh() int64 { g.name++; return g.name }
func (g *Gen) newTag() int64 { g.tag++; return g.tag }

func vname(i int64) string { return fmt.Sprintf("x%d", i) }
func rname(i int64) string { return fmt.Sprintf("r%d", i) }

func (g *Gen) pickVar(pred func(*varInfo) bool) *varInfo {
	var c []*varInfo
	for _, v := range g.vars {
		if pred(v) {
			c = append(c, v)
		}
	}
	if len(c) == 0 {
		return nil
	}
	return c[g.rng.Intn(len(c))]
}

func (g *Gen) pickAttRef() *refInfo {
	var c []*refInfo
	for _, r := range g.refs {
		if !r.att {
			continue
		}
		v, _ := g.st.Ref(r.idx)
		if _, e := g.st.resolveRv(v); e == g.want {
			c = append(c, r)
		}
	}
	if len(c) == 0 {
		return nil
	}
	return c[g.rng.Intn(len(c))]
}

func (g *Gen) pickRef(pred func(*refInfo) bool) *refInfo {
	var c []*refInfo
	for _, v := range g.refs {
		if !v.att && pred(v) {
			c = append(c, v)
		}
	}
	if len(c) == 0 {
		return nil
	}
	return c[g.rng.Intn(len(c))]
}

func (g *Gen) kill(v *varInfo) {
	for i, x := range g.vars {
		if x == v {
			g.vars = append(g.vars[:i:i], g.vars[i+1:]...)
			return
		}
	}
}

func (g *Gen) declare(opt bool) *varInfo {
	v := &varInfo{idx: g.fresh(), opt: opt}
	g.vars = append(g.vars, v)
	return v
}

func (g *Gen) full(v *varInfo) bool { return g.st.Var(v.idx) != nil }

func ty(opt bool) string {
	if opt {
		return "@{C.I}?"
	}
	return "@{C.I}"
}

// moved value expression of a variable, when a non-optional value is required
func (g *Gen) arg(v *varInfo) (string, bool) {
	if v.opt {
		return "<-" + vname(v.idx) + "!", true
	}
	return "<-" + vname(v.idx), false
}

func pvar(i int64) Place                 { return Place{Kind: PVar, X: i} }
func psto(p int64) Place                 { return Place{Kind: PSto, X: p} }
func pchild(b Base, s Slot) Place        { return Place{Kind: PChild, B: b, S: s} }
func splace(pl Place, req bool) Src      { return Src{Kind: SPlace, Pl: pl, Req: req} }
func xfer(d Place, s Src) Cmd            { return Cmd{Op: CXfer, D: d, S: s} }
func swap3(a, b Place, tmp int64) []Cmd {
	return []Cmd{xfer(pvar(tmp), splace(a, false)), xfer(a, splace(b, false)), xfer(b, splace(pvar(tmp), false))}
}

// a base: an owned non-optional variable or a non-optional reference
type baseSel struct {
	b    Base
	expr string // Cadence expression of the receiver
	ref  bool
	con  bool  // the contract: operations are contract functions; from outside, its resource fields read as references
	res  *Rsrc // what it designates now (nil if the reference is dead etc.)
}

func (g *Gen) pickBase() *baseSel {
	var c []*baseSel
	if g.want != EInvalidRef && g.want != EDeref {
		for _, v := range g.vars {
			if !v.opt {
				c = append(c, &baseSel{b: Base{X: v.idx}, expr: vname(v.idx), res: g.st.Var(v.idx)})
			}
		}
		// the contract owns resources too (twice: it is always there, variables come and go)
		con := &baseSel{b: Base{Sto: true, X: ContractPath}, expr: "C", ref: true, con: true, res: g.st.Stored(ContractPath)}
		c = append(c, con, con)
	}
	for _, r := range g.refs {
		if r.opt || r.att {
			continue
		}
		rv, _ := g.st.Ref(r.idx)
		res, e := g.st.resolveRv(rv)
		switch g.want {
		case EInvalidRef, EDeref:
			if e != g.want {
				continue
			}
		default:
			if e != ENone {
				continue
			}
		}
		c = append(c, &baseSel{b: Base{Ref: true, X: r.idx}, expr: rname(r.idx), ref: true, res: res})
	}
	if len(c) == 0 {
		return nil
	}
	return c[g.rng.Intn(len(c))]
}

func (g *Gen) arrIndex(r *Rsrc, forInsert bool) (int, bool) {
	n := 0
	if r != nil {
		n = r.ArrLen()
	}
	if forInsert {
		n++
	}
	if g.want == EIndex {
		return n + g.rng.Intn(2), true // out of range
	}
	if n == 0 {
		return 0, false
	}
	return g.rng.Intn(n), true
}

func (g *Gen) dictKey(r *Rsrc, wantPresent bool) int64 {
	if r != nil {
		ks := r.DictKeys()
		if wantPresent && len(ks) > 0 && g.rng.Chance(4, 5) {
			return ks[g.rng.Intn(len(ks))]
		}
	}
	return int64(g.rng.Intn(4))
}

// candidate statement builders; each returns nil if not applicable in the current static state
func (g *Gen) build(kind string) *Stmt {
	rng := g.rng
	switch kind {
	case "create":
		opt := rng.Chance(1, 4)
		ev := rng.Chance(3, 5)
		t := g.newTag()
		v := g.declare(opt)
		mk := "mkQ"
		if ev {
			mk = "mkR"
		}
		return &Stmt{Kind: kind,
			Src:  fmt.Sprintf("var %s: %s <- C.%s(%d)", vname(v.idx), ty(opt), mk, t),
			Cmds: []Cmd{xfer(pvar(v.idx), Src{Kind: SNew, Ev: ev, Tag: t})}}
	case "createNil":
		v := g.declare(true)
		return &Stmt{Kind: kind,
			Src:  fmt.Sprintf("var %s: @{C.I}? <- nil", vname(v.idx)),
			Cmds: []Cmd{xfer(pvar(v.idx), Src{Kind: SNil})}}
	case "moveVar":
		s := g.pickVar(func(v *varInfo) bool { return true })
		if s == nil {
			return nil
		}
		g.kill(s)
		d := g.declare(s.opt || rng.Chance(1, 3))
		return &Stmt{Kind: kind,
			Src:  fmt.Sprintf("var %s: %s <- %s", vname(d.idx), ty(d.opt), vname(s.idx)),
			Cmds: []Cmd{xfer(pvar(d.idx), splace(pvar(s.idx), false))}}
	case "unwrap":
		s := g.pickVar(func(v *varInfo) bool { return v.opt && g.full(v) == (g.want != EForceNil) })
		if s == nil {
			return nil
		}
		g.kill(s)
		d := g.declare(false)
		return &Stmt{Kind: kind,
			Src:  fmt.Sprintf("var %s: @{C.I} <- %s!", vname(d.idx), vname(s.idx)),
			Cmds: []Cmd{xfer(pvar(d.idx), splace(pvar(s.idx), true))}}
	case "forceAssign":
		t := g.pickVar(func(v *varInfo) bool { return v.opt && g.full(v) == (g.want == EForceAssign) })
		if t == nil {
			return nil
		}
		s := g.pickVar(func(v *varInfo) bool { return v != t })
		if s == nil {
			return nil
		}
		g.kill(s)
		return &Stmt{Kind: kind,
			Src:  fmt.Sprintf("%s <-! %s", vname(t.idx), vname(s.idx)),
			Cmds: []Cmd{xfer(pvar(t.idx), splace(pvar(s.idx), false))}}
	case "swapVars":
		a := g.pickVar(func(v *varInfo) bool { return true })
		if a == nil {
			return nil
		}
		b := g.pickVar(func(v *varInfo) bool { return v != a && v.opt == a.opt })
		if b == nil {
			return nil
		}
		return &Stmt{Kind: kind,
			Src:  fmt.Sprintf("%s <-> %s", vname(a.idx), vname(b.idx)),
			Cmds: swap3(pvar(a.idx), pvar(b.idx), g.fresh())}
	case "second":
		t := g.pickVar(func(v *varInfo) bool { return true })
		if t == nil {
			return nil
		}
		useNil := t.opt && rng.Chance(1, 3)
		var s *varInfo
		if !useNil {
			s = g.pickVar(func(v *varInfo) bool { return v != t && (t.opt || !v.opt) })
			if s == nil {
				if !t.opt {
					return nil
				}
				useNil = true
			}
		}
		d := g.declare(t.opt)
		if useNil {
			return &Stmt{Kind: "secondNil",
				Src:  fmt.Sprintf("var %s: %s <- %s <- nil", vname(d.idx), ty(d.opt), vname(t.idx)),
				Cmds: []Cmd{xfer(pvar(d.idx), splace(pvar(t.idx), false))}}
		}
		g.kill(s)
		return &Stmt{Kind: kind,
			Src: fmt.Sprintf("var %s: %s <- %s <- %s", vname(d.idx), ty(d.opt), vname(t.idx), vname(s.idx)),
			Cmds: []Cmd{xfer(pvar(d.idx), splace(pvar(t.idx), false)),
				xfer(pvar(t.idx), splace(pvar(s.idx), false))}}
	case "destroy":
		s := g.pickVar(func(v *varInfo) bool { return true })
		if s == nil {
			return nil
		}
		g.kill(s)
		return &Stmt{Kind: kind, Src: "destroy " + vname(s.idx), Cmds: []Cmd{{Op: CDestroy, X: s.idx}}}
	case "castRes":
		s := g.pickVar(func(v *varInfo) bool { return !v.opt })
		if s == nil {
			return nil
		}
		r := g.st.Var(s.idx)
		t := TR
		if r != nil && (r.Ev == (g.want == EForceCast)) {
			t = TQ
		}
		g.kill(s)
		d := g.declare(false)
		tn := map[Rty]string{TR: "C.R", TQ: "C.Q"}[t]
		return &Stmt{Kind: kind,
			Src:  fmt.Sprintf("var %s: @{C.I} <- %s as! @%s", vname(d.idx), vname(s.idx), tn),
			Cmds: []Cmd{xfer(pvar(d.idx), Src{Kind: SPlace, Pl: pvar(s.idx), Cast: &t})}}

	// ---- nesting (owned access: direct statements; through a reference: methods)
	case "arrAppend", "arrInsert", "forceOpt":
		b := g.pickBase()
		if b == nil {
			return nil
		}
		s := g.pickVar(func(v *varInfo) bool { return (b.ref || v.idx != b.b.X) && g.full(v) == (g.want != EForceNil) })
		if s == nil {
			return nil
		}
		g.kill(s)
		a, req := g.arg(s)
		var slot Slot
		var src string
		switch kind {
		case "arrAppend":
			slot = Slot{Kind: SlArrEnd}
			if b.ref {
				src = fmt.Sprintf("%s.arrAppend(%s)", b.expr, a)
			} else {
				src = fmt.Sprintf("%s.arr.append(%s)", b.expr, a)
			}
		case "arrInsert":
			i, _ := g.arrIndex(b.res, true)
			slot = Slot{Kind: SlArr, I: i}
			if b.ref {
				src = fmt.Sprintf("%s.arrInsert(%d, %s)", b.expr, slot.I, a)
			} else {
				src = fmt.Sprintf("%s.arr.insert(at: %d, %s)", b.expr, slot.I, a)
			}
		case "forceOpt":
			if b.res != nil && (b.res.peek(Slot{Kind: SlOpt}) != nil) != (g.want == EForceAssign) {
				return nil
			}
			slot = Slot{Kind: SlOpt}
			src = fmt.Sprintf("%s.forceOpt(%s)", b.expr, a)
		}
		return &Stmt{Kind: kind, Src: src, Cmds: []Cmd{xfer(pchild(b.b, slot), splace(pvar(s.idx), req))}}
	case "dictForce":
		b := g.pickBase()
		if b == nil || (b.ref && !b.con) {
			return nil
		}
		k := g.dictKey(b.res, g.want == EForceAssign)
		if b.res != nil && (b.res.peek(Slot{Kind: SlDict, K: k}) != nil) != (g.want == EForceAssign) {
			return nil
		}
		s := g.pickVar(func(v *varInfo) bool { return b.con || v.idx != b.b.X })
		if s == nil {
			return nil
		}
		g.kill(s)
		if b.con {
			return &Stmt{Kind: kind + ":contract",
				Src:  fmt.Sprintf("C.dictForce(%q, <-%s)", DictKey(k), vname(s.idx)),
				Cmds: []Cmd{xfer(pchild(b.b, Slot{Kind: SlDict, K: k}), splace(pvar(s.idx), false))}}
		}
		return &Stmt{Kind: kind,
			Src:  fmt.Sprintf("%s.dict[%q] <-! %s", b.expr, DictKey(k), vname(s.idx)),
			Cmds: []Cmd{xfer(pchild(b.b, Slot{Kind: SlDict, K: k}), splace(pvar(s.idx), false))}}
	case "dictInsert", "dictSecond", "swapOpt", "xchgOpt", "arrSecond":
		b := g.pickBase()
		if b == nil {
			return nil
		}
		if b.ref && kind == "dictSecond" {
			kind = "dictInsert"
		}
		needN := kind == "dictInsert" || kind == "arrSecond"
		s := g.pickVar(func(v *varInfo) bool {
			// through a reference the argument is unwrapped before the method body runs, while
			// the model takes the old value first: avoid `!` there so that only one failure
			// is possible per statement
			if b.ref && needN && v.opt {
				return false
			}
			return (b.ref || v.idx != b.b.X) && (!needN || g.full(v) == (g.want != EForceNil))
		})
		if s == nil {
			return nil
		}
		g.kill(s)
		var slot Slot
		var src string
		var dopt bool
		req := false
		a := "<-" + vname(s.idx)
		if needN {
			a, req = g.arg(s)
		}
		d := &varInfo{idx: g.fresh()}
		switch kind {
		case "dictInsert":
			slot = Slot{Kind: SlDict, K: g.dictKey(b.res, rng.Chance(1, 3))}
			dopt = true
			if b.ref {
				src = fmt.Sprintf("var %s: @{C.I}? <- %s.dictInsert(%q, %s)", vname(d.idx), b.expr, DictKey(slot.K), a)
			} else {
				src = fmt.Sprintf("var %s: @{C.I}? <- %s.dict.insert(key: %q, %s)", vname(d.idx), b.expr, DictKey(slot.K), a)
			}
		case "dictSecond":
			slot = Slot{Kind: SlDict, K: g.dictKey(b.res, rng.Chance(1, 3))}
			dopt = true
			src = fmt.Sprintf("var %s: @{C.I}? <- %s.dict[%q] <- %s", vname(d.idx), b.expr, DictKey(slot.K), vname(s.idx))
		case "swapOpt", "xchgOpt":
			slot = Slot{Kind: SlOpt}
			dopt = true
			src = fmt.Sprintf("var %s: @{C.I}? <- %s.%s(%s)", vname(d.idx), b.expr, kind, a)
		case "arrSecond":
			i, ok := g.arrIndex(b.res, false)
			if !ok {
				return nil
			}
			slot = Slot{Kind: SlArr, I: i}
			if b.ref {
				src = fmt.Sprintf("var %s: @{C.I} <- %s.arrSet(%d, %s)", vname(d.idx), b.expr, slot.I, a)
			} else {
				src = fmt.Sprintf("var %s: @{C.I} <- %s.arr[%d] <- %s", vname(d.idx), b.expr, slot.I, a)
			}
		}
		d.opt = dopt
		g.vars = append(g.vars, d)
		cmds := []Cmd{xfer(pvar(d.idx), splace(pchild(b.b, slot), false)),
			xfer(pchild(b.b, slot), splace(pvar(s.idx), req))}
		if b.ref {
			// a method call transfers its argument (invalidating references into it, possibly the
			// receiver itself) before the body takes the old value out and puts the new one in
			tmp := g.fresh()
			cmds = []Cmd{xfer(pvar(tmp), splace(pvar(s.idx), req)),
				xfer(pvar(d.idx), splace(pchild(b.b, slot), false)),
				xfer(pchild(b.b, slot), splace(pvar(tmp), false))}
		}
		return &Stmt{Kind: kind, Src: src, Cmds: cmds}

	// ---- un-nesting
	case "arrRemove", "dictRemove", "takeOpt":
		b := g.pickBase()
		if b == nil {
			return nil
		}
		d := &varInfo{idx: g.fresh()}
		var slot Slot
		var src string
		switch kind {
		case "arrRemove":
			i, ok := g.arrIndex(b.res, false)
			if !ok {
				return nil
			}
			slot = Slot{Kind: SlArr, I: i}
			if b.ref {
				src = fmt.Sprintf("var %s: @{C.I} <- %s.arrRemove(%d)", vname(d.idx), b.expr, slot.I)
			} else {
				src = fmt.Sprintf("var %s: @{C.I} <- %s.arr.remove(at: %d)", vname(d.idx), b.expr, slot.I)
			}
		case "dictRemove":
			slot = Slot{Kind: SlDict, K: g.dictKey(b.res, true)}
			d.opt = true
			if b.ref {
				src = fmt.Sprintf("var %s: @{C.I}? <- %s.dictRemove(%q)", vname(d.idx), b.expr, DictKey(slot.K))
			} else {
				src = fmt.Sprintf("var %s: @{C.I}? <- %s.dict.remove(key: %q)", vname(d.idx), b.expr, DictKey(slot.K))
			}
		case "takeOpt":
			slot = Slot{Kind: SlOpt}
			d.opt = true
			src = fmt.Sprintf("var %s: @{C.I}? <- %s.swapOpt(nil)", vname(d.idx), b.expr)
		}
		g.vars = append(g.vars, d)
		return &Stmt{Kind: kind, Src: src, Cmds: []Cmd{xfer(pvar(d.idx), splace(pchild(b.b, slot), false))}}

	// ---- the known defect: swap statement on an index expression of a resource-typed field
	case "swapIdxArr", "swapIdxDict":
		b := g.pickBase()
		if b == nil || b.res == nil || b.con {
			return nil
		}
		if kind == "swapIdxArr" {
			if b.res.ArrLen() == 0 {
				return nil
			}
			s := g.pickVar(func(v *varInfo) bool { return !v.opt && (b.ref || v.idx != b.b.X) })
			if s == nil {
				return nil
			}
			i := g.rng.Intn(b.res.ArrLen())
			slot := Slot{Kind: SlArr, I: i}
			if b.ref {
				g.kill(s)
				d := g.declare(false)
				return &Stmt{Kind: kind, SwapIdx: true,
					Src: fmt.Sprintf("var %s: @{C.I} <- %s.arrSwap(%d, <-%s)", vname(d.idx), b.expr, i, vname(s.idx)),
					Cmds: []Cmd{xfer(pvar(d.idx), splace(pchild(b.b, slot), false)),
						xfer(pchild(b.b, slot), splace(pvar(s.idx), false))}}
			}
			return &Stmt{Kind: kind, SwapIdx: true,
				Src:  fmt.Sprintf("%s.arr[%d] <-> %s", b.expr, i, vname(s.idx)),
				Cmds: swap3(pchild(b.b, slot), pvar(s.idx), g.fresh())}
		}
		s := g.pickVar(func(v *varInfo) bool { return v.opt && (b.ref || v.idx != b.b.X) })
		if s == nil {
			return nil
		}
		k := g.dictKey(b.res, true)
		slot := Slot{Kind: SlDict, K: k}
		if b.ref {
			g.kill(s)
			d := g.declare(true)
			return &Stmt{Kind: kind, SwapIdx: true,
				Src: fmt.Sprintf("var %s: @{C.I}? <- %s.dictSwap(%q, <-%s)", vname(d.idx), b.expr, DictKey(k), vname(s.idx)),
				Cmds: []Cmd{xfer(pvar(d.idx), splace(pchild(b.b, slot), false)),
					xfer(pchild(b.b, slot), splace(pvar(s.idx), false))}}
		}
		return &Stmt{Kind: kind, SwapIdx: true,
			Src:  fmt.Sprintf("%s.dict[%q] <-> %s", b.expr, DictKey(k), vname(s.idx)),
			Cmds: swap3(pchild(b.b, slot), pvar(s.idx), g.fresh())}

	case "setTag":
		b := g.pickBase()
		if b == nil || b.con {
			return nil
		}
		t := g.newTag()
		return &Stmt{Kind: kind, Src: fmt.Sprintf("%s.setTag(%d)", b.expr, t), Cmds: []Cmd{{Op: CSetTag, B: b.b, T: t}}}

	// ---- storage
	case "save":
		s := g.pickVar(func(v *varInfo) bool { return g.full(v) == (g.want != EForceNil) })
		if s == nil {
			return nil
		}
		p := int64(rng.Intn(4))
		if (g.st.Stored(p) != nil) != (g.want == EOverwrite) {
			return nil
		}
		g.kill(s)
		a, req := g.arg(s)
		return &Stmt{Kind: kind,
			Src:  fmt.Sprintf("acct.storage.save(%s, to: /storage/p%d)", a, p),
			Cmds: []Cmd{xfer(psto(p), splace(pvar(s.idx), req))}}
	case "load":
		p := int64(rng.Intn(4))
		if g.st.Stored(p) == nil && !rng.Chance(1, 6) {
			// prefer an occupied path
			for q := int64(0); q < 4; q++ {
				if g.st.Stored(q) != nil {
					p = q
				}
			}
			if g.st.Stored(p) == nil && !rng.Chance(1, 5) {
				return nil
			}
		}
		t := TI
		if x := g.st.Stored(p); x != nil && (rng.Chance(1, 3) || g.want == EStoredType) {
			t = TR
			if x.Ev == (g.want == EStoredType) {
				t = TQ
			}
		}
		d := g.declare(true)
		tn := map[Rty]string{TI: "{C.I}", TR: "C.R", TQ: "C.Q"}[t]
		return &Stmt{Kind: kind,
			Src:  fmt.Sprintf("var %s: @{C.I}? <- acct.storage.load<@%s>(from: /storage/p%d)", vname(d.idx), tn, p),
			Cmds: []Cmd{xfer(pvar(d.idx), Src{Kind: SPlace, Pl: psto(p), Cast: &t})}}

	// ---- references
	case "refVar":
		s := g.pickVar(func(v *varInfo) bool { return (g.full(v) || rng.Chance(1, 8)) && (!v.opt || rng.Chance(1, 2)) })
		if s == nil {
			return nil
		}
		r := &refInfo{idx: g.fresh(), opt: s.opt}
		g.refs = append(g.refs, r)
		src := fmt.Sprintf("let %s = C.idn(&%s as &{C.I})", rname(r.idx), vname(s.idx))
		if s.opt {
			src = fmt.Sprintf("let %s = C.idr(&%s as &{C.I}?)", rname(r.idx), vname(s.idx))
		}
		if x := g.st.Var(s.idx); !s.opt && x != nil && x.Ev && g.want == ENone && rng.Chance(1, 3) {
			// concretely typed reference (see refCast)
			tmp := g.fresh()
			r.conc = true
			return &Stmt{Kind: kind + "+cast",
				Src:  fmt.Sprintf("let %s = C.idn(&%s as &{C.I}) as! &C.R", rname(r.idx), vname(s.idx)),
				Cmds: []Cmd{{Op: CRefVar, R: tmp, X: s.idx}, {Op: CRefCast, R: r.idx, R0: tmp, Ty: TR, Forced: true}}}
		}
		return &Stmt{Kind: kind, Src: src, Cmds: []Cmd{{Op: CRefVar, R: r.idx, X: s.idx}}}
	case "refStep":
		b := g.pickBase()
		if b == nil {
			return nil
		}
		// prefer a step that finds something
		var slot Slot
		var opts []Slot
		if b.res != nil {
			if b.res.peek(Slot{Kind: SlOpt}) != nil {
				opts = append(opts, Slot{Kind: SlOpt})
			}
			for i := 0; i < b.res.ArrLen(); i++ {
				opts = append(opts, Slot{Kind: SlArr, I: i})
			}
			for _, k := range b.res.DictKeys() {
				opts = append(opts, Slot{Kind: SlDict, K: k})
			}
		}
		if g.want == EIndex {
			i, _ := g.arrIndex(b.res, false)
			slot = Slot{Kind: SlArr, I: i}
		} else if len(opts) > 0 && !rng.Chance(1, 10) {
			slot = opts[rng.Intn(len(opts))]
		} else if rng.Bool() {
			slot = Slot{Kind: SlOpt}
		} else {
			slot = Slot{Kind: SlDict, K: int64(rng.Intn(4))}
		}
		r := &refInfo{idx: g.fresh(), opt: slot.Kind != SlArr}
		g.refs = append(g.refs, r)
		var src string
		acc := map[int]string{SlOpt: ".opt", SlArr: fmt.Sprintf(".arr[%d]", slot.I), SlDict: fmt.Sprintf(".dict[%q]", DictKey(slot.K))}[slot.Kind]
		switch {
		case b.ref && r.opt:
			src = fmt.Sprintf("let %s = C.idr(%s%s)", rname(r.idx), b.expr, acc)
		case b.ref:
			src = fmt.Sprintf("let %s = C.idn(%s%s)", rname(r.idx), b.expr, acc)
		case r.opt:
			src = fmt.Sprintf("let %s = C.idr(&%s%s as &{C.I}?)", rname(r.idx), b.expr, acc)
		default:
			src = fmt.Sprintf("let %s = C.idn(&%s%s as &{C.I})", rname(r.idx), b.expr, acc)
		}
		if x := b.res; g.want == ENone && slot.Kind == SlArr && x != nil && x.peek(slot) != nil && x.peek(slot).Ev && rng.Chance(1, 2) {
			tmp := g.fresh()
			r.conc = true
			return &Stmt{Kind: kind + "+cast", Src: src + " as! &C.R",
				Cmds: []Cmd{{Op: CRefStep, R: tmp, B: b.b, Sl: slot}, {Op: CRefCast, R: r.idx, R0: tmp, Ty: TR, Forced: true}}}
		}
		return &Stmt{Kind: kind, Src: src, Cmds: []Cmd{{Op: CRefStep, R: r.idx, B: b.b, Sl: slot}}}
	case "refUnwrap":
		s := g.pickRef(func(r *refInfo) bool {
			if !r.opt {
				return false
			}
			v, _ := g.st.Ref(r.idx)
			switch g.want {
			case EForceNil:
				return v.Kind == RNil
			case EInvalidRef:
				return v.Kind == RDead
			}
			return v.Kind == REph || v.Kind == RSto
		})
		if s == nil {
			return nil
		}
		r := &refInfo{idx: g.fresh(), conc: s.conc}
		g.refs = append(g.refs, r)
		return &Stmt{Kind: kind, Src: fmt.Sprintf("let %s = %s!", rname(r.idx), rname(s.idx)),
			Cmds: []Cmd{{Op: CRefUnwrap, R: r.idx, R0: s.idx}}}
	case "refCast":
		s := g.pickRef(func(r *refInfo) bool {
			if r.opt || r.conc {
				return false
			}
			v, _ := g.st.Ref(r.idx)
			if g.want == EInvalidRef {
				return v.Kind == RDead
			}
			return v.Kind == REph
		})
		if s == nil {
			return nil
		}
		v, _ := g.st.Ref(s.idx)
		t := TR
		forced := rng.Bool() || g.want == EForceCast
		right := g.want != EForceCast && (forced || rng.Chance(2, 3))
		if x, e := g.st.resolveRv(v); e == ENone && x.Ev != right {
			t = TQ
		}
		r := &refInfo{idx: g.fresh(), opt: !forced}
		g.refs = append(g.refs, r)
		tn := map[Rty]string{TR: "C.R", TQ: "C.Q"}[t]
		src := fmt.Sprintf("let %s: &{C.I} = %s as! &%s", rname(r.idx), rname(s.idx), tn)
		if !forced {
			src = fmt.Sprintf("let %s: &{C.I}? = %s as? &%s", rname(r.idx), rname(s.idx), tn)
		}
		if t == TR && rng.Chance(3, 4) {
			// keep the concrete static type: such references can be stored in concretely typed
			// holders, where no conversion re-wraps the reference value on the way
			r.conc = true
			src = fmt.Sprintf("let %s = %s as! &C.R", rname(r.idx), rname(s.idx))
			if !forced {
				src = fmt.Sprintf("let %s = %s as? &C.R", rname(r.idx), rname(s.idx))
			}
		}
		return &Stmt{Kind: kind, Src: src, Cmds: []Cmd{{Op: CRefCast, R: r.idx, R0: s.idx, Ty: t, Forced: forced}}}
	case "borrow":
		p := int64(rng.Intn(4))
		if g.st.Stored(p) == nil && !rng.Chance(1, 6) {
			for q := int64(0); q < 4; q++ {
				if g.st.Stored(q) != nil {
					p = q
				}
			}
			if g.st.Stored(p) == nil && !rng.Chance(1, 5) {
				return nil
			}
		}
		t := TI
		if x := g.st.Stored(p); x != nil && (rng.Chance(1, 2) || g.want == EStoredType) {
			t = TR
			if x.Ev == (g.want == EStoredType) {
				t = TQ
			}
		}
		r := &refInfo{idx: g.fresh(), opt: true}
		g.refs = append(g.refs, r)
		tn := map[Rty]string{TI: "{C.I}", TR: "C.R", TQ: "C.Q"}[t]
		return &Stmt{Kind: kind,
			Src:  fmt.Sprintf("let %s = acct.storage.borrow<&%s>(from: /storage/p%d)", rname(r.idx), tn, p),
			Cmds: []Cmd{{Op: CBorrow, R: r.idx, X: p, Ty: t}}}
	case "use":
		s := g.pickRef(func(r *refInfo) bool {
			v, _ := g.st.Ref(r.idx)
			if v.Kind == RNil {
				return g.want == ENone && r.opt && rng.Chance(1, 4)
			}
			_, e := g.st.resolveRv(v)
			return e == g.want
		})
		if s == nil {
			return nil
		}
		if s.opt {
			return &Stmt{Kind: "useOpt", Src: fmt.Sprintf("log(%s?.tag)", rname(s.idx)),
				Cmds: []Cmd{{Op: CUse, R: s.idx, K: UOptTag}}}
		}
		k := rng.Intn(6)
		if k == UOptTag {
			k = UShow
		}
		if k == 5 {
			k = UShow
		}
		e := map[int]string{UTag: "%s.tag", UCall: "%s.getTag()", UUuid: "%s.uuid", ULen: "%s.arr.length",
			UDLen: "%s.dict.length", UShow: "C.show(%s)"}[k]
		return &Stmt{Kind: "use:" + useNames[k], Src: "log(" + fmt.Sprintf(e, rname(s.idx)) + ")",
			Cmds: []Cmd{{Op: CUse, R: s.idx, K: k}}}
	// ---- attachments: every resource carries attachment C.A; a reference to it is a reference
	// into the resource (model: a reference to the base) and must die with it
	case "refAtt":
		b := g.pickBase()
		if b == nil || b.con {
			return nil
		}
		var cmd Cmd
		r := &refInfo{idx: g.fresh(), att: true}
		if b.ref {
			if v, _ := g.st.Ref(b.b.X); v.Kind == RSto {
				return nil
			}
			cmd = Cmd{Op: CRefCopy, R: r.idx, R0: b.b.X}
		} else {
			cmd = Cmd{Op: CRefVar, R: r.idx, X: b.b.X}
		}
		g.refs = append(g.refs, r)
		e := b.expr + "[C.A]"
		var src string
		// the reference is hidden from the checker's static invalidation analysis in several ways
		switch rng.Intn(5) {
		case 0:
			src = fmt.Sprintf("let %s = C.ida(%s)!", rname(r.idx), e)
		case 1:
			src = fmt.Sprintf("let %s = (C.anyId(%s) as! &C.A?)!", rname(r.idx), e)
		case 2:
			src = fmt.Sprintf("let %s = [%s!][0]", rname(r.idx), e)
		case 3:
			src = fmt.Sprintf("let %s = (fun (_ a: &C.A): &C.A { return a })(%s!)", rname(r.idx), e)
		default:
			src = fmt.Sprintf("let %s = C.AHolder(%s!).ref", rname(r.idx), e)
		}
		return &Stmt{Kind: kind, Src: src, Cmds: []Cmd{cmd}}
	case "useAtt":
		s := g.pickAttRef()
		if s == nil {
			return nil
		}
		switch rng.Intn(5) {
		case 0:
			return &Stmt{Kind: kind, Src: fmt.Sprintf("log(%s.baseTag())", rname(s.idx)), Cmds: []Cmd{{Op: CUse, R: s.idx, K: UTag}}}
		case 1:
			return &Stmt{Kind: kind, Src: fmt.Sprintf("log(%s.baseUuid())", rname(s.idx)), Cmds: []Cmd{{Op: CUse, R: s.idx, K: UUuid}}}
		case 2:
			return &Stmt{Kind: kind, Src: fmt.Sprintf("log(%s.getK())", rname(s.idx)), Cmds: []Cmd{{Op: CUse, R: s.idx, K: UAtt}}}
		}
		// the attachment's own field: nothing but the invalidation of this very reference stops it
		return &Stmt{Kind: kind, Src: fmt.Sprintf("log(%s.k)", rname(s.idx)), Cmds: []Cmd{{Op: CUse, R: s.idx, K: UAtt}}}
	case "attSetTag":
		s := g.pickAttRef()
		if s == nil {
			return nil
		}
		t := g.newTag()
		return &Stmt{Kind: kind, Src: fmt.Sprintf("%s.setBaseTag(%d)", rname(s.idx), t),
			Cmds: []Cmd{{Op: CSetTag, B: Base{Ref: true, X: s.idx}, T: t}}}
	case "attBaseRef":
		s := g.pickAttRef()
		if s == nil {
			return nil
		}
		r := &refInfo{idx: g.fresh()}
		g.refs = append(g.refs, r)
		return &Stmt{Kind: kind, Src: fmt.Sprintf("let %s = %s.baseRef()", rname(r.idx), rname(s.idx)),
			Cmds: []Cmd{{Op: CRefCopy, R: r.idx, R0: s.idx}}}

	// ---- reference values copied around: plain copy, non-resource holders, re-reading
	case "refCopy":
		// copying an invalidated reference is only done through a holder (see "holderRead"):
		// the plain form is a known defect of the interpreter, pinned in the corpus
		s := g.pickRef(func(r *refInfo) bool { v, _ := g.st.Ref(r.idx); return v.Kind == REph })
		if s == nil {
			return nil
		}
		r := &refInfo{idx: g.fresh(), opt: s.opt, conc: s.conc}
		g.refs = append(g.refs, r)
		src := fmt.Sprintf("let %s = %s", rname(r.idx), rname(s.idx))
		if !s.opt && !s.conc && rng.Bool() {
			src = fmt.Sprintf("let %s = C.idn(%s)", rname(r.idx), rname(s.idx))
		}
		return &Stmt{Kind: kind, Src: src, Cmds: []Cmd{{Op: CRefCopy, R: r.idx, R0: s.idx}}}
	case "holderMake":
		okRef := func(r *refInfo) bool {
			v, _ := g.st.Ref(r.idx)
			if g.want == EInvalidRef {
				return !r.opt && v.Kind == RDead
			}
			return !r.opt && v.Kind == REph
		}
		// prefer concretely typed references (their holders are concretely typed too)
		s := g.pickRef(func(r *refInfo) bool { return r.conc && okRef(r) })
		if s == nil || rng.Chance(1, 4) {
			s = g.pickRef(okRef)
		}
		if s == nil {
			return nil
		}
		h := &holderInfo{idx: g.fresh(), kind: []string{"struct", "optstruct", "array", "dict"}[rng.Intn(4)]}
		g.hold = append(g.hold, h)
		var src string
		if s.conc && rng.Chance(4, 5) {
			h.kind += "R"
		}
		switch h.kind {
		case "structR":
			src = fmt.Sprintf("let %s = C.HolderR(%s)", hname(h.idx), rname(s.idx))
		case "optstructR":
			src = fmt.Sprintf("let %s: C.HolderR? = C.HolderR(%s)", hname(h.idx), rname(s.idx))
		case "arrayR":
			src = fmt.Sprintf("let %s: [&C.R] = [%s]", hname(h.idx), rname(s.idx))
		case "dictR":
			src = fmt.Sprintf("let %s: {String: &C.R} = {\"a\": %s}", hname(h.idx), rname(s.idx))
		case "struct":
			src = fmt.Sprintf("let %s = C.Holder(%s)", hname(h.idx), rname(s.idx))
		case "optstruct":
			src = fmt.Sprintf("let %s: C.Holder? = C.Holder(%s)", hname(h.idx), rname(s.idx))
		case "array":
			src = fmt.Sprintf("let %s: [&{C.I}] = [C.idn(%s)]", hname(h.idx), rname(s.idx))
		case "dict":
			src = fmt.Sprintf("let %s: {String: &{C.I}} = {\"a\": C.idn(%s)}", hname(h.idx), rname(s.idx))
		}
		return &Stmt{Kind: kind + ":" + h.kind, Src: src, Cmds: []Cmd{{Op: CRefCopy, R: h.idx, R0: s.idx}}}
	case "holderCopy":
		var c []*holderInfo
		for _, h := range g.hold {
			if v, _ := g.st.Ref(h.idx); v.Kind == REph {
				c = append(c, h)
			}
		}
		if len(c) == 0 {
			return nil
		}
		h0 := c[rng.Intn(len(c))]
		h := &holderInfo{idx: g.fresh(), kind: h0.kind}
		g.hold = append(g.hold, h)
		return &Stmt{Kind: kind, Src: fmt.Sprintf("let %s = %s", hname(h.idx), hname(h0.idx)),
			Cmds: []Cmd{{Op: CRefCopy, R: h.idx, R0: h0.idx}}}
	case "holderRead":
		var c []*holderInfo
		for _, h := range g.hold {
			v, _ := g.st.Ref(h.idx)
			if (g.want == EInvalidRef && v.Kind == RDead) || (g.want == ENone && v.Kind == REph) {
				c = append(c, h)
			}
		}
		if len(c) == 0 {
			return nil
		}
		h := c[rng.Intn(len(c))]
		if !strings.HasSuffix(h.kind, "R") {
			h = c[rng.Intn(len(c))] // second draw: prefer concretely typed holders
		}
		dead := g.want == EInvalidRef
		r := &refInfo{idx: g.fresh()}
		g.refs = append(g.refs, r)
		hn, rn := hname(h.idx), rname(r.idx)
		var src string
		// forms that read through a reference to the holder (a new reference value is derived);
		// the direct forms only while the stored reference is usable
		r.conc = strings.HasSuffix(h.kind, "R")
		switch h.kind {
		case "structR":
			switch n := rng.Intn(4); {
			case n == 0:
				src = fmt.Sprintf("let %s = (&%s as &C.HolderR).ref", rn, hn)
			case n == 1:
				src = fmt.Sprintf("let %s = (&%s as &C.HolderR).opt", rn, hn)
				r.opt = true
			case n == 2 || dead:
				src = fmt.Sprintf("let %s = C.viaHolderR(&%s as &C.HolderR)", rn, hn)
			default:
				src = fmt.Sprintf("let %s = %s.ref", rn, hn)
			}
		case "optstructR":
			src = fmt.Sprintf("let %s = (&%s as &C.HolderR?)?.ref", rn, hn)
			r.opt = true
		case "arrayR":
			switch n := rng.Intn(3); {
			case n == 0:
				src = fmt.Sprintf("let %s = (&%s as &[&C.R])[0]", rn, hn)
			case n == 1 || dead:
				src = fmt.Sprintf("let %s = C.viaArrayR(&%s as &[&C.R], 0)", rn, hn)
			default:
				src = fmt.Sprintf("let %s = %s[0]", rn, hn)
			}
		case "dictR":
			if rng.Bool() {
				src = fmt.Sprintf("let %s = (&%s as &{String: &C.R})[\"a\"]", rn, hn)
			} else {
				src = fmt.Sprintf("let %s = C.viaDictR(&%s as &{String: &C.R}, \"a\")", rn, hn)
			}
			r.opt = true
		case "struct":
			switch n := rng.Intn(4); {
			case n == 0:
				src = fmt.Sprintf("let %s = (&%s as &C.Holder).ref", rn, hn)
			case n == 1:
				src = fmt.Sprintf("let %s = (&%s as &C.Holder).opt", rn, hn)
				r.opt = true
			case n == 2 || dead:
				src = fmt.Sprintf("let %s = C.viaHolder(&%s as &C.Holder)", rn, hn)
			default:
				src = fmt.Sprintf("let %s = %s.ref", rn, hn)
			}
		case "optstruct":
			src = fmt.Sprintf("let %s = (&%s as &C.Holder?)?.ref", rn, hn)
			r.opt = true
		case "array":
			switch n := rng.Intn(3); {
			case n == 0:
				src = fmt.Sprintf("let %s = (&%s as &[&{C.I}])[0]", rn, hn)
			case n == 1 || dead:
				src = fmt.Sprintf("let %s = C.viaArray(&%s as &[&{C.I}], 0)", rn, hn)
			default:
				src = fmt.Sprintf("let %s = %s[0]", rn, hn)
			}
		case "dict":
			if rng.Bool() {
				src = fmt.Sprintf("let %s = (&%s as &{String: &{C.I}})[\"a\"]", rn, hn)
			} else {
				src = fmt.Sprintf("let %s = C.viaDict(&%s as &{String: &{C.I}}, \"a\")", rn, hn)
			}
			r.opt = true
		}
		return &Stmt{Kind: kind + ":" + h.kind, Src: src, Cmds: []Cmd{{Op: CRefCopy, R: r.idx, R0: h.idx}}}
	case "showVar":
		s := g.pickVar(func(v *varInfo) bool { return true })
		if s == nil {
			return nil
		}
		src := fmt.Sprintf("log(C.show(&%s as &{C.I}))", vname(s.idx))
		if s.opt {
			src = fmt.Sprintf("log(C.showOpt(&%s as &{C.I}?))", vname(s.idx))
		}
		return &Stmt{Kind: kind, Src: src, Cmds: []Cmd{{Op: CShowVar, X: s.idx}}}
	}
	panic("unknown statement kind " + kind)
}

var failKinds = []Rerr{EForceAssign, EForceNil, EIndex, EOverwrite, EStoredType, EForceCast, EDeref, EInvalidRef}

// statement kinds that can provoke each failure
var failStmts = map[Rerr][]string{
	EForceAssign: {"forceAssign", "dictForce", "forceOpt"},
	EForceNil:    {"unwrap", "arrAppend", "save", "refUnwrap", "arrInsert"},
	EIndex:       {"arrRemove", "arrInsert", "arrSecond", "refStep"},
	EOverwrite:   {"save"},
	EStoredType:  {"load", "borrow"},
	EForceCast:   {"castRes", "refCast"},
	EDeref:       {"use", "setTag", "refStep", "arrAppend"},
	EInvalidRef: {"use", "use", "use", "use", "refStep", "refCast", "refUnwrap", "setTag", "arrAppend", "arrRemove",
		"swapOpt", "dictInsert", "forceOpt", "takeOpt", "dictRemove", "holderMake", "holderRead", "holderRead",
		"useAtt", "useAtt", "useAtt", "attSetTag", "attBaseRef", "refAtt"},
}

type choice struct {
	kind string
	w    int
}

func (g *Gen) choices() []choice {
	w := g.w
	return []choice{
		{"create", w.Create}, {"createNil", w.Create / 4},
		{"moveVar", w.Move}, {"unwrap", w.Move}, {"forceAssign", w.Move}, {"swapVars", w.Move}, {"second", w.Move}, {"castRes", w.Move / 2},
		{"arrAppend", w.Nest * 2}, {"arrInsert", w.Nest}, {"forceOpt", w.Nest}, {"dictForce", w.Nest}, {"dictInsert", w.Nest},
		{"dictSecond", w.Nest}, {"swapOpt", w.Nest}, {"xchgOpt", w.Nest}, {"arrSecond", w.Nest},
		{"arrRemove", w.Unnest * 2}, {"dictRemove", w.Unnest}, {"takeOpt", w.Unnest},
		{"destroy", w.Destroy * 2},
		{"save", w.Storage * 2}, {"load", w.Storage},
		{"refVar", w.Ref * 2}, {"refStep", w.Ref * 3}, {"refUnwrap", w.Ref * 2}, {"refCast", w.Ref * 3}, {"borrow", w.Ref},
		{"use", w.Use * 5}, {"showVar", w.Use},
		{"refAtt", w.Ref * 3}, {"useAtt", w.Use * 3}, {"attSetTag", w.Mut * 2}, {"attBaseRef", w.Ref},
		{"refCopy", w.Ref}, {"holderMake", w.Ref * 4}, {"holderCopy", w.Ref}, {"holderRead", w.Ref * 8},
		{"setTag", w.Mut * 3},
		{"swapIdxArr", w.SwapIdx}, {"swapIdxDict", w.SwapIdx},
	}
}

// tryStmt builds one statement of the given kind and simulates it on the model. The static
// tables are restored if the statement is not applicable or rejected.
func (g *Gen) tryStmt(kind string) *Stmt {
	savedVars := append([]*varInfo{}, g.vars...)
	savedRefs := append([]*refInfo{}, g.refs...)
	savedHold := append([]*holderInfo{}, g.hold...)
	s := g.build(kind)
	restore := func() { g.vars, g.refs, g.hold = savedVars, savedRefs, savedHold }
	if s == nil {
		restore()
		return nil
	}
	sim := g.st.Clone()
	var err Rerr
	for _, c := range s.Cmds {
		if e := sim.Step(c); e != ENone {
			err = e
			break
		}
	}
	if err == EStatic || err == EInternal {
		restore()
		return nil
	}
	if err != g.want {
		restore()
		return nil
	}
	if err != ENone {
		// a statement that fails at run time ends the transaction
		g.ended = true
		if err == EInvalidRef {
			g.h.InvalidUses++
		}
		return s
	}
	g.st = sim
	return s
}

func (g *Gen) pickKind() string {
	// keep a working set of variables: nesting needs a container and something to put in
	if len(g.vars) < 2 && g.rng.Chance(3, 4) || len(g.vars) < 4 && g.rng.Chance(1, 4) {
		return "create"
	}
	cs := g.choices()
	tot := 0
	for _, c := range cs {
		tot += c.w
	}
	x := g.rng.Intn(tot)
	for _, c := range cs {
		if x < c.w {
			return c.kind
		}
		x -= c.w
	}
	return cs[0].kind
}

func (g *Gen) genTx(nStmts int, last bool) *Tx {
	tx := &Tx{}
	g.vars, g.refs, g.hold, g.ended = nil, nil, nil, false
	g.st = BeginTx(g.p)
	// some transactions end in a statement chosen to fail in a particular way
	failAt, failKind := -1, ENone
	if g.rng.Chance(g.w.FailTxPct, 100) {
		failAt = 2 + g.rng.Intn(nStmts)
		if g.rng.Chance(g.w.InvalidPct, 100) {
			failKind = EInvalidRef
		} else {
			failKind = failKinds[g.rng.Intn(len(failKinds))]
		}
	}
	for len(tx.Stmts) < nStmts+4 && !g.ended {
		var s *Stmt
		if failAt >= 0 && len(tx.Stmts) >= failAt {
			g.want = failKind
			ks := failStmts[failKind]
			for try := 0; try < 12 && s == nil; try++ {
				s = g.tryStmt(ks[g.rng.Intn(len(ks))])
			}
			g.want = ENone
			if s == nil && len(tx.Stmts) >= nStmts {
				break
			}
		}
		for try := 0; try < 30 && s == nil; try++ {
			s = g.tryStmt(g.pickKind())
		}
		if s == nil {
			break
		}
		tx.Stmts = append(tx.Stmts, *s)
		g.h.Kinds[s.Kind]++
		for _, c := range s.Cmds {
			if (c.D.Kind == PChild && c.D.B.Sto) || (c.S.Kind == SPlace && c.S.Pl.Kind == PChild && c.S.Pl.B.Sto) || c.B.Sto {
				g.h.Kinds["(statements on contract-owned fields)"]++
				break
			}
		}
		if s.SwapIdx {
			g.h.SwapIdx = true
		}
		for _, e := range g.st.Vars {
			if d := e.R.Depth(); d > g.h.MaxDepth {
				g.h.MaxDepth = d
			}
		}
	}
	// epilogue: every variable still alive (statically) is consumed; also emitted after a
	// failing statement (never executed then, but the checker needs it)
	for len(g.vars) > 0 {
		v := g.vars[0]
		g.kill(v)
		var s Stmt
		p := int64(g.rng.Intn(4))
		if !g.ended && g.full(v) && g.st.Stored(p) == nil && g.rng.Chance(2, 5) {
			a, req := g.arg(v)
			s = Stmt{Kind: "save", Src: fmt.Sprintf("acct.storage.save(%s, to: /storage/p%d)", a, p),
				Cmds: []Cmd{xfer(psto(p), splace(pvar(v.idx), req))}}
		} else {
			s = Stmt{Kind: "destroy", Src: "destroy " + vname(v.idx), Cmds: []Cmd{{Op: CDestroy, X: v.idx}}}
		}
		if !g.ended {
			for _, c := range s.Cmds {
				if e := g.st.Step(c); e != ENone {
					panic("epilogue failed in model: " + string(e))
				}
			}
		}
		tx.Stmts = append(tx.Stmts, s)
		g.h.Kinds[s.Kind]++
	}
	return tx
}

// GenHistory generates a history of nTx transactions; the model's persistent state is
// threaded through (g.p), following the model's own commit / roll-back rule.
func (g *Gen) GenHistory(nTx, maxStmts int) *History {
	g.h = &History{Kinds: map[string]int{}}
	for i := 0; i < nTx; i++ {
		n := 4 + g.rng.Intn(maxStmts-3)
		tx := g.genTx(n, i == nTx-1)
		g.h.Txs = append(g.h.Txs, tx)
		np, obs := RunTxModel(g.p, tx.Cmds())
		if obs.Err == ENone {
			for _, d := range obs.Dead {
				g.h.Destroyed += d.Size()
			}
		}
		g.p = np
	}
	for _, e := range g.p.Store {
		g.h.Stored += e.R.Size()
	}
	return g.h
}

func (g *Gen) PState() *PState { return g.p }
