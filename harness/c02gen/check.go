package c02gen

import (
	"crypto/sha256"
	"encoding/json"
	"fmt"
	"os"
	"os/exec"
	"path/filepath"
	"sort"
	"strings"

	"cvh/lib"
)

// Config of one check run (C02 and C04 share everything but weights and the rule text).
type Config struct {
	Prop      string
	Seed      uint64
	Tier      string
	Dir       string
	CorpusDir string
	W         Weights
	Rule      string
	// Nontrivial decides whether a history counts for distinct_nontrivial.
	Nontrivial func(h *History) bool
	// Only: run just this corpus file (child process mode, see runIsolated).
	Only string
}

const swapKey = "swap-member-index"

// failure key for a history: everything that goes wrong in a history containing the
// `x.f[i] <-> y` statement on a resource-typed field is attributed to that known defect
func keyFor(h *History, base, engine string) string {
	if h.SwapIdx {
		return swapKey + ":" + engine
	}
	if h.KnownKey != "" && engine == h.KnownEngine {
		return h.KnownKey
	}
	if h.KnownKey != "" && h.KnownEngine == "*" {
		return h.KnownKey + ":" + engine
	}
	return base + ":" + engine
}

func historySources(h *History) []string {
	var out []string
	for _, tx := range h.Txs {
		out = append(out, tx.Source())
	}
	return out
}

type runner struct {
	cfg      Config
	sum      *lib.Summary
	cw       *lib.CaseWriter
	distinct map[[32]byte]bool
	nErrKind map[string]int
}

// runHistory executes a history on fresh hosts of both engines, compares with the Go model and
// the direct conservation rule, and writes one Coq case per engine.
func (r *runner) runHistory(name string, h *History) {
	srcs := historySources(h)
	coqHist := CoqHistory(h)
	for _, vm := range []bool{false, true} {
		eng, err := NewEngine(vm)
		if err != nil {
			r.sum.Fail("harness:deploy", err.Error(), map[string]any{"engine": vm})
			return
		}
		next0 := eng.Next()
		p := InitPState(next0)
		before, _, bad0 := eng.Walk()
		if bad0 != "" {
			r.sum.Fail("harness:initial-walk", bad0, nil)
			return
		}
		prevNext := next0
		var raws []RawObs
		for i, tx := range h.Txs {
			raw := eng.RunTx(srcs[i])
			r.sum.Evaluations += 2 // transaction + storage walk
			raws = append(raws, raw)
			replay := map[string]any{
				"engine": eng.Name(), "history": name, "failing_transaction_index": i,
				"transactions": srcs, "model_commands": coqHist,
				"observed_error": raw.ErrText,
				"how_to_replay": "deploy harness/c02gen/contract.go:Contract as C at 0x1, run the transactions in order signed by 0x1 on lib.Host with UseVM=" + fmt.Sprint(vm),
			}
			r.nErrKind[string(raw.Err)]++
			if raw.Err == "Checker" || raw.Err == "Parse" {
				r.sum.Fail("generator:rejected-program",
					"generated transaction was rejected by the checker/parser: "+firstLine(raw.ErrText)+"\n"+raw.ErrText, replay)
				return
			}
			if raw.Bad != "" {
				r.sum.Fail(keyFor(h, "harness:unparsable-observation", eng.Name()), raw.Bad, replay)
			}
			// 1. direct, model-free conservation on the observations
			if bad := DirectConservation(before, prevNext, raw); len(bad) > 0 {
				replay["violations"] = bad
				r.sum.Fail(keyFor(h, "conservation", eng.Name()),
					fmt.Sprintf("%s: successful transaction %d of %s violates resource conservation: %s",
						eng.Name(), i, name, strings.Join(bad, "; ")), replay)
			}
			// 2. Go rendering of the model
			np, mobs := RunTxModel(p, tx.Cmds())
			if diff := CompareTx(mobs, raw); len(diff) > 0 {
				replay["differences"] = diff
				r.sum.Fail(keyFor(h, "model-go", eng.Name()),
					fmt.Sprintf("%s: transaction %d of %s differs from the model: %s", eng.Name(), i, name, strings.Join(diff, "; ")), replay)
			}
			p = np
			before = raw.Store
			prevNext = raw.Next
		}
		// 3. the Coq model, evaluated by the driver
		var obs []string
		for _, raw := range raws {
			obs = append(obs, raw.Coq())
		}
		var outcomes []string
		for _, raw := range raws {
			outcomes = append(outcomes, string(raw.Err))
		}
		r.cw.Add(fmt.Sprintf("(%d,\n %s,\n [%s])", next0, coqHist, strings.Join(obs, ";\n  ")),
			map[string]any{"key": keyFor(h, "model-mismatch", eng.Name()), "engine": eng.Name(), "history": name,
				"transactions": srcs, "observed_outcomes": outcomes})
	}
	r.sum.Count(fmt.Sprintf("transactions per history: %d", len(h.Txs)))
	for k, n := range h.Kinds {
		for j := 0; j < n; j++ {
			r.sum.Count("stmt " + k)
		}
	}
	hash := sha256.Sum256([]byte(strings.Join(srcs, "\n---\n")))
	if r.cfg.Nontrivial(h) && !r.distinct[hash] {
		r.distinct[hash] = true
		r.sum.DistinctNontrivial++
		r.sum.Sample(map[string]any{"history": name, "transactions": srcs})
	}
}

// LoadCorpus reads hand-picked histories (JSON renderings of History).
func LoadCorpus(dir string) (names []string, hs []*History, err error) {
	files, _ := filepath.Glob(filepath.Join(dir, "*.json"))
	sort.Strings(files)
	for _, f := range files {
		b, e := os.ReadFile(f)
		if e != nil {
			return nil, nil, e
		}
		h := &History{}
		if e := json.Unmarshal(b, h); e != nil {
			return nil, nil, fmt.Errorf("%s: %v", f, e)
		}
		if h.Kinds == nil {
			h.Kinds = map[string]int{}
		}
		for _, tx := range h.Txs {
			for _, s := range tx.Stmts {
				h.Kinds[s.Kind]++
				if s.SwapIdx {
					h.SwapIdx = true
				}
			}
		}
		names = append(names, "corpus/"+filepath.Base(f))
		hs = append(hs, h)
	}
	return
}

// runIsolated runs one corpus history in a child process: histories that build (or, if the
// implementation is broken, could build) cyclic resource graphs can drive the Go runtime into a
// fatal stack overflow, which cannot be recovered in-process. A crash of the child is reported
// as a failure with the history as replay.
func (r *runner) runIsolated(name, file string, h *History) {
	sub := filepath.Join(r.cfg.Dir, "iso_"+strings.TrimSuffix(filepath.Base(file), ".json"))
	os.MkdirAll(sub, 0o755)
	cmd := exec.Command(os.Args[0], "-prop", r.cfg.Prop, "-seed", fmt.Sprint(r.cfg.Seed), "-tier", r.cfg.Tier,
		"-dir", sub, "-only", file)
	out, err := cmd.CombinedOutput()
	b, rerr := os.ReadFile(filepath.Join(sub, "summary.json"))
	var cs lib.Summary
	if err != nil || rerr != nil || json.Unmarshal(b, &cs) != nil {
		tail := string(out)
		if len(tail) > 1500 {
			tail = tail[:700] + "\n...\n" + tail[len(tail)-700:]
		}
		r.sum.Fail(keyFor(h, "crash", "process"),
			fmt.Sprintf("running %s crashed the process (Go fatal error / panic escaping the runtime): %v\n%s", name, err, tail),
			map[string]any{"history": name, "transactions": historySources(h), "model_commands": CoqHistory(h), "output": tail})
		return
	}
	r.sum.Evaluations += cs.Evaluations
	r.sum.Failures = append(r.sum.Failures, cs.Failures...)
	r.cw.Files = append(r.cw.Files, cs.CaseFiles...)
}

func RunCheck(cfg Config) {
	if cfg.Only != "" {
		runOnly(cfg)
		return
	}
	sum := &lib.Summary{Rule: cfg.Rule}
	r := &runner{cfg: cfg, sum: sum, distinct: map[[32]byte]bool{}, nErrKind: map[string]int{},
		cw: &lib.CaseWriter{
			Dir: cfg.Dir, Prefix: "cases_" + cfg.Prop,
			Header:   "From CV Require Import C02.Cases.",
			ElemType: "Z * list (list cmd) * list rawobs",
			CheckFn:  "check_case",
			PerFile:  60,
		}}
	if cfg.Prop == "C02" {
		RunImportScenario(sum)
	}
	// corpus first
	if cfg.CorpusDir != "" {
		names, hs, err := LoadCorpus(cfg.CorpusDir)
		if err != nil {
			sum.Fail("harness:corpus", err.Error(), nil)
		}
		for i, h := range hs {
			if h.Isolate {
				r.runIsolated(names[i], filepath.Join(cfg.CorpusDir, filepath.Base(names[i])), h)
			} else {
				r.runHistory(names[i], h)
			}
			sum.Count("corpus histories")
		}
	}
	n := 150
	if cfg.Tier == "thorough" {
		n = 1200
	}
	rng := lib.NewRng(cfg.Seed)
	for i := 0; i < n; i++ {
		g := NewGen(rng, cfg.W, 1)
		// the uuid counter of a fresh host starts at 0: first uuid is 1
		nTx := 2 + rng.Intn(5)
		h := g.GenHistory(nTx, 18)
		r.runHistory(fmt.Sprintf("seed%d/h%d", cfg.Seed, i), h)
		sum.Count("generated histories")
		sum.Count(fmt.Sprintf("max nesting depth %d", h.MaxDepth))
		if h.InvalidUses > 0 {
			sum.Count("histories with a use of an invalidated reference")
		}
	}
	for k, v := range r.nErrKind {
		if k == "" {
			k = "success"
		}
		sum.Distribution["tx outcome "+k] += v
	}
	r.cw.Close()
	sum.CaseFiles = r.cw.Files
	sum.Write(cfg.Dir)
}

// runOnly is the child-process mode: one corpus file, own summary and case file.
func runOnly(cfg Config) {
	sum := &lib.Summary{}
	base := strings.TrimSuffix(filepath.Base(cfg.Only), ".json")
	r := &runner{cfg: cfg, sum: sum, distinct: map[[32]byte]bool{}, nErrKind: map[string]int{},
		cw: &lib.CaseWriter{
			Dir: cfg.Dir, Prefix: "cases_" + cfg.Prop + "_" + base,
			Header:   "From CV Require Import C02.Cases.",
			ElemType: "Z * list (list cmd) * list rawobs",
			CheckFn:  "check_case",
			PerFile:  60,
		}}
	cfg.Nontrivial = func(*History) bool { return false }
	r.cfg = cfg
	b, err := os.ReadFile(cfg.Only)
	h := &History{}
	if err == nil {
		err = json.Unmarshal(b, h)
	}
	if err != nil {
		sum.Fail("harness:corpus", err.Error(), nil)
	} else {
		h.Kinds = map[string]int{}
		for _, tx := range h.Txs {
			for _, s := range tx.Stmts {
				if s.SwapIdx {
					h.SwapIdx = true
				}
			}
		}
		r.runHistory("corpus/"+filepath.Base(cfg.Only), h)
	}
	r.cw.Close()
	sum.CaseFiles = r.cw.Files
	sum.Write(cfg.Dir)
}
