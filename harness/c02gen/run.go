package c02gen

import (
	"errors"
	"fmt"
	"sort"
	"strconv"
	"strings"

	"cvh/lib"

	"github.com/onflow/cadence"
	"github.com/onflow/cadence/common"
	cerrors "github.com/onflow/cadence/errors"
	"github.com/onflow/cadence/interpreter"
	"github.com/onflow/cadence/sema"
)

var Addr = common.MustBytesToAddress([]byte{1})

// WalkScript reports every stored resource tree, by path.
const WalkScript = `
import C from 0x1
access(all) fun main(): [String] {
    let acct = getAuthAccount<auth(Storage) &Account>(0x1)
    let out: [String] = []
    for p in acct.storage.storagePaths {
        if let r = acct.storage.borrow<&{C.I}>(from: p) {
            out.append(p.toString().concat("=").concat(C.show(r)))
        } else {
            out.append(p.toString().concat("=?"))
        }
    }
    out.append("/storage/p100=".concat(C.showSelf()))
    return out
}
`

// RawObs is what one engine was observed to do for one transaction.
type RawObs struct {
	Err      Rerr
	ErrText  string
	Next     int64 // next uuid = host counter + 1
	Logs     []LogEnt
	Events   [][2]int64 // ResourceDestroyed (uuid, tag), in order
	Made     [][2]int64 // (uuid, evented?1:0)
	Store    []VarEnt   // sorted by path
	StoreRaw []string
	Bad      string // observation could not be parsed: generator/harness problem
}

func errAs[T error](err error) bool {
	var t T
	return errors.As(err, &t)
}

// ClassifyErr maps a runtime error to the model's error classes.
func ClassifyErr(err error) Rerr {
	switch {
	case err == nil:
		return ENone
	case errAs[*sema.CheckerError](err):
		return "Checker"
	case errAs[*interpreter.InvalidatedResourceReferenceError](err):
		return EInvalidRef
	case errAs[*interpreter.ForceNilError](err):
		return EForceNil
	case errAs[*interpreter.ForceCastTypeMismatchError](err):
		return EForceCast
	case errAs[*interpreter.ArrayIndexOutOfBoundsError](err):
		return EIndex
	case errAs[*interpreter.OverwriteError](err):
		return EOverwrite
	case errAs[*interpreter.ResourceLossError](err):
		return EForceAssign
	case errAs[*interpreter.DereferenceError](err):
		return EDeref
	case errAs[*interpreter.StoredValueTypeMismatchError](err):
		return EStoredType
	}
	if strings.Contains(err.Error(), "Parsing failed") {
		return "Parse"
	}
	// internal errors anywhere in the chain
	for e := err; e != nil; {
		if cerrors.IsInternalError(e) {
			return EInternal
		}
		u, ok := e.(interface{ Unwrap() error })
		if !ok {
			break
		}
		e = u.Unwrap()
	}
	if strings.Contains(err.Error(), "internal error") {
		return EInternal
	}
	return EOther
}

// ParseShow parses the canonical rendering produced by C.show.
func ParseShow(s string) (*Rsrc, error) {
	p := &showParser{s: s}
	r := p.tree()
	if p.err != nil {
		return nil, p.err
	}
	if p.i != len(s) {
		return nil, fmt.Errorf("trailing input at %d in %q", p.i, s)
	}
	return r, nil
}

type showParser struct {
	s   string
	i   int
	err error
}

func (p *showParser) eat(c byte) bool {
	if p.err == nil && p.i < len(p.s) && p.s[p.i] == c {
		p.i++
		return true
	}
	return false
}

func (p *showParser) want(c byte) {
	if !p.eat(c) && p.err == nil {
		p.err = fmt.Errorf("expected %q at %d in %q", c, p.i, p.s)
	}
}

func (p *showParser) num() int64 {
	j := p.i
	if j < len(p.s) && p.s[j] == '-' {
		j++
	}
	for j < len(p.s) && p.s[j] >= '0' && p.s[j] <= '9' {
		j++
	}
	n, e := strconv.ParseInt(p.s[p.i:j], 10, 64)
	if e != nil && p.err == nil {
		p.err = fmt.Errorf("number expected at %d in %q", p.i, p.s)
	}
	p.i = j
	return n
}

func (p *showParser) tree() *Rsrc {
	if p.err != nil {
		return nil
	}
	r := &Rsrc{}
	switch {
	case p.eat('R'):
		r.Ev = true
	case p.eat('Q'):
	default:
		p.err = fmt.Errorf("R or Q expected at %d in %q", p.i, p.s)
		return nil
	}
	p.want('(')
	r.UUID = p.num()
	p.want(',')
	r.Tag = p.num()
	p.want(',')
	if p.eat('S') {
		r.Kids = append(r.Kids, Kid{Label{Kind: KOpt}, p.tree()})
	} else {
		p.want('N')
	}
	p.want(',')
	p.want('[')
	for p.err == nil && !p.eat(']') {
		if r.ArrLen() > 0 {
			p.want(';')
		}
		r.Kids = append(r.Kids, Kid{Label{Kind: KArr}, p.tree()})
	}
	p.want(',')
	p.want('{')
	n := 0
	for p.err == nil && !p.eat('}') {
		if n > 0 {
			p.want(';')
		}
		n++
		if p.i >= len(p.s) {
			p.err = fmt.Errorf("unexpected end in %q", p.s)
			break
		}
		k := int64(p.s[p.i] - 'a')
		p.i++
		p.want(':')
		r.Kids = append(r.Kids, Kid{Label{KDict, k}, p.tree()})
	}
	p.want(')')
	return r
}

func parseLog(l string) (LogEnt, error) {
	switch {
	case l == "nil":
		return LogEnt{Kind: 1}, nil
	case strings.HasPrefix(l, `"`):
		s, err := strconv.Unquote(l)
		if err != nil {
			return LogEnt{}, err
		}
		if s == "nil" {
			return LogEnt{Kind: 2}, nil
		}
		t, err := ParseShow(s)
		return LogEnt{Kind: 2, Tree: t}, err
	}
	n, err := strconv.ParseInt(l, 10, 64)
	return LogEnt{Kind: 0, Z: n}, err
}

func eventField(e cadence.Event, name string) cadence.Value {
	return cadence.SearchFieldByName(e, name)
}

func toInt(v cadence.Value) int64 {
	n, _ := strconv.ParseInt(v.String(), 10, 64)
	return n
}

// Engine runs histories on one host with one engine.
type Engine struct {
	H  *lib.Host
	VM bool
}

func NewEngine(vm bool) (*Engine, error) {
	h := lib.NewHost()
	o := h.Deploy(Addr, "C", Contract, vm)
	if o.Err != nil || o.Panic != nil {
		return nil, fmt.Errorf("deploy failed (vm=%v): %v %v", vm, o.Err, o.Panic)
	}
	h.Events = nil
	h.Logs = nil
	return &Engine{H: h, VM: vm}, nil
}

func (e *Engine) Name() string {
	if e.VM {
		return "vm"
	}
	return "interpreter"
}

func (e *Engine) Next() int64 { return int64(e.H.UUID) + 1 }

// Walk reads back committed storage.
func (e *Engine) Walk() ([]VarEnt, []string, string) {
	o := e.H.RunScript(WalkScript, nil, e.VM)
	if o.Err != nil || o.Panic != nil {
		return nil, nil, fmt.Sprintf("walk script failed: %v %v", o.Err, o.Panic)
	}
	arr, ok := o.Value.(cadence.Array)
	if !ok {
		return nil, nil, "walk script: not an array"
	}
	var out []VarEnt
	var raw []string
	bad := ""
	for _, v := range arr.Values {
		s, _ := strconv.Unquote(v.String())
		raw = append(raw, s)
		i := strings.Index(s, "=")
		path := s[:i]
		var pi int64 = -1
		if strings.HasPrefix(path, "/storage/p") {
			pi, _ = strconv.ParseInt(path[len("/storage/p"):], 10, 64)
		}
		t, err := ParseShow(s[i+1:])
		if err != nil || pi < 0 {
			bad = fmt.Sprintf("cannot parse stored entry %q: %v", s, err)
			continue
		}
		out = append(out, VarEnt{pi, t})
	}
	sort.Strings(raw)
	sort.SliceStable(out, func(i, j int) bool { return out[i].K < out[j].K })
	return out, raw, bad
}

// RunTx runs one transaction and collects the observables.
func (e *Engine) RunTx(src string) RawObs {
	o := e.H.RunTx(src, nil, []common.Address{Addr}, e.VM)
	var r RawObs
	if o.Panic != nil {
		r.Err = "GoPanic"
		r.ErrText = fmt.Sprint(o.Panic)
	} else {
		r.Err = ClassifyErr(o.Err)
		if o.Err != nil {
			r.ErrText = o.Err.Error()
			if len(r.ErrText) > 600 {
				r.ErrText = r.ErrText[:600]
			}
		}
	}
	r.Next = e.Next()
	for _, l := range o.Logs {
		le, err := parseLog(l)
		if err != nil {
			r.Bad = fmt.Sprintf("cannot parse log %q: %v", l, err)
		}
		r.Logs = append(r.Logs, le)
	}
	for _, ev := range o.Events {
		id := ev.EventType.ID()
		switch {
		case strings.HasSuffix(id, "C.R.ResourceDestroyed"):
			r.Events = append(r.Events, [2]int64{toInt(eventField(ev, "uuid")), toInt(eventField(ev, "tag"))})
		case strings.HasSuffix(id, "C.Made"):
			b := int64(0)
			if eventField(ev, "evented").String() == "true" {
				b = 1
			}
			r.Made = append(r.Made, [2]int64{toInt(eventField(ev, "uuid")), b})
		case strings.HasSuffix(id, "ResourceDestroyed"):
			r.Bad = "unexpected destruction event " + id
		}
	}
	var bad string
	r.Store, r.StoreRaw, bad = e.Walk()
	if bad != "" {
		r.Bad = bad
	}
	return r
}

func (r RawObs) Coq() string {
	var b strings.Builder
	b.WriteString("(mkRaw ")
	if r.Err == ENone {
		b.WriteString("None ")
	} else {
		e := string(r.Err)
		switch r.Err {
		case EInvalidRef, EForceNil, EForceCast, EIndex, EOverwrite, EForceAssign, EDeref, EStoredType, EInternal:
		default:
			e = "EOther"
		}
		b.WriteString("(Some " + e + ") ")
	}
	b.WriteString(zlit(r.Next) + " [")
	for i, l := range r.Logs {
		if i > 0 {
			b.WriteString(";")
		}
		b.WriteString(l.Coq())
	}
	b.WriteString("] [")
	for i, e := range r.Events {
		if i > 0 {
			b.WriteString(";")
		}
		fmt.Fprintf(&b, "(%s,%s)", zlit(e[0]), zlit(e[1]))
	}
	b.WriteString("] [")
	for i, e := range r.Store {
		if i > 0 {
			b.WriteString(";")
		}
		fmt.Fprintf(&b, "(%s,%s)", zlit(e.K), e.R.Coq())
	}
	b.WriteString("])")
	return b.String()
}

// CoqHistory renders the command lists of a history.
func CoqHistory(h *History) string {
	var b strings.Builder
	b.WriteString("[")
	for i, tx := range h.Txs {
		if i > 0 {
			b.WriteString(";\n  ")
		}
		b.WriteString("[")
		for j, c := range tx.Cmds() {
			if j > 0 {
				b.WriteString("; ")
			}
			b.WriteString(c.Coq())
		}
		b.WriteString("]")
	}
	b.WriteString("]")
	return b.String()
}

// ---------------------------------------------------------------- comparisons in Go

// eventsOK applies the same rule as check_events in Cases.v.
func eventsOK(dead []*Rsrc, obs [][2]int64) bool {
	for _, r := range dead {
		var want [][2]int64
		for _, t := range r.DestroyTrace() {
			if t.Ev {
				want = append(want, [2]int64{t.UUID, t.Tag})
			}
		}
		n := len(want)
		if len(obs) < n {
			return false
		}
		seg := obs[:n]
		obs = obs[n:]
		pos := map[int64]int{}
		for i, e := range seg {
			pos[e[0]] = i
		}
		for _, w := range want {
			i, ok := pos[w[0]]
			if !ok || seg[i][1] != w[1] {
				return false
			}
		}
		if len(pos) != n {
			return false
		}
		if !orderOK(r, pos) {
			return false
		}
	}
	return len(obs) == 0
}

func evUUIDs(r *Rsrc) []int64 {
	var out []int64
	for _, t := range r.DestroyTrace() {
		if t.Ev {
			out = append(out, t.UUID)
		}
	}
	return out
}

func orderOK(r *Rsrc, pos map[int64]int) bool {
	var arrs [][]int64
	for _, k := range r.Kids {
		if !orderOK(k.R, pos) {
			return false
		}
		us := evUUIDs(k.R)
		if r.Ev {
			for _, d := range us {
				if pos[d] >= pos[r.UUID] {
					return false
				}
			}
		}
		if k.L.Kind == KArr {
			for _, prev := range arrs {
				for _, x := range prev {
					for _, y := range us {
						if pos[x] >= pos[y] {
							return false
						}
					}
				}
			}
			arrs = append(arrs, us)
		}
	}
	return true
}

func storeEqual(a, b []VarEnt) bool {
	if len(a) != len(b) {
		return false
	}
	for i := range a {
		if a[i].K != b[i].K || !a[i].R.Equal(b[i].R) {
			return false
		}
	}
	return true
}

// CompareTx returns the aspects in which the observation differs from the model's prediction.
func CompareTx(m TxObs, r RawObs) []string {
	var diff []string
	if m.Err != r.Err {
		diff = append(diff, fmt.Sprintf("outcome: model %q, observed %q (%s)", m.Err, r.Err, firstLine(r.ErrText)))
	}
	if m.Next != r.Next {
		diff = append(diff, fmt.Sprintf("uuid counter: model next=%d, observed next=%d", m.Next, r.Next))
	}
	if len(m.Logs) != len(r.Logs) {
		diff = append(diff, fmt.Sprintf("log length: model %d, observed %d", len(m.Logs), len(r.Logs)))
	} else {
		for i := range m.Logs {
			if !m.Logs[i].Equal(r.Logs[i]) {
				diff = append(diff, fmt.Sprintf("log %d: model %s, observed %s", i, m.Logs[i], r.Logs[i]))
				break
			}
		}
	}
	if !eventsOK(m.Dead, r.Events) {
		var want []string
		for _, d := range m.Dead {
			want = append(want, fmt.Sprint(evUUIDs(d)))
		}
		diff = append(diff, fmt.Sprintf("ResourceDestroyed events: model (per destroyed tree, nested first) %v, observed %v", want, r.Events))
	}
	if !storeEqual(m.Store, r.Store) {
		var ms []string
		for _, e := range m.Store {
			ms = append(ms, fmt.Sprintf("/storage/p%d=%s", e.K, e.R.Show()))
		}
		diff = append(diff, fmt.Sprintf("committed storage: model %v, observed %v", ms, r.StoreRaw))
	}
	return diff
}

func firstLine(s string) string {
	s = strings.TrimPrefix(s, "Execution failed:\n")
	if i := strings.Index(s, "\n"); i >= 0 {
		return s[:i]
	}
	return s
}

type ures struct {
	u  int64
	ev bool
}

func storeUUIDs(s []VarEnt) []ures {
	var out []ures
	var walk func(r *Rsrc)
	walk = func(r *Rsrc) {
		out = append(out, ures{r.UUID, r.Ev})
		for _, k := range r.Kids {
			walk(k.R)
		}
	}
	for _, e := range s {
		walk(e.R)
	}
	return out
}

// DirectConservation checks, on the real observations only (no model), that a successful
// transaction neither duplicated nor lost a resource:
//   - every uuid handed out in the transaction was announced by a Made event (one create each);
//   - no uuid occurs twice in committed storage, none twice among the destruction events;
//   - for the type that declares the destruction event:
//     stored-before + created = destroyed-events + stored-after, as multisets;
//   - for the type without event: stored-after is contained in stored-before + created.
func DirectConservation(before []VarEnt, prevNext int64, r RawObs) []string {
	var bad []string
	if r.Err != ENone {
		return nil
	}
	if int64(len(r.Made)) != r.Next-prevNext {
		bad = append(bad, fmt.Sprintf("%d uuids were generated but %d resources were created", r.Next-prevNext, len(r.Made)))
	}
	cnt := map[int64]int{}   // evented: before + created - destroyed - after must be 0
	avail := map[int64]int{} // non-evented: before + created
	seenAfter := map[int64]int{}
	for _, x := range storeUUIDs(before) {
		if x.ev {
			cnt[x.u]++
		} else {
			avail[x.u]++
		}
	}
	for _, m := range r.Made {
		if m[0] < prevNext || m[0] >= r.Next {
			bad = append(bad, fmt.Sprintf("created uuid %d outside the range handed out [%d,%d)", m[0], prevNext, r.Next))
		}
		if m[1] == 1 {
			cnt[m[0]]++
		} else {
			avail[m[0]]++
		}
	}
	seenEv := map[int64]int{}
	for _, e := range r.Events {
		seenEv[e[0]]++
		cnt[e[0]]--
	}
	for _, x := range storeUUIDs(r.Store) {
		seenAfter[x.u]++
		if x.ev {
			cnt[x.u]--
		} else if avail[x.u] == 0 {
			bad = append(bad, fmt.Sprintf("stored resource %d (no destruction event type) was neither stored before nor created", x.u))
		}
	}
	var keys []int64
	for u := range cnt {
		keys = append(keys, u)
	}
	sort.Slice(keys, func(i, j int) bool { return keys[i] < keys[j] })
	for _, u := range keys {
		switch c := cnt[u]; {
		case c > 0:
			bad = append(bad, fmt.Sprintf("resource %d is lost: created or stored before, but neither destroyed (no event) nor in storage afterwards", u))
		case c < 0:
			bad = append(bad, fmt.Sprintf("resource %d is duplicated: destroyed/stored more often than it existed", u))
		}
	}
	for u, n := range seenAfter {
		if n > 1 {
			bad = append(bad, fmt.Sprintf("uuid %d occurs %d times in committed storage", u, n))
		}
		if seenEv[u] > 0 {
			bad = append(bad, fmt.Sprintf("uuid %d was destroyed and is still stored", u))
		}
	}
	for u, n := range seenEv {
		if n > 1 {
			bad = append(bad, fmt.Sprintf("%d destruction events for uuid %d", n, u))
		}
	}
	sort.Strings(bad)
	return bad
}
