// Package c02gen: shared program generator, Go reference model and runner for the resource
// conservation (C02) and reference invalidation (C04) checks.
package c02gen

// Contract is deployed once per host at address 0x1. R declares the default destruction event,
// Q does not. Both conform to I so that every container can hold either.
const Contract = `
access(all) contract C {

    access(all) event Made(uuid: UInt64, evented: Bool)

    access(all) resource interface I {
        access(all) var tag: Int
        access(all) var opt: @{I}?
        access(all) var arr: @[{I}]
        access(all) var dict: @{String: {I}}

        access(all) fun getTag(): Int
        access(all) fun setTag(_ t: Int)
        access(all) fun swapOpt(_ v: @{I}?): @{I}?
        access(all) fun forceOpt(_ v: @{I})
        access(all) fun xchgOpt(_ v: @{I}?): @{I}?
        access(all) fun arrAppend(_ v: @{I})
        access(all) fun arrRemove(_ i: Int): @{I}
        access(all) fun arrInsert(_ i: Int, _ v: @{I})
        access(all) fun arrSet(_ i: Int, _ v: @{I}): @{I}
        access(all) fun arrSwap(_ i: Int, _ v: @{I}): @{I}
        access(all) fun dictInsert(_ k: String, _ v: @{I}): @{I}?
        access(all) fun dictRemove(_ k: String): @{I}?
        access(all) fun dictSwap(_ k: String, _ v: @{I}?): @{I}?
    }

    access(all) resource R: I {
        access(all) event ResourceDestroyed(uuid: UInt64 = self.uuid, tag: Int = self.tag)
        access(all) var tag: Int
        access(all) var opt: @{I}?
        access(all) var arr: @[{I}]
        access(all) var dict: @{String: {I}}

        init(_ tag: Int) {
            self.tag = tag
            self.opt <- nil
            self.arr <- []
            self.dict <- {}
        }
        access(all) fun getTag(): Int { return self.tag }
        access(all) fun setTag(_ t: Int) { self.tag = t }
        access(all) fun swapOpt(_ v: @{I}?): @{I}? {
            let old <- self.opt <- v
            return <- old
        }
        access(all) fun forceOpt(_ v: @{I}) { self.opt <-! v }
        access(all) fun xchgOpt(_ v: @{I}?): @{I}? {
            var w <- v
            self.opt <-> w
            return <- w
        }
        access(all) fun arrAppend(_ v: @{I}) { self.arr.append(<-v) }
        access(all) fun arrRemove(_ i: Int): @{I} { return <- self.arr.remove(at: i) }
        access(all) fun arrInsert(_ i: Int, _ v: @{I}) { self.arr.insert(at: i, <-v) }
        access(all) fun arrSet(_ i: Int, _ v: @{I}): @{I} {
            let old <- self.arr[i] <- v
            return <- old
        }
        access(all) fun arrSwap(_ i: Int, _ v: @{I}): @{I} {
            var w <- v
            self.arr[i] <-> w
            return <- w
        }
        access(all) fun dictInsert(_ k: String, _ v: @{I}): @{I}? { return <- self.dict.insert(key: k, <-v) }
        access(all) fun dictRemove(_ k: String): @{I}? { return <- self.dict.remove(key: k) }
        access(all) fun dictSwap(_ k: String, _ v: @{I}?): @{I}? {
            var w <- v
            self.dict[k] <-> w
            return <- w
        }
    }

    access(all) resource Q: I {
        access(all) var tag: Int
        access(all) var opt: @{I}?
        access(all) var arr: @[{I}]
        access(all) var dict: @{String: {I}}

        init(_ tag: Int) {
            self.tag = tag
            self.opt <- nil
            self.arr <- []
            self.dict <- {}
        }
        access(all) fun getTag(): Int { return self.tag }
        access(all) fun setTag(_ t: Int) { self.tag = t }
        access(all) fun swapOpt(_ v: @{I}?): @{I}? {
            let old <- self.opt <- v
            return <- old
        }
        access(all) fun forceOpt(_ v: @{I}) { self.opt <-! v }
        access(all) fun xchgOpt(_ v: @{I}?): @{I}? {
            var w <- v
            self.opt <-> w
            return <- w
        }
        access(all) fun arrAppend(_ v: @{I}) { self.arr.append(<-v) }
        access(all) fun arrRemove(_ i: Int): @{I} { return <- self.arr.remove(at: i) }
        access(all) fun arrInsert(_ i: Int, _ v: @{I}) { self.arr.insert(at: i, <-v) }
        access(all) fun arrSet(_ i: Int, _ v: @{I}): @{I} {
            let old <- self.arr[i] <- v
            return <- old
        }
        access(all) fun arrSwap(_ i: Int, _ v: @{I}): @{I} {
            var w <- v
            self.arr[i] <-> w
            return <- w
        }
        access(all) fun dictInsert(_ k: String, _ v: @{I}): @{I}? { return <- self.dict.insert(key: k, <-v) }
        access(all) fun dictRemove(_ k: String): @{I}? { return <- self.dict.remove(key: k) }
        access(all) fun dictSwap(_ k: String, _ v: @{I}?): @{I}? {
            var w <- v
            self.dict[k] <-> w
            return <- w
        }
    }

    // ---- resources owned by the contract itself (a stored composite that is not a resource):
    // same three kinds of fields as a resource, same operations, as contract functions
    access(all) var opt: @{I}?
    access(all) var arr: @[{I}]
    access(all) var dict: @{String: {I}}

    init() {
        self.opt <- nil
        self.arr <- []
        self.dict <- {}
    }

    access(all) fun swapOpt(_ v: @{I}?): @{I}? {
        let old <- self.opt <- v
        return <- old
    }
    access(all) fun forceOpt(_ v: @{I}) { self.opt <-! v }
    access(all) fun xchgOpt(_ v: @{I}?): @{I}? {
        var w <- v
        self.opt <-> w
        return <- w
    }
    access(all) fun arrAppend(_ v: @{I}) { self.arr.append(<-v) }
    access(all) fun arrRemove(_ i: Int): @{I} { return <- self.arr.remove(at: i) }
    access(all) fun arrInsert(_ i: Int, _ v: @{I}) { self.arr.insert(at: i, <-v) }
    access(all) fun arrSet(_ i: Int, _ v: @{I}): @{I} {
        let old <- self.arr[i] <- v
        return <- old
    }
    access(all) fun dictInsert(_ k: String, _ v: @{I}): @{I}? { return <- self.dict.insert(key: k, <-v) }
    access(all) fun dictRemove(_ k: String): @{I}? { return <- self.dict.remove(key: k) }
    access(all) fun dictForce(_ k: String, _ v: @{I}?) { self.dict[k] <-! v }

    // rendering of what the contract owns, in the format of show (the contract itself: Q, uuid 0, tag 0)
    access(all) fun showSelf(): String {
        var s = "Q(0,0,"
        if let o = &self.opt as &{I}? {
            s = s.concat("S").concat(C.show(o))
        } else {
            s = s.concat("N")
        }
        s = s.concat(",[")
        var i = 0
        while i < self.arr.length {
            if i > 0 { s = s.concat(";") }
            s = s.concat(C.show(&self.arr[i] as &{I}))
            i = i + 1
        }
        s = s.concat("],{")
        let ks: [String] = []
        for k in self.dict.keys {
            var j = 0
            while j < ks.length && ks[j] < k { j = j + 1 }
            ks.insert(at: j, k)
        }
        var first = true
        for k in ks {
            if !first { s = s.concat(";") }
            first = false
            s = s.concat(k).concat(":").concat(C.show((&self.dict[k] as &{I}?)!))
        }
        return s.concat("})")
    }

    // every resource carries this attachment; a reference to it (or obtained through it) is a
    // reference into the resource and must die when the resource, or one enclosing it, moves
    access(all) attachment A for I {
        access(all) let k: Int
        init() { self.k = 7 }
        access(all) fun getK(): Int { return self.k }
        access(all) fun baseTag(): Int { return base.tag }
        access(all) fun baseUuid(): UInt64 { return base.uuid }
        access(all) fun setBaseTag(_ t: Int) { base.setTag(t) }
        access(all) fun baseRef(): &{I} { return base }
    }
    access(all) struct AHolder {
        access(all) let ref: &A
        init(_ r: &A) { self.ref = r }
    }
    access(all) fun ida(_ a: &A?): &A? { return a }
    access(all) fun anyId(_ a: AnyStruct): AnyStruct { return a }

    access(all) fun mkR(_ tag: Int): @R {
        let r <- attach A() to <-create R(tag)
        emit Made(uuid: r.uuid, evented: true)
        return <- r
    }

    access(all) fun mkQ(_ tag: Int): @Q {
        let r <- attach A() to <-create Q(tag)
        emit Made(uuid: r.uuid, evented: false)
        return <- r
    }

    // non-resource holders of references: a reference stored in a field / array / dictionary
    // and read back through a reference to the holder is a new reference value to the same
    // resource, and must be invalidated like every other one
    access(all) struct Holder {
        access(all) var ref: &{I}
        access(all) var opt: &{I}?
        init(_ r: &{I}) {
            self.ref = r
            self.opt = r
        }
    }
    // the same with the concrete reference type (no conversion re-wraps the reference on the way)
    access(all) struct HolderR {
        access(all) var ref: &R
        access(all) var opt: &R?
        init(_ r: &R) {
            self.ref = r
            self.opt = r
        }
    }
    access(all) fun viaHolderR(_ h: &HolderR): &R { return h.ref }
    access(all) fun viaArrayR(_ a: &[&R], _ i: Int): &R { return a[i] }
    access(all) fun viaDictR(_ d: &{String: &R}, _ k: String): &R? { return d[k] }
    access(all) fun viaHolder(_ h: &Holder): &{I} { return h.ref }
    access(all) fun viaArray(_ a: &[&{I}], _ i: Int): &{I} { return a[i] }
    access(all) fun viaDict(_ d: &{String: &{I}}, _ k: String): &{I}? { return d[k] }

    // identity on references: hides the origin of a reference from the checker's static
    // (variable-rooted) invalidation analysis, so that the run-time check is what decides
    access(all) fun idr(_ r: &{I}?): &{I}? { return r }
    access(all) fun idn(_ r: &{I}): &{I} { return r }

    access(all) fun showOpt(_ r: &{I}?): String {
        if let x = r { return C.show(x) }
        return "nil"
    }

    // canonical rendering of a resource tree (dictionary keys sorted)
    access(all) fun show(_ r: &{I}): String {
        var s = (r.isInstance(Type<@R>()) ? "R" : "Q")
        s = s.concat("(").concat(r.uuid.toString()).concat(",").concat(r.tag.toString()).concat(",")
        if let o = r.opt {
            s = s.concat("S").concat(C.show(o))
        } else {
            s = s.concat("N")
        }
        s = s.concat(",[")
        var i = 0
        while i < r.arr.length {
            if i > 0 { s = s.concat(";") }
            s = s.concat(C.show(r.arr[i]))
            i = i + 1
        }
        s = s.concat("],{")
        var first = true
        let ks: [String] = []
        for k in r.dict.keys {
            var j = 0
            while j < ks.length && ks[j] < k { j = j + 1 }
            ks.insert(at: j, k)
        }
        for k in ks {
            if !first { s = s.concat(";") }
            first = false
            s = s.concat(k).concat(":").concat(C.show(r.dict[k]!))
        }
        return s.concat("})")
    }
}
`
