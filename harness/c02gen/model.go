package c02gen

import (
	"fmt"
	"sort"
	"strings"
)

// Go rendering of coq/theories/C02/Model.v. It is used (a) by the generator, to know the
// dynamic state while it builds a program (so that most generated statements are valid and the
// interesting failures are hit on purpose), and (b) as a second, independent prediction that is
// compared with the real runs directly in Go. The authoritative model is the Coq one.

const (
	KOpt = iota
	KArr
	KDict
)

type Label struct {
	Kind int
	Key  int64
}

type Kid struct {
	L Label
	R *Rsrc
}

type Rsrc struct {
	UUID int64
	Ev   bool
	Tag  int64
	Kids []Kid
}

func (r *Rsrc) Clone() *Rsrc {
	if r == nil {
		return nil
	}
	n := &Rsrc{UUID: r.UUID, Ev: r.Ev, Tag: r.Tag}
	for _, k := range r.Kids {
		n.Kids = append(n.Kids, Kid{k.L, k.R.Clone()})
	}
	return n
}

func (r *Rsrc) UUIDs() []int64 {
	out := []int64{r.UUID}
	for _, k := range r.Kids {
		out = append(out, k.R.UUIDs()...)
	}
	return out
}

// DestroyTrace: nested first, container last (uuid, evented, tag).
type TraceEnt struct {
	UUID int64
	Ev   bool
	Tag  int64
}

func (r *Rsrc) DestroyTrace() []TraceEnt {
	var out []TraceEnt
	for _, k := range r.Kids {
		out = append(out, k.R.DestroyTrace()...)
	}
	return append(out, TraceEnt{r.UUID, r.Ev, r.Tag})
}

func (r *Rsrc) Find(u int64) *Rsrc {
	if r.UUID == u {
		return r
	}
	for _, k := range r.Kids {
		if x := k.R.Find(u); x != nil {
			return x
		}
	}
	return nil
}

func (r *Rsrc) Depth() int {
	d := 0
	for _, k := range r.Kids {
		if x := k.R.Depth(); x > d {
			d = x
		}
	}
	return d + 1
}

func (r *Rsrc) Size() int { return len(r.UUIDs()) }

// Coq term of the tree.
func (r *Rsrc) Coq() string {
	var b strings.Builder
	r.coq(&b)
	return b.String()
}

func zlit(z int64) string {
	if z < 0 {
		return fmt.Sprintf("(%d)", z)
	}
	return fmt.Sprint(z)
}

func (r *Rsrc) coq(b *strings.Builder) {
	fmt.Fprintf(b, "(Rs %s %v %s [", zlit(r.UUID), r.Ev, zlit(r.Tag))
	for i, k := range r.Kids {
		if i > 0 {
			b.WriteString(";")
		}
		switch k.L.Kind {
		case KOpt:
			b.WriteString("(KOpt,")
		case KArr:
			b.WriteString("(KArr,")
		default:
			fmt.Fprintf(b, "(KDict %s,", zlit(k.L.Key))
		}
		k.R.coq(b)
		b.WriteString(")")
	}
	b.WriteString("])")
}

func (r *Rsrc) Equal(o *Rsrc) bool {
	if r == nil || o == nil {
		return r == o
	}
	if r.UUID != o.UUID || r.Ev != o.Ev || r.Tag != o.Tag || len(r.Kids) != len(o.Kids) {
		return false
	}
	for i := range r.Kids {
		if r.Kids[i].L != o.Kids[i].L || !r.Kids[i].R.Equal(o.Kids[i].R) {
			return false
		}
	}
	return true
}

// Show renders the tree in the format of the contract's C.show.
func (r *Rsrc) Show() string {
	var b strings.Builder
	r.show(&b)
	return b.String()
}

func (r *Rsrc) show(b *strings.Builder) {
	if r.Ev {
		b.WriteString("R(")
	} else {
		b.WriteString("Q(")
	}
	fmt.Fprintf(b, "%d,%d,", r.UUID, r.Tag)
	if o := r.peek(Slot{Kind: SlOpt}); o != nil {
		b.WriteString("S")
		o.show(b)
	} else {
		b.WriteString("N")
	}
	b.WriteString(",[")
	first := true
	for _, k := range r.Kids {
		if k.L.Kind == KArr {
			if !first {
				b.WriteString(";")
			}
			first = false
			k.R.show(b)
		}
	}
	b.WriteString("],{")
	first = true
	for _, k := range r.Kids {
		if k.L.Kind == KDict {
			if !first {
				b.WriteString(";")
			}
			first = false
			b.WriteString(DictKey(k.L.Key) + ":")
			k.R.show(b)
		}
	}
	b.WriteString("})")
}

func DictKey(k int64) string { return string(rune('a' + k)) }

// ---------------------------------------------------------------- errors

type Rerr string

const (
	EInvalidRef  Rerr = "EInvalidRef"
	EForceNil    Rerr = "EForceNil"
	EForceCast   Rerr = "EForceCast"
	EIndex       Rerr = "EIndex"
	EOverwrite   Rerr = "EOverwrite"
	EForceAssign Rerr = "EForceAssign"
	EDeref       Rerr = "EDeref"
	EStoredType  Rerr = "EStoredType"
	EInternal    Rerr = "EInternal"
	EStatic      Rerr = "EStatic"
	ELoss        Rerr = "ELoss"
	EOther       Rerr = "EOther"
	ENone        Rerr = ""
)

// ---------------------------------------------------------------- state

type Rty int

const (
	TI Rty = iota
	TR
	TQ
)

func (t Rty) Coq() string { return [...]string{"TI", "TR", "TQ"}[t] }

func (t Rty) Has(r *Rsrc) bool {
	switch t {
	case TR:
		return r.Ev
	case TQ:
		return !r.Ev
	}
	return true
}

const (
	RNil = iota
	REph
	RDead
	RSto
)

type Rv struct {
	Kind int
	U    int64 // REph
	P    int64 // RSto
	T    Rty
}

type LogEnt struct {
	Kind int // 0 int, 1 nil, 2 tree (Tree may be nil)
	Z    int64
	Tree *Rsrc
}

func (l LogEnt) Coq() string {
	switch l.Kind {
	case 0:
		return "LInt " + zlit(l.Z)
	case 1:
		return "LNil"
	}
	if l.Tree == nil {
		return "LTree None"
	}
	return "LTree (Some " + l.Tree.Coq() + ")"
}

func (l LogEnt) Equal(o LogEnt) bool {
	if l.Kind != o.Kind {
		return false
	}
	switch l.Kind {
	case 0:
		return l.Z == o.Z
	case 1:
		return true
	}
	return l.Tree.Equal(o.Tree)
}

func (l LogEnt) String() string {
	switch l.Kind {
	case 0:
		return fmt.Sprint(l.Z)
	case 1:
		return "nil"
	}
	if l.Tree == nil {
		return "tree:nil"
	}
	return l.Tree.Show()
}

type VarEnt struct {
	K int64
	R *Rsrc
}

type RefEnt struct {
	K int64
	V Rv
}

type State struct {
	Vars  []VarEnt // newest first, like the Coq association list
	Refs  []RefEnt
	Store []VarEnt
	Next  int64
	Dead  []*Rsrc
	Logs  []LogEnt
}

func assocV(l []VarEnt, k int64) (int, *Rsrc) {
	for i, e := range l {
		if e.K == k {
			return i, e.R
		}
	}
	return -1, nil
}

func removeAt(l []VarEnt, i int) []VarEnt {
	out := make([]VarEnt, 0, len(l))
	out = append(out, l[:i]...)
	return append(out, l[i+1:]...)
}

func (st *State) Var(k int64) *Rsrc   { _, r := assocV(st.Vars, k); return r }
func (st *State) Stored(p int64) *Rsrc { _, r := assocV(st.Store, p); return r }

func (st *State) Ref(k int64) (Rv, bool) {
	for _, e := range st.Refs {
		if e.K == k {
			return e.V, true
		}
	}
	return Rv{}, false
}

func (st *State) FindSt(u int64) *Rsrc {
	for _, e := range st.Vars {
		if x := e.R.Find(u); x != nil {
			return x
		}
	}
	for _, e := range st.Store {
		if x := e.R.Find(u); x != nil {
			return x
		}
	}
	return nil
}

func (st *State) Clone() *State {
	n := &State{Next: st.Next}
	for _, e := range st.Vars {
		n.Vars = append(n.Vars, VarEnt{e.K, e.R.Clone()})
	}
	for _, e := range st.Store {
		n.Store = append(n.Store, VarEnt{e.K, e.R.Clone()})
	}
	n.Refs = append(n.Refs, st.Refs...)
	for _, d := range st.Dead {
		n.Dead = append(n.Dead, d.Clone())
	}
	n.Logs = append(n.Logs, st.Logs...)
	return n
}

func (st *State) invalidate(us []int64) {
	set := map[int64]bool{}
	for _, u := range us {
		set[u] = true
	}
	for i := range st.Refs {
		if st.Refs[i].V.Kind == REph && set[st.Refs[i].V.U] {
			st.Refs[i].V = Rv{Kind: RDead}
		}
	}
}

// ---------------------------------------------------------------- slots

const (
	SlOpt = iota
	SlArr
	SlArrEnd
	SlDict
)

type Slot struct {
	Kind int
	I    int   // SlArr
	K    int64 // SlDict
}

func (s Slot) Coq() string {
	switch s.Kind {
	case SlOpt:
		return "SlOpt"
	case SlArr:
		return fmt.Sprintf("(SlArr %d)", s.I)
	case SlArrEnd:
		return "SlArrEnd"
	}
	return fmt.Sprintf("(SlDict %s)", zlit(s.K))
}

// position of the kid designated by the slot, or -1
func (r *Rsrc) pos(s Slot) int {
	n := 0
	for i, k := range r.Kids {
		switch {
		case s.Kind == SlOpt && k.L.Kind == KOpt:
			return i
		case s.Kind == SlArr && k.L.Kind == KArr:
			if n == s.I {
				return i
			}
			n++
		case s.Kind == SlDict && k.L.Kind == KDict && k.L.Key == s.K:
			return i
		}
	}
	return -1
}

func (r *Rsrc) peek(s Slot) *Rsrc {
	if i := r.pos(s); i >= 0 {
		return r.Kids[i].R
	}
	return nil
}

func (r *Rsrc) ArrLen() int {
	n := 0
	for _, k := range r.Kids {
		if k.L.Kind == KArr {
			n++
		}
	}
	return n
}

func (r *Rsrc) DictKeys() []int64 {
	var ks []int64
	for _, k := range r.Kids {
		if k.L.Kind == KDict {
			ks = append(ks, k.L.Key)
		}
	}
	return ks
}

func (r *Rsrc) insertAt(i int, k Kid) {
	r.Kids = append(r.Kids, Kid{})
	copy(r.Kids[i+1:], r.Kids[i:])
	r.Kids[i] = k
}

func (r *Rsrc) takeSlot(s Slot) (*Rsrc, Rerr) {
	if s.Kind == SlArrEnd {
		return nil, EStatic
	}
	i := r.pos(s)
	if i < 0 {
		if s.Kind == SlArr {
			return nil, EIndex
		}
		return nil, ENone
	}
	c := r.Kids[i].R
	r.Kids = append(r.Kids[:i:i], r.Kids[i+1:]...)
	return c, ENone
}

func (r *Rsrc) putSlot(s Slot, c *Rsrc) Rerr {
	switch s.Kind {
	case SlOpt:
		if r.pos(s) >= 0 {
			return EForceAssign
		}
		if c != nil {
			r.insertAt(0, Kid{Label{Kind: KOpt}, c})
		}
	case SlDict:
		if r.pos(s) >= 0 {
			return EForceAssign
		}
		if c != nil {
			i := 0
			for i < len(r.Kids) && !(r.Kids[i].L.Kind == KDict && s.K < r.Kids[i].L.Key) {
				i++
			}
			r.insertAt(i, Kid{Label{KDict, s.K}, c})
		}
	case SlArr, SlArrEnd:
		if c == nil {
			return EStatic
		}
		idx := s.I
		if s.Kind == SlArrEnd {
			idx = r.ArrLen()
		}
		// walk like put_arr: skip KOpt, count KArr, stop at first KDict / end
		i, n := 0, 0
		for i < len(r.Kids) {
			k := r.Kids[i].L.Kind
			if k == KOpt {
				i++
				continue
			}
			if k == KArr {
				if n == idx {
					break
				}
				n++
				i++
				continue
			}
			break
		}
		if n != idx {
			return EIndex
		}
		r.insertAt(i, Kid{Label{Kind: KArr}, c})
	}
	return ENone
}

// ---------------------------------------------------------------- commands

type Base struct {
	Ref bool
	X   int64
	Sto bool // the value stored at path X, accessed in place (the contract)
}

// ContractPath is where the model keeps the contract's pseudo-resource (uuid 0, no event).
const ContractPath = 100

func InitPState(next int64) *PState {
	return &PState{Next: next, Store: []VarEnt{{ContractPath, &Rsrc{}}}}
}

func (b Base) Coq() string {
	if b.Sto {
		return fmt.Sprintf("(BSto %d)", b.X)
	}
	if b.Ref {
		return fmt.Sprintf("(BRef %d)", b.X)
	}
	return fmt.Sprintf("(BVar %d)", b.X)
}

const (
	PVar = iota
	PSto
	PChild
)

type Place struct {
	Kind int
	X    int64 // var index / path
	B    Base
	S    Slot
}

func (p Place) Coq() string {
	switch p.Kind {
	case PVar:
		return fmt.Sprintf("(PVar %d)", p.X)
	case PSto:
		return fmt.Sprintf("(PSto %d)", p.X)
	}
	return fmt.Sprintf("(PChild %s %s)", p.B.Coq(), p.S.Coq())
}

const (
	SPlace = iota
	SNew
	SNil
)

type Src struct {
	Kind int
	Pl   Place
	Req  bool
	Cast *Rty
	Ev   bool
	Tag  int64
}

func (s Src) Coq() string {
	switch s.Kind {
	case SNew:
		return fmt.Sprintf("(SNew %v %s)", s.Ev, zlit(s.Tag))
	case SNil:
		return "SNil"
	}
	cast := "None"
	if s.Cast != nil {
		cast = "(Some " + s.Cast.Coq() + ")"
	}
	return fmt.Sprintf("(SPlace %s %v %s)", s.Pl.Coq(), s.Req, cast)
}

const (
	UTag = iota
	UCall
	UUuid
	ULen
	UDLen
	UOptTag
	UShow
	UAtt
)

var useNames = [...]string{"UTag", "UCall", "UUuid", "ULen", "UDLen", "UOptTag", "UShow", "UAtt"}

const (
	CXfer = iota
	CDestroy
	CSetTag
	CRefVar
	CRefStep
	CRefUnwrap
	CRefCast
	CBorrow
	CUse
	CShowVar
	CRefCopy
)

type Cmd struct {
	Op     int
	D      Place // CXfer
	S      Src   // CXfer
	X      int64 // CDestroy/CRefVar/CShowVar: variable; CBorrow: path
	B      Base  // CSetTag/CRefStep
	T      int64 // CSetTag
	R      int64 // new reference / used reference
	R0     int64 // source reference
	Sl     Slot  // CRefStep
	Ty     Rty
	Forced bool
	K      int // CUse
}

func (c Cmd) Coq() string {
	switch c.Op {
	case CXfer:
		return fmt.Sprintf("CXfer %s %s", c.D.Coq(), c.S.Coq())
	case CDestroy:
		return fmt.Sprintf("CDestroy %d", c.X)
	case CSetTag:
		return fmt.Sprintf("CSetTag %s %s", c.B.Coq(), zlit(c.T))
	case CRefVar:
		return fmt.Sprintf("CRefVar %d %d", c.R, c.X)
	case CRefStep:
		return fmt.Sprintf("CRefStep %d %s %s", c.R, c.B.Coq(), c.Sl.Coq())
	case CRefUnwrap:
		return fmt.Sprintf("CRefUnwrap %d %d", c.R, c.R0)
	case CRefCast:
		return fmt.Sprintf("CRefCast %d %d %s %v", c.R, c.R0, c.Ty.Coq(), c.Forced)
	case CBorrow:
		return fmt.Sprintf("CBorrow %d %d %s", c.R, c.X, c.Ty.Coq())
	case CUse:
		return fmt.Sprintf("CUse %d %s", c.R, useNames[c.K])
	case CShowVar:
		return fmt.Sprintf("CShowVar %d", c.X)
	case CRefCopy:
		return fmt.Sprintf("CRefCopy %d %d", c.R, c.R0)
	}
	panic("cmd")
}

func (st *State) derefSto(p int64, t Rty) (*Rsrc, Rerr) {
	r := st.Stored(p)
	if r == nil || !t.Has(r) {
		return nil, EDeref
	}
	return r, ENone
}

func (st *State) resolveRv(v Rv) (*Rsrc, Rerr) {
	switch v.Kind {
	case RNil:
		return nil, EStatic
	case RDead:
		return nil, EInvalidRef
	case REph:
		if r := st.FindSt(v.U); r != nil {
			return r, ENone
		}
		return nil, EInternal
	}
	return st.derefSto(v.P, v.T)
}

func (st *State) baseRes(b Base) (*Rsrc, Rerr) {
	if b.Sto {
		if r := st.Stored(b.X); r != nil {
			return r, ENone
		}
		return nil, EStatic
	}
	if !b.Ref {
		if r := st.Var(b.X); r != nil {
			return r, ENone
		}
		return nil, EStatic
	}
	v, ok := st.Ref(b.X)
	if !ok {
		return nil, EStatic
	}
	return st.resolveRv(v)
}

func (st *State) takePlace(pl Place) (*Rsrc, Rerr) {
	switch pl.Kind {
	case PVar:
		i, r := assocV(st.Vars, pl.X)
		if i >= 0 {
			st.Vars = removeAt(st.Vars, i)
		}
		return r, ENone
	case PSto:
		i, r := assocV(st.Store, pl.X)
		if i >= 0 {
			st.Store = removeAt(st.Store, i)
		}
		return r, ENone
	}
	b, e := st.baseRes(pl.B)
	if e != ENone {
		return nil, e
	}
	return b.takeSlot(pl.S)
}

func (st *State) putPlace(pl Place, c *Rsrc) Rerr {
	switch pl.Kind {
	case PVar:
		if st.Var(pl.X) != nil {
			return EForceAssign
		}
		if c != nil {
			st.Vars = append([]VarEnt{{pl.X, c}}, st.Vars...)
		}
		return ENone
	case PSto:
		if c == nil {
			return EStatic
		}
		if st.Stored(pl.X) != nil {
			return EOverwrite
		}
		st.Store = append([]VarEnt{{pl.X, c}}, st.Store...)
		return ENone
	}
	b, e := st.baseRes(pl.B)
	if e != ENone {
		return e
	}
	return b.putSlot(pl.S, c)
}

func (st *State) setRef(r int64, v Rv) Rerr {
	if _, ok := st.Ref(r); ok {
		return EStatic
	}
	st.Refs = append([]RefEnt{{r, v}}, st.Refs...)
	return ENone
}

func rvOf(r *Rsrc) Rv {
	if r == nil {
		return Rv{Kind: RNil}
	}
	return Rv{Kind: REph, U: r.UUID}
}

// Step executes one command in place. On failure the state may be partially updated (the
// transaction is aborted anyway), except that Next/Logs/Dead are meaningful up to the failure.
func (st *State) Step(c Cmd) Rerr {
	switch c.Op {
	case CXfer:
		if c.D.Kind == PChild {
			if _, e := st.baseRes(c.D.B); e != ENone {
				return e
			}
		}
		var v *Rsrc
		switch c.S.Kind {
		case SNil:
		case SNew:
			v = &Rsrc{UUID: st.Next, Ev: c.S.Ev, Tag: c.S.Tag}
			st.Next++
		default:
			// peek first so that a failing cast/unwrap leaves the state untouched
			x, e := st.takePlace(c.S.Pl)
			if e != ENone {
				return e
			}
			if x == nil {
				if c.S.Req {
					return EForceNil
				}
			} else if c.S.Cast != nil && !c.S.Cast.Has(x) {
				if c.S.Pl.Kind == PSto {
					return EStoredType
				}
				return EForceCast
			}
			v = x
		}
		if v != nil {
			st.invalidate(v.UUIDs())
		}
		return st.putPlace(c.D, v)
	case CDestroy:
		i, r := assocV(st.Vars, c.X)
		if i < 0 {
			return ENone
		}
		st.Vars = removeAt(st.Vars, i)
		st.invalidate(r.UUIDs())
		st.Dead = append(st.Dead, r)
		return ENone
	case CSetTag:
		r, e := st.baseRes(c.B)
		if e != ENone {
			return e
		}
		r.Tag = c.T
		return ENone
	case CRefVar:
		return st.setRef(c.R, rvOf(st.Var(c.X)))
	case CRefStep:
		p, e := st.baseRes(c.B)
		if e != ENone {
			return e
		}
		switch c.Sl.Kind {
		case SlArrEnd:
			return EStatic
		case SlArr:
			k := p.peek(c.Sl)
			if k == nil {
				return EIndex
			}
			return st.setRef(c.R, rvOf(k))
		}
		return st.setRef(c.R, rvOf(p.peek(c.Sl)))
	case CRefUnwrap:
		v, ok := st.Ref(c.R0)
		if !ok {
			return EStatic
		}
		switch v.Kind {
		case RNil:
			return EForceNil
		case RDead:
			return EInvalidRef
		}
		return st.setRef(c.R, v)
	case CRefCast:
		v, ok := st.Ref(c.R0)
		if !ok {
			return EStatic
		}
		switch v.Kind {
		case REph:
			p, e := st.resolveRv(v)
			if e != ENone {
				return e
			}
			if c.Ty.Has(p) {
				return st.setRef(c.R, v)
			}
			if c.Forced {
				return EForceCast
			}
			return st.setRef(c.R, Rv{Kind: RNil})
		case RDead:
			return EInvalidRef
		}
		return EStatic
	case CBorrow:
		x := st.Stored(c.X)
		if x == nil {
			return st.setRef(c.R, Rv{Kind: RNil})
		}
		if !c.Ty.Has(x) {
			return EStoredType
		}
		return st.setRef(c.R, Rv{Kind: RSto, P: c.X, T: c.Ty})
	case CUse:
		v, ok := st.Ref(c.R)
		if !ok {
			return EStatic
		}
		if v.Kind == RNil {
			if c.K == UOptTag {
				st.Logs = append(st.Logs, LogEnt{Kind: 1})
				return ENone
			}
			return EStatic
		}
		p, e := st.resolveRv(v)
		if e != ENone {
			return e
		}
		switch c.K {
		case UTag, UCall, UOptTag:
			st.Logs = append(st.Logs, LogEnt{Kind: 0, Z: p.Tag})
		case UUuid:
			st.Logs = append(st.Logs, LogEnt{Kind: 0, Z: p.UUID})
		case ULen:
			st.Logs = append(st.Logs, LogEnt{Kind: 0, Z: int64(p.ArrLen())})
		case UDLen:
			st.Logs = append(st.Logs, LogEnt{Kind: 0, Z: int64(len(p.DictKeys()))})
		case UShow:
			st.Logs = append(st.Logs, LogEnt{Kind: 2, Tree: p.Clone()})
		case UAtt:
			st.Logs = append(st.Logs, LogEnt{Kind: 0, Z: 7})
		}
		return ENone
	case CShowVar:
		st.Logs = append(st.Logs, LogEnt{Kind: 2, Tree: st.Var(c.X).Clone()})
		return ENone
	case CRefCopy:
		v, ok := st.Ref(c.R0)
		if !ok {
			return EStatic
		}
		if v.Kind == RDead {
			return EInvalidRef
		}
		return st.setRef(c.R, v)
	}
	panic("step")
}

// TxObs is what the model predicts for one transaction.
type TxObs struct {
	Err   Rerr
	Next  int64
	Logs  []LogEnt
	Dead  []*Rsrc
	Store []VarEnt // sorted by path
}

type PState struct {
	Store []VarEnt
	Next  int64
}

func sortedStore(s []VarEnt) []VarEnt {
	out := make([]VarEnt, 0, len(s))
	for _, e := range s {
		out = append(out, VarEnt{e.K, e.R.Clone()})
	}
	sort.SliceStable(out, func(i, j int) bool { return out[i].K < out[j].K })
	return out
}

func BeginTx(p *PState) *State {
	st := &State{Next: p.Next}
	for _, e := range p.Store {
		st.Store = append(st.Store, VarEnt{e.K, e.R.Clone()})
	}
	return st
}

// FinishTx turns the state reached by a transaction (and the error, if any) into the
// observation and the next persistent state.
func FinishTx(p *PState, st *State, e Rerr) (*PState, TxObs) {
	if e == ENone && len(st.Vars) > 0 {
		e = ELoss
	}
	if e != ENone {
		return &PState{Store: p.Store, Next: st.Next},
			TxObs{Err: e, Next: st.Next, Logs: st.Logs, Dead: st.Dead, Store: sortedStore(p.Store)}
	}
	return &PState{Store: st.Store, Next: st.Next},
		TxObs{Next: st.Next, Logs: st.Logs, Dead: st.Dead, Store: sortedStore(st.Store)}
}

func RunTxModel(p *PState, cs []Cmd) (*PState, TxObs) {
	st := BeginTx(p)
	var err Rerr
	for _, c := range cs {
		if e := st.Step(c); e != ENone {
			err = e
			break
		}
	}
	return FinishTx(p, st, err)
}
