package c02gen

import (
	"encoding/json"
	"os"
	"path/filepath"
	"strings"
)

// Hand-picked histories (written to corpus/C02 by `c02 -mkcorpus`, loaded from there by every
// run). They pin the known defect and a few structurally important cases.

func st(kind, src string, cmds ...Cmd) Stmt { return Stmt{Kind: kind, Src: src, Cmds: cmds} }

func mk(v int64, opt bool, ev bool, tag int64) Stmt {
	f := "mkQ"
	if ev {
		f = "mkR"
	}
	return st("create", "var "+vname(v)+": "+ty(opt)+" <- C."+f+"("+zlit(tag)+")",
		xfer(pvar(v), Src{Kind: SNew, Ev: ev, Tag: tag}))
}

func appendTo(b, s int64) Stmt {
	return st("arrAppend", vname(b)+".arr.append(<-"+vname(s)+")",
		xfer(pchild(Base{X: b}, Slot{Kind: SlArrEnd}), splace(pvar(s), false)))
}

func destroyV(v int64) Stmt { return st("destroy", "destroy "+vname(v), Cmd{Op: CDestroy, X: v}) }

func saveV(v, p int64) Stmt {
	return st("save", "acct.storage.save(<-"+vname(v)+", to: /storage/p"+zlit(p)+")", xfer(psto(p), splace(pvar(v), false)))
}

// save an optional variable known to be full
func saveV2(v, p int64) Stmt {
	return st("save", "acct.storage.save(<-"+vname(v)+"!, to: /storage/p"+zlit(p)+")", xfer(psto(p), splace(pvar(v), true)))
}

func corpusHistories() map[string]*History {
	out := map[string]*History{}

	// known defect: swap statement whose operand indexes a resource-typed field (owned access)
	swapArr := Stmt{Kind: "swapIdxArr", SwapIdx: true, Src: "x1.arr[0] <-> x4",
		Cmds: swap3(pchild(Base{X: 1}, Slot{Kind: SlArr, I: 0}), pvar(4), 99)}
	out["swap_index_array_owned"] = &History{SwapIdx: true, Txs: []*Tx{{Stmts: []Stmt{
		mk(1, false, false, 2), mk(2, false, true, 6), appendTo(1, 2), mk(3, false, true, 8), appendTo(1, 3),
		mk(4, false, true, 7), swapArr, destroyV(4), destroyV(1)}}}}

	// same through a method (`self.dict[k] <-> w` inside the resource)
	out["swap_index_dict_method"] = &History{SwapIdx: true, Txs: []*Tx{{Stmts: []Stmt{
		mk(1, false, true, 2), mk(2, true, true, 7),
		st("refVar", "let r3 = C.idn(&x1 as &{C.I})", Cmd{Op: CRefVar, R: 3, X: 1}),
		{Kind: "swapIdxDict", SwapIdx: true, Src: `var x4: @{C.I}? <- r3.dictSwap("a", <-x2)`,
			Cmds: []Cmd{xfer(pvar(4), splace(pchild(Base{Ref: true, X: 3}, Slot{Kind: SlDict, K: 0}), false)),
				xfer(pchild(Base{Ref: true, X: 3}, Slot{Kind: SlDict, K: 0}), splace(pvar(2), false))}},
		destroyV(4), saveV(1, 0)}}}}

	// three levels of nesting through all container kinds, destroyed at once: events nested first
	out["nested_destroy_events"] = &History{Txs: []*Tx{{Stmts: []Stmt{
		mk(1, false, true, 1), mk(2, false, false, 2), mk(3, false, true, 3), mk(4, false, true, 4), mk(5, false, true, 5),
		appendTo(2, 3),
		st("forceOpt", "x2.forceOpt(<-x4)", xfer(pchild(Base{X: 2}, Slot{Kind: SlOpt}), splace(pvar(4), false))),
		st("dictForce", `x1.dict["b"] <-! x2`, xfer(pchild(Base{X: 1}, Slot{Kind: SlDict, K: 1}), splace(pvar(2), false))),
		appendTo(1, 5),
		st("showVar", "log(C.show(&x1 as &{C.I}))", Cmd{Op: CShowVar, X: 1}),
		destroyV(1)}}}}

	// save nested, load in a later transaction, partially dismantle, store again
	out["storage_roundtrip"] = &History{Txs: []*Tx{
		{Stmts: []Stmt{mk(1, false, true, 1), mk(2, false, false, 2), mk(3, false, true, 3),
			appendTo(2, 3), appendTo(1, 2), saveV(1, 0)}},
		{Stmts: []Stmt{
			st("load", "var x4: @{C.I}? <- acct.storage.load<@{C.I}>(from: /storage/p0)", xfer(pvar(4), Src{Kind: SPlace, Pl: psto(0), Cast: rtyp(TI)})),
			st("unwrap", "var x5: @{C.I} <- x4!", xfer(pvar(5), splace(pvar(4), true))),
			st("arrRemove", "var x6: @{C.I} <- x5.arr.remove(at: 0)", xfer(pvar(6), splace(pchild(Base{X: 5}, Slot{Kind: SlArr, I: 0}), false))),
			destroyV(5), saveV(6, 1)}},
		{Stmts: []Stmt{
			st("load", "var x7: @{C.I}? <- acct.storage.load<@C.Q>(from: /storage/p1)", xfer(pvar(7), Src{Kind: SPlace, Pl: psto(1), Cast: rtyp(TQ)})),
			destroyV(7)}},
	}}

	// references to outer and nested resources, taken before a move, used after it
	out["ref_nested_after_move"] = &History{Txs: []*Tx{{Stmts: []Stmt{
		mk(1, false, false, 2), mk(2, false, true, 6), appendTo(1, 2),
		st("refStep", "let r3 = C.idn(&x1.arr[0] as &{C.I})", Cmd{Op: CRefStep, R: 3, B: Base{X: 1}, Sl: Slot{Kind: SlArr, I: 0}}),
		st("use:UTag", "log(r3.tag)", Cmd{Op: CUse, R: 3, K: UTag}),
		st("moveVar", "var x4: @{C.I} <- x1", xfer(pvar(4), splace(pvar(1), false))),
		st("use:UTag", "log(r3.tag)", Cmd{Op: CUse, R: 3, K: UTag}),
		destroyV(4)}}}}

	// a reference survives mutation of its target and of siblings, and reads current contents
	out["ref_stable"] = &History{Txs: []*Tx{{Stmts: []Stmt{
		mk(1, false, false, 2), mk(2, false, true, 6), mk(3, false, true, 7), appendTo(1, 2), appendTo(1, 3),
		st("refStep", "let r4 = C.idn(&x1.arr[1] as &{C.I})", Cmd{Op: CRefStep, R: 4, B: Base{X: 1}, Sl: Slot{Kind: SlArr, I: 1}}),
		st("arrRemove", "var x5: @{C.I} <- x1.arr.remove(at: 0)", xfer(pvar(5), splace(pchild(Base{X: 1}, Slot{Kind: SlArr, I: 0}), false))),
		st("setTag", "r4.setTag(70)", Cmd{Op: CSetTag, B: Base{Ref: true, X: 4}, T: 70}),
		st("use:UShow", "log(C.show(r4))", Cmd{Op: CUse, R: 4, K: UShow}),
		st("showVar", "log(C.show(&x1 as &{C.I}))", Cmd{Op: CShowVar, X: 1}),
		destroyV(5), destroyV(1)}}}}

	// storage reference follows what is stored at the path
	out["storage_ref_current"] = &History{Txs: []*Tx{{Stmts: []Stmt{
		mk(1, false, false, 2), saveV(1, 0),
		st("borrow", "let r2 = acct.storage.borrow<&{C.I}>(from: /storage/p0)", Cmd{Op: CBorrow, R: 2, X: 0, Ty: TI}),
		st("useOpt", "log(r2?.tag)", Cmd{Op: CUse, R: 2, K: UOptTag}),
		st("load", "var x3: @{C.I}? <- acct.storage.load<@{C.I}>(from: /storage/p0)", xfer(pvar(3), Src{Kind: SPlace, Pl: psto(0), Cast: rtyp(TI)})),
		destroyV(3), mk(4, false, true, 9), saveV(4, 0),
		st("useOpt", "log(r2?.tag)", Cmd{Op: CUse, R: 2, K: UOptTag})}}}}

	// resources owned by the contract (a stored composite that is not a resource): force-assignment
	// onto the occupied optional field must fail and roll back; swap / second-value / array and
	// dictionary fields; accounting includes what the contract owns
	con := Base{Sto: true, X: ContractPath}
	out["contract_force_assign_occupied"] = &History{Txs: []*Tx{
		{Stmts: []Stmt{mk(1, false, true, 1), mk(2, false, false, 2), appendTo(1, 2),
			st("forceOpt", "C.forceOpt(<-x1)", xfer(pchild(con, Slot{Kind: SlOpt}), splace(pvar(1), false)))}},
		{Stmts: []Stmt{mk(3, false, true, 3),
			st("forceOpt", "C.forceOpt(<-x3)", xfer(pchild(con, Slot{Kind: SlOpt}), splace(pvar(3), false)))}},
		{Stmts: []Stmt{mk(4, false, true, 4),
			st("xchgOpt", "var x5: @{C.I}? <- C.xchgOpt(<-x4)", xfer(pvar(6), splace(pvar(4), false)),
				xfer(pvar(5), splace(pchild(con, Slot{Kind: SlOpt}), false)), xfer(pchild(con, Slot{Kind: SlOpt}), splace(pvar(6), false))),
			destroyV(5)}},
		{Stmts: []Stmt{
			st("takeOpt", "var x7: @{C.I}? <- C.swapOpt(nil)", xfer(pvar(7), splace(pchild(con, Slot{Kind: SlOpt}), false))),
			destroyV(7)}}}}
	out["contract_array_dict"] = &History{Txs: []*Tx{
		{Stmts: []Stmt{mk(1, false, true, 1), mk(2, false, true, 2), mk(3, false, false, 3),
			st("arrAppend", "C.arrAppend(<-x1)", xfer(pchild(con, Slot{Kind: SlArrEnd}), splace(pvar(1), false))),
			st("arrInsert", "C.arrInsert(0, <-x2)", xfer(pchild(con, Slot{Kind: SlArr, I: 0}), splace(pvar(2), false))),
			st("dictForce:contract", `C.dictForce("b", <-x3)`, xfer(pchild(con, Slot{Kind: SlDict, K: 1}), splace(pvar(3), false)))}},
		{Stmts: []Stmt{mk(4, false, true, 4),
			st("dictForce:contract", `C.dictForce("b", <-x4)`, xfer(pchild(con, Slot{Kind: SlDict, K: 1}), splace(pvar(4), false)))}},
		{Stmts: []Stmt{
			st("arrRemove", "var x5: @{C.I} <- C.arrRemove(1)", xfer(pvar(5), splace(pchild(con, Slot{Kind: SlArr, I: 1}), false))),
			st("dictRemove", `var x6: @{C.I}? <- C.dictRemove("b")`, xfer(pvar(6), splace(pchild(con, Slot{Kind: SlDict, K: 1}), false))),
			destroyV(5), saveV2(6, 1)}}}}

	// known defect (both engines): force-assignment onto an occupied resource field of the
	// TRANSACTION (a SimpleCompositeValue) is not checked: the old occupant silently disappears
	out["txfield_force_assign_occupied"] = &History{KnownKey: "force-assign-occupied-transaction-field", KnownEngine: "*",
		Txs: []*Tx{{Raw: `import C from 0x1
transaction {
  var f: @{C.I}?
  prepare(acct: auth(Storage) &Account) {
    self.f <- C.mkR(10)
  }
  execute {
    self.f <-! C.mkR(11)
    log(self.f?.tag)
    destroy self.f
  }
}
`, Stmts: []Stmt{
			st("create", "", xfer(pvar(1), Src{Kind: SNew, Ev: true, Tag: 10})),
			st("create", "", xfer(pvar(2), Src{Kind: SNew, Ev: true, Tag: 11})),
			st("forceAssign", "", xfer(pvar(1), splace(pvar(2), false))),
			destroyV(1)}}}}

	// C04: references through optional field / dictionary value / cast, outer moved by swap,
	// second-value transfer, save; nested reference must die with the outer resource
	refOpt := st("refStep", "let r5 = C.idr(&x1.opt as &{C.I}?)", Cmd{Op: CRefStep, R: 5, B: Base{X: 1}, Sl: Slot{Kind: SlOpt}})
	refDict := st("refStep", `let r6 = C.idr(&x1.dict["a"] as &{C.I}?)`, Cmd{Op: CRefStep, R: 6, B: Base{X: 1}, Sl: Slot{Kind: SlDict, K: 0}})
	build := []Stmt{mk(1, false, false, 1), mk(2, false, true, 2), mk(3, false, true, 3),
		st("forceOpt", "x1.forceOpt(<-x2)", xfer(pchild(Base{X: 1}, Slot{Kind: SlOpt}), splace(pvar(2), false))),
		st("dictForce", `x1.dict["a"] <-! x3`, xfer(pchild(Base{X: 1}, Slot{Kind: SlDict, K: 0}), splace(pvar(3), false))),
		refOpt, refDict,
		st("useOpt", "log(r5?.tag)", Cmd{Op: CUse, R: 5, K: UOptTag}),
		st("useOpt", "log(r6?.tag)", Cmd{Op: CUse, R: 6, K: UOptTag})}
	cat := func(a []Stmt, b ...Stmt) []Stmt { return append(append([]Stmt{}, a...), b...) }
	out["c04_nested_opt_after_swap"] = &History{Txs: []*Tx{{Stmts: cat(build,
		mk(7, false, false, 7),
		Stmt{Kind: "swapVars", Src: "x1 <-> x7", Cmds: swap3(pvar(1), pvar(7), 98)},
		st("useOpt", "log(r5?.tag)", Cmd{Op: CUse, R: 5, K: UOptTag}),
		destroyV(1), destroyV(7))}}}
	out["c04_nested_dict_after_save"] = &History{Txs: []*Tx{{Stmts: cat(build,
		saveV(1, 2),
		st("useOpt", "log(r6?.tag)", Cmd{Op: CUse, R: 6, K: UOptTag}))}}}
	out["c04_nested_after_second_value"] = &History{Txs: []*Tx{{Stmts: cat(build,
		mk(7, false, false, 7),
		st("second", "var x8: @{C.I} <- x1 <- x7", xfer(pvar(8), splace(pvar(1), false)), xfer(pvar(1), splace(pvar(7), false))),
		st("useOpt", "log(r6?.tag)", Cmd{Op: CUse, R: 6, K: UOptTag}),
		destroyV(1), destroyV(8))}}}
	out["c04_nested_after_destroy"] = &History{Txs: []*Tx{{Stmts: cat(build,
		destroyV(1),
		st("useOpt", "log(r5?.tag)", Cmd{Op: CUse, R: 5, K: UOptTag}))}}}
	out["c04_taken_out_of_dict"] = &History{Txs: []*Tx{{Stmts: cat(build,
		st("dictRemove", `var x9: @{C.I}? <- x1.dict.remove(key: "a")`, xfer(pvar(9), splace(pchild(Base{X: 1}, Slot{Kind: SlDict, K: 0}), false))),
		st("useOpt", "log(r5?.tag)", Cmd{Op: CUse, R: 5, K: UOptTag}),
		st("useOpt", "log(r6?.tag)", Cmd{Op: CUse, R: 6, K: UOptTag}),
		destroyV(9), destroyV(1))}}}
	out["c04_cast_then_move"] = &History{Txs: []*Tx{{Stmts: []Stmt{
		mk(1, false, true, 1),
		st("refVar", "let r2 = C.idn(&x1 as &{C.I})", Cmd{Op: CRefVar, R: 2, X: 1}),
		st("refCast", "let r3: &{C.I} = r2 as! &C.R", Cmd{Op: CRefCast, R: 3, R0: 2, Ty: TR, Forced: true}),
		st("refCast", "let r4: &{C.I}? = r2 as? &C.Q", Cmd{Op: CRefCast, R: 4, R0: 2, Ty: TQ}),
		st("useOpt", "log(r4?.tag)", Cmd{Op: CUse, R: 4, K: UOptTag}),
		mk(5, false, false, 5), appendTo(5, 1),
		st("use:UCall", "log(r3.getTag())", Cmd{Op: CUse, R: 3, K: UCall}),
		destroyV(5)}}}}
	out["c04_storage_nested_then_load"] = &History{Txs: []*Tx{
		{Stmts: []Stmt{mk(1, false, false, 1), mk(2, false, true, 2), appendTo(1, 2), saveV(1, 0)}},
		{Stmts: []Stmt{
			st("borrow", "let r3 = acct.storage.borrow<&{C.I}>(from: /storage/p0)", Cmd{Op: CBorrow, R: 3, X: 0, Ty: TI}),
			st("refUnwrap", "let r4 = r3!", Cmd{Op: CRefUnwrap, R: 4, R0: 3}),
			st("refStep", "let r5 = C.idn(r4.arr[0])", Cmd{Op: CRefStep, R: 5, B: Base{Ref: true, X: 4}, Sl: Slot{Kind: SlArr, I: 0}}),
			st("use:UTag", "log(r5.tag)", Cmd{Op: CUse, R: 5, K: UTag}),
			st("load", "var x6: @{C.I}? <- acct.storage.load<@{C.I}>(from: /storage/p0)", xfer(pvar(6), Src{Kind: SPlace, Pl: psto(0), Cast: rtyp(TI)})),
			st("use:UTag", "log(r5.tag)", Cmd{Op: CUse, R: 5, K: UTag}),
			destroyV(6)}}}}
	// the receiver of a method call is (nested in) the argument: the argument transfer kills
	// the receiver reference before the method body runs
	out["c04_receiver_is_argument"] = &History{Isolate: true, Txs: []*Tx{{Stmts: []Stmt{
		mk(1, false, false, 2),
		st("refVar", "let r2 = C.idn(&x1 as &{C.I})", Cmd{Op: CRefVar, R: 2, X: 1}),
		st("arrAppend", "r2.arrAppend(<-x1)", xfer(pchild(Base{Ref: true, X: 2}, Slot{Kind: SlArrEnd}), splace(pvar(1), false)))}}}}
	out["c04_receiver_nested_in_argument"] = &History{Isolate: true, Txs: []*Tx{{Stmts: []Stmt{
		mk(1, false, false, 2), mk(2, false, true, 6), appendTo(1, 2),
		st("refStep", "let r3 = C.idn(&x1.arr[0] as &{C.I})", Cmd{Op: CRefStep, R: 3, B: Base{X: 1}, Sl: Slot{Kind: SlArr, I: 0}}),
		st("forceOpt", "r3.forceOpt(<-x1)", xfer(pchild(Base{Ref: true, X: 3}, Slot{Kind: SlOpt}), splace(pvar(1), false)))}}}}

	// references stored in non-resource holders and read back through a reference to the holder:
	// the derived reference must die with the target (target nested: outer moved stack-to-stack,
	// into an optional, into storage; target itself destroyed / moved into an array)
	cp := func(kind, src string, r, r0 int64) Stmt { return st(kind, src, Cmd{Op: CRefCopy, R: r, R0: r0}) }
	nest := []Stmt{mk(1, false, false, 1), mk(2, false, true, 2), appendTo(1, 2),
		st("refStep", "let r30 = C.idn(&x1.arr[0] as &{C.I})", Cmd{Op: CRefStep, R: 30, B: Base{X: 1}, Sl: Slot{Kind: SlArr, I: 0}}),
		st("refCast", "let r3 = r30 as! &C.R", Cmd{Op: CRefCast, R: 3, R0: 30, Ty: TR, Forced: true})}
	useN := func(r int64) Stmt { return st("use:UTag", "log("+rname(r)+".tag)", Cmd{Op: CUse, R: r, K: UTag}) }
	useO := func(r int64) Stmt { return st("useOpt", "log("+rname(r)+"?.tag)", Cmd{Op: CUse, R: r, K: UOptTag}) }
	out["c04_reread_struct_field_outer_moved"] = &History{Txs: []*Tx{{Stmts: cat(nest,
		cp("holderMake:struct", "let h4 = C.HolderR(r3)", 4, 3),
		cp("holderRead:struct", "let r5 = (&h4 as &C.HolderR).ref", 5, 4),
		useN(5),
		st("moveVar", "var x6: @{C.I} <- x1", xfer(pvar(6), splace(pvar(1), false))),
		useN(5), destroyV(6))}}}
	out["c04_reread_function_outer_into_optional"] = &History{Txs: []*Tx{{Stmts: cat(nest,
		cp("holderMake:array", "let h4: [&C.R] = [r3]", 4, 3),
		cp("holderRead:array", "let r5 = C.viaArrayR(&h4 as &[&C.R], 0)", 5, 4),
		useN(5),
		st("moveVar", "var x6: @{C.I}? <- x1", xfer(pvar(6), splace(pvar(1), false))),
		useN(5), destroyV(6))}}}
	out["c04_reread_array_index_outer_saved"] = &History{Txs: []*Tx{{Stmts: cat(nest,
		cp("holderMake:array", "let h4: [&C.R] = [r3]", 4, 3),
		cp("holderRead:array", "let r5 = (&h4 as &[&C.R])[0]", 5, 4),
		saveV(1, 3),
		useN(5))}}}
	out["c04_reread_dict_target_destroyed"] = &History{Txs: []*Tx{{Stmts: cat(nest,
		cp("holderMake:dict", `let h4: {String: &C.R} = {"a": r3}`, 4, 3),
		cp("holderRead:dict", `let r5 = (&h4 as &{String: &C.R})["a"]`, 5, 4),
		useO(5),
		st("arrRemove", "var x6: @{C.I} <- x1.arr.remove(at: 0)", xfer(pvar(6), splace(pchild(Base{X: 1}, Slot{Kind: SlArr, I: 0}), false))),
		destroyV(6),
		useO(5), destroyV(1))}}}
	out["c04_reread_optional_chain_copy_holder"] = &History{Txs: []*Tx{{Stmts: cat(nest,
		cp("holderMake:optstruct", "let h4: C.HolderR? = C.HolderR(r3)", 4, 3),
		cp("holderCopy", "let h7 = h4", 7, 4),
		cp("holderRead:optstruct", "let r5 = (&h7 as &C.HolderR?)?.ref", 5, 7),
		cp("holderRead:struct", "let r8 = C.viaHolderR(&(h4!) as &C.HolderR)", 8, 4),
		useO(5), useN(8),
		mk(9, false, false, 9),
		Stmt{Kind: "swapVars", Src: "x1 <-> x9", Cmds: swap3(pvar(1), pvar(9), 97)},
		useN(8), destroyV(1), destroyV(9))}}}
	out["c04_reread_after_move_fails_at_reread"] = &History{Txs: []*Tx{{Stmts: cat(nest,
		cp("holderMake:struct", "let h4 = C.HolderR(r3)", 4, 3),
		st("moveVar", "var x6: @{C.I} <- x1", xfer(pvar(6), splace(pvar(1), false))),
		cp("holderRead:struct", "let r5 = (&h4 as &C.HolderR).ref", 5, 4),
		destroyV(6))}}}
	// known defect (interpreter): plainly copying an invalidated reference value crashes with a
	// nil dereference inside EphemeralReferenceValue.StaticType instead of the invalidated-reference error
	out["c04_copy_invalidated_reference"] = &History{KnownKey: "copy-invalidated-reference:interpreter", KnownEngine: "interpreter",
		Txs: []*Tx{{Stmts: cat(nest,
			st("moveVar", "var x6: @{C.I} <- x1", xfer(pvar(6), splace(pvar(1), false))),
			cp("refCopy", "let r5 = r30", 5, 30),
			destroyV(6))}}}
	// same defect when the reference's static type was computed before (here by the cast): the copy
	// of the invalidated reference silently succeeds in the interpreter
	out["c04_copy_invalidated_reference_cached_type"] = &History{KnownKey: "copy-invalidated-reference:interpreter", KnownEngine: "interpreter",
		Txs: []*Tx{{Stmts: cat(nest,
			st("moveVar", "var x6: @{C.I} <- x1", xfer(pvar(6), splace(pvar(1), false))),
			cp("refCopy", "let r5 = r3", 5, 3),
			destroyV(6))}}}

	// references to the attachment every resource carries, taken before an in-memory move of the
	// base or of an enclosing resource (the moves that do not change the storage address are the
	// ones where only the nested walk of the invalidation reaches the attachment)
	attOuter := st("refAtt", "let r40 = C.ida(x1[C.A])!", Cmd{Op: CRefVar, R: 40, X: 1})
	attInner := st("refAtt", "let r41 = (C.anyId(x1.arr[0][C.A]) as! &C.A?)!", Cmd{Op: CRefStep, R: 41, B: Base{X: 1}, Sl: Slot{Kind: SlArr, I: 0}})
	useA := func(r int64) Stmt { return st("useAtt", "log("+rname(r)+".k)", Cmd{Op: CUse, R: r, K: UAtt}) }
	nestA := []Stmt{mk(1, false, false, 1), mk(2, false, true, 2), appendTo(1, 2), attOuter, attInner, useA(40), useA(41)}
	out["c04_attachment_var_to_var"] = &History{Txs: []*Tx{{Stmts: cat(nestA,
		st("moveVar", "var x6: @{C.I} <- x1", xfer(pvar(6), splace(pvar(1), false))),
		useA(40), destroyV(6))}}}
	out["c04_attachment_nested_enclosing_moved"] = &History{Txs: []*Tx{{Stmts: cat(nestA,
		st("moveVar", "var x6: @{C.I}? <- x1", xfer(pvar(6), splace(pvar(1), false))),
		useA(41), destroyV(6))}}}
	out["c04_attachment_into_array_write"] = &History{Txs: []*Tx{{Stmts: cat(nestA,
		mk(7, false, false, 7), appendTo(7, 1),
		st("attSetTag", "r41.setBaseTag(42)", Cmd{Op: CSetTag, B: Base{Ref: true, X: 41}, T: 42}),
		destroyV(7))}}}
	out["c04_attachment_function_argument"] = &History{Txs: []*Tx{{Stmts: cat(nestA,
		mk(7, false, false, 7),
		st("forceOpt", "x7.forceOpt(<-x1)", xfer(pchild(Base{X: 7}, Slot{Kind: SlOpt}), splace(pvar(1), false))),
		st("attBaseRef", "let r8 = r40.baseRef()", Cmd{Op: CRefCopy, R: 8, R0: 40}),
		destroyV(7))}}}
	out["c04_attachment_element_removed"] = &History{Txs: []*Tx{{Stmts: cat(nestA,
		st("arrRemove", "var x6: @{C.I} <- x1.arr.remove(at: 0)", xfer(pvar(6), splace(pchild(Base{X: 1}, Slot{Kind: SlArr, I: 0}), false))),
		useA(40),
		st("useAtt", "log(r41.baseUuid())", Cmd{Op: CUse, R: 41, K: UUuid}),
		destroyV(6), destroyV(1))}}}
	out["c04_attachment_stays_usable"] = &History{Txs: []*Tx{{Stmts: cat(nestA,
		st("attSetTag", "r41.setBaseTag(42)", Cmd{Op: CSetTag, B: Base{Ref: true, X: 41}, T: 42}),
		st("setTag", "x1.setTag(43)", Cmd{Op: CSetTag, B: Base{X: 1}, T: 43}),
		useA(40), useA(41),
		st("attBaseRef", "let r8 = r41.baseRef()", Cmd{Op: CRefCopy, R: 8, R0: 41}),
		st("use:UShow", "log(C.show(r8))", Cmd{Op: CUse, R: 8, K: UShow}),
		destroyV(1))}}}

	// storage reference after the path was emptied / re-filled with another type
	out["c04_storage_ref_deref_fails"] = &History{Txs: []*Tx{{Stmts: []Stmt{
		mk(1, false, false, 1), saveV(1, 0),
		st("borrow", "let r2 = acct.storage.borrow<&C.Q>(from: /storage/p0)", Cmd{Op: CBorrow, R: 2, X: 0, Ty: TQ}),
		st("refUnwrap", "let r3 = r2!", Cmd{Op: CRefUnwrap, R: 3, R0: 2}),
		st("use:UTag", "log(r3.tag)", Cmd{Op: CUse, R: 3, K: UTag}),
		st("load", "var x4: @{C.I}? <- acct.storage.load<@{C.I}>(from: /storage/p0)", xfer(pvar(4), Src{Kind: SPlace, Pl: psto(0), Cast: rtyp(TI)})),
		destroyV(4), mk(5, false, true, 5), saveV(5, 0),
		st("use:UTag", "log(r3.tag)", Cmd{Op: CUse, R: 3, K: UTag})}}}}
	out["c04_storage_ref_empty_path"] = &History{Txs: []*Tx{{Stmts: []Stmt{
		mk(1, false, true, 1), saveV(1, 1),
		st("borrow", "let r2 = acct.storage.borrow<&{C.I}>(from: /storage/p1)", Cmd{Op: CBorrow, R: 2, X: 1, Ty: TI}),
		st("load", "var x4: @{C.I}? <- acct.storage.load<@C.R>(from: /storage/p1)", xfer(pvar(4), Src{Kind: SPlace, Pl: psto(1), Cast: rtyp(TR)})),
		st("useOpt", "log(r2?.tag)", Cmd{Op: CUse, R: 2, K: UOptTag}),
		destroyV(4)}}}}
	return out
}

func rtyp(t Rty) *Rty { return &t }

// WriteCorpus writes the hand-picked histories of one property (C02: all without the c04_
// prefix; C04: the reference-related ones).
func WriteCorpus(dir, prop string) error {
	if err := os.MkdirAll(dir, 0o755); err != nil {
		return err
	}
	for name, h := range corpusHistories() {
		isRef := strings.HasPrefix(name, "c04_") || strings.HasPrefix(name, "ref_") || strings.HasPrefix(name, "storage_ref")
		if prop == "C04" && !isRef || prop != "C04" && strings.HasPrefix(name, "c04_") {
			continue
		}
		b, err := json.MarshalIndent(h, "", " ")
		if err != nil {
			return err
		}
		if err := os.WriteFile(filepath.Join(dir, name+".json"), b, 0o644); err != nil {
			return err
		}
	}
	return nil
}
