package main

import (
	"encoding/binary"

	"cvh/lib"
)

var boundaryBytes = []byte{0x00, 0x01, 0x37, 0x38, 0x7f, 0x80, 0x81, 0x82, 0xb6, 0xb7, 0xb8, 0xb9, 0xba, 0xbe, 0xbf,
	0xc0, 0xc1, 0xc2, 0xc3, 0xf6, 0xf7, 0xf8, 0xf9, 0xfa, 0xfe, 0xff}

func randByte(r *lib.Rng) byte {
	if r.Chance(1, 2) {
		return lib.Pick(r, boundaryBytes)
	}
	return byte(r.Intn(256))
}

func randBytes(r *lib.Rng, n int) []byte {
	out := make([]byte, n)
	for i := range out {
		out[i] = randByte(r)
	}
	return out
}

// string lengths biased to the encoding boundaries (0, 1, 55/56, 255/256)
func randStrLen(r *lib.Rng, big bool) int {
	switch r.Intn(12) {
	case 0:
		return 0
	case 1, 2:
		return 1
	case 3, 4, 5:
		return 2 + r.Intn(8)
	case 6:
		return lib.Pick(r, []int{53, 54, 55, 56, 57})
	case 7:
		return 10 + r.Intn(60)
	case 8:
		if big {
			return lib.Pick(r, []int{254, 255, 256, 257, 300})
		}
		return 56 + r.Intn(10)
	default:
		return r.Intn(5)
	}
}

func randItem(r *lib.Rng, depth int, big bool) item {
	if depth <= 0 || r.Chance(3, 5) {
		return item{str: randBytes(r, randStrLen(r, big))}
	}
	n := r.Intn(5)
	if r.Chance(1, 6) {
		n = 0
	}
	it := item{isList: true}
	for i := 0; i < n; i++ {
		it.list = append(it.list, randItem(r, depth-1, false))
	}
	return it
}

// extreme 64-bit length values
func extremeLens(r *lib.Rng, ctxLen int) uint64 {
	const top = uint64(1) << 63
	c := []uint64{
		top - 1, top - 2, top - 8, top - 9, top - 10, top - 11, top - uint64(ctxLen) - 1, top - uint64(ctxLen), top - uint64(ctxLen) + 1,
		top, top + 1, ^uint64(0), ^uint64(0) - 1, 1 << 62, 1<<62 - 1, 1 << 56, 1<<56 - 1, 1 << 32, 1<<32 - 1, 1 << 31,
		0x0100000000000000, 0x00ffffffffffffff, uint64(ctxLen), uint64(ctxLen) + 1, 56, 55, 1, 0,
	}
	if r.Chance(1, 5) {
		return r.U64()
	}
	if r.Chance(1, 6) {
		return top - uint64(r.Intn(40))
	}
	return lib.Pick(r, c)
}

// longPrefix builds a long-form prefix with exactly n length bytes holding v (big-endian, possibly with
// leading zeros / truncated to n bytes).
func longPrefix(isString bool, n int, v uint64) []byte {
	var b [8]byte
	binary.BigEndian.PutUint64(b[:], v)
	base := byte(0xb7)
	if !isString {
		base = 0xf7
	}
	return append([]byte{base + byte(n)}, b[8-n:]...)
}

// payloadOf returns (prefix length, payload) of a canonical encoding e (single byte: prefix length 0).
func payloadOf(e []byte) (int, []byte) {
	if len(e) == 0 {
		return 0, nil
	}
	b0 := int(e[0])
	switch {
	case b0 < 0x80:
		return 0, e
	case b0 <= 0xb7 || (b0 >= 0xc0 && b0 <= 0xf7):
		return 1, e[1:]
	case b0 <= 0xbf:
		return 1 + b0 - 0xb7, e[1+b0-0xb7:]
	default:
		return 1 + b0 - 0xf7, e[1+b0-0xf7:]
	}
}

// mutate derives a (most often invalid) input from the canonical encoding e.
func mutate(r *lib.Rng, e []byte) ([]byte, string) {
	isString := len(e) > 0 && e[0] < 0xc0
	hl, payload := payloadOf(e)
	_ = hl
	cp := func(b []byte) []byte { return append([]byte{}, b...) }
	switch r.Intn(14) {
	case 0: // truncate
		if len(e) == 0 {
			return []byte{}, "truncate"
		}
		k := 1
		if r.Chance(1, 2) {
			k = 1 + r.Intn(len(e))
		}
		return cp(e[:len(e)-k]), "truncate"
	case 1: // trailing bytes
		return append(cp(e), randBytes(r, 1+r.Intn(3))...), "trailing"
	case 2: // replace one byte, biased to the prefix region
		if len(e) == 0 {
			return []byte{randByte(r)}, "replace"
		}
		m := cp(e)
		i := r.Intn(len(m))
		if r.Chance(2, 3) {
			i = r.Intn(min(len(m), 10))
		}
		m[i] = randByte(r)
		return m, "replace"
	case 3: // first byte +-1
		if len(e) == 0 {
			return []byte{}, "prefix+-1"
		}
		m := cp(e)
		if r.Bool() {
			m[0]++
		} else {
			m[0]--
		}
		return m, "prefix+-1"
	case 4: // long form used for a short payload (non-canonical)
		if len(payload) <= 255 {
			return append(longPrefix(isString, 1, uint64(len(payload))), payload...), "long-form-for-short"
		}
		return append(longPrefix(isString, 3, uint64(len(payload))), payload...), "leading-zero-length"
	case 5: // leading zero in the length field
		n := 2 + r.Intn(7)
		return append(longPrefix(isString, n, uint64(len(payload))), payload...), "leading-zero-length"
	case 6: // single byte written with prefix 0x81
		b := byte(r.Intn(256))
		if r.Chance(2, 3) {
			b = byte(r.Intn(128))
		}
		return []byte{0x81, b}, "0x81-single"
	case 7, 8: // extreme 8-byte length, payload kept
		v := extremeLens(r, len(payload)+9)
		return append(longPrefix(r.Chance(2, 3) == isString, 8, v), payload...), "extreme-len8"
	case 9: // extreme n-byte length
		n := 1 + r.Intn(8)
		v := extremeLens(r, len(payload)+1+n)
		if r.Chance(1, 3) {
			v = ^uint64(0)
		}
		return append(longPrefix(isString, n, v), payload...), "extreme-lenN"
	case 10: // length field off by one (long form) or short prefix off by delta
		d := uint64(1)
		if r.Bool() {
			d = ^uint64(0) // -1
		}
		if len(payload) > 55 {
			lb := beEnc(uint64(len(payload)) + d)
			return append(longPrefix(isString, len(lb), uint64(len(payload))+d), payload...), "length+-1"
		}
		m := cp(e)
		if len(m) > 0 {
			m[0] += byte(d)
		}
		return m, "length+-1"
	case 11: // wrap the (possibly non-canonical) thing as the only item of a list
		inner, what := mutate(r, e)
		return listFrame(inner), "list-of(" + what + ")"
	case 12: // list of valid items with one mutated item in the middle
		a := encode(randItem(r, 1, false))
		b := encode(randItem(r, 1, false))
		inner, what := mutate(r, e)
		var p []byte
		p = append(p, a...)
		p = append(p, inner...)
		p = append(p, b...)
		return listFrame(p), "list-with(" + what + ")"
	default: // drop a byte in the middle
		if len(e) < 2 {
			return cp(e), "identity"
		}
		i := r.Intn(len(e))
		return append(cp(e[:i]), e[i+1:]...), "drop-byte"
	}
}

// structured random bytes (not derived from an encoding)
func randInput(r *lib.Rng) []byte {
	n := r.Intn(14)
	if r.Chance(1, 8) {
		n = 14 + r.Intn(50)
	}
	return randBytes(r, n)
}
