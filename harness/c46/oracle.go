package main

// Independent oracle for C46: the reference RLP *encoder* (Ethereum yellow paper, appendix B) and
// acceptance defined through it -- an input is a canonical string encoding iff it equals
// encodeString(p) for the candidate payload p (a suffix of the input); likewise for lists.
// Nothing here shares code or structure with stdlib/rlp.

import (
	"bytes"
	"math"
	"math/big"
)

// beEnc is the minimal big-endian representation of n > 0.
func beEnc(n uint64) []byte {
	var out []byte
	for n > 0 {
		out = append([]byte{byte(n & 0xff)}, out...)
		n >>= 8
	}
	return out
}

func encodeString(p []byte) []byte {
	if len(p) == 1 && p[0] < 0x80 {
		return []byte{p[0]}
	}
	if len(p) <= 55 {
		return append([]byte{0x80 + byte(len(p))}, p...)
	}
	lb := beEnc(uint64(len(p)))
	out := append([]byte{0xb7 + byte(len(lb))}, lb...)
	return append(out, p...)
}

func listFrame(payload []byte) []byte {
	if len(payload) <= 55 {
		return append([]byte{0xc0 + byte(len(payload))}, payload...)
	}
	lb := beEnc(uint64(len(payload)))
	out := append([]byte{0xf7 + byte(len(lb))}, lb...)
	return append(out, payload...)
}

// item is a nested RLP value.
type item struct {
	isList bool
	str    []byte
	list   []item
}

func encode(x item) []byte {
	if !x.isList {
		return encodeString(x.str)
	}
	var payload []byte
	for _, y := range x.list {
		payload = append(payload, encode(y)...)
	}
	return listFrame(payload)
}

// oracleString: (payload, true) iff inp is the canonical encoding of a byte string.
func oracleString(inp []byte) ([]byte, bool) {
	for k := 0; k <= 9 && k <= len(inp); k++ {
		cand := inp[k:]
		if k == 0 && len(cand) != 1 {
			continue
		}
		if bytes.Equal(encodeString(cand), inp) {
			return cand, true
		}
	}
	return nil, false
}

// isNC1: the two-byte form 0x81 x of a single byte x < 0x80 (non-canonical).
func isNC1(it []byte) bool { return len(it) == 2 && it[0] == 0x81 && it[1] < 0x80 }

// itemOK: it is a canonical string encoding, or a list payload under a canonical list prefix
// (RLP.decodeList does not decode recursively, the payload of a nested list is opaque).
func itemOK(it []byte) bool {
	if _, ok := oracleString(it); ok {
		return true
	}
	for k := 1; k <= 9 && k <= len(it); k++ {
		if bytes.Equal(listFrame(it[k:]), it) {
			return true
		}
	}
	return false
}

var maxInt = new(big.Int).SetUint64(math.MaxInt64)

// itemSpan: total length (prefix + data) announced by the prefix at b[0], as an exact integer.
// ok=false when the prefix itself is cut short.
func itemSpan(b []byte) (*big.Int, bool) {
	if len(b) == 0 {
		return nil, false
	}
	b0 := int(b[0])
	switch {
	case b0 < 0x80:
		return big.NewInt(1), true
	case b0 <= 0xb7:
		return big.NewInt(int64(1 + b0 - 0x80)), true
	case b0 <= 0xbf:
		ll := b0 - 0xb7
		if len(b) < 1+ll {
			return nil, false
		}
		l := new(big.Int).SetBytes(b[1 : 1+ll])
		return l.Add(l, big.NewInt(int64(1+ll))), true
	case b0 <= 0xf7:
		return big.NewInt(int64(1 + b0 - 0xc0)), true
	default:
		ll := b0 - 0xf7
		if len(b) < 1+ll {
			return nil, false
		}
		l := new(big.Int).SetBytes(b[1 : 1+ll])
		return l.Add(l, big.NewInt(int64(1+ll))), true
	}
}

// oracleList: (encoded items, true) iff inp is a canonical list: a canonical list prefix for exactly
// the rest of the input, which splits into items each satisfying itemOK.
// allowNC1 additionally lets items of the form 0x81 x (x<0x80) through (used only to *classify*
// a wrongly accepted input, never to decide what is required).
func oracleList(inp []byte, allowNC1 bool) ([][]byte, bool) {
	for k := 1; k <= 9 && k <= len(inp); k++ {
		payload := inp[k:]
		if !bytes.Equal(listFrame(payload), inp) {
			continue
		}
		items := [][]byte{}
		pos := 0
		for pos < len(payload) {
			span, ok := itemSpan(payload[pos:])
			if !ok || span.Cmp(big.NewInt(int64(len(payload)-pos))) > 0 {
				return nil, false
			}
			m := int(span.Int64())
			it := payload[pos : pos+m]
			if !(itemOK(it) || (allowNC1 && isNC1(it))) {
				return nil, false
			}
			items = append(items, it)
			pos += m
		}
		return items, true
	}
	return nil, false
}

// ---- classification of the crash classes of the code before commit 8b09734 (exact integer arithmetic);
// used only to name a crash precisely should one reappear ----

// hugeAt: position i carries a long-form prefix 0xbf/0xff with a complete 8-byte length field, no leading
// zero, value L <= MaxInt64, and i+9+L > MaxInt64 (so that start+length overflows a Go int).
func hugeAt(inp []byte, i int) bool {
	if i < 0 || i+9 > len(inp) || (inp[i] != 0xbf && inp[i] != 0xff) || inp[i+1] == 0 {
		return false
	}
	l := new(big.Int).SetBytes(inp[i+1 : i+9])
	if l.Cmp(maxInt) > 0 {
		return false
	}
	return l.Add(l, big.NewInt(int64(i+9))).Cmp(maxInt) > 0
}

// prefixAt parses the prefix at position i the way a canonical-form reader has to:
// ok=false for cut-short or non-canonical long-form length fields and for lengths above MaxInt64.
func prefixAt(inp []byte, i int) (isString bool, hlen int, size *big.Int, ok bool) {
	if i < 0 || i >= len(inp) {
		return false, 0, nil, false
	}
	b0 := int(inp[i])
	switch {
	case b0 < 0x80:
		return true, 0, big.NewInt(1), true
	case b0 <= 0xb7:
		return true, 1, big.NewInt(int64(b0 - 0x80)), true
	case b0 >= 0xc0 && b0 <= 0xf7:
		return false, 1, big.NewInt(int64(b0 - 0xc0)), true
	}
	ll := b0 - 0xb7
	isString = true
	if b0 >= 0xf8 {
		ll = b0 - 0xf7
		isString = false
	}
	if i+1 >= len(inp) {
		return false, 0, nil, false
	}
	if ll == 1 {
		if inp[i+1] <= 55 {
			return false, 0, nil, false
		}
		return isString, 2, big.NewInt(int64(inp[i+1])), true
	}
	if inp[i+1] == 0 || i+1+ll > len(inp) {
		return false, 0, nil, false
	}
	l := new(big.Int).SetBytes(inp[i+1 : i+1+ll])
	if l.Cmp(maxInt) > 0 {
		return false, 0, nil, false
	}
	return isString, 1 + ll, l, true
}

// stringCrashClass names the known defect class a top-level decodeString input belongs to ("" = none).
func stringCrashClass(inp []byte, start int) string {
	if start >= 0 && start == len(inp)-1 && inp[start] == 0x81 {
		return "rlp-crash:index-after-short-string-prefix"
	}
	if start >= 0 && start < len(inp) && inp[start] == 0xbf && hugeAt(inp, start) {
		return "rlp-crash:length-overflow:string"
	}
	return ""
}

// listCrashClass: the item walk of a list decoder reaches, at an item boundary, a prefix satisfying hugeAt.
func listCrashClass(inp []byte, start int) string {
	isString, hlen, size, ok := prefixAt(inp, start)
	if !ok || isString || size.Sign() == 0 {
		return ""
	}
	ln := big.NewInt(int64(len(inp)))
	end := new(big.Int).Add(size, big.NewInt(int64(start+hlen)))
	if end.Cmp(ln) > 0 && end.Cmp(maxInt) <= 0 {
		return "" // announced payload longer than the input, no overflow involved
	}
	pos := start + hlen
	read := new(big.Int)
	for read.Cmp(size) < 0 {
		_, ihl, isz, ok := prefixAt(inp, pos)
		if !ok {
			return ""
		}
		if hugeAt(inp, pos) {
			return "rlp-crash:length-overflow:list-item"
		}
		iend := new(big.Int).Add(isz, big.NewInt(int64(pos+ihl)))
		if iend.Cmp(ln) > 0 {
			return ""
		}
		e := int(iend.Int64())
		read.Add(read, big.NewInt(int64(e-pos)))
		pos = e
	}
	return ""
}
