package main

// chunkWriter: same file conventions as lib.CaseWriter (cases / mism / sidecar .jsonl, one description per
// case in order), but the case list is emitted as a concatenation of small chunk definitions, which Coq
// elaborates much faster than one list literal with hundreds of long entries.

import (
	"bufio"
	"encoding/json"
	"fmt"
	"os"
	"path/filepath"
	"strings"
)

type chunkWriter struct {
	Dir, Prefix, Header, ElemType, CheckFn string
	PerFile, PerChunk                      int
	Files                                  []string
	n, file, chunks                        int
	pending                                []string
	w, jw                                  *bufio.Writer
	f, jf                                  *os.File
}

func (c *chunkWriter) open() {
	name := fmt.Sprintf("%s_%03d", c.Prefix, c.file)
	path := filepath.Join(c.Dir, name+".v")
	f, err := os.Create(path)
	if err != nil {
		panic(err)
	}
	jf, err := os.Create(filepath.Join(c.Dir, name+".jsonl"))
	if err != nil {
		panic(err)
	}
	c.f, c.jf = f, jf
	c.w, c.jw = bufio.NewWriter(f), bufio.NewWriter(jf)
	c.Files = append(c.Files, path)
	c.chunks = 0
	fmt.Fprintf(c.w, "%s\nOpen Scope Z_scope.\n", c.Header)
}

func (c *chunkWriter) flushChunk() {
	if len(c.pending) == 0 {
		return
	}
	fmt.Fprintf(c.w, "Definition chunk_%d : list (%s) := [\n%s\n].\n", c.chunks, c.ElemType, strings.Join(c.pending, ";\n"))
	c.chunks++
	c.pending = c.pending[:0]
}

func (c *chunkWriter) closeFile() {
	if c.w == nil {
		return
	}
	c.flushChunk()
	names := make([]string, c.chunks)
	for i := range names {
		names[i] = fmt.Sprintf("chunk_%d", i)
	}
	fmt.Fprintf(c.w, "Definition cases : list (%s) := %s.\n", c.ElemType, strings.Join(names, " ++ "))
	fmt.Fprintf(c.w, "Definition mism := Eval vm_compute in (mismatches %s cases).\nPrint mism.\n", c.CheckFn)
	c.w.Flush()
	c.f.Close()
	c.jw.Flush()
	c.jf.Close()
	c.w = nil
	c.file++
	c.n = 0
}

func (c *chunkWriter) Add(term string, desc any) {
	if c.w == nil {
		c.open()
	}
	c.pending = append(c.pending, term)
	if len(c.pending) >= c.PerChunk {
		c.flushChunk()
	}
	b, _ := json.Marshal(desc)
	c.jw.Write(b)
	c.jw.WriteString("\n")
	c.n++
	if c.n >= c.PerFile {
		c.closeFile()
	}
}

func (c *chunkWriter) Close() { c.closeFile() }
