package main

// The real implementation under test: the Cadence wrappers stdlib.RLPDecodeString / RLPDecodeList
// (called with a real interpreter as context), the package rlp functions, and scripts in both engines.

import (
	"bytes"
	"fmt"
	"strings"

	"cvh/lib"

	"github.com/onflow/cadence"
	"github.com/onflow/cadence/common"
	"github.com/onflow/cadence/interpreter"
	"github.com/onflow/cadence/stdlib"
	"github.com/onflow/cadence/stdlib/rlp"
)

// outS / outL: outcome of decoding (class "" = ok).
type outS struct {
	cls string
	val []byte
}
type outL struct {
	cls   string
	items [][]byte
}

func (o outS) String() string {
	if o.cls != "" {
		return "Err " + o.cls
	}
	return fmt.Sprintf("Ok %x", o.val)
}
func (o outL) String() string {
	if o.cls != "" {
		return "Err " + o.cls
	}
	parts := make([]string, len(o.items))
	for i, it := range o.items {
		parts[i] = fmt.Sprintf("%x", it)
	}
	return "Ok [" + strings.Join(parts, ",") + "]"
}
func (o outS) eq(p outS) bool { return o.cls == p.cls && (o.cls != "" || bytes.Equal(o.val, p.val)) }
func (o outL) eq(p outL) bool {
	if o.cls != p.cls {
		return false
	}
	if o.cls != "" {
		return true
	}
	if len(o.items) != len(p.items) {
		return false
	}
	for i := range o.items {
		if !bytes.Equal(o.items[i], p.items[i]) {
			return false
		}
	}
	return true
}

// normClass: the property distinguishes value / user error / (internal error or crash).
func normClass(c string) string {
	switch c {
	case "", lib.EUserOther:
		return c
	case lib.ECrash, lib.EInternal:
		return lib.ECrash
	}
	return c
}

// wrapperCtx owns an interpreter used as InvocationContext; it is renewed periodically so that the
// in-memory slab storage does not grow with the number of cases.
type wrapperCtx struct {
	inter *interpreter.Interpreter
	n     int
}

func (w *wrapperCtx) get() *interpreter.Interpreter {
	if w.inter == nil || w.n >= 20000 {
		inter, err := interpreter.NewInterpreter(nil, common.ScriptLocation{},
			&interpreter.Config{Storage: interpreter.NewInMemoryStorage(nil, nil)})
		if err != nil {
			panic(err)
		}
		w.inter, w.n = inter, 0
	}
	w.n++
	return w.inter
}

func arrayToBytes(inter *interpreter.Interpreter, v interpreter.Value) []byte {
	b, err := interpreter.ByteArrayValueToByteSlice(inter, v)
	if err != nil {
		panic(fmt.Sprintf("harness: result is not a byte array: %v", err))
	}
	if b == nil {
		b = []byte{}
	}
	return b
}

// wrapString runs stdlib.RLPDecodeString (the body of RLP.decodeString).
func (w *wrapperCtx) wrapString(inp []byte) (o outS) {
	inter := w.get()
	cls, _ := lib.Catch(func() {
		v := stdlib.RLPDecodeString(interpreter.ByteSliceToByteArrayValue(inter, inp), inter)
		o.val = arrayToBytes(inter, v)
	})
	if cls != "" {
		o = outS{cls: normClass(cls)}
	}
	return
}

// wrapList runs stdlib.RLPDecodeList (the body of RLP.decodeList).
func (w *wrapperCtx) wrapList(inp []byte) (o outL) {
	inter := w.get()
	cls, _ := lib.Catch(func() {
		v := stdlib.RLPDecodeList(interpreter.ByteSliceToByteArrayValue(inter, inp), inter)
		arr := v.(*interpreter.ArrayValue)
		o.items = [][]byte{}
		arr.Iterate(inter, func(e interpreter.Value) bool {
			o.items = append(o.items, arrayToBytes(inter, e))
			return true
		}, false)
	})
	if cls != "" {
		o = outL{cls: normClass(cls)}
	}
	return
}

// pkgString / pkgList: rlp.DecodeString / rlp.DecodeList at index 0 followed by the wrappers' rule
// "bytesRead must equal len(input)" (used for the exhaustive length-3 sweep, where going through an
// interpreter for 2 x 16.7M inputs is too slow for the quick tier; the wrappers themselves run on
// everything else and on all of length <= 2).
func pkgString(inp []byte) (o outS) {
	cls, _ := lib.Catch(func() {
		s, n, err := rlp.DecodeString(inp, 0)
		if err != nil || n != len(inp) {
			o.cls = lib.EUserOther
			return
		}
		o.val = append([]byte{}, s...)
	})
	if cls != "" {
		o = outS{cls: normClass(cls)}
	}
	return
}

func pkgList(inp []byte) (o outL) {
	cls, _ := lib.Catch(func() {
		l, n, err := rlp.DecodeList(inp, 0)
		if err != nil || n != len(inp) {
			o.cls = lib.EUserOther
			return
		}
		o.items = [][]byte{}
		for _, it := range l {
			o.items = append(o.items, append([]byte{}, it...))
		}
	})
	if cls != "" {
		o = outL{cls: normClass(cls)}
	}
	return
}

// raw package functions at a start index: (value, bytesRead) or class.
type rawS struct {
	cls string
	val []byte
	n   int
}
type rawL struct {
	cls   string
	items [][]byte
	n     int
}
type rawR struct {
	cls      string
	isString bool
	ds, sz   int
}

func rawString(inp []byte, start int) (o rawS) {
	cls, _ := lib.Catch(func() {
		s, n, err := rlp.DecodeString(inp, start)
		if err != nil {
			o.cls = lib.EUserOther
			return
		}
		o.val, o.n = append([]byte{}, s...), n
	})
	if cls != "" {
		o = rawS{cls: normClass(cls)}
	}
	return
}

func rawList(inp []byte, start int) (o rawL) {
	cls, _ := lib.Catch(func() {
		l, n, err := rlp.DecodeList(inp, start)
		if err != nil {
			o.cls = lib.EUserOther
			return
		}
		o.items = [][]byte{}
		for _, it := range l {
			o.items = append(o.items, append([]byte{}, it...))
		}
		o.n = n
	})
	if cls != "" {
		o = rawL{cls: normClass(cls)}
	}
	return
}

func rawReadSize(inp []byte, start int) (o rawR) {
	cls, _ := lib.Catch(func() {
		isS, ds, sz, err := rlp.ReadSize(inp, start)
		if err != nil {
			o.cls = lib.EUserOther
			return
		}
		o.isString, o.ds, o.sz = isS, ds, sz
	})
	if cls != "" {
		o = rawR{cls: normClass(cls)}
	}
	return
}

// ---- scripts ----

func bytesArg(b []byte) cadence.Value {
	vs := make([]cadence.Value, len(b))
	for i, x := range b {
		vs[i] = cadence.UInt8(x)
	}
	return cadence.NewArray(vs).WithType(cadence.NewVariableSizedArrayType(cadence.UInt8Type))
}

func cadenceBytes(v cadence.Value) []byte {
	arr := v.(cadence.Array)
	out := make([]byte, len(arr.Values))
	for i, e := range arr.Values {
		out[i] = byte(e.(cadence.UInt8))
	}
	return out
}

const scriptString = "access(all) fun main(b: [UInt8]): [UInt8] { return RLP.decodeString(b) }"
const scriptList = "access(all) fun main(b: [UInt8]): [[UInt8]] { return RLP.decodeList(b) }"

func scriptDecodeString(h *lib.Host, inp []byte, vm bool) (o outS) {
	out := h.RunScript(scriptString, []cadence.Value{bytesArg(inp)}, vm)
	if out.Class != "" {
		return outS{cls: normClass(out.Class)}
	}
	return outS{val: cadenceBytes(out.Value)}
}

func scriptDecodeList(h *lib.Host, inp []byte, vm bool) (o outL) {
	out := h.RunScript(scriptList, []cadence.Value{bytesArg(inp)}, vm)
	if out.Class != "" {
		return outL{cls: normClass(out.Class)}
	}
	o.items = [][]byte{}
	for _, e := range out.Value.(cadence.Array).Values {
		o.items = append(o.items, cadenceBytes(e))
	}
	return
}
