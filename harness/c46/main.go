// Command c46: correspondence + direct-oracle harness for C46 (RLP decoding accepts exactly canonical
// encodings and never crashes).
//
// Real code driven: stdlib.RLPDecodeString / RLPDecodeList (the bodies of RLP.decodeString / RLP.decodeList,
// called with a real interpreter as context), package rlp (ReadSize, DecodeString, DecodeList at start indices),
// and scripts calling RLP.decodeString / RLP.decodeList in the interpreter and in the VM.
// Every outcome (value / user error / crash-or-internal-error) is compared with an independent oracle
// defined through the reference encoder (oracle.go) and written to Coq case files for evaluation by the
// code-shaped Coq model (coq/theories/C46).
package main

import (
	"bufio"
	"encoding/hex"
	"flag"
	"fmt"
	"os"
	"path/filepath"
	"sort"
	"strings"
	"sync"

	"cvh/lib"
)

var (
	prop = flag.String("prop", "C46", "property id")
	seed = flag.Uint64("seed", 1, "seed")
	tier = flag.String("tier", "quick", "quick|thorough")
	dir  = flag.String("dir", ".", "output directory")
)

type harness struct {
	sum      *lib.Summary
	perKey   map[string]int
	distinct map[string]bool
	w        *wrapperCtx
	cwS      *chunkWriter
	cwL      *chunkWriter
	cwRS     *chunkWriter
	cwRL     *chunkWriter
	cwRR     *chunkWriter
	cwBS     *chunkWriter
	cwBL     *chunkWriter
	rng      *lib.Rng
	seenCoq  map[string]bool
	okS, okL int
}

func hx(b []byte) string { return hex.EncodeToString(b) }

func (h *harness) fail(key, what string, replay map[string]any) {
	h.perKey[key]++
	h.sum.Count("failure " + key)
	if h.perKey[key] <= 3 {
		h.sum.Fail(key, what, replay)
	}
}

func coqListOfLists(items [][]byte) string {
	parts := make([]string, len(items))
	for i, it := range items {
		parts[i] = lib.ZList(it)
	}
	return "[" + strings.Join(parts, ";") + "]"
}

func coqResS(o outS) string {
	if o.cls != "" {
		return "(Err " + o.cls + ")"
	}
	return "(Ok " + lib.ZList(o.val) + ")"
}

func coqResL(o outL) string {
	if o.cls != "" {
		return "(Err " + o.cls + ")"
	}
	return "(Ok " + coqListOfLists(o.items) + ")"
}

// requiredString / requiredList: what the property demands, from the encoder-based oracle.
func requiredString(inp []byte) outS {
	if p, ok := oracleString(inp); ok {
		return outS{val: p}
	}
	return outS{cls: lib.EUserOther}
}

func requiredList(inp []byte) outL {
	if items, ok := oracleList(inp, false); ok {
		return outL{items: items}
	}
	return outL{cls: lib.EUserOther}
}

// judgeString compares an observed decodeString outcome with the required one.
func (h *harness) judgeString(inp []byte, got outS, via string) {
	want := requiredString(inp)
	if got.eq(want) {
		return
	}
	key := ""
	switch {
	case got.cls == lib.ECrash:
		key = stringCrashClass(inp, 0)
		if key == "" {
			key = "rlp-crash:unexpected:decodeString"
		}
	case got.cls == "" && want.cls != "":
		key = "rlp-accept:noncanonical:decodeString"
	case got.cls == lib.EUserOther && want.cls == "":
		key = "rlp-reject:canonical:decodeString"
	case got.cls == "" && want.cls == "":
		key = "rlp-value:decodeString"
	default:
		key = "rlp-outcome:" + got.cls + ":decodeString"
	}
	h.fail(key, fmt.Sprintf("RLP.decodeString(0x%s) via %s: observed %s, required %s", hx(inp), via, got, want),
		map[string]any{"function": "RLP.decodeString", "input_hex": hx(inp), "via": via, "observed": got.String(), "required": want.String()})
}

func (h *harness) judgeList(inp []byte, got outL, via string) {
	want := requiredList(inp)
	if got.eq(want) {
		return
	}
	key := ""
	switch {
	case got.cls == lib.ECrash:
		key = listCrashClass(inp, 0)
		if key == "" {
			key = "rlp-crash:unexpected:decodeList"
		}
	case got.cls == "" && want.cls != "":
		key = "rlp-accept:noncanonical:decodeList"
		if items, ok := oracleList(inp, true); ok && got.eq(outL{items: items}) {
			for _, it := range items {
				if isNC1(it) {
					key = "rlp-accept:list-item-noncanonical-single-byte"
				}
			}
		}
	case got.cls == lib.EUserOther && want.cls == "":
		key = "rlp-reject:canonical:decodeList"
	case got.cls == "" && want.cls == "":
		key = "rlp-value:decodeList"
	default:
		key = "rlp-outcome:" + got.cls + ":decodeList"
	}
	h.fail(key, fmt.Sprintf("RLP.decodeList(0x%s) via %s: observed %s, required %s", hx(inp), via, got, want),
		map[string]any{"function": "RLP.decodeList", "input_hex": hx(inp), "via": via, "observed": got.String(), "required": want.String()})
}

// one runs both wrappers on inp, judges them, and (optionally) emits Coq cases.
func (h *harness) one(inp []byte, origin string, toCoq bool) {
	gs := h.w.wrapString(inp)
	gl := h.w.wrapList(inp)
	h.sum.Evaluations += 2
	h.judgeString(inp, gs, "stdlib.RLPDecodeString")
	h.judgeList(inp, gl, "stdlib.RLPDecodeList")
	h.sum.Count("origin " + origin)
	h.sum.Count("decodeString " + clsName(gs.cls))
	h.sum.Count("decodeList " + clsName(gl.cls))
	k := hx(inp)
	nontrivial := gs.cls == "" || gl.cls == "" || gs.cls == lib.ECrash || gl.cls == lib.ECrash || strings.HasPrefix(origin, "mut")
	if nontrivial && !h.distinct[k] {
		h.distinct[k] = true
		h.sum.DistinctNontrivial++
	}
	if gs.cls == "" {
		h.okS++
	}
	if gl.cls == "" {
		h.okL++
	}
	if (gs.cls == "" || gl.cls == "") && len(inp) > 3 {
		h.sum.Sample(map[string]string{"input_hex": k, "origin": origin, "decodeString": gs.String(), "decodeList": gl.String()})
	}
	if toCoq && !h.seenCoq[k] {
		h.seenCoq[k] = true
		h.cwS.Add(fmt.Sprintf("(%s, %s)", lib.ZList(inp), coqResS(gs)),
			map[string]any{"function": "RLP.decodeString", "input_hex": k, "origin": origin, "observed": gs.String()})
		h.cwL.Add(fmt.Sprintf("(%s, %s)", lib.ZList(inp), coqResL(gl)),
			map[string]any{"function": "RLP.decodeList", "input_hex": k, "origin": origin, "observed": gl.String()})
	}
}

func clsName(c string) string {
	if c == "" {
		return "ok"
	}
	return c
}

func newCW(prefix, elem, check string, per int) *chunkWriter {
	return &chunkWriter{Dir: *dir, Prefix: "cases_C46_" + prefix, Header: "From CV Require Import C46.Cases.",
		ElemType: elem, CheckFn: check, PerFile: per, PerChunk: 40}
}

func main() {
	flag.Parse()
	if *prop != "C46" {
		fmt.Fprintln(os.Stderr, "unknown prop", *prop)
		os.Exit(2)
	}
	h := &harness{sum: &lib.Summary{Distribution: map[string]int{}}, perKey: map[string]int{}, distinct: map[string]bool{}, w: &wrapperCtx{},
		seenCoq: map[string]bool{}}
	h.cwS = newCW("str", "list Z * res (list Z)", "check_string", 700)
	h.cwL = newCW("lst", "list Z * res (list (list Z))", "check_list", 700)
	h.cwRS = newCW("rawstr", "list Z * Z * res (list Z * Z)", "check_raw_string", 700)
	h.cwRL = newCW("rawlst", "list Z * Z * res (list (list Z) * Z)", "check_raw_list", 700)
	h.cwRR = newCW("readsize", "list Z * Z * res (bool * Z * Z)", "check_read_size", 700)
	h.cwBS = newCW("blks", "list Z * list (Z * Z)", "check_block_s", 800)
	h.cwBL = newCW("blkl", "list Z * list (Z * Z)", "check_block_l", 800)
	thorough := *tier == "thorough"
	rng := lib.NewRng(*seed)
	h.rng = rng

	h.sum.Rule = "inputs: corpus + the defect witnesses; ALL byte strings of length <= 3 against the Go oracle (wrappers for length <= 2, package rlp + the wrappers' " +
		"trailing-bytes rule for length 3 in the quick tier, wrappers in the thorough tier); the Coq model evaluates all of length <= 2 and, in blocks of 256, " +
		"all length-3 inputs whose first byte is a prefix-range boundary or one of 6 seeded bytes (quick) / every length-3 input (thorough); canonical encodings of random nested " +
		"items (lengths biased to 0/1/55/56/255/256); 14 kinds of mutations of them (truncation, trailing bytes, byte replacement, " +
		"non-canonical long forms, leading zeros, 0x81-form single bytes, extreme 1..8-byte length fields up to 2^64-1 around 2^63, off-by-one lengths, " +
		"mutated items inside well-formed lists); structured random bytes; package rlp functions at start indices >= 0; scripts in both engines. " +
		"Every outcome (value / user error / crash) is compared with the encoder-based oracle in Go and with the Coq model via vm_compute. " +
		"non-trivial = either decoder returns a value, or crashes, or the input is a mutation of a canonical encoding; distinct = distinct input bytes"

	// ---- stage 0: corpus and the witnesses of the defects repaired in commit 8b09734 (always run)
	for _, w := range corpusInputs() {
		h.one(w, "corpus", true)
	}

	// ---- stage 1: exhaustive, lengths 0..3
	h.exhaustive()

	// ---- stage 2: canonical encodings and their mutations
	ncanon, nmut, nrand := 1500, 4, 2500
	coqBudget := 4800
	if thorough {
		ncanon, nmut, nrand = 40000, 6, 60000
		coqBudget = 30000
	}
	var canon [][]byte
	for i := 0; i < ncanon; i++ {
		it := randItem(rng, 3, true)
		e := encode(it)
		canon = append(canon, e)
		toCoq := len(h.seenCoq) < coqBudget && len(e) <= 400
		h.one(e, "canonical", toCoq)
		// the reference encoder's own round trip: required outcome must be the encoded thing
		if it.isList {
			want := [][]byte{}
			for _, y := range it.list {
				want = append(want, encode(y))
			}
			if got := requiredList(e); !got.eq(outL{items: want}) {
				h.fail("harness:oracle-roundtrip", fmt.Sprintf("oracleList(encode x) != items for 0x%s", hx(e)), map[string]any{"input_hex": hx(e)})
			}
		} else if got := requiredString(e); !got.eq(outS{val: it.str}) {
			h.fail("harness:oracle-roundtrip", fmt.Sprintf("oracleString(encode x) != x for 0x%s", hx(e)), map[string]any{"input_hex": hx(e)})
		}
		for j := 0; j < nmut; j++ {
			m, what := mutate(rng, e)
			toCoq := len(h.seenCoq) < coqBudget && len(m) <= 400
			h.one(m, "mut:"+strings.SplitN(what, "(", 2)[0], toCoq)
		}
	}
	// ---- stage 3: structured random bytes
	for i := 0; i < nrand; i++ {
		h.one(randInput(rng), "random", len(h.seenCoq) < coqBudget)
	}

	// ---- stage 4: package rlp at start indices
	h.rawStage(rng, canon, thorough)

	// ---- stage 5: scripts in both engines
	h.scriptStage(rng, canon, thorough)

	for _, cw := range []*chunkWriter{h.cwS, h.cwL, h.cwRS, h.cwRL, h.cwRR, h.cwBS, h.cwBL} {
		cw.Close()
		h.sum.CaseFiles = append(h.sum.CaseFiles, cw.Files...)
	}
	h.sum.Extra = map[string]any{"decodeString_ok": h.okS, "decodeList_ok": h.okL, "failures_per_key": h.perKey}
	h.sum.Write(*dir)
}

// corpusInputs: hand-picked inputs (hex, one per line) from /verif/corpus/C46/*.txt, plus the built-in
// witnesses of the four defect classes repaired in onflow/cadence commit 8b09734.
func corpusInputs() [][]byte {
	ff := func(n int) []byte {
		out := make([]byte, n)
		for i := range out {
			out[i] = 0xff
		}
		return out
	}
	out := [][]byte{
		{0x81}, // index out of range
		append([]byte{0xbf, 0x7f}, ff(7)...),                   // string length overflow
		append([]byte{0xc9, 0xbf, 0x7f}, ff(7)...),             // list item (string prefix) length overflow
		append([]byte{0xc9, 0xff, 0x7f}, ff(7)...),             // list item (list prefix) length overflow
		append([]byte{0xbf, 0x7f, 0xff, 0xff, 0xff, 0xff, 0xff, 0xff, 0xf7}, 1, 2, 3), // smallest overflowing length, with data
		{0xc2, 0x81, 0x05}, // accepted non-canonical item
		append([]byte{0xff, 0x7f}, ff(7)...), // outer list length overflow (user error)
		append(append([]byte{0xff, 0x7f}, ff(7)...), 1),
		{}, {0xc0}, {0x80}, {0x00}, {0x7f}, {0x81, 0x80}, {0x81, 0x7f}, {0xb8, 0x37}, {0xb8, 0x38}, {0xf8, 0x37}, {0xf8, 0x38},
	}
	root := os.Getenv("VERIF_ROOT")
	if root == "" {
		root = "/verif"
	}
	files, _ := filepath.Glob(filepath.Join(root, "corpus", "C46", "*.txt"))
	sort.Strings(files)
	for _, f := range files {
		fh, err := os.Open(f)
		if err != nil {
			continue
		}
		sc := bufio.NewScanner(fh)
		for sc.Scan() {
			line := sc.Text()
			if i := strings.IndexByte(line, '#'); i >= 0 {
				line = line[:i]
			}
			line = strings.TrimPrefix(strings.TrimSpace(line), "0x")
			if line == "" {
				continue
			}
			if line == "empty" {
				out = append(out, []byte{})
			} else if b, err := hex.DecodeString(line); err == nil {
				out = append(out, b)
			}
		}
		fh.Close()
	}
	return out
}

// ---- exhaustive lengths 0..3 ----

type blockRes struct {
	excS, excL       [][2]string // (last byte, code) for outcomes other than user error
	evals            int
	fails            []func(h *harness)
	okS, okL, crashS int
}

func codeS(o outS) string {
	switch o.cls {
	case lib.EUserOther:
		return "0"
	case lib.ECrash:
		return "1"
	case "":
	default:
		return "2"
	}
	// 3 + fold (a*257 + b+1); payloads here have at most 3 bytes
	a := uint64(0)
	for _, b := range o.val {
		a = a*257 + uint64(b) + 1
	}
	return fmt.Sprint(a + 3)
}

func codeL(o outL) string {
	switch o.cls {
	case lib.EUserOther:
		return "0"
	case lib.ECrash:
		return "1"
	case "":
	default:
		return "2"
	}
	a := uint64(0) // at most 2 payload bytes + 2 separators in base 258: fits easily
	for _, it := range o.items {
		for _, b := range it {
			a = a*258 + uint64(b) + 1
		}
		a = a*258 + 257
	}
	return fmt.Sprint(a + 3)
}

func (h *harness) exhaustive() {
	// length 0
	h.one([]byte{}, "exhaustive-0", true)
	type job struct {
		pre []byte
		res *blockRes
	}
	var jobs []job
	jobs = append(jobs, job{pre: []byte{}})
	for a := 0; a < 256; a++ {
		jobs = append(jobs, job{pre: []byte{byte(a)}})
	}
	for a := 0; a < 256; a++ {
		for b := 0; b < 256; b++ {
			jobs = append(jobs, job{pre: []byte{byte(a), byte(b)}})
		}
	}
	nw := 4
	var wg sync.WaitGroup
	for w := 0; w < nw; w++ {
		wg.Add(1)
		go func(w int) {
			defer wg.Done()
			wc := &wrapperCtx{}
			for j := w; j < len(jobs); j += nw {
				jobs[j].res = exhaustBlock(wc, jobs[j].pre)
			}
		}(w)
	}
	wg.Wait()
	// which length-3 blocks also go to the Coq model
	toCoqFirst := map[byte]bool{}
	for _, b := range boundaryBytes {
		toCoqFirst[b] = true
	}
	for i := 0; i < 6; i++ {
		toCoqFirst[byte(h.rng.Intn(256))] = true
	}
	for _, j := range jobs {
		r := j.res
		h.sum.Evaluations += r.evals
		h.sum.Distribution["origin exhaustive-"+fmt.Sprint(len(j.pre)+1)] += 256
		h.okS += r.okS
		h.okL += r.okL
		h.sum.DistinctNontrivial += r.okS + r.okL + r.crashS
		for _, f := range r.fails {
			f(h)
		}
		fmtExc := func(e [][2]string) string {
			parts := make([]string, len(e))
			for i, p := range e {
				parts[i] = "(" + p[0] + "," + p[1] + ")"
			}
			return "[" + strings.Join(parts, ";") + "]"
		}
		if len(j.pre) == 2 && *tier != "thorough" && !toCoqFirst[j.pre[0]] {
			continue
		}
		h.sum.Count("coq blocks of 256")
		h.cwBS.Add(fmt.Sprintf("(%s, %s)", lib.ZList(j.pre), fmtExc(r.excS)),
			map[string]any{"function": "RLP.decodeString", "block_prefix_hex": hx(j.pre), "exceptions": fmtExc(r.excS), "kind": "block"})
		h.cwBL.Add(fmt.Sprintf("(%s, %s)", lib.ZList(j.pre), fmtExc(r.excL)),
			map[string]any{"function": "RLP.decodeList", "block_prefix_hex": hx(j.pre), "exceptions": fmtExc(r.excL), "kind": "block"})
	}
}

func exhaustBlock(wc *wrapperCtx, pre []byte) *blockRes {
	r := &blockRes{}
	for c := 0; c < 256; c++ {
		inp := append(append([]byte{}, pre...), byte(c))
		var gs outS
		var gl outL
		via := "stdlib.RLPDecodeString"
		vial := "stdlib.RLPDecodeList"
		if len(inp) <= 2 || *tier == "thorough" {
			gs, gl = wc.wrapString(inp), wc.wrapList(inp)
		} else {
			gs, gl = pkgString(inp), pkgList(inp)
			via, vial = "rlp.DecodeString + trailing-bytes rule", "rlp.DecodeList + trailing-bytes rule"
		}
		r.evals += 2
		if !gs.eq(requiredString(inp)) {
			gs, via := gs, via
			r.fails = append(r.fails, func(h *harness) { h.judgeString(inp, gs, via) })
		}
		if !gl.eq(requiredList(inp)) {
			gl, vial := gl, vial
			r.fails = append(r.fails, func(h *harness) { h.judgeList(inp, gl, vial) })
		}
		if gs.cls != lib.EUserOther {
			r.excS = append(r.excS, [2]string{fmt.Sprint(c), codeS(gs)})
		}
		if gl.cls != lib.EUserOther {
			r.excL = append(r.excL, [2]string{fmt.Sprint(c), codeL(gl)})
		}
		if gs.cls == "" {
			r.okS++
		}
		if gl.cls == "" {
			r.okL++
		}
		if gs.cls == lib.ECrash {
			r.crashS++
		}
	}
	return r
}

// ---- package rlp at start indices ----

func (h *harness) rawStage(rng *lib.Rng, canon [][]byte, thorough bool) {
	n := 900
	if thorough {
		n = 20000
	}
	for i := 0; i < n; i++ {
		var inp []byte
		start := 0
		switch rng.Intn(4) {
		case 0: // pre ++ canonical ++ post, start at the encoding
			pre := randBytes(rng, rng.Intn(6))
			e := lib.Pick(rng, canon)
			if len(e) > 200 {
				e = e[:200]
			}
			inp = append(append(append([]byte{}, pre...), e...), randBytes(rng, rng.Intn(4))...)
			start = len(pre)
		case 1: // mutated encoding after a prefix
			pre := randBytes(rng, rng.Intn(6))
			m, _ := mutate(rng, lib.Pick(rng, canon))
			if len(m) > 200 {
				m = m[:200]
			}
			inp = append(append([]byte{}, pre...), m...)
			start = len(pre)
		case 2: // arbitrary start inside random bytes, including len and len+1
			inp = randInput(rng)
			start = rng.Intn(len(inp) + 2)
		default: // 0x81 / long prefixes at the very end
			inp = append(randBytes(rng, rng.Intn(5)), lib.Pick(rng, []byte{0x81, 0x80, 0xb8, 0xb9, 0xbf, 0xf8, 0xff, 0xc1, 0x7f}))
			start = len(inp) - 1
			if rng.Chance(1, 4) {
				inp = append(inp, randByte(rng))
			}
		}
		k := hx(inp)
		desc := func(fn string, obs string) map[string]any {
			return map[string]any{"function": fn, "input_hex": k, "start": start, "observed": obs}
		}
		rs := rawString(inp, start)
		rl := rawList(inp, start)
		rr := rawReadSize(inp, start)
		h.sum.Evaluations += 3
		h.sum.Count("raw DecodeString " + clsName(rs.cls))
		h.sum.Count("raw DecodeList " + clsName(rl.cls))
		h.sum.Count("raw ReadSize " + clsName(rr.cls))
		// crashes of the package functions: same defect classes, at an offset
		if rs.cls == lib.ECrash {
			key := stringCrashClass(inp, start)
			if key == "" {
				key = "rlp-crash:unexpected:rlp.DecodeString"
			}
			h.fail(key, fmt.Sprintf("rlp.DecodeString(0x%s, %d) panics", k, start), desc("rlp.DecodeString", "Err Crash"))
		}
		if rl.cls == lib.ECrash {
			key := listCrashClass(inp, start)
			if key == "" {
				key = "rlp-crash:unexpected:rlp.DecodeList"
			}
			h.fail(key, fmt.Sprintf("rlp.DecodeList(0x%s, %d) panics", k, start), desc("rlp.DecodeList", "Err Crash"))
		}
		if rr.cls == lib.ECrash {
			h.fail("rlp-crash:unexpected:rlp.ReadSize", fmt.Sprintf("rlp.ReadSize(0x%s, %d) panics", k, start), desc("rlp.ReadSize", "Err Crash"))
		}
		var ts, tl, tr string
		if rs.cls != "" {
			ts = "(Err " + rs.cls + ")"
		} else {
			ts = fmt.Sprintf("(Ok (%s, %d))", lib.ZList(rs.val), rs.n)
		}
		if rl.cls != "" {
			tl = "(Err " + rl.cls + ")"
		} else {
			tl = fmt.Sprintf("(Ok (%s, %d))", coqListOfLists(rl.items), rl.n)
		}
		if rr.cls != "" {
			tr = "(Err " + rr.cls + ")"
		} else {
			tr = fmt.Sprintf("(Ok (%v, %d, %d))", rr.isString, rr.ds, rr.sz)
		}
		h.cwRS.Add(fmt.Sprintf("(%s, %d, %s)", lib.ZList(inp), start, ts), desc("rlp.DecodeString", ts))
		h.cwRL.Add(fmt.Sprintf("(%s, %d, %s)", lib.ZList(inp), start, tl), desc("rlp.DecodeList", tl))
		h.cwRR.Add(fmt.Sprintf("(%s, %d, %s)", lib.ZList(inp), start, tr), desc("rlp.ReadSize", tr))
	}
}

// ---- scripts ----

func (h *harness) scriptStage(rng *lib.Rng, canon [][]byte, thorough bool) {
	host := lib.NewHost()
	inputs := corpusInputs()
	n := 60
	if thorough {
		n = 1500
	}
	for i := 0; i < n; i++ {
		e := lib.Pick(rng, canon)
		if len(e) > 300 {
			continue
		}
		switch rng.Intn(3) {
		case 0:
			inputs = append(inputs, e)
		case 1:
			m, _ := mutate(rng, e)
			inputs = append(inputs, m)
		default:
			inputs = append(inputs, randInput(rng))
		}
	}
	for _, inp := range inputs {
		ds := h.w.wrapString(inp)
		dl := h.w.wrapList(inp)
		for _, vm := range []bool{false, true} {
			eng := "interpreter"
			if vm {
				eng = "vm"
			}
			gs := scriptDecodeString(host, inp, vm)
			gl := scriptDecodeList(host, inp, vm)
			h.sum.Evaluations += 2
			h.sum.Count("script " + eng)
			h.judgeString(inp, gs, "script RLP.decodeString ("+eng+")")
			h.judgeList(inp, gl, "script RLP.decodeList ("+eng+")")
			if !gs.eq(ds) {
				h.fail("rlp-script-differs:decodeString:"+eng,
					fmt.Sprintf("script RLP.decodeString(0x%s) in the %s gives %s but stdlib.RLPDecodeString gives %s", hx(inp), eng, gs, ds),
					map[string]any{"function": "RLP.decodeString", "input_hex": hx(inp), "engine": eng, "observed": gs.String(), "wrapper": ds.String()})
			}
			if !gl.eq(dl) {
				h.fail("rlp-script-differs:decodeList:"+eng,
					fmt.Sprintf("script RLP.decodeList(0x%s) in the %s gives %s but stdlib.RLPDecodeList gives %s", hx(inp), eng, gl, dl),
					map[string]any{"function": "RLP.decodeList", "input_hex": hx(inp), "engine": eng, "observed": gl.String(), "wrapper": dl.String()})
			}
		}
	}
}
