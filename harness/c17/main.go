// Command c17: correspondence + direct-oracle harness for C17 (textual and byte encodings of numbers and
// addresses round-trip). It drives the real parsers/converters of /repo (interpreter.StringValueParsers,
// value methods String / ToBigEndianBytes, and scripts in both engines for fromBigEndianBytes, Address and
// hex functions), compares with an independent oracle of what the property demands, and writes Coq case
// files (inputs + observed outputs) for evaluation against the code-shaped Coq model.
package main

import (
	"flag"
	"fmt"
	"math/big"
	"os"
	"sort"
	"strings"

	"cvh/lib"
)

var (
	prop = flag.String("prop", "C17", "property id")
	seed = flag.Uint64("seed", 1, "seed")
	tier = flag.String("tier", "quick", "quick|thorough")
	dir  = flag.String("dir", ".", "output directory")
)

type env struct {
	sum      *lib.Summary
	cw       *lib.CaseWriter
	rng      *lib.Rng
	thorough bool
	failed   map[string]int // failures per key (only the first of each key is reported)
	distinct map[string]bool
	h        *lib.Host
}

func (e *env) fail(key, what string, replay any) {
	e.failed[key]++
	if e.failed[key] == 1 {
		e.sum.Fail(key, what, replay)
	}
}

func (e *env) nontrivial(k string) {
	if !e.distinct[k] {
		e.distinct[k] = true
		e.sum.DistinctNontrivial++
	}
}

func main() {
	flag.Parse()
	if *prop != "C17" {
		fmt.Fprintln(os.Stderr, "unknown prop", *prop)
		os.Exit(2)
	}
	e := &env{
		sum: &lib.Summary{},
		cw: &lib.CaseWriter{
			Dir: *dir, Prefix: "cases_C17",
			Header:   "From CV Require Import C17.Cases.",
			ElemType: "c17case",
			CheckFn:  "check_c17",
			PerFile:  800,
		},
		rng:      lib.NewRng(*seed),
		thorough: *tier == "thorough",
		failed:   map[string]int{},
		distinct: map[string]bool{},
		h:        lib.NewHost(),
	}
	e.sum.Rule = "fromString: every string of length <=4 over {+,-,0,1,9,_,.,space,x} and grammar-generated numerals " +
		"(boundary and random values of each of the 24 number types, printed, then perturbed: signs, leading zeros, underscores, " +
		"whitespace, missing/extra/short fractional digits, out-of-range neighbours, non-ASCII digits) are parsed by the real parser of " +
		"ALL 24 types and compared with an independent oracle (grammar by signedness and integer/fixed-point + representability) and, " +
		"as observed outputs, with the Coq model; toString/toBigEndianBytes of boundary+random values of every type (direct value methods) " +
		"with real round trips; fromBigEndianBytes for every length 0..size+1 with boundary contents, Address.fromString/fromBytes/" +
		"toString/toBytes, String.encodeHex/decodeHex and path constructors through scripts in both engines. " +
		"non-trivial = the string is accepted by at least one type or is a perturbed numeral, the byte array is non-empty, " +
		"the value is non-zero; distinct = distinct (operation, type, input)"
	stringsLeg(e)
	valuesLeg(e)
	bytesLeg(e)
	addressLeg(e)
	e.cw.Close()
	e.sum.CaseFiles = e.cw.Files
	keys := make([]string, 0, len(e.failed))
	for k := range e.failed {
		keys = append(keys, k)
	}
	sort.Strings(keys)
	e.sum.Extra = map[string]any{"failure_counts": e.failed}
	e.sum.Write(*dir)
}

// ---------------------------------------------------------------------------------- fromString

// evalString runs one input string through the real parser of every type, compares with the oracle
// and (optionally) records the observed outputs as a Coq case.
func (e *env) evalString(s string, origin string, toCoq bool) {
	var obsI, obsF []string
	accepted := false
	for _, t := range allTypes {
		got := realFromString(t, s)
		want := specFromString(t, s)
		e.sum.Evaluations++
		if !got.Nil {
			accepted = true
		}
		if !got.Eq(want) {
			key := findingKey(t, s, got, want)
			e.fail(key, fmt.Sprintf("%s.fromString(%q) = %s, required %s", t.Name, s, got, want),
				map[string]any{"op": "fromString", "type": t.Name, "input": s, "observed": got.String(), "required": want.String(),
					"origin": origin, "via": "interpreter.StringValueParsers"})
		}
		if t.Fixed {
			obsF = append(obsF, got.Coq())
		} else {
			obsI = append(obsI, got.Coq())
		}
	}
	if accepted {
		e.sum.Count("fromString accepted by some type")
	} else {
		e.sum.Count("fromString rejected by all types")
	}
	e.sum.Count("fromString origin " + origin)
	if accepted || origin != "exhaustive" {
		e.nontrivial("fromString|" + s)
	}
	if toCoq && !accepted {
		e.cw.Add(fmt.Sprintf("CFromStrNone %s", lib.ZList([]byte(s))),
			map[string]any{"op": "fromString", "type": "all", "input": s, "observed": "nil for all 24 types", "origin": origin})
	} else if toCoq {
		e.cw.Add(fmt.Sprintf("CFromStrAll %s [%s] [%s]", lib.ZList([]byte(s)), strings.Join(obsI, ";"), strings.Join(obsF, ";")),
			map[string]any{"op": "fromString", "type": "all", "input": s, "observed_int_types": obsI, "observed_fix_types": obsF, "origin": origin})
	}
}

func stringsLeg(e *env) {
	// corpus: the known defect inputs and a few hand-picked strings, always first
	for _, s := range []string{"+5", "-0", "-5", "-00", "+0", "92233720368.6", "-92233720368.6", "184467440737.1",
		"170141183460469.3", "-170141183460469.3", "340282366920938.5", "92233720368.54775807", "92233720368.54775808",
		"-92233720368.54775808", "-92233720368.54775809", "184467440737.09551615", "184467440737.09551616",
		"", " ", "1 ", " 1", "1_0", "0x10", "1e3", "1.", ".1", "1.0", "+1.0", "-0.0", "-0.5", "1.+5", "1.-5", "+-1", "--1", "1.2.3",
		"127", "128", "-128", "-129", "255", "256", "00000000000000000000255", "٣", "１"} {
		e.evalString(s, "corpus", true)
	}
	for _, s := range corpusStrings() {
		e.evalString(s, "corpus", true)
	}
	// exhaustive small strings
	alphabet := []byte("+-019_. x")
	var rec func(prefix []byte, depth int)
	n := 0
	rec = func(prefix []byte, depth int) {
		if len(prefix) > 0 {
			n++
			toCoq := e.thorough || len(prefix) <= 3 || n%5 == 0
			e.evalString(string(prefix), "exhaustive", toCoq)
		}
		if depth == 0 {
			return
		}
		for _, c := range alphabet {
			rec(append(append([]byte{}, prefix...), c), depth-1)
		}
	}
	rec(nil, 4)

	// grammar-generated numerals with perturbations
	seen := map[string]bool{}
	emit := func(s string) {
		if seen[s] || len(s) > 400 {
			return
		}
		seen[s] = true
		e.evalString(s, "grammar", true)
	}
	nrand := 3
	if e.thorough {
		nrand = 20
	}
	for _, t := range allTypes {
		vals := boundaryValues(t, e.thorough)
		for i := 0; i < nrand; i++ {
			vals = append(vals, randomValue(t, e.rng))
		}
		// just outside the range
		if m := t.Max(); m != nil {
			vals = append(vals, new(big.Int).Add(m, big.NewInt(1)), new(big.Int).Add(m, big.NewInt(2)))
		}
		if m := t.Min(); m != nil {
			vals = append(vals, new(big.Int).Sub(m, big.NewInt(1)))
		}
		for vi, v := range vals {
			base := specToString(t, v)
			ps := perturb(t, base, e.rng, e.thorough)
			if !e.thorough && vi%3 != 0 {
				ps = ps[:4] // quick tier: the full perturbation set for every third value only
			}
			for _, s := range ps {
				emit(s)
			}
		}
		if t.Fixed {
			for _, s := range fixedBoundaryStrings(t) {
				emit(s)
			}
		}
	}
}

// corpusStrings reads /verif/corpus/C17/*.txt style inputs if present (one string per line).
func corpusStrings() []string {
	var out []string
	for _, p := range []string{"../../corpus/C17/strings.txt", "/verif/corpus/C17/strings.txt"} {
		b, err := os.ReadFile(p)
		if err != nil {
			continue
		}
		for _, l := range strings.Split(string(b), "\n") {
			if l != "" && !strings.HasPrefix(l, "#") {
				out = append(out, l)
			}
		}
		break
	}
	return out
}

func boundaryValues(t numType, thorough bool) []*big.Int {
	seen := map[string]bool{}
	var out []*big.Int
	add := func(z *big.Int) {
		if z == nil || !t.InRange(z) || seen[z.String()] {
			return
		}
		seen[z.String()] = true
		out = append(out, new(big.Int).Set(z))
	}
	for _, i := range []int64{0, 1, -1, 9, 10, -10, 99, 100, 127, 128, -128, -129, 255, 256} {
		add(big.NewInt(i))
	}
	if t.Fixed {
		f := pow10(t.Scale)
		for _, i := range []int64{1, -1, 5, 10} {
			add(new(big.Int).Mul(big.NewInt(i), f))                                           // n.0
			add(new(big.Int).Add(new(big.Int).Mul(big.NewInt(i), f), big.NewInt(1)))          // n.00..01
			add(new(big.Int).Quo(new(big.Int).Mul(big.NewInt(i), f), big.NewInt(2)))          // n/2
			add(new(big.Int).Sub(new(big.Int).Mul(big.NewInt(i), f), big.NewInt(1)))          // just below
			add(new(big.Int).Neg(new(big.Int).Quo(f, big.NewInt(2))))                         // -0.5
			add(new(big.Int).Mul(big.NewInt(i), new(big.Int).Quo(f, big.NewInt(10))))         // 0.1 * i
			add(new(big.Int).Mul(big.NewInt(i), new(big.Int).Quo(f, pow10(t.Scale-1))))       // few units
			add(new(big.Int).Mul(big.NewInt(i*12345), new(big.Int).Quo(f, big.NewInt(1000)))) // 3 fractional digits
		}
	}
	bits := t.Bits
	if bits == 0 {
		bits = 300
	}
	ks := []int{bits - 1, bits, bits / 2, 63, 64}
	if thorough {
		ks = append(ks, bits-2, bits/2-1, bits/2+1, 31, 32, 65, 7, 8, 15, 16)
	}
	for _, k := range ks {
		if k < 0 {
			continue
		}
		p := pow2(k)
		for _, d := range []int64{-1, 0, 1} {
			z := new(big.Int).Add(p, big.NewInt(d))
			add(z)
			add(new(big.Int).Neg(z))
		}
	}
	if m := t.Min(); m != nil {
		add(m)
		add(new(big.Int).Add(m, big.NewInt(1)))
	}
	if m := t.Max(); m != nil {
		add(m)
		add(new(big.Int).Sub(m, big.NewInt(1)))
		// powers of ten around the maximum (digit-count boundaries)
		d := len(m.String())
		add(pow10(d - 1))
		add(new(big.Int).Sub(pow10(d-1), big.NewInt(1)))
	}
	if t.Bits == 0 {
		add(pow10(80))
		add(new(big.Int).Neg(pow10(80)))
	}
	return out
}

func randomValue(t numType, r *lib.Rng) *big.Int {
	lo, hi := t.Min(), t.Max()
	if hi == nil {
		hi = pow2(100 + r.Intn(300))
	}
	if lo == nil {
		lo = new(big.Int).Neg(hi)
	}
	return r.BigBetween(lo, hi)
}

// perturb returns the printed numeral and variants of it that a sloppy parser might accept.
func perturb(t numType, base string, r *lib.Rng, thorough bool) []string {
	out := []string{base}
	sign, body := "", base
	if strings.HasPrefix(base, "-") {
		sign, body = "-", base[1:]
	}
	out = append(out,
		"+"+body, "-"+body,
		sign+"00"+body,              // leading zeros
		" "+base, base+" ", base+"\n", // whitespace
		sign+body+"_", sign+"_"+body,
		"0x"+body, base+"e1",
	)
	if len(body) > 1 {
		i := 1 + r.Intn(len(body)-1)
		out = append(out, sign+body[:i]+"_"+body[i:]) // underscore inside
		out = append(out, sign+body[:i]+" "+body[i:])
		// one ASCII digit replaced by a non-ASCII digit
		out = append(out, sign+body[:i-1]+"٣"+body[i:])
	}
	if !t.Fixed {
		out = append(out, base+".0", base+".", "."+body)
	} else {
		dot := strings.IndexByte(body, '.')
		ip, fp := body[:dot], body[dot+1:]
		out = append(out,
			sign+ip,               // no fractional part
			sign+ip+".",           // empty fraction
			sign+"."+fp,           // empty integer part
			sign+ip+"."+fp+"0",    // one digit too many (zero)
			sign+ip+"."+fp+"1",    // one digit too many
			sign+ip+".+"+fp[1:],   // sign in the fraction
			sign+ip+".-"+fp[1:],
			sign+ip+"."+fp+".0",   // two points
			sign+ip+","+fp,        // wrong separator
			sign+ip+"."+strings.TrimRight(fp, "0")+"", // shortest form (may be empty fraction)
		)
		// every shorter fraction
		ks := []int{1, 2, t.Scale / 2, t.Scale - 1}
		if thorough {
			ks = nil
			for k := 1; k < t.Scale; k++ {
				ks = append(ks, k)
			}
		}
		for _, k := range ks {
			if k >= 1 && k < len(fp) {
				out = append(out, sign+ip+"."+fp[:k])
			}
		}
	}
	return out
}

// fixedBoundaryStrings enumerates numerals around the extreme integer parts with every fraction length.
func fixedBoundaryStrings(t numType) []string {
	var out []string
	f := pow10(t.Scale)
	type side struct {
		sign string
		lim  *big.Int
	}
	sides := []side{{"", t.Max()}}
	if t.Signed {
		sides = append(sides, side{"-", new(big.Int).Neg(t.Min())})
	}
	for _, sd := range sides {
		ip, fp := new(big.Int).QuoRem(sd.lim, f, new(big.Int))
		fs := fp.String()
		fs = strings.Repeat("0", t.Scale-len(fs)) + fs
		for _, ipd := range []int64{-1, 0, 1} {
			ips := new(big.Int).Add(ip, big.NewInt(ipd)).String()
			for k := 1; k <= t.Scale+1; k++ {
				var prefix string
				if k <= t.Scale {
					prefix = fs[:k]
				} else {
					prefix = fs + "0"
				}
				pz, _ := new(big.Int).SetString(prefix, 10)
				for _, d := range []int64{-1, 0, 1} {
					z := new(big.Int).Add(pz, big.NewInt(d))
					if z.Sign() < 0 || len(z.String()) > k {
						continue
					}
					zs := z.String()
					zs = strings.Repeat("0", k-len(zs)) + zs
					out = append(out, sd.sign+ips+"."+zs)
				}
				out = append(out, sd.sign+ips+"."+strings.Repeat("9", k), sd.sign+ips+"."+strings.Repeat("0", k))
			}
		}
	}
	return out
}
