package main

import (
	"encoding/hex"
	"fmt"
	"math/big"
	"strings"

	"cvh/lib"

	"github.com/onflow/cadence"
)

// ---------------------------------------------------------------------------------- script batches

// result of one string-typed expression evaluated in a script
type sres struct {
	S   string
	Cls string // error class when the expression (run alone) failed
}

func (r sres) String() string {
	if r.Cls != "" {
		return "Err " + r.Cls
	}
	return r.S
}

func runStrings(h *lib.Host, exprs []string, vm bool) ([]sres, bool) {
	src := "access(all) fun main(): [String] { return [\n" + strings.Join(exprs, ",\n") + "\n] }"
	o := h.RunScript(src, nil, vm)
	if o.Class != "" {
		return nil, false
	}
	arr, ok := o.Value.(cadence.Array)
	if !ok || len(arr.Values) != len(exprs) {
		return nil, false
	}
	out := make([]sres, len(exprs))
	for i, v := range arr.Values {
		out[i] = sres{S: string(v.(cadence.String))}
	}
	return out, true
}

// evalExprs evaluates string-typed Cadence expressions in batches, in one engine; an expression whose
// batch fails is re-run alone so that its own error class is observed.
func (e *env) evalExprs(exprs []string, vm bool) []sres {
	out := make([]sres, 0, len(exprs))
	const batch = 40
	for i := 0; i < len(exprs); i += batch {
		j := i + batch
		if j > len(exprs) {
			j = len(exprs)
		}
		e.sum.Count(fmt.Sprintf("script batches vm=%v", vm))
		if rs, ok := runStrings(e.h, exprs[i:j], vm); ok {
			out = append(out, rs...)
			continue
		}
		for _, x := range exprs[i:j] {
			o := e.h.RunScript("access(all) fun main(): String { return "+x+" }", nil, vm)
			if o.Class != "" {
				out = append(out, sres{Cls: o.Class})
			} else {
				out = append(out, sres{S: string(o.Value.(cadence.String))})
			}
		}
	}
	return out
}

// both engines; reports a failure if they disagree; returns the interpreter's results
func (e *env) evalBoth(what string, exprs []string) []sres {
	a := e.evalExprs(exprs, false)
	b := e.evalExprs(exprs, true)
	e.sum.Evaluations += 2 * len(exprs)
	for i := range exprs {
		if a[i] != b[i] {
			e.fail("engines-differ:"+what, fmt.Sprintf("`%s`: interpreter gives %s, VM gives %s", exprs[i], a[i], b[i]),
				map[string]any{"op": what, "expression": exprs[i], "interpreter": a[i].String(), "vm": b[i].String()})
		}
	}
	return a
}

func cadenceString(s string) string {
	var b strings.Builder
	b.WriteByte('"')
	for _, r := range s {
		if r < 0x20 || r > 0x7e || r == '"' || r == '\\' {
			fmt.Fprintf(&b, "\\u{%x}", r)
		} else {
			b.WriteRune(r)
		}
	}
	b.WriteByte('"')
	return b.String()
}

func cadenceBytes(bs []byte) string {
	parts := make([]string, len(bs))
	for i, x := range bs {
		parts[i] = fmt.Sprint(x)
	}
	return "[" + strings.Join(parts, ",") + "]"
}

func literal(t numType, z *big.Int) string {
	return "(" + specToString(t, z) + " as " + t.Name + ")"
}

// ---------------------------------------------------------------------------------- toString / toBigEndianBytes

type beRound struct {
	t  numType
	bs []byte
	z  *big.Int
}

var roundTrips []beRound

func decodeBE(bs []byte, signed bool) *big.Int {
	z := new(big.Int).SetBytes(bs)
	if signed && len(bs) > 0 && bs[0]&0x80 != 0 {
		z.Sub(z, pow2(8*len(bs)))
	}
	return z
}

func valuesLeg(e *env) {
	nrand := 12
	if e.thorough {
		nrand = 200
	}
	var scriptExprs []string
	var scriptWant []string
	var scriptDesc []string
	for _, t := range allTypes {
		vals := boundaryValues(t, true)
		for i := 0; i < nrand; i++ {
			vals = append(vals, randomValue(t, e.rng))
		}
		for i, z := range vals {
			v := t.Make(z)
			// toString
			var s string
			cls, _ := lib.Catch(func() { s = v.String() })
			e.sum.Evaluations++
			e.sum.Count("toString " + t.Class)
			if z.Sign() != 0 {
				e.nontrivial("toString|" + t.Name + "|" + z.String())
			}
			if want := specToString(t, z); cls != "" || s != want {
				e.fail("toString:"+t.Name, fmt.Sprintf("%s value %s prints as %q (err %q), required %q", t.Name, z, s, cls, want),
					map[string]any{"op": "toString", "type": t.Name, "value": z.String(), "observed": s, "required": want})
			}
			if t.Fixed {
				e.cw.Add(fmt.Sprintf("CToStrF %s %s %s", t.CoqF, lib.Z(z), lib.ZList([]byte(s))),
					map[string]any{"op": "toString", "type": t.Name, "value": z.String(), "observed": s})
			} else {
				e.cw.Add(fmt.Sprintf("CToStrI %s %s", lib.Z(z), lib.ZList([]byte(s))),
					map[string]any{"op": "toString", "type": t.Name, "value": z.String(), "observed": s})
			}
			// T.fromString(x.toString()) = x on the implementation
			back := realFromString(t, s)
			e.sum.Evaluations++
			if back.Err != "" || back.Nil || back.Z.Cmp(z) != 0 {
				e.fail("fromString-roundtrip:"+t.Name, fmt.Sprintf("%s.fromString(%q) = %s, required %s (= the value printed)", t.Name, s, back, z),
					map[string]any{"op": "fromString(toString)", "type": t.Name, "value": z.String(), "printed": s, "observed": back.String()})
			}
			// toBigEndianBytes
			var bs []byte
			cls, _ = lib.Catch(func() { bs = v.ToBigEndianBytes() })
			e.sum.Evaluations++
			e.sum.Count("toBigEndianBytes " + t.Class)
			if z.Sign() != 0 {
				e.nontrivial("toBE|" + t.Name + "|" + z.String())
			}
			okBE := cls == "" && decodeBE(bs, t.Signed).Cmp(z) == 0 && (t.Size() == 0 || len(bs) == t.Size()) && len(bs) > 0
			if !okBE {
				e.fail("toBigEndianBytes:"+t.Name, fmt.Sprintf("%s value %s gives bytes %v (err %q): not the big-endian encoding of the value at the type's size", t.Name, z, bs, cls),
					map[string]any{"op": "toBigEndianBytes", "type": t.Name, "value": z.String(), "observed": fmt.Sprint(bs), "error": cls})
			}
			obs := "(Ok " + lib.ZList(bs) + ")"
			if cls != "" {
				obs = "(Err " + cls + ")"
			}
			e.cw.Add(fmt.Sprintf("CToBE %s %s %s", t.CoqN, lib.Z(z), obs),
				map[string]any{"op": "toBigEndianBytes", "type": t.Name, "value": z.String(), "observed": fmt.Sprint(bs), "error": cls})
			if cls == "" {
				roundTrips = append(roundTrips, beRound{t, bs, z})
			}
			// a sample also through scripts in both engines
			if i%7 == 0 || i < 4 {
				scriptExprs = append(scriptExprs, literal(t, z)+".toString()", "String.encodeHex("+literal(t, z)+".toBigEndianBytes())")
				scriptWant = append(scriptWant, s, hex.EncodeToString(bs))
				scriptDesc = append(scriptDesc, t.Name, t.Name)
			}
			if len(e.sum.Samples) < 3 && z.Sign() < 0 {
				e.sum.Sample(map[string]string{"type": t.Name, "value": z.String(), "toString": s, "toBigEndianBytes": fmt.Sprint(bs)})
			}
		}
	}
	rs := e.evalBoth("toString/toBigEndianBytes", scriptExprs)
	for i, r := range rs {
		if r.String() != scriptWant[i] {
			e.fail("script-vs-method:"+scriptDesc[i], fmt.Sprintf("script `%s` gives %s but the value method gives %s", scriptExprs[i], r, scriptWant[i]),
				map[string]any{"op": "script", "type": scriptDesc[i], "expression": scriptExprs[i], "observed": r.String(), "value_method": scriptWant[i]})
		}
	}
}

// ---------------------------------------------------------------------------------- fromBigEndianBytes

func bytesLeg(e *env) {
	type bcase struct {
		t    numType
		bs   []byte
		want *big.Int // round trip expectation (nil = none)
	}
	var cases []bcase
	// byte arrays of every length 0..size+1 with boundary contents
	for _, t := range allTypes {
		maxLen := t.Size() + 1
		lens := []int{}
		if t.Size() == 0 {
			for l := 0; l <= 20; l++ {
				lens = append(lens, l)
			}
			lens = append(lens, 32, 33, 40, 64)
		} else {
			for l := 0; l <= maxLen; l++ {
				lens = append(lens, l)
			}
			if e.thorough {
				lens = append(lens, maxLen+1, 2*t.Size(), 2*t.Size()+1)
			}
		}
		nr := 2
		if e.thorough {
			nr = 12
		}
		for _, l := range lens {
			fill := func(first, rest byte) []byte {
				b := make([]byte, l)
				for i := range b {
					b[i] = rest
				}
				if l > 0 {
					b[0] = first
				}
				return b
			}
			set := [][]byte{fill(0, 0), fill(0xff, 0xff), fill(0x80, 0), fill(0x7f, 0xff), fill(1, 0), fill(0, 0xff), fill(0x80, 0x01)}
			for i := 0; i < nr; i++ {
				b := make([]byte, l)
				for j := range b {
					b[j] = byte(e.rng.Intn(256))
				}
				set = append(set, b)
			}
			seen := map[string]bool{}
			for _, b := range set {
				if seen[string(b)] {
					continue
				}
				seen[string(b)] = true
				cases = append(cases, bcase{t, b, nil})
			}
		}
	}
	// T.fromBigEndianBytes(x.toBigEndianBytes()) = x (bytes produced by the real toBigEndianBytes)
	for i, r := range roundTrips {
		if e.thorough || i%3 == 0 || r.z.Sign() < 0 && i%2 == 0 {
			cases = append(cases, bcase{r.t, r.bs, r.z})
		}
	}
	exprs := make([]string, len(cases))
	for i, c := range cases {
		exprs[i] = "(" + c.t.Name + ".fromBigEndianBytes(" + cadenceBytes(c.bs) + ")?.toString() ?? \"nil\")"
	}
	rs := e.evalBoth("fromBigEndianBytes", exprs)
	for i, c := range cases {
		r := rs[i]
		e.sum.Count("fromBigEndianBytes " + c.t.Class)
		if len(c.bs) > 0 {
			e.nontrivial("fromBE|" + c.t.Name + "|" + string(c.bs))
		}
		tooLong := c.t.Size() != 0 && len(c.bs) > c.t.Size()
		replay := map[string]any{"op": "fromBigEndianBytes", "type": c.t.Name, "bytes": fmt.Sprint(c.bs), "observed": r.String(), "expression": exprs[i]}
		var obs string
		switch {
		case r.Cls != "":
			obs = "(Err " + r.Cls + ")"
			e.fail("fromBigEndianBytes-fails:"+c.t.Name, fmt.Sprintf("`%s` fails with %s", exprs[i], r.Cls), replay)
		case r.S == "nil":
			obs = "(Ok None)"
			if !tooLong {
				e.fail("fromBigEndianBytes-nil:"+c.t.Name, fmt.Sprintf("`%s` is nil although the input (%d bytes) is not longer than the type's size", exprs[i], len(c.bs)), replay)
			}
		default:
			z := rawOfString(r.S)
			obs = "(Ok (Some " + lib.Z(z) + "))"
			if tooLong {
				e.fail("fromBigEndianBytes-not-nil:"+c.t.Name, fmt.Sprintf("`%s` = %s although the input is longer than the type's size", exprs[i], r.S), replay)
			}
			if !c.t.InRange(z) {
				e.fail("fromBigEndianBytes-out-of-range:"+c.t.Name, fmt.Sprintf("`%s` = %s is not a value of the type", exprs[i], r.S), replay)
			}
			if c.want != nil && z.Cmp(c.want) != 0 {
				e.fail("fromBigEndianBytes-roundtrip:"+c.t.Name, fmt.Sprintf("`%s` = %s, required %s (the value whose toBigEndianBytes these are)", exprs[i], r.S, c.want), replay)
			}
		}
		if c.want != nil && (r.Cls != "" || r.S == "nil") {
			e.fail("fromBigEndianBytes-roundtrip:"+c.t.Name, fmt.Sprintf("`%s` = %s, required %s", exprs[i], r, c.want), replay)
		}
		e.cw.Add(fmt.Sprintf("CFromBE %s %s %s", c.t.CoqN, lib.ZList(c.bs), obs), replay)
	}
	// fromString through scripts (both engines) against the direct parser, on a sample
	var sx []string
	var sw []string
	for _, s := range []string{"+5", "-0", "-5", "5", "-128", "128", "92233720368.6", "1.5", "-0.5", "+1.0", " 1", "1_0", "", "1.", "٣", "1.123456789", "184467440737.1"} {
		for _, t := range allTypes {
			sx = append(sx, "("+t.Name+".fromString("+cadenceString(s)+")?.toString() ?? \"nil\")")
			d := realFromString(t, s)
			w := "nil"
			if d.Err != "" {
				w = "Err " + d.Err
			} else if !d.Nil {
				w = specToString(t, d.Z)
			}
			sw = append(sw, w)
		}
	}
	for i, r := range e.evalBoth("fromString", sx) {
		if r.String() != sw[i] {
			e.fail("script-vs-parser:fromString", fmt.Sprintf("script `%s` gives %s but the parser called directly gives %s", sx[i], r, sw[i]),
				map[string]any{"op": "script", "expression": sx[i], "observed": r.String(), "direct": sw[i]})
		}
	}
}

// ---------------------------------------------------------------------------------- addresses, hex, paths

func addressLeg(e *env) {
	// Address.fromString
	var strs []string
	hexd := "0123456789abcdefABCDEF"
	for l := 0; l <= 18; l++ {
		for k := 0; k < 3; k++ {
			b := make([]byte, l)
			for i := range b {
				b[i] = hexd[e.rng.Intn(len(hexd))]
			}
			if k == 0 {
				for i := range b {
					b[i] = '0'
				}
				if l > 0 {
					b[l-1] = '1'
				}
			}
			strs = append(strs, "0x"+string(b))
		}
	}
	strs = append(strs, "", "0", "x", "0x", "0X1", "1", "0x0x1", "0xg", "0x 1", " 0x1", "0x1 ", "0x-1", "0x+1", "0x_1", "0x1.0",
		"0xffffffffffffffff", "0x10000000000000000", "0x00ffffffffffffffff", "ffffffffffffffff", "0x0000000000000001", "0xＡ")
	n := 60
	if e.thorough {
		n = 1500
	}
	for i := 0; i < n; i++ {
		l := e.rng.Intn(19)
		b := make([]byte, l)
		for j := range b {
			if e.rng.Chance(1, 12) {
				b[j] = "gxX_ +-."[e.rng.Intn(8)]
			} else {
				b[j] = hexd[e.rng.Intn(len(hexd))]
			}
		}
		p := "0x"
		if e.rng.Chance(1, 8) {
			p = []string{"", "0X", "0", "x"}[e.rng.Intn(4)]
		}
		strs = append(strs, p+string(b))
	}
	exprs := make([]string, len(strs))
	for i, s := range strs {
		exprs[i] = "(Address.fromString(" + cadenceString(s) + ")?.toString() ?? \"nil\")"
	}
	for i, r := range e.evalBoth("Address.fromString", exprs) {
		e.sum.Count("Address.fromString")
		e.nontrivial("addrFromString|" + strs[i])
		obs := "None"
		if r.Cls != "" {
			e.fail("Address.fromString-fails", fmt.Sprintf("`%s` fails with %s (must return nil)", exprs[i], r.Cls),
				map[string]any{"op": "Address.fromString", "input": strs[i], "observed": r.String()})
			obs = "(Some (-1))"
		} else if r.S != "nil" {
			z, ok := new(big.Int).SetString(strings.TrimPrefix(r.S, "0x"), 16)
			if !ok {
				z = big.NewInt(-1)
			}
			obs = "(Some " + lib.Z(z) + ")"
		}
		e.cw.Add(fmt.Sprintf("CAddrFromStr %s %s", lib.ZList([]byte(strs[i])), obs),
			map[string]any{"op": "Address.fromString", "type": "Address", "input": strs[i], "observed": r.String()})
	}
	// addresses: toString / toBytes and the round trips
	var addrs []uint64
	for _, a := range []uint64{0, 1, 2, 0xff, 0x100, 0xabc, 1 << 32, 1<<63 - 1, 1 << 63, ^uint64(0), ^uint64(0) - 1, 0x0102030405060708} {
		addrs = append(addrs, a)
	}
	na := 20
	if e.thorough {
		na = 600
	}
	for i := 0; i < na; i++ {
		addrs = append(addrs, e.rng.U64()>>uint(e.rng.Intn(64)))
	}
	var ex []string
	for _, a := range addrs {
		lit := fmt.Sprintf("(0x%x as Address)", a)
		ex = append(ex, lit+".toString()", "String.encodeHex("+lit+".toBytes())",
			"(Address.fromString("+lit+".toString())?.toString() ?? \"nil\")",
			"Address.fromBytes("+lit+".toBytes()).toString()")
	}
	rs := e.evalBoth("Address", ex)
	for i, a := range addrs {
		want := fmt.Sprintf("0x%016x", a)
		z := new(big.Int).SetUint64(a)
		ts, tb, rt1, rt2 := rs[4*i], rs[4*i+1], rs[4*i+2], rs[4*i+3]
		e.sum.Count("Address toString/toBytes/roundtrip")
		e.nontrivial("addr|" + want)
		if ts.String() != want || tb.String() != want[2:] {
			e.fail("Address.toString/toBytes", fmt.Sprintf("address %s prints as %s and has bytes %s", want, ts, tb),
				map[string]any{"op": "Address.toString", "address": want, "toString": ts.String(), "toBytes": tb.String()})
		}
		if rt1.String() != want || rt2.String() != want {
			e.fail("Address-roundtrip", fmt.Sprintf("address %s: fromString(toString) = %s, fromBytes(toBytes) = %s", want, rt1, rt2),
				map[string]any{"op": "Address round trip", "address": want, "fromString(toString)": rt1.String(), "fromBytes(toBytes)": rt2.String()})
		}
		if ts.Cls == "" {
			e.cw.Add(fmt.Sprintf("CAddrToStr %s %s", lib.Z(z), lib.ZList([]byte(ts.S))),
				map[string]any{"op": "Address.toString", "type": "Address", "address": want, "observed": ts.S})
		}
		if tb.Cls == "" {
			bs, _ := hex.DecodeString(tb.S)
			e.cw.Add(fmt.Sprintf("CAddrToBytes %s %s", lib.Z(z), lib.ZList(bs)),
				map[string]any{"op": "Address.toBytes", "type": "Address", "address": want, "observed": tb.S})
		}
	}
	// Address.fromBytes for every length 0..10
	var bex []string
	var bbs [][]byte
	for l := 0; l <= 10; l++ {
		for k := 0; k < 3; k++ {
			b := make([]byte, l)
			for j := range b {
				switch k {
				case 0:
					b[j] = byte(j + 1)
				case 1:
					b[j] = 0xff
				default:
					b[j] = byte(e.rng.Intn(256))
				}
			}
			bbs = append(bbs, b)
			bex = append(bex, "Address.fromBytes("+cadenceBytes(b)+").toString()")
		}
	}
	for i, r := range e.evalBoth("Address.fromBytes", bex) {
		e.sum.Count("Address.fromBytes")
		obs := ""
		if r.Cls != "" {
			obs = "(Err " + r.Cls + ")"
			if len(bbs[i]) <= 8 {
				e.fail("Address.fromBytes-fails", fmt.Sprintf("`%s` fails with %s for %d bytes", bex[i], r.Cls, len(bbs[i])),
					map[string]any{"op": "Address.fromBytes", "bytes": fmt.Sprint(bbs[i]), "observed": r.String()})
			}
		} else {
			z, _ := new(big.Int).SetString(strings.TrimPrefix(r.S, "0x"), 16)
			obs = "(Ok " + lib.Z(z) + ")"
			if len(bbs[i]) > 8 || z.Cmp(new(big.Int).SetBytes(bbs[i])) != 0 {
				e.fail("Address.fromBytes-value", fmt.Sprintf("`%s` = %s", bex[i], r.S),
					map[string]any{"op": "Address.fromBytes", "bytes": fmt.Sprint(bbs[i]), "observed": r.String()})
			}
		}
		e.cw.Add(fmt.Sprintf("CAddrFromBytes %s %s", lib.ZList(bbs[i]), obs),
			map[string]any{"op": "Address.fromBytes", "type": "Address", "bytes": fmt.Sprint(bbs[i]), "observed": r.String()})
	}
	// hex strings
	var hx []string
	var hbs [][]byte
	nh := 40
	if e.thorough {
		nh = 800
	}
	for i := 0; i < nh; i++ {
		b := make([]byte, e.rng.Intn(12))
		for j := range b {
			b[j] = byte(e.rng.Intn(256))
		}
		if i < 6 {
			b = [][]byte{{}, {0}, {255}, {0, 0}, {0x0a, 0xff}, {0x10, 0x01, 0x80}}[i]
		}
		hbs = append(hbs, b)
		hx = append(hx, "String.encodeHex("+cadenceBytes(b)+")", "String.encodeHex(String.encodeHex("+cadenceBytes(b)+").decodeHex())")
	}
	rs = e.evalBoth("hex", hx)
	for i, b := range hbs {
		want := hex.EncodeToString(b)
		e.sum.Count("encodeHex/decodeHex round trip")
		e.nontrivial("hex|" + want)
		if rs[2*i].String() != want || rs[2*i+1].String() != want {
			e.fail("hex-roundtrip", fmt.Sprintf("bytes %v: encodeHex = %s, encodeHex(decodeHex(encodeHex)) = %s", b, rs[2*i], rs[2*i+1]),
				map[string]any{"op": "hex round trip", "bytes": fmt.Sprint(b), "encodeHex": rs[2*i].String(), "roundtrip": rs[2*i+1].String()})
		}
		if rs[2*i].Cls == "" {
			e.cw.Add(fmt.Sprintf("CHexEncode %s %s", lib.ZList(b), lib.ZList([]byte(rs[2*i].S))),
				map[string]any{"op": "encodeHex", "type": "String", "bytes": fmt.Sprint(b), "observed": rs[2*i].S})
		}
	}
	// decodeHex on arbitrary strings (error = None in the model)
	var dx, ds []string
	for _, s := range []string{"", "0", "00", "0aFf", "0AFF", "0g", "g0", "000", "0x00", " 00", "00 ", "ＡＡ", "+1", "0_"} {
		ds = append(ds, s)
	}
	for i := 0; i < nh; i++ {
		l := e.rng.Intn(10)
		b := make([]byte, l)
		for j := range b {
			if e.rng.Chance(1, 10) {
				b[j] = "gG xX_"[e.rng.Intn(6)]
			} else {
				b[j] = hexd[e.rng.Intn(len(hexd))]
			}
		}
		ds = append(ds, string(b))
	}
	for _, s := range ds {
		dx = append(dx, "String.encodeHex("+cadenceString(s)+".decodeHex())")
	}
	for i, r := range e.evalBoth("decodeHex", dx) {
		e.sum.Count("decodeHex")
		obs := "None"
		if r.Cls == "" {
			bs, _ := hex.DecodeString(r.S)
			obs = "(Some " + lib.ZList(bs) + ")"
		} else if r.Cls != lib.EUserOther {
			e.fail("decodeHex-fails", fmt.Sprintf("`%s` fails with %s (a user error is required for invalid input)", dx[i], r.Cls),
				map[string]any{"op": "decodeHex", "input": ds[i], "observed": r.String()})
		}
		e.cw.Add(fmt.Sprintf("CHexDecode %s %s", lib.ZList([]byte(ds[i])), obs),
			map[string]any{"op": "decodeHex", "type": "String", "input": ds[i], "observed": r.String()})
	}
	// paths: the identifier is recoverable from toString
	var px, pw []string
	for _, dom := range []string{"Public", "Storage", "Private"} {
		for _, id := range []string{"a", "foo", "a/b", "", "x y", "_", "0", "ünï", "public", "a\"b"} {
			px = append(px, "("+dom+"Path(identifier: "+cadenceString(id)+")?.toString() ?? \"nil\")")
			pw = append(pw, "/"+strings.ToLower(dom)+"/"+id)
		}
	}
	for i, r := range e.evalBoth("path", px) {
		e.sum.Count("path constructor/toString")
		if r.String() != pw[i] {
			e.fail("path-roundtrip", fmt.Sprintf("`%s` = %s, required %s", px[i], r, pw[i]),
				map[string]any{"op": "path", "expression": px[i], "observed": r.String(), "required": pw[i]})
		}
	}
}
