package main

import (
	"fmt"
	"math/big"
	"regexp"
	"strings"

	"cvh/lib"

	"github.com/onflow/cadence/fixedpoint"
	"github.com/onflow/cadence/interpreter"
)

// numType describes one Cadence number type. Values are carried as their mathematical integer
// (integers) or their raw scaled integer (fixed-point).
type numType struct {
	Name   string
	Class  string // "signed-int" | "unsigned-int" | "signed-fix" | "unsigned-fix"
	Signed bool
	Fixed  bool
	Bits   int // 0 = unbounded (Int, UInt)
	Scale  int // fractional digits (fixed-point)
	CoqI   string
	CoqF   string
	CoqN   string
	Make   func(*big.Int) interpreter.NumberValue
}

func pow2(n int) *big.Int  { return new(big.Int).Lsh(big.NewInt(1), uint(n)) }
func pow10(n int) *big.Int { return new(big.Int).Exp(big.NewInt(10), big.NewInt(int64(n)), nil) }

func (t numType) Min() *big.Int {
	if !t.Signed {
		return big.NewInt(0)
	}
	if t.Bits == 0 {
		return nil
	}
	return new(big.Int).Neg(pow2(t.Bits - 1))
}

func (t numType) Max() *big.Int {
	if t.Bits == 0 {
		return nil
	}
	if t.Signed {
		return new(big.Int).Sub(pow2(t.Bits-1), big.NewInt(1))
	}
	return new(big.Int).Sub(pow2(t.Bits), big.NewInt(1))
}

func (t numType) InRange(z *big.Int) bool {
	if m := t.Min(); m != nil && z.Cmp(m) < 0 {
		return false
	}
	if m := t.Max(); m != nil && z.Cmp(m) > 0 {
		return false
	}
	return true
}

// Size is the byte size fromBigEndianBytes enforces (0 = none).
func (t numType) Size() int { return t.Bits / 8 }

// the order of intTypes / fixTypes is the order of all_ikinds / all_fkinds in coq/theories/C17/Cases.v
var intTypes []numType
var fixTypes []numType
var allTypes []numType

func init() {
	byName := map[string]lib.IntType{}
	for _, t := range lib.IntTypes {
		byName[t.Name] = t
	}
	add := func(name string) {
		lt := byName[name]
		nt := numType{Name: name, Bits: lt.Bits, CoqI: lt.CoqKind()}
		switch lt.Kind {
		case "signed", "int":
			nt.Signed = true
			nt.Class = "signed-int"
		default:
			nt.Class = "unsigned-int"
		}
		nt.CoqN = "(NInt " + nt.CoqI + ")"
		mk := lt.Make
		nt.Make = func(z *big.Int) interpreter.NumberValue { return mk(z) }
		intTypes = append(intTypes, nt)
	}
	for _, n := range []string{"Int8", "Int16", "Int32", "Int64", "Int128", "Int256", "Int",
		"UInt8", "UInt16", "UInt32", "UInt64", "UInt128", "UInt256", "UInt",
		"Word8", "Word16", "Word32", "Word64", "Word128", "Word256"} {
		add(n)
	}
	fixTypes = []numType{
		{Name: "Fix64", Class: "signed-fix", Signed: true, Fixed: true, Bits: 64, Scale: 8, CoqF: "FFix64",
			Make: func(z *big.Int) interpreter.NumberValue { return interpreter.NewUnmeteredFix64Value(z.Int64()) }},
		{Name: "UFix64", Class: "unsigned-fix", Fixed: true, Bits: 64, Scale: 8, CoqF: "FUFix64",
			Make: func(z *big.Int) interpreter.NumberValue { return interpreter.NewUnmeteredUFix64Value(z.Uint64()) }},
		{Name: "Fix128", Class: "signed-fix", Signed: true, Fixed: true, Bits: 128, Scale: 24, CoqF: "FFix128",
			Make: func(z *big.Int) interpreter.NumberValue {
				return interpreter.NewUnmeteredFix128Value(fixedpoint.Fix128FromBigInt(z))
			}},
		{Name: "UFix128", Class: "unsigned-fix", Fixed: true, Bits: 128, Scale: 24, CoqF: "FUFix128",
			Make: func(z *big.Int) interpreter.NumberValue {
				return interpreter.NewUnmeteredUFix128Value(fixedpoint.UFix128FromBigInt(z))
			}},
	}
	for i := range fixTypes {
		fixTypes[i].CoqN = "(NFix " + fixTypes[i].CoqF + ")"
	}
	allTypes = append(append([]numType{}, intTypes...), fixTypes...)
}

// rawOfString reads back the value printed by the implementation ("-12", "-0.50000000").
func rawOfString(s string) *big.Int {
	z, ok := new(big.Int).SetString(strings.Replace(s, ".", "", 1), 10)
	if !ok {
		panic("cannot read back number " + s)
	}
	return z
}

// optZ is an optional integer: nil pointer = Cadence nil.
type optZ struct {
	Nil bool
	Z   *big.Int
	Err string // error class if the implementation failed instead of returning
}

func (o optZ) String() string {
	if o.Err != "" {
		return "Err " + o.Err
	}
	if o.Nil {
		return "nil"
	}
	return o.Z.String()
}

func (o optZ) Coq() string {
	if o.Err != "" {
		return "(Some 999999999999999999999999999999999999999999999999999999999999999999999999999999999999999999999)" // never equal: failure
	}
	if o.Nil {
		return "None"
	}
	return "(Some " + lib.Z(o.Z) + ")"
}

func (o optZ) Eq(p optZ) bool {
	if o.Err != "" || p.Err != "" {
		return o.Err == p.Err
	}
	if o.Nil || p.Nil {
		return o.Nil == p.Nil
	}
	return o.Z.Cmp(p.Z) == 0
}

// realFromString runs the real parser of the type (interpreter.StringValueParsers).
func realFromString(t numType, s string) (res optZ) {
	p, ok := interpreter.StringValueParsers[t.Name]
	if !ok {
		return optZ{Err: "NoParser"}
	}
	cls, _ := lib.Catch(func() {
		v := p.Parser(nil, s)
		switch v := v.(type) {
		case interpreter.NilValue:
			res = optZ{Nil: true}
		case *interpreter.SomeValue:
			res = optZ{Z: rawOfString(v.InnerValue().String())}
		default:
			res = optZ{Err: fmt.Sprintf("unexpected %T", v)}
		}
	})
	if cls != "" {
		res = optZ{Err: cls}
	}
	return
}

var (
	reSignedInt   = regexp.MustCompile(`^[+-]?[0-9]+$`)
	reUnsignedInt = regexp.MustCompile(`^[0-9]+$`)
	reFix         = regexp.MustCompile(`^([+-]?)([0-9]+)\.([0-9]+)$`)
)

// specFromString is the independent oracle: what the property demands of T.fromString.
// A grammar that depends only on (signedness, integer/fixed-point) + the type's representability check.
func specFromString(t numType, s string) optZ {
	if !t.Fixed {
		re := reUnsignedInt
		if t.Signed {
			re = reSignedInt
		}
		if !re.MatchString(s) {
			return optZ{Nil: true}
		}
		z, _ := new(big.Int).SetString(s, 10)
		if !t.InRange(z) {
			return optZ{Nil: true}
		}
		return optZ{Z: z}
	}
	m := reFix.FindStringSubmatch(s)
	if m == nil {
		return optZ{Nil: true}
	}
	if !t.Signed && m[1] == "-" {
		return optZ{Nil: true}
	}
	if len(m[3]) > t.Scale {
		return optZ{Nil: true}
	}
	ip, _ := new(big.Int).SetString(m[2], 10)
	fp, _ := new(big.Int).SetString(m[3], 10)
	v := new(big.Int).Mul(ip, pow10(t.Scale))
	v.Add(v, new(big.Int).Mul(fp, pow10(t.Scale-len(m[3]))))
	if m[1] == "-" {
		v.Neg(v)
	}
	if !t.InRange(v) {
		return optZ{Nil: true}
	}
	return optZ{Z: v}
}

// specToString: decimal; fixed-point with all scale digits.
func specToString(t numType, z *big.Int) string {
	if !t.Fixed {
		return z.String()
	}
	a := new(big.Int).Abs(z)
	ip, fp := new(big.Int).QuoRem(a, pow10(t.Scale), new(big.Int))
	fs := fp.String()
	fs = strings.Repeat("0", t.Scale-len(fs)) + fs
	sign := ""
	if z.Sign() < 0 {
		sign = "-"
	}
	return sign + ip.String() + "." + fs
}

// findingKey classifies a disagreement between the implementation and the oracle on fromString.
// Known defect classes of the unchanged tree get narrow keys; everything else is keyed by type.
func findingKey(t numType, s string, got, want optZ) string {
	if got.Err == "" && !got.Nil && want.Nil {
		if t.Class == "unsigned-int" && reSignedInt.MatchString(s) {
			z, _ := new(big.Int).SetString(s, 10)
			if s[0] == '+' && t.InRange(z) && (t.Bits == 0 || t.Bits > 64) {
				return "fromString-accept-differs:unsigned-int:plus-sign"
			}
			if s[0] == '-' && z.Sign() == 0 && (t.Bits == 0 || t.Bits > 64) {
				return "fromString-accept-differs:unsigned-int:minus-zero"
			}
		}
		if t.Fixed {
			if m := reFix.FindStringSubmatch(s); m != nil && len(m[3]) < t.Scale && !(m[1] == "-" && !t.Signed) {
				ip, _ := new(big.Int).SetString(m[2], 10)
				maxInt := new(big.Int).Quo(t.Max(), pow10(t.Scale))
				minInt := new(big.Int).Quo(t.Min(), pow10(t.Scale)) // truncated
				if (m[1] != "-" && ip.Cmp(maxInt) == 0) || (m[1] == "-" && new(big.Int).Neg(ip).Cmp(minInt) == 0 && t.Signed) {
					return "fromString-range-wrap:" + t.Name + ":short-fraction-at-extreme-integer-part"
				}
			}
		}
	}
	return "fromString:" + t.Name
}
