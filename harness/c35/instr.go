package main

// Instruction codec: random instructions of every opcode built by reflection on the real instruction
// types of package opcode, encoded with the real Encode, decoded back with the real DecodeInstruction.

import (
	"fmt"
	"reflect"
	"strings"

	"cvh/lib"

	"github.com/onflow/cadence/bbq/opcode"
	"github.com/onflow/cadence/common"
)

var (
	tUint16        = reflect.TypeOf(uint16(0))
	tBool          = reflect.TypeOf(false)
	tUint16Slice   = reflect.TypeOf([]uint16(nil))
	tUpvalueSlice  = reflect.TypeOf([]opcode.Upvalue(nil))
	tCompositeKind = reflect.TypeOf(common.CompositeKind(0))
	tPathDomain    = reflect.TypeOf(common.PathDomain(0))
)

// validOpcodes: for every byte, the zero instruction DecodeInstruction produces (nil = not an opcode).
func validOpcodes() map[byte]opcode.Instruction {
	out := map[byte]opcode.Instruction{}
	for b := 0; b < 256; b++ {
		code := make([]byte, 64)
		code[0] = byte(b)
		var ins opcode.Instruction
		cls, _ := lib.Catch(func() {
			var ip uint16
			ins = opcode.DecodeInstruction(&ip, code)
		})
		if cls == "" && ins != nil {
			out[byte(b)] = ins
		}
	}
	return out
}

func randU16(r *lib.Rng) uint16 {
	switch r.Intn(6) {
	case 0:
		return lib.Pick(r, []uint16{0, 1, 2, 127, 128, 255, 256, 257, 0x7fff, 0x8000, 0xff00, 0x00ff, 0xfffe, 0xffff})
	case 1:
		return uint16(r.Intn(256))
	case 2:
		return uint16(r.Intn(256)) << 8
	default:
		return uint16(r.U64())
	}
}

func randLen(r *lib.Rng) int {
	switch r.Intn(8) {
	case 0:
		return 0
	case 1:
		return 1
	case 2:
		return 255 + r.Intn(3)
	default:
		return r.Intn(12)
	}
}

// randomInstruction fills the fields of a fresh value of the same type as zero.
func randomInstruction(r *lib.Rng, zero opcode.Instruction) opcode.Instruction {
	t := reflect.TypeOf(zero)
	v := reflect.New(t).Elem()
	for i := 0; i < t.NumField(); i++ {
		f := v.Field(i)
		switch f.Type() {
		case tUint16:
			f.SetUint(uint64(randU16(r)))
		case tBool:
			f.SetBool(r.Bool())
		case tUint16Slice:
			n := randLen(r)
			s := make([]uint16, n)
			for j := range s {
				s[j] = randU16(r)
			}
			f.Set(reflect.ValueOf(s))
		case tUpvalueSlice:
			n := randLen(r)
			s := make([]opcode.Upvalue, n)
			for j := range s {
				s[j] = opcode.Upvalue{TargetIndex: randU16(r), IsLocal: r.Bool()}
			}
			f.Set(reflect.ValueOf(s))
		case tCompositeKind:
			f.SetUint(uint64(randU16(r)))
		case tPathDomain:
			f.SetUint(uint64(r.Intn(256)))
		default:
			panic(fmt.Sprintf("harness: unsupported operand field type %s in %s", f.Type(), t))
		}
	}
	return v.Interface().(opcode.Instruction)
}

// canon renders an instruction's fields canonically (nil and empty slices are the same operand value):
// as a Coq `list oval` and as a comparable string.
func canon(ins opcode.Instruction) (coq string, key string) {
	v := reflect.ValueOf(ins)
	t := v.Type()
	var parts []string
	for i := 0; i < t.NumField(); i++ {
		f := v.Field(i)
		switch f.Type() {
		case tUint16, tCompositeKind, tPathDomain:
			parts = append(parts, fmt.Sprintf("VNum %d", f.Uint()))
		case tBool:
			parts = append(parts, fmt.Sprintf("VBool %v", f.Bool()))
		case tUint16Slice:
			var xs []string
			for j := 0; j < f.Len(); j++ {
				xs = append(xs, fmt.Sprint(f.Index(j).Uint()))
			}
			parts = append(parts, "VU16s ["+strings.Join(xs, ";")+"]")
		case tUpvalueSlice:
			var xs []string
			for j := 0; j < f.Len(); j++ {
				u := f.Index(j).Interface().(opcode.Upvalue)
				xs = append(xs, fmt.Sprintf("(%d,%v)", u.TargetIndex, u.IsLocal))
			}
			parts = append(parts, "VUps ["+strings.Join(xs, ";")+"]")
		default:
			panic(fmt.Sprintf("harness: unsupported operand field type %s in %s", f.Type(), t))
		}
	}
	coq = "[" + strings.Join(parts, "; ") + "]"
	return coq, fmt.Sprintf("%d %s", byte(ins.Opcode()), coq)
}

func encodeReal(ins opcode.Instruction) []byte {
	var code []byte
	ins.Encode(&code)
	return code
}

// decodeReal runs DecodeInstruction at ip; class "" = ok.
func decodeReal(code []byte, ip uint16) (ins opcode.Instruction, newIP uint16, cls string) {
	cls, _ = lib.Catch(func() {
		p := ip
		ins = opcode.DecodeInstruction(&p, code)
		newIP = p
	})
	return
}
