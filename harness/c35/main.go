// Command c35: correspondence + direct-check harness for C35 (compilation is deterministic and bytecode
// encodings round-trip).
//
//   - LEB128 (bbq/leb128): values at every 7-bit group boundary and random values of all four types; the real
//     Append/Read against a math/big oracle and against the Coq model; malformed inputs against the Coq model.
//   - instruction codec (bbq/opcode): random instructions of every opcode built by reflection on the real types:
//     real Encode bytes = Coq model bytes, real DecodeInstruction(real Encode(i)) = i at the right position;
//     DecodeInstruction on arbitrary bytes (incl. around the 16-bit ip limit) against the Coq model; all
//     instructions of compiled programs.
//   - compile determinism: generated programs compiled repeatedly in this process and in fresh processes.
package main

import (
	"bytes"
	"encoding/json"
	"flag"
	"fmt"
	"math/big"
	"os"
	"os/exec"
	"reflect"
	"sort"
	"strings"

	"cvh/lib"

	"github.com/onflow/cadence/bbq/leb128"
	"github.com/onflow/cadence/bbq/opcode"
)

var (
	prop = flag.String("prop", "C35", "property id")
	seed = flag.Uint64("seed", 1, "seed")
	tier = flag.String("tier", "quick", "quick|thorough")
	dir  = flag.String("dir", ".", "output directory")
	mode = flag.String("mode", "full", "full | dump (print one digest per generated program and exit)")
	nprg = flag.Int("programs", 0, "number of generated programs (dump mode)")
)

type harness struct {
	nsample  map[string]int
	sum      *lib.Summary
	perKey   map[string]int
	distinct map[string]bool
	rng      *lib.Rng
}

func (h *harness) fail(key, what string, replay map[string]any) {
	h.perKey[key]++
	h.sum.Count("failure " + key)
	if h.perKey[key] <= 3 {
		h.sum.Fail(key, what, replay)
	}
}

// sample keeps a few examples of each kind in the evidence.
func (h *harness) sample(kind string, x any) {
	if h.nsample == nil {
		h.nsample = map[string]int{}
	}
	if h.nsample[kind] < 2 {
		h.nsample[kind]++
		h.sum.Sample(x)
	}
}

func (h *harness) nontrivial(k string) {
	if !h.distinct[k] {
		h.distinct[k] = true
		h.sum.DistinctNontrivial++
	}
}

func newCW(prefix, elem, check string, per int) *lib.CaseWriter {
	return &lib.CaseWriter{Dir: *dir, Prefix: "cases_C35_" + prefix, Header: "From CV Require Import C35.Cases.",
		ElemType: elem, CheckFn: check, PerFile: per}
}

func coqResPair(cls string, v *big.Int, count int) string {
	if cls != "" {
		return "(Err " + cls + ")"
	}
	return fmt.Sprintf("(Ok (%s, %d))", lib.Z(v), count)
}

func main() {
	flag.Parse()
	if *mode == "dump" {
		dumpMode()
		return
	}
	if *prop != "C35" {
		fmt.Fprintln(os.Stderr, "unknown prop", *prop)
		os.Exit(2)
	}
	h := &harness{sum: &lib.Summary{Distribution: map[string]int{}}, perKey: map[string]int{}, distinct: map[string]bool{},
		rng: lib.NewRng(*seed)}
	thorough := *tier == "thorough"
	h.sum.Rule = "LEB128: for each of uint32/uint64/int32/int64 every value 2^(7g), 2^(7g-1), their negatives, the type's extremes and 0, each +-2 " +
		"(all encoded-length boundaries), plus random values of every bit length: real Append bytes = math/big oracle bytes, real Read returns the value and the " +
		"byte count, both also evaluated by the Coq model; truncated / over-long / random byte strings read by the real functions vs the Coq model; " +
		"AppendUint32FixedLength for all lengths 0..6. Instructions: for every opcode of the real package (found by probing DecodeInstruction on all 256 bytes) " +
		"random operand values built by reflection (uint16 boundaries 0,1,255,256,0x7fff,0x8000,0xffff, arrays of length 0,1,255..257): real Encode bytes = Coq model bytes, " +
		"real DecodeInstruction(prefix ++ bytes ++ suffix) = instruction and ip, DecodeInstructions of concatenations, DecodeInstruction on arbitrary bytes and " +
		"around position 65535 vs the Coq model, every instruction of every compiled program re-encoded and decoded, bytecode of the bytecode compiler decoded and " +
		"compared with the instruction compiler's output. Compilation: fixed + generated programs (interfaces with default functions inherited by several " +
		"composites, enums, resources, attachments, closures, constants of several kinds, contract imports) parsed+checked+compiled repeatedly in-process and in " +
		"fresh processes, without and with the peephole optimiser, full dumps compared. non-trivial = LEB value needing >= 2 bytes or negative; instruction with at least one operand; program with an " +
		"inherited default function; distinct = distinct value / (opcode, operands) / program text"

	h.lebStage(thorough)
	h.instrStage(thorough)
	h.compileStage(thorough)

	h.sum.Extra = map[string]any{"failures_per_key": h.perKey}
	h.sum.Write(*dir)
}

// ---------------------------------------------------------------- LEB128

func (h *harness) lebStage(thorough bool) {
	cw := newCW("leb", "Z * Z * list Z * list Z * list Z * res (Z * Z)", "check_leb", 700)
	cwr := newCW("lebread", "Z * list Z * res (Z * Z)", "check_leb_read", 700)
	cwf := newCW("lebfixed", "Z * Z * res (list Z)", "check_leb_fixed", 700)
	nrand, coqRand := 2000, 150
	if thorough {
		nrand, coqRand = 200000, 3000
	}
	r := h.rng
	for _, k := range lebKinds {
		one := func(v *big.Int, toCoq bool) {
			pre := randSmallBytes(r, r.Intn(3))
			rest := randSmallBytes(r, r.Intn(3))
			out := realAppend(k, pre, v)
			h.sum.Evaluations++
			h.sum.Count("leb " + k.name)
			key := fmt.Sprintf("%s %s", k.name, v)
			if !bytes.HasPrefix(out, pre) {
				h.fail("leb-append-clobbers-prefix:"+k.name, fmt.Sprintf("leb128.Append%s(%x, %s) = %x does not extend its input", k.name, pre, v, out),
					map[string]any{"function": "Append" + k.name, "value": v.String(), "data_hex": fmt.Sprintf("%x", pre), "observed_hex": fmt.Sprintf("%x", out)})
				return
			}
			enc := out[len(pre):]
			want := oracleEncode(v, k.signed)
			if !bytes.Equal(enc, want) {
				h.fail("leb-append:"+k.name, fmt.Sprintf("leb128.Append%s(%s) = %x, LEB128 encoding is %x", k.name, v, enc, want),
					map[string]any{"function": "Append" + k.name, "value": v.String(), "observed_hex": fmt.Sprintf("%x", enc), "required_hex": fmt.Sprintf("%x", want)})
			}
			if len(enc) > k.maxLen {
				h.fail("leb-length:"+k.name, fmt.Sprintf("leb128.Append%s(%s) produced %d bytes", k.name, v, len(enc)),
					map[string]any{"function": "Append" + k.name, "value": v.String(), "observed_hex": fmt.Sprintf("%x", enc)})
			}
			rv, cnt, cls := realRead(k, append(append([]byte{}, enc...), rest...))
			if cls != "" || rv.Cmp(v) != 0 || cnt != len(enc) {
				h.fail("leb-roundtrip:"+k.name, fmt.Sprintf("leb128.Read%s(Append%s(%s) ++ %x) = (%v, %d, class %q), required (%s, %d)", k.name, k.name, v, rest, rv, cnt, cls, v, len(enc)),
					map[string]any{"function": "Read" + k.name, "value": v.String(), "encoded_hex": fmt.Sprintf("%x", enc), "rest_hex": fmt.Sprintf("%x", rest),
						"observed": fmt.Sprintf("(%v, %d, %q)", rv, cnt, cls), "required": fmt.Sprintf("(%s, %d)", v, len(enc))})
			}
			if len(enc) >= 2 || v.Sign() < 0 {
				h.nontrivial("leb " + key)
				if len(enc) >= 3 {
					h.sample("leb", map[string]string{"kind": k.name, "value": v.String(), "encoded_hex": fmt.Sprintf("%x", enc)})
				}
			}
			if toCoq {
				cw.Add(fmt.Sprintf("(%d, %s, %s, %s, %s, %s)", k.id, lib.Z(v), lib.ZList(pre), lib.ZList(enc), lib.ZList(rest), coqResPair(cls, rv, cnt)),
					map[string]any{"function": "leb128 Append/Read " + k.name, "value": v.String(), "observed_append_hex": fmt.Sprintf("%x", enc),
						"observed_read": fmt.Sprintf("(%v, %d, %q)", rv, cnt, cls)})
			}
		}
		for _, v := range lebLattice(k) {
			one(v, true)
		}
		for i := 0; i < nrand; i++ {
			one(lebRandom(r, k), i < coqRand)
		}
		// malformed / arbitrary inputs to Read: model correspondence only
		nmal := 250
		if thorough {
			nmal = 4000
		}
		for i := 0; i < nmal; i++ {
			var data []byte
			switch r.Intn(4) {
			case 0: // truncated encoding
				e := oracleEncode(lebRandom(r, k), k.signed)
				data = e[:r.Intn(len(e))]
			case 1: // all continuation bits, longer than the maximum
				n := k.maxLen - 1 + r.Intn(4)
				data = make([]byte, n)
				for j := range data {
					data[j] = 0x80 | byte(r.Intn(128))
				}
				if r.Bool() {
					data = append(data, byte(r.Intn(128)))
				}
			case 2: // maximal-length encodings with arbitrary high bits in the last byte
				data = make([]byte, k.maxLen)
				for j := range data {
					data[j] = 0x80 | byte(r.Intn(128))
				}
				data[k.maxLen-1] = byte(r.Intn(128))
			default:
				data = randSmallBytes(r, r.Intn(12))
			}
			rv, cnt, cls := realRead(k, data)
			h.sum.Evaluations++
			h.sum.Count("leb read arbitrary " + k.name + " " + clsName(cls))
			if cls == lib.ECrash {
				h.fail("leb-read-crash:"+k.name, fmt.Sprintf("leb128.Read%s(%x) panics", k.name, data),
					map[string]any{"function": "Read" + k.name, "data_hex": fmt.Sprintf("%x", data)})
			}
			cwr.Add(fmt.Sprintf("(%d, %s, %s)", k.id, lib.ZList(data), coqResPair(cls, rv, cnt)),
				map[string]any{"function": "leb128.Read" + k.name, "data_hex": fmt.Sprintf("%x", data), "observed": fmt.Sprintf("(%v, %d, %q)", rv, cnt, cls)})
		}
	}
	// fixed-length variant
	for length := 0; length <= 6; length++ {
		vals := []uint32{0, 1, 127, 128, 16383, 16384, 1<<21 - 1, 1 << 21, 1<<28 - 1, 1 << 28, 1<<32 - 1}
		for i := 0; i < 10; i++ {
			vals = append(vals, uint32(r.U64()>>uint(r.Intn(32))))
		}
		for _, v := range vals {
			out, err := leb128.AppendUint32FixedLength(nil, v, length)
			h.sum.Evaluations++
			obs := "(Err UserOther)"
			if err == nil {
				obs = "(Ok " + lib.ZList(out) + ")"
				if length >= 1 && length <= 5 {
					rv, cnt, cls := realRead(lebKinds[0], append(append([]byte{}, out...), 0x55))
					if cls != "" || rv.Uint64() != uint64(v) || cnt != length {
						h.fail("leb-fixed-roundtrip", fmt.Sprintf("ReadUint32(AppendUint32FixedLength(%d, %d)) = (%v, %d, %q)", v, length, rv, cnt, cls),
							map[string]any{"function": "AppendUint32FixedLength", "value": v, "length": length, "encoded_hex": fmt.Sprintf("%x", out)})
					}
				}
			}
			cwf.Add(fmt.Sprintf("(%d, %d, %s)", v, length, obs), map[string]any{"function": "leb128.AppendUint32FixedLength", "value": v, "length": length, "observed": obs})
		}
	}
	for _, c := range []*lib.CaseWriter{cw, cwr, cwf} {
		c.Close()
		h.sum.CaseFiles = append(h.sum.CaseFiles, c.Files...)
	}
}

func clsName(c string) string {
	if c == "" {
		return "ok"
	}
	return c
}

func randSmallBytes(r *lib.Rng, n int) []byte {
	out := make([]byte, n)
	for i := range out {
		if r.Bool() {
			out[i] = lib.Pick(r, []byte{0, 1, 0x3f, 0x40, 0x7f, 0x80, 0x81, 0xbf, 0xc0, 0xff})
		} else {
			out[i] = byte(r.Intn(256))
		}
	}
	return out
}

// ---------------------------------------------------------------- instructions

func sameInstruction(a, b opcode.Instruction) bool {
	if a == nil || b == nil {
		return false
	}
	_, ka := canon(a)
	_, kb := canon(b)
	return reflect.TypeOf(a) == reflect.TypeOf(b) && ka == kb
}

func (h *harness) instrStage(thorough bool) {
	cw := newCW("instr", "Z * list oval * Z * list Z", "check_instr", 700)
	cwd := newCW("decode", "Z * list Z * Z * res (Z * list oval * Z)", "check_decode", 500)
	r := h.rng
	ops := validOpcodes()
	var bytesSorted []int
	for b := range ops {
		bytesSorted = append(bytesSorted, int(b))
	}
	sort.Ints(bytesSorted)
	h.sum.Distribution["opcodes found by probing DecodeInstruction"] = len(ops)
	perOp, coqPerOp := 40, 12
	if thorough {
		perOp, coqPerOp = 2000, 60
	}
	var pool []opcode.Instruction
	for _, bi := range bytesSorted {
		zero := ops[byte(bi)]
		nfields := reflect.TypeOf(zero).NumField()
		n := perOp
		if nfields == 0 {
			n = 2
		}
		for i := 0; i < n; i++ {
			ins := randomInstruction(r, zero)
			pool = append(pool, ins)
			h.checkInstruction(ins, r.Intn(6), i < coqPerOp, cw, "random")
		}
	}
	// sequences: DecodeInstructions(concat) = the sequence
	nseq := 60
	if thorough {
		nseq = 2000
	}
	for i := 0; i < nseq; i++ {
		var seq []opcode.Instruction
		var code []byte
		for j := 0; j < 1+r.Intn(8); j++ {
			ins := lib.Pick(r, pool)
			seq = append(seq, ins)
			ins.Encode(&code)
		}
		var got []opcode.Instruction
		cls, _ := lib.Catch(func() { got = opcode.DecodeInstructions(code) })
		h.sum.Evaluations++
		ok := cls == "" && len(got) == len(seq)
		for j := 0; ok && j < len(seq); j++ {
			ok = sameInstruction(got[j], seq[j])
		}
		if !ok {
			h.fail("instr-sequence", fmt.Sprintf("DecodeInstructions(%x) = %v (class %q), encoded from %v", code, got, cls, seq),
				map[string]any{"function": "opcode.DecodeInstructions", "code_hex": fmt.Sprintf("%x", code), "encoded_from": fmt.Sprint(seq), "observed": fmt.Sprint(got), "class": cls})
		}
	}
	// DecodeInstruction on arbitrary bytes, and around the 16-bit limit of ip: model correspondence
	narb := 500
	if thorough {
		narb = 8000
	}
	for i := 0; i < narb; i++ {
		var pad int
		var tail []byte
		var ip int
		switch r.Intn(5) {
		case 0, 1: // valid opcode followed by random bytes, possibly cut short
			tail = append([]byte{byte(lib.Pick(r, bytesSorted))}, randSmallBytes(r, r.Intn(10))...)
		case 2: // random bytes
			tail = randSmallBytes(r, 1+r.Intn(10))
		case 3: // an encoded instruction straddling or touching position 65535 / 65536
			ins := lib.Pick(r, pool)
			enc := encodeReal(ins)
			if len(enc) > 200 {
				enc = enc[:200]
			}
			ip = 65536 - r.Intn(len(enc)+2)
			if ip > 65535 {
				ip = 65535
			}
			pad = ip
			tail = append(enc, randSmallBytes(r, r.Intn(4))...)
		default: // arrays with a huge count
			tail = append([]byte{byte(lib.Pick(r, bytesSorted))}, 0xff, 0xff, byte(r.Intn(256)), byte(r.Intn(256)))
		}
		code := append(make([]byte, pad), tail...)
		ins, nip, cls := decodeReal(code, uint16(ip))
		h.sum.Evaluations++
		h.sum.Count("decode arbitrary " + clsName(cls))
		obs := "(Err " + cls + ")"
		if cls == "" {
			coq, _ := canon(ins)
			obs = fmt.Sprintf("(Ok (%d, %s, %d))", byte(ins.Opcode()), coq, nip)
		}
		cwd.Add(fmt.Sprintf("(%d, %s, %d, %s)", pad, lib.ZList(tail), ip, obs),
			map[string]any{"function": "opcode.DecodeInstruction", "zero_padding": pad, "tail_hex": fmt.Sprintf("%x", tail), "ip": ip, "observed": obs})
	}
	for _, c := range []*lib.CaseWriter{cw, cwd} {
		c.Close()
		h.sum.CaseFiles = append(h.sum.CaseFiles, c.Files...)
	}
}

// checkInstruction: Encode, then DecodeInstruction inside prefix ++ bytes ++ suffix.
func (h *harness) checkInstruction(ins opcode.Instruction, plen int, toCoq bool, cw *lib.CaseWriter, origin string) {
	enc := encodeReal(ins)
	coq, key := canon(ins)
	h.sum.Evaluations++
	h.sum.Count("instruction " + origin)
	if reflect.TypeOf(ins).NumField() > 0 {
		h.nontrivial("instr " + key)
	}
	desc := map[string]any{"function": "opcode Encode/DecodeInstruction", "instruction": fmt.Sprintf("%T%+v", ins, ins), "opcode": byte(ins.Opcode()),
		"prefix_len": plen, "encoded_hex": fmt.Sprintf("%x", enc)}
	if len(enc) == 0 || enc[0] != byte(ins.Opcode()) {
		h.fail("instr-opcode-byte", fmt.Sprintf("%T.Encode does not start with its opcode byte: %x", ins, enc), desc)
		return
	}
	code := append(append(make([]byte, plen), enc...), 0xff)
	got, nip, cls := decodeReal(code, uint16(plen))
	if cls != "" || !sameInstruction(got, ins) || int(nip) != plen+len(enc) {
		d := map[string]any{}
		for k, v := range desc {
			d[k] = v
		}
		d["observed"] = fmt.Sprintf("%T%+v ip=%d class=%q", got, got, nip, cls)
		d["required"] = fmt.Sprintf("%T%+v ip=%d", ins, ins, plen+len(enc))
		h.fail(fmt.Sprintf("instr-roundtrip:%s", strings.TrimPrefix(fmt.Sprintf("%T", ins), "opcode.Instruction")),
			fmt.Sprintf("DecodeInstruction(Encode(%T%+v)) = %T%+v, ip %d (class %q); required the same instruction and ip %d", ins, ins, got, got, nip, cls, plen+len(enc)), d)
	}
	if toCoq {
		cw.Add(fmt.Sprintf("(%d, %s, %d, %s)", byte(ins.Opcode()), coq, plen, lib.ZList(enc)), desc)
	}
	if reflect.TypeOf(ins).NumField() > 1 {
		h.sample("instruction "+origin, map[string]string{"instruction": fmt.Sprintf("%T%+v", ins, ins), "encoded_hex": fmt.Sprintf("%x", enc)})
	}
}

// ---------------------------------------------------------------- compilation

func (h *harness) compileStage(thorough bool) {
	nprog, reps, procs := 12, 12, 2
	if thorough {
		nprog, reps, procs = 150, 40, 4
	}
	specs := programsFor(*seed, nprog)
	cw := newCW("cinstr", "Z * list oval * Z * list Z", "check_instr", 700)
	digests := make([]string, len(specs))
	seenInstr := map[string]bool{}
	for i, spec := range specs {
		first, err := compileOnce(spec)
		if err != nil {
			h.fail("harness:program-does-not-compile", fmt.Sprintf("generated program %s cannot be compiled: %v", spec.Name, err),
				map[string]any{"program": spec.Name, "code": spec.Code, "contract": spec.Contract, "error": err.Error()})
			continue
		}
		digests[i] = digest(first.dump)
		h.sum.Count("programs compiled")
		if first.bytecode != nil {
			h.sum.Count("programs also compiled by the bytecode compiler")
		}
		if strings.Contains(spec.Code, "interface") {
			h.nontrivial("program " + digest(spec.Code))
			if strings.HasPrefix(spec.Name, "gen") {
				h.sample("program", map[string]any{"program": spec.Name, "functions": first.instr.GetFunctionNames(), "digest": digests[i]})
			}
		}
		for rep := 1; rep < reps; rep++ {
			next, err := compileOnce(spec)
			h.sum.Evaluations++
			if err != nil || next.dump != first.dump {
				diff := ""
				if err == nil {
					diff = firstDiff(first.dump, next.dump)
				}
				h.fail("compile-nondeterministic:in-process", fmt.Sprintf("program %s: compilation %d differs from the first one: %v %s", spec.Name, rep+1, err, diff),
					map[string]any{"program": spec.Name, "code": spec.Code, "contract": spec.Contract, "repetition": rep + 1, "difference": diff})
				break
			}
		}
		// instructions of the compiled program: encode/decode each; bytecode compiler output decodes to the same list
		if first.instrOpt != nil {
			for _, f := range first.instrOpt.Functions {
				for _, ins := range f.Code {
					_, key := canon(ins)
					toCoq := !seenInstr[key] && len(seenInstr) < 1500
					seenInstr[key] = true
					h.checkInstruction(ins, 0, toCoq, cw, "compiled")
				}
			}
		}
		for fi, f := range first.instr.Functions {
			for _, ins := range f.Code {
				_, key := canon(ins)
				toCoq := !seenInstr[key] && len(seenInstr) < 1500
				seenInstr[key] = true
				h.checkInstruction(ins, 0, toCoq, cw, "compiled")
			}
			if first.bytecode != nil && fi < len(first.bytecode.Functions) {
				code := first.bytecode.Functions[fi].Code
				var dec []opcode.Instruction
				cls, _ := lib.Catch(func() { dec = opcode.DecodeInstructions(code) })
				ok := cls == "" && len(dec) == len(f.Code)
				for j := 0; ok && j < len(dec); j++ {
					ok = sameInstruction(dec[j], f.Code[j])
				}
				h.sum.Evaluations++
				if !ok {
					h.fail("compile-bytecode-vs-instructions", fmt.Sprintf("program %s function %q: DecodeInstructions(bytecode) differs from the instruction compiler's code (class %q)", spec.Name, f.QualifiedName, cls),
						map[string]any{"program": spec.Name, "code": spec.Code, "function": f.QualifiedName, "bytecode_hex": fmt.Sprintf("%x", code),
							"decoded": fmt.Sprint(dec), "instructions": fmt.Sprint(f.Code)})
				}
			}
		}
	}
	cw.Close()
	h.sum.CaseFiles = append(h.sum.CaseFiles, cw.Files...)
	// fresh processes
	exe, err := os.Executable()
	if err != nil {
		h.fail("harness:no-executable", "cannot locate the harness binary for fresh-process compilation: "+err.Error(), map[string]any{})
		return
	}
	for p := 0; p < procs; p++ {
		cmd := exec.Command(exe, "-mode", "dump", "-seed", fmt.Sprint(*seed), "-programs", fmt.Sprint(nprog))
		// vary the environment of the child a little: Go map iteration is randomised per process anyway
		cmd.Env = append(os.Environ(), fmt.Sprintf("C35_CHILD=%d", p))
		out, err := cmd.Output()
		h.sum.Count("fresh processes")
		if err != nil {
			h.fail("harness:child-failed", fmt.Sprintf("fresh process %d failed: %v", p, err), map[string]any{"output": string(out)})
			continue
		}
		var child []string
		if err := json.Unmarshal(out, &child); err != nil || len(child) != len(specs) {
			h.fail("harness:child-output", fmt.Sprintf("fresh process %d: unreadable output", p), map[string]any{"output": string(out)})
			continue
		}
		for i := range specs {
			h.sum.Evaluations++
			if digests[i] != "" && child[i] != digests[i] {
				h.fail("compile-nondeterministic:fresh-process", fmt.Sprintf("program %s: a fresh process compiles it to a different program (digest %s vs %s)", specs[i].Name, child[i], digests[i]),
					map[string]any{"program": specs[i].Name, "code": specs[i].Code, "contract": specs[i].Contract, "digest_here": digests[i], "digest_fresh_process": child[i]})
			}
		}
	}
}

func dumpMode() {
	specs := programsFor(*seed, *nprg)
	out := make([]string, len(specs))
	for i, spec := range specs {
		c, err := compileOnce(spec)
		if err != nil {
			out[i] = "error: " + err.Error()
			continue
		}
		out[i] = digest(c.dump)
	}
	b, _ := json.Marshal(out)
	os.Stdout.Write(b)
}
