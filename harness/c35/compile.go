package main

// Compile determinism: generated programs are parsed, checked and compiled repeatedly (fresh parse and check every
// time), in this process and in fresh processes, with the instruction compiler and the bytecode compiler; a canonical
// dump of everything the property names (bytecode, constants, function order, type table, imports, globals,
// variables, contracts, line numbers) must be identical.

import (
	"crypto/sha256"
	"encoding/hex"
	"fmt"
	"sort"
	"strings"

	"cvh/lib"

	"github.com/onflow/cadence/bbq"
	"github.com/onflow/cadence/bbq/compiler"
	"github.com/onflow/cadence/bbq/opcode"
	tu "github.com/onflow/cadence/bbq/test_utils"
	"github.com/onflow/cadence/common"
	"github.com/onflow/cadence/interpreter"
	"github.com/onflow/cadence/sema"
)

type progSpec struct {
	Name     string
	Contract string // optional contract deployed at 0x1 (name C) and imported by Code
	Code     string
}

// ---- program generator ----

func ident(r *lib.Rng, used map[string]bool, prefix string) string {
	for {
		s := fmt.Sprintf("%s%c%d", prefix, 'a'+rune(r.Intn(26)), r.Intn(1000))
		if !used[s] {
			used[s] = true
			return s
		}
	}
}

func genExpr(r *lib.Rng, depth int, vars []string) string {
	if depth <= 0 || r.Chance(1, 3) {
		if len(vars) > 0 && r.Bool() {
			return lib.Pick(r, vars)
		}
		return fmt.Sprint(r.Intn(1000))
	}
	op := lib.Pick(r, []string{"+", "-", "*"})
	return "(" + genExpr(r, depth-1, vars) + " " + op + " " + genExpr(r, depth-1, vars) + ")"
}

func genFunBody(r *lib.Rng, indent string) string {
	var sb strings.Builder
	vars := []string{}
	used := map[string]bool{}
	n := 1 + r.Intn(5)
	for i := 0; i < n; i++ {
		v := ident(r, used, "v")
		fmt.Fprintf(&sb, "%slet %s = %s\n", indent, v, genExpr(r, 2, vars))
		vars = append(vars, v)
	}
	switch r.Intn(4) {
	case 0:
		fmt.Fprintf(&sb, "%sif %s > %d { return %s }\n", indent, lib.Pick(r, vars), r.Intn(100), genExpr(r, 1, vars))
	case 1:
		fmt.Fprintf(&sb, "%svar i = 0\n%svar acc = 0\n%swhile i < %d { acc = acc + %s; i = i + 1 }\n%sreturn acc\n",
			indent, indent, indent, 1+r.Intn(5), lib.Pick(r, vars), indent)
		return sb.String()
	case 2:
		fmt.Fprintf(&sb, "%slet f = fun (x: Int): Int { return x + %s }\n%sreturn f(%d)\n", indent, lib.Pick(r, vars), indent, r.Intn(10))
		return sb.String()
	}
	fmt.Fprintf(&sb, "%sreturn %s\n", indent, genExpr(r, 2, vars))
	return sb.String()
}

// genProgram: interfaces with default functions inherited by composites (the shape that once made the
// function order depend on Go map iteration), plus functions, constants of several kinds, enums, resources.
func genProgram(r *lib.Rng, idx int) progSpec {
	used := map[string]bool{}
	var sb strings.Builder
	nIfaces := 1 + r.Intn(3)
	var ifaces []string
	ifaceFuns := map[string][]string{}
	hasDefault := map[string]bool{}
	for i := 0; i < nIfaces; i++ {
		in := strings.ToUpper(ident(r, used, "I"))
		ifaces = append(ifaces, in)
		kind := lib.Pick(r, []string{"struct", "resource"})
		_ = kind
		fmt.Fprintf(&sb, "access(all) struct interface %s {\n", in)
		nf := 1 + r.Intn(7)
		for j := 0; j < nf; j++ {
			fn := ident(r, used, "f")
			ifaceFuns[in] = append(ifaceFuns[in], fn)
			if r.Chance(3, 4) {
				hasDefault[fn] = true
				fmt.Fprintf(&sb, "    access(all) fun %s(): Int {\n%s    }\n", fn, genFunBody(r, "        "))
			} else {
				fmt.Fprintf(&sb, "    access(all) fun %s(): Int\n", fn)
			}
		}
		sb.WriteString("}\n\n")
	}
	// composites conforming to subsets of the interfaces
	nComp := 1 + r.Intn(3)
	var comps []string
	for i := 0; i < nComp; i++ {
		cn := strings.ToUpper(ident(r, used, "S"))
		comps = append(comps, cn)
		var conf []string
		for _, in := range ifaces {
			if r.Chance(2, 3) {
				conf = append(conf, in)
			}
		}
		if len(conf) == 0 {
			conf = []string{ifaces[0]}
		}
		fmt.Fprintf(&sb, "access(all) struct %s: %s {\n    access(all) let x: Int\n    init() { self.x = %d }\n", cn, strings.Join(conf, ", "), r.Intn(100))
		// every function without a default must be implemented; those with a default are overridden sometimes
		for _, in := range conf {
			for _, fn := range ifaceFuns[in] {
				if !hasDefault[fn] || r.Chance(1, 3) {
					fmt.Fprintf(&sb, "    access(all) fun %s(): Int {\n%s    }\n", fn, genFunBody(r, "        "))
				}
			}
		}
		sb.WriteString("}\n\n")
	}
	if r.Chance(1, 2) {
		en := strings.ToUpper(ident(r, used, "E"))
		fmt.Fprintf(&sb, "access(all) enum %s: UInt8 {\n", en)
		for j := 0; j < 2+r.Intn(4); j++ {
			fmt.Fprintf(&sb, "    access(all) case %s\n", ident(r, used, "c"))
		}
		sb.WriteString("}\n\n")
	}
	if r.Chance(1, 2) {
		rn := strings.ToUpper(ident(r, used, "R"))
		fmt.Fprintf(&sb, "access(all) resource %s {\n    access(all) var n: Int\n    init() { self.n = %d }\n    access(all) fun bump(): Int { self.n = self.n + 1; return self.n }\n}\n\n", rn, r.Intn(50))
		fmt.Fprintf(&sb, "access(all) fun useRes(): Int {\n    let r <- create %s()\n    let v = r.bump()\n    destroy r\n    return v\n}\n\n", rn)
	}
	nFun := 1 + r.Intn(5)
	for i := 0; i < nFun; i++ {
		fn := ident(r, used, "g")
		fmt.Fprintf(&sb, "access(all) fun %s(): Int {\n%s}\n\n", fn, genFunBody(r, "    "))
	}
	// constants of several kinds and calls through the composites
	fmt.Fprintf(&sb, "access(all) fun main(): Int {\n    let s = \"%s\"\n    let a: UInt8 = %d\n    let b: UFix64 = %d.%02d\n    let w: Word64 = %d\n    let addr: Address = 0x%x\n    var total = s.length\n",
		ident(r, map[string]bool{}, "str"), r.Intn(256), r.Intn(100), r.Intn(100), r.U64()>>1, 1+r.Intn(255))
	for _, cn := range comps {
		fmt.Fprintf(&sb, "    let o%s = %s()\n    total = total + o%s.x\n", cn, cn, cn)
	}
	sb.WriteString("    return total + Int(a)\n}\n")
	return progSpec{Name: fmt.Sprintf("gen%d", idx), Code: sb.String()}
}

var fixedPrograms = []progSpec{
	{Name: "determinism-test-shape", Code: `
        struct interface I {
            fun a(): Int { return 1 }
            fun b(): Int { return 2 }
            fun c(): Int { return 3 }
            fun d(): Int { return 4 }
            fun e(): Int { return 5 }
            fun f(): Int { return 6 }
            fun g(): Int { return 7 }
            fun h(): Int { return 8 }
        }
        struct interface J {
            fun p(): Int { return 10 }
            fun q(): Int { return 20 }
            fun r(): Int { return 30 }
        }
        struct S: I, J {}
        fun main(): Int { return S().a() + S().r() }
    `},
	{Name: "conditions-and-attachments", Code: `
        struct interface Checked {
            fun run(_ x: Int): Int {
                pre { x > 0: "positive" }
                post { result > x: "grows" }
            }
        }
        struct Impl: Checked {
            fun run(_ x: Int): Int { return x + 1 }
        }
        resource R { var n: Int; init() { self.n = 1 } }
        attachment A for R { fun get(): Int { return base.n } }
        fun main(): Int {
            let r <- attach A() to <- create R()
            let v = r[A]!.get()
            destroy r
            return Impl().run(v)
        }
    `},
	{Name: "import-contract", Contract: `
        access(all) contract C {
            access(all) struct interface Shape { access(all) fun area(): Int { return 0 }; access(all) fun name(): String { return "shape" } }
            access(all) struct Sq: Shape { access(all) let s: Int; init(_ s: Int) { self.s = s }; access(all) fun area(): Int { return self.s * self.s } }
            access(all) fun make(_ s: Int): Sq { return Sq(s) }
            access(all) let greeting: String
            init() { self.greeting = "hi" }
        }`, Code: `
        import C from 0x1
        access(all) fun main(): Int { let q = C.make(3); return q.area() + q.name().length + C.greeting.length }
    `},
}

// ---- compile + dump ----

func locString(l common.Location) string {
	if l == nil {
		return "<nil>"
	}
	return string(l.TypeID(nil, ""))
}

func dumpLineNumbers(t bbq.LineNumberTable) string {
	var sb strings.Builder
	for _, p := range t.Positions {
		fmt.Fprintf(&sb, "%d:%d.%d-%d.%d ", p.InstructionIndex, p.Position.StartPos.Line, p.Position.StartPos.Column, p.Position.EndPos.Line, p.Position.EndPos.Column)
	}
	return sb.String()
}

func dumpGlobals(sb *strings.Builder, globals []bbq.Global) {
	for i, g := range globals {
		info := g.GetGlobalInfo()
		fmt.Fprintf(sb, "global %d %T name=%q qualified=%q location=%s index=%d\n", i, g, info.Name, info.QualifiedName, locString(info.Location), info.Index)
	}
}

func dumpCommon[E, T any](sb *strings.Builder, p *bbq.Program[E, T], code func([]E) string, typ func(T) string) {
	for i, c := range p.Contracts {
		fmt.Fprintf(sb, "contract %d %q %s\n", i, c.Name, locString(c.Location))
	}
	for i, im := range p.Imports {
		fmt.Fprintf(sb, "import %d %q %s\n", i, im.Name, locString(im.Location))
	}
	for i, f := range p.Functions {
		fmt.Fprintf(sb, "function %d name=%q qualified=%q params=%d typeparams=%d locals=%d type=%d native=%v\n  code=%s\n  lines=%s\n",
			i, f.Name, f.QualifiedName, f.ParameterCount, f.TypeParameterCount, f.LocalCount, f.TypeIndex, f.IsNative(), code(f.Code), dumpLineNumbers(f.LineNumbers))
	}
	for i, c := range p.Constants {
		fmt.Fprintf(sb, "constant %d kind=%s data=%#v\n", i, c.Kind, c.Data)
	}
	for i, v := range p.Variables {
		g := "<nil>"
		if v.Getter != nil {
			g = code(v.Getter.Code)
		}
		fmt.Fprintf(sb, "variable %d %q getter=%s\n", i, v.Name, g)
	}
	for i, t := range p.Types {
		fmt.Fprintf(sb, "type %d %s\n", i, typ(t))
	}
	dumpGlobals(sb, p.Globals)
}

type compiled struct {
	dump         string // canonical dump of instruction program + bytecode program
	instr        *bbq.InstructionProgram
	instrOpt     *bbq.InstructionProgram // compiled with the peephole optimiser
	bytecode     *bbq.Program[byte, []byte]
	instrPerFunc [][]opcode.Instruction
}

func compilerConfig(programs tu.CompiledPrograms) *compiler.Config {
	return &compiler.Config{
		LocationHandler: tu.SingleIdentifierLocationResolver(nil),
		ImportHandler: func(location common.Location) *bbq.InstructionProgram {
			if imported, ok := programs[location]; ok {
				return imported.Program
			}
			return nil
		},
		ElaborationResolver: func(location common.Location) (*compiler.DesugaredElaboration, error) {
			if imported, ok := programs[location]; ok {
				return imported.DesugaredElaboration, nil
			}
			return nil, fmt.Errorf("cannot find elaboration for %s", location)
		},
	}
}

func checkFor(code string, location common.Location, programs tu.CompiledPrograms) *sema.Checker {
	return tu.ParseAndCheckWithOptionsForCompiling(nil, code, location, nil, nil, programs)
}

// compileOnce parses, checks and compiles spec from scratch and returns the dump.
func compileOnce(spec progSpec) (res compiled, err error) {
	defer func() {
		if r := recover(); r != nil {
			err = fmt.Errorf("compile %s: panic: %v", spec.Name, r)
		}
	}()
	programs := tu.CompiledPrograms{}
	var sb strings.Builder
	if spec.Contract != "" {
		loc := common.NewAddressLocation(nil, common.Address{0, 0, 0, 0, 0, 0, 0, 1}, "C")
		checker := checkFor(spec.Contract, loc, programs)
		programs[loc] = &tu.CompiledProgram{DesugaredElaboration: compiler.NewDesugaredElaboration(checker.Elaboration)}
		comp := compiler.NewInstructionCompilerWithConfig(interpreter.ProgramFromChecker(checker), loc, compilerConfig(programs))
		p := comp.Compile()
		programs[loc].Program = p
		programs[loc].DesugaredElaboration = comp.DesugaredElaboration
		sb.WriteString("== contract (instructions)\n")
		dumpCommon(&sb, p, dumpInstrs, func(t bbq.StaticType) string { return fmt.Sprint(t) })
	}
	loc := common.ScriptLocation{0x1}
	// instruction compiler, without and with the peephole optimiser (fresh parse + check each time)
	for _, peephole := range []bool{false, true} {
		checker := checkFor(spec.Code, loc, programs)
		programs[loc] = &tu.CompiledProgram{DesugaredElaboration: compiler.NewDesugaredElaboration(checker.Elaboration)}
		cfg := compilerConfig(programs)
		cfg.PeepholeOptimizationsEnabled = peephole
		comp := compiler.NewInstructionCompilerWithConfig(interpreter.ProgramFromChecker(checker), loc, cfg)
		p := comp.Compile()
		fmt.Fprintf(&sb, "== program (instructions, peephole=%v)\n", peephole)
		dumpCommon(&sb, p, dumpInstrs, func(t bbq.StaticType) string { return fmt.Sprint(t) })
		if !peephole {
			res.instr = p
			for _, f := range p.Functions {
				res.instrPerFunc = append(res.instrPerFunc, f.Code)
			}
		} else {
			res.instrOpt = p
		}
		delete(programs, loc)
	}
	// bytecode compiler (fresh parse + check). It is not used by the runtime and cannot encode every type
	// (function types are "non-storable"): where it fails, only the instruction program is compared.
	func() {
		defer func() {
			if r := recover(); r != nil {
				res.bytecode = nil
				sb.WriteString("== program (bytecode): bytecode compiler not applicable\n")
			}
		}()
		checker := checkFor(spec.Code, loc, programs)
		programs[loc] = &tu.CompiledProgram{DesugaredElaboration: compiler.NewDesugaredElaboration(checker.Elaboration)}
		comp := compiler.NewBytecodeCompiler(interpreter.ProgramFromChecker(checker), loc, compilerConfig(programs))
		p := comp.Compile()
		var bsb strings.Builder
		dumpCommon(&bsb, p, func(c []byte) string { return hex.EncodeToString(c) }, func(t []byte) string { return hex.EncodeToString(t) })
		res.bytecode = p
		sb.WriteString("== program (bytecode)\n")
		sb.WriteString(bsb.String())
	}()
	res.dump = sb.String()
	return res, nil
}

// dumpInstrs: the instructions (operands included) and their encoding.
func dumpInstrs(c []opcode.Instruction) string {
	var code []byte
	for _, i := range c {
		i.Encode(&code)
	}
	return fmt.Sprint(c) + " bytes=" + hex.EncodeToString(code)
}

func digest(s string) string {
	h := sha256.Sum256([]byte(s))
	return hex.EncodeToString(h[:])
}

// programsFor returns the program set of a run (deterministic in the seed).
func programsFor(seed uint64, n int) []progSpec {
	r := lib.NewRng(seed ^ 0xC35C35)
	out := append([]progSpec{}, fixedPrograms...)
	for i := 0; i < n; i++ {
		out = append(out, genProgram(r, i))
	}
	return out
}

// firstDiff describes where two dumps differ.
func firstDiff(a, b string) string {
	la, lb := strings.Split(a, "\n"), strings.Split(b, "\n")
	for i := 0; i < len(la) && i < len(lb); i++ {
		if la[i] != lb[i] {
			return fmt.Sprintf("line %d:\n  first: %.300s\n  other: %.300s", i+1, la[i], lb[i])
		}
	}
	return fmt.Sprintf("length %d vs %d lines", len(la), len(lb))
}

var _ = sort.Strings
