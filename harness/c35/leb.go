package main

// LEB128: real bbq/leb128 functions against an independent math/big oracle, at byte-length boundaries.

import (
	"math/big"

	"cvh/lib"

	"github.com/onflow/cadence/bbq/leb128"
)

// kinds: 0 = uint32, 1 = uint64, 2 = int32, 3 = int64
type lebKind struct {
	id     int
	name   string
	bits   int
	signed bool
	maxLen int
}

var lebKinds = []lebKind{
	{0, "Uint32", 32, false, 5}, {1, "Uint64", 64, false, 10}, {2, "Int32", 32, true, 5}, {3, "Int64", 64, true, 10},
}

func (k lebKind) min() *big.Int {
	if !k.signed {
		return big.NewInt(0)
	}
	return new(big.Int).Neg(new(big.Int).Lsh(big.NewInt(1), uint(k.bits-1)))
}

func (k lebKind) max() *big.Int {
	n := k.bits
	if k.signed {
		n--
	}
	return new(big.Int).Sub(new(big.Int).Lsh(big.NewInt(1), uint(n)), big.NewInt(1))
}

// oracleEncode: the textbook LEB128 definition over unbounded integers.
func oracleEncode(v *big.Int, signed bool) []byte {
	var out []byte
	x := new(big.Int).Set(v)
	b128 := big.NewInt(128)
	for {
		g := new(big.Int).Mod(x, b128) // Euclidean: 0..127
		x = new(big.Int).Div(new(big.Int).Sub(x, g), b128)
		c := byte(g.Int64())
		var done bool
		if signed {
			done = (x.Sign() == 0 && c&0x40 == 0) || (x.Cmp(big.NewInt(-1)) == 0 && c&0x40 != 0)
		} else {
			done = x.Sign() == 0
		}
		if done {
			return append(out, c)
		}
		out = append(out, c|0x80)
	}
}

func realAppend(k lebKind, data []byte, v *big.Int) []byte {
	data = append([]byte{}, data...)
	switch k.id {
	case 0:
		return leb128.AppendUint32(data, uint32(v.Uint64()))
	case 1:
		return leb128.AppendUint64(data, v.Uint64())
	case 2:
		return leb128.AppendInt32(data, int32(v.Int64()))
	default:
		return leb128.AppendInt64(data, v.Int64())
	}
}

// realRead: class "" ok / UserOther (returned error) / Crash.
func realRead(k lebKind, data []byte) (v *big.Int, count int, cls string) {
	c, _ := lib.Catch(func() {
		var err error
		switch k.id {
		case 0:
			var r uint32
			r, count, err = leb128.ReadUint32(data)
			v = new(big.Int).SetUint64(uint64(r))
		case 1:
			var r uint64
			r, count, err = leb128.ReadUint64(data)
			v = new(big.Int).SetUint64(r)
		case 2:
			var r int32
			r, count, err = leb128.ReadInt32(data)
			v = big.NewInt(int64(r))
		default:
			var r int64
			r, count, err = leb128.ReadInt64(data)
			v = big.NewInt(r)
		}
		if err != nil {
			cls = lib.EUserOther
		}
	})
	if c != "" {
		cls = c
	}
	return
}

// boundary values: every 7-bit group boundary (where the encoded length changes), +-1 around, the extremes.
func lebLattice(k lebKind) []*big.Int {
	var out []*big.Int
	add := func(z *big.Int) {
		if z.Cmp(k.min()) >= 0 && z.Cmp(k.max()) <= 0 {
			out = append(out, z)
		}
	}
	for _, d := range []int64{-2, -1, 0, 1, 2} {
		add(new(big.Int).Add(k.min(), big.NewInt(d)))
		add(new(big.Int).Add(k.max(), big.NewInt(d)))
		add(big.NewInt(d))
		for g := 1; g <= 10; g++ {
			for _, sh := range []int{7 * g, 7*g - 1} {
				p := new(big.Int).Lsh(big.NewInt(1), uint(sh))
				add(new(big.Int).Add(p, big.NewInt(d)))
				add(new(big.Int).Add(new(big.Int).Neg(p), big.NewInt(d)))
			}
		}
	}
	return out
}

func lebRandom(r *lib.Rng, k lebKind) *big.Int {
	return r.BigBetween(k.min(), k.max())
}
