// Package main (c41): correspondence harness for the codec properties C41 (JSON-Cadence),
// C42 (CCF) and C43 (JSON-Cadence vs CCF).
//
// term.go: conversion of cadence.Value / cadence.Type object graphs into the finite trees of
// coq/theories/C41/Values.v (xval / xty) and their rendering as Coq terms.
package main

import (
	"fmt"
	"math/big"
	"strings"

	"github.com/onflow/cadence"
	"github.com/onflow/cadence/common"
	"github.com/onflow/cadence/fixedpoint"
	fix "github.com/onflow/fixed-point"
)

// Order in which the members of a composite/interface type are traversed when deciding which
// occurrence of a type pointer is the "first" one (a full node) and which are back references.
type Order int

const (
	OrderJSONEnc Order = iota // encode.go PrepareType: fields, initializers, raw/base type
	OrderJSONDec              // decode.go decodeNominalType: initializers, raw/base type, fields
)

type XAuth struct {
	K    string // Unauth | Map | Set
	Conj bool
	IDs  []string
}

type XParam struct {
	Label, ID string
	T         *XTy
}

type XField struct {
	Name string
	T    *XTy
}

type XTy struct {
	K      string // Nil Simple Optional VarArray ConstArray Dict Range Capability Reference Intersection Function Composite Ref Unsupported
	Name   string // Simple: id; Composite/Ref: type id
	N      uint64 // ConstArray size
	A, B   *XTy   // element / key,value / extra
	Auth   *XAuth
	Ts     []*XTy
	View   bool
	TPs    []XField // type parameters (name, bound)
	Ps     []XParam
	CK     string // composite kind constructor name
	Fields []XField
	Inits  [][]XParam
}

type XVal struct {
	K      string // Void Bool String Char Address Num Optional Array Dict Range Composite Path Type Cap Func Unsupported
	B      bool
	S      string
	Z      *big.Int // Address / Num / Cap id
	NK     string   // numeric kind constructor
	T      *XTy
	Inner  *XVal // Optional (nil = none) ; Range: A,B,C
	A2, A3 *XVal
	L      []*XVal
	Pairs  [][2]*XVal
	CK     string
	TID    string
	Extra  *XTy
	FTys   []XField
	Inits  [][]XParam
	D      int
	Addr   *big.Int
}

var tyNil = &XTy{K: "Nil"}

func compositeKindName(t cadence.Type) string {
	switch t.(type) {
	case *cadence.StructType:
		return "KStruct"
	case *cadence.ResourceType:
		return "KResource"
	case *cadence.EventType:
		return "KEvent"
	case *cadence.ContractType:
		return "KContract"
	case *cadence.EnumType:
		return "KEnum"
	case *cadence.AttachmentType:
		return "KAttachment"
	case *cadence.StructInterfaceType:
		return "KStructInterface"
	case *cadence.ResourceInterfaceType:
		return "KResourceInterface"
	case *cadence.ContractInterfaceType:
		return "KContractInterface"
	}
	return ""
}

// typeFields returns the fields of a composite or interface type through the public API.
func typeFields(t cadence.Type) []cadence.Field {
	var names map[string]cadence.Type
	_ = names
	switch t := t.(type) {
	case cadence.CompositeType:
		return compositeTypeFields(t)
	case cadence.InterfaceType:
		return interfaceTypeFields(t)
	}
	return nil
}

func typeInits(t cadence.Type) [][]cadence.Parameter {
	switch t := t.(type) {
	case *cadence.EventType:
		return [][]cadence.Parameter{t.Initializer}
	case cadence.CompositeType:
		return t.CompositeInitializers()
	case cadence.InterfaceType:
		return t.InterfaceInitializers()
	}
	return nil
}

func isNilType(t cadence.Type) bool {
	if t == nil {
		return true
	}
	switch p := t.(type) {
	case *cadence.OptionalType:
		return p == nil
	case *cadence.VariableSizedArrayType:
		return p == nil
	case *cadence.ConstantSizedArrayType:
		return p == nil
	case *cadence.DictionaryType:
		return p == nil
	case *cadence.InclusiveRangeType:
		return p == nil
	case *cadence.StructType:
		return p == nil
	case *cadence.ResourceType:
		return p == nil
	case *cadence.EventType:
		return p == nil
	case *cadence.ContractType:
		return p == nil
	case *cadence.EnumType:
		return p == nil
	case *cadence.AttachmentType:
		return p == nil
	case *cadence.FunctionType:
		return p == nil
	case *cadence.ReferenceType:
		return p == nil
	case *cadence.IntersectionType:
		return p == nil
	case *cadence.CapabilityType:
		return p == nil
	}
	return false
}

type scope map[cadence.Type]bool

func convParams(ps []cadence.Parameter, sc scope, o Order) []XParam {
	out := make([]XParam, len(ps))
	for i, p := range ps {
		out[i] = XParam{p.Label, p.Identifier, convTy(p.Type, sc, o)}
	}
	return out
}

// convTy converts a type graph to a tree; sc holds the composite/interface pointers already seen.
func convTy(t cadence.Type, sc scope, o Order) *XTy {
	if isNilType(t) {
		return tyNil
	}
	switch t := t.(type) {
	case cadence.BytesType:
		return &XTy{K: "Simple", Name: "Bytes"}
	case cadence.PrimitiveType:
		return &XTy{K: "Simple", Name: t.ID()}
	case *cadence.OptionalType:
		return &XTy{K: "Optional", A: convTy(t.Type, sc, o)}
	case *cadence.VariableSizedArrayType:
		return &XTy{K: "VarArray", A: convTy(t.ElementType, sc, o)}
	case *cadence.ConstantSizedArrayType:
		return &XTy{K: "ConstArray", N: uint64(t.Size), A: convTy(t.ElementType, sc, o)}
	case *cadence.DictionaryType:
		k := convTy(t.KeyType, sc, o)
		return &XTy{K: "Dict", A: k, B: convTy(t.ElementType, sc, o)}
	case *cadence.InclusiveRangeType:
		return &XTy{K: "Range", A: convTy(t.ElementType, sc, o)}
	case *cadence.CapabilityType:
		return &XTy{K: "Capability", A: convTy(t.BorrowType, sc, o)}
	case *cadence.ReferenceType:
		return &XTy{K: "Reference", Auth: convAuth(t.Authorization), A: convTy(t.Type, sc, o)}
	case *cadence.IntersectionType:
		ts := make([]*XTy, len(t.Types))
		for i, x := range t.Types {
			ts[i] = convTy(x, sc, o)
		}
		return &XTy{K: "Intersection", Ts: ts}
	case *cadence.FunctionType:
		r := &XTy{K: "Function", View: t.Purity == cadence.FunctionPurityView}
		for _, tp := range t.TypeParameters {
			r.TPs = append(r.TPs, XField{tp.Name, convTy(tp.TypeBound, sc, o)})
		}
		r.Ps = convParams(t.Parameters, sc, o)
		r.A = convTy(t.ReturnType, sc, o)
		return r
	}
	ck := compositeKindName(t)
	if ck == "" {
		return &XTy{K: "Unsupported", Name: fmt.Sprintf("%T", t)}
	}
	if sc[t] {
		return &XTy{K: "Ref", Name: t.ID()}
	}
	sc[t] = true
	r := &XTy{K: "Composite", CK: ck, Name: t.ID(), A: tyNil}
	var extra cadence.Type
	switch t := t.(type) {
	case *cadence.EnumType:
		extra = t.RawType
	case *cadence.AttachmentType:
		extra = t.BaseType
	}
	doFields := func() {
		for _, f := range typeFields(t) {
			r.Fields = append(r.Fields, XField{f.Identifier, convTy(f.Type, sc, o)})
		}
	}
	doInits := func() {
		for _, in := range typeInits(t) {
			r.Inits = append(r.Inits, convParams(in, sc, o))
		}
	}
	doExtra := func() {
		if extra != nil || ck == "KEnum" || ck == "KAttachment" {
			r.A = convTy(extra, sc, o)
		}
	}
	switch o {
	case OrderJSONEnc:
		doFields()
		doInits()
		doExtra()
	default:
		doInits()
		doExtra()
		doFields()
	}
	return r
}

func convAuth(a cadence.Authorization) *XAuth {
	switch a := a.(type) {
	case cadence.Unauthorized:
		return &XAuth{K: "Unauth"}
	case cadence.EntitlementMapAuthorization:
		return &XAuth{K: "Map", IDs: []string{string(a.TypeID)}}
	case *cadence.EntitlementSetAuthorization:
		r := &XAuth{K: "Set", Conj: a.Kind == cadence.Conjunction}
		for _, e := range a.Entitlements {
			r.IDs = append(r.IDs, string(e))
		}
		return r
	}
	return &XAuth{K: "Unauth"}
}

func freshTy(t cadence.Type, o Order) *XTy { return convTy(t, scope{}, o) }

func numVal(nk string, z *big.Int) *XVal { return &XVal{K: "Num", NK: nk, Z: z} }

// convVal converts a value; static types attached to values are converted each in a fresh scope.
func convVal(v cadence.Value, o Order) *XVal {
	switch v := v.(type) {
	case cadence.Void:
		return &XVal{K: "Void"}
	case cadence.Bool:
		return &XVal{K: "Bool", B: bool(v)}
	case cadence.String:
		return &XVal{K: "String", S: string(v)}
	case cadence.Character:
		return &XVal{K: "Char", S: string(v)}
	case cadence.Address:
		return &XVal{K: "Address", Z: new(big.Int).SetBytes(v[:])}
	case cadence.Int:
		return numVal("NInt", v.Big())
	case cadence.Int8:
		return numVal("NInt8", big.NewInt(int64(v)))
	case cadence.Int16:
		return numVal("NInt16", big.NewInt(int64(v)))
	case cadence.Int32:
		return numVal("NInt32", big.NewInt(int64(v)))
	case cadence.Int64:
		return numVal("NInt64", big.NewInt(int64(v)))
	case cadence.Int128:
		return numVal("NInt128", v.Big())
	case cadence.Int256:
		return numVal("NInt256", v.Big())
	case cadence.UInt:
		return numVal("NUInt", v.Big())
	case cadence.UInt8:
		return numVal("NUInt8", big.NewInt(int64(v)))
	case cadence.UInt16:
		return numVal("NUInt16", big.NewInt(int64(v)))
	case cadence.UInt32:
		return numVal("NUInt32", big.NewInt(int64(v)))
	case cadence.UInt64:
		return numVal("NUInt64", new(big.Int).SetUint64(uint64(v)))
	case cadence.UInt128:
		return numVal("NUInt128", v.Big())
	case cadence.UInt256:
		return numVal("NUInt256", v.Big())
	case cadence.Word8:
		return numVal("NWord8", big.NewInt(int64(v)))
	case cadence.Word16:
		return numVal("NWord16", big.NewInt(int64(v)))
	case cadence.Word32:
		return numVal("NWord32", big.NewInt(int64(v)))
	case cadence.Word64:
		return numVal("NWord64", new(big.Int).SetUint64(uint64(v)))
	case cadence.Word128:
		return numVal("NWord128", v.Big())
	case cadence.Word256:
		return numVal("NWord256", v.Big())
	case cadence.Fix64:
		return numVal("NFix64", big.NewInt(int64(v)))
	case cadence.UFix64:
		return numVal("NUFix64", new(big.Int).SetUint64(uint64(v)))
	case cadence.Fix128:
		return numVal("NFix128", fixedpoint.Fix128ToBigInt(fix.Fix128(v)))
	case cadence.UFix128:
		return numVal("NUFix128", fixedpoint.UFix128ToBigInt(fix.UFix128(v)))
	case cadence.Optional:
		if v.Value == nil {
			return &XVal{K: "Optional"}
		}
		return &XVal{K: "Optional", Inner: convVal(v.Value, o)}
	case cadence.Array:
		r := &XVal{K: "Array", T: freshTy(v.Type(), o)}
		for _, e := range v.Values {
			r.L = append(r.L, convVal(e, o))
		}
		return r
	case cadence.Dictionary:
		r := &XVal{K: "Dict", T: freshTy(v.Type(), o)}
		for _, p := range v.Pairs {
			r.Pairs = append(r.Pairs, [2]*XVal{convVal(p.Key, o), convVal(p.Value, o)})
		}
		return r
	case *cadence.InclusiveRange:
		return &XVal{K: "Range", T: freshTy(v.Type(), o), Inner: convVal(v.Start, o), A2: convVal(v.End, o), A3: convVal(v.Step, o)}
	case cadence.Path:
		return &XVal{K: "Path", D: int(v.Domain), S: v.Identifier}
	case cadence.TypeValue:
		return &XVal{K: "Type", T: freshTy(v.StaticType, o)}
	case cadence.Capability:
		if v.DeprecatedPath != nil {
			return &XVal{K: "Unsupported", S: "path capability"}
		}
		return &XVal{K: "Cap", Z: new(big.Int).SetUint64(uint64(v.ID)), Addr: new(big.Int).SetBytes(v.Address[:]), T: freshTy(v.BorrowType, o)}
	case cadence.Function:
		if v.FunctionType == nil {
			return &XVal{K: "Func", T: tyNil}
		}
		return &XVal{K: "Func", T: freshTy(v.FunctionType, o)}
	case cadence.Composite:
		t := v.Type()
		r := &XVal{K: "Composite", Extra: tyNil}
		if isNilType(t) {
			return &XVal{K: "Unsupported", S: "composite without type"}
		}
		full := freshTy(t, o)
		r.CK, r.TID, r.Extra, r.FTys, r.Inits = full.CK, full.Name, full.A, full.Fields, full.Inits
		for _, f := range compositeFieldValues(v) {
			r.L = append(r.L, convVal(f, o))
		}
		return r
	}
	return &XVal{K: "Unsupported", S: fmt.Sprintf("%T", v)}
}

// ---------------------------------------------------------------- Coq rendering

// known strings are rendered by the name of their constant in C41/Json.v (smaller case files)
var coqStrConst = map[string]string{
	"type": "kType", "kind": "kKind", "value": "kValue", "key": "kKey", "name": "kName", "fields": "kFields",
	"initializers": "kInitializers", "id": "kId", "borrowType": "kBorrowType", "domain": "kDomain",
	"identifier": "kIdentifier", "staticType": "kStaticType", "address": "kAddress", "path": "kPath",
	"authorization": "kAuthorization", "entitlements": "kEntitlements", "size": "kSize", "typeID": "kTypeID",
	"types": "kTypes", "label": "kLabel", "parameters": "kParameters", "typeParameters": "kTypeParameters",
	"return": "kReturn", "typeBound": "kTypeBound", "purity": "kPurity", "functionType": "kFunctionType",
	"element": "kElement", "start": "kStart", "end": "kEnd", "step": "kStep",
	"Void": "sVoid", "Optional": "sOptional", "Bool": "sBool", "Character": "sCharacter", "String": "sString",
	"Address": "sAddress", "Array": "sArray", "Dictionary": "sDictionary", "Path": "sPath", "Type": "sTypeV",
	"Capability": "sCapability", "Function": "sFunction", "InclusiveRange": "sInclusiveRange",
	"Intersection": "sIntersection", "Restriction": "sRestriction", "VariableSizedArray": "sVariableSizedArray",
	"ConstantSizedArray": "sConstantSizedArray", "Reference": "sReference", "view": "sView",
	"Unauthorized": "sUnauthorized", "EntitlementMapAuthorization": "sEntitlementMapAuthorization",
	"EntitlementConjunctionSet": "sEntitlementConjunctionSet", "EntitlementDisjunctionSet": "sEntitlementDisjunctionSet",
	"Entitlement": "sEntitlement", "EntitlementMap": "sEntitlementMap", "storage": "sStorage", "private": "sPrivate",
	"public": "sPublic",
}

func coqStr(s string) string {
	if c, ok := coqStrConst[s]; ok {
		return c
	}
	if s == "" {
		return "[]"
	}
	// (u "...") of C41/Cases.v: printable ASCII literally, everything else as \<hex>;
	var b strings.Builder
	b.WriteString("(u \"")
	for _, r := range s {
		if r >= 0x20 && r < 0x7f && r != '\\' && r != '"' {
			b.WriteRune(r)
		} else {
			fmt.Fprintf(&b, "\\%x;", r)
		}
	}
	b.WriteString("\")")
	return b.String()
}

func coqZ(z *big.Int) string {
	if z.Sign() < 0 {
		return "(" + z.String() + ")"
	}
	return z.String()
}

func coqBool(b bool) string {
	if b {
		return "true"
	}
	return "false"
}

func coqList[T any](xs []T, f func(T) string) string {
	parts := make([]string, len(xs))
	for i, x := range xs {
		parts[i] = f(x)
	}
	return "[" + strings.Join(parts, ";") + "]"
}

func (p XParam) Coq() string {
	return "(" + coqStr(p.Label) + "," + coqStr(p.ID) + "," + p.T.Coq() + ")"
}
func (f XField) Coq() string { return "(" + coqStr(f.Name) + "," + f.T.Coq() + ")" }

func (a *XAuth) Coq() string {
	switch a.K {
	case "Map":
		return "(AMap " + coqStr(a.IDs[0]) + ")"
	case "Set":
		return "(ASet " + coqBool(a.Conj) + " " + coqList(a.IDs, coqStr) + ")"
	}
	return "AUnauth"
}

func coqInits(in [][]XParam) string {
	return coqList(in, func(ps []XParam) string { return coqList(ps, XParam.Coq) })
}

func (t *XTy) Coq() string {
	switch t.K {
	case "Nil":
		return "TNil"
	case "Simple":
		return "(TSimple " + coqStr(t.Name) + ")"
	case "Optional":
		return "(TOptional " + t.A.Coq() + ")"
	case "VarArray":
		return "(TVarArray " + t.A.Coq() + ")"
	case "ConstArray":
		return "(TConstArray " + new(big.Int).SetUint64(t.N).String() + " " + t.A.Coq() + ")"
	case "Dict":
		return "(TDict " + t.A.Coq() + " " + t.B.Coq() + ")"
	case "Range":
		return "(TRange " + t.A.Coq() + ")"
	case "Capability":
		return "(TCapability " + t.A.Coq() + ")"
	case "Reference":
		return "(TReference " + t.Auth.Coq() + " " + t.A.Coq() + ")"
	case "Intersection":
		return "(TIntersection " + coqList(t.Ts, (*XTy).Coq) + ")"
	case "Function":
		return "(TFunction " + coqBool(t.View) + " " + coqList(t.TPs, XField.Coq) + " " + coqList(t.Ps, XParam.Coq) + " " + t.A.Coq() + ")"
	case "Composite":
		return "(TComposite " + t.CK + " " + coqStr(t.Name) + " " + t.A.Coq() + " " + coqList(t.Fields, XField.Coq) + " " + coqInits(t.Inits) + ")"
	case "Ref":
		return "(TRef " + coqStr(t.Name) + ")"
	}
	panic("unsupported type in Coq rendering: " + t.Name)
}

func (v *XVal) Coq() string {
	switch v.K {
	case "Void":
		return "VVoid"
	case "Bool":
		return "(VBool " + coqBool(v.B) + ")"
	case "String":
		return "(VString " + coqStr(v.S) + ")"
	case "Char":
		return "(VChar " + coqStr(v.S) + ")"
	case "Address":
		return "(VAddress " + coqZ(v.Z) + ")"
	case "Num":
		return "(VNum " + v.NK + " " + coqZ(v.Z) + ")"
	case "Optional":
		if v.Inner == nil {
			return "(VOptional None)"
		}
		return "(VOptional (Some " + v.Inner.Coq() + "))"
	case "Array":
		return "(VArray " + v.T.Coq() + " " + coqList(v.L, (*XVal).Coq) + ")"
	case "Dict":
		return "(VDict " + v.T.Coq() + " " + coqList(v.Pairs, func(p [2]*XVal) string { return "(" + p[0].Coq() + "," + p[1].Coq() + ")" }) + ")"
	case "Range":
		return "(VRange " + v.T.Coq() + " " + v.Inner.Coq() + " " + v.A2.Coq() + " " + v.A3.Coq() + ")"
	case "Composite":
		return "(VComposite " + v.CK + " " + coqStr(v.TID) + " " + v.Extra.Coq() + " " + coqList(v.FTys, XField.Coq) + " " + coqInits(v.Inits) + " " + coqList(v.L, (*XVal).Coq) + ")"
	case "Path":
		return fmt.Sprintf("(VPath %d %s)", v.D, coqStr(v.S))
	case "Type":
		return "(VType " + v.T.Coq() + ")"
	case "Cap":
		return "(VCap " + coqZ(v.Z) + " " + coqZ(v.Addr) + " " + v.T.Coq() + ")"
	case "Func":
		return "(VFunc " + v.T.Coq() + ")"
	}
	panic("unsupported value in Coq rendering: " + v.S)
}

func (v *XVal) Supported() bool { return !strings.Contains(v.safeCoq(), "\x00") }

func (v *XVal) safeCoq() (s string) {
	defer func() {
		if r := recover(); r != nil {
			s = "\x00"
		}
	}()
	return v.Coq()
}

// Erase is the independent (Go) rendering of the erasure of Values.v: static types of containers,
// declared field types, initializers, raw types are dropped; field names are kept (padded with "").
func (v *XVal) Erase() *XVal {
	switch v.K {
	case "Optional":
		if v.Inner == nil {
			return v
		}
		return &XVal{K: "Optional", Inner: v.Inner.Erase()}
	case "Array":
		r := &XVal{K: "Array", T: tyNil}
		for _, e := range v.L {
			r.L = append(r.L, e.Erase())
		}
		return r
	case "Dict":
		r := &XVal{K: "Dict", T: tyNil}
		for _, p := range v.Pairs {
			r.Pairs = append(r.Pairs, [2]*XVal{p[0].Erase(), p[1].Erase()})
		}
		return r
	case "Range":
		return &XVal{K: "Range", T: tyNil, Inner: v.Inner.Erase(), A2: v.A2.Erase(), A3: v.A3.Erase()}
	case "Composite":
		r := &XVal{K: "Composite", CK: v.CK, TID: v.TID, Extra: tyNil}
		for i, f := range v.L {
			name := ""
			if i < len(v.FTys) {
				name = v.FTys[i].Name
			}
			r.FTys = append(r.FTys, XField{name, tyNil})
			r.L = append(r.L, f.Erase())
		}
		return r
	}
	return v
}

var _ = common.PathDomainStorage
