package main

// ccf_prop.go: C42 — CCF round-trips, is canonical in deterministic mode, and never crashes.

import (
	"bytes"
	"fmt"
	"math/big"
	"sort"
	"strings"

	"cvh/lib"

	"github.com/onflow/cadence"
	"github.com/onflow/cadence/common"
	"github.com/onflow/cadence/encoding/ccf"
	cerrors "github.com/onflow/cadence/errors"
)

var (
	detEnc = func() ccf.EncMode {
		m, err := ccf.EncOptions{
			SortCompositeFields:   ccf.SortBytewiseLexical,
			SortIntersectionTypes: ccf.SortBytewiseLexical,
			SortEntitlementTypes:  ccf.SortBytewiseLexical,
		}.EncMode()
		if err != nil {
			panic(err)
		}
		return m
	}()
	defEnc = func() ccf.EncMode {
		m, err := ccf.EncOptions{}.EncMode()
		if err != nil {
			panic(err)
		}
		return m
	}()
	strictDec = func() ccf.DecMode {
		m, err := ccf.DecOptions{
			EnforceSortCompositeFields:   ccf.EnforceSortBytewiseLexical,
			EnforceSortIntersectionTypes: ccf.EnforceSortBytewiseLexical,
			EnforceSortEntitlementTypes:  ccf.EnforceSortBytewiseLexical,
		}.DecMode()
		if err != nil {
			panic(err)
		}
		return m
	}()
	lenientDec = func() ccf.DecMode {
		m, err := ccf.DecOptions{}.DecMode()
		if err != nil {
			panic(err)
		}
		return m
	}()
)

func classifyCCFErr(err error) string {
	if err == nil {
		return ""
	}
	if cerrors.IsInternalError(err) {
		return lib.EInternal
	}
	return lib.EUserOther
}

func ccfEncode(m ccf.EncMode, v cadence.Value) (b []byte, out outcome) {
	defer func() {
		if r := recover(); r != nil {
			out = outcome{cls: lib.ECrash, panicVal: r}
			if e, ok := r.(error); ok && cerrors.IsInternalError(e) {
				out.cls = lib.EInternal
			}
		}
	}()
	b, err := m.Encode(v)
	return b, outcome{cls: classifyCCFErr(err), err: err}
}

func ccfDecode(m ccf.DecMode, b []byte) (v cadence.Value, out outcome) {
	defer func() {
		if r := recover(); r != nil {
			out = outcome{cls: lib.ECrash, panicVal: r}
			v = nil
		}
	}()
	v, err := m.Decode(nil, b)
	return v, outcome{cls: classifyCCFErr(err), err: err}
}

// ---------------------------------------------------------------- comparison of values (Go oracle)

func sortedFields(fs []XField) []XField {
	out := append([]XField(nil), fs...)
	sort.SliceStable(out, func(i, j int) bool { return out[i].Name < out[j].Name })
	return out
}

// canon: rendering of values and types that is independent of pointer sharing and of what CCF
// canonicalises.  Nominal types are printed by ID in the main string; their definitions are collected
// once per ID in side tables: vdefs for static types attached to values (kind and fields: all a CCF
// type definition carries; interfaces: kind only), tdefs for types embedded in type values / function
// values (kind, raw/base type, fields, initializers).  Fields are sorted by name, intersection
// members and entitlements are sorted, dictionary entries are sorted.
type canon struct {
	vdefs, tdefs map[string]string
}

func newCanon() *canon { return &canon{vdefs: map[string]string{}, tdefs: map[string]string{}} }

func (c *canon) ty(t *XTy, embedded bool) string {
	switch t.K {
	case "Reference":
		a := *t.Auth
		ids := append([]string(nil), a.IDs...)
		sort.Strings(ids)
		a.IDs = ids
		return "(ref " + a.Coq() + " " + c.ty(t.A, embedded) + ")"
	case "Intersection":
		parts := make([]string, len(t.Ts))
		for i, x := range t.Ts {
			parts[i] = c.ty(x, embedded)
		}
		sort.Strings(parts)
		return "(inter " + strings.Join(parts, " ") + ")"
	case "Function":
		s := fmt.Sprintf("(fun %v", t.View)
		for _, tp := range t.TPs {
			s += " <" + tp.Name + ":" + c.ty(tp.T, embedded) + ">"
		}
		for _, p := range t.Ps {
			s += " (" + p.Label + "," + p.ID + "," + c.ty(p.T, embedded) + ")"
		}
		return s + " -> " + c.ty(t.A, embedded) + ")"
	case "Composite":
		defs := c.vdefs
		if embedded {
			defs = c.tdefs
		}
		if _, done := defs[t.Name]; !done {
			defs[t.Name] = "..." // cycle guard
			d := t.CK
			if embedded {
				d += " extra=" + c.ty(t.A, embedded)
				for _, in := range t.Inits {
					d += " init["
					for _, p := range in {
						d += "(" + p.Label + "," + p.ID + "," + c.ty(p.T, embedded) + ")"
					}
					d += "]"
				}
			}
			if embedded || !strings.HasSuffix(t.CK, "Interface") {
				for _, f := range sortedFields(t.Fields) {
					d += " " + f.Name + ":" + c.ty(f.T, embedded)
				}
			} else {
				// a CCF type definition of an interface carries no fields: they are not part of the
				// definition, but a composite type whose first occurrence (full node) is inside them
				// still has to be collected (later occurrences are back references)
				for _, f := range t.Fields {
					c.ty(f.T, embedded)
				}
				for _, in := range t.Inits {
					for _, p := range in {
						c.ty(p.T, embedded)
					}
				}
			}
			if !embedded {
				// same for what the definition does not carry: raw/base type and initializers
				c.ty(t.A, embedded)
				for _, in := range t.Inits {
					for _, p := range in {
						c.ty(p.T, embedded)
					}
				}
			}
			defs[t.Name] = d
		}
		return "(nom " + t.Name + ")"
	case "Ref":
		return "(nom " + t.Name + ")"
	case "Nil", "Simple":
		return t.Coq()
	case "Dict":
		return "(dict " + c.ty(t.A, embedded) + " " + c.ty(t.B, embedded) + ")"
	case "ConstArray":
		return fmt.Sprintf("(carr %d %s)", t.N, c.ty(t.A, embedded))
	default:
		return "(" + t.K + " " + c.ty(t.A, embedded) + ")"
	}
}

func (c *canon) val(v *XVal) string {
	switch v.K {
	case "Optional":
		if v.Inner == nil {
			return "nil"
		}
		return "(some " + c.val(v.Inner) + ")"
	case "Array":
		parts := make([]string, len(v.L))
		for i, e := range v.L {
			parts[i] = c.val(e)
		}
		return "(array " + c.ty(v.T, false) + " [" + strings.Join(parts, ";") + "])"
	case "Dict":
		parts := make([]string, len(v.Pairs))
		for i, p := range v.Pairs {
			parts[i] = c.val(p[0]) + "=>" + c.val(p[1])
		}
		sort.Strings(parts)
		return "(dict " + c.ty(v.T, false) + " {" + strings.Join(parts, ";") + "})"
	case "Range":
		return "(range " + c.ty(v.T, false) + " " + c.val(v.Inner) + " " + c.val(v.A2) + " " + c.val(v.A3) + ")"
	case "Composite":
		// the type of the value, as a definition
		c.ty(&XTy{K: "Composite", CK: v.CK, Name: v.TID, A: v.Extra, Fields: v.FTys, Inits: v.Inits}, false)
		type fv struct{ n, v string }
		var fs []fv
		for i, f := range v.L {
			name := ""
			if i < len(v.FTys) {
				name = v.FTys[i].Name
			}
			fs = append(fs, fv{name, c.val(f)})
		}
		sort.SliceStable(fs, func(i, j int) bool { return fs[i].n < fs[j].n })
		s := "(composite " + v.CK + " " + v.TID
		for _, f := range fs {
			s += " " + f.n + "=" + f.v
		}
		return s + ")"
	case "Type":
		return "(type " + c.ty(v.T, true) + ")"
	case "Func":
		return "(func " + c.ty(v.T, true) + ")"
	case "Cap":
		return "(cap " + v.Z.String() + " " + v.Addr.String() + " " + c.ty(v.T, false) + ")"
	}
	return v.Coq()
}

// compareCanon: "" when the decoded value equals the original.
func compareCanon(orig, dec *XVal) string {
	co, cd := newCanon(), newCanon()
	so, sd := co.val(orig), cd.val(dec)
	if so != sd {
		return "values differ: decoded " + trunc(sd, 1500) + " / original " + trunc(so, 1500)
	}
	for id, d := range cd.vdefs {
		if o, ok := co.vdefs[id]; !ok || o != d {
			return fmt.Sprintf("definition of type %s differs: decoded %q / original %q", id, trunc(d, 800), trunc(o, 800))
		}
	}
	for id, d := range cd.tdefs {
		if o, ok := co.tdefs[id]; !ok || o != d {
			return fmt.Sprintf("definition of embedded type %s differs: decoded %q / original %q", id, trunc(d, 800), trunc(o, 800))
		}
	}
	if len(cd.tdefs) != len(co.tdefs) {
		return "embedded type definitions differ in number"
	}
	return ""
}

type c42run struct {
	sum      *lib.Summary
	cw       *lib.CaseWriter
	rng      *lib.Rng
	distinct map[string]bool
	// number of cases sent to the Coq model (bounded in the thorough tier; the Go oracle sees all)
	modelCases, modelLimit int
}

func (c *c42run) fail(key, what string, replay map[string]any) {
	c.sum.Fail(key, what, replay)
}

func hex(b []byte) string { return fmt.Sprintf("%x", b) }

// typeHasIntersection: does any static type of the value mention an intersection type
// (cadence's IntersectionType.Equal compares members by pointer)?
func valueMentionsIntersection(x *XVal) bool {
	return strings.Contains(x.Coq(), "TIntersection [(") || strings.Contains(x.Coq(), "TIntersection [T")
}

// roundTrip: the property on one value, in default and in deterministic/strict mode.
func (c *c42run) roundTrip(v cadence.Value, origin string, findingKey string, mutate bool) {
	c.sum.Evaluations++
	c.sum.Count("value:" + origin)
	xv := convVal(v, OrderJSONEnc)
	if !xv.Supported() {
		c.sum.Count("skipped:unsupported")
		return
	}
	key := xv.Coq()
	if !c.distinct[key] {
		c.distinct[key] = true
		if len(key) > 40 {
			c.sum.DistinctNontrivial++
		}
	}
	replay := func(extra map[string]any) map[string]any {
		extra["value"] = trunc(key, 4000)
		extra["origin"] = origin
		return extra
	}
	k := func(def string) string {
		if findingKey != "" {
			return findingKey
		}
		return def
	}
	type mode struct {
		name string
		enc  ccf.EncMode
		dec  ccf.DecMode
	}
	var detBytes []byte
	for _, m := range []mode{{"default", defEnc, lenientDec}, {"deterministic", detEnc, strictDec}} {
		b, eo := ccfEncode(m.enc, v)
		if eo.cls == lib.ECrash || eo.cls == lib.EInternal {
			c.fail(k("ccf-encode-panic:"+origin), fmt.Sprintf("ccf Encode (%s) panics / internal error: %v %v", m.name, eo.panicVal, eo.err), replay(map[string]any{"mode": m.name}))
			return
		}
		if eo.cls != "" {
			c.sum.Count("encode-error:" + m.name)
			c.fail(k("ccf-encode-error:"+origin), fmt.Sprintf("ccf Encode (%s) fails on a value with complete type information: %v", m.name, eo.err), replay(map[string]any{"mode": m.name}))
			return
		}
		if m.name == "deterministic" {
			detBytes = b
		}
		c.sum.Sample(map[string]string{"value": trunc(key, 160), "ccf_" + m.name: trunc(hex(b), 160)})
		// encoder output is canonical CBOR (definite lengths, shortest heads)
		tree, perr := parseCBOR(b)
		if perr != nil || !tree.AllMinimal() || !bytes.Equal(tree.Bytes(), b) {
			c.fail(k("ccf-not-canonical-cbor"), fmt.Sprintf("ccf Encode (%s) output is not canonical CBOR: %v", m.name, perr), replay(map[string]any{"bytes": hex(b)}))
		}
		decs := []struct {
			n string
			d ccf.DecMode
		}{{"lenient", lenientDec}}
		if m.name == "deterministic" {
			decs = append(decs, struct {
				n string
				d ccf.DecMode
			}{"strict", strictDec})
		}
		for _, dm := range decs {
			d, do := ccfDecode(dm.d, b)
			c.sum.Evaluations++
			c.sum.Count("decode:" + m.name + "/" + dm.n)
			if do.cls == lib.ECrash {
				c.fail(k("ccf-decode-panic:"+panicClass(do.panicVal)), fmt.Sprintf("ccf Decode (%s decoder) panics on the %s encoding: %v", dm.n, m.name, do.panicVal), replay(map[string]any{"bytes": hex(b)}))
				continue
			}
			if do.cls != "" {
				what := fmt.Sprintf("decoding the %s CCF encoding of a value fails: %v", m.name, do.err)
				if dm.n == "strict" {
					what = fmt.Sprintf("the strict decoder rejects the %s CCF encoding of a value: %v", m.name, do.err)
				}
				c.fail(k("ccf-roundtrip:"+origin), what, replay(map[string]any{"bytes": hex(b), "mode": m.name, "decoder": dm.n}))
				continue
			}
			xd := convVal(d, OrderJSONEnc)
			if !xd.Supported() {
				continue
			}
			if m.name == "default" && perr == nil {
				c.decModelCase(d, tree, origin)
			}
			if diff := compareCanon(xv, xd); diff != "" {
				c.fail(k("ccf-roundtrip:"+origin), fmt.Sprintf("value decoded from its %s CCF encoding (%s decoder) differs from the original: %s", m.name, dm.n, trunc(diff, 600)),
					replay(map[string]any{"bytes": hex(b), "difference": diff}))
				continue
			}
			// type of the decoded value: same ID, Equal
			ta, tb := v.Type(), d.Type()
			if !isNilType(ta) && !isNilType(tb) {
				ida, idb := safeID(ta), safeID(tb)
				if ida != idb {
					c.fail(k("ccf-type-id:"+origin), fmt.Sprintf("type ID of the decoded value %q differs from %q", idb, ida), replay(map[string]any{"bytes": hex(b)}))
				}
				if !safeEqual(ta, tb) || !safeEqual(tb, ta) {
					kk := "ccf-type-equal:" + origin
					if strings.Contains(freshTy(ta, OrderJSONEnc).Coq(), "TIntersection [(") {
						kk = "ccf-type-equal:intersection"
					}
					c.fail(k(kk), fmt.Sprintf("type %s of the decoded value is not Equal to the original type", ida), replay(map[string]any{"bytes": hex(b)}))
				}
			}
			// re-encoding gives the same bytes
			b2, eo2 := ccfEncode(m.enc, d)
			if eo2.cls != "" || !bytes.Equal(b, b2) {
				c.fail(k("ccf-reencode:"+origin), fmt.Sprintf("decoded value does not re-encode (%s) to the same bytes (%v)", m.name, eo2.err), replay(map[string]any{"bytes": hex(b), "reencoded": hex(b2)}))
			}
		}
		if perr == nil {
			c.modelCase(v, m.name == "deterministic", b, tree, origin)
		}
		if m.name == "default" {
			c.strictOnDefault(v, b, tree, replay, k)
		}
		if mutate {
			c.mutations(b, tree, origin)
		}
	}
	// canonical: permuting dictionary entries, intersection members and entitlements does not change
	// the deterministic encoding
	for i := 0; i < 2; i++ {
		pv := (&permuter{r: c.rng, types: map[cadence.Type]cadence.Type{}}).value(v)
		pb, po := ccfEncode(detEnc, pv)
		c.sum.Evaluations++
		c.sum.Count("permutation")
		if po.cls != "" || !bytes.Equal(pb, detBytes) {
			c.fail(k("ccf-not-canonical:"+origin), fmt.Sprintf("deterministic CCF encoding depends on the order of dictionary entries / intersection types / entitlements (%v)", po.err),
				replay(map[string]any{"permuted": trunc(convVal(pv, OrderJSONEnc).safeCoq(), 3000), "bytes": hex(detBytes), "permuted_bytes": hex(pb)}))
		}
	}
}

// ---------------------------------------------------------------- strict decoder on default-mode encodings

func lenLexLess(a, b string) bool { return len(a) < len(b) || (len(a) == len(b) && a < b) }

// unsortedInTree inspects a CCF message for composite field lists (type definitions and composite
// type values) and entitlement sets that are not in strictly increasing length-then-lexical order.
func unsortedInTree(t *CNode) (found bool, what string) {
	var walk func(n *CNode)
	checkNames := func(fields *CNode, where string) {
		if fields.K != CArr {
			return
		}
		prev := ""
		for _, f := range fields.Items {
			if f.K != CArr || len(f.Items) != 2 || f.Items[0].K != CText {
				return
			}
			name := string(f.Items[0].B)
			if !lenLexLess(prev, name) {
				found, what = true, fmt.Sprintf("%s field %q after %q", where, name, prev)
			}
			prev = name
		}
	}
	walk = func(n *CNode) {
		if n.K == CTag && len(n.Items) == 1 {
			body := n.Items[0]
			switch {
			case n.N >= 160 && n.N <= 165 && body.K == CArr && len(body.Items) == 3:
				checkNames(body.Items[2], "type definition")
			case n.N >= 208 && n.N <= 226 && body.K == CArr && len(body.Items) == 5:
				checkNames(body.Items[3], "composite type value")
			case (n.N == 146 || n.N == 194) && body.K == CArr && len(body.Items) == 2 && body.Items[1].K == CArr:
				prev := ""
				for _, e := range body.Items[1].Items {
					if e.K != CText {
						return
					}
					if !lenLexLess(prev, string(e.B)) {
						found, what = true, fmt.Sprintf("entitlement %q after %q", e.B, prev)
					}
					prev = string(e.B)
				}
			}
		}
		for _, c := range n.Items {
			walk(c)
		}
	}
	walk(t)
	return
}

func (c *c42run) strictOnDefault(v cadence.Value, b []byte, tree *CNode, replay func(map[string]any) map[string]any, k func(string) string) {
	_, so := ccfDecode(strictDec, b)
	c.sum.Evaluations++
	if so.cls == lib.ECrash {
		c.fail(k("ccf-decode-panic:"+panicClass(so.panicVal)), fmt.Sprintf("strict ccf Decode panics: %v", so.panicVal), replay(map[string]any{"bytes": hex(b)}))
		return
	}
	if tree == nil {
		return
	}
	if uns, what := unsortedInTree(tree); uns {
		c.sum.Count("strict-on-unsorted")
		if so.cls == "" {
			c.fail(k("ccf-strict-accepts-unsorted"), "the strict decoder accepts an encoding with unsorted entries: "+what, replay(map[string]any{"bytes": hex(b), "unsorted": what}))
		}
	} else if allSortedValue(v) {
		c.sum.Count("strict-on-sorted")
		if so.cls != "" {
			c.fail(k("ccf-strict-rejects-sorted"), fmt.Sprintf("the strict decoder rejects an encoding whose fields, intersection types and entitlements are sorted: %v", so.err), replay(map[string]any{"bytes": hex(b)}))
		}
	}
}

// allSortedValue: conservative: every composite/interface type, intersection type and entitlement set
// reachable from the value has its members in length-then-lexical order.
func allSortedValue(v cadence.Value) bool {
	ok := true
	seen := map[cadence.Type]bool{}
	var ty func(t cadence.Type)
	ty = func(t cadence.Type) {
		if isNilType(t) || !ok {
			return
		}
		switch t := t.(type) {
		case *cadence.OptionalType:
			ty(t.Type)
		case *cadence.VariableSizedArrayType:
			ty(t.ElementType)
		case *cadence.ConstantSizedArrayType:
			ty(t.ElementType)
		case *cadence.DictionaryType:
			ty(t.KeyType)
			ty(t.ElementType)
		case *cadence.InclusiveRangeType:
			ty(t.ElementType)
		case *cadence.CapabilityType:
			ty(t.BorrowType)
		case *cadence.ReferenceType:
			if a, isSet := t.Authorization.(*cadence.EntitlementSetAuthorization); isSet {
				prev := ""
				for _, e := range a.Entitlements {
					if !lenLexLess(prev, string(e)) {
						ok = false
					}
					prev = string(e)
				}
			}
			ty(t.Type)
		case *cadence.IntersectionType:
			prev := ""
			for _, m := range t.Types {
				if !lenLexLess(prev, m.ID()) {
					ok = false
				}
				prev = m.ID()
				ty(m)
			}
		case *cadence.FunctionType:
			for _, tp := range t.TypeParameters {
				ty(tp.TypeBound)
			}
			for _, p := range t.Parameters {
				ty(p.Type)
			}
			ty(t.ReturnType)
		default:
			if compositeKindName(t) == "" || seen[t] {
				return
			}
			seen[t] = true
			prev := ""
			for _, f := range typeFields(t) {
				if !lenLexLess(prev, f.Identifier) {
					ok = false
				}
				prev = f.Identifier
				ty(f.Type)
			}
			for _, in := range typeInits(t) {
				for _, p := range in {
					ty(p.Type)
				}
			}
			switch t := t.(type) {
			case *cadence.EnumType:
				ty(t.RawType)
			case *cadence.AttachmentType:
				ty(t.BaseType)
			}
		}
	}
	var val func(v cadence.Value)
	val = func(v cadence.Value) {
		if v == nil || !ok {
			return
		}
		ty(v.Type())
		switch v := v.(type) {
		case cadence.Optional:
			val(v.Value)
		case cadence.Array:
			for _, e := range v.Values {
				val(e)
			}
		case cadence.Dictionary:
			for _, p := range v.Pairs {
				val(p.Key)
				val(p.Value)
			}
		case *cadence.InclusiveRange:
			val(v.Start)
		case cadence.TypeValue:
			ty(v.StaticType)
		case cadence.Function:
			ty(v.FunctionType)
		case cadence.Composite:
			for _, f := range compositeFieldValues(v) {
				val(f)
			}
		}
	}
	val(v)
	return ok
}

// ---------------------------------------------------------------- permutations

type permuter struct {
	r     *lib.Rng
	types map[cadence.Type]cadence.Type
}

func (p *permuter) shuffle(n int, swap func(i, j int)) {
	for i := n - 1; i > 0; i-- {
		swap(i, p.r.Intn(i+1))
	}
}

func (p *permuter) params(ps []cadence.Parameter) []cadence.Parameter {
	if ps == nil {
		return nil
	}
	out := make([]cadence.Parameter, len(ps))
	for i, x := range ps {
		out[i] = cadence.Parameter{Label: x.Label, Identifier: x.Identifier, Type: p.ty(x.Type)}
	}
	return out
}

// ty: deep copy with the members of intersection types and entitlement sets shuffled.
func (p *permuter) ty(t cadence.Type) cadence.Type {
	if isNilType(t) {
		return t
	}
	switch t := t.(type) {
	case *cadence.OptionalType:
		return cadence.NewOptionalType(p.ty(t.Type))
	case *cadence.VariableSizedArrayType:
		return cadence.NewVariableSizedArrayType(p.ty(t.ElementType))
	case *cadence.ConstantSizedArrayType:
		return cadence.NewConstantSizedArrayType(t.Size, p.ty(t.ElementType))
	case *cadence.DictionaryType:
		return cadence.NewDictionaryType(p.ty(t.KeyType), p.ty(t.ElementType))
	case *cadence.InclusiveRangeType:
		return cadence.NewInclusiveRangeType(p.ty(t.ElementType))
	case *cadence.CapabilityType:
		return cadence.NewCapabilityType(p.ty(t.BorrowType))
	case *cadence.ReferenceType:
		auth := t.Authorization
		if a, ok := auth.(*cadence.EntitlementSetAuthorization); ok {
			ids := append([]common.TypeID(nil), a.Entitlements...)
			p.shuffle(len(ids), func(i, j int) { ids[i], ids[j] = ids[j], ids[i] })
			auth = cadence.NewEntitlementSetAuthorization(nil, ids, a.Kind)
		}
		return cadence.NewReferenceType(auth, p.ty(t.Type))
	case *cadence.IntersectionType:
		ts := make([]cadence.Type, len(t.Types))
		for i, x := range t.Types {
			ts[i] = p.ty(x)
		}
		p.shuffle(len(ts), func(i, j int) { ts[i], ts[j] = ts[j], ts[i] })
		return cadence.NewIntersectionType(ts)
	case *cadence.FunctionType:
		var tps []cadence.TypeParameter
		for _, tp := range t.TypeParameters {
			tps = append(tps, cadence.TypeParameter{Name: tp.Name, TypeBound: p.ty(tp.TypeBound)})
		}
		return cadence.NewFunctionType(t.Purity, tps, p.params(t.Parameters), p.ty(t.ReturnType))
	}
	if compositeKindName(t) == "" {
		return t
	}
	if c, ok := p.types[t]; ok {
		return c
	}
	old := typeFields(t)
	fields := make([]cadence.Field, len(old))
	var nt cadence.Type
	inits := func(in [][]cadence.Parameter) [][]cadence.Parameter {
		if in == nil {
			return nil
		}
		out := make([][]cadence.Parameter, len(in))
		for i, x := range in {
			out[i] = p.params(x)
		}
		return out
	}
	switch t := t.(type) {
	case *cadence.StructType:
		n := cadence.NewStructType(t.Location, t.QualifiedIdentifier, fields, nil)
		nt = n
		p.types[t] = nt
		n.Initializers = inits(t.Initializers)
	case *cadence.ResourceType:
		n := cadence.NewResourceType(t.Location, t.QualifiedIdentifier, fields, nil)
		nt = n
		p.types[t] = nt
		n.Initializers = inits(t.Initializers)
	case *cadence.EventType:
		n := cadence.NewEventType(t.Location, t.QualifiedIdentifier, fields, nil)
		nt = n
		p.types[t] = nt
		n.Initializer = p.params(t.Initializer)
	case *cadence.ContractType:
		n := cadence.NewContractType(t.Location, t.QualifiedIdentifier, fields, nil)
		nt = n
		p.types[t] = nt
		n.Initializers = inits(t.Initializers)
	case *cadence.EnumType:
		n := cadence.NewEnumType(t.Location, t.QualifiedIdentifier, nil, fields, nil)
		nt = n
		p.types[t] = nt
		n.RawType = p.ty(t.RawType)
		n.Initializers = inits(t.Initializers)
	case *cadence.AttachmentType:
		n := cadence.NewAttachmentType(t.Location, t.QualifiedIdentifier, nil, fields, nil)
		nt = n
		p.types[t] = nt
		n.BaseType = p.ty(t.BaseType)
		n.Initializers = inits(t.Initializers)
	case *cadence.StructInterfaceType:
		n := cadence.NewStructInterfaceType(t.Location, t.QualifiedIdentifier, fields, nil)
		nt = n
		p.types[t] = nt
		n.Initializers = inits(t.Initializers)
	case *cadence.ResourceInterfaceType:
		n := cadence.NewResourceInterfaceType(t.Location, t.QualifiedIdentifier, fields, nil)
		nt = n
		p.types[t] = nt
		n.Initializers = inits(t.Initializers)
	case *cadence.ContractInterfaceType:
		n := cadence.NewContractInterfaceType(t.Location, t.QualifiedIdentifier, fields, nil)
		nt = n
		p.types[t] = nt
		n.Initializers = inits(t.Initializers)
	}
	for i, f := range old {
		fields[i] = cadence.Field{Identifier: f.Identifier, Type: p.ty(f.Type)}
	}
	return nt
}

// value: deep copy with dictionary entries shuffled and all types through ty.
func (p *permuter) value(v cadence.Value) cadence.Value {
	switch v := v.(type) {
	case cadence.Optional:
		if v.Value == nil {
			return v
		}
		return cadence.NewOptional(p.value(v.Value))
	case cadence.Array:
		vs := make([]cadence.Value, len(v.Values))
		for i, e := range v.Values {
			vs[i] = p.value(e)
		}
		return cadence.NewArray(vs).WithType(p.ty(v.ArrayType).(cadence.ArrayType))
	case cadence.Dictionary:
		ps := make([]cadence.KeyValuePair, len(v.Pairs))
		for i, e := range v.Pairs {
			ps[i] = cadence.KeyValuePair{Key: p.value(e.Key), Value: p.value(e.Value)}
		}
		p.shuffle(len(ps), func(i, j int) { ps[i], ps[j] = ps[j], ps[i] })
		return cadence.NewDictionary(ps).WithType(p.ty(v.DictionaryType).(*cadence.DictionaryType))
	case *cadence.InclusiveRange:
		return cadence.NewInclusiveRange(v.Start, v.End, v.Step).WithType(p.ty(v.InclusiveRangeType).(*cadence.InclusiveRangeType))
	case cadence.TypeValue:
		return cadence.NewTypeValue(p.ty(v.StaticType))
	case cadence.Capability:
		return cadence.NewCapability(v.ID, v.Address, p.ty(v.BorrowType))
	case cadence.Function:
		return cadence.NewFunction(p.ty(v.FunctionType).(*cadence.FunctionType))
	case cadence.Struct:
		return cadence.NewStruct(p.values(compositeFieldValues(v))).WithType(p.ty(v.StructType).(*cadence.StructType))
	case cadence.Resource:
		return cadence.NewResource(p.values(compositeFieldValues(v))).WithType(p.ty(v.ResourceType).(*cadence.ResourceType))
	case cadence.Event:
		return cadence.NewEvent(p.values(compositeFieldValues(v))).WithType(p.ty(v.EventType).(*cadence.EventType))
	case cadence.Contract:
		return cadence.NewContract(p.values(compositeFieldValues(v))).WithType(p.ty(v.ContractType).(*cadence.ContractType))
	case cadence.Enum:
		return cadence.NewEnum(p.values(compositeFieldValues(v))).WithType(p.ty(v.EnumType).(*cadence.EnumType))
	}
	return v
}

func (p *permuter) values(vs []cadence.Value) []cadence.Value {
	out := make([]cadence.Value, len(vs))
	for i, v := range vs {
		out[i] = p.value(v)
	}
	return out
}

// ---------------------------------------------------------------- mutations (CBOR level and byte level)

func (c *c42run) decodeMutant(b []byte, origin string) {
	for _, dm := range []struct {
		n string
		d ccf.DecMode
	}{{"lenient", lenientDec}, {"strict", strictDec}} {
		_, out := ccfDecode(dm.d, b)
		c.sum.Evaluations++
		c.sum.Count("mutant:" + origin)
		switch out.cls {
		case "":
			c.sum.Count("mutant-result:value")
		case lib.ECrash:
			c.sum.Count("mutant-result:panic")
			c.fail("ccf-decode-panic:"+panicClass(out.panicVal), fmt.Sprintf("ccf Decode (%s) panics (%T: %v) on %s", dm.n, out.panicVal, trunc(fmt.Sprint(out.panicVal), 300), trunc(hex(b), 400)),
				map[string]any{"input_hex": hex(b), "origin": origin, "decoder": dm.n, "panic": trunc(fmt.Sprint(out.panicVal), 1000), "required": "value or error"})
			return
		default:
			c.sum.Count("mutant-result:error")
		}
	}
}

func (c *c42run) mutations(b []byte, tree *CNode, origin string) {
	r := c.rng
	nTree, nByte := 3, 2
	if thorough() {
		nTree, nByte = 10, 6
	}
	if tree != nil {
		for i := 0; i < nTree; i++ {
			m := tree.Clone()
			nodes := m.Nodes()
			what := ""
			n := nodes[r.Intn(len(nodes))]
			switch r.Intn(12) {
			case 0: // change a tag number
				what = "tag"
				var tags []*CNode
				for _, x := range nodes {
					if x.K == CTag {
						tags = append(tags, x)
					}
				}
				if len(tags) > 0 {
					t := tags[r.Intn(len(tags))]
					t.N = lib.Pick(r, []uint64{128, 129, 130, 136, 137, 138, 139, 140, 141, 142, 143, 144, 145, 146, 147, 160, 161, 162, 163, 164, 165, 176, 177, 178,
						184, 185, 186, 187, 188, 189, 190, 191, 192, 193, 194, 195, 208, 209, 210, 211, 212, 213, 224, 225, 226, 2, 3, 0, 255, 1 << 40})
				}
			case 1: // change an integer
				what = "int"
				if n.K == CUint || n.K == CNint {
					n.N = lib.Pick(r, []uint64{0, 1, 23, 24, 127, 128, 255, 256, 65535, 65536, 1<<31 - 1, 1 << 31, 1<<32 - 1, 1 << 32, 1<<63 - 1, 1 << 63, 1<<64 - 1})
					if r.Bool() {
						n.K = lib.Pick(r, []CKind{CUint, CNint})
					}
				} else {
					*n = CNode{K: CUint, N: uint64(r.Intn(300))}
				}
			case 2: // replace by nil / bool / other simple
				what = "simple"
				*n = CNode{K: CSimple, N: lib.Pick(r, []uint64{20, 21, 22, 23, 0, 255})}
			case 3: // drop an array element
				what = "drop-element"
				if n.K == CArr && len(n.Items) > 0 {
					i := r.Intn(len(n.Items))
					n.Items = append(n.Items[:i:i], n.Items[i+1:]...)
				}
			case 4: // duplicate an array element
				what = "dup-element"
				if n.K == CArr && len(n.Items) > 0 {
					n.Items = append(n.Items, n.Items[r.Intn(len(n.Items))].Clone())
				}
			case 5: // swap two array elements
				what = "swap-elements"
				if n.K == CArr && len(n.Items) > 1 {
					i, j := r.Intn(len(n.Items)), r.Intn(len(n.Items))
					n.Items[i], n.Items[j] = n.Items[j], n.Items[i]
				}
			case 6: // graft another subtree
				what = "graft"
				*n = *nodes[r.Intn(len(nodes))].Clone()
			case 7: // byte string content (ccf type ids, addresses, bignums)
				what = "bytes"
				if n.K == CBytes {
					n.B = lib.Pick(r, [][]byte{{}, {0}, {1}, {0xff}, {0, 1}, {1, 0, 0, 0, 0, 0, 0, 0, 0}, {0xff, 0xff, 0xff, 0xff, 0xff, 0xff, 0xff, 0xff}, bytes.Repeat([]byte{0xff}, 33)})
				} else {
					*n = CNode{K: CBytes, B: []byte{byte(r.Intn(4))}}
				}
			case 8: // text content (type ids, field names, strings)
				what = "text"
				if n.K == CText {
					n.B = []byte(lib.Pick(r, append(append([]string{}, idStrings...), "", "a", "\xff", "ab", "é")))
				} else {
					*n = CNode{K: CText, B: []byte("x")}
				}
			case 9: // wrap in a tag / array
				what = "wrap"
				inner := n.Clone()
				if r.Bool() {
					*n = CNode{K: CTag, N: lib.Pick(r, []uint64{130, 136, 137, 138, 2, 3}), Items: []*CNode{inner}}
				} else {
					*n = CNode{K: CArr, Items: []*CNode{inner}}
				}
			case 10: // array to map and back
				what = "array-kind"
				if n.K == CArr && len(n.Items)%2 == 0 {
					n.K = CMap
				}
			default: // empty the array
				what = "empty"
				if n.K == CArr {
					n.Items = nil
				}
			}
			c.decodeMutant(m.Bytes(), "cbor:"+what)
		}
	}
	for i := 0; i < nByte; i++ {
		mb := append([]byte(nil), b...)
		what := ""
		switch r.Intn(6) {
		case 0:
			mb = mb[:r.Intn(len(mb)+1)]
			what = "truncate"
		case 1:
			mb[r.Intn(len(mb))] = byte(r.Intn(256))
			what = "byte-set"
		case 2:
			i := r.Intn(len(mb))
			mb = append(mb[:i:i], mb[i+1:]...)
			what = "byte-delete"
		case 3:
			i := r.Intn(len(mb) + 1)
			ins := lib.Pick(r, [][]byte{{0xff}, {0x9f}, {0xbf}, {0x5f}, {0x7f}, {0x1b, 0xff, 0xff, 0xff, 0xff, 0xff, 0xff, 0xff, 0xff}, {0x9b, 0xff, 0xff, 0xff, 0xff, 0xff, 0xff, 0xff, 0xff},
				{0x5b, 0x7f, 0xff, 0xff, 0xff, 0xff, 0xff, 0xff, 0xff}, {0xd8, 0x82}, {0xf6}, {0xc2, 0x40}, {0xfb, 0, 0, 0, 0, 0, 0, 0, 0}, {0x18, 0x00}})
			mb = append(mb[:i:i], append(append([]byte(nil), ins...), mb[i:]...)...)
			what = "insert"
		case 4:
			mb[r.Intn(len(mb))] ^= 1 << uint(r.Intn(8))
			what = "bit-flip"
		default:
			mb = append(mb, byte(r.Intn(256)))
			what = "append"
		}
		c.decodeMutant(mb, "bytes:"+what)
	}
}

// ---------------------------------------------------------------- corpus and entry point

var ccfSimpleOK = map[cadence.Type]bool{}

func initCCFTables() {
	var ok []cadence.Type
	for _, t := range allPrimitiveTypes {
		b, out := ccfEncode(defEnc, cadence.NewTypeValue(t))
		if out.cls == "" && len(b) > 0 {
			ccfSimpleOK[t] = true
			ok = append(ok, t)
		}
	}
	allPrimitiveTypesCCF = ok
}

var allPrimitiveTypesCCF []cadence.Type

// expectReject: both decoders (or only the strict one) must reject the bytes without panicking.
func (c *c42run) expectReject(b []byte, what string, strictOnly bool, key string) {
	c.sum.Evaluations++
	c.sum.Count("crafted:" + what)
	_, so := ccfDecode(strictDec, b)
	_, lo := ccfDecode(lenientDec, b)
	if so.cls == lib.ECrash || lo.cls == lib.ECrash {
		c.fail("ccf-decode-panic:"+panicClass(so.panicVal), "ccf Decode panics on crafted input: "+what, map[string]any{"input_hex": hex(b), "case": what})
		return
	}
	if so.cls == "" {
		c.fail(key, "the strict decoder accepts an encoding with "+what, map[string]any{"input_hex": hex(b), "case": what, "required": "rejected by the strict decoder"})
	}
	if strictOnly && lo.cls != "" {
		c.fail("ccf-lenient-rejects:"+what, fmt.Sprintf("the lenient decoder rejects a valid encoding with %s: %v", what, lo.err), map[string]any{"input_hex": hex(b), "case": what})
	}
	if !strictOnly && lo.cls == "" {
		c.fail(key, "the decoder (no sort enforcement options) accepts an encoding with "+what, map[string]any{"input_hex": hex(b), "case": what, "required": "rejected: the order is mandatory in every mode"})
	}
}

func (c *c42run) corpus() {
	loc := common.StringLocation("test")
	// boundary numbers of every numeric kind, simple types as type values
	for _, t := range numericTypes {
		for _, z := range boundaryNumbers(t.ID()) {
			c.roundTrip(makeNumber(t.ID(), z), "corpus:number", "", false)
		}
	}
	for _, t := range allPrimitiveTypesCCF {
		c.roundTrip(cadence.NewTypeValue(t), "corpus:simple-type", "", false)
	}
	i1 := cadence.NewStructInterfaceType(loc, "I1", nil, nil)
	i2 := cadence.NewStructInterfaceType(loc, "I", nil, nil)
	// unsorted fields: {b, a} (lexical), {aa, b} (length first)
	for _, names := range [][]string{{"b", "a"}, {"aa", "b"}, {"a", "a1", "b"}} {
		st := cadence.NewStructType(loc, "S", nil, nil)
		fs := make([]cadence.Field, len(names))
		vs := make([]cadence.Value, len(names))
		for i, n := range names {
			fs[i] = cadence.Field{Identifier: n, Type: cadence.IntType}
			vs[i] = cadence.NewInt(i)
		}
		st = cadence.NewStructType(loc, "S", fs, nil)
		v := cadence.NewStruct(vs).WithType(st)
		c.roundTrip(v, "corpus:fields", "", true)
		b, _ := ccfEncode(defEnc, v)
		c.expectReject(b, "unsorted composite fields "+strings.Join(names, ","), true, "ccf-strict-accepts-unsorted")
		// the same unsorted field list inside a type value
		b, _ = ccfEncode(defEnc, cadence.NewTypeValue(st))
		c.expectReject(b, "unsorted fields in a composite type value "+strings.Join(names, ","), true, "ccf-strict-accepts-unsorted")
	}
	// unsorted intersection types: IDs S.test.I1, S.test.I (length first)
	inter := cadence.NewIntersectionType([]cadence.Type{i1, i2})
	arrInter := cadence.NewArray(nil).WithType(cadence.NewVariableSizedArrayType(inter))
	c.roundTrip(arrInter, "corpus:intersection", "ccf-type-equal:intersection", true)
	b, _ := ccfEncode(defEnc, arrInter)
	c.expectReject(b, "unsorted intersection types", true, "ccf-strict-accepts-unsorted")
	b, _ = ccfEncode(defEnc, cadence.NewTypeValue(inter))
	c.expectReject(b, "unsorted intersection types in a type value", true, "ccf-strict-accepts-unsorted")
	// unsorted entitlements
	ref := cadence.NewReferenceType(cadence.NewEntitlementSetAuthorization(nil, []common.TypeID{"S.test.F", "S.test.E"}, cadence.Conjunction), cadence.IntType)
	capv := cadence.NewCapability(1, cadence.Address{1}, ref)
	c.roundTrip(capv, "corpus:entitlements", "", true)
	b, _ = ccfEncode(defEnc, capv)
	c.expectReject(b, "unsorted entitlements", true, "ccf-strict-accepts-unsorted")
	b, _ = ccfEncode(defEnc, cadence.NewTypeValue(ref))
	c.expectReject(b, "unsorted entitlements in a type value", true, "ccf-strict-accepts-unsorted")

	// dictionaries: keys of different encoded length, swapped entries (CBOR surgery on the real encoding)
	dictT := cadence.NewDictionaryType(cadence.StringType, cadence.IntType)
	d := cadence.NewDictionary([]cadence.KeyValuePair{
		{Key: cadence.String("b"), Value: cadence.NewInt(1)}, {Key: cadence.String("aa"), Value: cadence.NewInt(2)},
		{Key: cadence.String("a"), Value: cadence.NewInt(3)}, {Key: cadence.String(""), Value: cadence.NewInt(4)},
		{Key: cadence.String("ab"), Value: cadence.NewInt(5)}}).WithType(dictT)
	c.roundTrip(d, "corpus:dictionary", "", true)
	// the dictionary of Example C42_ex_dictionary (Properties/C42.v), in both orders
	ex := func(keys []string, vals []int) cadence.Value {
		var ps []cadence.KeyValuePair
		for i, k := range keys {
			ps = append(ps, cadence.KeyValuePair{Key: cadence.String(k), Value: cadence.NewInt(vals[i])})
		}
		return cadence.NewDictionary(ps).WithType(dictT)
	}
	for _, dv := range []cadence.Value{ex([]string{"b", "aa", "a", ""}, []int{1, 2, 3, 4}), ex([]string{"", "a", "b", "aa"}, []int{4, 3, 1, 2})} {
		c.roundTrip(dv, "corpus:dictionary", "", false)
		if b, _ := ccfEncode(detEnc, dv); hex(b) != "d88282d88d82d88901d889048860c241046161c241036162c24101626161c24102" {
			c.fail("ccf-example-bytes", "the example dictionary of Properties/C42.v does not encode to the bytes stated there", map[string]any{"bytes": hex(b)})
		}
	}
	for _, dv := range []cadence.Value{d,
		cadence.NewDictionary([]cadence.KeyValuePair{{Key: cadence.NewInt(-1), Value: cadence.NewInt(1)}, {Key: cadence.NewInt(1), Value: cadence.NewInt(2)}, {Key: cadence.NewInt(256), Value: cadence.NewInt(2)}}).WithType(cadence.NewDictionaryType(cadence.IntType, cadence.IntType)),
		cadence.NewDictionary([]cadence.KeyValuePair{{Key: cadence.UInt8(1), Value: cadence.NewInt(1)}, {Key: cadence.UInt8(24), Value: cadence.NewInt(2)}, {Key: cadence.UInt8(255), Value: cadence.NewInt(2)}}).WithType(cadence.NewDictionaryType(cadence.UInt8Type, cadence.IntType)),
	} {
		c.roundTrip(dv, "corpus:dictionary", "", true)
		b, _ = ccfEncode(detEnc, dv)
		t, err := parseCBOR(b)
		if err == nil && t.K == CTag && t.Items[0].K == CArr && len(t.Items[0].Items) == 2 && t.Items[0].Items[1].K == CArr && len(t.Items[0].Items[1].Items) >= 4 {
			m := t.Clone()
			kv := m.Items[0].Items[1].Items
			kv[0], kv[2] = kv[2], kv[0]
			kv[1], kv[3] = kv[3], kv[1]
			c.expectReject(m.Bytes(), "unsorted dictionary keys", false, "ccf-accepts-unsorted-dictionary")
		} else {
			c.fail("harness-ccf-structure", "unexpected structure of a dictionary message", map[string]any{"bytes": hex(b)})
		}
	}
	// type definitions out of order (swap two definitions, keeping their CCF ids -> id/index mismatch;
	// swap and renumber -> Cadence type IDs not sorted)
	s1 := cadence.NewStructType(loc, "A", []cadence.Field{{Identifier: "x", Type: cadence.IntType}}, nil)
	s2 := cadence.NewStructType(loc, "Bb", []cadence.Field{{Identifier: "a", Type: s1}}, nil)
	v2 := cadence.NewStruct([]cadence.Value{cadence.NewStruct([]cadence.Value{cadence.NewInt(1)}).WithType(s1)}).WithType(s2)
	c.roundTrip(v2, "corpus:typedefs", "", true)
	b, _ = ccfEncode(detEnc, v2)
	if t, err := parseCBOR(b); err == nil && t.K == CTag && t.N == 129 && len(t.Items[0].Items) == 2 && len(t.Items[0].Items[0].Items) == 2 {
		m := t.Clone()
		defs := m.Items[0].Items[0].Items
		defs[0], defs[1] = defs[1], defs[0]
		c.expectReject(m.Bytes(), "type definitions swapped", false, "ccf-accepts-unsorted-typedefs")
		// renumber: ids are byte strings at index 0 of each definition body
		defs[0].Items[0].Items[0], defs[1].Items[0].Items[0] = defs[1].Items[0].Items[0], defs[0].Items[0].Items[0]
		c.expectReject(m.Bytes(), "type definitions not sorted by Cadence type ID", false, "ccf-accepts-unsorted-typedefs")
	} else {
		c.fail("harness-ccf-structure", "unexpected structure of a typedef message", map[string]any{"bytes": hex(b)})
	}
	// distinct types with the same qualified identifier at different locations, different field orders
	// and field counts, in one value (array elements, nested field, dictionary values, type values)
	c.sameNameCorpus(func(v cadence.Value, origin string) { c.roundTrip(v, origin, "", true) })
	// composites mixing abstract-typed fields with fields whose type mentions a composite type that no
	// value mentions (nil optional, empty array / dictionary), in every field order, nested
	hiddenTypeValues(func(v cadence.Value, origin string) { c.roundTrip(v, origin, "", false) })
	// recursive types, capabilities, functions, optional chains
	rf := make([]cadence.Field, 2)
	rec := cadence.NewResourceType(loc, "Node", rf, nil)
	rf[0] = cadence.Field{Identifier: "next", Type: cadence.NewOptionalType(rec)}
	rf[1] = cadence.Field{Identifier: "all", Type: cadence.NewDictionaryType(cadence.StringType, cadence.NewCapabilityType(cadence.NewReferenceType(cadence.UnauthorizedAccess, rec)))}
	node := func(next cadence.Value) cadence.Value {
		return cadence.NewResource([]cadence.Value{next, cadence.NewDictionary(nil).WithType(rf[1].Type.(*cadence.DictionaryType))}).WithType(rec)
	}
	c.roundTrip(node(cadence.NewOptional(node(cadence.NewOptional(nil)))), "corpus:recursive", "", true)
	c.roundTrip(cadence.NewTypeValue(rec), "corpus:recursive-type", "", true)
	c.roundTrip(cadence.NewOptional(cadence.NewOptional(cadence.NewOptional(nil))), "corpus:optional", "", true)
	c.roundTrip(cadence.NewArray([]cadence.Value{cadence.NewInt(1), cadence.String("x"), cadence.NewOptional(nil), capv}).WithType(cadence.NewVariableSizedArrayType(cadence.AnyStructType)), "corpus:anystruct", "", true)
	c.roundTrip(cadence.NewTypeValue(nil), "corpus:nil-type", "", true)
	// known finding: nil of a nested optional type decodes to some(nil)
	c.roundTrip(cadence.NewArray([]cadence.Value{cadence.NewOptional(nil), cadence.NewOptional(cadence.NewOptional(nil))}).WithType(
		cadence.NewVariableSizedArrayType(cadence.NewOptionalType(cadence.NewOptionalType(cadence.IntType)))), "corpus:nested-optional", "ccf-roundtrip:nested-optional-nil", false)
	// known finding: some(()) of type Void? decodes to nil
	c.roundTrip(cadence.NewOptional(cadence.Void{}), "corpus:optional-void", "ccf-roundtrip:optional-void", false)
	// known finding: some(Type(nil)) of type Type? decodes to nil
	c.roundTrip(cadence.NewOptional(cadence.NewTypeValue(nil)), "corpus:optional-nil-type", "ccf-roundtrip:optional-nil-type-value", false)
	// known finding: function types with two parameters that have the same label ("" and "_" included)
	c.roundTrip(cadence.NewTypeValue(cadence.NewFunctionType(cadence.FunctionPurityImpure, nil,
		[]cadence.Parameter{{Label: "", Identifier: "a", Type: cadence.IntType}, {Label: "", Identifier: "b", Type: cadence.IntType}}, cadence.IntType)),
		"corpus:duplicate-label", "ccf-roundtrip:duplicate-parameter-label", false)
	c.roundTrip(cadence.NewTypeValue(cadence.NewFunctionType(cadence.FunctionPurityImpure, nil,
		[]cadence.Parameter{{Label: "_", Identifier: "a", Type: cadence.IntType}, {Label: "_", Identifier: "b", Type: cadence.IntType}}, cadence.IntType)),
		"corpus:duplicate-label", "ccf-roundtrip:duplicate-parameter-label", false)
	// known finding: function values (and static types that mention function types) are encoded with
	// simple type 51 (Function), which the decoder does not accept
	fn := cadence.NewFunction(cadence.NewFunctionType(cadence.FunctionPurityView, nil, []cadence.Parameter{{Label: "a", Identifier: "b", Type: cadence.IntType}}, cadence.VoidType))
	c.roundTrip(fn, "corpus:function-value", "ccf-roundtrip:function-value", false)
	c.roundTrip(cadence.NewArray([]cadence.Value{fn}).WithType(cadence.NewVariableSizedArrayType(cadence.AnyStructType)), "corpus:function-value", "ccf-roundtrip:function-value", false)
	c.roundTrip(cadence.NewTypeValue(fn.FunctionType), "corpus:function-type-value", "", true)
	// numeric ranges: every numeric kind with integers at and just outside its bounds, written as CBOR
	// integers / bignums in place of the value of a real encoding; oracle: in range <=> accepted with that value
	c.numericRanges()
	// malformed top-level inputs
	for _, in := range [][]byte{nil, {}, {0xd8}, {0xd8, 0x82}, {0xd8, 0x82, 0x82}, {0xd8, 0x81, 0x82, 0x80, 0x82, 0xd8, 0x89, 0x00, 0x00}, {0xf6}, {0x82, 0x00, 0x00},
		{0xd8, 0x82, 0x82, 0xd8, 0x89, 0x18, 0xff, 0x00}, {0xd8, 0x82, 0x82, 0xd8, 0x88, 0x41, 0x00, 0x80}, {0xd8, 0x82, 0x82, 0xf6, 0xf6},
		{0xd8, 0x82, 0x82, 0xd8, 0x89, 0x18, 0x29, 0xd8, 0xb8, 0x41, 0x05}, {0xd8, 0x82, 0x82, 0xd8, 0x89, 0x18, 0x29, 0xd8, 0xd0, 0x85, 0x41, 0x05, 0x60, 0xf6, 0x80, 0x80}} {
		c.decodeMutant(in, "crafted")
	}
}

func c42(sum *lib.Summary) {
	initCCFTables()
	c := &c42run{sum: sum, rng: lib.NewRng(mixSeed(*seed)), distinct: map[string]bool{}}
	c.cw = &lib.CaseWriter{
		Dir: *dir, Prefix: "cases_C42",
		Header:   "From Coq Require Import String.\nFrom CV Require Import C42.Cases.",
		ElemType: "ccase",
		CheckFn:  "check_ccase",
		PerFile:  220,
	}
	sum.Rule = "values with complete static types from the recursive type-directed generator and a fixed corpus, each encoded with the real CCF encoder in default and in deterministic mode " +
		"(all three sort options): the output must be canonical CBOR (independent parser + re-serialiser); decoding (lenient decoder; strict decoder for the deterministic encoding) must give a value " +
		"equal to the original (structure, dictionary entries as a set, fields by name, static types by normalised structure, type ID, Type.Equal) that re-encodes to the same bytes; " +
		"deterministic encodings of 2 random permutations (dictionary entries, intersection members, entitlements, recursively in values and types) must be byte-identical; the strict decoder must reject " +
		"default-mode encodings whose field lists / entitlement sets are unsorted (detected in the CBOR tree) and accept those whose members are all sorted; crafted unsorted dictionaries, " +
		"intersections, entitlements, swapped type definitions must be rejected; CBOR-tree mutants (tags, integers, simple values, dropped/duplicated/swapped/grafted items, byte/text contents, " +
		"wrapping, maps) and byte mutants of every encoding are decoded by both decoders: a panic is a direct failure. non-trivial = distinct value whose term is longer than 40 characters"
	if thorough() {
		c.modelLimit = 5000
	}
	c.simpleTable()
	c.corpus()
	g := NewGen(c.rng)
	g.ForCCF = true
	n := 150
	if thorough() {
		n = 5000
	}
	for i := 0; i < n; i++ {
		v := g.Value()
		c.roundTrip(v, "generated", "", true)
	}
	if c.cw != nil {
		c.cw.Close()
		sum.CaseFiles = c.cw.Files
	}
}


// simpleTable: the simple type ids used by the real encoder (read from encoded type values).
func (c *c42run) simpleTable() {
	type e struct {
		n  string
		id uint64
	}
	var es []e
	for _, t := range append([]cadence.Type{cadence.TheBytesType}, allPrimitiveTypes...) {
		b, out := ccfEncode(defEnc, cadence.NewTypeValue(t))
		if out.cls != "" {
			continue
		}
		tree, err := parseCBOR(b)
		if err != nil || tree.K != CTag || len(tree.Items[0].Items) != 2 {
			continue
		}
		tv := tree.Items[0].Items[1]
		if tv.K == CTag && tv.N == 185 && tv.Items[0].K == CUint {
			es = append(es, e{t.ID(), tv.Items[0].N})
		}
	}
	sort.Slice(es, func(i, j int) bool { return es[i].id < es[j].id })
	c.sum.Evaluations++
	c.cw.Add("CCcfSimple "+coqList(es, func(x e) string { return fmt.Sprintf("(%s,%d)", coqStr(x.n), x.id) }),
		map[string]any{"kind": "ccf-simple-type-table", "key": "ccf-simple-type-table"})
}


func (c *c42run) numericRanges() {
	two := func(n uint) *big.Int { return new(big.Int).Lsh(big.NewInt(1), n) }
	type rng struct {
		lo, hi *big.Int
		big    bool
	}
	signed := func(b uint, bg bool) rng { return rng{new(big.Int).Neg(two(b - 1)), new(big.Int).Sub(two(b-1), big.NewInt(1)), bg} }
	unsigned := func(b uint, bg bool) rng { return rng{big.NewInt(0), new(big.Int).Sub(two(b), big.NewInt(1)), bg} }
	kinds := map[string]rng{
		"Int8": signed(8, false), "Int16": signed(16, false), "Int32": signed(32, false), "Int64": signed(64, false),
		"Int128": signed(128, true), "Int256": signed(256, true),
		"UInt8": unsigned(8, false), "UInt16": unsigned(16, false), "UInt32": unsigned(32, false), "UInt64": unsigned(64, false),
		"UInt128": unsigned(128, true), "UInt256": unsigned(256, true),
		"Word8": unsigned(8, false), "Word16": unsigned(16, false), "Word32": unsigned(32, false), "Word64": unsigned(64, false),
		"Word128": unsigned(128, true), "Word256": unsigned(256, true),
		"Fix64": signed(64, false), "UFix64": unsigned(64, false), "UInt": {big.NewInt(0), nil, true},
	}
	ids := make([]string, 0, len(kinds))
	for id := range kinds { //nolint:maprange
		ids = append(ids, id)
	}
	sort.Strings(ids)
	item := func(z *big.Int, asBig bool) *CNode {
		if asBig {
			if z.Sign() < 0 {
				m := new(big.Int).Neg(z)
				m.Sub(m, big.NewInt(1))
				return &CNode{K: CTag, N: 3, Items: []*CNode{{K: CBytes, B: m.Bytes()}}}
			}
			return &CNode{K: CTag, N: 2, Items: []*CNode{{K: CBytes, B: z.Bytes()}}}
		}
		if z.Sign() < 0 {
			m := new(big.Int).Neg(z)
			m.Sub(m, big.NewInt(1))
			if !m.IsUint64() {
				return nil
			}
			return &CNode{K: CNint, N: m.Uint64()}
		}
		if !z.IsUint64() {
			return nil
		}
		return &CNode{K: CUint, N: z.Uint64()}
	}
	for _, id := range ids {
		r := kinds[id]
		b, out := ccfEncode(defEnc, makeNumber(id, big.NewInt(0)))
		tree, err := parseCBOR(b)
		if out.cls != "" || err != nil || tree.K != CTag || len(tree.Items[0].Items) != 2 {
			c.fail("harness-ccf-structure", "cannot build numeric range case for "+id, map[string]any{"bytes": hex(b)})
			continue
		}
		cands := []*big.Int{new(big.Int).Set(r.lo), new(big.Int).Sub(r.lo, big.NewInt(1)), big.NewInt(-1), big.NewInt(0)}
		if r.hi != nil {
			cands = append(cands, new(big.Int).Set(r.hi), new(big.Int).Add(r.hi, big.NewInt(1)), new(big.Int).Add(r.hi, big.NewInt(2)))
		}
		for _, z := range cands {
			it := item(z, r.big)
			if it == nil {
				continue
			}
			m := tree.Clone()
			m.Items[0].Items[1] = it
			mb := m.Bytes()
			inRange := z.Cmp(r.lo) >= 0 && (r.hi == nil || z.Cmp(r.hi) <= 0)
			d, do := ccfDecode(lenientDec, mb)
			c.sum.Evaluations++
			c.sum.Count("numeric-range")
			switch {
			case do.cls == lib.ECrash:
				c.fail("ccf-decode-panic:"+panicClass(do.panicVal), fmt.Sprintf("ccf Decode panics on %s value %s", id, z), map[string]any{"input_hex": hex(mb)})
			case inRange && do.cls != "":
				c.fail("ccf-numeric-range:"+id, fmt.Sprintf("ccf Decode rejects the in-range %s value %s: %v", id, z, do.err), map[string]any{"input_hex": hex(mb), "type": id, "value": z.String()})
			case !inRange && do.cls == "":
				c.fail("ccf-numeric-range:"+id, fmt.Sprintf("ccf Decode accepts the out-of-range %s value %s (decoded: %v)", id, z, d), map[string]any{"input_hex": hex(mb), "type": id, "value": z.String(), "required": "error"})
			case inRange:
				if x := convVal(d, OrderJSONEnc); x.K != "Num" || x.Z.Cmp(z) != 0 || !strings.HasSuffix(x.NK, id) {
					c.fail("ccf-numeric-range:"+id, fmt.Sprintf("ccf Decode of %s value %s gives %s", id, z, x.safeCoq()), map[string]any{"input_hex": hex(mb), "type": id, "value": z.String()})
				}
			}
		}
	}
}


// sameNameCorpus: composite / event / enum / resource types named C.Foo at two addresses and at other
// location kinds, with fields declared in different orders and in different numbers.
func (c *c42run) sameNameCorpus(run func(v cadence.Value, origin string)) {
	sameNameValues(run)
}

func sameNameValues(run func(v cadence.Value, origin string)) {
	addr := func(b byte) common.Location {
		return common.AddressLocation{Address: common.Address{0, 0, 0, 0, 0, 0, 0, b}, Name: "C"}
	}
	intF := func(names ...string) []cadence.Field {
		fs := make([]cadence.Field, len(names))
		for i, n := range names {
			fs[i] = cadence.Field{Identifier: n, Type: cadence.IntType}
		}
		return fs
	}
	ints := func(n int) []cadence.Value {
		vs := make([]cadence.Value, n)
		for i := range vs {
			vs[i] = cadence.NewInt(i + 1)
		}
		return vs
	}
	anyArr := func(vs ...cadence.Value) cadence.Value {
		return cadence.NewArray(vs).WithType(cadence.NewVariableSizedArrayType(cadence.AnyStructType))
	}
	type mk func(loc common.Location, fs []cadence.Field) cadence.Value
	kinds := map[string]mk{
		"struct": func(loc common.Location, fs []cadence.Field) cadence.Value {
			return cadence.NewStruct(ints(len(fs))).WithType(cadence.NewStructType(loc, "C.Foo", fs, nil))
		},
		"resource": func(loc common.Location, fs []cadence.Field) cadence.Value {
			return cadence.NewResource(ints(len(fs))).WithType(cadence.NewResourceType(loc, "C.Foo", fs, nil))
		},
		"event": func(loc common.Location, fs []cadence.Field) cadence.Value {
			return cadence.NewEvent(ints(len(fs))).WithType(cadence.NewEventType(loc, "C.Foo", fs, nil))
		},
		"contract": func(loc common.Location, fs []cadence.Field) cadence.Value {
			return cadence.NewContract(ints(len(fs))).WithType(cadence.NewContractType(loc, "C.Foo", fs, nil))
		},
	}
	names := []string{"struct", "resource", "event", "contract"}
	orders := [][2][]string{
		{{"a", "b"}, {"b", "a"}},
		{{"b", "a"}, {"a", "b"}},
		{{"x", "aa", "b"}, {"aa", "b", "x"}},
		{{"a", "b"}, {"c", "a", "b"}}, // different field counts
		{{"c", "b", "a"}, {"b", "a"}},
		{{"a", "b"}, {"a", "b"}},
	}
	for _, kn := range names {
		k := kinds[kn]
		for i, o := range orders {
			v1, v2 := k(addr(1), intF(o[0]...)), k(addr(2), intF(o[1]...))
			run(anyArr(v1, v2), fmt.Sprintf("corpus:same-name:%s:%d", kn, i))
			run(anyArr(v2, v1, v2), fmt.Sprintf("corpus:same-name:%s:%d", kn, i))
		}
	}
	// other location kinds; mixed kinds; nested in a field; in dictionary values; with type values
	s1 := kinds["struct"](addr(1), intF("a", "b"))
	s2 := kinds["struct"](common.StringLocation("test"), intF("b", "a"))
	s3 := kinds["event"](common.IdentifierLocation("id"), intF("b", "c", "a"))
	s4 := kinds["struct"](common.TransactionLocation{1}, intF("z", "y"))
	run(anyArr(s1, s2, s3, s4), "corpus:same-name:locations")
	outerT := cadence.NewStructType(addr(3), "C.Foo", []cadence.Field{{Identifier: "q", Type: s2.Type()}, {Identifier: "p", Type: s1.Type()}}, nil)
	run(cadence.NewStruct([]cadence.Value{s2, s1}).WithType(outerT), "corpus:same-name:nested")
	run(cadence.NewDictionary([]cadence.KeyValuePair{{Key: cadence.String("x"), Value: s1}, {Key: cadence.String("y"), Value: s2}, {Key: cadence.String("z"), Value: s4}}).WithType(
		cadence.NewDictionaryType(cadence.StringType, cadence.AnyStructType)), "corpus:same-name:dictionary")
	run(anyArr(cadence.NewTypeValue(s1.Type()), s2, cadence.NewTypeValue(s2.Type()), s1), "corpus:same-name:type-values")
	// enums with the same name at two addresses
	e1 := cadence.NewEnum([]cadence.Value{cadence.UInt8(1)}).WithType(cadence.NewEnumType(addr(1), "C.Kind", cadence.UInt8Type, []cadence.Field{{Identifier: "rawValue", Type: cadence.UInt8Type}}, nil))
	e2 := cadence.NewEnum([]cadence.Value{cadence.Int16(-2)}).WithType(cadence.NewEnumType(addr(2), "C.Kind", cadence.Int16Type, []cadence.Field{{Identifier: "rawValue", Type: cadence.Int16Type}}, nil))
	run(anyArr(e1, e2, s1), "corpus:same-name:enum")
}


// hiddenTypeValues: a composite type (every kind) with 2-4 fields: abstract-typed ones (AnyStruct,
// AnyResource, interface, intersection) and ones of type Inner? / [Inner] / {String: Inner} /
// Capability<&Inner> whose values are nil / empty, so that Inner is only reachable through the declared
// field types of the outer type; every order of the fields; also one level deeper.
func hiddenTypeValues(run func(v cadence.Value, origin string)) {
	loc := common.StringLocation("test")
	inner := cadence.NewStructType(loc, "Inner", []cadence.Field{{Identifier: "y", Type: cadence.IntType}, {Identifier: "x", Type: cadence.StringType}}, nil)
	inner2 := cadence.NewResourceType(loc, "InnerR", []cadence.Field{{Identifier: "b", Type: cadence.IntType}, {Identifier: "a", Type: cadence.IntType}}, nil)
	iface := cadence.NewStructInterfaceType(loc, "I", nil, nil)
	impl := cadence.NewStructType(loc, "Impl", []cadence.Field{{Identifier: "n", Type: cadence.IntType}}, nil)
	implV := cadence.NewStruct([]cadence.Value{cadence.NewInt(7)}).WithType(impl)
	type fld struct {
		f cadence.Field
		v cadence.Value
	}
	abstract := []fld{
		{cadence.Field{Identifier: "any", Type: cadence.AnyStructType}, cadence.NewInt(1)},
		{cadence.Field{Identifier: "res", Type: cadence.AnyResourceType}, cadence.String("r")},
		{cadence.Field{Identifier: "ifc", Type: iface}, implV},
		{cadence.Field{Identifier: "itx", Type: cadence.NewIntersectionType([]cadence.Type{iface})}, implV},
		{cadence.Field{Identifier: "oa", Type: cadence.NewOptionalType(cadence.AnyStructType)}, cadence.NewOptional(cadence.Bool(true))},
	}
	hidden := func(t cadence.Type, tag string) []fld {
		dt := cadence.NewDictionaryType(cadence.StringType, t)
		at := cadence.NewVariableSizedArrayType(t)
		return []fld{
			{cadence.Field{Identifier: "opt" + tag, Type: cadence.NewOptionalType(t)}, cadence.NewOptional(nil)},
			{cadence.Field{Identifier: "arr" + tag, Type: at}, cadence.NewArray(nil).WithType(at)},
			{cadence.Field{Identifier: "dic" + tag, Type: dt}, cadence.NewDictionary(nil).WithType(dt)},
			{cadence.Field{Identifier: "zcap" + tag, Type: cadence.NewOptionalType(cadence.NewCapabilityType(cadence.NewReferenceType(cadence.UnauthorizedAccess, t)))}, cadence.NewOptional(nil)},
		}
	}
	plain := fld{cadence.Field{Identifier: "n", Type: cadence.UInt8Type}, cadence.UInt8(3)}
	mk := func(kind string, name string, fs []fld) cadence.Value {
		fields := make([]cadence.Field, len(fs))
		vals := make([]cadence.Value, len(fs))
		for i, x := range fs {
			fields[i], vals[i] = x.f, x.v
		}
		switch kind {
		case "resource":
			return cadence.NewResource(vals).WithType(cadence.NewResourceType(loc, name, fields, nil))
		case "event":
			return cadence.NewEvent(vals).WithType(cadence.NewEventType(loc, name, fields, nil))
		case "contract":
			return cadence.NewContract(vals).WithType(cadence.NewContractType(loc, name, fields, nil))
		case "attachment":
			return cadence.NewAttachment(vals).WithType(cadence.NewAttachmentType(loc, name, inner, fields, nil))
		}
		return cadence.NewStruct(vals).WithType(cadence.NewStructType(loc, name, fields, nil))
	}
	var perms func(fs []fld, k int, f func([]fld))
	perms = func(fs []fld, k int, f func([]fld)) {
		if k == len(fs) {
			f(append([]fld(nil), fs...))
			return
		}
		for i := k; i < len(fs); i++ {
			fs[k], fs[i] = fs[i], fs[k]
			perms(fs, k+1, f)
			fs[k], fs[i] = fs[i], fs[k]
		}
	}
	kinds := []string{"struct", "resource", "event", "contract", "attachment"}
	n := 0
	for ai, a := range abstract {
		for hi, h := range hidden(inner, "") {
			kind := kinds[(ai+hi)%len(kinds)]
			// two fields, both orders; three and four fields, all orders
			perms([]fld{a, h}, 0, func(fs []fld) { n++; run(mk(kind, "Outer", fs), "corpus:hidden-type:2") })
			perms([]fld{a, h, plain}, 0, func(fs []fld) { n++; run(mk(kinds[n%len(kinds)], "Outer", fs), "corpus:hidden-type:3") })
			if hi == 0 {
				h2 := hidden(inner2, "R")[(ai+1)%4]
				perms([]fld{a, h, plain, h2}, 0, func(fs []fld) { n++; run(mk(kinds[n%len(kinds)], "Outer", fs), "corpus:hidden-type:4") })
			}
		}
	}
	// nested: the composite with the hidden type is itself a field value / array element / optional
	for _, order := range [][]fld{{abstract[0], hidden(inner, "")[0]}, {hidden(inner, "")[1], abstract[2]}, {abstract[3], plain, hidden(inner2, "R")[2]}} {
		mid := mk("struct", "Mid", order)
		outer := mk("struct", "Outer2", []fld{abstract[0], {cadence.Field{Identifier: "mid", Type: mid.Type()}, mid}})
		run(outer, "corpus:hidden-type:nested")
		outer = mk("resource", "Outer2", []fld{{cadence.Field{Identifier: "mid", Type: cadence.NewOptionalType(mid.Type())}, cadence.NewOptional(mid)}, abstract[0]})
		run(outer, "corpus:hidden-type:nested")
		run(cadence.NewArray([]cadence.Value{mid, cadence.NewInt(1)}).WithType(cadence.NewVariableSizedArrayType(cadence.AnyStructType)), "corpus:hidden-type:nested")
	}
}
