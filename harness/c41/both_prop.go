package main

// both_prop.go: C43 — JSON-Cadence and CCF decode to the same value.

import (
	"fmt"
	"sort"
	"strings"

	"cvh/lib"

	"github.com/onflow/cadence"
	"github.com/onflow/cadence/common"
)

// erasedCanon renders a value after the erasure of Values.v, with dictionary entries sorted (the two
// codecs keep / sort the entry order differently) and embedded types in canonical form.
func erasedCanon(x *XVal, c *canon) string {
	switch x.K {
	case "Optional":
		if x.Inner == nil {
			return "nil"
		}
		return "(some " + erasedCanon(x.Inner, c) + ")"
	case "Array":
		parts := make([]string, len(x.L))
		for i, e := range x.L {
			parts[i] = erasedCanon(e, c)
		}
		return "[" + strings.Join(parts, ";") + "]"
	case "Dict":
		parts := make([]string, len(x.Pairs))
		for i, p := range x.Pairs {
			parts[i] = erasedCanon(p[0], c) + "=>" + erasedCanon(p[1], c)
		}
		sort.Strings(parts)
		return "{" + strings.Join(parts, ";") + "}"
	case "Range":
		return "(range " + erasedCanon(x.Inner, c) + " " + erasedCanon(x.A2, c) + " " + erasedCanon(x.A3, c) + ")"
	case "Composite":
		s := "(composite " + x.CK + " " + x.TID
		for i, f := range x.L {
			name := ""
			if i < len(x.FTys) {
				name = x.FTys[i].Name
			}
			s += " " + name + "=" + erasedCanon(f, c)
		}
		return s + ")"
	case "Type":
		return "(type " + c.ty(x.T, true) + ")"
	case "Func":
		return "(func " + c.ty(x.T, true) + ")"
	case "Cap":
		// the borrow type is an inline type in CCF (nominal types by definition table): compared by structure over type IDs
		return "(cap " + x.Z.String() + " " + x.Addr.String() + " " + c.ty(x.T, false) + ")"
	}
	return x.Coq()
}

type c43run struct {
	sum      *lib.Summary
	rng      *lib.Rng
	distinct map[string]bool
	json     *c41run
	ccfm     *c42run
	// values also sent to the Coq models (bounded in the thorough tier)
	modelCases int
}

// typeIDs walks the two decoded values in parallel; where the JSON-decoded value has a type with an ID,
// the CCF-decoded value must have the same type ID.
func (c *c43run) typeIDs(j, f cadence.Value, path string, report func(string)) {
	if j == nil || f == nil {
		return
	}
	tj := j.Type()
	if !isNilType(tj) {
		if idj := safeID(tj); !strings.HasPrefix(idj, "<ID() panics") {
			c.sum.Count("type-id-compared")
			if idf := safeID(f.Type()); idf != idj {
				report(fmt.Sprintf("at %s: type ID of the JSON-decoded value %q differs from that of the CCF-decoded value %q", path, idj, idf))
			}
		}
	}
	switch j := j.(type) {
	case cadence.Optional:
		if fo, ok := f.(cadence.Optional); ok {
			c.typeIDs(j.Value, fo.Value, path+"?", report)
		}
	case cadence.Array:
		if fo, ok := f.(cadence.Array); ok && len(fo.Values) == len(j.Values) {
			for i := range j.Values {
				c.typeIDs(j.Values[i], fo.Values[i], fmt.Sprintf("%s[%d]", path, i), report)
			}
		}
	case cadence.Composite:
		if fo, ok := f.(cadence.Composite); ok {
			a, b := compositeFieldValues(j), compositeFieldValues(fo)
			if len(a) == len(b) {
				for i := range a {
					c.typeIDs(a[i], b[i], fmt.Sprintf("%s.%d", path, i), report)
				}
			}
		}
	}
}

func (c *c43run) compare(v cadence.Value, origin, findingKey string) {
	c.sum.Evaluations++
	c.sum.Count("value:" + origin)
	xv := convVal(v, OrderJSONEnc)
	if !xv.Supported() {
		return
	}
	key := xv.Coq()
	if !c.distinct[key] {
		c.distinct[key] = true
		if len(key) > 40 {
			c.sum.DistinctNontrivial++
		}
	}
	k := func(def string) string {
		if findingKey != "" {
			return findingKey
		}
		return def
	}
	replay := map[string]any{"value": trunc(key, 4000), "origin": origin}
	jb, jo := jsonEncode(v)
	cb, co := ccfEncode(defEnc, v)
	if jo.cls != "" || co.cls != "" {
		c.sum.Fail(k("both-encode:"+origin), fmt.Sprintf("encoding fails (json: %v, ccf: %v)", jo.err, co.err), replay)
		return
	}
	replay["json"] = trunc(string(jb), 3000)
	replay["ccf_hex"] = trunc(hex(cb), 3000)
	jd, jdo := jsonDecode(jb)
	cd, cdo := ccfDecode(lenientDec, cb)
	if jdo.cls == lib.ECrash || cdo.cls == lib.ECrash {
		c.sum.Fail(k("both-decode-panic"), fmt.Sprintf("a decoder panics (json: %v, ccf: %v)", jdo.panicVal, cdo.panicVal), replay)
		return
	}
	if jdo.cls != "" || cdo.cls != "" {
		c.sum.Fail(k("both-decode:"+origin), fmt.Sprintf("only one of the codecs round-trips the value (json decode: %v, ccf decode: %v)", jdo.err, cdo.err), replay)
		return
	}
	c.sum.Sample(map[string]string{"value": trunc(key, 160), "json": trunc(string(jb), 160), "ccf": trunc(hex(cb), 160)})
	xj, xc := convVal(jd, OrderJSONEnc), convVal(cd, OrderJSONEnc)
	if !xj.Supported() || !xc.Supported() {
		return
	}
	cj, cc := newCanon(), newCanon()
	ej, ec := erasedCanon(xj, cj), erasedCanon(xc, cc)
	if ej != ec {
		c.sum.Fail(k("both-differ:"+origin), "the JSON-decoded and the CCF-decoded value differ after erasure",
			map[string]any{"value": trunc(key, 3000), "json_decoded": trunc(ej, 3000), "ccf_decoded": trunc(ec, 3000)})
	} else {
		for id, d := range cj.tdefs {
			if o := cc.tdefs[id]; o != d {
				c.sum.Fail(k("both-differ:"+origin), fmt.Sprintf("embedded type %s differs between the JSON-decoded and the CCF-decoded value", id),
					map[string]any{"value": trunc(key, 3000), "json": trunc(d, 1500), "ccf": trunc(o, 1500)})
				break
			}
		}
	}
	c.typeIDs(jd, cd, "v", func(what string) {
		c.sum.Fail(k("both-type-id:"+origin), what, replay)
	})
	// the models: JSON encoder/decoder model and CCF encoder model on the same value
	if c.modelCases < 1200 {
		c.modelCases++
		c.json.decodeCaseOf(xv, jb, mustTree(jb), origin+":c43", "")
		if t, err := parseCBOR(cb); err == nil {
			c.ccfm.modelCase(v, false, cb, t, origin+":c43")
		}
	}
}

func mustTree(b []byte) *JNode {
	t, err := parseJSONTree(b)
	if err != nil {
		return nil
	}
	return t
}

func c43(sum *lib.Summary) {
	initCCFTables()
	rng := lib.NewRng(mixSeed(*seed))
	c := &c43run{sum: sum, rng: rng, distinct: map[string]bool{}}
	c.json = &c41run{sum: &lib.Summary{}, rng: rng, distinct: map[string]bool{}}
	c.ccfm = &c42run{sum: &lib.Summary{}, rng: rng, distinct: map[string]bool{}}
	c.json.cw = &lib.CaseWriter{Dir: *dir, Prefix: "cases_C43_json", Header: "From Coq Require Import String.\nFrom CV Require Import C41.Cases.",
		ElemType: "jcase", CheckFn: "check_case", PerFile: 80}
	c.ccfm.cw = &lib.CaseWriter{Dir: *dir, Prefix: "cases_C43_ccf", Header: "From Coq Require Import String.\nFrom CV Require Import C42.Cases.",
		ElemType: "ccase", CheckFn: "check_ccase", PerFile: 200}
	sum.Rule = "values with complete static types from the recursive generator and a corpus (boundary numbers of all numeric kinds, recursive types, capabilities, type values): " +
		"each value goes through the real JSON-Cadence codec and the real CCF codec (default mode); both must round-trip it and the two decoded values must be equal after erasure " +
		"(independent Go erasure; dictionary entries as a set; embedded types by canonical definition) and have equal type IDs wherever the JSON-decoded value has a type; " +
		"the same runs are compared with the Coq models (JSON encoder+decoder model, CCF encoder model). non-trivial = distinct value whose term is longer than 40 characters"
	loc := common.StringLocation("test")
	for _, t := range numericTypes {
		for _, z := range boundaryNumbers(t.ID()) {
			c.compare(makeNumber(t.ID(), z), "corpus:number", "")
		}
	}
	rf := make([]cadence.Field, 2)
	rec := cadence.NewResourceType(loc, "Node", rf, nil)
	rf[0] = cadence.Field{Identifier: "next", Type: cadence.NewOptionalType(rec)}
	rf[1] = cadence.Field{Identifier: "id", Type: cadence.UInt64Type}
	node := func(next cadence.Value, id uint64) cadence.Value {
		return cadence.NewResource([]cadence.Value{next, cadence.UInt64(id)}).WithType(rec)
	}
	c.compare(node(cadence.NewOptional(node(cadence.NewOptional(nil), 2)), 1), "corpus:recursive", "")
	c.compare(cadence.NewTypeValue(rec), "corpus:recursive-type", "")
	c.compare(cadence.NewCapability(7, cadence.Address{0, 0, 0, 0, 0, 0, 0, 1}, cadence.NewReferenceType(cadence.UnauthorizedAccess, rec)), "corpus:capability", "")
	// the nested-optional class of C42: the CCF side decodes some(nil)
	c.compare(cadence.NewArray([]cadence.Value{cadence.NewOptional(nil)}).WithType(
		cadence.NewVariableSizedArrayType(cadence.NewOptionalType(cadence.NewOptionalType(cadence.IntType)))), "corpus:nested-optional", "both-differ:nested-optional-nil")

	sameNameValues(func(v cadence.Value, origin string) { c.compare(v, origin, "") })

	g := NewGen(rng)
	g.ForCCF = true
	n := 150
	if thorough() {
		n = 3000
	}
	for i := 0; i < n; i++ {
		c.compare(g.Value(), "generated", "")
	}
	c.json.cw.Close()
	c.ccfm.cw.Close()
	sum.CaseFiles = append(append([]string{}, c.json.cw.Files...), c.ccfm.cw.Files...)
	for _, f := range c.json.sum.Failures {
		sum.Failures = append(sum.Failures, f)
	}
}
