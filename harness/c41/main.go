// Command c41: correspondence + direct-oracle harness for the codec properties
// C41 (JSON-Cadence), C42 (CCF), C43 (JSON-Cadence vs CCF).
package main

import (
	"flag"
	"fmt"
	"os"
	"runtime"

	"cvh/lib"

	"github.com/onflow/cadence"
	"github.com/onflow/cadence/interpreter"
	"github.com/onflow/cadence/sema"
)

var (
	prop = flag.String("prop", "C41", "property id")
	seed = flag.Uint64("seed", 1, "seed")
	tier = flag.String("tier", "quick", "quick|thorough")
	dir  = flag.String("dir", ".", "output directory")
)

func thorough() bool { return *tier == "thorough" }

// mixSeed decorrelates the streams of consecutive seeds (lib.NewRng(s) and lib.NewRng(s+1) are the
// same splitmix64 stream shifted by one draw).
func mixSeed(s uint64) uint64 {
	z := s*0xD1342543DE82EF95 + 0x2545F4914F6CDD1D
	z = (z ^ (z >> 32)) * 0xBF58476D1CE4E5B9
	return z ^ (z >> 29)
}

func initTables() {
	for ty := interpreter.PrimitiveStaticType(1); ty < interpreter.PrimitiveStaticType_Count; ty++ {
		if !ty.IsDefined() || ty.IsDeprecated() { //nolint:staticcheck
			continue
		}
		if ty == interpreter.PrimitiveStaticTypeCapability { //nolint:staticcheck
			continue
		}
		allPrimitiveTypes = append(allPrimitiveTypes, cadence.PrimitiveType(ty))
	}
	var cs []string
	for _, c := range charPool {
		if sema.IsValidCharacter(c) {
			cs = append(cs, c)
		}
	}
	charPool = cs
}

// outcome of running real code under a panic monitor
type outcome struct {
	cls      string // "" ok, UserOther, Internal (returned error wrapping a runtime panic), Crash (panic escaped)
	err      error
	panicVal any
	stack    string
}

func classifyErr(err error) string {
	if err == nil {
		return ""
	}
	for e := err; e != nil; {
		if _, ok := e.(runtime.Error); ok {
			return lib.EInternal
		}
		u, ok := e.(interface{ Unwrap() error })
		if !ok {
			break
		}
		e = u.Unwrap()
	}
	return lib.EUserOther
}

func main() {
	flag.Parse()
	initTables()
	sum := &lib.Summary{}
	switch *prop {
	case "C41":
		c41(sum)
	case "C42":
		c42(sum)
	case "C43":
		c43(sum)
	default:
		fmt.Fprintln(os.Stderr, "unknown prop", *prop)
		os.Exit(2)
	}
	sum.Write(*dir)
}
