package main

// gen.go: recursive, type-directed generator of cadence.Type and cadence.Value object graphs.
// Every value carries complete static type information (needed by CCF); types include
// recursive composite types (through optionals, arrays, dictionaries, capabilities,
// references, functions), shared type pointers, parameterised and function types.

import (
	"fmt"
	"math/big"
	"sort"

	"cvh/lib"

	"github.com/onflow/cadence"
	"github.com/onflow/cadence/common"
	"github.com/onflow/cadence/fixedpoint"
	"github.com/onflow/cadence/sema"
	"github.com/onflow/cadence/stdlib"
)

type Gen struct {
	r *lib.Rng
	// nominal types of the current universe
	structs    []cadence.Type // struct / resource / event / contract / enum composite types
	interfaces []cadence.Type
	ents       []common.TypeID
	// options
	NoFindingShapes bool // avoid the input classes of the known findings
	ForCCF          bool // only shapes CCF can encode
	inTypeValue     bool // generating the static type of a type value
	usedQIDs        []string
	usedIDs         map[string]bool
}

func NewGen(r *lib.Rng) *Gen { return &Gen{r: r, NoFindingShapes: true} }

var identPool = []string{
	"a", "b", "x", "y", "id", "to", "ab", "ba", "aa", "foo", "bar", "baz", "name", "next", "from",
	"owner", "value", "amount", "balance", "rawValue", "uuid", "z", "A", "B", "Z9", "a_b", "_x",
	"aaa", "aab", "b1", "field10", "field2", "é", "ключ",
}

var typeNames = []string{"Foo", "Bar", "Baz", "R", "S", "Vault", "NFT", "Token", "E1", "Kind", "C", "Qux"}

func (g *Gen) ident() string { return lib.Pick(g.r, identPool) }

func (g *Gen) location() common.Location {
	switch g.r.Intn(8) {
	case 0, 1:
		return common.StringLocation(lib.Pick(g.r, []string{"test", "a", "lib"}))
	case 2, 3:
		var a common.Address
		switch g.r.Intn(3) {
		case 0:
			a[7] = byte(1 + g.r.Intn(255))
		case 1:
			for i := range a {
				a[i] = byte(g.r.Intn(256))
			}
		default:
			a = common.Address{0xff, 0xff, 0xff, 0xff, 0xff, 0xff, 0xff, 0xff}
		}
		return common.AddressLocation{Address: a, Name: "" /* set by caller */}
	case 4:
		var l common.TransactionLocation
		l[0], l[31] = byte(g.r.Intn(256)), byte(g.r.Intn(256))
		return l
	case 5:
		var l common.ScriptLocation
		l[1] = byte(g.r.Intn(256))
		return l
	case 6:
		return common.IdentifierLocation(lib.Pick(g.r, []string{"Crypto", "id"}))
	default:
		return stdlib.FlowLocation{}
	}
}

// qualified returns (location, qualifiedIdentifier) so that DecodeTypeID(TypeID) gives back the location.
func (g *Gen) qualified(i int) (common.Location, string) {
	name := fmt.Sprintf("%s%d", lib.Pick(g.r, typeNames), i)
	loc := g.location()
	qid := name
	if g.r.Chance(1, 3) {
		qid = lib.Pick(g.r, typeNames) + "." + name
	}
	// same qualified identifier as an earlier type of the universe, at another location (address,
	// location kind): distinct types that differ only in where they are declared
	if len(g.usedQIDs) > 0 && g.r.Chance(2, 5) {
		qid = lib.Pick(g.r, g.usedQIDs)
	}
	if al, ok := loc.(common.AddressLocation); ok {
		// the name of an address location is the first component of the qualified identifier
		first := qid
		for j := 0; j < len(qid); j++ {
			if qid[j] == '.' {
				first = qid[:j]
				break
			}
		}
		al.Name = first
		loc = al
	}
	// the type ID (location + qualified identifier) must be new
	id := string(common.NewTypeIDFromQualifiedName(nil, loc, qid))
	if g.usedIDs[id] {
		return g.qualified(i)
	}
	g.usedIDs[id] = true
	g.usedQIDs = append(g.usedQIDs, qid)
	return loc, qid
}

var nativeNames = func() []string {
	var out []string
	for k := range sema.NativeCompositeTypes { //nolint:maprange
		out = append(out, k)
	}
	sort.Strings(out)
	return out
}()

type shell struct {
	t      cadence.Type
	fields []cadence.Field
	kind   string
}

// NewUniverse creates 1-5 nominal types (some mutually / self recursive) and 0-3 entitlements.
func (g *Gen) NewUniverse() {
	g.structs, g.interfaces, g.ents = nil, nil, nil
	g.usedQIDs, g.usedIDs = nil, map[string]bool{}
	for i := 0; i < g.r.Intn(4); i++ {
		g.ents = append(g.ents, common.TypeID(fmt.Sprintf("S.test.%s", lib.Pick(g.r, []string{"E", "F", "Mutate", "Withdraw", "X1", "Ent"})+fmt.Sprint(i))))
	}
	n := 1 + g.r.Intn(5)
	var shells []*shell
	for i := 0; i < n; i++ {
		loc, qid := g.qualified(i)
		nf := g.r.Intn(5)
		if nf < 2 && g.r.Bool() {
			nf = 2 + g.r.Intn(3)
		}
		if g.r.Chance(1, 10) {
			nf = 6 + g.r.Intn(6)
		}
		sh := &shell{fields: make([]cadence.Field, nf)}
		switch g.r.Intn(11) {
		case 0, 1, 2:
			sh.kind = "struct"
			sh.t = cadence.NewStructType(loc, qid, sh.fields, nil)
		case 3, 4:
			sh.kind = "resource"
			sh.t = cadence.NewResourceType(loc, qid, sh.fields, nil)
		case 5, 6:
			sh.kind = "event"
			sh.t = cadence.NewEventType(loc, qid, sh.fields, nil)
		case 7:
			sh.kind = "contract"
			sh.t = cadence.NewContractType(loc, qid, sh.fields, nil)
		case 8:
			sh.kind = "enum"
			sh.fields = sh.fields[:0]
			sh.fields = append(sh.fields, cadence.Field{})
			sh.t = cadence.NewEnumType(loc, qid, nil, sh.fields, nil)
		case 9:
			sh.kind = "sinterface"
			sh.t = cadence.NewStructInterfaceType(loc, qid, sh.fields, nil)
		default:
			sh.kind = lib.Pick(g.r, []string{"rinterface", "cinterface"})
			if sh.kind == "rinterface" {
				sh.t = cadence.NewResourceInterfaceType(loc, qid, sh.fields, nil)
			} else {
				sh.t = cadence.NewContractInterfaceType(loc, qid, sh.fields, nil)
			}
		}
		shells = append(shells, sh)
		switch sh.kind {
		case "sinterface", "rinterface", "cinterface":
			g.interfaces = append(g.interfaces, sh.t)
		default:
			g.structs = append(g.structs, sh.t)
		}
	}
	if g.r.Chance(1, 6) && len(nativeNames) > 0 {
		// built-in composite (nil location)
		name := lib.Pick(g.r, nativeNames)
		sh := &shell{fields: make([]cadence.Field, g.r.Intn(3)), kind: "struct"}
		sh.t = cadence.NewStructType(nil, name, sh.fields, nil)
		shells = append(shells, sh)
		g.structs = append(g.structs, sh.t)
	}
	// fill the fields (may refer to any nominal type of the universe, including the type itself)
	for _, sh := range shells {
		used := map[string]bool{}
		if sh.kind == "enum" {
			raw := lib.Pick(g.r, enumRawTypes)
			sh.t.(*cadence.EnumType).RawType = raw
			sh.fields[0] = cadence.Field{Identifier: sema.EnumRawValueFieldName, Type: raw}
			continue
		}
		for i := range sh.fields {
			name := g.ident()
			for used[name] {
				name += fmt.Sprint(g.r.Intn(10))
			}
			used[name] = true
			sh.fields[i] = cadence.Field{Identifier: name, Type: g.FieldType(2, sh.t)}
		}
		if !g.ForCCF && g.r.Chance(1, 4) {
			g.addInitializers(sh)
		}
	}
}

var enumRawTypes = []cadence.Type{cadence.UInt8Type, cadence.UInt8Type, cadence.Int16Type, cadence.UInt64Type, cadence.Word32Type, cadence.Int256Type, cadence.UIntType}

// addInitializers adds initializers whose parameter types do not share composite pointers with
// the fields (sharing is the known finding "composite type used by a field and an initializer").
func (g *Gen) addInitializers(sh *shell) {
	mk := func() []cadence.Parameter {
		n := g.r.Intn(3)
		ps := make([]cadence.Parameter, n)
		for i := range ps {
			ps[i] = cadence.Parameter{Label: lib.Pick(g.r, []string{"", "_", "from", "with"}), Identifier: g.ident(), Type: g.closedType(1)}
		}
		return ps
	}
	switch t := sh.t.(type) {
	case *cadence.StructType:
		t.Initializers = [][]cadence.Parameter{mk()}
	case *cadence.ResourceType:
		t.Initializers = [][]cadence.Parameter{mk(), mk()}
	case *cadence.EventType:
		t.Initializer = mk()
	case *cadence.ContractType:
		t.Initializers = [][]cadence.Parameter{mk()}
	case *cadence.StructInterfaceType:
		t.Initializers = [][]cadence.Parameter{mk()}
	case *cadence.ResourceInterfaceType:
		t.Initializers = [][]cadence.Parameter{mk()}
	}
}

var numericTypes = []cadence.Type{
	cadence.IntType, cadence.Int8Type, cadence.Int16Type, cadence.Int32Type, cadence.Int64Type, cadence.Int128Type, cadence.Int256Type,
	cadence.UIntType, cadence.UInt8Type, cadence.UInt16Type, cadence.UInt32Type, cadence.UInt64Type, cadence.UInt128Type, cadence.UInt256Type,
	cadence.Word8Type, cadence.Word16Type, cadence.Word32Type, cadence.Word64Type, cadence.Word128Type, cadence.Word256Type,
	cadence.Fix64Type, cadence.Fix128Type, cadence.UFix64Type, cadence.UFix128Type,
}

var integerTypes = numericTypes[:20]

var otherLeafTypes = []cadence.Type{
	cadence.BoolType, cadence.StringType, cadence.CharacterType, cadence.AddressType, cadence.VoidType,
	cadence.StoragePathType, cadence.PublicPathType, cadence.PrivatePathType, cadence.MetaType,
}

var abstractTypes = []cadence.Type{
	cadence.AnyStructType, cadence.AnyStructType, cadence.HashableStructType, cadence.NumberType, cadence.SignedNumberType,
	cadence.IntegerType, cadence.SignedIntegerType, cadence.FixedSizeUnsignedIntegerType, cadence.FixedPointType,
	cadence.SignedFixedPointType, cadence.PathType, cadence.CapabilityPathType, cadence.AnyResourceType, cadence.AnyType,
}

// closedType: a type without nominal types (used where sharing must be avoided).
func (g *Gen) closedType(depth int) cadence.Type {
	switch g.r.Intn(6) {
	case 0:
		if depth > 0 {
			return cadence.NewOptionalType(g.closedType(depth - 1))
		}
	case 1:
		if depth > 0 {
			return cadence.NewVariableSizedArrayType(g.closedType(depth - 1))
		}
	case 2:
		return lib.Pick(g.r, otherLeafTypes)
	}
	return lib.Pick(g.r, numericTypes)
}

func (g *Gen) hashableType() cadence.Type {
	switch g.r.Intn(10) {
	case 0:
		return cadence.StringType
	case 1:
		return cadence.AddressType
	case 2:
		return cadence.BoolType
	case 3:
		return cadence.CharacterType
	case 4:
		return lib.Pick(g.r, []cadence.Type{cadence.StoragePathType, cadence.PublicPathType})
	case 5:
		for _, t := range g.structs {
			if _, ok := t.(*cadence.EnumType); ok {
				return t
			}
		}
	case 6:
		return cadence.HashableStructType
	}
	return lib.Pick(g.r, numericTypes)
}

func (g *Gen) referenceType(depth int) *cadence.ReferenceType {
	var auth cadence.Authorization = cadence.UnauthorizedAccess
	if len(g.ents) > 0 {
		switch g.r.Intn(4) {
		case 0:
			auth = cadence.NewEntitlementMapAuthorization(nil, common.TypeID("S.test.Map"))
		case 1, 2:
			n := 1 + g.r.Intn(len(g.ents))
			perm := g.perm(len(g.ents))
			ids := make([]common.TypeID, n)
			for i := range ids {
				ids[i] = g.ents[perm[i]]
			}
			kind := cadence.Conjunction
			if n > 1 && g.r.Bool() {
				kind = cadence.Disjunction
			}
			auth = cadence.NewEntitlementSetAuthorization(nil, ids, kind)
		}
	}
	return cadence.NewReferenceType(auth, g.AnyTypeNoRef(depth))
}

func (g *Gen) perm(n int) []int {
	p := make([]int, n)
	for i := range p {
		p[i] = i
	}
	for i := n - 1; i > 0; i-- {
		j := g.r.Intn(i + 1)
		p[i], p[j] = p[j], p[i]
	}
	return p
}

func (g *Gen) intersectionType() cadence.Type {
	if len(g.interfaces) == 0 {
		return cadence.AnyStructType
	}
	n := 1 + g.r.Intn(len(g.interfaces))
	perm := g.perm(len(g.interfaces))
	ts := make([]cadence.Type, n)
	for i := range ts {
		ts[i] = g.interfaces[perm[i]]
	}
	return cadence.NewIntersectionType(ts)
}

func (g *Gen) functionType(depth int) *cadence.FunctionType {
	var tps []cadence.TypeParameter
	if g.r.Chance(1, 3) {
		names := g.perm(3)
		for i := 0; i <= g.r.Intn(2); i++ {
			// a type parameter without bound is the known finding json-roundtrip:typeparam-nobound
			tps = append(tps, cadence.TypeParameter{Name: []string{"T", "U", "Elem"}[names[i]], TypeBound: g.AnyType(depth - 1)})
		}
	}
	var ps []cadence.Parameter
	usedID := map[string]bool{}
	labels := []string{"", "_", "to", "at", "with", "of"}
	for i, n := 0, g.r.Intn(4); i < n; i++ {
		id := g.ident()
		for usedID[id] {
			id += fmt.Sprint(g.r.Intn(10))
		}
		usedID[id] = true
		// distinct identifiers; labels distinct unless empty or "_" (CCF rejects duplicates)
		label := labels[(i+g.r.Intn(2)*2)%len(labels)]
		if g.ForCCF && i > 0 {
			// CCF rejects function types with two equal parameter labels, "" and "_" included
			// (known finding ccf-roundtrip:duplicate-parameter-label, exercised by the corpus)
			label = fmt.Sprintf("l%d", i)
		}
		ps = append(ps, cadence.Parameter{Label: label, Identifier: id, Type: g.AnyType(depth - 1)})
	}
	purity := cadence.FunctionPurityImpure
	if g.r.Bool() {
		purity = cadence.FunctionPurityView
	}
	return cadence.NewFunctionType(purity, tps, ps, g.AnyType(depth-1))
}

// AnyTypeNoRef: any type except a top-level reference.
func (g *Gen) AnyTypeNoRef(depth int) cadence.Type {
	for {
		t := g.AnyType(depth)
		if _, ok := t.(*cadence.ReferenceType); !ok {
			return t
		}
	}
}

// AnyType: a type as it can appear in a type value / borrow type / function type.
func (g *Gen) AnyType(depth int) cadence.Type {
	if depth <= 0 {
		switch g.r.Intn(5) {
		case 0:
			if len(g.structs) > 0 {
				return lib.Pick(g.r, g.structs)
			}
		case 1:
			return lib.Pick(g.r, abstractTypes)
		case 2:
			return lib.Pick(g.r, otherLeafTypes)
		}
		return lib.Pick(g.r, numericTypes)
	}
	switch g.r.Intn(16) {
	case 0:
		return cadence.NewOptionalType(g.AnyType(depth - 1))
	case 1:
		return cadence.NewVariableSizedArrayType(g.AnyType(depth - 1))
	case 2:
		sizes := []uint{0, 1, 2, 3, 10, 255, 256, 65535, 1 << 31, 1<<53 - 1, 1 << 53}
		return cadence.NewConstantSizedArrayType(lib.Pick(g.r, sizes), g.AnyType(depth-1))
	case 3:
		return cadence.NewDictionaryType(g.hashableType(), g.AnyType(depth-1))
	case 4:
		return cadence.NewInclusiveRangeType(lib.Pick(g.r, integerTypes))
	case 5:
		if g.r.Chance(1, 5) {
			return cadence.NewCapabilityType(nil)
		}
		return cadence.NewCapabilityType(g.referenceType(depth - 1))
	case 6:
		return g.referenceType(depth - 1)
	case 7:
		return g.intersectionType()
	case 8:
		// CCF: function types outside type values are encoded as simple type 51, which cannot be decoded
		// (known finding ccf-roundtrip:function-value, exercised by the corpus)
		if !g.ForCCF || g.inTypeValue {
			return g.functionType(depth)
		}
	case 9, 10:
		if len(g.structs) > 0 {
			return lib.Pick(g.r, g.structs)
		}
	case 11:
		if len(g.interfaces) > 0 {
			return lib.Pick(g.r, g.interfaces)
		}
	case 12:
		return lib.Pick(g.r, abstractTypes)
	case 13:
		if g.ForCCF {
			return lib.Pick(g.r, allPrimitiveTypesCCF)
		}
		return lib.Pick(g.r, allPrimitiveTypes)
	}
	return g.AnyType(0)
}

// FieldType: the declared type of a composite field / container element: must be instantiable
// by ValueOf. self may only be referred to under an optional / array / dictionary / capability.
func (g *Gen) FieldType(depth int, self cadence.Type) cadence.Type {
	if depth <= 0 {
		switch g.r.Intn(4) {
		case 0:
			return lib.Pick(g.r, otherLeafTypes)
		case 1:
			return lib.Pick(g.r, abstractTypes[:12])
		}
		return lib.Pick(g.r, numericTypes)
	}
	switch g.r.Intn(14) {
	case 0, 1:
		return cadence.NewOptionalType(g.fieldTypeOrNominal(depth-1, self))
	case 2:
		return cadence.NewVariableSizedArrayType(g.fieldTypeOrNominal(depth-1, self))
	case 3:
		return cadence.NewConstantSizedArrayType(uint(g.r.Intn(4)), g.FieldType(depth-1, self))
	case 4:
		return cadence.NewDictionaryType(g.hashableType(), g.fieldTypeOrNominal(depth-1, self))
	case 5:
		return cadence.NewInclusiveRangeType(lib.Pick(g.r, integerTypes))
	case 6:
		if g.r.Chance(1, 6) {
			return cadence.NewCapabilityType(nil)
		}
		return cadence.NewCapabilityType(g.referenceType(depth - 1))
	case 7:
		// another (instantiable) composite of the universe that is not self
		for _, t := range g.structs {
			if t != self && g.r.Bool() && g.instantiable(t, self) {
				return t
			}
		}
	case 8:
		if !g.ForCCF {
			return g.functionType(depth - 1)
		}
	}
	return g.FieldType(0, self)
}

func (g *Gen) fieldTypeOrNominal(depth int, self cadence.Type) cadence.Type {
	if g.r.Chance(1, 3) && len(g.structs) > 0 {
		return lib.Pick(g.r, g.structs) // may be self: recursive type
	}
	return g.FieldType(depth, self)
}

// instantiable: t has no chain of directly embedded composite fields leading back to self or t.
func (g *Gen) instantiable(t cadence.Type, self cadence.Type) bool {
	seen := map[cadence.Type]bool{self: true}
	var walk func(cadence.Type) bool
	walk = func(x cadence.Type) bool {
		switch x := x.(type) {
		case *cadence.ConstantSizedArrayType:
			return walk(x.ElementType)
		case cadence.CompositeType:
			if seen[x] {
				return false
			}
			seen[x] = true
			for _, f := range compositeTypeFields(x) {
				if f.Type == nil {
					return false // not filled yet: be conservative
				}
				if !walk(f.Type) {
					return false
				}
			}
			delete(seen, x)
		}
		return true
	}
	return walk(t)
}

var allPrimitiveTypes []cadence.Type

// ---------------------------------------------------------------- values

var stringPool = []string{
	"", "a", "hello", "Hello, World!", "\"quoted\" \\ back/slash", "tab\tnew\nline\rcr", "\x00\x01\x1f\x7f",
	"<script>&amp;</script>", "  ", "é", "é", "日本語", "ключ", "😀", "👨‍👩‍👧", "🇩🇪",
	"�", "\U0010FFFF", "a\u0000b", "0x1", "null", "{\"type\":\"Int\"}", "ÿ", "\u0080", "߿ࠀ￿\U00010000",
}

var charPool = []string{
	"a", "Z", "0", " ", "\n", "\r\n", "\"", "\\", "é", "é", "日", "😀", "👨‍👩‍👧", "🇩🇪", "\u0000", " ",
	"\U0010FFFF", "�", "ÿ", "g̈",
}

func (g *Gen) str() string {
	if g.r.Chance(2, 3) {
		return lib.Pick(g.r, stringPool)
	}
	n := g.r.Intn(12)
	rs := make([]rune, n)
	for i := range rs {
		switch g.r.Intn(6) {
		case 0:
			rs[i] = rune(g.r.Intn(0x20))
		case 1:
			rs[i] = rune(0x80 + g.r.Intn(0x780))
		case 2:
			rs[i] = rune(0x800 + g.r.Intn(0xD000))
		case 3:
			rs[i] = rune(0x10000 + g.r.Intn(0x100000))
		default:
			rs[i] = rune(0x20 + g.r.Intn(0x5f))
		}
		if rs[i] >= 0xD800 && rs[i] < 0xE000 {
			rs[i] = 'x'
		}
	}
	return string(rs)
}

func pow10(n int) *big.Int { return new(big.Int).Exp(big.NewInt(10), big.NewInt(int64(n)), nil) }

// numeric value of a concrete numeric type: boundary lattice or random
func (g *Gen) number(t cadence.Type) cadence.Value {
	id := t.ID()
	var lo, hi *big.Int
	two := func(n uint) *big.Int { return new(big.Int).Lsh(big.NewInt(1), n) }
	signed := func(bits uint) { lo, hi = new(big.Int).Neg(two(bits-1)), new(big.Int).Sub(two(bits-1), big.NewInt(1)) }
	unsigned := func(bits uint) { lo, hi = big.NewInt(0), new(big.Int).Sub(two(bits), big.NewInt(1)) }
	fixed := false
	scale := 0
	switch id {
	case "Int":
		lo, hi = new(big.Int).Neg(two(uint(64+g.r.Intn(300)))), two(uint(64+g.r.Intn(300)))
	case "UInt":
		lo, hi = big.NewInt(0), two(uint(64+g.r.Intn(300)))
	case "Int8":
		signed(8)
	case "Int16":
		signed(16)
	case "Int32":
		signed(32)
	case "Int64":
		signed(64)
	case "Int128":
		signed(128)
	case "Int256":
		signed(256)
	case "UInt8", "Word8":
		unsigned(8)
	case "UInt16", "Word16":
		unsigned(16)
	case "UInt32", "Word32":
		unsigned(32)
	case "UInt64", "Word64":
		unsigned(64)
	case "UInt128", "Word128":
		unsigned(128)
	case "UInt256", "Word256":
		unsigned(256)
	case "Fix64":
		signed(64)
		fixed, scale = true, 8
	case "UFix64":
		unsigned(64)
		fixed, scale = true, 8
	case "Fix128":
		signed(128)
		fixed, scale = true, 24
	case "UFix128":
		unsigned(128)
		fixed, scale = true, 24
	default:
		panic("not numeric: " + id)
	}
	var z *big.Int
	switch g.r.Intn(10) {
	case 0:
		z = new(big.Int).Set(lo)
	case 1:
		z = new(big.Int).Set(hi)
	case 2:
		z = new(big.Int).Add(lo, big.NewInt(int64(g.r.Intn(3))))
	case 3:
		z = new(big.Int).Sub(hi, big.NewInt(int64(g.r.Intn(3))))
	case 4:
		z = big.NewInt(int64(g.r.Intn(5) - 2))
	case 5:
		if fixed {
			// around integer boundaries: k*10^scale + small
			k := big.NewInt(int64(g.r.Intn(5) - 2))
			z = new(big.Int).Mul(k, pow10(scale))
			z.Add(z, big.NewInt(int64(g.r.Intn(3)-1)))
		} else {
			z = new(big.Int).Lsh(big.NewInt(1), uint(g.r.Intn(70)))
			if g.r.Bool() {
				z.Neg(z)
			}
		}
	case 6:
		if fixed {
			// only a fractional part, negative or positive
			z = big.NewInt(int64(g.r.Intn(100000000)))
			if g.r.Bool() {
				z.Neg(z)
			}
		} else {
			z = g.r.BigBetween(lo, hi)
		}
	default:
		z = g.r.BigBetween(lo, hi)
	}
	if z.Cmp(lo) < 0 || z.Cmp(hi) > 0 {
		z = big.NewInt(0)
	}
	return makeNumber(id, z)
}

func makeNumber(id string, z *big.Int) cadence.Value {
	must := func(v cadence.Value, err error) cadence.Value {
		if err != nil {
			panic(err)
		}
		return v
	}
	switch id {
	case "Int":
		return cadence.NewIntFromBig(z)
	case "UInt":
		return must(cadence.NewUIntFromBig(z))
	case "Int8":
		return cadence.Int8(z.Int64())
	case "Int16":
		return cadence.Int16(z.Int64())
	case "Int32":
		return cadence.Int32(z.Int64())
	case "Int64":
		return cadence.Int64(z.Int64())
	case "Int128":
		return must(cadence.NewInt128FromBig(z))
	case "Int256":
		return must(cadence.NewInt256FromBig(z))
	case "UInt8":
		return cadence.UInt8(z.Uint64())
	case "UInt16":
		return cadence.UInt16(z.Uint64())
	case "UInt32":
		return cadence.UInt32(z.Uint64())
	case "UInt64":
		return cadence.UInt64(z.Uint64())
	case "UInt128":
		return must(cadence.NewUInt128FromBig(z))
	case "UInt256":
		return must(cadence.NewUInt256FromBig(z))
	case "Word8":
		return cadence.Word8(z.Uint64())
	case "Word16":
		return cadence.Word16(z.Uint64())
	case "Word32":
		return cadence.Word32(z.Uint64())
	case "Word64":
		return cadence.Word64(z.Uint64())
	case "Word128":
		return must(cadence.NewWord128FromBig(z))
	case "Word256":
		return must(cadence.NewWord256FromBig(z))
	case "Fix64":
		return cadence.Fix64(z.Int64())
	case "UFix64":
		return cadence.UFix64(z.Uint64())
	case "Fix128":
		return cadence.Fix128(fixedpoint.Fix128FromBigInt(z))
	case "UFix128":
		return cadence.UFix128(fixedpoint.UFix128FromBigInt(z))
	}
	panic("makeNumber " + id)
}

func (g *Gen) address() cadence.Address {
	var a cadence.Address
	switch g.r.Intn(4) {
	case 0:
	case 1:
		a[7] = byte(g.r.Intn(256))
	case 2:
		for i := range a {
			a[i] = 0xff
		}
	default:
		for i := range a {
			a[i] = byte(g.r.Intn(256))
		}
	}
	return a
}

func (g *Gen) path(domain common.PathDomain) cadence.Path {
	return cadence.Path{Domain: domain, Identifier: lib.Pick(g.r, []string{"foo", "flowTokenVault", "a", "é", "p_1", ""})}
}

func (g *Gen) concreteSubtype(t cadence.PrimitiveType, depth int) cadence.Type {
	pick := func(ts []cadence.Type) cadence.Type { return lib.Pick(g.r, ts) }
	switch t {
	case cadence.NumberType:
		return pick(numericTypes)
	case cadence.SignedNumberType:
		return pick([]cadence.Type{cadence.IntType, cadence.Int8Type, cadence.Int64Type, cadence.Int256Type, cadence.Fix64Type, cadence.Fix128Type})
	case cadence.IntegerType:
		return pick(integerTypes)
	case cadence.SignedIntegerType:
		return pick(integerTypes[:7])
	case cadence.FixedSizeUnsignedIntegerType:
		return pick(integerTypes[8:20])
	case cadence.FixedPointType:
		return pick(numericTypes[20:])
	case cadence.SignedFixedPointType:
		return pick([]cadence.Type{cadence.Fix64Type, cadence.Fix128Type})
	case cadence.PathType:
		return pick([]cadence.Type{cadence.StoragePathType, cadence.PublicPathType, cadence.PrivatePathType})
	case cadence.CapabilityPathType:
		return pick([]cadence.Type{cadence.PublicPathType, cadence.PrivatePathType})
	case cadence.HashableStructType:
		for {
			h := g.hashableType()
			if h != cadence.HashableStructType {
				return h
			}
		}
	case cadence.AnyResourceType:
		for _, s := range g.structs {
			if _, ok := s.(*cadence.ResourceType); ok && g.instantiable(s, nil) {
				return s
			}
		}
		return cadence.NewVariableSizedArrayType(cadence.AnyResourceType)
	}
	// AnyStruct / Any
	return g.FieldType(depth, nil)
}

// ValueOf returns a value whose dynamic type conforms to t (and equals t when t is concrete).
func (g *Gen) ValueOf(t cadence.Type, depth int) cadence.Value {
	switch t := t.(type) {
	case cadence.PrimitiveType:
		switch t {
		case cadence.VoidType:
			return cadence.Void{}
		case cadence.BoolType:
			return cadence.Bool(g.r.Bool())
		case cadence.StringType:
			return cadence.String(g.str())
		case cadence.CharacterType:
			return cadence.Character(lib.Pick(g.r, charPool))
		case cadence.AddressType:
			return g.address()
		case cadence.StoragePathType:
			return g.path(common.PathDomainStorage)
		case cadence.PublicPathType:
			return g.path(common.PathDomainPublic)
		case cadence.PrivatePathType:
			return g.path(common.PathDomainPrivate)
		case cadence.MetaType:
			if g.r.Chance(1, 12) {
				return cadence.NewTypeValue(nil)
			}
			g.inTypeValue = true
			tv := cadence.NewTypeValue(g.AnyType(2))
			g.inTypeValue = false
			return tv
		case cadence.NeverType:
			return nil
		}
		for _, n := range numericTypes {
			if n == t {
				return g.number(t)
			}
		}
		d := depth - 1
		if d < 0 {
			d = 0
		}
		return g.ValueOf(g.concreteSubtype(t, d), d)
	case *cadence.OptionalType:
		if _, nested := t.Type.(*cadence.OptionalType); nested && g.ForCCF {
			// CCF writes nil and some(nil) of a nested optional type as the same CBOR nil and decodes
			// some(nil) (known finding ccf-roundtrip:nested-optional-nil, exercised by the corpus)
			return cadence.NewOptional(g.ValueOf(t.Type, depth))
		}
		if depth <= 0 || g.r.Chance(1, 3) {
			return cadence.NewOptional(nil)
		}
		v := g.ValueOf(t.Type, depth-1)
		if v == nil {
			return cadence.NewOptional(nil)
		}
		if tv, isTV := v.(cadence.TypeValue); isTV && tv.StaticType == nil && g.ForCCF {
			// CCF writes a type value without static type as CBOR nil (known finding ccf-roundtrip:optional-nil-type-value)
			return cadence.NewOptional(nil)
		}
		if _, isVoid := v.(cadence.Void); isVoid && g.ForCCF {
			// CCF writes Void as CBOR nil: some(()) decodes to nil (known finding ccf-roundtrip:optional-void)
			return cadence.NewOptional(nil)
		}
		return cadence.NewOptional(v)
	case *cadence.VariableSizedArrayType:
		n := 0
		if depth > 0 {
			n = g.r.Intn(4)
		}
		vs := make([]cadence.Value, n)
		for i := range vs {
			vs[i] = g.ValueOf(t.ElementType, depth-1)
		}
		return cadence.NewArray(vs).WithType(t)
	case *cadence.ConstantSizedArrayType:
		vs := make([]cadence.Value, t.Size)
		for i := range vs {
			vs[i] = g.ValueOf(t.ElementType, depth-1)
		}
		return cadence.NewArray(vs).WithType(t)
	case *cadence.DictionaryType:
		n := 0
		if depth > 0 {
			n = g.r.Intn(5)
		}
		var pairs []cadence.KeyValuePair
		seen := map[string]bool{}
		for i := 0; i < n; i++ {
			k := g.ValueOf(t.KeyType, 1)
			key := fmt.Sprintf("%T|%s", k, k.String())
			if seen[key] {
				continue
			}
			seen[key] = true
			pairs = append(pairs, cadence.KeyValuePair{Key: k, Value: g.ValueOf(t.ElementType, depth-1)})
		}
		return cadence.NewDictionary(pairs).WithType(t)
	case *cadence.InclusiveRangeType:
		a, b, c := g.number(t.ElementType), g.number(t.ElementType), g.number(t.ElementType)
		return cadence.NewInclusiveRange(a, b, c).WithType(t)
	case *cadence.CapabilityType:
		return cadence.NewCapability(cadence.UInt64(lib.Pick(g.r, []uint64{0, 1, 2, 255, 1 << 32, 1<<64 - 1})), g.address(), t.BorrowType)
	case *cadence.FunctionType:
		return cadence.NewFunction(t)
	case *cadence.StructType:
		return cadence.NewStruct(g.fieldValues(compositeTypeFields(t), depth)).WithType(t)
	case *cadence.ResourceType:
		return cadence.NewResource(g.fieldValues(compositeTypeFields(t), depth)).WithType(t)
	case *cadence.EventType:
		return cadence.NewEvent(g.fieldValues(compositeTypeFields(t), depth)).WithType(t)
	case *cadence.ContractType:
		return cadence.NewContract(g.fieldValues(compositeTypeFields(t), depth)).WithType(t)
	case *cadence.EnumType:
		return cadence.NewEnum([]cadence.Value{g.number(t.RawType)}).WithType(t)
	}
	panic(fmt.Sprintf("ValueOf: unsupported type %T %s", t, t.ID()))
}

func (g *Gen) fieldValues(fs []cadence.Field, depth int) []cadence.Value {
	vs := make([]cadence.Value, len(fs))
	for i, f := range fs {
		vs[i] = g.ValueOf(f.Type, depth-1)
	}
	return vs
}

// Value generates a universe, a type and a value of it.
func (g *Gen) Value() cadence.Value {
	g.NewUniverse()
	var t cadence.Type
	switch g.r.Intn(6) {
	case 0:
		if len(g.structs) > 0 {
			for _, s := range g.structs {
				if g.instantiable(s, nil) {
					t = s
					break
				}
			}
		}
	case 1:
		t = cadence.MetaType
	case 2:
		if v := g.manyComposites(); v != nil {
			return v
		}
	case 3:
		if v := g.hiddenComposite(2); v != nil {
			return v
		}
	}
	if t == nil {
		t = g.FieldType(3, nil)
	}
	v := g.ValueOf(t, 3)
	if v == nil {
		return cadence.NewOptional(nil)
	}
	return v
}


// manyComposites: one value that contains values (and type values) of every instantiable nominal type
// of the universe, so that all their type definitions and field orders meet in one encoding: as the
// elements of an [AnyStruct] / [AnyResource] array, or as the fields of a wrapper struct, or as the
// values of a dictionary.
func (g *Gen) manyComposites() cadence.Value {
	var structs, resources []cadence.Value
	for _, t := range g.structs {
		if !g.instantiable(t, nil) {
			continue
		}
		n := 1 + g.r.Intn(2)
		for i := 0; i < n; i++ {
			v := g.ValueOf(t, 2)
			if _, ok := t.(*cadence.ResourceType); ok {
				resources = append(resources, v)
			} else {
				structs = append(structs, v)
			}
		}
	}
	vals := structs
	elem := cadence.Type(cadence.AnyStructType)
	if len(resources) > len(structs) {
		vals, elem = resources, cadence.AnyResourceType
	}
	if len(vals) < 2 {
		return nil
	}
	for i := len(vals) - 1; i > 0; i-- {
		j := g.r.Intn(i + 1)
		vals[i], vals[j] = vals[j], vals[i]
	}
	switch g.r.Intn(4) {
	case 0: // wrapper struct with one field per value, declared with the concrete types
		fs := make([]cadence.Field, len(vals))
		for i, v := range vals {
			fs[i] = cadence.Field{Identifier: fmt.Sprintf("%s%d", g.ident(), i), Type: v.Type()}
		}
		return cadence.NewStruct(vals).WithType(cadence.NewStructType(common.StringLocation("test"), "Wrapper", fs, nil))
	case 1: // dictionary values (the pairs of a dictionary with more than one entry go through a sub-encoder)
		var ps []cadence.KeyValuePair
		for i, v := range vals {
			ps = append(ps, cadence.KeyValuePair{Key: cadence.String(fmt.Sprintf("k%d", i)), Value: v})
		}
		return cadence.NewDictionary(ps).WithType(cadence.NewDictionaryType(cadence.StringType, elem))
	case 2: // the types as type values next to the values
		if elem == cadence.AnyStructType {
			for _, t := range g.structs {
				vals = append(vals, cadence.NewTypeValue(t))
			}
		}
	}
	return cadence.NewArray(vals).WithType(cadence.NewVariableSizedArrayType(elem))
}


// hiddenComposite: a fresh composite type with 2-5 fields in random order, mixing abstract-typed fields
// (values of any concrete type) with fields of optional / array / dictionary / capability-of a nominal type
// of the universe whose VALUES are nil / empty, so that the nominal type is reachable only through the
// declared field types; nested with the given depth.
func (g *Gen) hiddenComposite(depth int) cadence.Value {
	if len(g.structs) == 0 {
		return nil
	}
	n := 2 + g.r.Intn(4)
	fields := make([]cadence.Field, n)
	vals := make([]cadence.Value, n)
	used := map[string]bool{}
	for i := 0; i < n; i++ {
		name := g.ident()
		for used[name] {
			name += fmt.Sprint(g.r.Intn(10))
		}
		used[name] = true
		var t cadence.Type
		var v cadence.Value
		nom := lib.Pick(g.r, g.structs)
		switch g.r.Intn(8) {
		case 0, 1:
			t = lib.Pick(g.r, []cadence.Type{cadence.AnyStructType, cadence.AnyResourceType, cadence.HashableStructType, cadence.NumberType})
			if t == cadence.AnyStructType && g.r.Bool() && len(g.interfaces) > 0 {
				t = g.intersectionType()
				v = g.ValueOf(cadence.IntType, 0)
			} else {
				v = g.ValueOf(t, 1)
			}
		case 2:
			t, v = cadence.NewOptionalType(nom), cadence.NewOptional(nil)
		case 3:
			at := cadence.NewVariableSizedArrayType(nom)
			t, v = at, cadence.NewArray(nil).WithType(at)
		case 4:
			dt := cadence.NewDictionaryType(cadence.StringType, nom)
			t, v = dt, cadence.NewDictionary(nil).WithType(dt)
		case 5:
			t = cadence.NewOptionalType(cadence.NewCapabilityType(cadence.NewReferenceType(cadence.UnauthorizedAccess, nom)))
			v = cadence.NewOptional(nil)
		case 6:
			if depth > 0 {
				if in := g.hiddenComposite(depth - 1); in != nil {
					t, v = in.Type(), in
					break
				}
			}
			fallthrough
		default:
			t = lib.Pick(g.r, numericTypes)
			v = g.number(t)
		}
		fields[i], vals[i] = cadence.Field{Identifier: name, Type: t}, v
	}
	loc, qid := g.qualified(50 + depth)
	switch g.r.Intn(4) {
	case 0:
		return cadence.NewResource(vals).WithType(cadence.NewResourceType(loc, qid, fields, nil))
	case 1:
		return cadence.NewEvent(vals).WithType(cadence.NewEventType(loc, qid, fields, nil))
	case 2:
		return cadence.NewContract(vals).WithType(cadence.NewContractType(loc, qid, fields, nil))
	}
	return cadence.NewStruct(vals).WithType(cadence.NewStructType(loc, qid, fields, nil))
}
