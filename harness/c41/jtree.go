package main

// jtree.go: generic ordered JSON trees (members in document order, duplicates kept), parsed from
// bytes with the token API of encoding/json, serialised back for structure-level mutations, and
// rendered as Coq terms of type `json` (C41/Json.v).

import (
	"bytes"
	stdjson "encoding/json"
	"fmt"
	"io"
	"math/big"
	"regexp"
)

type JKind int

const (
	JNull JKind = iota
	JBool
	JStr
	JNum
	JArr
	JObj
)

type JMember struct {
	Key string
	Val *JNode
}

type JNode struct {
	K   JKind
	B   bool
	S   string
	Num string // literal
	Arr []*JNode
	Obj []JMember
}

var intLit = regexp.MustCompile(`^-?(0|[1-9][0-9]*)$`)

func parseJSONTree(b []byte) (*JNode, error) {
	dec := stdjson.NewDecoder(bytes.NewReader(b))
	dec.UseNumber()
	return parseValue(dec)
}

func parseValue(dec *stdjson.Decoder) (*JNode, error) {
	tok, err := dec.Token()
	if err != nil {
		return nil, err
	}
	return parseFromToken(dec, tok)
}

func parseFromToken(dec *stdjson.Decoder, tok stdjson.Token) (*JNode, error) {
	switch t := tok.(type) {
	case nil:
		return &JNode{K: JNull}, nil
	case bool:
		return &JNode{K: JBool, B: t}, nil
	case string:
		return &JNode{K: JStr, S: t}, nil
	case stdjson.Number:
		return &JNode{K: JNum, Num: string(t)}, nil
	case stdjson.Delim:
		switch t {
		case '[':
			n := &JNode{K: JArr}
			for dec.More() {
				c, err := parseValue(dec)
				if err != nil {
					return nil, err
				}
				n.Arr = append(n.Arr, c)
			}
			if _, err := dec.Token(); err != nil {
				return nil, err
			}
			return n, nil
		case '{':
			n := &JNode{K: JObj}
			for dec.More() {
				kt, err := dec.Token()
				if err != nil {
					return nil, err
				}
				k, ok := kt.(string)
				if !ok {
					return nil, fmt.Errorf("non-string key")
				}
				c, err := parseValue(dec)
				if err != nil {
					return nil, err
				}
				n.Obj = append(n.Obj, JMember{k, c})
			}
			if _, err := dec.Token(); err != nil {
				return nil, err
			}
			return n, nil
		}
	}
	return nil, fmt.Errorf("unexpected token %v: %w", tok, io.ErrUnexpectedEOF)
}

// ModelOK: the tree only uses what the Coq model represents (integer number literals in range).
func (n *JNode) ModelOK() bool {
	switch n.K {
	case JNum:
		if !intLit.MatchString(n.Num) {
			return false
		}
		z, _ := new(big.Int).SetString(n.Num, 10)
		// uint(float64) is exact (after rounding to 53 bits) only below 2^64
		lim := new(big.Int).Lsh(big.NewInt(1), 64)
		lim.Sub(lim, big.NewInt(2048))
		return z.Sign() >= 0 && z.Cmp(lim) < 0
	case JStr:
		return true
	case JArr:
		for _, c := range n.Arr {
			if !c.ModelOK() {
				return false
			}
		}
	case JObj:
		for _, m := range n.Obj {
			if !m.Val.ModelOK() {
				return false
			}
		}
	}
	return true
}

func (n *JNode) Coq() string {
	switch n.K {
	case JNull:
		return "JNull"
	case JBool:
		return "(JBool " + coqBool(n.B) + ")"
	case JStr:
		return "(JStr " + coqStr(n.S) + ")"
	case JNum:
		z, ok := new(big.Int).SetString(n.Num, 10)
		if !ok {
			panic("non-integer number in model tree")
		}
		return "(JNum " + coqZ(z) + ")"
	case JArr:
		return "(JArr " + coqList(n.Arr, (*JNode).Coq) + ")"
	}
	return "(JObj " + coqList(n.Obj, func(m JMember) string { return "(" + coqStr(m.Key) + "," + m.Val.Coq() + ")" }) + ")"
}

func (n *JNode) write(b *bytes.Buffer) {
	switch n.K {
	case JNull:
		b.WriteString("null")
	case JBool:
		if n.B {
			b.WriteString("true")
		} else {
			b.WriteString("false")
		}
	case JStr:
		s, _ := stdjson.Marshal(n.S)
		b.Write(s)
	case JNum:
		b.WriteString(n.Num)
	case JArr:
		b.WriteByte('[')
		for i, c := range n.Arr {
			if i > 0 {
				b.WriteByte(',')
			}
			c.write(b)
		}
		b.WriteByte(']')
	case JObj:
		b.WriteByte('{')
		for i, m := range n.Obj {
			if i > 0 {
				b.WriteByte(',')
			}
			k, _ := stdjson.Marshal(m.Key)
			b.Write(k)
			b.WriteByte(':')
			m.Val.write(b)
		}
		b.WriteByte('}')
	}
}

func (n *JNode) Bytes() []byte {
	var b bytes.Buffer
	n.write(&b)
	return b.Bytes()
}

func (n *JNode) Clone() *JNode {
	c := *n
	if n.Arr != nil {
		c.Arr = make([]*JNode, len(n.Arr))
		for i, x := range n.Arr {
			c.Arr[i] = x.Clone()
		}
	}
	if n.Obj != nil {
		c.Obj = make([]JMember, len(n.Obj))
		for i, m := range n.Obj {
			c.Obj[i] = JMember{m.Key, m.Val.Clone()}
		}
	}
	return &c
}

// Walk visits every node with its parent member key ("" for array elements / root).
func (n *JNode) Walk(key string, f func(key string, n *JNode)) {
	f(key, n)
	for _, c := range n.Arr {
		c.Walk("", f)
	}
	for _, m := range n.Obj {
		m.Val.Walk(m.Key, f)
	}
}

// Nodes returns pointers to all nodes (pre-order).
func (n *JNode) Nodes() []*JNode {
	var out []*JNode
	n.Walk("", func(_ string, x *JNode) { out = append(out, x) })
	return out
}

func (n *JNode) Depth() int {
	d := 0
	for _, c := range n.Arr {
		if x := c.Depth(); x > d {
			d = x
		}
	}
	for _, m := range n.Obj {
		if x := m.Val.Depth(); x > d {
			d = x
		}
	}
	return d + 1
}

// stdjsonValidPrefix: does encoding/json's streaming decoder accept the first value of b as a JSON
// object or null (what json.Decode into a map accepts)?
func stdjsonValidPrefix(b []byte) bool {
	dec := stdjson.NewDecoder(bytes.NewReader(b))
	m := map[string]any{}
	return dec.Decode(&m) == nil
}
