package main

// ccf_model.go: conversion of values/types into the reference representation of C42/Ccf.v (every
// composite/interface type is TRef id, definitions in an environment) and the Coq cases of C42.

import (
	"fmt"
	"sort"
	"strings"

	"github.com/onflow/cadence"
	"github.com/onflow/cadence/sema"
)

type refConv struct {
	defs  map[string]*XTy
	order []string
}

func newRefConv() *refConv { return &refConv{defs: map[string]*XTy{}} }

func (rc *refConv) params(ps []cadence.Parameter) []XParam {
	out := make([]XParam, len(ps))
	for i, p := range ps {
		out[i] = XParam{p.Label, p.Identifier, rc.ty(p.Type)}
	}
	return out
}

func (rc *refConv) ty(t cadence.Type) *XTy {
	if isNilType(t) {
		return tyNil
	}
	switch t := t.(type) {
	case cadence.BytesType:
		return &XTy{K: "Simple", Name: "Bytes"}
	case cadence.PrimitiveType:
		return &XTy{K: "Simple", Name: t.ID()}
	case *cadence.OptionalType:
		return &XTy{K: "Optional", A: rc.ty(t.Type)}
	case *cadence.VariableSizedArrayType:
		return &XTy{K: "VarArray", A: rc.ty(t.ElementType)}
	case *cadence.ConstantSizedArrayType:
		return &XTy{K: "ConstArray", N: uint64(t.Size), A: rc.ty(t.ElementType)}
	case *cadence.DictionaryType:
		k := rc.ty(t.KeyType)
		return &XTy{K: "Dict", A: k, B: rc.ty(t.ElementType)}
	case *cadence.InclusiveRangeType:
		return &XTy{K: "Range", A: rc.ty(t.ElementType)}
	case *cadence.CapabilityType:
		return &XTy{K: "Capability", A: rc.ty(t.BorrowType)}
	case *cadence.ReferenceType:
		return &XTy{K: "Reference", Auth: convAuth(t.Authorization), A: rc.ty(t.Type)}
	case *cadence.IntersectionType:
		ts := make([]*XTy, len(t.Types))
		for i, x := range t.Types {
			ts[i] = rc.ty(x)
		}
		return &XTy{K: "Intersection", Ts: ts}
	case *cadence.FunctionType:
		r := &XTy{K: "Function", View: t.Purity == cadence.FunctionPurityView}
		for _, tp := range t.TypeParameters {
			r.TPs = append(r.TPs, XField{tp.Name, rc.ty(tp.TypeBound)})
		}
		r.Ps = rc.params(t.Parameters)
		r.A = rc.ty(t.ReturnType)
		return r
	}
	ck := compositeKindName(t)
	if ck == "" {
		return &XTy{K: "Unsupported", Name: fmt.Sprintf("%T", t)}
	}
	id := t.ID()
	if _, ok := rc.defs[id]; !ok {
		d := &XTy{K: "Composite", CK: ck, Name: id, A: tyNil}
		rc.defs[id] = d
		rc.order = append(rc.order, id)
		switch t := t.(type) {
		case *cadence.EnumType:
			d.A = rc.ty(t.RawType)
		case *cadence.AttachmentType:
			d.A = rc.ty(t.BaseType)
		}
		for _, f := range typeFields(t) {
			d.Fields = append(d.Fields, XField{f.Identifier, rc.ty(f.Type)})
		}
		for _, in := range typeInits(t) {
			if _, isEvent := t.(*cadence.EventType); isEvent && in == nil {
				d.Inits = append(d.Inits, []XParam{})
				continue
			}
			d.Inits = append(d.Inits, rc.params(in))
		}
	}
	return &XTy{K: "Ref", Name: id}
}

func (rc *refConv) val(v cadence.Value) *XVal {
	switch v := v.(type) {
	case cadence.Optional:
		if v.Value == nil {
			return &XVal{K: "Optional"}
		}
		return &XVal{K: "Optional", Inner: rc.val(v.Value)}
	case cadence.Array:
		r := &XVal{K: "Array", T: rc.ty(v.Type())}
		for _, e := range v.Values {
			r.L = append(r.L, rc.val(e))
		}
		return r
	case cadence.Dictionary:
		r := &XVal{K: "Dict", T: rc.ty(v.Type())}
		for _, p := range v.Pairs {
			r.Pairs = append(r.Pairs, [2]*XVal{rc.val(p.Key), rc.val(p.Value)})
		}
		return r
	case *cadence.InclusiveRange:
		return &XVal{K: "Range", T: rc.ty(v.Type()), Inner: rc.val(v.Start), A2: rc.val(v.End), A3: rc.val(v.Step)}
	case cadence.TypeValue:
		return &XVal{K: "Type", T: rc.ty(v.StaticType)}
	case cadence.Capability:
		x := convVal(v, OrderJSONEnc)
		if x.K == "Cap" {
			x.T = rc.ty(v.BorrowType)
		}
		return x
	case cadence.Function:
		if v.FunctionType == nil {
			return &XVal{K: "Func", T: tyNil}
		}
		return &XVal{K: "Func", T: rc.ty(v.FunctionType)}
	case cadence.Composite:
		t := v.Type()
		if isNilType(t) {
			return &XVal{K: "Unsupported", S: "composite without type"}
		}
		rc.ty(t)
		d := rc.defs[t.ID()]
		r := &XVal{K: "Composite", CK: d.CK, TID: d.Name, Extra: d.A, FTys: d.Fields, Inits: d.Inits}
		for _, f := range compositeFieldValues(v) {
			r.L = append(r.L, rc.val(f))
		}
		return r
	}
	return convVal(v, OrderJSONEnc)
}

func (rc *refConv) envCoq() string {
	ids := append([]string(nil), rc.order...)
	sort.Strings(ids)
	parts := make([]string, len(ids))
	for i, id := range ids {
		parts[i] = "(" + coqStr(id) + "," + rc.defs[id].Coq() + ")"
	}
	return "[" + strings.Join(parts, ";") + "]"
}

// typedefIDs reads the Cadence type IDs of the type definitions out of a real CCF message.
func typedefIDs(t *CNode) []string {
	if t == nil || t.K != CTag || t.N != 129 || len(t.Items) != 1 {
		return nil
	}
	body := t.Items[0]
	if body.K != CArr || len(body.Items) != 2 || body.Items[0].K != CArr {
		return nil
	}
	var out []string
	for _, d := range body.Items[0].Items {
		if d.K == CTag && len(d.Items) == 1 && d.Items[0].K == CArr && len(d.Items[0].Items) >= 2 && d.Items[0].Items[1].K == CText {
			out = append(out, string(d.Items[0].Items[1].B))
		}
	}
	return out
}

// modelCase records one CCcfEnc case: the model must produce exactly the observed bytes.
func (c *c42run) modelCase(v cadence.Value, det bool, b []byte, tree *CNode, origin string) {
	if c.cw == nil || (c.modelLimit > 0 && c.modelCases >= c.modelLimit) {
		return
	}
	c.modelCases++
	rc := newRefConv()
	x := rc.val(v)
	if !x.Supported() {
		return
	}
	env := rc.envCoq()
	if strings.Contains(env, "Unsupported") {
		return
	}
	ids := typedefIDs(tree)
	// hand the model the definitions in a scrambled order: it has to sort them itself
	for i := len(ids) - 1; i > 0; i-- {
		j := c.rng.Intn(i + 1)
		ids[i], ids[j] = ids[j], ids[i]
	}
	c.cw.Add(fmt.Sprintf("CCcfEnc %s %s %s %s (Ok (hx \"%x\"))", coqBool(det), env, coqList(ids, coqStr), x.Coq(), b),
		map[string]any{"kind": "ccf-encode", "deterministic": det, "origin": origin, "value": trunc(x.Coq(), 2000), "observed_hex": trunc(hex(b), 2000), "key": "ccf-encode-model"})
}


// decModelCase records one CCcfDec case: the value part of a real default-mode message, the static
// type and the value the real decoder returned (both in the reference representation built from the
// DECODED value, so that the definitions are those of the decoded type table).
func (c *c42run) decModelCase(d cadence.Value, tree *CNode, origin string) {
	if c.cw == nil || (c.modelLimit > 0 && c.modelCases >= c.modelLimit) {
		return
	}
	if tree == nil || tree.K != CTag || len(tree.Items) != 1 {
		return
	}
	body := tree.Items[0]
	if tree.N == 129 && body.K == CArr && len(body.Items) == 2 {
		body = body.Items[1]
	}
	if body.K != CArr || len(body.Items) != 2 || isNilType(d.Type()) {
		return
	}
	item, ok := body.Items[1].Coq()
	if !ok {
		return
	}
	rc := newRefConv()
	x := rc.val(d)
	st := rc.ty(d.Type())
	if !x.Supported() {
		return
	}
	env := rc.envCoq()
	if strings.Contains(env, "Unsupported") || st.K == "Unsupported" {
		return
	}
	var chars []string
	seen := map[string]bool{}
	for _, n := range body.Items[1].Nodes() {
		if n.K == CText && !seen[string(n.B)] && sema.IsValidCharacter(string(n.B)) {
			seen[string(n.B)] = true
			chars = append(chars, string(n.B))
		}
	}
	c.modelCases++
	c.cw.Add(fmt.Sprintf("CCcfDec %s %s %s %s %s", env, coqList(chars, coqStr), st.Coq(), item, x.Coq()),
		map[string]any{"kind": "ccf-decode", "origin": origin, "static_type": trunc(st.Coq(), 800), "decoded": trunc(x.Coq(), 2000), "key": "ccf-decode-model"})
}
