package main

// json_prop.go: C41 — JSON-Cadence encoding round-trips and decoding is robust.

import (
	"bytes"
	"fmt"
	"math/big"
	"sort"
	"strings"

	"cvh/lib"

	"github.com/onflow/cadence"
	"github.com/onflow/cadence/common"
	cjson "github.com/onflow/cadence/encoding/json"
	"github.com/onflow/cadence/sema"
)

func jsonEncode(v cadence.Value) (b []byte, out outcome) {
	defer func() {
		if r := recover(); r != nil {
			out = outcome{cls: lib.ECrash, panicVal: r}
		}
	}()
	b, err := cjson.Encode(v)
	return b, outcome{cls: classifyErr(err), err: err}
}

func jsonDecode(b []byte) (v cadence.Value, out outcome) {
	defer func() {
		if r := recover(); r != nil {
			out = outcome{cls: lib.ECrash, panicVal: r}
			v = nil
		}
	}()
	v, err := cjson.Decode(nil, b)
	return v, outcome{cls: classifyErr(err), err: err}
}

// decodeTidOracle reproduces decodeCompositeTypeID's use of the (external) common.DecodeTypeID and
// sema.NativeCompositeTypes: the ID of the type built from the string, or "" / false when rejected.
func decodeTidOracle(s string) (canon string, ok bool) {
	defer func() {
		if r := recover(); r != nil {
			canon, ok = "", false
		}
	}()
	loc, qid, err := common.DecodeTypeID(nil, s)
	if err != nil {
		return "", false
	}
	if loc == nil && sema.NativeCompositeTypes[s] == nil {
		return "", false
	}
	return string(common.NewTypeIDFromQualifiedName(nil, loc, qid)), true
}

// oracles collects, for a JSON document, the external facts the model needs.
func oracles(t *JNode) (chars string, tids string) {
	cs := map[string]bool{}
	ts := map[string]bool{}
	t.Walk("", func(key string, n *JNode) {
		if n.K != JStr {
			return
		}
		switch key {
		case "value":
			if sema.IsValidCharacter(n.S) {
				cs[n.S] = true
			}
		case "id", "typeID":
			ts[n.S] = true
		}
	})
	var cl, tl []string
	for c := range cs { //nolint:maprange
		cl = append(cl, c)
	}
	sort.Strings(cl)
	for s := range ts { //nolint:maprange
		tl = append(tl, s)
	}
	sort.Strings(tl)
	chars = coqList(cl, coqStr)
	tids = coqList(tl, func(s string) string {
		c, ok := decodeTidOracle(s)
		if !ok {
			return "(" + coqStr(s) + ",None)"
		}
		return "(" + coqStr(s) + ",Some " + coqStr(c) + ")"
	})
	return
}

func resTerm(cls string, ok string) string {
	if cls != "" {
		return "(Err " + cls + ")"
	}
	return "(Ok " + ok + ")"
}

type c41run struct {
	sum      *lib.Summary
	cw       *lib.CaseWriter
	rng      *lib.Rng
	distinct map[string]bool
	// noModel: mutants are only run through the real decoder (panic monitor), not sent to the Coq model
	// (bounds the number of Coq cases in the thorough tier)
	noModel bool
}

func trunc(s string, n int) string {
	if len(s) > n {
		return s[:n] + "..."
	}
	return s
}

// decodeCase runs the real decoder on doc and records a CDec case (when the model can represent the
// document and the result). A panic escaping Decode is a direct failure. Returns the decoded value.
func (c *c41run) decodeCase(doc []byte, tree *JNode, origin string, panicKey string) (cadence.Value, outcome) {
	return c.decodeCaseOf(nil, doc, tree, origin, panicKey)
}

// decodeCaseOf: as decodeCase; when orig is given the document is the real encoding of orig and one
// CRound case (encode and decode) is recorded.
func (c *c41run) decodeCaseOf(orig *XVal, doc []byte, tree *JNode, origin string, panicKey string) (cadence.Value, outcome) {
	d, out := jsonDecode(doc)
	c.sum.Evaluations++
	c.sum.Count("decode:" + origin)
	switch out.cls {
	case "":
		c.sum.Count("decode-result:value")
	case lib.ECrash:
		c.sum.Count("decode-result:panic-escaped")
		key := panicKey
		if key == "" {
			key = "json-decode-panic:" + panicClass(out.panicVal)
		}
		c.sum.Fail(key,
			fmt.Sprintf("json.Decode panicked (%T: %v) on %s", out.panicVal, out.panicVal, trunc(string(doc), 300)),
			map[string]any{"input_json": string(doc), "panic": fmt.Sprint(out.panicVal), "origin": origin, "required": "value or error"})
	case lib.EInternal:
		c.sum.Count("decode-result:error(recovered runtime panic)")
	default:
		c.sum.Count("decode-result:error")
	}
	if tree == nil || !tree.ModelOK() || tree.Depth() > 60 || (c.noModel && orig == nil) {
		return d, out
	}
	obs := ""
	if out.cls == "" {
		x := convVal(d, OrderJSONDec)
		if !x.Supported() {
			return d, out
		}
		obs = x.Coq()
	}
	chars, tids := oracles(tree)
	if orig != nil {
		c.cw.Add(fmt.Sprintf("CRound %s %s %s %s %s", orig.Coq(), tree.Coq(), chars, tids, resTerm(out.cls, obs)),
			map[string]any{"kind": "encode+decode", "origin": origin, "value": trunc(orig.Coq(), 1500), "observed_json": trunc(string(doc), 2000), "observed_decode": out.cls, "key": "json-roundtrip-model:" + origin})
		return d, out
	}
	c.cw.Add(fmt.Sprintf("CDec %s %s %s %s", tree.Coq(), chars, tids, resTerm(out.cls, obs)),
		map[string]any{"kind": "decode", "origin": origin, "input_json": trunc(string(doc), 2000), "observed": out.cls, "key": "json-decode-model:" + origin})
	return d, out
}

func panicClass(v any) string {
	s := fmt.Sprint(v)
	switch {
	case strings.Contains(s, "Restriction kind is not supported"):
		return "restriction-kind"
	case strings.Contains(s, "nil pointer"):
		return "nil-deref"
	case strings.Contains(s, "index out of range"), strings.Contains(s, "slice bounds"):
		return "bounds"
	}
	return "other"
}

// roundTrip checks the property on one value; findingKey != "" marks a corpus case exercising a known
// input class (its failures are reported under that key).
func (c *c41run) roundTrip(v cadence.Value, origin string, findingKey string, mutate bool) {
	c.sum.Evaluations++
	c.sum.Count("value:" + origin)
	xv := convVal(v, OrderJSONEnc)
	b, eo := jsonEncode(v)
	if eo.cls == lib.ECrash {
		c.sum.Fail("json-encode-panic", fmt.Sprintf("json.Encode panicked: %v on %s", eo.panicVal, trunc(xv.safeCoq(), 300)),
			map[string]any{"value": xv.safeCoq(), "panic": fmt.Sprint(eo.panicVal)})
		return
	}
	if !xv.Supported() {
		return
	}
	if eo.cls != "" {
		c.cw.Add(fmt.Sprintf("CEnc %s (Err %s)", xv.Coq(), eo.cls), map[string]any{"kind": "encode", "origin": origin, "value": trunc(xv.Coq(), 1500), "observed": eo.cls, "key": "json-encode-model"})
		return
	}
	tree, err := parseJSONTree(b)
	if err != nil {
		c.sum.Fail("json-encode-invalid", "json.Encode produced bytes that do not parse: "+err.Error(), map[string]any{"bytes": string(b)})
		return
	}
	key := xv.Coq()
	if !c.distinct[key] {
		c.distinct[key] = true
		if len(key) > 40 {
			c.sum.DistinctNontrivial++
		}
	}
	c.sum.Sample(map[string]string{"value": trunc(key, 200), "json": trunc(string(b), 300)})
	// the real decoder on the real encoding (one Coq case for encode and decode)
	d, out := c.decodeCaseOf(xv, b, tree, origin+":roundtrip", "")
	fail := func(what string, extra map[string]any) {
		k := findingKey
		if k == "" {
			k = "json-roundtrip:" + origin
		}
		extra["value"] = trunc(xv.Coq(), 3000)
		extra["json"] = trunc(string(b), 3000)
		c.sum.Fail(k, what, extra)
	}
	if out.cls == lib.ECrash {
		return // already reported
	}
	if out.cls != "" {
		fail(fmt.Sprintf("decoding the JSON-Cadence encoding of a value fails: %v", out.err), map[string]any{"error": fmt.Sprint(out.err), "required": "decodes to a value that re-encodes to the same JSON"})
		return
	}
	// (1) re-encoding gives the same JSON
	b2, eo2 := jsonEncode(d)
	if eo2.cls != "" || !bytes.Equal(b, b2) {
		fail("decoded value does not re-encode to the same JSON", map[string]any{"reencoded": trunc(string(b2), 3000), "reencode_error": fmt.Sprint(eo2.err)})
	}
	// (2) equal after erasure (independent Go erasure on the trees)
	xd := convVal(d, OrderJSONEnc)
	if xd.Supported() && xd.Erase().Coq() != xv.Erase().Coq() {
		fail("decoded value differs from the original after erasing the static types JSON-Cadence does not carry",
			map[string]any{"decoded": trunc(xd.Erase().Coq(), 3000), "original_erased": trunc(xv.Erase().Coq(), 3000)})
	}
	// (3) embedded types decode to equal types
	c.compareEmbeddedTypes(v, d, findingKey, origin, xv)

	if mutate {
		c.mutations(b, tree, origin)
	}
}

func embeddedType(v cadence.Value) (cadence.Type, bool) {
	switch v := v.(type) {
	case cadence.TypeValue:
		return v.StaticType, true
	case cadence.Capability:
		return v.BorrowType, true
	case cadence.Function:
		return v.FunctionType, true
	}
	return nil, false
}

// compareEmbeddedTypes walks original and decoded value in parallel and compares the types they embed
// with cadence's own Type.Equal (both directions) and by type ID.
func (c *c41run) compareEmbeddedTypes(a, b cadence.Value, findingKey, origin string, xv *XVal) {
	if a == nil || b == nil {
		return
	}
	if ta, ok := embeddedType(a); ok {
		tb, _ := embeddedType(b)
		if isNilType(ta) || isNilType(tb) {
			if isNilType(ta) != isNilType(tb) {
				c.sum.Fail("json-type-equal:nil", "nil embedded type decoded to non-nil or vice versa", map[string]any{"value": trunc(xv.Coq(), 2000)})
			}
			return
		}
		eq1, eq2, ida, idb := safeEqual(ta, tb), safeEqual(tb, ta), safeID(ta), safeID(tb)
		c.sum.Count("embedded-type-compared")
		if !eq1 || !eq2 || ida != idb {
			k := findingKey
			if k == "" {
				k = "json-type-equal:" + origin
				if hasIntersection(ta) {
					k = "json-type-equal:intersection"
				}
			}
			c.sum.Fail(k, fmt.Sprintf("embedded type %s decodes to a type that is not Equal (a.Equal(b)=%v, b.Equal(a)=%v, IDs %q / %q)", ida, eq1, eq2, ida, idb),
				map[string]any{"type": freshTy(ta, OrderJSONEnc).Coq(), "decoded_type": freshTy(tb, OrderJSONEnc).Coq(), "equal": eq1, "equal_rev": eq2})
		}
		return
	}
	switch a := a.(type) {
	case cadence.Optional:
		if bo, ok := b.(cadence.Optional); ok {
			c.compareEmbeddedTypes(a.Value, bo.Value, findingKey, origin, xv)
		}
	case cadence.Array:
		if bo, ok := b.(cadence.Array); ok && len(bo.Values) == len(a.Values) {
			for i := range a.Values {
				c.compareEmbeddedTypes(a.Values[i], bo.Values[i], findingKey, origin, xv)
			}
		}
	case cadence.Dictionary:
		if bo, ok := b.(cadence.Dictionary); ok && len(bo.Pairs) == len(a.Pairs) {
			for i := range a.Pairs {
				c.compareEmbeddedTypes(a.Pairs[i].Key, bo.Pairs[i].Key, findingKey, origin, xv)
				c.compareEmbeddedTypes(a.Pairs[i].Value, bo.Pairs[i].Value, findingKey, origin, xv)
			}
		}
	case cadence.Composite:
		if bo, ok := b.(cadence.Composite); ok {
			fa, fb := compositeFieldValues(a), compositeFieldValues(bo)
			if len(fa) == len(fb) {
				for i := range fa {
					c.compareEmbeddedTypes(fa[i], fb[i], findingKey, origin, xv)
				}
			}
		}
	}
}

func hasIntersection(t cadence.Type) bool {
	return strings.Contains(freshTy(t, OrderJSONEnc).Coq(), "TIntersection [(")
}

func safeEqual(a, b cadence.Type) (r bool) {
	defer func() {
		if recover() != nil {
			r = false
		}
	}()
	return a.Equal(b)
}

func safeID(a cadence.Type) (r string) {
	defer func() {
		if rec := recover(); rec != nil {
			r = fmt.Sprintf("<ID() panics: %v>", rec)
		}
	}()
	return a.ID()
}

// ---------------------------------------------------------------- mutations

var typeStrings = []string{"Void", "Optional", "Bool", "Character", "String", "Address", "Int", "Int8", "Int16", "Int32", "Int64",
	"Int128", "Int256", "UInt", "UInt8", "UInt16", "UInt32", "UInt64", "UInt128", "UInt256", "Word8", "Word16", "Word32", "Word64",
	"Word128", "Word256", "Fix64", "Fix128", "UFix64", "UFix128", "Array", "Dictionary", "Struct", "Resource", "Attachment", "Event",
	"Contract", "Path", "Type", "Capability", "Enum", "Function", "InclusiveRange", "Foo", ""}

var kindStrings = []string{"Function", "Intersection", "Optional", "Restriction", "VariableSizedArray", "Capability", "Dictionary",
	"InclusiveRange", "ConstantSizedArray", "Reference", "Struct", "Resource", "Event", "Contract", "StructInterface",
	"ResourceInterface", "ContractInterface", "Enum", "Attachment", "Int", "AnyStruct", "Bytes", "Never", "Unknown", "",
	"Unauthorized", "EntitlementMapAuthorization", "EntitlementConjunctionSet", "EntitlementDisjunctionSet"}

var numberStrings = []string{"0", "-0", "+0", "1", "-1", "+1", "127", "128", "-128", "-129", "255", "256", "32767", "32768", "-32769",
	"65535", "65536", "2147483647", "2147483648", "-2147483649", "4294967295", "4294967296", "9223372036854775807",
	"9223372036854775808", "-9223372036854775808", "-9223372036854775809", "18446744073709551615", "18446744073709551616",
	"170141183460469231731687303715884105727", "170141183460469231731687303715884105728", "-170141183460469231731687303715884105729",
	"340282366920938463463374607431768211455", "340282366920938463463374607431768211456",
	"57896044618658097711785492504343953926634992332820282019728792003956564819967",
	"57896044618658097711785492504343953926634992332820282019728792003956564819968",
	"-57896044618658097711785492504343953926634992332820282019728792003956564819969",
	"115792089237316195423570985008687907853269984665640564039457584007913129639935",
	"115792089237316195423570985008687907853269984665640564039457584007913129639936",
	"007", "1_000", "0x10", "1e3", "1.0", " 1", "1 ", "", "-", "+", "--1", "１２", "1.5", "0.00000001", "-0.00000001", "0.123456789",
	"92233720368.54775807", "92233720368.54775808", "-92233720368.54775808", "-92233720368.54775809", "184467440737.09551615",
	"184467440737.09551616", "1.", ".5", "1.5.5", "1.-5", "+1.5", "-0.0", "170141183460469.231731687303715884105727",
	"170141183460469.231731687303715884105728", "340282366920938.463463374607431768211455", "340282366920938.463463374607431768211456",
	"0.000000000000000000000001", "0.0000000000000000000000001", "99999999999999999999999999999999999999999999999999999999999999999999999999999999999999"}

var idStrings = []string{"S.test.Foo", "A.0000000000000001.Foo", "A.01.Foo", "A.1.Foo", "A.zz.Foo", "A.000000000000000001.Foo", "A.0000000000000001",
	"Foo", "PublicKey", "HashAlgorithm", "flow.AccountCreated", "I.Crypto.X", "s.00.X", "t.00", "REPL.X", "", "S", "S.", "S..", "A", "A.", ".", "X.y.z", "S.a.b.c"}

func (c *c41run) mutateTree(t *JNode) (*JNode, string) {
	m := t.Clone()
	nodes := m.Nodes()
	r := c.rng
	pickNode := func(pred func(*JNode) bool) *JNode {
		var cand []*JNode
		for _, n := range nodes {
			if pred(n) {
				cand = append(cand, n)
			}
		}
		if len(cand) == 0 {
			return nil
		}
		return cand[r.Intn(len(cand))]
	}
	objWith := func(key string) func(*JNode) bool {
		return func(n *JNode) bool {
			if n.K != JObj {
				return false
			}
			for _, mm := range n.Obj {
				if mm.Key == key {
					return true
				}
			}
			return false
		}
	}
	setMember := func(n *JNode, key string, v *JNode) {
		for i := range n.Obj {
			if n.Obj[i].Key == key {
				n.Obj[i].Val = v
			}
		}
	}
	getMember := func(n *JNode, key string) *JNode {
		var res *JNode
		for i := range n.Obj {
			if n.Obj[i].Key == key {
				res = n.Obj[i].Val
			}
		}
		return res
	}
	for try := 0; try < 8; try++ {
		switch r.Intn(17) {
		case 0: // swap the "type" of a value object
			if n := pickNode(objWith("type")); n != nil {
				setMember(n, "type", &JNode{K: JStr, S: lib.Pick(r, typeStrings)})
				return m, "swap-type"
			}
		case 1: // swap the "kind" of a type object
			if n := pickNode(objWith("kind")); n != nil {
				setMember(n, "kind", &JNode{K: JStr, S: lib.Pick(r, kindStrings)})
				return m, "swap-kind"
			}
		case 2: // replace a string "value" by a number-ish string
			if n := pickNode(func(n *JNode) bool { return objWith("value")(n) && getMember(n, "value").K == JStr }); n != nil {
				setMember(n, "value", &JNode{K: JStr, S: lib.Pick(r, numberStrings)})
				return m, "number-string"
			}
		case 3: // remove a member
			if n := pickNode(func(n *JNode) bool { return n.K == JObj && len(n.Obj) > 0 }); n != nil {
				i := r.Intn(len(n.Obj))
				n.Obj = append(n.Obj[:i:i], n.Obj[i+1:]...)
				return m, "remove-member"
			}
		case 4: // duplicate a member (possibly with another value): last one wins in Go
			if n := pickNode(func(n *JNode) bool { return n.K == JObj && len(n.Obj) > 0 }); n != nil {
				i := r.Intn(len(n.Obj))
				dup := JMember{n.Obj[i].Key, n.Obj[i].Val.Clone()}
				if r.Bool() {
					dup.Val = nodes[r.Intn(len(nodes))].Clone()
				}
				if r.Bool() {
					n.Obj = append(n.Obj, dup)
				} else {
					n.Obj = append([]JMember{dup}, n.Obj...)
				}
				return m, "duplicate-key"
			}
		case 5: // wrong JSON kind for a node
			n := nodes[r.Intn(len(nodes))]
			repl := []*JNode{{K: JNull}, {K: JBool, B: true}, {K: JStr, S: ""}, {K: JStr, S: "x"}, {K: JNum, Num: "1"}, {K: JArr}, {K: JObj},
				{K: JNum, Num: "0"}, {K: JArr, Arr: []*JNode{{K: JNull}}}}
			*n = *lib.Pick(r, repl)
			return m, "wrong-json-kind"
		case 6: // replace a subtree by another subtree of the document
			a, b := nodes[r.Intn(len(nodes))], nodes[r.Intn(len(nodes))]
			if a != m {
				*a = *b.Clone()
				return m, "graft-subtree"
			}
		case 7: // extra member
			if n := pickNode(func(n *JNode) bool { return n.K == JObj }); n != nil {
				n.Obj = append(n.Obj, JMember{lib.Pick(r, []string{"extra", "path", "authorized", "typeBound", "purity", "typeParameters", "value", "type", "kind"}),
					lib.Pick(r, []*JNode{{K: JNull}, {K: JStr, S: "view"}, {K: JBool, B: true}, {K: JArr}, {K: JObj}})})
				return m, "extra-member"
			}
		case 8: // type ID strings
			if n := pickNode(func(n *JNode) bool { return objWith("id")(n) || objWith("typeID")(n) }); n != nil {
				k := "id"
				if objWith("typeID")(n) {
					k = "typeID"
				}
				setMember(n, k, &JNode{K: JStr, S: lib.Pick(r, idStrings)})
				return m, "type-id"
			}
		case 9: // replace a type object by a type ID string (reference to an enclosing/earlier type or not)
			if n := pickNode(objWith("kind")); n != nil {
				ids := []string{"", "S.test.Foo"}
				m.Walk("", func(key string, x *JNode) {
					if key == "typeID" && x.K == JStr {
						ids = append(ids, x.S)
					}
				})
				*n = JNode{K: JStr, S: lib.Pick(r, ids)}
				return m, "type-to-id-string"
			}
		case 10: // size of constant sized arrays
			if n := pickNode(objWith("size")); n != nil {
				setMember(n, "size", &JNode{K: JNum, Num: lib.Pick(r, []string{"0", "1", "9007199254740992", "9007199254740993", "9007199254740995",
					"18014398509481985", "4611686018427387904", "9223372036854775808", "18446744073709549568", "-1", "1.5", "1e300", "18446744073709551616"})})
				return m, "array-size"
			}
		case 11: // addresses
			if n := pickNode(func(n *JNode) bool {
				return (objWith("address")(n)) || (objWith("value")(n) && getMember(n, "value").K == JStr && strings.HasPrefix(getMember(n, "value").S, "0x"))
			}); n != nil {
				k := "value"
				if objWith("address")(n) {
					k = "address"
				}
				setMember(n, k, &JNode{K: JStr, S: lib.Pick(r, []string{"0x", "0x1", "0x01", "0X01", "0xFFffFFffFFffFFff", "0x000000000000000001", "0x00000000000000000001",
					"0xzz", "1", "", "0", "x0", "0x0000000000000001 ", "0xé"})})
				return m, "address"
			}
		case 12: // empty / truncate an array
			if n := pickNode(func(n *JNode) bool { return n.K == JArr && len(n.Arr) > 0 }); n != nil {
				n.Arr = n.Arr[:r.Intn(len(n.Arr))]
				return m, "truncate-array"
			}
		case 13: // duplicate an array element
			if n := pickNode(func(n *JNode) bool { return n.K == JArr && len(n.Arr) > 0 }); n != nil {
				n.Arr = append(n.Arr, n.Arr[r.Intn(len(n.Arr))].Clone())
				return m, "duplicate-element"
			}
		case 14: // path domains, characters
			if n := pickNode(func(n *JNode) bool { return objWith("domain")(n) }); n != nil {
				setMember(n, "domain", &JNode{K: JStr, S: lib.Pick(r, []string{"storage", "public", "private", "Storage", "", "unknown"})})
				return m, "path-domain"
			}
		case 15:
			if n := pickNode(func(n *JNode) bool {
				return objWith("type")(n) && getMember(n, "type").K == JStr && getMember(n, "type").S == "Character"
			}); n != nil {
				setMember(n, "value", &JNode{K: JStr, S: lib.Pick(r, []string{"", "ab", "a", "é", "\r\n", "\n\r", "🇩🇪🇩", "á́"})})
				return m, "character"
			}
		case 16: // entitlements
			if n := pickNode(objWith("entitlements")); n != nil {
				setMember(n, "entitlements", lib.Pick(r, []*JNode{{K: JNull}, {K: JArr}, {K: JArr, Arr: []*JNode{{K: JObj}}},
					{K: JArr, Arr: []*JNode{{K: JObj, Obj: []JMember{{"typeID", &JNode{K: JStr, S: "S.test.E"}}}}, {K: JObj, Obj: []JMember{{"typeID", &JNode{K: JStr, S: "S.test.F"}}}}}}}))
				return m, "entitlements"
			}
		}
	}
	return m, "none"
}

func (c *c41run) mutations(b []byte, tree *JNode, origin string) {
	nStruct, nByte := 3, 2
	if thorough() {
		nStruct, nByte = 8, 6
	}
	for i := 0; i < nStruct; i++ {
		m, what := c.mutateTree(tree)
		if c.rng.Chance(1, 4) { // second mutation
			m, _ = c.mutateTree(m)
			what += "+"
		}
		c.decodeCase(m.Bytes(), m, "mutation:"+what, "")
	}
	for i := 0; i < nByte; i++ {
		mb := append([]byte(nil), b...)
		what := ""
		switch c.rng.Intn(5) {
		case 0:
			mb = mb[:c.rng.Intn(len(mb)+1)]
			what = "truncate"
		case 1:
			if len(mb) > 0 {
				mb[c.rng.Intn(len(mb))] = byte(c.rng.Intn(256))
			}
			what = "byte-set"
		case 2:
			if len(mb) > 0 {
				i := c.rng.Intn(len(mb))
				mb = append(mb[:i:i], mb[i+1:]...)
			}
			what = "byte-delete"
		case 3:
			i := c.rng.Intn(len(mb) + 1)
			ins := lib.Pick(c.rng, []string{"\"", "{", "}", "[", "]", ",", ":", "null", "\\", "\xff", "\\ud800", "1e999", "0", "-"})
			mb = append(mb[:i:i], append([]byte(ins), mb[i:]...)...)
			what = "insert"
		default:
			if len(mb) > 1 {
				i, j := c.rng.Intn(len(mb)), c.rng.Intn(len(mb))
				mb[i], mb[j] = mb[j], mb[i]
			}
			what = "swap"
		}
		var t *JNode
		if pt, err := parseJSONTree(mb); err == nil {
			// encoding/json accepts a prefix that is a complete value followed by anything
			t = pt
		}
		// only documents that the Go JSON decoder accepts reach the Cadence decoder; the model is used for those
		if t != nil && !stdjsonValidPrefix(mb) {
			t = nil
		}
		c.decodeCase(mb, t, "bytes:"+what, "")
	}
}

// ---------------------------------------------------------------- fixed corpus

func (c *c41run) corpus() {
	loc := common.StringLocation("test")
	// --- boundary numbers of every numeric kind
	for _, t := range numericTypes {
		id := t.ID()
		for _, z := range boundaryNumbers(id) {
			c.roundTrip(makeNumber(id, z), "corpus:number", "", false)
		}
	}
	// numeric strings through every numeric decoder (accept/reject and value), malformed included
	for _, t := range numericTypes {
		for i, s := range numberStrings {
			if !thorough() && (i*7+len(t.ID()))%4 != 0 {
				continue
			}
			doc := &JNode{K: JObj, Obj: []JMember{{"type", &JNode{K: JStr, S: t.ID()}}, {"value", &JNode{K: JStr, S: s}}}}
			c.decodeCase(doc.Bytes(), doc, "corpus:number-string", "")
		}
	}
	// --- all simple types as type values
	for _, t := range append([]cadence.Type{cadence.TheBytesType}, allPrimitiveTypes...) {
		c.roundTrip(cadence.NewTypeValue(t), "corpus:simple-type", "", false)
	}
	// --- hand-written structure
	iface := cadence.NewStructInterfaceType(loc, "I", nil, nil)
	bar := cadence.NewStructType(loc, "Bar", []cadence.Field{{Identifier: "x", Type: cadence.IntType}}, nil)
	rfields := make([]cadence.Field, 2)
	rec := cadence.NewResourceType(loc, "Node", rfields, nil)
	rfields[0] = cadence.Field{Identifier: "next", Type: cadence.NewOptionalType(rec)}
	rfields[1] = cadence.Field{Identifier: "all", Type: cadence.NewDictionaryType(cadence.StringType, cadence.NewCapabilityType(cadence.NewReferenceType(cadence.UnauthorizedAccess, rec)))}
	c.roundTrip(cadence.NewTypeValue(rec), "corpus:recursive-type", "", true)
	c.roundTrip(cadence.NewTypeValue(cadence.NewFunctionType(cadence.FunctionPurityView,
		[]cadence.TypeParameter{{Name: "T", TypeBound: cadence.NewReferenceType(cadence.UnauthorizedAccess, rec)}},
		[]cadence.Parameter{{Label: "a", Identifier: "b", Type: rec}, {Identifier: "c", Type: cadence.NewVariableSizedArrayType(rec)}}, bar)), "corpus:function-type", "", true)
	c.roundTrip(cadence.NewCapability(7, cadence.Address{0, 0, 0, 0, 0, 0, 0, 1}, cadence.NewReferenceType(
		cadence.NewEntitlementSetAuthorization(nil, []common.TypeID{"S.test.F", "S.test.E"}, cadence.Disjunction), rec)), "corpus:capability", "", true)
	c.roundTrip(cadence.NewOptional(cadence.NewOptional(nil)), "corpus:optional", "", true)
	c.roundTrip(cadence.NewStruct([]cadence.Value{cadence.NewInt(1)}).WithType(bar), "corpus:struct", "", true)
	c.roundTrip(cadence.NewEvent([]cadence.Value{cadence.NewOptional(cadence.String("x"))}).WithType(
		cadence.NewEventType(loc, "Ev", []cadence.Field{{Identifier: "msg", Type: cadence.NewOptionalType(cadence.StringType)}}, nil)), "corpus:event", "", true)

	// distinct types with the same qualified identifier at different locations in one value
	sameNameValues(func(v cadence.Value, origin string) { c.roundTrip(v, origin, "", false) })

	// --- known input classes (findings): exercised on every run
	// F1: the deprecated "Restriction" kind panics with a string (not an error): the panic escapes Decode
	doc := []byte(`{"type":"Type","value":{"staticType":{"kind":"Restriction","typeID":"","type":"","restrictions":[]}}}`)
	t, _ := parseJSONTree(doc)
	c.decodeCase(doc, t, "corpus:restriction-kind", "json-decode-panic:restriction-kind")
	// F2: a composite type used by a field and by an initializer parameter of the same type
	foo := cadence.NewStructType(loc, "Foo", []cadence.Field{{Identifier: "bar", Type: bar}},
		[][]cadence.Parameter{{{Label: "", Identifier: "bar", Type: bar}}})
	c.roundTrip(cadence.NewTypeValue(foo), "corpus:field-and-initializer", "json-roundtrip:type-shared-by-field-and-initializer", false)
	self := cadence.NewResourceType(loc, "R", nil, nil)
	self.Initializers = [][]cadence.Parameter{{{Identifier: "other", Type: cadence.NewOptionalType(self)}}}
	c.roundTrip(cadence.NewTypeValue(self), "corpus:self-in-initializer", "json-roundtrip:type-shared-by-field-and-initializer", false)
	// F3: function type with a type parameter that has no bound
	c.roundTrip(cadence.NewTypeValue(cadence.NewFunctionType(cadence.FunctionPurityImpure, []cadence.TypeParameter{{Name: "T"}},
		[]cadence.Parameter{{Identifier: "x", Type: cadence.IntType}}, cadence.VoidType)), "corpus:typeparam-nobound", "json-roundtrip:typeparam-without-bound", false)
	// F4: attachments (exported as extra field values of composites) cannot be decoded
	att := cadence.NewAttachment([]cadence.Value{cadence.NewInt(1)}).WithType(
		cadence.NewAttachmentType(loc, "Att", bar, []cadence.Field{{Identifier: "a", Type: cadence.IntType}}, nil))
	c.roundTrip(att, "corpus:attachment", "json-roundtrip:attachment-value", false)
	c.roundTrip(cadence.NewStruct([]cadence.Value{cadence.NewInt(1), att}).WithType(bar), "corpus:struct-with-attachment", "json-roundtrip:attachment-value", false)
	// F5: constant-sized array sizes above 2^53 go through float64
	c.roundTrip(cadence.NewTypeValue(cadence.NewConstantSizedArrayType(1<<53+1, cadence.IntType)), "corpus:array-size", "json-roundtrip:const-array-size-above-2^53", false)
	// F6: IntersectionType.Equal compares member pointers
	c.roundTrip(cadence.NewTypeValue(cadence.NewIntersectionType([]cadence.Type{iface})), "corpus:intersection", "json-type-equal:intersection", false)
}

func boundaryNumbers(id string) []*big.Int {
	two := func(n uint) *big.Int { return new(big.Int).Lsh(big.NewInt(1), n) }
	var lo, hi *big.Int
	bits := map[string]uint{"Int8": 8, "Int16": 16, "Int32": 32, "Int64": 64, "Int128": 128, "Int256": 256, "Fix64": 64, "Fix128": 128}
	ubits := map[string]uint{"UInt8": 8, "UInt16": 16, "UInt32": 32, "UInt64": 64, "UInt128": 128, "UInt256": 256,
		"Word8": 8, "Word16": 16, "Word32": 32, "Word64": 64, "Word128": 128, "Word256": 256, "UFix64": 64, "UFix128": 128}
	if b, ok := bits[id]; ok {
		lo, hi = new(big.Int).Neg(two(b-1)), new(big.Int).Sub(two(b-1), big.NewInt(1))
	} else if b, ok := ubits[id]; ok {
		lo, hi = big.NewInt(0), new(big.Int).Sub(two(b), big.NewInt(1))
	} else if id == "Int" {
		lo, hi = new(big.Int).Neg(two(300)), two(300)
	} else {
		lo, hi = big.NewInt(0), two(300)
	}
	cands := []*big.Int{lo, hi, new(big.Int).Add(lo, big.NewInt(1)), new(big.Int).Sub(hi, big.NewInt(1)), big.NewInt(0), big.NewInt(1), big.NewInt(-1),
		big.NewInt(10), big.NewInt(-10), big.NewInt(99999999), big.NewInt(100000000), big.NewInt(100000001), big.NewInt(-99999999), big.NewInt(-100000000),
		big.NewInt(-100000001), big.NewInt(150000000), big.NewInt(-150000000), big.NewInt(-50000000), big.NewInt(50000000),
		new(big.Int).Neg(pow10(24)), pow10(24), new(big.Int).Sub(pow10(24), big.NewInt(1)), new(big.Int).Neg(new(big.Int).Sub(pow10(24), big.NewInt(1))),
		new(big.Int).Add(pow10(24), big.NewInt(1)), two(63), two(64), new(big.Int).Neg(two(63)), new(big.Int).Sub(two(64), big.NewInt(1))}
	var out []*big.Int
	seen := map[string]bool{}
	for _, z := range cands {
		if z.Cmp(lo) >= 0 && z.Cmp(hi) <= 0 && !seen[z.String()] {
			seen[z.String()] = true
			out = append(out, z)
		}
	}
	return out
}

func c41(sum *lib.Summary) {
	c := &c41run{sum: sum, rng: lib.NewRng(mixSeed(*seed)), distinct: map[string]bool{}}
	newWriter := func(prefix string, perFile int) *lib.CaseWriter {
		return &lib.CaseWriter{
			Dir: *dir, Prefix: prefix,
			Header:   "From Coq Require Import String.\nFrom CV Require Import C41.Cases.",
			ElemType: "jcase",
			CheckFn:  "check_case",
			PerFile:  perFile,
		}
	}
	// small corpus cases and (much larger) generated cases go to separate shards of similar cost
	c.cw = newWriter("cases_C41_corpus", 250)
	genWriter := newWriter("cases_C41_gen", 90)
	sum.Rule = "values from the recursive type-directed generator (every cadence.Value kind, recursive/shared/parameterised types, boundary numbers of all 24 numeric kinds, " +
		"Unicode strings and grapheme-cluster characters) and a fixed corpus: real json.Encode output parsed to an ordered JSON tree is compared with the Coq model's tree; " +
		"real json.Decode of the encoding is checked in Go (re-encodes to the same bytes, equals the original after an independent erasure, embedded types Equal + same ID) " +
		"and against the Coq decoder; structure-level mutants (type/kind swaps, number strings, removed/duplicated/extra members, wrong JSON kinds, grafted subtrees, type ID " +
		"strings, array sizes, addresses) and byte-level mutants (truncate, set, delete, insert, swap) must give value or error (a panic escaping json.Decode is a direct failure) " +
		"and, when they still parse, the same result as the Coq decoder; type IDs of generated types vs the model's ty_id; the decoder's table of simple types vs the model's. " +
		"non-trivial = distinct value whose Coq term is longer than 40 characters"

	c.corpus()

	// the table of simple type kinds accepted by the real decoder
	c.simpleTable()

	corpusWriter := c.cw
	corpusWriter.Close()
	c.cw = genWriter
	g := NewGen(c.rng)
	n := 170
	if thorough() {
		n = 1500
	}
	for i := 0; i < n; i++ {
		v := g.Value()
		c.noModel = i >= 350
		c.roundTrip(v, "generated", "", true)
		// type IDs of types of the universe
		if i%2 == 0 {
			c.typeIDCase(g.AnyTypeNoNil(3))
		}
	}
	c.cw.Close()
	sum.CaseFiles = append(append([]string{}, corpusWriter.Files...), c.cw.Files...)
}

func (g *Gen) AnyTypeNoNil(depth int) cadence.Type {
	for {
		t := g.AnyType(depth)
		if ct, ok := t.(*cadence.CapabilityType); ok && ct.BorrowType == nil {
			continue
		}
		return t
	}
}

func (c *c41run) typeIDCase(t cadence.Type) {
	id := safeID(t)
	x := freshTy(t, OrderJSONEnc)
	c.sum.Evaluations++
	c.sum.Count("type-id")
	c.cw.Add(fmt.Sprintf("CTyId %s %s", x.Coq(), coqStr(id)), map[string]any{"kind": "type-id", "type": trunc(x.Coq(), 1500), "observed": id, "key": "json-type-id-model"})
}

func (c *c41run) simpleTable() {
	cands := map[string]bool{"Bytes": true, "Capability": true, "Foo": true, "": true}
	for _, t := range allPrimitiveTypes {
		cands[t.ID()] = true
	}
	for _, s := range kindStrings {
		cands[s] = true
	}
	var accepted []string
	for k := range cands { //nolint:maprange
		doc := &JNode{K: JObj, Obj: []JMember{{"type", &JNode{K: JStr, S: "Type"}}, {"value", &JNode{K: JObj, Obj: []JMember{
			{"staticType", &JNode{K: JObj, Obj: []JMember{{"kind", &JNode{K: JStr, S: k}}}}}}}}}}
		v, out := jsonDecode(doc.Bytes())
		if out.cls == "" {
			if tv, ok := v.(cadence.TypeValue); ok && tv.StaticType != nil && tv.StaticType.ID() == k {
				accepted = append(accepted, k)
			}
		}
	}
	sort.Strings(accepted)
	c.sum.Evaluations++
	c.cw.Add("CSimpleTbl "+coqList(accepted, coqStr), map[string]any{"kind": "simple-type-table", "observed": accepted, "key": "json-simple-type-table"})
}
