package main

import (
	_ "unsafe"

	"github.com/onflow/cadence"
)

// The field accessors of composite values/types are unexported in package cadence and are
// reached by the codecs through go:linkname; the harness does the same (read only).

//go:linkname compositeFieldValues github.com/onflow/cadence.getCompositeFieldValues
func compositeFieldValues(cadence.Composite) []cadence.Value

//go:linkname compositeTypeFields github.com/onflow/cadence.getCompositeTypeFields
func compositeTypeFields(cadence.CompositeType) []cadence.Field

//go:linkname interfaceTypeFields github.com/onflow/cadence.getInterfaceTypeFields
func interfaceTypeFields(cadence.InterfaceType) []cadence.Field
