package main

// cbor.go: an independent, minimal CBOR (RFC 8949) item tree: parser for definite-length items
// (major types 0-7 as used by CCF), canonical (shortest-head) serialiser, Coq rendering.

import (
	"encoding/binary"
	"errors"
	"fmt"
	"math/big"
	"strings"
	"unicode/utf8"
)

type CKind int

const (
	CUint CKind = iota
	CNint       // value -1-N
	CBytes
	CText
	CArr
	CMap
	CTag
	CSimple // false 20, true 21, null 22, undefined 23, other simple values
	CFloat  // not produced by CCF; kept opaque
)

type CNode struct {
	K     CKind
	N     uint64 // uint / nint argument / tag number / simple value
	B     []byte // bytes / text (raw UTF-8) / float payload
	Items []*CNode
	// Minimal records whether the head used the shortest encoding (parser only)
	Minimal bool
}

var errTrunc = errors.New("cbor: truncated")

type cparser struct {
	b     []byte
	pos   int
	depth int
}

func (p *cparser) head() (major byte, arg uint64, minimal bool, info byte, err error) {
	if p.pos >= len(p.b) {
		return 0, 0, false, 0, errTrunc
	}
	ib := p.b[p.pos]
	p.pos++
	major, info = ib>>5, ib&0x1f
	switch {
	case info < 24:
		return major, uint64(info), true, info, nil
	case info == 24:
		if p.pos+1 > len(p.b) {
			return 0, 0, false, 0, errTrunc
		}
		arg = uint64(p.b[p.pos])
		p.pos++
		return major, arg, arg >= 24, info, nil
	case info == 25:
		if p.pos+2 > len(p.b) {
			return 0, 0, false, 0, errTrunc
		}
		arg = uint64(binary.BigEndian.Uint16(p.b[p.pos:]))
		p.pos += 2
		return major, arg, arg > 0xff, info, nil
	case info == 26:
		if p.pos+4 > len(p.b) {
			return 0, 0, false, 0, errTrunc
		}
		arg = uint64(binary.BigEndian.Uint32(p.b[p.pos:]))
		p.pos += 4
		return major, arg, arg > 0xffff, info, nil
	case info == 27:
		if p.pos+8 > len(p.b) {
			return 0, 0, false, 0, errTrunc
		}
		arg = binary.BigEndian.Uint64(p.b[p.pos:])
		p.pos += 8
		return major, arg, arg > 0xffffffff, info, nil
	}
	return 0, 0, false, info, fmt.Errorf("cbor: unsupported additional info %d (indefinite length or reserved)", info)
}

func (p *cparser) item() (*CNode, error) {
	p.depth++
	defer func() { p.depth-- }()
	if p.depth > 2000 {
		return nil, errors.New("cbor: too deep")
	}
	major, arg, minimal, info, err := p.head()
	if err != nil {
		return nil, err
	}
	switch major {
	case 0:
		return &CNode{K: CUint, N: arg, Minimal: minimal}, nil
	case 1:
		return &CNode{K: CNint, N: arg, Minimal: minimal}, nil
	case 2, 3:
		if uint64(len(p.b)-p.pos) < arg {
			return nil, errTrunc
		}
		n := &CNode{K: CBytes, B: append([]byte(nil), p.b[p.pos:p.pos+int(arg)]...), Minimal: minimal}
		if major == 3 {
			n.K = CText
		}
		p.pos += int(arg)
		return n, nil
	case 4, 5:
		cnt := arg
		if major == 5 {
			cnt = arg * 2
		}
		if cnt > uint64(len(p.b)-p.pos) {
			return nil, errTrunc
		}
		n := &CNode{K: CArr, Minimal: minimal}
		if major == 5 {
			n.K = CMap
		}
		for i := uint64(0); i < cnt; i++ {
			c, err := p.item()
			if err != nil {
				return nil, err
			}
			n.Items = append(n.Items, c)
		}
		return n, nil
	case 6:
		c, err := p.item()
		if err != nil {
			return nil, err
		}
		return &CNode{K: CTag, N: arg, Items: []*CNode{c}, Minimal: minimal}, nil
	default:
		if info >= 25 && info <= 27 {
			w := map[byte]int{25: 2, 26: 4, 27: 8}[info]
			return &CNode{K: CFloat, N: uint64(info), B: append([]byte(nil), p.b[p.pos-w:p.pos]...), Minimal: true}, nil
		}
		return &CNode{K: CSimple, N: arg, Minimal: minimal && !(info == 24 && arg < 32)}, nil
	}
}

// parseCBOR parses exactly one item that must span all of b.
func parseCBOR(b []byte) (*CNode, error) {
	p := &cparser{b: b}
	n, err := p.item()
	if err != nil {
		return nil, err
	}
	if p.pos != len(b) {
		return nil, fmt.Errorf("cbor: %d trailing bytes", len(b)-p.pos)
	}
	return n, nil
}

func cborHead(major byte, arg uint64) []byte {
	m := major << 5
	switch {
	case arg < 24:
		return []byte{m | byte(arg)}
	case arg <= 0xff:
		return []byte{m | 24, byte(arg)}
	case arg <= 0xffff:
		return []byte{m | 25, byte(arg >> 8), byte(arg)}
	case arg <= 0xffffffff:
		return []byte{m | 26, byte(arg >> 24), byte(arg >> 16), byte(arg >> 8), byte(arg)}
	}
	out := make([]byte, 9)
	out[0] = m | 27
	binary.BigEndian.PutUint64(out[1:], arg)
	return out
}

// Bytes: canonical serialisation (shortest heads, definite lengths).
func (n *CNode) Bytes() []byte {
	switch n.K {
	case CUint:
		return cborHead(0, n.N)
	case CNint:
		return cborHead(1, n.N)
	case CBytes:
		return append(cborHead(2, uint64(len(n.B))), n.B...)
	case CText:
		return append(cborHead(3, uint64(len(n.B))), n.B...)
	case CArr:
		out := cborHead(4, uint64(len(n.Items)))
		for _, c := range n.Items {
			out = append(out, c.Bytes()...)
		}
		return out
	case CMap:
		out := cborHead(5, uint64(len(n.Items)/2))
		for _, c := range n.Items {
			out = append(out, c.Bytes()...)
		}
		return out
	case CTag:
		return append(cborHead(6, n.N), n.Items[0].Bytes()...)
	case CFloat:
		return append([]byte{7<<5 | byte(n.N)}, n.B...)
	}
	if n.N < 24 {
		return []byte{7<<5 | byte(n.N)}
	}
	return []byte{7<<5 | 24, byte(n.N)}
}

func (n *CNode) AllMinimal() bool {
	if !n.Minimal {
		return false
	}
	for _, c := range n.Items {
		if !c.AllMinimal() {
			return false
		}
	}
	return true
}

func (n *CNode) Clone() *CNode {
	c := *n
	c.B = append([]byte(nil), n.B...)
	c.Items = make([]*CNode, len(n.Items))
	for i, x := range n.Items {
		c.Items[i] = x.Clone()
	}
	return &c
}

func (n *CNode) Nodes() []*CNode {
	out := []*CNode{n}
	for _, c := range n.Items {
		out = append(out, c.Nodes()...)
	}
	return out
}

func coqBytes(b []byte) string {
	parts := make([]string, len(b))
	for i, x := range b {
		parts[i] = fmt.Sprint(x)
	}
	s := "["
	for i, p := range parts {
		if i > 0 {
			s += ";"
		}
		s += p
	}
	return s + "]"
}

// bytesAsZ renders a byte string as one big-endian natural number with its length: (len, value);
// compact and cheap to parse in Coq.
func coqBytesN(b []byte) string {
	return fmt.Sprintf("(%d,%s)", len(b), new(big.Int).SetBytes(b).String())
}


// Coq renders the item as a term of type cbor (C42/Cbor.v); ok=false for items the model does not have
// (maps, floats, invalid UTF-8 text).
func (n *CNode) Coq() (string, bool) {
	switch n.K {
	case CUint:
		return fmt.Sprintf("(CUint %d)", n.N), true
	case CNint:
		return fmt.Sprintf("(CNint %d)", n.N), true
	case CBytes:
		return "(CBytes " + coqBytes(n.B) + ")", true
	case CText:
		if !utf8.Valid(n.B) {
			return "", false
		}
		return "(CText " + coqStr(string(n.B)) + ")", true
	case CArr:
		parts := make([]string, len(n.Items))
		for i, c := range n.Items {
			s, ok := c.Coq()
			if !ok {
				return "", false
			}
			parts[i] = s
		}
		return "(CArr [" + strings.Join(parts, ";") + "])", true
	case CTag:
		s, ok := n.Items[0].Coq()
		return fmt.Sprintf("(CTag %d %s)", n.N, s), ok
	case CSimple:
		return fmt.Sprintf("(CSimple %d)", n.N), true
	}
	return "", false
}
