package lib

import (
	"github.com/onflow/cadence/common"
	"github.com/onflow/cadence/interpreter"
)

// MemRecorder is a MemoryGauge recording every usage.
type MemRecorder struct {
	Usages []common.MemoryUsage
	Limit  uint64 // 0 = unlimited
	Total  uint64
}

func (m *MemRecorder) MeterMemory(u common.MemoryUsage) error {
	m.Usages = append(m.Usages, u)
	m.Total += u.Amount
	return nil
}

func (m *MemRecorder) Reset() { m.Usages = m.Usages[:0]; m.Total = 0 }

// SumKind sums the amounts metered for one memory kind.
func (m *MemRecorder) SumKind(k common.MemoryKind) uint64 {
	var s uint64
	for _, u := range m.Usages {
		if u.Kind == k {
			s += u.Amount
		}
	}
	return s
}

// NewInterp returns a bare interpreter usable as the context argument of value methods,
// metering into the given gauge (may be nil).
func NewInterp(gauge common.MemoryGauge) *interpreter.Interpreter {
	inter, err := interpreter.NewInterpreter(
		nil,
		common.StringLocation("verif"),
		&interpreter.Config{
			Storage:     interpreter.NewInMemoryStorage(nil, nil),
			MemoryGauge: gauge,
		},
	)
	if err != nil {
		panic(err)
	}
	return inter
}
