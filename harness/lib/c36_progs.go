package lib

// Generated contracts and programs shared by the C36 (concurrency) and C31 (metering vs. history) harnesses.

import (
	"fmt"
	"strings"
)

// ---------------------------------------------------------------- shared contracts

// Shared contracts deployed at 0x1.  Every generated program imports them, so their checked programs,
// elaborations, sema types (with lazily filled member / type-ID / entitlement-image caches) and, for the
// VM, their compiled code are shared by all goroutines.
func C36BaseContract(r *Rng) string {
	k := func() int { return 1 + r.Intn(9) }
	return fmt.Sprintf(`
access(all) contract Base {
    access(all) entitlement E1
    access(all) entitlement E2
    access(all) entitlement F1
    access(all) entitlement F2
    access(all) entitlement mapping M {
        E1 -> F1
        E2 -> F2
    }
    access(all) event Made(id: Int, tag: String)

    access(all) struct interface Shape {
        access(all) fun area(): Int
        access(all) view fun name(): String
    }
    access(all) struct Sq: Shape {
        access(all) let s: Int
        init(_ s: Int) { self.s = s }
        access(all) fun area(): Int { return self.s * self.s + %d }
        access(all) view fun name(): String { return "sq" }
    }
    access(all) struct Rect: Shape {
        access(all) let w: Int
        access(all) let h: Int
        init(_ w: Int, _ h: Int) { self.w = w; self.h = h }
        access(all) fun area(): Int { return self.w * self.h }
        access(all) view fun name(): String { return "rect" }
    }
    access(all) struct Inner {
        access(all) var n: Int
        init(_ n: Int) { self.n = n }
        access(F1) fun bump(): Int { self.n = self.n + 1; return self.n }
        access(F2) fun zero() { self.n = 0 }
        access(all) view fun get(): Int { return self.n }
    }
    access(all) struct Outer {
        access(mapping M) let inner: Inner
        init(_ n: Int) { self.inner = Inner(n) }
    }
    access(all) resource interface HasVal {
        access(all) view fun val(): Int
    }
    access(all) resource R: HasVal {
        access(all) var v: Int
        init(_ v: Int) { self.v = v }
        access(all) view fun val(): Int { return self.v }
        access(E1) fun inc(_ d: Int) { self.v = self.v + d }
    }
    access(all) fun makeR(_ v: Int): @R {
        emit Made(id: v, tag: "r")
        return <- create R(v)
    }
    // composites with several (direct and inherited) interface conformances whose conditions are ORDER SENSITIVE:
    // every interface emits an event from its pre-condition of the same function and has its own failing bound,
    // so the order in which the conformances are applied is visible in the event sequence and in the message
    // of the first failing condition
    access(all) event Cond(tag: String)
    access(all) struct interface C1 {
        access(all) fun chk(_ n: Int): Int {
            pre {
                emit Cond(tag: "C1")
                n > 0: "C1 failed"
            }
        }
    }
    access(all) struct interface C2 {
        access(all) fun chk(_ n: Int): Int {
            pre {
                emit Cond(tag: "C2")
                n > 1: "C2 failed"
            }
            post {
                emit Cond(tag: "C2 post")
            }
        }
    }
    access(all) struct interface C3: C1 {
        access(all) fun chk(_ n: Int): Int {
            pre {
                emit Cond(tag: "C3")
                n > 2: "C3 failed"
            }
        }
    }
    access(all) struct Multi: C1, C2 {
        init() {}
        access(all) fun chk(_ n: Int): Int { return n + 1 }
    }
    access(all) struct Inh: C3, C2 {
        init() {}
        access(all) fun chk(_ n: Int): Int { return n + 2 }
    }
    access(all) resource interface RC1 {
        access(all) fun touch(_ n: Int) {
            pre { emit Cond(tag: "RC1") }
            post { emit Cond(tag: "RC1 post") }
        }
    }
    access(all) resource interface RC2 {
        access(all) fun touch(_ n: Int) {
            pre {
                emit Cond(tag: "RC2")
                n >= 0: "RC2 failed"
            }
        }
    }
    access(all) resource MR: HasVal, RC1, RC2 {
        access(all) var v: Int
        init() { self.v = 0 }
        access(all) view fun val(): Int { return self.v }
        access(all) fun touch(_ n: Int) { self.v = self.v + n }
    }
    access(all) fun makeMR(): @MR { return <- create MR() }
    access(all) fun sumRange(_ a: Int, _ b: Int): Int {
        var s = 0
        for i in InclusiveRange(a, b) { s = s + i }
        return s
    }
    access(all) fun shapes(): [{Shape}] { return [Sq(%d), Rect(%d, %d)] }
    access(all) var counter: Int
    init() { self.counter = %d }
}
`, k(), k(), k(), k(), 10+r.Intn(90))
}

func C36LibContract(r *Rng) string {
	k := func() int { return 1 + r.Intn(9) }
	return fmt.Sprintf(`
import Base from 0x1

access(all) contract Lib {
    access(all) struct Box: Base.Shape {
        access(all) let d: Int
        init(_ d: Int) { self.d = d }
        access(all) fun area(): Int { return self.d * %d }
        access(all) view fun name(): String { return "box" }
    }
    access(all) fun total(_ xs: [{Base.Shape}]): Int {
        var t = 0
        for x in xs { t = t + x.area() }
        return t
    }
    access(all) fun viaRef(_ o: auth(Base.E1) &Base.Outer): Int {
        return o.inner.bump()
    }
    access(all) fun viaBoth(_ o: auth(Base.E1, Base.E2) &Base.Outer): Int {
        let a = o.inner.bump()
        o.inner.zero()
        return a + o.inner.get()
    }
    access(all) fun words(_ s: String): [String] { return s.split(separator: " ") }
    access(all) fun fold8(_ n: UInt8): UInt8 {
        var a: UInt8 = %d
        for i in InclusiveRange<UInt8>(0, n) { a = a ^ i }
        return a
    }
    access(all) fun names(_ xs: [{Base.Shape}]): String {
        var s = ""
        for x in xs { s = s.concat(x.name()) }
        return s
    }
    access(all) fun bumpR(_ r: auth(Base.E1) &Base.R, _ d: Int): Int {
        r.inc(d)
        return r.val()
    }
}
`, k(), r.Intn(200))
}

// C36ColContract declares an enum.  Compiling a program with an enum declaration for the VM writes into the
// shared sema.Elaboration (known finding of C36), so programs importing it are marked HasEnum and the C36
// harness runs them with the VM only in its dedicated probe.
func C36ColContract(r *Rng) string {
	return fmt.Sprintf(`
access(all) contract Col {
    access(all) enum Color: UInt8 {
        access(all) case red
        access(all) case green
        access(all) case blue
    }
    access(all) fun pick(_ i: Int): Color {
        return Color(rawValue: UInt8(i %% 3)) ?? Color.red
    }
    access(all) let seed: Int
    init() { self.seed = %d }
}
`, r.Intn(100))
}

// ---------------------------------------------------------------- programs

type C36Program struct {
	ID    string `json:"id"`
	Kind  string `json:"kind"` // script | tx
	Src   string `json:"src"`
	Forms []string `json:"forms"`
	HasEnum bool `json:"has_enum"`
}

var intTypes = []string{"Int", "Int8", "Int16", "Int32", "Int64", "Int128", "Int256",
	"UInt", "UInt8", "UInt16", "UInt32", "UInt64", "UInt128", "UInt256",
	"Word8", "Word16", "Word32", "Word64", "Word128", "Word256"}

var typeExprs = []string{
	"Int", "String", "[Int]", "{String: Int}", "Int?", "Address", "&Base.R", "{Base.Shape}", "Base.Sq",
	"fun(Int): String", "auth(Base.E1) &Base.Outer", "auth(Base.E1, Base.E2) &Base.Outer",
	"auth(Base.E1 | Base.E2) &Base.R", "Capability<&Base.R>", "[{Base.Shape}; 2]", "&{Base.HasVal}",
	"@Base.R", "Lib.Box", "InclusiveRange<Int>", "UFix64", "Fix64", "Character", "Path", "Type",
	"&[Int]", "auth(Mutate) &[Int]", "{Int: [String?]}", "AnyStruct", "&AnyResource",
	"fun(auth(Base.E1) &Base.R, Int): Int", "Capability", "&Account", "auth(Storage) &Account",
}

// snippet returns statements appending strings to `out` (and the name of the form).
func snippet(r *Rng, n int) (string, string) {
	a, b := r.Intn(12), 1+r.Intn(9)
	v := fmt.Sprintf("v%d", n)
	switch r.Intn(36) {
	case 30, 31, 32:
		return fmt.Sprintf("out.append(Base.Multi().chk(%d).toString())\n out.append(Base.Inh().chk(%d).toString())", 2+r.Intn(3), 3+r.Intn(3)), "conformance-order"
	case 33:
		return fmt.Sprintf("out.append(Base.%s().chk(%d).toString())", Pick(r, []string{"Multi", "Inh"}), r.Intn(3)), "conformance-order(maybe-fails)"
	case 34, 35:
		return fmt.Sprintf("let %s <- Base.makeMR()\n %s.touch(%d)\n out.append(%s.val().toString())\n destroy %s", v, v, a, v, v), "conformance-order-resource"
	case 0:
		return fmt.Sprintf("out.append(Base.sumRange(%d, %d).toString())", a, a+b), "sumRange"
	case 1:
		return fmt.Sprintf("let %s = Base.Sq(%d)\n out.append(%s.area().toString())\n out.append(%s.name())", v, a, v, v), "struct"
	case 2:
		return fmt.Sprintf("out.append(Lib.total(Base.shapes()).toString())\n out.append(Lib.names(Base.shapes()))"), "shapes"
	case 3:
		return fmt.Sprintf("let %s = Base.Outer(%d)\n let %sr = &%s as auth(Base.E1) &Base.Outer\n out.append(%sr.inner.bump().toString())\n out.append(Lib.viaRef(%sr).toString())", v, a, v, v, v, v), "mapped-access"
	case 4:
		return fmt.Sprintf("let %s = Base.Outer(%d)\n let %sr = &%s as auth(Base.E1, Base.E2) &Base.Outer\n out.append(Lib.viaBoth(%sr).toString())\n %sr.inner.zero()\n out.append(%s.inner.get().toString())", v, a, v, v, v, v, v), "mapped-access-2"
	case 5:
		return fmt.Sprintf("let %s <- Base.makeR(%d)\n let %sr = &%s as auth(Base.E1) &Base.R\n %sr.inc(%d)\n out.append(Lib.bumpR(%sr, %d).toString())\n out.append(%s.val().toString())\n destroy %s", v, a, v, v, v, b, v, a, v, v), "resource"
	case 6, 7, 8:
		t := Pick(r, intTypes)
		lo, hi, st := r.Intn(4), 4+r.Intn(6), 1+r.Intn(3)
		if r.Bool() && !strings.HasPrefix(t, "U") && !strings.HasPrefix(t, "W") {
			return fmt.Sprintf("var %s: %s = 0\n for i in InclusiveRange<%s>(%d, -%d, step: -%d) { %s = %s + i }\n out.append(%s.toString())", v, t, t, hi, lo, st, v, v, v), "range-down:" + t
		}
		return fmt.Sprintf("var %s: %s = 0\n for i in InclusiveRange<%s>(%d, %d, step: %d) { %s = %s + i }\n out.append(%s.toString())\n out.append(InclusiveRange<%s>(%d, %d).contains(%d).toString())", v, t, t, lo, hi, st, v, v, v, t, lo, hi, a), "range:" + t
	case 9:
		return fmt.Sprintf("out.append(\"abc\".concat(\"d%d\").length.toString())\n out.append(\"Hello World %d\".toLower())\n out.append(String.join(Lib.words(\"a b c%d\"), separator: \"-\"))\n out.append(\"hello\".slice(from: 1, upTo: %d))", a, a, b, 2+r.Intn(3)), "string"
	case 10:
		return fmt.Sprintf("let %s = [%d, %d, 3]\n out.append(%s.map(fun (x: Int): Int { return x * %d }).length.toString())\n out.append(%s.contains(%d).toString())\n out.append(%s.reverse()[0].toString())\n out.append(%s.filter(view fun (x: Int): Bool { return x > %d }).length.toString())", v, a, b, v, b, v, a, v, v, b), "array"
	case 11:
		return fmt.Sprintf("let %s: {String: Int} = {\"a\": %d, \"b\": %d}\n out.append(%s.keys.length.toString())\n out.append((%s[\"a\"] ?? 0).toString())\n out.append(%s.containsKey(\"c\").toString())\n %s.forEachKey(fun (k: String): Bool { out.append(k.length.toString()); return true })", v, a, b, v, v, v, v), "dictionary"
	case 12:
		return fmt.Sprintf("let %s: Int? = %d\n out.append((%s.map(fun (x: Int): Int { return x + %d }) ?? 0).toString())\n let %sa: Address = 0x%d\n out.append(%sa.toString())\n out.append(%sa.toBytes().length.toString())", v, a, v, b, v, b, v, v), "optional-address"
	case 13, 14:
		t := Pick(r, typeExprs)
		t2 := Pick(r, typeExprs)
		return fmt.Sprintf("out.append(Type<%s>().identifier)\n out.append(Type<%s>().isSubtype(of: Type<%s>()).toString())\n out.append((Type<%s>() == Type<%s>()).toString())", t, t, t2, t, t2), "type-id"
	case 15:
		return fmt.Sprintf("let %s: {Base.Shape} = Base.Sq(%d)\n out.append(%s.getType().identifier)\n out.append(%s.isInstance(Type<Base.Sq>()).toString())\n if let q = %s as? Base.Sq { out.append(q.s.toString()) }\n out.append([%s].getType().identifier)", v, a, v, v, v, v), "cast"
	case 16:
		return fmt.Sprintf("let %s: UFix64 = %d.5\n out.append((%s * 2.25).toString())\n let %sf: Fix64 = -%d.125\n out.append((%sf / 2.0).toString())\n out.append(%s.toBigEndianBytes().length.toString())", v, a, v, v, b, v, v), "fixed-point"
	case 17:
		return fmt.Sprintf("out.append((Col.Color(rawValue: %d)?.rawValue ?? 99).toString())\n out.append(Col.Color.green.rawValue.toString())\n out.append(Col.pick(%d).rawValue.toString())", r.Intn(5), r.Intn(3)), "enum"
	case 18:
		return fmt.Sprintf("let %s = [1, 2]\n out.append(%s[%d].toString())", v, v, r.Intn(4)), "index(maybe-oob)"
	case 19:
		return fmt.Sprintf("let %s: UInt8 = %d\n out.append((%s + %d).toString())", v, 200+r.Intn(50), v, r.Intn(60)), "uint8-add(maybe-overflow)"
	case 20:
		return fmt.Sprintf("out.append(Base.counter.toString())"), "contract-field"
	case 21:
		return fmt.Sprintf("let %s = fun (x: Int): Int { return x + %d }\n out.append(%s(%d).toString())\n out.append(%s.getType().identifier)", v, a, v, b, v), "closure"
	case 22:
		return fmt.Sprintf("let %s: [{Base.Shape}] = [Base.Sq(%d), Lib.Box(%d), Base.Rect(%d, %d)]\n for x in %s { out.append(x.name()); out.append(x.area().toString()) }", v, a, b, a, b, v), "interfaces"
	case 23:
		t := Pick(r, intTypes)
		return fmt.Sprintf("let %s: %s = %d\n out.append(%s.toString())\n out.append(%s.toBigEndianBytes().length.toString())\n out.append((%s %% 3).toString())\n out.append(%s(%d).toString())", v, t, a, v, v, v, t, b), "int-members:" + t
	case 24:
		return fmt.Sprintf("let %s = [%d, %d]\n let %sr = &%s as auth(Mutate) &[Int]\n %sr.append(%d)\n out.append(%sr.length.toString())\n let %sq = &%s as &[Int]\n out.append(%sq[0].toString())", v, a, b, v, v, v, a, v, v, v, v), "array-ref"
	case 25:
		return fmt.Sprintf("let %s: Int? = %s\n out.append(%s!.toString())", v, Pick(r, []string{"nil", "1", "2"}), v), "force(maybe-nil)"
	case 26:
		return fmt.Sprintf("let %s <- Base.makeR(%d)\n let %sh: &{Base.HasVal} = &%s\n out.append(%sh.val().toString())\n out.append(%sh.getType().identifier)\n destroy %s", v, a, v, v, v, v, v), "intersection-ref"
	case 27:
		return fmt.Sprintf("let %s <- [<- Base.makeR(%d), <- Base.makeR(%d)]\n out.append(%s.length.toString())\n out.append(%s[1].val().toString())\n destroy %s", v, a, b, v, v, v), "resource-array"
	case 28:
		return fmt.Sprintf("out.append(Lib.fold8(%d).toString())\n out.append(Lib.Box(%d).area().toString())", r.Intn(40), a), "lib-fns"
	default:
		return fmt.Sprintf("var %s = %d\n while %s < %d { %s = %s + %d }\n out.append(%s.toString())\n out.append(%s > %d ? \"big\" : \"small\")", v, a, v, a+20, v, v, b, v, v, 25), "loop"
	}
}

// numericSnippet: integer-heavy statements for the metering property: InclusiveRange of every integer type (the
// only user of the interpreter's small-integer value cache: its 0 and 1 of the element type), default and
// explicit steps, values around the int8 / 64-bit / 128-bit boundaries, big-integer arithmetic, conversions.
func numericSnippet(r *Rng, n int) (string, string) {
	v := fmt.Sprintf("n%d", n)
	t := Pick(r, intTypes)
	signed := strings.HasPrefix(t, "Int")
	switch r.Intn(11) {
	case 9, 10: // built-in (native) functions as first-class values: their dynamic type is requested
		t2 := Pick(r, intTypes)
		return fmt.Sprintf("let %s: AnyStruct = %s\n out.append(%s.isInstance(Type<Int>()).toString())\n out.append(%s.getType().identifier)\n out.append((%s as? fun(Int): Int) == nil ? \"no\" : \"yes\")\n let %sg: AnyStruct = %s\n out.append(%sg.getType().identifier)",
			v, t, v, v, v, v, t2, v), "num:builtin-function-value:" + t
	case 0: // default step (cached 1), contains (cached 0)
		lo, hi := r.Intn(3), 3+r.Intn(5)
		return fmt.Sprintf("let %s = InclusiveRange<%s>(%d, %d)\n var %ss: %s = 0\n for i in %s { %ss = %ss + i }\n out.append(%ss.toString())\n out.append(%s.contains(%d).toString())\n out.append(%s.step.toString())",
			v, t, lo, hi, v, t, v, v, v, v, v, r.Intn(9), v), "num:range-default-step:" + t
	case 1: // around the int8 boundary
		lo := 120 + r.Intn(6)
		if t == "Int8" {
			return fmt.Sprintf("var %s: Int8 = 0\n for i in InclusiveRange<Int8>(%d, 127) { %s = i }\n out.append(%s.toString())", v, lo, v, v), "num:range-int8-max"
		}
		return fmt.Sprintf("var %s: %s = 0\n for i in InclusiveRange<%s>(%d, %d) { %s = i }\n out.append(%s.toString())", v, t, t, lo, lo+3+r.Intn(8), v, v), "num:range-around-127:" + t
	case 2: // negative steps for signed types
		if signed {
			return fmt.Sprintf("var %s: %s = 0\n for i in InclusiveRange<%s>(%d, -%d, step: -%d) { %s = %s + i }\n out.append(%s.toString())", v, t, t, 2+r.Intn(4), 1+r.Intn(4), 1+r.Intn(2), v, v, v), "num:range-negative-step:" + t
		}
		k := r.Intn(3)
		return fmt.Sprintf("var %s: %s = 0\n for i in InclusiveRange<%s>(%d, %d, step: 1) { %s = %s + i }\n out.append(%s.toString())", v, t, t, k, k, v, v, v), "num:range-single:" + t
	case 3: // big integers
		return fmt.Sprintf("let %s: Int = 18446744073709551615 + %d\n out.append((%s * %s).toString())\n out.append((%s / 3).toString())\n out.append((%s << %d).toString())\n let %su: UInt = UInt(%s)\n out.append((%su %% 1000000007).toString())",
			v, r.Intn(5), v, v, v, v, 1+r.Intn(70), v, v, v), "num:big-int"
	case 4: // 128/256 bit
		w := Pick(r, []string{"Int128", "Int256", "UInt128", "UInt256", "Word128", "Word256"})
		return fmt.Sprintf("let %s: %s = 170141183460469231731687303715884105727\n out.append((%s - %d).toString())\n out.append((%s / 7).toString())\n out.append(%s.toBigEndianBytes().length.toString())",
			v, w, v, r.Intn(100), v, v), "num:wide:" + w
	case 5: // conversions
		return fmt.Sprintf("let %s: %s = %d\n out.append(Int(%s).toString())\n out.append(UInt64(%s).toString())\n out.append(Int256(%s).toString())\n out.append(UFix64(UInt8(%s %% 100)).toString())",
			v, t, r.Intn(127), v, v, v, v), "num:convert:" + t
	case 6: // parsing and formatting
		return fmt.Sprintf("out.append((%s.fromString(\"%d\") ?? 0).toString())\n out.append((Int.fromString(\"-%d\") ?? 0).toString())\n out.append((%s.fromBigEndianBytes([%d]) ?? 0).toString())",
			t, r.Intn(120), r.Intn(1000), t, r.Intn(120)), "num:from-string:" + t
	case 7: // small literals of every width in arithmetic (the values the cache would hold)
		return fmt.Sprintf("let %sa: %s = 0\n let %sb: %s = 1\n out.append((%sa + %sb).toString())\n out.append((%sb * %sb).toString())\n out.append((%sa < %sb).toString())",
			v, t, v, t, v, v, v, v, v, v), "num:zero-one:" + t
	default: // range values stored and reused
		return fmt.Sprintf("let %s = InclusiveRange<%s>(0, %d, step: %d)\n out.append(%s.start.toString())\n out.append(%s.end.toString())\n out.append(%s.contains(%d).toString())\n out.append(%s.getType().identifier)",
			v, t, 10+r.Intn(100), 1+r.Intn(7), v, v, v, r.Intn(100), v), "num:range-fields:" + t
	}
}

// badSnippet returns an ill-typed statement (each gives at least one checker error).
func badSnippet(r *Rng, n int) (string, string) {
	v := fmt.Sprintf("b%d", n)
	switch r.Intn(8) {
	case 0:
		return fmt.Sprintf("let %s: Int = \"x\"", v), "bad:mismatch"
	case 1:
		return fmt.Sprintf("out.append(Base.Sq(1).nope)"), "bad:unknown-member"
	case 2:
		return fmt.Sprintf("let %s = Base.Outer(1)\n let %sr = &%s as auth(Base.E1) &Base.Outer\n %sr.inner.zero()", v, v, v, v), "bad:entitlement"
	case 3:
		return fmt.Sprintf("let %s <- Base.makeR(1)", v), "bad:resource-loss"
	case 4:
		return fmt.Sprintf("out.append(Lib.missing(%d))", n), "bad:unknown-function"
	case 5:
		return fmt.Sprintf("let %s <- Base.makeR(1)\n %s.inc(2)\n destroy %s", v, v, v), "bad:entitlement-on-owned" // owned value: allowed -> not an error; keeps a valid form in the mix
	case 6:
		return fmt.Sprintf("let %s: {Base.Shape} = 5", v), "bad:conformance"
	default:
		return fmt.Sprintf("let %s = Base.Inner(1)\n let %sr = &%s as &Base.Inner\n %sr.bump()", v, v, v, v), "bad:unauthorized-ref"
	}
}

func C36GenProgram(r *Rng, id int, numeric bool) C36Program {
	p := C36Program{ID: fmt.Sprintf("p%03d", id)}
	n := 2 + r.Intn(6)
	var body []string
	for i := 0; i < n; i++ {
		s, f := snippet(r, i)
		for numeric && strings.Contains(f, "maybe") {
			// the metering harness wants complete runs: no deliberately failing statements
			s, f = snippet(r, i)
		}
		body = append(body, s)
		p.Forms = append(p.Forms, f)
	}
	if r.Chance(1, 5) {
		s, f := badSnippet(r, n)
		pos := r.Intn(len(body) + 1)
		body = append(body[:pos], append([]string{s}, body[pos:]...)...)
		p.Forms = append(p.Forms, f)
	}
	if numeric {
		for i := 0; i < 2+r.Intn(4); i++ {
			s, f := numericSnippet(r, 100+i)
			pos := r.Intn(len(body) + 1)
			body = append(body[:pos], append([]string{s}, body[pos:]...)...)
			p.Forms = append(p.Forms, f)
		}
	}
	for _, f := range p.Forms {
		if f == "enum" {
			p.HasEnum = true
		}
	}
	imports := "import Base from 0x1\nimport Lib from 0x1\n"
	if r.Chance(1, 6) {
		imports = "import Lib from 0x1\nimport Base from 0x1\n"
	}
	if p.HasEnum {
		imports += "import Col from 0x1\n"
	}
	stmts := " " + strings.Join(body, "\n ")
	if r.Chance(1, 4) {
		p.Kind = "tx"
		slot := r.Intn(3)
		p.Src = fmt.Sprintf(`%s
transaction {
 prepare(acct: auth(Storage, Capabilities) &Account) {
  var out: [String] = []
  if let old <- acct.storage.load<@Base.R>(from: /storage/r%d) { out.append(old.val().toString()); destroy old }
  acct.storage.save(<- Base.makeR(%d), to: /storage/r%d)
  let br = acct.storage.borrow<auth(Base.E1) &Base.R>(from: /storage/r%d)!
  br.inc(%d)
  out.append(br.val().toString())
%s
  log(String.join(out, separator: ","))
 }
}
`, imports, slot, r.Intn(50), slot, slot, r.Intn(9), stmts)
		p.Forms = append(p.Forms, "tx-storage")
		return p
	}
	p.Kind = "script"
	p.Src = fmt.Sprintf(`%s
access(all) fun main(): [String] {
 var out: [String] = []
%s
 return out
}
`, imports, stmts)
	return p
}

// mutateSource produces a lexer/parser input that is usually not a valid program.
func C36MutateSource(r *Rng, s string) string {
	b := []byte(s)
	switch r.Intn(5) {
	case 0:
		return string(b[:r.Intn(len(b)+1)])
	case 1:
		i := r.Intn(len(b))
		return string(b[:i]) + Pick(r, []string{"/*", "\"", "\\(", "{", ")", "0x", "é", "\"\\(a", "// c\n"}) + string(b[i:])
	case 2:
		i, j := r.Intn(len(b)), r.Intn(len(b))
		if i > j {
			i, j = j, i
		}
		return string(b[:i]) + string(b[j:])
	case 3:
		i := r.Intn(len(b))
		return string(b[i:]) + string(b[:i])
	default:
		return s + "\n" + s[:r.Intn(len(s))]
	}
}
