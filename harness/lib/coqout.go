package lib

import (
	"bufio"
	"encoding/json"
	"fmt"
	"math/big"
	"os"
	"path/filepath"
	"strings"
)

// Z renders an integer as a Coq Z literal (in Z_scope).
func Z(z *big.Int) string {
	if z.BitLen() > 192 {
		// limbs, most significant first: (zl neg [l_k; ...; l_0])
		words := new(big.Int).Abs(z).Bits()
		parts := make([]string, len(words))
		for i, w := range words {
			parts[len(words)-1-i] = fmt.Sprint(uint64(w))
		}
		neg := "false"
		if z.Sign() < 0 {
			neg = "true"
		}
		return "(zl " + neg + " [" + strings.Join(parts, ";") + "])"
	}
	if z.Sign() < 0 {
		return "(" + z.String() + ")"
	}
	return z.String()
}

func ZI(i int64) string { return Z(big.NewInt(i)) }

// ResZ renders an outcome as a Coq `res Z` term.
func ResZ(cls string, z *big.Int) string {
	if cls != "" {
		return "(Err " + cls + ")"
	}
	return "(Ok " + Z(z) + ")"
}

// CoqString renders a Go string of bytes as a Coq list of byte values (Z).
func ZList(bs []byte) string {
	parts := make([]string, len(bs))
	for i, b := range bs {
		parts[i] = fmt.Sprint(b)
	}
	return "[" + strings.Join(parts, ";") + "]"
}

// CaseWriter shards Coq case files: each file defines `cases : list T`, evaluates
// `mism := Eval vm_compute in (mismatches <checkfn> cases)` and prints it.
// A sidecar .jsonl keeps a human-readable description per case for replays.
type CaseWriter struct {
	Dir      string
	Prefix   string
	Header   string // Require Imports etc.
	ElemType string // Coq type of a case
	CheckFn  string // Coq function: ElemType -> bool
	PerFile  int
	n        int
	file     int
	w        *bufio.Writer
	f        *os.File
	jw       *bufio.Writer
	jf       *os.File
	Files    []string
}

func (c *CaseWriter) open() {
	name := fmt.Sprintf("%s_%03d", c.Prefix, c.file)
	path := filepath.Join(c.Dir, name+".v")
	f, err := os.Create(path)
	if err != nil {
		panic(err)
	}
	c.f = f
	c.w = bufio.NewWriter(f)
	c.Files = append(c.Files, path)
	fmt.Fprintf(c.w, "%s\nOpen Scope Z_scope.\nDefinition cases : list (%s) := [\n", c.Header, c.ElemType)
	jf, err := os.Create(filepath.Join(c.Dir, name+".jsonl"))
	if err != nil {
		panic(err)
	}
	c.jf = jf
	c.jw = bufio.NewWriter(jf)
}

func (c *CaseWriter) closeFile() {
	if c.w == nil {
		return
	}
	fmt.Fprintf(c.w, "\n].\nDefinition mism := Eval vm_compute in (mismatches %s cases).\nPrint mism.\n", c.CheckFn)
	c.w.Flush()
	c.f.Close()
	c.jw.Flush()
	c.jf.Close()
	c.w = nil
	c.file++
	c.n = 0
}

// Add appends one case: the Coq term and a JSON-able description.
func (c *CaseWriter) Add(term string, desc any) {
	if c.PerFile == 0 {
		c.PerFile = 800
	}
	if c.w == nil {
		c.open()
	}
	if c.n > 0 {
		c.w.WriteString(";\n")
	}
	c.w.WriteString(term)
	b, _ := json.Marshal(desc)
	c.jw.Write(b)
	c.jw.WriteString("\n")
	c.n++
	if c.n >= c.PerFile {
		c.closeFile()
	}
}

func (c *CaseWriter) Close() { c.closeFile() }

// Summary is written by every harness as summary.json in the work directory.
type Summary struct {
	Evaluations        int            `json:"evaluations"`
	DistinctNontrivial int            `json:"distinct_nontrivial"`
	Rule               string         `json:"rule"`
	Samples            []any          `json:"samples"`
	Distribution       map[string]int `json:"distribution"`
	Failures           []Failure      `json:"failures"`
	CaseFiles          []string       `json:"case_files"`
	Extra              map[string]any `json:"extra,omitempty"`
	failPerKey         map[string]int
}

// Failure is a direct property failure observed on the implementation (independent oracle).
type Failure struct {
	Key    string `json:"key"`
	What   string `json:"what"`
	Replay any    `json:"replay"`
}

func (s *Summary) Count(k string) {
	if s.Distribution == nil {
		s.Distribution = map[string]int{}
	}
	s.Distribution[k]++
}

// Fail records a direct failure. At most 3 failures are kept per distinct key (and 600 overall),
// so that one frequent failure class cannot hide another.
func (s *Summary) Fail(key, what string, replay any) {
	if s.failPerKey == nil {
		s.failPerKey = map[string]int{}
	}
	s.failPerKey[key]++
	if s.failPerKey[key] <= 3 && len(s.Failures) < 600 {
		s.Failures = append(s.Failures, Failure{key, what, replay})
	}
}

func (s *Summary) Sample(x any) {
	if len(s.Samples) < 8 {
		s.Samples = append(s.Samples, x)
	}
}

func (s *Summary) Write(dir string) {
	b, _ := json.MarshalIndent(s, "", " ")
	if err := os.WriteFile(filepath.Join(dir, "summary.json"), b, 0o644); err != nil {
		panic(err)
	}
}
